//! C08 helpers: canonical text of operands / operations / tokens (the notation of lean/PdfModel/Drv/C08.lean),
//! the tokeniser built on the real lexer, and a plain printer for token sequences.

use crate::driver::hex;
use pdf::content::*;
use pdf::object::NoResolve;
use pdf::parser::{parse_with_lexer, Lexer, ParseFlags};
use pdf::primitive::{Dictionary, Name, PdfString, Primitive};

pub fn bits(x: f32) -> String {
    format!("{:08x}", x.to_bits())
}

pub fn show_prim(p: &Primitive) -> String {
    match p {
        Primitive::Null => "z".into(),
        Primitive::Boolean(true) => "T".into(),
        Primitive::Boolean(false) => "F".into(),
        Primitive::Integer(i) => format!("i{}", i),
        Primitive::Number(x) => format!("r{}", bits(*x)),
        Primitive::String(s) => format!("s{}", hex(s.as_bytes())),
        Primitive::Name(n) => format!("n{}", hex(n.as_bytes())),
        Primitive::Reference(r) => format!("R{}.{}", r.id, r.gen),
        Primitive::Array(xs) => format!("a({})", xs.iter().map(show_prim).collect::<Vec<_>>().join(",")),
        Primitive::Dictionary(d) => format!("d({})", d.iter().map(|(k, v)| format!("{}={}", hex(k.as_bytes()), show_prim(v))).collect::<Vec<_>>().join(",")),
        Primitive::Stream(_) => "X".into(),
    }
}

fn w(x: Winding) -> &'static str {
    match x {
        Winding::EvenOdd => "0",
        Winding::NonZero => "1",
    }
}

fn show_color(pre: &str, c: &Color) -> String {
    match c {
        Color::Gray(g) => format!("{}g:{}", pre, bits(*g)),
        Color::Rgb(c) => format!("{}rgb:{}:{}:{}", pre, bits(c.red), bits(c.green), bits(c.blue)),
        Color::Cmyk(c) => format!("{}cmyk:{}:{}:{}:{}", pre, bits(c.cyan), bits(c.magenta), bits(c.yellow), bits(c.key)),
        Color::Other(args) => format!("{}o:{}", pre, show_prim(&Primitive::Array(args.clone()))),
    }
}

fn m6(m: &Matrix) -> String {
    format!("{}:{}:{}:{}:{}:{}", bits(m.a), bits(m.b), bits(m.c), bits(m.d), bits(m.e), bits(m.f))
}

/// identity of an inline image as the check plants it: (data length << 24) | (width << 16) | (height << 8) | first data byte
pub fn planted_id(w: u8, h: u8, b: u8) -> u64 {
    (((w as u64) * (h as u64)) << 24) | ((w as u64) << 16) | ((h as u64) << 8) | b as u64
}

pub fn image_id(img: &pdf::object::ImageXObject) -> u64 {
    let d: &pdf::object::ImageDict = &img.inner.info;
    let data = img.inner.data(&NoResolve).map(|v| v.to_vec()).unwrap_or_default();
    let first = data.first().copied().unwrap_or(0);
    ((data.len() as u64) << 24) | ((d.width as u64) << 16) | ((d.height as u64) << 8) | first as u64
}

pub fn show_op(op: &Op) -> String {
    let n = |s: &Name| hex(s.as_bytes());
    match op {
        Op::BeginMarkedContent { tag, properties: None } => format!("BMC:{}", n(tag)),
        Op::BeginMarkedContent { tag, properties: Some(p) } => format!("BDC:{}:{}", n(tag), show_prim(p)),
        Op::EndMarkedContent => "EMC".into(),
        Op::MarkedContentPoint { tag, properties: None } => format!("MP:{}", n(tag)),
        Op::MarkedContentPoint { tag, properties: Some(p) } => format!("DP:{}:{}", n(tag), show_prim(p)),
        Op::Close => "h".into(),
        Op::MoveTo { p } => format!("m:{}:{}", bits(p.x), bits(p.y)),
        Op::LineTo { p } => format!("l:{}:{}", bits(p.x), bits(p.y)),
        Op::CurveTo { c1, c2, p } => format!("c:{}:{}:{}:{}:{}:{}", bits(c1.x), bits(c1.y), bits(c2.x), bits(c2.y), bits(p.x), bits(p.y)),
        Op::Rect { rect } => format!("re:{}:{}:{}:{}", bits(rect.x), bits(rect.y), bits(rect.width), bits(rect.height)),
        Op::EndPath => "n".into(),
        Op::Stroke => "S".into(),
        Op::FillAndStroke { winding } => format!("B:{}", w(*winding)),
        Op::Fill { winding } => format!("f:{}", w(*winding)),
        Op::Shade { name } => format!("sh:{}", n(name)),
        Op::Clip { winding } => format!("W:{}", w(*winding)),
        Op::Save => "q".into(),
        Op::Restore => "Q".into(),
        Op::Transform { matrix } => format!("cm:{}", m6(matrix)),
        Op::LineWidth { width } => format!("w:{}", bits(*width)),
        Op::Dash { pattern, phase } => format!("d:{}:{}", if pattern.is_empty() { "-".to_string() } else { pattern.iter().map(|x| bits(*x)).collect::<Vec<_>>().join(",") }, bits(*phase)),
        Op::LineJoin { join } => format!("j:{}", *join as u8),
        Op::LineCap { cap } => format!("J:{}", *cap as u8),
        Op::MiterLimit { limit } => format!("M:{}", bits(*limit)),
        Op::Flatness { tolerance } => format!("i:{}", bits(*tolerance)),
        Op::GraphicsState { name } => format!("gs:{}", n(name)),
        Op::StrokeColor { color } => show_color("SC", color),
        Op::FillColor { color } => show_color("sc", color),
        Op::FillColorSpace { name } => format!("cs:{}", n(name)),
        Op::StrokeColorSpace { name } => format!("CS:{}", n(name)),
        Op::RenderingIntent { intent } => format!("ri:{}", match intent {
            pdf::object::RenderingIntent::AbsoluteColorimetric => 0,
            pdf::object::RenderingIntent::RelativeColorimetric => 1,
            pdf::object::RenderingIntent::Saturation => 2,
            pdf::object::RenderingIntent::Perceptual => 3,
        }),
        Op::BeginText => "BT".into(),
        Op::EndText => "ET".into(),
        Op::CharSpacing { char_space } => format!("Tc:{}", bits(*char_space)),
        Op::WordSpacing { word_space } => format!("Tw:{}", bits(*word_space)),
        Op::TextScaling { horiz_scale } => format!("Tz:{}", bits(*horiz_scale)),
        Op::Leading { leading } => format!("TL:{}", bits(*leading)),
        Op::TextFont { name, size } => format!("Tf:{}:{}", n(name), bits(*size)),
        Op::TextRenderMode { mode } => format!("Tr:{}", *mode as u8),
        Op::TextRise { rise } => format!("Ts:{}", bits(*rise)),
        Op::MoveTextPosition { translation } => format!("Td:{}:{}", bits(translation.x), bits(translation.y)),
        Op::SetTextMatrix { matrix } => format!("Tm:{}", m6(matrix)),
        Op::TextNewline => "T*".into(),
        Op::TextDraw { text } => format!("Tj:{}", hex(text.as_bytes())),
        Op::TextDrawAdjusted { array } => format!("TJ:{}", if array.is_empty() { "-".to_string() } else {
            array.iter().map(|x| match x {
                TextDrawAdjusted::Text(t) => format!("s{}", hex(t.as_bytes())),
                TextDrawAdjusted::Spacing(s) => format!("r{}", bits(*s)),
            }).collect::<Vec<_>>().join(",")
        }),
        Op::XObject { name } => format!("Do:{}", n(name)),
        Op::InlineImage { image } => format!("II:{}", image_id(image)),
    }
}

pub fn show_ops(ops: &[Op]) -> String {
    if ops.is_empty() { "-".into() } else { ops.iter().map(show_op).collect::<Vec<_>>().join(";") }
}

/// short stable name of the variant (failure signatures, histograms)
pub fn op_kind(op: &Op) -> &'static str {
    match op {
        Op::BeginMarkedContent { properties: None, .. } => "BMC",
        Op::BeginMarkedContent { .. } => "BDC",
        Op::EndMarkedContent => "EMC",
        Op::MarkedContentPoint { properties: None, .. } => "MP",
        Op::MarkedContentPoint { .. } => "DP",
        Op::Close => "Close",
        Op::MoveTo { .. } => "MoveTo",
        Op::LineTo { .. } => "LineTo",
        Op::CurveTo { .. } => "CurveTo",
        Op::Rect { .. } => "Rect",
        Op::EndPath => "EndPath",
        Op::Stroke => "Stroke",
        Op::FillAndStroke { .. } => "FillAndStroke",
        Op::Fill { .. } => "Fill",
        Op::Shade { .. } => "Shade",
        Op::Clip { .. } => "Clip",
        Op::Save => "Save",
        Op::Restore => "Restore",
        Op::Transform { .. } => "Transform",
        Op::LineWidth { .. } => "LineWidth",
        Op::Dash { .. } => "Dash",
        Op::LineJoin { .. } => "LineJoin",
        Op::LineCap { .. } => "LineCap",
        Op::MiterLimit { .. } => "MiterLimit",
        Op::Flatness { .. } => "Flatness",
        Op::GraphicsState { .. } => "GraphicsState",
        Op::StrokeColor { color: Color::Other(_) } => "StrokeColorOther",
        Op::StrokeColor { .. } => "StrokeColor",
        Op::FillColor { color: Color::Other(_) } => "FillColorOther",
        Op::FillColor { .. } => "FillColor",
        Op::FillColorSpace { .. } => "FillColorSpace",
        Op::StrokeColorSpace { .. } => "StrokeColorSpace",
        Op::RenderingIntent { .. } => "RenderingIntent",
        Op::BeginText => "BeginText",
        Op::EndText => "EndText",
        Op::CharSpacing { .. } => "CharSpacing",
        Op::WordSpacing { .. } => "WordSpacing",
        Op::TextScaling { .. } => "TextScaling",
        Op::Leading { .. } => "Leading",
        Op::TextFont { .. } => "TextFont",
        Op::TextRenderMode { .. } => "TextRenderMode",
        Op::TextRise { .. } => "TextRise",
        Op::MoveTextPosition { .. } => "MoveTextPosition",
        Op::SetTextMatrix { .. } => "SetTextMatrix",
        Op::TextNewline => "TextNewline",
        Op::TextDraw { .. } => "TextDraw",
        Op::TextDrawAdjusted { .. } => "TextDrawAdjusted",
        Op::XObject { .. } => "XObject",
        Op::InlineImage { .. } => "InlineImage",
    }
}

// ---------------------------------------------------------------------------------------------------
// tokens

#[derive(Clone, Debug)]
pub enum Tok {
    Prim(Primitive),
    Kw(String),
    /// a whole `BI … ID … EI` construct: planted (width, height, byte) or one that fails (no /H)
    Img(Option<(u8, u8, u8)>),
}

pub fn show_tok(t: &Tok) -> String {
    match t {
        Tok::Prim(p) => format!("P{}", show_prim(p)),
        Tok::Kw(s) => format!("K{}", hex(s.as_bytes())),
        Tok::Img(Some((w, h, b))) => format!("I{}", planted_id(*w, *h, *b)),
        Tok::Img(None) => "Ie".into(),
    }
}

pub fn show_toks(ts: &[Tok]) -> String {
    if ts.is_empty() { "-".into() } else { ts.iter().map(show_tok).collect::<Vec<_>>().join(";") }
}

/// The token sequence of `data` as `OpBuilder::parse` sees it: `parse_with_lexer` succeeds → operand;
/// EOF → end; any other error → the next lexer word is a keyword.  (No inline images: the serializer
/// never writes them.)  `Err` when the lexer itself fails.
pub fn tokenize(data: &[u8]) -> Result<Vec<Tok>, String> {
    let mut lexer = Lexer::new(data);
    let mut out = vec![];
    loop {
        let backup = lexer.get_pos();
        match parse_with_lexer(&mut lexer, &NoResolve, ParseFlags::ANY) {
            Ok(p) => out.push(Tok::Prim(p)),
            Err(e) => {
                if e.is_eof() {
                    break;
                }
                lexer.set_pos(backup);
                let word = lexer.next().map_err(|e| format!("lexer: {}", e))?;
                let s = word.as_str().map_err(|e| format!("keyword not UTF-8: {}", e))?;
                out.push(Tok::Kw(s.to_string()));
            }
        }
        if lexer.get_pos() >= data.len() {
            break;
        }
    }
    Ok(out)
}

// ---------------------------------------------------------------------------------------------------
// plain printer (the harness' own): one canonical spelling per token, single spaces, LF after keywords

pub fn print_real(x: f32, out: &mut Vec<u8>) {
    // `{}` of an f32 is the shortest decimal that reads back to the same value and never uses an exponent;
    // a `.` makes it a real token
    let s = format!("{}", x);
    out.extend_from_slice(s.as_bytes());
    if !s.contains('.') {
        out.extend_from_slice(b".0");
    }
}

pub fn print_string(bs: &[u8], literal: bool, out: &mut Vec<u8>) {
    if literal {
        // literal string: the three special characters escaped, CR / LF by name, other control and high bytes
        // as three-digit octal codes
        out.push(b'(');
        for &b in bs {
            match b {
                b'(' | b')' | b'\\' => {
                    out.push(b'\\');
                    out.push(b);
                }
                b'\r' => out.extend_from_slice(b"\\r"),
                b'\n' => out.extend_from_slice(b"\\n"),
                0x20..=0x7e => out.push(b),
                _ => out.extend_from_slice(format!("\\{:03o}", b).as_bytes()),
            }
        }
        out.push(b')');
    } else {
        out.push(b'<');
        for b in bs {
            out.extend_from_slice(format!("{:02x}", b).as_bytes());
        }
        out.push(b'>');
    }
}

/// a name as the harness spells it: regular characters other than `#` as they are, everything else `#XX`
/// (upper-case digits; the library's writer uses lower-case ones)
pub fn print_name(bs: &[u8], out: &mut Vec<u8>) {
    out.push(b'/');
    for &b in bs {
        if (b'!'..=b'~').contains(&b) && !b"()<>[]{}/%#".contains(&b) {
            out.push(b);
        } else {
            out.extend_from_slice(format!("#{:02X}", b).as_bytes());
        }
    }
}

pub fn print_prim(p: &Primitive, out: &mut Vec<u8>) {
    match p {
        Primitive::Null => out.extend_from_slice(b"null"),
        Primitive::Boolean(b) => out.extend_from_slice(if *b { b"true" } else { b"false" }),
        Primitive::Integer(i) => out.extend_from_slice(format!("{}", i).as_bytes()),
        Primitive::Number(x) => print_real(*x, out),
        Primitive::String(s) => print_string(s.as_bytes(), s.as_bytes().len() % 2 == 0, out),
        Primitive::Name(n) => print_name(n.as_bytes(), out),
        Primitive::Reference(r) => out.extend_from_slice(format!("{} {} R", r.id, r.gen).as_bytes()),
        Primitive::Array(xs) => {
            out.push(b'[');
            for (i, x) in xs.iter().enumerate() {
                if i > 0 {
                    out.push(b' ');
                }
                print_prim(x, out);
            }
            out.push(b']');
        }
        Primitive::Dictionary(d) => {
            out.extend_from_slice(b"<<");
            for (k, v) in d.iter() {
                print_name(k.as_bytes(), out);
                out.push(b' ');
                print_prim(v, out);
                out.push(b' ');
            }
            out.extend_from_slice(b">>");
        }
        Primitive::Stream(_) => out.extend_from_slice(b"null"),
    }
}

pub fn print_image(img: &Option<(u8, u8, u8)>, out: &mut Vec<u8>) {
    match img {
        Some((w, h, b)) => {
            // spelling varies with the planted values: abbreviated / full keys, space or LF after ID
            let full = (*w as usize + *b as usize) % 2 == 0;
            let sep = if (*h as usize + *b as usize) % 2 == 0 { " " } else { "\n" };
            if full {
                out.extend_from_slice(format!("BI /Width {} /Height {} /BitsPerComponent 8 /ColorSpace /DeviceGray ID{}", w, h, sep).as_bytes());
            } else {
                out.extend_from_slice(format!("BI /W {} /H {} /BPC 8 /CS /G ID{}", w, h, sep).as_bytes());
            }
            for _ in 0..(*w as usize * *h as usize) {
                out.push(*b);
            }
            // any white-space character may precede EI
            out.push(b"\n \r\t"[(*w as usize + *h as usize + *b as usize) % 4]);
            out.extend_from_slice(b"EI");
        }
        // no /H: `inline_image` fails after it has found the end of the data
        None => out.extend_from_slice(b"BI /W 1 /BPC 8 /CS /G ID A\nEI"),
    }
}

pub fn print_toks(ts: &[Tok]) -> Vec<u8> {
    let mut out = vec![];
    for t in ts {
        match t {
            Tok::Prim(p) => {
                print_prim(p, &mut out);
                out.push(b' ');
            }
            Tok::Kw(s) => {
                out.extend_from_slice(s.as_bytes());
                out.push(b'\n');
            }
            Tok::Img(i) => {
                print_image(i, &mut out);
                out.push(b'\n');
            }
        }
    }
    out
}

pub fn name(s: &str) -> Name {
    Name::from(s)
}

pub fn pstr(bs: &[u8]) -> PdfString {
    PdfString::new(bs.into())
}

pub fn dict(kvs: Vec<(&str, Primitive)>) -> Primitive {
    let mut d = Dictionary::new();
    for (k, v) in kvs {
        d.insert(k, v);
    }
    Primitive::Dictionary(d)
}
