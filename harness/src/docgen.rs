//! Grammar-directed generator of complete, mostly valid PDF documents that exercise the typed schema the
//! library reads: page trees with inherited attributes, simple and composite fonts (widths, encodings with
//! differences, ToUnicode CMaps), images with filters and predictors, form XObjects, graphics states, colour
//! spaces with functions (sampled, exponential, stitching, PostScript), name / number trees, outlines, page
//! labels, content streams (plain, filtered, arrays), classic tables or cross-reference streams with object
//! streams, optional junk prefix. Nothing here is an oracle; `Doc` records what was planted so that callers
//! can compare.

use crate::pdfwrite::*;
use crate::rng::Rng;

pub struct Doc {
    pub bytes: Vec<u8>,
    pub n_pages: usize,
    pub desc: String,
    pub objects: u64,
}

struct G<'a> {
    rng: &'a mut Rng,
    next: u64,
    objs: Vec<(u64, Vec<u8>)>, // id, body (complete, incl. stream)
    page_ids: Vec<u64>,
}

impl<'a> G<'a> {
    fn alloc(&mut self) -> u64 {
        let i = self.next;
        self.next += 1;
        i
    }
    fn put(&mut self, id: u64, body: Vec<u8>) {
        self.objs.push((id, body));
    }
    fn add(&mut self, body: Vec<u8>) -> u64 {
        let id = self.alloc();
        self.put(id, body);
        id
    }
    fn num(&mut self) -> String {
        match self.rng.below(6) {
            0 => format!("{}", self.rng.range(-5, 600)),
            1 => format!("{}.{}", self.rng.range(-300, 800), self.rng.below(100)),
            2 => format!(".{}", self.rng.below(1000)),
            3 => "0".into(),
            4 => format!("{}", self.rng.below(100)),
            _ => format!("-{}.5", self.rng.below(50)),
        }
    }
    fn rect(&mut self) -> String {
        format!("[0 0 {} {}]", 100 + self.rng.below(700), 100 + self.rng.below(900))
    }

    /// a stream object with an optional filter chain applied by the generator
    fn stream(&mut self, dict: &str, data: &[u8]) -> Vec<u8> {
        let (f, d): (String, Vec<u8>) = match self.rng.below(6) {
            0 => ("/Filter /FlateDecode".into(), zlib(data)),
            1 => ("/Filter /ASCIIHexDecode".into(), ascii_hex(data)),
            2 => ("/Filter [/ASCIIHexDecode /FlateDecode]".into(), ascii_hex(&zlib(data))),
            3 => ("/Filter /ASCII85Decode".into(), a85(data)),
            _ => (String::new(), data.to_vec()),
        };
        stream_body(&format!("{} {}", dict, f), &d)
    }

    fn function(&mut self, n_in: usize, n_out: usize) -> u64 {
        let domain: String = (0..n_in).map(|_| "0 1 ").collect();
        let range: String = (0..n_out).map(|_| "0 1 ").collect();
        match self.rng.below(4) {
            0 if n_in == 1 => {
                let c0: String = (0..n_out).map(|_| "0 ").collect();
                let c1: String = (0..n_out).map(|_| "1 ").collect();
                let n = 1 + self.rng.below(3);
                self.add(format!("<< /FunctionType 2 /Domain [{}] /C0 [{}] /C1 [{}] /N {} >>", domain, c0, c1, n).into_bytes())
            }
            1 => {
                let progs = ["{ dup mul }", "{ dup add 0.5 mul }", "{ 1 exch sub }", "{ dup 0.5 gt { 1 } { 0 } ifelse }", "{ 3 1 roll pop pop }", "{ 0.3 0.6 }", "{ dup dup }", "{ 0 index abs cvr }", "{ 2 copy add }", "{ exch pop 2 1 roll }"];
                let p = *self.rng.pick(&progs);
                let d = format!("/FunctionType 4 /Domain [{}] /Range [{}]", domain, range);
                let body = self.stream(&d, p.as_bytes());
                self.add(body)
            }
            2 if n_in == 1 && self.rng.chance(1, 4) => {
                let a = self.function(1, n_out);
                let b = self.function(1, n_out);
                self.add(format!("<< /FunctionType 3 /Domain [0 1] /Functions [{} 0 R {} 0 R] /Bounds [0.5] /Encode [0 1 0 1] >>", a, b).into_bytes())
            }
            _ => {
                let size = 2 + self.rng.usize(3);
                let total = size.pow(n_in as u32) * n_out;
                let data = self.rng.bytes(total);
                let sizes: String = (0..n_in).map(|_| format!("{} ", size)).collect();
                let d = format!("/FunctionType 0 /Domain [{}] /Range [{}] /Size [{}] /BitsPerSample 8", domain, range, sizes);
                let body = self.stream(&d, &data);
                self.add(body)
            }
        }
    }

    fn colorspace(&mut self, depth: usize) -> String {
        match self.rng.below(if depth > 2 { 3 } else { 7 }) {
            0 => "/DeviceRGB".into(),
            1 => "/DeviceGray".into(),
            2 => "/DeviceCMYK".into(),
            3 => {
                let n = *self.rng.pick(&[1usize, 3, 4]);
                let alt = ["/DeviceGray", "", "/DeviceRGB", "/DeviceCMYK"][n - 1];
                let data = self.rng.bytes(64);
                let body = self.stream(&format!("/N {} /Alternate {}", n, alt), &data);
                let id = self.add(body);
                format!("[/ICCBased {} 0 R]", id)
            }
            4 => {
                let base = self.colorspace(depth + 1);
                let hival = self.rng.below(8);
                let lut: String = (0..(hival + 1) * 4).map(|_| format!("{:02x}", self.rng.byte())).collect();
                format!("[/Indexed {} {} <{}>]", base, hival, lut)
            }
            5 => {
                let f = self.function(1, 3);
                format!("[/Separation /Spot /DeviceRGB {} 0 R]", f)
            }
            _ => {
                let f = self.function(2, 3);
                format!("[/DeviceN [/A /B] /DeviceRGB {} 0 R]", f)
            }
        }
    }

    fn image(&mut self) -> u64 {
        let w = 1 + self.rng.usize(6);
        let h = 1 + self.rng.usize(5);
        let (cs, comps) = *self.rng.pick(&[("/DeviceGray", 1usize), ("/DeviceRGB", 3), ("/DeviceCMYK", 4)]);
        let bpc = 8;
        let row = w * comps;
        let raw = self.rng.bytes(row * h);
        let id = self.alloc();
        let body = match self.rng.below(4) {
            0 => {
                // PNG "up" predictor rows (type 2) under Flate
                let mut enc = vec![];
                for y in 0..h {
                    enc.push(2u8);
                    for x in 0..row {
                        let up = if y > 0 { raw[(y - 1) * row + x] } else { 0 };
                        enc.push(raw[y * row + x].wrapping_sub(up));
                    }
                }
                // hostile but syntactically fine data: other row tags (the bytes then decode to something
                // else, which is nobody's business here), and a last row cut short by 1..row bytes
                if self.rng.chance(1, 3) {
                    for y in 0..h { enc[y * (row + 1)] = self.rng.below(6) as u8; }
                }
                if self.rng.chance(1, 3) {
                    let cut = 1 + self.rng.usize(row.max(1));
                    let keep = enc.len().saturating_sub(cut);
                    enc.truncate(keep);
                }
                stream_body(&format!("/Type /XObject /Subtype /Image /Width {} /Height {} /ColorSpace {} /BitsPerComponent {} /Filter /FlateDecode /DecodeParms << /Predictor 12 /Colors {} /Columns {} /BitsPerComponent {} >>", w, h, cs, bpc, comps, w, bpc), &zlib(&enc))
            }
            1 => stream_body(&format!("/Type /XObject /Subtype /Image /Width {} /Height {} /ColorSpace {} /BitsPerComponent {} /Filter /FlateDecode", w, h, cs, bpc), &zlib(&raw)),
            2 => {
                let cs2 = self.colorspace(1);
                self.stream(&format!("/Type /XObject /Subtype /Image /Width {} /Height {} /ColorSpace {} /BitsPerComponent 8", w, h, cs2), &raw)
            }
            _ => stream_body(&format!("/Type /XObject /Subtype /Image /Width {} /Height {} /ImageMask true /BitsPerComponent 1", w, h), &self.rng.bytes(((w + 7) / 8) * h)),
        };
        self.put(id, body);
        id
    }

    fn to_unicode(&mut self, two_byte: bool) -> u64 {
        let mut s = String::from("/CIDInit /ProcSet findresource begin\n12 dict begin\nbegincmap\n/CMapName /Adobe-Identity-UCS def\n1 begincodespacerange\n");
        s.push_str(if two_byte { "<0000> <FFFF>\n" } else { "<00> <FF>\n" });
        s.push_str("endcodespacerange\n");
        let n = 1 + self.rng.usize(4);
        s.push_str(&format!("{} beginbfchar\n", n));
        for i in 0..n {
            let code = 32 + i as u32 * 3 + self.rng.below(3) as u32;
            let uni = 0x41 + self.rng.below(0x500) as u32;
            if two_byte { s.push_str(&format!("<{:04X}> <{:04X}>\n", code, uni)); } else { s.push_str(&format!("<{:02X}> <{:04X}>\n", code, uni)); }
        }
        s.push_str("endbfchar\n2 beginbfrange\n");
        if two_byte {
            s.push_str("<0100> <0105> <0061>\n<0200> <0202> [<0041> <00420043> <D835DC00>]\n");
        } else {
            s.push_str("<80> <85> <0061>\n<90> <92> [<0041> <00420043> <D835DC00>]\n");
        }
        s.push_str("endbfrange\nendcmap\nCMapName currentdict /CMap defineresource pop\nend\nend\n");
        let body = self.stream("", s.as_bytes());
        self.add(body)
    }

    fn font(&mut self) -> u64 {
        match self.rng.below(3) {
            0 => {
                let first = self.rng.below(64);
                let n = 1 + self.rng.below(20);
                let widths: String = (0..n).map(|_| format!("{} ", 200 + self.rng.below(600))).collect();
                let enc = match self.rng.below(3) {
                    0 => "/Encoding /WinAnsiEncoding".to_string(),
                    1 => format!("/Encoding << /Type /Encoding /BaseEncoding /MacRomanEncoding /Differences [{} /a /b /c {} /zero /one] >>", first, first + 10),
                    _ => String::new(),
                };
                let tu = if self.rng.chance(1, 2) { format!("/ToUnicode {} 0 R", self.to_unicode(false)) } else { String::new() };
                let fd = self.add(b"<< /Type /FontDescriptor /FontName /Helv /Flags 32 /FontBBox [0 0 1000 1000] /ItalicAngle 0 /Ascent 800 /Descent -200 /CapHeight 700 /StemV 80 /MissingWidth 333 >>".to_vec());
                let sub = *self.rng.pick(&["Type1", "TrueType"]);
                self.add(format!("<< /Type /Font /Subtype /{} /BaseFont /Helv /FirstChar {} /LastChar {} /Widths [{}] /FontDescriptor {} 0 R {} {} >>",
                    sub, first, first + n - 1, widths, fd, enc, tu).into_bytes())
            }
            1 => {
                // composite font with a /W array mixing both group forms
                let mut w = String::new();
                let mut c = self.rng.below(20);
                for _ in 0..1 + self.rng.usize(4) {
                    if self.rng.chance(1, 2) {
                        let k = 1 + self.rng.below(4);
                        let ws: String = (0..k).map(|_| format!("{} ", 300 + self.rng.below(500))).collect();
                        w.push_str(&format!("{} [{}] ", c, ws));
                        c += k + self.rng.below(5);
                    } else {
                        let last = c + self.rng.below(6);
                        w.push_str(&format!("{} {} {} ", c, last, 400 + self.rng.below(300)));
                        c = last + 1 + self.rng.below(5);
                    }
                }
                let fd = self.add(b"<< /Type /FontDescriptor /FontName /CID /Flags 4 /FontBBox [0 0 1000 1000] /ItalicAngle 0 /Ascent 800 /Descent -200 /CapHeight 700 /StemV 80 >>".to_vec());
                let map = if self.rng.chance(1, 2) { "/CIDToGIDMap /Identity".to_string() } else {
                    let body = self.stream("", &self.rng.clone().bytes(32));
                    format!("/CIDToGIDMap {} 0 R", self.add(body))
                };
                let dw = 500 + self.rng.below(500);
                let desc = self.add(format!("<< /Type /Font /Subtype /CIDFontType2 /BaseFont /CID /CIDSystemInfo << /Registry (Adobe) /Ordering (Identity) /Supplement 0 >> /FontDescriptor {} 0 R /DW {} /W [{}] {} >>", fd, dw, w, map).into_bytes());
                let tu = self.to_unicode(true);
                self.add(format!("<< /Type /Font /Subtype /Type0 /BaseFont /CID /Encoding /Identity-H /DescendantFonts [{} 0 R] /ToUnicode {} 0 R >>", desc, tu).into_bytes())
            }
            _ => self.add(b"<< /Type /Font /Subtype /Type1 /BaseFont /Times-Roman >>".to_vec()),
        }
    }

    fn content(&mut self, fonts: &[String], xobjs: &[String], gss: &[String]) -> Vec<u8> {
        let mut s = String::new();
        let n = self.rng.usize(25);
        for _ in 0..n {
            let a = self.num(); let b = self.num(); let c = self.num(); let d = self.num();
            match self.rng.below(22) {
                0 => s.push_str("q\n"),
                1 => s.push_str("Q\n"),
                2 => s.push_str(&format!("{} {} m\n", a, b)),
                3 => s.push_str(&format!("{} {} l\n", a, b)),
                4 => s.push_str(&format!("{} {} {} {} re\n", a, b, c, d)),
                5 => s.push_str(*self.rng.pick(&["f\n", "S\n", "B\n", "b*\n", "n\n", "W n\n", "h\n", "f*\n", "s\n"])),
                6 => s.push_str(&format!("{} {} {} rg\n", a, b, c)),
                7 => s.push_str(&format!("{} w\n", a)),
                8 => s.push_str(&format!("1 0 0 1 {} {} cm\n", a, b)),
                9 if !fonts.is_empty() => { let f = self.rng.pick(fonts).clone(); s.push_str(&format!("BT /{} {} Tf {} {} Td (Hello \\(w\\)\\051) Tj [(a) -120 <4142>] TJ T* ET\n", f, a, b, c)); }
                10 if !xobjs.is_empty() => { let x = self.rng.pick(xobjs).clone(); s.push_str(&format!("/{} Do\n", x)); }
                11 if !gss.is_empty() => { let g = self.rng.pick(gss).clone(); s.push_str(&format!("/{} gs\n", g)); }
                12 => s.push_str(&format!("{} {} {} {} {} {} c\n", a, b, c, d, a, b)),
                13 => s.push_str(&format!("[{} {}] {} d\n", self.rng.below(9), self.rng.below(9), self.rng.below(4))),
                14 => s.push_str("/CS0 cs 0.5 sc\n"),
                15 => s.push_str(&format!("BT {} {} TD ({}) ' ET\n", a, b, "x")),
                16 => s.push_str("/Tag << /MCID 3 >> BDC EMC\n"),
                17 => s.push_str(&format!("{} {} {} {} k\n", a, b, c, d)),
                18 => s.push_str("BI /W 2 /H 2 /CS /G /BPC 8 ID abcd EI\n"),
                19 => s.push_str(&format!("{} g {} G\n", a, b)),
                20 => s.push_str(&format!("{} {} {} {} v {} {} {} {} y\n", a, b, c, d, a, b, c, d)),
                _ => s.push_str("% comment\n"),
            }
        }
        s.into_bytes()
    }

    fn resources(&mut self, depth: usize) -> (String, Vec<String>, Vec<String>, Vec<String>) {
        let mut fonts = vec![]; let mut xobjs = vec![]; let mut gss = vec![];
        let mut d = String::from("<< ");
        let nf = self.rng.usize(3);
        if nf > 0 {
            d.push_str("/Font << ");
            for i in 0..nf { let f = self.font(); d.push_str(&format!("/F{} {} 0 R ", i, f)); fonts.push(format!("F{}", i)); }
            d.push_str(">> ");
        }
        let nx = self.rng.usize(3);
        if nx > 0 {
            d.push_str("/XObject << ");
            for i in 0..nx {
                let x = if depth < 2 && self.rng.chance(1, 3) { self.form(depth + 1) } else { self.image() };
                d.push_str(&format!("/X{} {} 0 R ", i, x)); xobjs.push(format!("X{}", i));
            }
            d.push_str(">> ");
        }
        if self.rng.chance(1, 2) {
            let f = if self.rng.chance(1, 3) { let f = self.font(); format!("/Font [{} 0 R 12]", f) } else { String::new() };
            d.push_str(&format!("/ExtGState << /GS0 << /Type /ExtGState /LW {} /CA 0.5 /ca 0.25 /BM /Multiply /LC 1 /LJ 2 /D [[3 2] 0] {} >> >> ", self.num(), f));
            gss.push("GS0".into());
        }
        if self.rng.chance(2, 3) {
            let cs = self.colorspace(0);
            d.push_str(&format!("/ColorSpace << /CS0 {} >> ", cs));
        }
        d.push_str(">>");
        (d, fonts, xobjs, gss)
    }

    fn form(&mut self, depth: usize) -> u64 {
        let id = self.alloc();
        let (res, f, x, g) = self.resources(depth);
        let data = self.content(&f, &x, &g);
        let bbox = self.rect();
        let body = self.stream(&format!("/Type /XObject /Subtype /Form /BBox {} /Matrix [1 0 0 1 0 0] /Resources {}", bbox, res), &data);
        self.put(id, body);
        id
    }

    fn page(&mut self, parent: u64, inherit_media: bool, inherit_res: bool) -> u64 {
        let id = self.alloc();
        self.page_ids.push(id);
        let (res, f, x, g) = self.resources(0);
        let nstreams = 1 + self.rng.usize(2);
        let mut cids = vec![];
        for _ in 0..nstreams {
            let data = self.content(&f, &x, &g);
            let body = self.stream("", &data);
            cids.push(self.add(body));
        }
        let contents = if cids.len() == 1 && self.rng.chance(1, 2) { format!("{} 0 R", cids[0]) } else { format!("[{}]", cids.iter().map(|c| format!("{} 0 R", c)).collect::<Vec<_>>().join(" ")) };
        let media = if inherit_media && self.rng.chance(2, 3) { String::new() } else { format!("/MediaBox {}", self.rect()) };
        let crop = if self.rng.chance(1, 4) { format!("/CropBox {}", self.rect()) } else { String::new() };
        let resd = if inherit_res && self.rng.chance(1, 3) { String::new() } else if self.rng.chance(1, 2) { let r = self.add(res.clone().into_bytes()); format!("/Resources {} 0 R", r) } else { format!("/Resources {}", res) };
        let rot = if self.rng.chance(1, 4) { format!("/Rotate {}", self.rng.pick(&[0, 90, 180, 270])) } else { String::new() };
        let annots = if self.rng.chance(1, 4) {
            let a = self.add(format!("<< /Type /Annot /Subtype /Link /Rect [0 0 10 10] /Border [0 0 1] /A << /S /URI /URI (http://example.org) >> /P {} 0 R >>", id).into_bytes());
            format!("/Annots [{} 0 R]", a)
        } else { String::new() };
        self.put(id, format!("<< /Type /Page /Parent {} 0 R {} {} {} /Contents {} {} {} /PieceInfo << /X 1 >> >>", parent, media, crop, resd, contents, rot, annots).into_bytes());
        id
    }

    fn pages(&mut self, parent: Option<u64>, depth: usize, have_media: bool, have_res: bool) -> (u64, usize) {
        let id = self.alloc();
        let own_media = !have_media || self.rng.chance(1, 3);
        let own_res = self.rng.chance(1, 3);
        let nk = if depth == 0 { 1 + self.rng.usize(3) } else { self.rng.usize(4) };
        let mut kids = vec![]; let mut count = 0;
        for _ in 0..nk {
            if depth < 3 && self.rng.chance(1, 3) {
                let (k, c) = self.pages(Some(id), depth + 1, have_media || own_media, have_res || own_res);
                kids.push(k); count += c;
            } else {
                kids.push(self.page(id, have_media || own_media, have_res || own_res)); count += 1;
            }
        }
        let media = if own_media { format!("/MediaBox {}", self.rect()) } else { String::new() };
        let res = if own_res { let (r, _, _, _) = self.resources(1); format!("/Resources {}", r) } else { String::new() };
        let par = parent.map(|p| format!("/Parent {} 0 R", p)).unwrap_or_default();
        self.put(id, format!("<< /Type /Pages {} /Kids [{}] /Count {} {} {} >>", par, kids.iter().map(|k| format!("{} 0 R", k)).collect::<Vec<_>>().join(" "), count, media, res).into_bytes());
        (id, count)
    }

    fn name_tree(&mut self, page: u64) -> u64 {
        let leaf1 = self.add(format!("<< /Limits [(a) (c)] /Names [(a) [{} 0 R /Fit] (c) [{} 0 R /XYZ 0 0 1]] >>", page, page).into_bytes());
        let leaf2 = self.add(format!("<< /Limits [(d) (d)] /Names [(d) << /D [{} 0 R /FitH 10] >>] >>", page).into_bytes());
        let mid = self.add(format!("<< /Limits [(a) (d)] /Kids [{} 0 R {} 0 R] >>", leaf1, leaf2).into_bytes());
        self.add(format!("<< /Kids [{} 0 R] >>", mid).into_bytes())
    }

    fn outlines(&mut self, page: u64) -> u64 {
        let root = self.alloc();
        let a = self.alloc(); let b = self.alloc();
        self.put(a, format!("<< /Title (One) /Parent {} 0 R /Next {} 0 R /Dest [{} 0 R /Fit] >>", root, b, page).into_bytes());
        self.put(b, format!("<< /Title <FEFF00540077006F> /Parent {} 0 R /Prev {} 0 R /Dest (a) /C [1 0 0] /F 2 >>", root, a).into_bytes());
        self.put(root, format!("<< /Type /Outlines /First {} 0 R /Last {} 0 R /Count 2 >>", a, b).into_bytes());
        root
    }
}

pub fn a85(data: &[u8]) -> Vec<u8> {
    let mut o = vec![];
    for ch in data.chunks(4) {
        let mut w = [0u8; 4];
        w[..ch.len()].copy_from_slice(ch);
        let mut n = u32::from_be_bytes(w) as u64;
        if ch.len() == 4 && n == 0 { o.push(b'z'); continue; }
        let mut d = [0u8; 5];
        for i in (0..5).rev() { d[i] = (n % 85) as u8 + 33; n /= 85; }
        o.extend_from_slice(&d[..ch.len() + 1]);
    }
    o.extend_from_slice(b"~>");
    o
}

/// One generated document. `style`: 0 classic table, 1 cross-reference stream, 2 stream + object streams.
pub fn gen_document(rng: &mut Rng) -> Doc {
    let style = rng.below(3);
    let prefix_max = if rng.chance(1, 4) { 900 } else { 40 };
    let prefix_len = if rng.chance(1, 3) { 1 + rng.usize(prefix_max) } else { 0 };
    let prefix: Vec<u8> = (0..prefix_len).map(|_| b"junk \n\r0123"[rng.usize(10)]).collect();
    let mut g = G { rng, next: 1, objs: vec![], page_ids: vec![] };
    let catalog = g.alloc();
    let (pages, n_pages) = g.pages(None, 0, false, false);
    let first_page = g.page_ids.first().copied().unwrap_or(pages);
    let mut extra = String::new();
    if g.rng.chance(1, 2) { let t = g.name_tree(first_page); extra.push_str(&format!("/Names << /Dests {} 0 R >> ", t)); }
    if g.rng.chance(1, 2) { let o = g.outlines(first_page); extra.push_str(&format!("/Outlines {} 0 R ", o)); }
    if g.rng.chance(1, 2) { extra.push_str("/PageLabels << /Nums [0 << /S /r >> 2 << /S /D /St 1 /P (p) >>] >> "); }
    if g.rng.chance(1, 3) { let m = g.add(stream_body("/Type /Metadata /Subtype /XML", b"<x:xmpmeta/>")); extra.push_str(&format!("/Metadata {} 0 R ", m)); }
    g.put(catalog, format!("<< /Type /Catalog /Pages {} 0 R {} >>", pages, extra).into_bytes());
    let info = g.add(b"<< /Title (Generated) /Producer (pdfverif) /CreationDate (D:20240101120000+01'00') >>".to_vec());
    let n_objs = g.next;
    let objs = std::mem::take(&mut g.objs);
    let desc = format!("style={} pages={} objects={} prefix={}", style, n_pages, n_objs, prefix_len);
    let _ = &desc;
    let rng = g.rng;
    let mut w = PdfWriter::new(&prefix, "1.7");
    w.free(0, 0, 65535);
    let mut next = n_objs;
    if style == 2 {
        // non-stream objects go into object streams of up to 8 members
        let (plain, streams): (Vec<_>, Vec<_>) = objs.into_iter().partition(|(_, b)| !b.ends_with(b"endstream"));
        for (id, b) in &streams { w.object(*id, 0, b); }
        for chunk in plain.chunks(8) {
            let stm = next; next += 1;
            let filter = *rng.pick(&[StmFilter::None, StmFilter::Flate, StmFilter::Flate]);
            w.object_stream(stm, &chunk.to_vec(), filter, b"\n", "");
        }
    } else {
        for (id, b) in &objs { w.object(*id, 0, b); }
    }
    // `/PadPrev 0000000000` is an unknown trailer entry of the same length as `/Prev 0000000000`: patched below
    // when a loop of sections is wanted
    let trailer = format!("/Root {} 0 R /Info {} 0 R /ID [<0102030405060708090a0b0c0d0e0f10> <0102030405060708090a0b0c0d0e0f10>] /PadPrev 0000000000", catalog, info);
    let revisions = 1 + rng.below(3);
    let mut xoffs = vec![];
    for rev in 0..revisions {
        if rev > 0 {
            // an incremental update: the information dictionary is rewritten
            w.object(info, 0, format!("<< /Title (Generated, revision {}) /Producer (pdfverif) >>", rev).as_bytes());
        }
        let fmt_stream = if rev == 0 { style != 0 } else { rng.chance(1, 2) || style == 2 };
        if !fmt_stream {
            xoffs.push(w.finish(XrefFormat::Classic, next, &trailer, &[], 0));
        } else {
            let x = next; next += 1;
            xoffs.push(w.finish(XrefFormat::Stream, next, &trailer, &[], x));
        }
    }
    let mut bytes = w.out;
    let mut desc = format!("{} revisions={}", desc, revisions);
    if rng.chance(1, 6) {
        // a loop in the chain of sections: the oldest section (which has no /Prev) points at some section
        let target = *rng.pick(&xoffs);
        let pat = b"/PadPrev 0000000000";
        if let Some(i) = bytes.windows(pat.len()).position(|w| w == pat) {
            let rep = format!("/Prev {:013}", target);   // same length as the pattern
            bytes[i..i + pat.len()].copy_from_slice(rep.as_bytes());
            desc.push_str(" prev-loop");
        }
    }
    Doc { bytes, n_pages, desc, objects: next }
}
