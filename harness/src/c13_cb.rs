//! C13, callbacks into user code: `Log::log_get`, `Log::load_object` (`FileOptions::log`) and the `Cache` trait's
//! `get_or_compute` are points where the user's code runs — for as long as it likes, possibly waiting for another
//! thread of the program. The library must not hold any of the resolver's mutexes there.
//!
//!   c13.callbacks         a `Log` that yields to the test scheduler (`ParkLog`): all interleavings (of the steps that
//!                         touch shared state, and of the callbacks) of 2 threads × 1 `get` — same key, two keys, nested
//!                         loads — with shared / own resolvers and caches off / on: park A inside `log_get` /
//!                         `load_object`, run B's whole `get`, release A, and every other order. Every step has a
//!                         time limit: a thread that cannot take a step the model allows while another thread stands
//!                         inside a callback is a failure (`blocked-while-another-thread-is-in-user-code`) — not a
//!                         hang. Mode 1 (only the callbacks the model has: `log_get`, first `load_object` of a
//!                         compute / reload run) is replayed on the model (`c13.replay 2 …`), mode 2 stops at every
//!                         `load_object` and is judged by the oracles only.
//!   c13.callbacks.random  generated documents, 2–3 threads × 1–2 calls, random schedules, mode 1, replayed on the model
//!   c13.blocking-log      free-running threads, no scheduler, no hook: the user's `Log` (or the user's `Cache`) of thread A
//!                         really blocks inside the callback until thread B has finished a whole `get` (watchdog 3 s)

use super::lazy::{lexplore, lrun_schedule, LExtra, LItem, LSetup};
use super::*;
use std::sync::atomic::{AtomicBool, AtomicUsize, Ordering};

const CONFIRM: Duration = Duration::from_millis(1500);
/// blocked runs seen so far: every one of them costs CONFIRM; a few are evidence enough
static BLOCKED_RUNS: AtomicUsize = AtomicUsize::new(0);
const ENOUGH: usize = 4;

fn items_of(ts: &[Vec<Call>]) -> Vec<Vec<LItem>> {
    ts.iter().map(|t| t.iter().map(|c| LItem::Call(c.clone())).collect()).collect()
}

fn cb_request(d: &GDoc, cfg: u8, ts: &[Vec<Call>], sched: &str) -> String {
    format!("c13.replay 2 {} {} {} {} {}", cfg_text(cfg), if d.tolerant { 1 } else { 0 }, d.desc(), threads_text(ts), sched)
}

/// the standing of every thread just before step `k` of the trace
fn standing(out: &RunOut, n: usize, k: usize) -> Vec<Pos> {
    let mut pos = vec![Pos::Start; n];
    for (i, p) in &out.trace[..k] {
        if *p != Pos::Blocked { pos[*i] = p.clone(); }
    }
    pos
}

fn judge_cb(or: &mut Oracle, d: &GDoc, cfg: u8, shared: bool, mode: u8, ts: &[Vec<Call>], seq: &[Vec<String>], out: &RunOut, extra: &LExtra, replay: &Value) {
    let mut r = replay.clone();
    r["callbacks"] = json!(mode);
    if extra.unhooked_blocks > 0 {
        BLOCKED_RUNS.fetch_add(1, Ordering::Relaxed);
        if let Some(k) = out.trace.iter().position(|(_, p)| *p == Pos::Blocked) {
            let pos = standing(out, ts.len(), k);
            let i = out.trace[k].0;
            let parked: Vec<String> = pos.iter().enumerate().filter(|(j, p)| *j != i && matches!(p, Pos::LogGet(_) | Pos::LoadObj(_) | Pos::Pushed(_) | Pos::Waiting(_) | Pos::Storing(_)))
                .map(|(j, p)| format!("thread {} at {}", j, p.text())).collect();
            let mut r2 = r.clone();
            r2["cfg"] = json!(cfg_text(cfg));
            r2["shared_resolver"] = json!(shared);
            r2["schedule"] = json!(out.sched_text());
            r2["observed"] = json!(out.text());
            or.fail("blocked-while-another-thread-is-in-user-code",
                &format!("thread {} could not take its step from `{}` within {} ms while {} stood inside user code (Log / Cache callback): a mutex of the resolver is held across the callback; threads {}, caches {}, {} resolver, schedule {}: {}",
                    i, pos[i].text(), CONFIRM.as_millis(), if parked.is_empty() { "the others".to_string() } else { parked.join(", ") }, threads_text(ts), cfg_text(cfg),
                    if shared { "shared" } else { "own" }, out.sched_text(), out.text()), r2);
        }
    }
    judge(or, d, cfg, shared, ts, seq, out, &r);
    if out.trace.iter().any(|(_, p)| matches!(p, Pos::LogGet(_))) { or.count("a thread stood inside log_get"); }
    if out.trace.iter().any(|(_, p)| matches!(p, Pos::LoadObj(_))) { or.count("a thread stood inside load_object"); }
}

#[allow(clippy::too_many_arguments)]
fn enumerate_cb(name: &str, st: &mut RStream, or: &mut Oracle, batch: &mut Batch, case: u64, d: &GDoc, bytes: &[u8], cfg: u8, shared: bool, mode: u8,
                ts: &[Vec<Call>], reduced: bool, cap: usize, progress: &dyn Fn(&Value)) {
    if BLOCKED_RUNS.load(Ordering::Relaxed) >= ENOUGH { st.count("skipped=enough-blocked-runs"); return; }
    let seq = sequential(d, bytes, ts);
    let replay = json!({"stream": name, "seed": 0, "case": case, "doc": d.desc(), "tolerant": d.tolerant, "threads": threads_text(ts), "file_hex": crate::driver::hex(bytes)});
    progress(&replay);
    let items = items_of(ts);
    let su = LSetup { bytes, tolerant: d.tolerant, cfg, shared_resolver: shared, pages: &[], threads: &items, optimistic: false, cb_mode: mode, confirm: CONFIRM };
    let r = lexplore(&su, reduced, cap, |out, extra| {
        judge_cb(or, d, cfg, shared, mode, ts, &seq, out, extra, &replay);
        if mode == 1 && extra.unhooked_blocks == 0 {
            batch.requests.push(cb_request(d, cfg, ts, &out.sched_text()));
            batch.impls.push(out.text());
        }
        st.count(&format!("callbacks={}", if mode == 1 { "modelled" } else { "all" }));
    });
    match r {
        Ok((_, complete)) => st.count(&format!("enumeration-complete={}", complete)),
        Err(e) => st.count(&format!("unreadable={}", &e[..e.len().min(24)])),
    }
}

pub fn stream_callbacks(driver: &Driver, thorough: bool, or: &mut Oracle, progress: &dyn Fn(&Value)) -> RStream {
    let mut st = RStream::new("c13.callbacks", true);
    let mut batch = Batch { requests: vec![], impls: vec![] };
    let d = tree_doc(false);
    let bytes = d.bytes();
    let shapes: Vec<Vec<Vec<Call>>> = vec![
        vec![vec![Call::Get(T_I32, 6)], vec![Call::Get(T_I32, 7)]],     // another key
        vec![vec![Call::Get(T_I32, 6)], vec![Call::Get(T_I32, 6)]],     // the same key
        vec![vec![Call::Get(T_PAGES, 3)], vec![Call::Get(T_PAGES, 5)]], // nested loads with a common parent
        vec![vec![Call::Get(T_PAGES, 3)], vec![Call::Get(T_I32, 6)]],
    ];
    let mut case = 0;
    for (k, ts) in shapes.iter().enumerate() {
        for (cfg, shared) in [(0u8, true), (2, true), (2, false), (3, true)] {
            let cap = if thorough { 6000 } else { 250 };
            // every interleaving at every yield point for the plainest shape without caches (thorough: all shapes);
            // elsewhere every interleaving of the callbacks and of the steps that touch shared state
            let full = thorough || (k == 0 && cfg == 0);
            enumerate_cb("c13.callbacks", &mut st, or, &mut batch, case, &d, &bytes, cfg, shared, 1, ts, !full, if thorough { 6000 } else if full { 1200 } else { cap }, progress);
            case += 1;
            if (k == 0 || k == 2) && shared && cfg != 3 {
                enumerate_cb("c13.callbacks", &mut st, or, &mut batch, case, &d, &bytes, cfg, shared, 2, ts, true, cap, progress);
            }
            case += 1;
            if batch.requests.len() > 2000 { flush(driver, &mut st, &mut batch); }
        }
    }
    flush(driver, &mut st, &mut batch);
    st
}

pub fn stream_callbacks_random(driver: &Driver, seed: u64, from: u64, to: u64, or: &mut Oracle, progress: &dyn Fn(&Value)) -> RStream {
    let mut st = RStream::new("c13.callbacks.random", true);
    let mut batch = Batch { requests: vec![], impls: vec![] };
    for case in from..to {
        if BLOCKED_RUNS.load(Ordering::Relaxed) >= ENOUGH { st.count("skipped=enough-blocked-runs"); continue; }
        let mut rng = Rng::derive(seed, "c13.callbacks.random", case);
        let d = small_doc(&mut rng, false);
        let bytes = d.bytes();
        let n = 2 + rng.usize(2);
        let ts: Vec<Vec<Call>> = (0..n).map(|_| (0..1 + rng.usize(2)).map(|_| pick_load(&mut rng, &d, false)).collect()).collect();
        let cfg = rng.below(4) as u8;
        let shared = rng.chance(1, 2);
        let seq = sequential(&d, &bytes, &ts);
        let replay = json!({"stream": "c13.callbacks.random", "seed": seed, "case": case, "doc": d.desc(), "tolerant": d.tolerant, "threads": threads_text(&ts), "file_hex": crate::driver::hex(&bytes)});
        progress(&replay);
        let items = items_of(&ts);
        let su = LSetup { bytes: &bytes, tolerant: d.tolerant, cfg, shared_resolver: shared, pages: &[], threads: &items, optimistic: false, cb_mode: 1, confirm: CONFIRM };
        let mut r2 = rng.clone();
        match lrun_schedule(&su, &mut |_, enabled, _| Some(*r2.pick(enabled))) {
            Ok((out, extra)) => {
                judge_cb(or, &d, cfg, shared, 1, &ts, &seq, &out, &extra, &replay);
                if extra.unhooked_blocks == 0 {
                    batch.requests.push(cb_request(&d, cfg, &ts, &out.sched_text()));
                    batch.impls.push(out.text());
                }
                st.count(&format!("threads={}", ts.len()));
                st.count(&format!("cfg={}", cfg_text(cfg)));
            }
            Err(e) => st.count(&format!("unreadable={}", &e[..e.len().min(24)])),
        }
    }
    flush(driver, &mut st, &mut batch);
    st
}

// ---------------------------------------------------------------------------------------------------
// user code that really blocks

#[derive(Clone, Copy, PartialEq, Debug)]
enum Site { LogGet, LoadObject, CacheCall }

struct Gate {
    site: Site,
    key: u64,
    a_inside: AtomicBool,
    b_done: AtomicBool,
    timed_out: AtomicBool,
    used: AtomicUsize,
}

thread_local! { static IS_A: Cell<bool> = Cell::new(false); }

impl Gate {
    /// thread A, first time at the site: stay inside until B is through (or the watchdog fires)
    fn park(&self, site: Site, key: u64) {
        if site != self.site || key != self.key || !IS_A.with(|a| a.get()) { return; }
        if self.used.fetch_add(1, Ordering::SeqCst) > 0 { return; }
        self.a_inside.store(true, Ordering::SeqCst);
        let t0 = Instant::now();
        while !self.b_done.load(Ordering::SeqCst) {
            if t0.elapsed() > Duration::from_secs(3) { self.timed_out.store(true, Ordering::SeqCst); break; }
            std::thread::sleep(Duration::from_micros(200));
        }
    }
}

struct GateLog(Arc<Gate>);
impl pdf::file::Log for GateLog {
    fn log_get(&self, r: PlainRef) { self.0.park(Site::LogGet, r.id); }
    fn load_object(&self, r: PlainRef) { self.0.park(Site::LoadObject, r.id); }
}

/// a cache of the user's own that blocks before it computes
struct GateCache(Arc<Gate>);
impl<T: Clone> Cache<T> for GateCache {
    fn get_or_compute(&self, key: PlainRef, compute: impl FnOnce() -> T) -> T {
        self.0.park(Site::CacheCall, key.id);
        compute()
    }
    fn clear(&self) {}
}

fn blocking_run<OC, SC>(file: File<Vec<u8>, OC, SC, GateLog>, gate: &Arc<Gate>, shared: bool, a: &Call, b: &Call) -> (String, String, bool)
where
    OC: Cache<Result<AnySync, Arc<PdfError>>> + Sync,
    SC: Cache<Result<Arc<[u8]>, Arc<PdfError>>> + Sync,
{
    let shared_res = file.resolver();
    let (mut ra, mut rb) = (String::new(), String::new());
    std::thread::scope(|s| {
        let (file, shared_res) = (&file, &shared_res);
        let ha = s.spawn(move || {
            IS_A.with(|x| x.set(true));
            let r = catch_unwind(AssertUnwindSafe(|| if shared { do_call(file, shared_res, a, Mode::Canon) } else { do_call(file, &file.resolver(), a, Mode::Canon) }));
            // whatever happened, B must not wait for ever
            gate.a_inside.store(true, Ordering::SeqCst);
            r.unwrap_or_else(|_| "panic".into())
        });
        let hb = s.spawn(move || {
            let t0 = Instant::now();
            while !gate.a_inside.load(Ordering::SeqCst) && t0.elapsed() < Duration::from_secs(5) { std::thread::sleep(Duration::from_micros(100)); }
            let r = catch_unwind(AssertUnwindSafe(|| if shared { do_call(file, shared_res, b, Mode::Canon) } else { do_call(file, &file.resolver(), b, Mode::Canon) }));
            gate.b_done.store(true, Ordering::SeqCst);
            r.unwrap_or_else(|_| "panic".into())
        });
        ra = ha.join().unwrap_or_else(|_| "panic".into());
        rb = hb.join().unwrap_or_else(|_| "panic".into());
    });
    (ra, rb, gate.timed_out.load(Ordering::SeqCst))
}

pub fn oracle_blocking_log(progress: &dyn Fn(&Value)) -> Oracle {
    let mut or = Oracle::new("c13.blocking-log");
    let d = tree_doc(false);
    let bytes = d.bytes();
    let po = || ParseOptions::strict();
    let mut case = 0u64;
    let mut timeouts = 0;
    // (A's call, the key at whose callback A blocks, B's call)
    let pairs: Vec<(Call, u64, Call, bool)> = vec![
        (Call::Get(T_I32, 6), 6, Call::Get(T_I32, 7), false),
        (Call::Get(T_I32, 6), 6, Call::Get(T_I32, 6), true),
        (Call::Get(T_PAGES, 3), 3, Call::Get(T_I32, 6), false),
        (Call::Get(T_PAGES, 3), 3, Call::Get(T_PAGES, 5), false),
        (Call::Get(T_PAGES, 3), 4, Call::Get(T_I32, 7), false), // A blocks in the callback of a nested load (the parent)
    ];
    for (a, key, b, same_key) in &pairs {
        for site in [Site::LogGet, Site::LoadObject, Site::CacheCall] {
            for caches in 0..3u8 {
                for shared in [true, false] {
                    // by design B waits for A when A has claimed the slot B needs: A inside the compute closure (load_object, or the
                    // user's cache called with the key) of the key B loads, or of a parent B's page needs, with the object cache on
                    let a_in_compute = site != Site::LogGet;
                    let b_needs_a = *same_key;
                    if caches == 1 && a_in_compute && b_needs_a { continue; }
                    if site == Site::CacheCall && caches != 2 { continue; }
                    if site != Site::CacheCall && caches == 2 { continue; }
                    if timeouts >= 3 { or.count("skipped=enough-time-outs"); case += 1; continue; }
                    let gate = Arc::new(Gate { site, key: *key, a_inside: AtomicBool::new(false), b_done: AtomicBool::new(false), timed_out: AtomicBool::new(false), used: AtomicUsize::new(0) });
                    let name = format!("A=`{}` blocks in {:?}({}) B=`{}` caches={} {}", a.text(), site, key, b.text(), ["none", "SyncCache", "user cache"][caches as usize], if shared { "shared resolver" } else { "own resolvers" });
                    let replay = json!({"stream": "c13.blocking-log", "case": case, "what": name});
                    progress(&replay);
                    beat();
                    let res = match caches {
                        0 => FileOptions::uncached().parse_options(po()).log(GateLog(gate.clone())).load(bytes.clone()).map(|f| blocking_run(f, &gate, shared, a, b)),
                        1 => { let oc: ObjectCache = SyncCache::new(); let sc: StreamCache = SyncCache::new();
                               FileOptions::uncached().parse_options(po()).log(GateLog(gate.clone())).cache(oc, sc).load(bytes.clone()).map(|f| blocking_run(f, &gate, shared, a, b)) }
                        _ => FileOptions::uncached().parse_options(po()).log(GateLog(gate.clone())).cache(GateCache(gate.clone()), GateCache(gate.clone())).load(bytes.clone()).map(|f| blocking_run(f, &gate, shared, a, b)),
                    };
                    or.case(&name, true, || json!({"case": name, "result": format!("{:?}", res.as_ref().map(|r| (&r.0, &r.1, r.2)).map_err(|e| e.to_string()))}));
                    match res {
                        Ok((ra, rb, timed_out)) => {
                            let sa = run_config(0, &bytes, false, &[a.clone()], Mode::Canon, true, Some(d.root)).calls.get(0).cloned().unwrap_or_default();
                            let sb = run_config(0, &bytes, false, &[b.clone()], Mode::Canon, true, Some(d.root)).calls.get(0).cloned().unwrap_or_default();
                            if timed_out {
                                timeouts += 1;
                                or.fail("user-callback-blocks-the-other-threads", &format!("{}: B did not finish its call within 3 s while A was inside the callback — a mutex of the resolver is held across the call into user code", name), replay.clone());
                            } else if gate.used.load(Ordering::SeqCst) == 0 {
                                or.count("the callback site was not reached");
                            } else {
                                or.count(&format!("B ran while A was parked in {:?}", site));
                            }
                            if ra != sa || rb != sb {
                                or.fail("answer-differs-from-sequential", &format!("{}: A answers {} (alone: {}), B answers {} (alone: {})", name, ra, sa, rb, sb), replay);
                            }
                        }
                        Err(e) => or.fail("open", &format!("{}: {}", name, e), replay),
                    }
                    case += 1;
                }
            }
        }
    }
    or
}
