//! C07 — page n is the n-th leaf of the page tree; attributes come from the nearest ancestor.
//!
//! Every case is a real PDF file written by the independent writer (`pdfwrite.rs`) from an abstract ordered
//! tree, loaded with `FileOptions::uncached()` and `FileOptions::cached()`; observed: `num_pages`,
//! `get_page(i)` for i in 0..leaves+2 (identity of the returned leaf by its object number and a planted
//! `/VMark`), `media_box`, `crop_box`, `resources` (values are markers).
//!
//! Correspondence streams (model = lean/PdfModel/Model/PageTree.lean, request = the objects as written):
//!   c07.tree.exhaustive   every tree shape with ≤ 5 (quick) / ≤ 6 (thorough) nodes (root /Pages, every other
//!                         node a leaf, an empty /Pages node or a /Pages node with kids), attribute placements
//!                         random (quick) / all 2^n placements of the media box (thorough)       in domain
//!   c07.tree.random       random ordered trees, leaf level ≤ 12, fan-out 0..5, empty intermediate
//!                         nodes, random attribute placements, objects in random order, classic tables and
//!                         xref streams with nodes inside object streams                          in domain
//!   c07.tree.deep         spines of 13..19 levels around the depth budget 16 (outside the property's
//!                         quantifier, inside the model)                                          drift only
//!   c07.tree.outside      well-formed trees damaged in one place: lying /Count (small), wrong /Parent,
//!                         missing /Parent, /Parent cycle, kid listed twice, dangling kid, wrong /Type,
//!                         kid pointing at an ancestor                                            drift only
//!   c07.bytes             the byte-level composition (`PageTreeB.getPageB` in the driver: `openB` → `resolveB` → node reader →
//!                         page-tree model, from the bytes of the file alone) against `get_page` on generated tree files in
//!                         the plain layout (integer boxes, attributes in place, classic table or xref stream with unfiltered
//!                         object streams)                                                           in domain
//!   c07.bytes.derived     the same files, the driver running the composition with the *derived* readers of `Page` / `PageTree`
//!                         (`PageTreeB.openPagesBD`: generated schemas, /Type dispatch, parents loaded through the resolver)  in domain
//! Oracle (implementation against the property itself; independent of the model):
//!   c07.dfs               for every file of the in-domain streams: leaves in depth-first order computed from
//!                         the abstract tree, nearest-ancestor attributes computed by walking up

use crate::driver::Driver;
use crate::pdfwrite::*;
use crate::report::*;
use crate::rng::Rng;
use crate::util::*;
use pdf::file::FileOptions;
use serde_json::json;

#[derive(Clone, Debug, PartialEq)]
enum Kind {
    Leaf,
    Tree(Vec<usize>),
}

#[derive(Clone, Debug)]
struct Node {
    kind: Kind,
    parent: Option<usize>,
    /// media box, crop box, resources markers
    attrs: [Option<u64>; 3],
    id: u64,
    // ---- what is written (a well-formed rendering writes the truth)
    w_parent: Option<u64>,
    w_kids: Vec<u64>,
    w_count: u64,
    w_other_type: bool,
}

#[derive(Clone, Debug)]
struct Doc {
    nodes: Vec<Node>,
    desc: String,
}

/// abstract shape used by the exhaustive enumeration
#[derive(Clone, Debug)]
enum Shape {
    Leaf,
    Tree(Vec<Shape>),
}

fn shapes_any(n: usize) -> Vec<Shape> {
    // all shapes with exactly n nodes
    let mut v = vec![];
    if n == 1 {
        v.push(Shape::Leaf);
    }
    if n >= 1 {
        for f in forests(n - 1) {
            v.push(Shape::Tree(f));
        }
    }
    v
}

fn forests(n: usize) -> Vec<Vec<Shape>> {
    if n == 0 {
        return vec![vec![]];
    }
    let mut out = vec![];
    for s in 1..=n {
        let firsts = shapes_any(s);
        let rests = forests(n - s);
        for f in &firsts {
            for r in &rests {
                let mut v = vec![f.clone()];
                v.extend(r.iter().cloned());
                out.push(v);
            }
        }
    }
    out
}

fn add_shape(nodes: &mut Vec<Node>, s: &Shape, parent: Option<usize>) -> usize {
    let idx = nodes.len();
    nodes.push(Node { kind: Kind::Leaf, parent, attrs: [None; 3], id: 0, w_parent: None, w_kids: vec![], w_count: 0, w_other_type: false });
    if let Shape::Tree(ks) = s {
        let mut kids = vec![];
        for k in ks {
            kids.push(add_shape(nodes, k, Some(idx)));
        }
        nodes[idx].kind = Kind::Tree(kids);
    }
    idx
}

fn shape_str(s: &Shape) -> String {
    match s {
        Shape::Leaf => "L".into(),
        Shape::Tree(ks) => format!("({})", ks.iter().map(shape_str).collect::<Vec<_>>().join("")),
    }
}

fn doc_shape(nodes: &[Node], i: usize) -> String {
    match &nodes[i].kind {
        Kind::Leaf => "L".into(),
        Kind::Tree(ks) => format!("({})", ks.iter().map(|&k| doc_shape(nodes, k)).collect::<Vec<_>>().join("")),
    }
}

fn leaf_count(nodes: &[Node], i: usize) -> u64 {
    match &nodes[i].kind {
        Kind::Leaf => 1,
        Kind::Tree(ks) => ks.iter().map(|&k| leaf_count(nodes, k)).sum(),
    }
}

fn level_of(nodes: &[Node], mut i: usize) -> usize {
    let mut l = 0;
    while let Some(p) = nodes[i].parent {
        l += 1;
        i = p;
    }
    l
}

/// assign object numbers (a random permutation of 2..) and the truthful written fields
fn finalize(nodes: &mut Vec<Node>, rng: &mut Rng) {
    let n = nodes.len();
    let mut ids: Vec<u64> = (2..2 + n as u64).collect();
    rng.shuffle(&mut ids);
    for i in 0..n {
        nodes[i].id = ids[i];
    }
    for i in 0..n {
        let p = nodes[i].parent.map(|p| nodes[p].id);
        let (kids, count) = match &nodes[i].kind {
            Kind::Leaf => (vec![], 0),
            Kind::Tree(ks) => (ks.iter().map(|&k| nodes[k].id).collect(), leaf_count(nodes, i)),
        };
        nodes[i].w_parent = p;
        nodes[i].w_kids = kids;
        nodes[i].w_count = count;
    }
}

fn place_attrs(nodes: &mut Vec<Node>, rng: &mut Rng) {
    let mut m = 10;
    for i in 0..nodes.len() {
        let root = nodes[i].parent.is_none();
        for a in 0..3 {
            let p = match (a, root) { (0, true) => 60, (0, false) => 25, (1, _) => 20, _ => 25 };
            if rng.chance(p, 100) {
                m += 1;
                nodes[i].attrs[a] = Some(m);
            }
        }
    }
}

/// random ordered tree: leaves at level ≤ `max_level`, fan-out 0..5, empty intermediate nodes; with
/// probability 1/2 a spine down to a chosen level is forced so that deep trees are common
fn gen_random(rng: &mut Rng, max_level: usize, min_spine: usize) -> Vec<Node> {
    let mut nodes: Vec<Node> = vec![];
    let spine = if rng.chance(1, 2) || min_spine > 0 { min_spine + rng.usize(max_level - min_spine + 1) } else { 0 };
    let mut budget: i64 = 20 + rng.below(60) as i64;
    fn grow(nodes: &mut Vec<Node>, parent: Option<usize>, level: usize, max_level: usize, spine: usize, on_spine: bool, budget: &mut i64, rng: &mut Rng) -> usize {
        let idx = nodes.len();
        nodes.push(Node { kind: Kind::Tree(vec![]), parent, attrs: [None; 3], id: 0, w_parent: None, w_kids: vec![], w_count: 0, w_other_type: false });
        *budget -= 1;
        let mut fan = rng.usize(6);
        let want_spine = on_spine && level < spine;
        if want_spine && fan == 0 {
            fan = 1;
        }
        let spine_child = if want_spine { rng.usize(fan) } else { usize::MAX };
        let mut kids = vec![];
        for c in 0..fan {
            // a kid at level+1; it may be a /Pages node only if its own kids (level+2) still fit
            let may_tree = level + 1 < max_level;
            let k = if c == spine_child && level + 1 < max_level {
                grow(nodes, Some(idx), level + 1, max_level, spine, true, budget, rng)
            } else {
                let r = rng.below(100);
                if may_tree && *budget > 0 && r < 30 {
                    grow(nodes, Some(idx), level + 1, max_level, spine, false, budget, rng)
                } else if r < 45 && level + 1 <= max_level {
                    // empty intermediate node
                    let e = nodes.len();
                    nodes.push(Node { kind: Kind::Tree(vec![]), parent: Some(idx), attrs: [None; 3], id: 0, w_parent: None, w_kids: vec![], w_count: 0, w_other_type: false });
                    e
                } else {
                    let l = nodes.len();
                    nodes.push(Node { kind: Kind::Leaf, parent: Some(idx), attrs: [None; 3], id: 0, w_parent: None, w_kids: vec![], w_count: 0, w_other_type: false });
                    l
                }
            };
            kids.push(k);
        }
        nodes[idx].kind = Kind::Tree(kids);
        idx
    }
    grow(&mut nodes, None, 0, max_level, spine, true, &mut budget, rng);
    nodes
}

// ---------------------------------------------------------------------------------------------------
// writing the file

fn fmt_box(m: u64, rng: &mut Rng, plain: bool) -> String {
    // plain (the byte-level stream `c07.bytes`): integer boxes only, the model's node reader takes the marker
    // from an integer third element
    match if plain { 2 * rng.below(2) } else { rng.below(3) } {
        0 => format!("[0 0 {} 7]", m),
        1 => format!("[0.5 0.25 {}.5 7.75]", m),
        _ => format!("[ -3 0.5 {} 9 ]", m),
    }
}

struct Written {
    bytes: Vec<u8>,
    format: &'static str,
}

fn write_doc(nodes: &[Node], rng: &mut Rng) -> Written {
    write_doc_with(nodes, rng, false)
}

/// `plain`: what the byte-level model of the driver covers — integer boxes, attributes in place, unfiltered object
/// streams (the filter chain is third-party)
fn write_doc_with(nodes: &[Node], rng: &mut Rng, plain: bool) -> Written {
    let n = nodes.len() as u64;
    let mut next_aux = 2 + n;
    let mut aux: Vec<(u64, Vec<u8>)> = vec![];
    let mut bodies: Vec<(u64, Vec<u8>)> = vec![];
    for nd in nodes {
        let mut keys: Vec<String> = vec![];
        let is_tree = matches!(nd.kind, Kind::Tree(_));
        if nd.w_other_type {
            keys.push("/Type /Fnord".into());
        } else if is_tree {
            keys.push("/Type /Pages".into());
        } else {
            keys.push("/Type /Page".into());
        }
        if let Some(p) = nd.w_parent {
            keys.push(format!("/Parent {} 0 R", p));
        }
        if is_tree {
            keys.push(format!("/Kids [{}]", nd.w_kids.iter().map(|k| format!("{} 0 R", k)).collect::<Vec<_>>().join(" ")));
            keys.push(format!("/Count {}", nd.w_count));
        } else {
            keys.push(format!("/VMark {}", nd.id));
        }
        for (a, key) in ["MediaBox", "CropBox"].iter().enumerate() {
            if let Some(m) = nd.attrs[a] {
                if !plain && rng.chance(1, 6) {
                    let id = next_aux;
                    next_aux += 1;
                    aux.push((id, fmt_box(m, rng, plain).into_bytes()));
                    keys.push(format!("/{} {} 0 R", key, id));
                } else {
                    keys.push(format!("/{} {}", key, fmt_box(m, rng, plain)));
                }
            }
        }
        if let Some(m) = nd.attrs[2] {
            let dict = match rng.below(3) {
                0 => format!("<< /Properties << /M{} << /V {} >> >> >>", m, m),
                1 => format!("<< /ProcSet [/PDF /Text] /Properties << /M{} << >> >> >>", m),
                _ => format!("<< /Properties << /M{} << /V 1 >> >> /ExtGState << >> >>", m),
            };
            if !plain && rng.chance(1, 3) {
                let id = next_aux;
                next_aux += 1;
                aux.push((id, dict.into_bytes()));
                keys.push(format!("/Resources {} 0 R", id));
            } else {
                keys.push(format!("/Resources {}", dict));
            }
        }
        // the first key stays /Type so that a reader that peeks at it is not confused; the rest is shuffled
        let (first, rest) = keys.split_at_mut(1);
        rng.shuffle(rest);
        let body = format!("<< {} {} >>", first[0], rest.join(" "));
        bodies.push((nd.id, body.into_bytes()));
    }
    let root_id = nodes[0].id;
    let catalog = format!("<< /Type /Catalog /Pages {} 0 R >>", root_id).into_bytes();
    let mut all: Vec<(u64, Vec<u8>)> = vec![(1, catalog)];
    all.extend(bodies);
    all.extend(aux);
    rng.shuffle(&mut all);
    let mut w = PdfWriter::new(b"", "1.7");
    w.free(0, 0, 65535);
    let use_stream = rng.chance(1, 2);
    let format;
    if use_stream {
        // some objects inside object streams (never the catalog's /Pages target restriction: any object may be)
        let mut direct = vec![];
        let mut packed = vec![];
        for o in all {
            if rng.chance(1, 2) { packed.push(o) } else { direct.push(o) }
        }
        for (id, b) in &direct {
            w.object(*id, 0, b);
        }
        let mut max_id = next_aux;
        let mut rest = &packed[..];
        while !rest.is_empty() {
            let take = 1 + rng.usize(rest.len().min(7));
            let (chunk, tail) = rest.split_at(take);
            rest = tail;
            let stm = max_id;
            max_id += 1;
            let filter = if plain { StmFilter::None } else { *rng.pick(&[StmFilter::None, StmFilter::Flate]) };
            w.object_stream(stm, chunk, filter, b"\n", "");
        }
        let xref_id = max_id;
        w.finish(XrefFormat::Stream, xref_id + 1, "/Root 1 0 R", &[], xref_id);
        format = "xref-stream";
    } else {
        for (id, b) in &all {
            w.object(*id, 0, b);
        }
        w.finish(XrefFormat::Classic, next_aux, "/Root 1 0 R", &[], 0);
        format = "classic";
    }
    Written { bytes: w.out, format }
}

// ---------------------------------------------------------------------------------------------------
// the three views of a case: model request, implementation, oracle

fn opt(m: Option<u64>) -> String {
    m.map(|x| x.to_string()).unwrap_or_else(|| "-".into())
}

fn request(nodes: &[Node], nq: u64) -> String {
    let objs: Vec<String> = nodes
        .iter()
        .map(|nd| {
            let a = format!("{}:{}:{}", opt(nd.attrs[0]), opt(nd.attrs[1]), opt(nd.attrs[2]));
            if nd.w_other_type {
                format!("O:{}", nd.id)
            } else {
                match nd.kind {
                    Kind::Leaf => match nd.w_parent {
                        Some(p) => format!("P:{}:{}:{}", nd.id, p, a),
                        None => format!("O:{}", nd.id), // a page without /Parent does not load
                    },
                    Kind::Tree(_) => {
                        let kids = if nd.w_kids.is_empty() { "-".to_string() } else { nd.w_kids.iter().map(|k| k.to_string()).collect::<Vec<_>>().join("+") };
                        format!("T:{}:{}:{}:{}:{}", nd.id, opt(nd.w_parent), kids, nd.w_count, a)
                    }
                }
            }
        })
        .collect();
    format!("c07.tree {} {} {}", nodes[0].id, nq, objs.join(";"))
}

macro_rules! probe {
    ($file:expr, $nq:expr) => {{
        let file = $file;
        let mut out = vec![format!("num={}", file.num_pages())];
        for i in 0..$nq {
            out.push(match file.get_page(i as u32) {
                Err(_) => "err".to_string(),
                Ok(page) => {
                    let id = page.get_ref().get_inner().id;
                    let mark = page.other.get("VMark").and_then(|p| p.as_integer().ok()).map(|m| m as u64);
                    let bx = |r: pdf::error::Result<pdf::object::Rectangle>| match r {
                        Ok(b) => format!("{}", b.right.floor() as i64),
                        Err(_) => "E".to_string(),
                    };
                    let rs = match page.resources() {
                        Ok(r) => {
                            let ks: Vec<&str> = r.properties.keys().map(|k| k.as_str()).collect();
                            if ks.len() == 1 && ks[0].starts_with('M') { ks[0][1..].to_string() } else { format!("?{}", ks.len()) }
                        }
                        Err(_) => "E".to_string(),
                    };
                    if mark != Some(id) {
                        format!("ok.{}.BADMARK", id)
                    } else {
                        format!("ok.{}.{}.{}.{}", id, bx(page.media_box()), bx(page.crop_box()), rs)
                    }
                }
            });
        }
        out.join(" ")
    }};
}

fn run_real(bytes: &[u8], cached: bool, nq: u64) -> String {
    let data = bytes.to_vec();
    match no_panic(move || {
        if cached {
            match FileOptions::cached().load(data) {
                Ok(f) => probe!(&f, nq),
                Err(_) => "root=err".to_string(),
            }
        } else {
            match FileOptions::uncached().load(data) {
                Ok(f) => probe!(&f, nq),
                Err(_) => "root=err".to_string(),
            }
        }
    }) {
        Ok(s) => s,
        Err(_) => "panic".to_string(),
    }
}

/// the property's own oracle: leaves in depth-first document order, attribute = own or nearest ancestor's.
/// `None` for an attribute nobody carries (the property does not say what happens then).
fn oracle_leaves(nodes: &[Node]) -> Vec<(u64, [Option<u64>; 3])> {
    fn walk(nodes: &[Node], i: usize, out: &mut Vec<(u64, [Option<u64>; 3])>) {
        match &nodes[i].kind {
            Kind::Leaf => {
                let near = |a: usize| {
                    let mut j = Some(i);
                    while let Some(k) = j {
                        if let Some(m) = nodes[k].attrs[a] {
                            return Some(m);
                        }
                        j = nodes[k].parent;
                    }
                    None
                };
                let mb = near(0);
                let cb = near(1).or(mb);
                out.push((nodes[i].id, [mb, cb, near(2)]));
            }
            Kind::Tree(ks) => {
                for &k in ks {
                    walk(nodes, k, out);
                }
            }
        }
    }
    let mut out = vec![];
    walk(nodes, 0, &mut out);
    out
}

fn check_oracle(or: &mut Oracle, nodes: &[Node], observed: &str, mode: &str, replay: &serde_json::Value) {
    let leaves = oracle_leaves(nodes);
    let f: Vec<&str> = observed.split(' ').collect();
    let fail = |or: &mut Oracle, sig: &str, what: String| {
        let mut r = replay.clone();
        r["mode"] = json!(mode);
        r["observed"] = json!(observed);
        or.fail(sig, &what, r);
    };
    if observed == "panic" {
        return fail(or, "panic", format!("panic while reading a well-formed page tree ({})", mode));
    }
    if observed == "root=err" {
        return fail(or, "load-failed", format!("a well-formed generated file does not load ({})", mode));
    }
    if f[0] != format!("num={}", leaves.len()) {
        return fail(or, "num-pages", format!("num_pages: expected {} got {} ({})", leaves.len(), f[0], mode));
    }
    for i in 0..f.len() - 1 {
        let got = f[i + 1];
        if i < leaves.len() {
            let (id, a) = &leaves[i];
            let g: Vec<&str> = got.split('.').collect();
            if g.len() != 5 || g[0] != "ok" {
                return fail(or, "page-missing", format!("get_page({}) of {} leaves: expected object {} got {} ({})", i, leaves.len(), id, got, mode));
            }
            if g[1] != id.to_string() {
                return fail(or, "wrong-leaf", format!("get_page({}): expected the leaf object {} got object {} ({})", i, id, g[1], mode));
            }
            for (k, name) in ["media_box", "crop_box", "resources"].iter().enumerate() {
                if let Some(m) = a[k] {
                    if g[2 + k] != m.to_string() {
                        return fail(or, "wrong-attribute", format!("page {} (object {}): {} expected marker {} got {} ({})", i, id, name, m, g[2 + k], mode));
                    }
                }
            }
        } else if got != "err" {
            return fail(or, "not-out-of-bounds", format!("get_page({}) with {} leaves: expected an error, got {} ({})", i, leaves.len(), got, mode));
        }
    }
}

struct Case {
    nodes: Vec<Node>,
    desc: String,
}

fn run_cases(driver: &Driver, st: &mut Stream, mut or: Option<&mut Oracle>, seed: u64, cases: impl Iterator<Item = (u64, Case, Rng)>) {
    let mut reqs = vec![];
    let mut imps: Vec<(String, String)> = vec![];
    for (case, c, mut rng) in cases {
        let leaves = leaf_count(&c.nodes, 0);
        let nq = leaves + 2;
        let w = write_doc(&c.nodes, &mut rng);
        let unc = run_real(&w.bytes, false, nq);
        let cac = run_real(&w.bytes, true, nq);
        st.count(&format!("format={}", w.format));
        st.count(&format!("nodes={}", match c.nodes.len() { 0..=3 => "1-3".to_string(), 4..=6 => "4-6".into(), 7..=20 => "7-20".into(), 21..=50 => "21-50".into(), _ => "51+".into() }));
        let maxlevel = (0..c.nodes.len()).map(|i| level_of(&c.nodes, i)).max().unwrap_or(0);
        st.count(&format!("max_level={:02}", maxlevel));
        st.count(&format!("leaves={}", match leaves { 0 => "0".to_string(), 1..=3 => "1-3".into(), 4..=10 => "4-10".into(), _ => "11+".into() }));
        let empties = c.nodes.iter().skip(1).filter(|n| n.kind == Kind::Tree(vec![])).count();
        st.count(if empties > 0 { "empty_intermediate=yes" } else { "empty_intermediate=no" });
        if let Some(or) = or.as_deref_mut() {
            let replay = json!({"stream": st.name, "seed": seed, "case": case, "desc": c.desc, "shape": doc_shape(&c.nodes, 0), "file_hex": crate::driver::hex(&w.bytes)});
            let before = or.failures.len();
            check_oracle(or, &c.nodes, &unc, "uncached", &replay);
            if or.failures.len() == before {
                check_oracle(or, &c.nodes, &cac, "cached", &replay);
            }
            let key = format!("{}#{}", st.name, case);
            or.case(&key, leaves > 1, || json!({"shape": doc_shape(&c.nodes, 0), "observed": unc}));
            or.count(&format!("stream={}", st.name));
        }
        reqs.push(format!("{} @{}/{}/{}", request(&c.nodes, nq), st.name, seed, case));
        imps.push((unc, cac));
    }
    let resp = driver.ask(&reqs);
    for ((rq, m), (unc, cac)) in reqs.iter().zip(resp.iter()).zip(imps.iter()) {
        let nontrivial = rq.matches(";T:").count() > 0;
        st.case(rq, m, unc, nontrivial);
        if cac != unc {
            // cached and uncached must agree with the model each
            st.case(&format!("{} [cached]", rq), m, cac, false);
        }
        st.count(if m.starts_with("num=") { "outcome=loaded" } else { "outcome=root-refused" });
    }
}

fn exhaustive_cases(seed: u64, max_nodes: usize, all_placements: bool, only: Option<u64>) -> Vec<(u64, Case, Rng)> {
    let mut out = vec![];
    let mut case = 0u64;
    for n in 1..=max_nodes {
        for f in forests(n - 1) {
            let shape = Shape::Tree(f);
            let placements: u64 = if all_placements { 1 << n } else { 2 };
            for pl in 0..placements {
                let this = case;
                case += 1;
                if let Some(o) = only {
                    if o != this { continue; }
                }
                let mut rng = Rng::derive(seed, "c07.tree.exhaustive", this);
                let mut nodes = vec![];
                add_shape(&mut nodes, &shape, None);
                finalize(&mut nodes, &mut rng);
                place_attrs(&mut nodes, &mut rng);
                if all_placements {
                    for i in 0..n {
                        nodes[i].attrs[0] = if pl >> i & 1 == 1 { Some(100 + i as u64) } else { None };
                    }
                }
                out.push((this, Case { nodes, desc: format!("shape {} placement {}", shape_str(&shape), pl) }, rng));
            }
        }
    }
    out
}

fn random_case(seed: u64, stream: &str, case: u64) -> (u64, Case, Rng) {
    let mut rng = Rng::derive(seed, stream, case);
    let mut nodes = match stream {
        "c07.tree.deep" => gen_random(&mut rng, 19, 13),
        _ => gen_random(&mut rng, 12, 0),
    };
    finalize(&mut nodes, &mut rng);
    place_attrs(&mut nodes, &mut rng);
    let mut desc = String::new();
    if stream == "c07.tree.outside" {
        desc = damage(&mut nodes, &mut rng);
    }
    (case, Case { nodes, desc }, rng)
}

/// one damage per file; the written fields lie, the abstract tree is unchanged
fn damage(nodes: &mut Vec<Node>, rng: &mut Rng) -> String {
    let n = nodes.len();
    let trees: Vec<usize> = (0..n).filter(|&i| matches!(nodes[i].kind, Kind::Tree(_))).collect();
    let pick_tree = |rng: &mut Rng| trees[rng.usize(trees.len())];
    match rng.below(9) {
        0 => {
            let t = pick_tree(rng);
            let d = rng.range(-3, 3);
            nodes[t].w_count = (nodes[t].w_count as i64 + d).max(0) as u64;
            format!("count of {} off by {}", nodes[t].id, d)
        }
        1 => {
            let i = rng.usize(n);
            let t = pick_tree(rng);
            nodes[i].w_parent = Some(nodes[t].id);
            format!("parent of {} set to {}", nodes[i].id, nodes[t].id)
        }
        2 => {
            let i = rng.usize(n);
            nodes[i].w_parent = None;
            format!("parent of {} removed", nodes[i].id)
        }
        3 => {
            // /Parent cycle: a tree node whose parent is itself or one of its descendants
            let t = pick_tree(rng);
            let desc: Vec<usize> = (0..n).filter(|&j| matches!(nodes[j].kind, Kind::Tree(_)) && { let mut k = Some(j); let mut hit = false; while let Some(x) = k { if x == t { hit = true; break; } k = nodes[x].parent; } hit }).collect();
            let d = desc[rng.usize(desc.len())];
            nodes[t].w_parent = Some(nodes[d].id);
            format!("parent of {} set to its descendant {}", nodes[t].id, nodes[d].id)
        }
        4 => {
            let t = pick_tree(rng);
            if nodes[t].w_kids.is_empty() { return "no kid to duplicate".into(); }
            let k = nodes[t].w_kids[rng.usize(nodes[t].w_kids.len())];
            let pos = rng.usize(nodes[t].w_kids.len() + 1);
            nodes[t].w_kids.insert(pos, k);
            format!("kid {} listed twice in {}", k, nodes[t].id)
        }
        5 => {
            let t = pick_tree(rng);
            let pos = rng.usize(nodes[t].w_kids.len() + 1);
            nodes[t].w_kids.insert(pos, 9000);
            format!("dangling kid in {}", nodes[t].id)
        }
        6 => {
            let i = rng.usize(n);
            nodes[i].w_other_type = true;
            format!("wrong /Type on {}", nodes[i].id)
        }
        7 => {
            // a kid that points back at an ancestor (cyclic /Kids)
            let t = pick_tree(rng);
            let mut anc = vec![t];
            let mut k = nodes[t].parent;
            while let Some(x) = k { anc.push(x); k = nodes[x].parent; }
            let a = anc[rng.usize(anc.len())];
            let pos = rng.usize(nodes[t].w_kids.len() + 1);
            let aid = nodes[a].id;
            nodes[t].w_kids.insert(pos, aid);
            format!("kid of {} points at ancestor {}", nodes[t].id, aid)
        }
        _ => {
            let t = pick_tree(rng);
            if nodes[t].w_kids.is_empty() { return "no kid to drop".into(); }
            let pos = rng.usize(nodes[t].w_kids.len());
            let k = nodes[t].w_kids.remove(pos);
            format!("kid {} dropped from {}", k, nodes[t].id)
        }
    }
}

/// `c07.bytes`: the byte-level composition in the driver (`PageTreeB.getPageB`: open path, resolver, parser models on the
/// bytes, node reader, page-tree model) against `FileOptions::load(..).get_page(i)` on generated tree files
fn bytes_stream(driver: &Driver, st: &mut Stream, std: &mut Stream, seed: u64, cases: impl Iterator<Item = u64>) {
    let mut reqs = vec![];
    let mut reqs_d = vec![];
    let mut reqs_a = vec![];
    let mut imps = vec![];
    for case in cases {
        let mut rng = Rng::derive(seed, "c07.bytes", case);
        let mut nodes = loop {
            let max_level = 1 + rng.usize(12);
            let v = gen_random(&mut rng, max_level, 0);
            if v.len() <= 40 { break v; }
        };
        finalize(&mut nodes, &mut rng);
        place_attrs(&mut nodes, &mut rng);
        let leaves = leaf_count(&nodes, 0);
        let nq = leaves + 2;
        let w = write_doc_with(&nodes, &mut rng, true);
        let imp = run_real(&w.bytes, false, nq);
        st.count(&format!("format={}", w.format));
        let maxlevel = (0..nodes.len()).map(|i| level_of(&nodes, i)).max().unwrap_or(0);
        st.count(&format!("max_level={:02}", maxlevel));
        reqs.push(format!("c07.bytes {} {} @c07.bytes/{}/{}", nq, crate::driver::hex(&w.bytes), seed, case));
        reqs_d.push(format!("c07.bytesd {} {} @c07.bytes/{}/{}", nq, crate::driver::hex(&w.bytes), seed, case));
        reqs_a.push(format!("c07.agree {} @c07.bytes/{}/{}", crate::driver::hex(&w.bytes), seed, case));
        imps.push(imp);
    }
    let resp = driver.ask(&reqs);
    for ((rq, m), i) in reqs.iter().zip(resp.iter()).zip(imps.iter()) {
        st.case(rq, m, i, rq.len() > 600);
    }
    // the same files with the derived readers of `Page` / `PageTree` as node reader
    let resp = driver.ask(&reqs_d);
    for ((rq, m), i) in reqs_d.iter().zip(resp.iter()).zip(imps.iter()) {
        std.case(rq, m, i, rq.len() > 600);
    }
    // the hypothesis `DefaultZeroEvaluates` of `page_nth_bytes_partial3`, evaluated
    let r0 = driver.ask(&["c07.dflt0".to_string()]);
    std.case("c07.dflt0", &r0[0], "1", false);
    // the hypothesis `DerivedAgrees` of `page_nth_bytes_partial2`, evaluated on every object of every file
    let resp = driver.ask(&reqs_a);
    for (rq, m) in reqs_a.iter().zip(resp.iter()) {
        std.count(if m == "1" { "derived_agrees_with_nodeOf=yes" } else { "derived_agrees_with_nodeOf=no" });
        std.case(rq, m, "1", rq.len() > 600);
    }
}

pub fn run(driver: &Driver, seed: u64, thorough: bool, replay: Option<&serde_json::Value>) -> Report {
    let mut rep = Report::new("C07");
    let mut or = Oracle::new("c07.dfs");
    if let Some(r) = replay {
        let mut seed = r["seed"].as_u64().unwrap_or(seed);
        let mut case = r["case"].as_u64().unwrap_or(0);
        let mut stream = r["stream"].as_str().unwrap_or("c07.tree.random").to_string();
        // a correspondence replay carries the request, whose last field is `@stream/seed/case`
        if let Some(tag) = r["disagreement"]["request"].as_str().and_then(|q| q.split(' ').find(|f| f.starts_with('@'))) {
            let p: Vec<&str> = tag[1..].split('/').collect();
            if p.len() == 3 {
                stream = p[0].to_string();
                seed = p[1].parse().unwrap_or(seed);
                case = p[2].parse().unwrap_or(case);
            }
        }
        let mut st = Stream::new(&stream, stream != "c07.tree.outside" && stream != "c07.tree.deep");
        if stream == "c07.bytes" {
            let mut sd = Stream::new("c07.bytes.derived", true);
            bytes_stream(driver, &mut st, &mut sd, seed, std::iter::once(case));
            rep.streams.push(sd);
        } else if stream == "c07.tree.exhaustive" {
            // the enumeration depends on the tier the failure was found in: try both
            let mut cs = exhaustive_cases(seed, 6, true, Some(case));
            if !r["desc"].as_str().map(|d| cs.first().map(|c| c.1.desc == d).unwrap_or(false)).unwrap_or(false) {
                cs = exhaustive_cases(seed, 5, false, Some(case));
            }
            run_cases(driver, &mut st, Some(&mut or), seed, cs.into_iter());
        } else if st.in_domain {
            run_cases(driver, &mut st, Some(&mut or), seed, std::iter::once(random_case(seed, &stream, case)));
        } else {
            run_cases(driver, &mut st, None, seed, std::iter::once(random_case(seed, &stream, case)));
        }
        rep.streams.push(st);
        rep.oracles.push(or);
        return rep;
    }
    let mut st = Stream::new("c07.tree.exhaustive", true);
    st.exhaustive = true;
    let cs = if thorough { exhaustive_cases(seed, 6, true, None) } else { exhaustive_cases(seed, 5, false, None) };
    run_cases(driver, &mut st, Some(&mut or), seed, cs.into_iter());
    rep.streams.push(st);

    let mut st = Stream::new("c07.tree.random", true);
    let n = if thorough { 30_000 } else { 1000 };
    run_cases(driver, &mut st, Some(&mut or), seed, (0..n).map(|c| random_case(seed, "c07.tree.random", c)));
    rep.streams.push(st);

    let mut st = Stream::new("c07.tree.deep", false);
    let n = if thorough { 3_000 } else { 150 };
    run_cases(driver, &mut st, None, seed, (0..n).map(|c| random_case(seed, "c07.tree.deep", c)));
    rep.streams.push(st);

    let mut st = Stream::new("c07.tree.outside", false);
    let n = if thorough { 10_000 } else { 400 };
    run_cases(driver, &mut st, None, seed, (0..n).map(|c| random_case(seed, "c07.tree.outside", c)));
    rep.streams.push(st);

    let mut st = Stream::new("c07.bytes", true);
    let n = if thorough { 3_000 } else { 120 };
    let mut sd = Stream::new("c07.bytes.derived", true);
    bytes_stream(driver, &mut st, &mut sd, seed, 0..n);
    rep.streams.push(st);
    rep.streams.push(sd);

    rep.oracles.push(or);
    rep
}
