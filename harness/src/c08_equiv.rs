//! C08 oracle relation: two operation sequences are the same *with numeric equality on reals*
//! (`f32 ==`, so `-0 == 0`; inside a `Primitive` operand an integer equals the real of the same value).

use super::codec::*;
use pdf::content::*;
use pdf::primitive::Primitive;

pub fn prim_equiv(a: &Primitive, b: &Primitive) -> bool {
    use Primitive::*;
    match (a, b) {
        (Null, Null) => true,
        (Boolean(x), Boolean(y)) => x == y,
        (Integer(x), Integer(y)) => x == y,
        (Integer(x), Number(y)) | (Number(y), Integer(x)) => (*x as f32) == *y,
        (Number(x), Number(y)) => x == y,
        (String(x), String(y)) => x.as_bytes() == y.as_bytes(),
        (Name(x), Name(y)) => x == y,
        (Reference(x), Reference(y)) => x.id == y.id && x.gen == y.gen,
        (Array(x), Array(y)) => x.len() == y.len() && x.iter().zip(y).all(|(p, q)| prim_equiv(p, q)),
        (Dictionary(x), Dictionary(y)) => x.len() == y.len() && x.iter().all(|(k, v)| y.get(k).map(|w| prim_equiv(v, w)).unwrap_or(false)),
        _ => false,
    }
}

/// skeleton (variant + every non-real payload), the reals in order, the `Primitive` operands in order
fn parts(op: &Op) -> (String, Vec<f32>, Vec<Primitive>) {
    let k = op_kind(op).to_string();
    let m = |m: &Matrix| vec![m.a, m.b, m.c, m.d, m.e, m.f];
    let col = |c: &Color| -> (String, Vec<f32>, Vec<Primitive>) {
        match c {
            Color::Gray(g) => ("gray".into(), vec![*g], vec![]),
            Color::Rgb(c) => ("rgb".into(), vec![c.red, c.green, c.blue], vec![]),
            Color::Cmyk(c) => ("cmyk".into(), vec![c.cyan, c.magenta, c.yellow, c.key], vec![]),
            Color::Other(a) => (format!("other{}", a.len()), vec![], a.clone()),
        }
    };
    match op {
        Op::BeginMarkedContent { tag, properties } | Op::MarkedContentPoint { tag, properties } => (format!("{}:{}", k, tag), vec![], properties.iter().cloned().collect()),
        Op::MoveTo { p } | Op::LineTo { p } => (k, vec![p.x, p.y], vec![]),
        Op::CurveTo { c1, c2, p } => (k, vec![c1.x, c1.y, c2.x, c2.y, p.x, p.y], vec![]),
        Op::Rect { rect } => (k, vec![rect.x, rect.y, rect.width, rect.height], vec![]),
        Op::Transform { matrix } | Op::SetTextMatrix { matrix } => (k, m(matrix), vec![]),
        Op::LineWidth { width: x } | Op::MiterLimit { limit: x } | Op::Flatness { tolerance: x } | Op::CharSpacing { char_space: x } | Op::WordSpacing { word_space: x }
        | Op::TextScaling { horiz_scale: x } | Op::Leading { leading: x } | Op::TextRise { rise: x } => (k, vec![*x], vec![]),
        Op::Dash { pattern, phase } => {
            let mut v = pattern.clone();
            v.push(*phase);
            (format!("{}:{}", k, pattern.len()), v, vec![])
        }
        Op::StrokeColor { color } | Op::FillColor { color } => {
            let (s, r, p) = col(color);
            (format!("{}:{}", k, s), r, p)
        }
        Op::TextFont { name, size } => (format!("{}:{}", k, name), vec![*size], vec![]),
        Op::MoveTextPosition { translation } => (k, vec![translation.x, translation.y], vec![]),
        Op::TextDrawAdjusted { array } => {
            let mut sk = k;
            let mut r = vec![];
            for x in array {
                match x {
                    TextDrawAdjusted::Text(t) => sk.push_str(&format!(":s{}", crate::driver::hex(t.as_bytes()))),
                    TextDrawAdjusted::Spacing(s) => {
                        sk.push_str(":r");
                        r.push(*s);
                    }
                }
            }
            (sk, r, vec![])
        }
        // everything else has no real and no Primitive: the canonical text is the skeleton
        other => (show_op(other), vec![], vec![]),
    }
}

pub fn op_equiv(a: &Op, b: &Op) -> bool {
    let (sa, ra, pa) = parts(a);
    let (sb, rb, pb) = parts(b);
    sa == sb && ra.len() == rb.len() && ra.iter().zip(&rb).all(|(x, y)| x == y) && pa.len() == pb.len() && pa.iter().zip(&pb).all(|(x, y)| prim_equiv(x, y))
}

/// `None` when equivalent, else (index, description) of the first difference
pub fn first_difference(read: &[Op], orig: &[Op]) -> Option<(usize, String)> {
    for (i, (a, b)) in read.iter().zip(orig).enumerate() {
        if !op_equiv(a, b) {
            return Some((i, format!("operation {}: written {} read back {}", i, show_op(b), show_op(a))));
        }
    }
    if read.len() != orig.len() {
        let i = read.len().min(orig.len());
        return Some((i, format!("{} operations written, {} read back", orig.len(), read.len())));
    }
    None
}
