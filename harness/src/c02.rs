//! C02 — the newest cross-reference entry wins.
//!
//! Correspondence streams (model = lean/PdfModel/Model/Xref.lean):
//!   c02.merge.exhaustive   every history of ≤ 2 (quick) / ≤ 3 (thorough) sections over 2 object numbers
//!                          × {absent, raw g0, raw g1, free g0, free g1, compressed}
//!   c02.merge.random       random tables / sections / subsection splittings → `XRefTable::add_entries_from`
//!   c02.merge.outside      incoming `Promised`/`Invalid` entries (never produced by a reader; drift only)
//!   c02.file               generated multi-revision files → `read_xref_table_and_trailer` + `resolve`
//!   c02.xrefstm[.outside] single cross-reference streams with arbitrary /W, /Index and row data →
//!                          `read_xref_table_and_trailer` (in-domain: conforming rows; outside: garbage)
//! Oracle (implementation against the property itself):
//!   c02.latest             same files: every object number resolves to the value written by the newest
//!                          revision mentioning it / FreeObject / NullRef / Unspecified; trailer = newest

use crate::driver::Driver;
use crate::pdfwrite::*;
use crate::report::*;
use crate::rng::Rng;
use crate::util::*;
use pdf::file::{NoCache, NoLog, Storage};
use pdf::object::{ParseOptions, PlainRef, Resolve};
use pdf::primitive::Primitive;
use pdf::xref::{XRef, XRefSection, XRefTable};
use serde_json::json;
use std::collections::BTreeMap;
use std::panic::{catch_unwind, AssertUnwindSafe};

fn show_entry(e: &XRef) -> String {
    match *e {
        XRef::Free { next_obj_nr, gen_nr } => format!("f.{}.{}", next_obj_nr, gen_nr),
        XRef::Raw { pos, gen_nr } => format!("r.{}.{}", pos, gen_nr),
        XRef::Stream { stream_id, index } => format!("s.{}.{}", stream_id, index),
        XRef::Promised => "P".into(),
        XRef::Invalid => "I".into(),
    }
}

type Sub = (u32, Vec<XRef>);

fn show_sections(secs: &[Vec<Sub>]) -> String {
    if secs.is_empty() {
        return "-".into();
    }
    secs.iter()
        .map(|sec| {
            if sec.is_empty() {
                "-".to_string()
            } else {
                sec.iter()
                    .map(|(first, es)| {
                        format!("{}:{}", first, if es.is_empty() { "-".to_string() } else { es.iter().map(show_entry).collect::<Vec<_>>().join(",") })
                    })
                    .collect::<Vec<_>>()
                    .join(";")
            }
        })
        .collect::<Vec<_>>()
        .join("|")
}

/// run the real merge; canonical result string (entries only)
fn real_merge(size: u64, secs: &[Vec<Sub>]) -> String {
    let r = catch_unwind(AssertUnwindSafe(|| {
        let mut t = XRefTable::new(size);
        for sec in secs {
            for (first, es) in sec {
                let s = XRefSection { first_id: *first, entries: es.clone() };
                if t.add_entries_from(s).is_err() {
                    return "err".to_string();
                }
            }
        }
        let es: Vec<String> = (0..t.len()).map(|i| show_entry(&t.get(i as u64).unwrap())).collect();
        format!("ok {}", es.join(","))
    }));
    r.unwrap_or_else(|_| "panic".into())
}

fn model_entries(resp: &str) -> String {
    // model answers `ok <entries> <lookups>`; the table-level streams compare entries only
    let f: Vec<&str> = resp.split(' ').collect();
    if f.len() == 3 && f[0] == "ok" { format!("ok {}", f[1]) } else { resp.to_string() }
}

fn opt_entry(k: usize, pos: u64) -> Option<XRef> {
    match k {
        0 => None,
        1 => Some(XRef::Raw { pos: pos as usize, gen_nr: 0 }),
        2 => Some(XRef::Raw { pos: pos as usize, gen_nr: 1 }),
        3 => Some(XRef::Free { next_obj_nr: 0, gen_nr: 0 }),
        4 => Some(XRef::Free { next_obj_nr: 0, gen_nr: 1 }),
        _ => Some(XRef::Stream { stream_id: 9, index: pos as usize }),
    }
}

fn exhaustive(driver: &Driver, max_secs: usize) -> Stream {
    let mut st = Stream::new("c02.merge.exhaustive", true);
    st.exhaustive = true;
    let mut reqs = vec![];
    let mut imps = vec![];
    for nsec in 1..=max_secs {
        let combos = 36usize.pow(nsec as u32);
        for c in 0..combos {
            let mut secs: Vec<Vec<Sub>> = vec![];
            let mut x = c;
            for s in 0..nsec {
                let a = x % 6;
                let b = (x / 6) % 6;
                x /= 36;
                let ea = opt_entry(a, (100 + s * 10) as u64);
                let eb = opt_entry(b, (200 + s * 10) as u64);
                let sec: Vec<Sub> = match (ea, eb) {
                    (None, None) => vec![],
                    (Some(a), None) => vec![(1, vec![a])],
                    (None, Some(b)) => vec![(2, vec![b])],
                    // one run or two subsections, alternating
                    (Some(a), Some(b)) => if c % 2 == 0 { vec![(1, vec![a, b])] } else { vec![(1, vec![a]), (2, vec![b])] },
                };
                secs.push(sec);
            }
            reqs.push(format!("c02.merge 3 {}", show_sections(&secs)));
            imps.push(real_merge(3, &secs));
        }
    }
    let resp = driver.ask(&reqs);
    for ((rq, m), i) in reqs.iter().zip(resp.iter()).zip(imps.iter()) {
        st.case(rq, &model_entries(m), i, rq.contains('|'));
    }
    st
}

fn rand_entry(rng: &mut Rng, outside: bool) -> XRef {
    let k = rng.below(if outside { 12 } else { 10 });
    let gens = [0u64, 0, 0, 1, 1, 2, 7, 65535];
    match k {
        0..=3 => XRef::Raw { pos: rng.below(5000) as usize, gen_nr: *rng.pick(&gens) },
        4..=6 => XRef::Free { next_obj_nr: rng.below(10), gen_nr: *rng.pick(&gens) },
        7..=9 => XRef::Stream { stream_id: rng.below(20), index: rng.below(50) as usize },
        10 => XRef::Promised,
        _ => XRef::Invalid,
    }
}

fn random_merge(driver: &Driver, seed: u64, n: u64, outside: bool) -> Stream {
    let name = if outside { "c02.merge.outside" } else { "c02.merge.random" };
    let mut st = Stream::new(name, !outside);
    let mut reqs = vec![];
    let mut imps = vec![];
    for case in 0..n {
        let mut rng = Rng::derive(seed, name, case);
        let size = rng.below(12);
        let nsec = 1 + rng.usize(5);
        let mut secs = vec![];
        for _ in 0..nsec {
            let nsub = rng.usize(4);
            let mut sec = vec![];
            for _ in 0..nsub {
                let first = rng.below(size + 3) as u32;
                let len = rng.usize(5);
                let es: Vec<XRef> = (0..len).map(|_| rand_entry(&mut rng, outside)).collect();
                sec.push((first, es));
            }
            secs.push(sec);
        }
        st.count(&format!("sections={}", nsec));
        reqs.push(format!("c02.merge {} {}", size, show_sections(&secs)));
        imps.push(real_merge(size, &secs));
    }
    let resp = driver.ask(&reqs);
    for ((rq, m), i) in reqs.iter().zip(resp.iter()).zip(imps.iter()) {
        let me = model_entries(m);
        st.count(&format!("outcome={}", me.split(' ').next().unwrap_or("")));
        st.case(rq, &me, i, rq.contains('|'));
    }
    st
}

// ---------------------------------------------------------------------------------------------------
// file level

#[derive(Clone, Debug, PartialEq)]
enum Latest {
    Direct(u64),     // marker
    Compressed(u64), // marker
    Free,
}

struct GenFile {
    bytes: Vec<u8>,
    size: u64,
    /// per object number: the newest mention (history-level oracle, computed while generating)
    latest: BTreeMap<u64, Latest>,
    /// marker → location string in the model's notation
    loc: BTreeMap<u64, String>,
    sections_newest_first: Vec<Vec<Sub>>,
    newest_rev: usize,
    desc: String,
}

/// A well-formed update history over `nobj` objects and 1–5 revisions. Per object the generator keeps
/// the current generation and state so that generations never decrease, compressed objects have
/// generation 0 and a freed number is reused with the generation of its free entry.
fn gen_file(rng: &mut Rng) -> GenFile {
    let nobj = 1 + rng.below(6); // history objects 1..=nobj
    let nrev = 1 + rng.usize(5);
    let prefix_len = if rng.chance(1, 4) { rng.usize(40) } else { 0 };
    let prefix: Vec<u8> = (0..prefix_len).map(|_| b"abc \n\r123"[rng.usize(9)]).collect();
    let mut w = PdfWriter::new(&prefix, "1.7");
    #[derive(Clone, Copy, PartialEq)]
    enum St { Unborn, Live, Freed }
    let mut state = vec![(St::Unborn, 0u64); (nobj + 1) as usize];
    let mut next_aux = nobj + 1; // ids for object streams / xref streams
    let mut marker = 1000u64;
    let mut latest = BTreeMap::new();
    let mut loc = BTreeMap::new();
    let mut desc = String::new();
    let mut max_id = nobj;
    for rev in 0..nrev {
        let mut want_stream_fmt = rng.chance(1, 2);
        let mut compressed: Vec<(u64, Vec<u8>, u64)> = vec![];
        if rev == 0 {
            w.free(0, 0, 65535);
        }
        desc.push_str(&format!("[rev{}:", rev));
        for id in 1..=nobj {
            let (st, g) = state[id as usize];
            // first revision defines most objects, later ones touch a few
            let touch = if rev == 0 { rng.chance(3, 4) } else { rng.chance(2, 5) };
            if !touch { continue; }
            marker += 1;
            let body = match rng.below(3) {
                0 => format!("{}", marker).into_bytes(),
                1 => format!("<< /Marker {} /Rev {} >>", marker, rev).into_bytes(),
                _ => format!("[ {} /x ]", marker).into_bytes(),
            };
            let action = rng.below(10);
            if st == St::Live && action < 3 {
                // free it: the free entry carries generation + 1
                w.free(id, 0, g + 1);
                state[id as usize] = (St::Freed, g + 1);
                latest.insert(id, Latest::Free);
                desc.push_str(&format!(" {}=free", id));
            } else if g == 0 && st != St::Freed && action < 6 {
                compressed.push((id, body, marker));
                state[id as usize] = (St::Live, 0);
                latest.insert(id, Latest::Compressed(marker));
                desc.push_str(&format!(" {}=compressed", id));
                want_stream_fmt = true;
            } else {
                let off = w.object(id, g, &body);
                state[id as usize] = (St::Live, g);
                latest.insert(id, Latest::Direct(marker));
                loc.insert(marker, format!("d.{}", off));
                desc.push_str(&format!(" {}=direct/g{}", id, g));
            }
        }
        if !compressed.is_empty() {
            let stm = next_aux;
            next_aux += 1;
            max_id = max_id.max(stm);
            let filter = *rng.pick(&[StmFilter::None, StmFilter::Flate, StmFilter::HexFlate]);
            let members: Vec<(u64, Vec<u8>)> = compressed.iter().map(|(id, b, _)| (*id, b.clone())).collect();
            let sep: &[u8] = if rng.chance(1, 2) { b" " } else { b"\n" };
            marker += 1;
            let off = w.object_stream(stm, &members, filter, sep, &format!("/Marker {}", marker));
            loc.insert(marker, format!("d.{}", off));
            for (i, (_, _, m)) in compressed.iter().enumerate() {
                loc.insert(*m, format!("c.{}.{}", stm, i));
            }
        }
        let fmt = if want_stream_fmt { XrefFormat::Stream } else { XrefFormat::Classic };
        let xref_id = if fmt == XrefFormat::Stream { let x = next_aux; next_aux += 1; max_id = max_id.max(x); x } else { 0 };
        let ncuts = rng.usize(3);
        let cuts: Vec<usize> = (0..ncuts).map(|_| rng.usize(8)).collect();
        let slack = rng.below(3);
        let size = max_id + 1 + slack;
        marker += 1;
        let xoff = w.finish(fmt, size, &format!("/VerifRev {} /Marker {}", rev, marker), &cuts, xref_id);
        if fmt == XrefFormat::Stream {
            loc.insert(marker, format!("d.{}", xoff));
        }
        desc.push_str(&format!(" {:?} size={}]", fmt, size));
    }
    let conv = |e: &Entry| match e {
        Entry::Free { next, gen } => XRef::Free { next_obj_nr: *next, gen_nr: *gen },
        Entry::InUse { off, gen } => XRef::Raw { pos: *off as usize, gen_nr: *gen },
        Entry::Compressed { stm, idx } => XRef::Stream { stream_id: *stm, index: *idx as usize },
    };
    let sections_newest_first: Vec<Vec<Sub>> = w
        .revisions
        .iter()
        .rev()
        .map(|r| r.subsections.iter().map(|(f, es)| (*f as u32, es.iter().map(conv).collect())).collect())
        .collect();
    let size = w.revisions.last().unwrap().size;
    GenFile { bytes: w.out.clone(), size, latest, loc, sections_newest_first, newest_rev: nrev - 1, desc }
}

fn marker_of(p: &Primitive) -> Option<u64> {
    match p {
        Primitive::Integer(i) => Some(*i as u64),
        Primitive::Dictionary(d) => d.get("Marker").and_then(|m| m.as_integer().ok()).map(|i| i as u64),
        Primitive::Array(a) => a.get(0).and_then(|m| m.as_integer().ok()).map(|i| i as u64),
        Primitive::Stream(s) => s.info.get("Marker").and_then(|m| m.as_integer().ok()).map(|i| i as u64),
        _ => None,
    }
}

fn file_level(driver: &Driver, seed: u64, from: u64, to: u64) -> (Stream, Oracle) {
    let mut st = Stream::new("c02.file", true);
    let mut or = Oracle::new("c02.latest");
    let mut reqs = vec![];
    let mut imps = vec![];
    for case in from..to {
        let mut rng = Rng::derive(seed, "c02.file", case);
        let f = gen_file(&mut rng);
        st.count(&format!("revisions={}", f.newest_rev + 1));
        let bytes = f.bytes.clone();
        let res = catch_unwind(AssertUnwindSafe(|| {
            let mut storage = Storage::with_cache(bytes, ParseOptions::strict(), NoCache, NoCache, NoLog).map_err(|e| format!("with_cache: {}", e))?;
            let trailer = storage.load_storage_and_trailer().map_err(|e| format!("load: {}", e))?;
            let rev = trailer.get("VerifRev").and_then(|p| p.as_integer().ok());
            let resolver = storage.resolver();
            let mut out = vec![];
            for id in 0..f.size + 3 {
                let r = resolver.resolve(PlainRef { id, gen: 0 });
                out.push(match r {
                    Ok(p) => match marker_of(&p) { Some(m) => format!("v{}", m), None => "v?".to_string() },
                    Err(e) => err_class(&e).to_string(),
                });
            }
            Ok::<_, String>((rev, out))
        }));
        let replay = json!({"stream": "c02.file", "seed": seed, "case": case, "history": f.desc, "file_hex": crate::driver::hex(&f.bytes)});
        let (rev, out) = match res {
            Ok(Ok(x)) => x,
            Ok(Err(e)) => {
                or.case(&f.desc, true, || json!({"history": f.desc}));
                or.fail("load-failed", &format!("well-formed generated file does not load: {}", e), replay);
                continue;
            }
            Err(_) => {
                or.case(&f.desc, true, || json!({"history": f.desc}));
                or.fail("panic", "panic while loading / resolving a well-formed generated file", replay);
                continue;
            }
        };
        // correspondence: the location each number resolves to, in the model's notation
        let imp_locs: Vec<String> = out
            .iter()
            .map(|o| if let Some(m) = o.strip_prefix('v') { m.parse::<u64>().ok().and_then(|m| f.loc.get(&m).cloned()).unwrap_or_else(|| format!("unknown-value:{}", o)) } else { o.clone() })
            .collect();
        reqs.push(format!("c02.merge {} {}", f.size, show_sections(&f.sections_newest_first)));
        imps.push(imp_locs.join(","));
        // oracle: the history-level "latest mention"
        let mut bad = vec![];
        for id in 0..f.size + 3 {
            let exp = match f.latest.get(&id) {
                Some(Latest::Direct(m)) | Some(Latest::Compressed(m)) => format!("v{}", m),
                Some(Latest::Free) => "F".to_string(),
                None => {
                    if id == 0 { "F".to_string() }   // object 0: free list head written in revision 0
                    else if id < f.size {
                        // auxiliary objects (object streams, xref streams) are not part of the history
                        if out[id as usize].starts_with('v') { out[id as usize].clone() } else { "N".to_string() }
                    } else if id == f.size { "F".to_string() } else { "U".to_string() }
                }
            };
            if out[id as usize] != exp {
                bad.push(format!("object {}: expected {} got {}", id, exp, out[id as usize]));
            }
            match f.latest.get(&id) {
                Some(Latest::Direct(_)) => or.count("latest=direct"),
                Some(Latest::Compressed(_)) => or.count("latest=compressed"),
                Some(Latest::Free) => or.count("latest=free"),
                None => or.count("latest=none"),
            }
        }
        if rev != Some(f.newest_rev as i32) {
            bad.push(format!("trailer: expected revision {} got {:?}", f.newest_rev, rev));
        }
        or.case(&f.desc, f.newest_rev > 0, || json!({"history": f.desc, "resolved": out}));
        if !bad.is_empty() {
            or.fail("stale-or-wrong-entry", &bad.join("; "), replay);
        }
    }
    let resp = driver.ask(&reqs);
    for ((rq, m), i) in reqs.iter().zip(resp.iter()).zip(imps.iter()) {
        // model: `ok <entries> <lookups>`; compare the lookups of ids 0..size+3 (the model prints len+2 = size+3)
        let f: Vec<&str> = m.split(' ').collect();
        let ml = if f.len() == 3 { f[2].to_string() } else { m.clone() };
        st.case(rq, &ml, i, rq.contains('|'));
    }
    (st, or)
}

/// One cross-reference stream with the given parameters as a complete file; the table the library
/// builds from it is compared with the model's `parseSections` + `mergeAll`.
fn xrefstm_file(size: u64, w: &[u64], index: &[(u64, u64)], data: &[u8]) -> Vec<u8> {
    let mut out = b"%PDF-1.7\n".to_vec();
    let off = out.len();
    let wtxt: Vec<String> = w.iter().map(|x| x.to_string()).collect();
    let itxt: Vec<String> = index.iter().map(|(a, b)| format!("{} {}", a, b)).collect();
    let dict = format!("/Type /XRef /Size {} /W [{}] /Index [{}]", size, wtxt.join(" "), itxt.join(" "));
    out.extend_from_slice(b"1 0 obj\n");
    out.extend_from_slice(&stream_body(&dict, data));
    out.extend_from_slice(format!("\nendobj\nstartxref\n{}\n%%EOF\n", off).as_bytes());
    out
}

fn be(n: u64, w: usize) -> Vec<u8> {
    n.to_be_bytes()[8 - w..].to_vec()
}

fn xrefstm(driver: &Driver, seed: u64, n: u64, outside: bool) -> Stream {
    use pdf::backend::Backend;
    let name = if outside { "c02.xrefstm.outside" } else { "c02.xrefstm" };
    let mut st = Stream::new(name, !outside);
    let mut reqs = vec![];
    let mut imps = vec![];
    for case in 0..n {
        let mut rng = Rng::derive(seed, name, case);
        let size = 1 + rng.below(14);
        let allow = rng.chance(1, 2);
        let (w, index, data): (Vec<u64>, Vec<(u64, u64)>, Vec<u8>);
        if !outside {
            // conforming writer: widths that fit, type field omitted only if all entries are in use
            let nsub = 1 + rng.usize(3);
            let mut subs: Vec<(u64, Vec<XRef>)> = vec![];
            for _ in 0..nsub {
                let first = rng.below(size + 2);
                let len = rng.usize(5);
                subs.push((first, (0..len).map(|_| rand_entry(&mut rng, false)).collect()));
            }
            let all_raw = subs.iter().all(|s| s.1.iter().all(|e| matches!(e, XRef::Raw { .. })));
            let fields = |e: &XRef| match *e {
                XRef::Free { next_obj_nr, gen_nr } => (0u64, next_obj_nr, gen_nr),
                XRef::Raw { pos, gen_nr } => (1, pos as u64, gen_nr),
                XRef::Stream { stream_id, index } => (2, stream_id, index as u64),
                _ => unreachable!(),
            };
            let max1 = subs.iter().flat_map(|s| s.1.iter()).map(|e| fields(e).1).max().unwrap_or(0);
            let max2 = subs.iter().flat_map(|s| s.1.iter()).map(|e| fields(e).2).max().unwrap_or(0);
            let w0 = if all_raw && rng.chance(1, 2) { 0 } else { 1 + rng.usize(2) };
            let w1 = (byte_width(max1) + rng.usize(3)).min(8);
            let w2 = (byte_width(max2) + rng.usize(3)).min(8);
            let mut d = vec![];
            for (_, es) in &subs {
                for e in es {
                    let (t, a, b) = fields(e);
                    d.extend_from_slice(&be(t, w0));
                    d.extend_from_slice(&be(a, w1));
                    d.extend_from_slice(&be(b, w2));
                }
            }
            if rng.chance(1, 4) { d.extend_from_slice(&rng.bytes(3)); } // trailing bytes are legal
            st.count(&format!("w0={}", w0));
            w = vec![w0 as u64, w1 as u64, w2 as u64];
            index = subs.iter().map(|s| (s.0, s.1.len() as u64)).collect();
            data = d;
        } else {
            let nw = *rng.pick(&[3usize, 3, 3, 3, 2, 4]);
            w = (0..nw).map(|_| *rng.pick(&[0u64, 1, 1, 2, 2, 3, 4, 8, 9])).collect();
            let nsub = rng.usize(3);
            index = (0..nsub).map(|_| (rng.below(size + 2), rng.below(6))).collect();
            let len = rng.usize(40);
            data = (0..len).map(|_| if rng.chance(1, 2) { rng.below(4) as u8 } else { rng.byte() }).collect();
        }
        let bytes = xrefstm_file(size, &w, &index, &data);
        let r = catch_unwind(AssertUnwindSafe(|| {
            let opts = if allow { ParseOptions::tolerant() } else { ParseOptions::strict() };
            let storage = match Storage::with_cache(bytes.clone(), opts, NoCache, NoCache, NoLog) { Ok(s) => s, Err(_) => return "err".to_string() };
            let resolver = storage.resolver();
            match bytes.read_xref_table_and_trailer(0, &resolver) {
                Ok((t, _)) => format!("ok {}", (0..t.len()).map(|i| show_entry(&t.get(i as u64).unwrap())).collect::<Vec<_>>().join(",")),
                Err(_) => "err".to_string(),
            }
        }));
        imps.push(r.unwrap_or_else(|_| "panic".into()));
        let wtxt: Vec<String> = w.iter().map(|x| x.to_string()).collect();
        let itxt: Vec<String> = index.iter().map(|(a, b)| format!("{}:{}", a, b)).collect();
        reqs.push(format!("c02.xrefstm {} {} {} {} {}", allow as u8, size, wtxt.join(","), if itxt.is_empty() { "-".to_string() } else { itxt.join(",") }, crate::driver::hex(&data)));
    }
    let resp = driver.ask(&reqs);
    for ((rq, m), i) in reqs.iter().zip(resp.iter()).zip(imps.iter()) {
        st.count(&format!("outcome={}", m.split(' ').next().unwrap_or("")));
        st.case(rq, m, i, !rq.ends_with(" -"));
    }
    st
}

fn parse_entry(t: &str) -> Option<XRef> {
    let f: Vec<&str> = t.split('.').collect();
    match f.as_slice() {
        ["f", a, b] => Some(XRef::Free { next_obj_nr: a.parse().ok()?, gen_nr: b.parse().ok()? }),
        ["r", a, b] => Some(XRef::Raw { pos: a.parse().ok()?, gen_nr: b.parse().ok()? }),
        ["s", a, b] => Some(XRef::Stream { stream_id: a.parse().ok()?, index: b.parse().ok()? }),
        ["P"] => Some(XRef::Promised),
        ["I"] => Some(XRef::Invalid),
        _ => None,
    }
}

/// the implementation's answer to one stored request line (used by --replay)
fn replay_request(rq: &str) -> String {
    use pdf::backend::Backend;
    let f: Vec<&str> = rq.split(' ').collect();
    match f.as_slice() {
        ["c02.merge", size, secs] => {
            let mut all = vec![];
            if *secs != "-" {
                for sec in secs.split('|') {
                    let mut subs = vec![];
                    if sec != "-" {
                        for sub in sec.split(';') {
                            let (first, es) = sub.split_once(':').unwrap_or(("0", "-"));
                            let es: Vec<XRef> = if es == "-" { vec![] } else { es.split(',').filter_map(parse_entry).collect() };
                            subs.push((first.parse().unwrap_or(0), es));
                        }
                    }
                    all.push(subs);
                }
            }
            real_merge(size.parse().unwrap_or(0), &all)
        }
        ["c02.xrefstm", allow, size, ws, index, hex] => {
            let w: Vec<u64> = ws.split(',').filter_map(|x| x.parse().ok()).collect();
            let ix: Vec<(u64, u64)> = if *index == "-" { vec![] } else { index.split(',').filter_map(|p| p.split_once(':').and_then(|(a, b)| Some((a.parse().ok()?, b.parse().ok()?)))).collect() };
            let data = crate::driver::unhex(hex).unwrap_or_default();
            let bytes = xrefstm_file(size.parse().unwrap_or(0), &w, &ix, &data);
            catch_unwind(AssertUnwindSafe(|| {
                let opts = if *allow == "1" { ParseOptions::tolerant() } else { ParseOptions::strict() };
                let storage = match Storage::with_cache(bytes.clone(), opts, NoCache, NoCache, NoLog) { Ok(s) => s, Err(_) => return "err".to_string() };
                let resolver = storage.resolver();
                match bytes.read_xref_table_and_trailer(0, &resolver) {
                    Ok((t, _)) => format!("ok {}", (0..t.len()).map(|i| show_entry(&t.get(i as u64).unwrap())).collect::<Vec<_>>().join(",")),
                    Err(_) => "err".to_string(),
                }
            })).unwrap_or_else(|_| "panic".into())
        }
        _ => "unsupported-replay".into(),
    }
}

pub fn run(driver: &Driver, seed: u64, thorough: bool, replay: Option<&serde_json::Value>) -> Report {
    let mut rep = Report::new("C02");
    if let Some(r) = replay {
        if let Some(rq) = r.get("disagreement").and_then(|d| d.get("request")).and_then(|x| x.as_str()) {
            // replay of a correspondence disagreement: the request itself is the case
            let mut st = Stream::new(r["stream"].as_str().unwrap_or("c02.replay"), true);
            let imp = replay_request(rq);
            let m = driver.ask(&[rq.to_string()]).remove(0);
            let m = if rq.starts_with("c02.merge") { model_entries(&m) } else { m };
            st.case(rq, &m, &imp, true);
            rep.streams.push(st);
            return rep;
        }
        // replay of a stored oracle case: re-run exactly that (stream, seed, case)
        let seed = r["seed"].as_u64().unwrap_or(seed);
        let case = r["case"].as_u64().unwrap_or(0);
        let (st, or) = file_level(driver, seed, case, case + 1);
        rep.streams.push(st);
        rep.oracles.push(or);
        return rep;
    }
    rep.streams.push(exhaustive(driver, if thorough { 3 } else { 2 }));
    rep.streams.push(random_merge(driver, seed, if thorough { 200_000 } else { 4000 }, false));
    rep.streams.push(random_merge(driver, seed, if thorough { 20_000 } else { 500 }, true));
    rep.streams.push(xrefstm(driver, seed, if thorough { 100_000 } else { 2000 }, false));
    rep.streams.push(xrefstm(driver, seed, if thorough { 100_000 } else { 2000 }, true));
    let (st, or) = file_level(driver, seed, 0, if thorough { 50_000 } else { 1500 });
    rep.streams.push(st);
    rep.oracles.push(or);
    rep
}
