//! C02 — the newest cross-reference entry wins.
//!
//! Correspondence streams (model = lean/PdfModel/Model/Xref.lean):
//!   c02.merge.exhaustive   every history of ≤ 2 (quick) / ≤ 3 (thorough) sections over 2 object numbers
//!                          × {absent, raw g0, raw g1, free g0, free g1, compressed}
//!   c02.merge.random       random tables / sections / subsection splittings → `XRefTable::add_entries_from`
//!   c02.merge.outside      incoming `Promised`/`Invalid` entries (never produced by a reader; drift only)
//!   c02.file               generated multi-revision files → `read_xref_table_and_trailer` + `resolve`
//!   c02.xrefstm[.outside] single cross-reference streams with arbitrary /W, /Index and row data →
//!                          `read_xref_table_and_trailer` (in-domain: conforming rows; outside: garbage)
//!   c02.table.writer       Rust twin of the conforming classic-table writer (Spec/XrefTable.lean) against the
//!                          Lean writer, byte for byte (same tape of layout choices)
//!   c02.table              sections written by that writer (20-byte entries with SP CR / SP LF / CR LF, any
//!                          subsection splitting, white-space and comments between the header numbers, trailer
//!                          dictionary printed by the C03 printer) → `read_xref_and_trailer_at` vs
//!                          `XrefTable.readXrefAndTrailerAt`: subsections and the whole trailer dictionary
//!   c02.table.at           the same text behind a random prefix → `parse_xref_table_and_trailer` with the lexer
//!                          positioned behind `xref`; also the final lexer position
//!   c02.table.tokens       exhaustive: every sequence of ≤ 5 (thorough 6) tokens over {0 1 2 f n trailer +1 x}
//!                          as a table body (drift class: most are malformed)
//!   c02.table.outside      corrupted sections (bytes flipped, tokens dropped / doubled, wrong counts, truncation)
//!   c02.walk               whole files: a chain of 1–5 classic sections in random layouts linked by /Prev behind
//!                          an optional prefix → `read_xref_table_and_trailer(start, ..)` vs `Offsets.loadTable`
//!                          instantiated with the table reader: merged table and the trailer returned
//!   c02.walk.outside       broken chains: /Prev loops, /Prev to the wrong place, missing or huge /Size, …
//!   c02.xrefstm.filtered   single cross-reference streams whose rows are PNG-predicted (predictor 10–15, a random filter
//!                          type per row, /Columns = row width or another geometry with the same row size), zlib-compressed
//!                          (flate2) and optionally wrapped in ASCIIHex / ASCII85, with the /Filter–/DecodeParms shapes writers
//!                          use → `read_xref_table_and_trailer` vs `XrefSec.loadTableC` + `XrefFilters.decOf` (c02.walkf); the
//!                          inflate results travel as the `ext` table of the request (third-party code)
//!   c02.xrefstm.filtered.outside  the same damaged: wrong /Columns, predictor 2 / 16, bad row tags, raw deflate framing,
//!                          unknown filter names, /DecodeParms of the wrong shape, truncated data
//!   (`c02.file`: one half of the generated cross-reference streams are written filtered, see `finish_stream_filtered`)
//! Oracle (implementation against the property itself):
//!   c02.latest             same files: every object number resolves to the value written by the newest
//!                          revision mentioning it / FreeObject / NullRef / Unspecified; trailer = newest
//!   c02.table.readsback    what the real table reader returns for a conforming section is what was written
//!   c02.walk.newest        the table the real /Prev walk builds holds the newest mention of every number (or
//!                          Invalid), has /Size + 1 slots for the newest /Size, and the trailer is the newest one

use crate::driver::Driver;
use crate::pdfwrite::*;
use crate::report::*;
use crate::rng::Rng;
use crate::util::*;
use pdf::file::{NoCache, NoLog, Storage};
use pdf::object::{ParseOptions, PlainRef, Resolve};
use pdf::primitive::Primitive;
use pdf::xref::{XRef, XRefSection, XRefTable};
use serde_json::json;
use std::collections::BTreeMap;
use std::panic::{catch_unwind, AssertUnwindSafe};
use crate::c03::render::{gap, nat_tok, read_tape, read_val, render_with_tail, show_canon, show_tape, show_val, Tape, Val};
use crate::c03::{prim_to_val, TestResolve};
use pdf::parser::{parse_xref_table_and_trailer, read_xref_and_trailer_at, Lexer};

fn show_entry(e: &XRef) -> String {
    match *e {
        XRef::Free { next_obj_nr, gen_nr } => format!("f.{}.{}", next_obj_nr, gen_nr),
        XRef::Raw { pos, gen_nr } => format!("r.{}.{}", pos, gen_nr),
        XRef::Stream { stream_id, index } => format!("s.{}.{}", stream_id, index),
        XRef::Promised => "P".into(),
        XRef::Invalid => "I".into(),
    }
}

type Sub = (u32, Vec<XRef>);

fn show_sections(secs: &[Vec<Sub>]) -> String {
    if secs.is_empty() {
        return "-".into();
    }
    secs.iter()
        .map(|sec| {
            if sec.is_empty() {
                "-".to_string()
            } else {
                sec.iter()
                    .map(|(first, es)| {
                        format!("{}:{}", first, if es.is_empty() { "-".to_string() } else { es.iter().map(show_entry).collect::<Vec<_>>().join(",") })
                    })
                    .collect::<Vec<_>>()
                    .join(";")
            }
        })
        .collect::<Vec<_>>()
        .join("|")
}

/// run the real merge; canonical result string (entries only)
fn real_merge(size: u64, secs: &[Vec<Sub>]) -> String {
    let r = catch_unwind(AssertUnwindSafe(|| {
        let mut t = XRefTable::new(size);
        for sec in secs {
            for (first, es) in sec {
                let s = XRefSection { first_id: *first, entries: es.clone() };
                if t.add_entries_from(s).is_err() {
                    return "err".to_string();
                }
            }
        }
        let es: Vec<String> = (0..t.len()).map(|i| show_entry(&t.get(i as u64).unwrap())).collect();
        format!("ok {}", es.join(","))
    }));
    r.unwrap_or_else(|_| "panic".into())
}

fn model_entries(resp: &str) -> String {
    // model answers `ok <entries> <lookups>`; the table-level streams compare entries only
    let f: Vec<&str> = resp.split(' ').collect();
    if f.len() == 3 && f[0] == "ok" { format!("ok {}", f[1]) } else { resp.to_string() }
}

fn opt_entry(k: usize, pos: u64) -> Option<XRef> {
    match k {
        0 => None,
        1 => Some(XRef::Raw { pos: pos as usize, gen_nr: 0 }),
        2 => Some(XRef::Raw { pos: pos as usize, gen_nr: 1 }),
        3 => Some(XRef::Free { next_obj_nr: 0, gen_nr: 0 }),
        4 => Some(XRef::Free { next_obj_nr: 0, gen_nr: 1 }),
        _ => Some(XRef::Stream { stream_id: 9, index: pos as usize }),
    }
}

fn exhaustive(driver: &Driver, max_secs: usize) -> Stream {
    let mut st = Stream::new("c02.merge.exhaustive", true);
    st.exhaustive = true;
    let mut reqs = vec![];
    let mut imps = vec![];
    for nsec in 1..=max_secs {
        let combos = 36usize.pow(nsec as u32);
        for c in 0..combos {
            let mut secs: Vec<Vec<Sub>> = vec![];
            let mut x = c;
            for s in 0..nsec {
                let a = x % 6;
                let b = (x / 6) % 6;
                x /= 36;
                let ea = opt_entry(a, (100 + s * 10) as u64);
                let eb = opt_entry(b, (200 + s * 10) as u64);
                let sec: Vec<Sub> = match (ea, eb) {
                    (None, None) => vec![],
                    (Some(a), None) => vec![(1, vec![a])],
                    (None, Some(b)) => vec![(2, vec![b])],
                    // one run or two subsections, alternating
                    (Some(a), Some(b)) => if c % 2 == 0 { vec![(1, vec![a, b])] } else { vec![(1, vec![a]), (2, vec![b])] },
                };
                secs.push(sec);
            }
            reqs.push(format!("c02.merge 3 {}", show_sections(&secs)));
            imps.push(real_merge(3, &secs));
        }
    }
    let resp = driver.ask(&reqs);
    for ((rq, m), i) in reqs.iter().zip(resp.iter()).zip(imps.iter()) {
        st.case(rq, &model_entries(m), i, rq.contains('|'));
    }
    st
}

fn rand_entry(rng: &mut Rng, outside: bool) -> XRef {
    let k = rng.below(if outside { 12 } else { 10 });
    let gens = [0u64, 0, 0, 1, 1, 2, 7, 65535];
    match k {
        0..=3 => XRef::Raw { pos: rng.below(5000) as usize, gen_nr: *rng.pick(&gens) },
        4..=6 => XRef::Free { next_obj_nr: rng.below(10), gen_nr: *rng.pick(&gens) },
        7..=9 => XRef::Stream { stream_id: rng.below(20), index: rng.below(50) as usize },
        10 => XRef::Promised,
        _ => XRef::Invalid,
    }
}

fn random_merge(driver: &Driver, seed: u64, n: u64, outside: bool) -> Stream {
    let name = if outside { "c02.merge.outside" } else { "c02.merge.random" };
    let mut st = Stream::new(name, !outside);
    let mut reqs = vec![];
    let mut imps = vec![];
    for case in 0..n {
        let mut rng = Rng::derive(seed, name, case);
        let size = rng.below(12);
        let nsec = 1 + rng.usize(5);
        let mut secs = vec![];
        for _ in 0..nsec {
            let nsub = rng.usize(4);
            let mut sec = vec![];
            for _ in 0..nsub {
                let first = rng.below(size + 3) as u32;
                let len = rng.usize(5);
                let es: Vec<XRef> = (0..len).map(|_| rand_entry(&mut rng, outside)).collect();
                sec.push((first, es));
            }
            secs.push(sec);
        }
        st.count(&format!("sections={}", nsec));
        reqs.push(format!("c02.merge {} {}", size, show_sections(&secs)));
        imps.push(real_merge(size, &secs));
    }
    let resp = driver.ask(&reqs);
    for ((rq, m), i) in reqs.iter().zip(resp.iter()).zip(imps.iter()) {
        let me = model_entries(m);
        st.count(&format!("outcome={}", me.split(' ').next().unwrap_or("")));
        st.case(rq, &me, i, rq.contains('|'));
    }
    st
}

// ---------------------------------------------------------------------------------------------------
// file level

#[derive(Clone, Debug, PartialEq)]
enum Latest {
    Direct(u64),     // marker
    Compressed(u64), // marker
    Free,
}

struct GenFile {
    bytes: Vec<u8>,
    size: u64,
    /// per object number: the newest mention (history-level oracle, computed while generating)
    latest: BTreeMap<u64, Latest>,
    /// marker → location string in the model's notation
    loc: BTreeMap<u64, String>,
    sections_newest_first: Vec<Vec<Sub>>,
    newest_rev: usize,
    desc: String,
}

/// A well-formed update history over `nobj` objects and 1–5 revisions. Per object the generator keeps
/// the current generation and state so that generations never decrease, compressed objects have
/// generation 0 and a freed number is reused with the generation of its free entry.
fn gen_file(rng: &mut Rng) -> GenFile {
    let nobj = 1 + rng.below(6); // history objects 1..=nobj
    // mostly short histories; one in twenty is long (more /Prev links than any fixed small budget)
    let nrev = if rng.chance(1, 20) { 17 + rng.usize(24) } else { 1 + rng.usize(5) };
    let prefix_len = if rng.chance(1, 4) { rng.usize(40) } else { 0 };
    let prefix: Vec<u8> = (0..prefix_len).map(|_| b"abc \n\r123"[rng.usize(9)]).collect();
    let mut w = PdfWriter::new(&prefix, "1.7");
    #[derive(Clone, Copy, PartialEq)]
    enum St { Unborn, Live, Freed }
    let mut state = vec![(St::Unborn, 0u64); (nobj + 1) as usize];
    let mut next_aux = nobj + 1; // ids for object streams / xref streams
    let mut marker = 1000u64;
    let mut latest = BTreeMap::new();
    let mut loc = BTreeMap::new();
    let mut desc = String::new();
    let mut max_id = nobj;
    for rev in 0..nrev {
        let mut want_stream_fmt = rng.chance(1, 2);
        let mut compressed: Vec<(u64, Vec<u8>, u64)> = vec![];
        if rev == 0 {
            w.free(0, 0, 65535);
        }
        desc.push_str(&format!("[rev{}:", rev));
        for id in 1..=nobj {
            let (st, g) = state[id as usize];
            // first revision defines most objects, later ones touch a few
            let touch = if rev == 0 { rng.chance(3, 4) } else { rng.chance(2, 5) };
            if !touch { continue; }
            marker += 1;
            let body = match rng.below(3) {
                0 => format!("{}", marker).into_bytes(),
                1 => format!("<< /Marker {} /Rev {} >>", marker, rev).into_bytes(),
                _ => format!("[ {} /x ]", marker).into_bytes(),
            };
            let action = rng.below(10);
            if st == St::Live && action < 3 {
                // free it: the free entry carries generation + 1
                w.free(id, 0, g + 1);
                state[id as usize] = (St::Freed, g + 1);
                latest.insert(id, Latest::Free);
                desc.push_str(&format!(" {}=free", id));
            } else if g == 0 && st != St::Freed && action < 6 {
                compressed.push((id, body, marker));
                state[id as usize] = (St::Live, 0);
                latest.insert(id, Latest::Compressed(marker));
                desc.push_str(&format!(" {}=compressed", id));
                want_stream_fmt = true;
            } else {
                let off = w.object(id, g, &body);
                state[id as usize] = (St::Live, g);
                latest.insert(id, Latest::Direct(marker));
                loc.insert(marker, format!("d.{}", off));
                desc.push_str(&format!(" {}=direct/g{}", id, g));
            }
        }
        if !compressed.is_empty() {
            let stm = next_aux;
            next_aux += 1;
            max_id = max_id.max(stm);
            let filter = *rng.pick(&[StmFilter::None, StmFilter::Flate, StmFilter::HexFlate]);
            let members: Vec<(u64, Vec<u8>)> = compressed.iter().map(|(id, b, _)| (*id, b.clone())).collect();
            let sep: &[u8] = if rng.chance(1, 2) { b" " } else { b"\n" };
            marker += 1;
            let off = w.object_stream(stm, &members, filter, sep, &format!("/Marker {}", marker));
            loc.insert(marker, format!("d.{}", off));
            for (i, (_, _, m)) in compressed.iter().enumerate() {
                loc.insert(*m, format!("c.{}.{}", stm, i));
            }
        }
        let fmt = if want_stream_fmt { XrefFormat::Stream } else { XrefFormat::Classic };
        let xref_id = if fmt == XrefFormat::Stream { let x = next_aux; next_aux += 1; max_id = max_id.max(x); x } else { 0 };
        let ncuts = rng.usize(3);
        let cuts: Vec<usize> = (0..ncuts).map(|_| rng.usize(8)).collect();
        let slack = rng.below(3);
        let size = max_id + 1 + slack;
        marker += 1;
        let extra = format!("/VerifRev {} /Marker {}", rev, marker);
        let filtered = fmt == XrefFormat::Stream && rng.chance(1, 2);
        let xoff = if filtered { finish_stream_filtered(&mut w, rng, size, &extra, &cuts, xref_id) } else { w.finish(fmt, size, &extra, &cuts, xref_id) };
        if filtered { desc.push_str(" filtered"); }
        if fmt == XrefFormat::Stream {
            loc.insert(marker, format!("d.{}", xoff));
        }
        desc.push_str(&format!(" {:?} size={}]", fmt, size));
    }
    let conv = |e: &Entry| match e {
        Entry::Free { next, gen } => XRef::Free { next_obj_nr: *next, gen_nr: *gen },
        Entry::InUse { off, gen } => XRef::Raw { pos: *off as usize, gen_nr: *gen },
        Entry::Compressed { stm, idx } => XRef::Stream { stream_id: *stm, index: *idx as usize },
    };
    let sections_newest_first: Vec<Vec<Sub>> = w
        .revisions
        .iter()
        .rev()
        .map(|r| r.subsections.iter().map(|(f, es)| (*f as u32, es.iter().map(conv).collect())).collect())
        .collect();
    let size = w.revisions.last().unwrap().size;
    GenFile { bytes: w.out.clone(), size, latest, loc, sections_newest_first, newest_rev: nrev - 1, desc }
}

fn marker_of(p: &Primitive) -> Option<u64> {
    match p {
        Primitive::Integer(i) => Some(*i as u64),
        Primitive::Dictionary(d) => d.get("Marker").and_then(|m| m.as_integer().ok()).map(|i| i as u64),
        Primitive::Array(a) => a.get(0).and_then(|m| m.as_integer().ok()).map(|i| i as u64),
        Primitive::Stream(s) => s.info.get("Marker").and_then(|m| m.as_integer().ok()).map(|i| i as u64),
        _ => None,
    }
}

fn file_level(driver: &Driver, seed: u64, from: u64, to: u64) -> (Stream, Oracle) {
    let mut st = Stream::new("c02.file", true);
    let mut or = Oracle::new("c02.latest");
    let mut reqs = vec![];
    let mut imps = vec![];
    for case in from..to {
        let mut rng = Rng::derive(seed, "c02.file", case);
        let f = gen_file(&mut rng);
        st.count(&format!("revisions={}", f.newest_rev + 1));
        let bytes = f.bytes.clone();
        let res = catch_unwind(AssertUnwindSafe(|| {
            let mut storage = Storage::with_cache(bytes, ParseOptions::strict(), NoCache, NoCache, NoLog).map_err(|e| format!("with_cache: {}", e))?;
            let trailer = storage.load_storage_and_trailer().map_err(|e| format!("load: {}", e))?;
            let rev = trailer.get("VerifRev").and_then(|p| p.as_integer().ok());
            let resolver = storage.resolver();
            let mut out = vec![];
            for id in 0..f.size + 3 {
                let r = resolver.resolve(PlainRef { id, gen: 0 });
                out.push(match r {
                    Ok(p) => match marker_of(&p) { Some(m) => format!("v{}", m), None => "v?".to_string() },
                    Err(e) => err_class(&e).to_string(),
                });
            }
            Ok::<_, String>((rev, out))
        }));
        let replay = json!({"stream": "c02.file", "seed": seed, "case": case, "history": f.desc, "file_hex": crate::driver::hex(&f.bytes)});
        let (rev, out) = match res {
            Ok(Ok(x)) => x,
            Ok(Err(e)) => {
                or.case(&f.desc, true, || json!({"history": f.desc}));
                or.fail("load-failed", &format!("well-formed generated file does not load: {}", e), replay);
                continue;
            }
            Err(_) => {
                or.case(&f.desc, true, || json!({"history": f.desc}));
                or.fail("panic", "panic while loading / resolving a well-formed generated file", replay);
                continue;
            }
        };
        // correspondence: the location each number resolves to, in the model's notation
        let imp_locs: Vec<String> = out
            .iter()
            .map(|o| if let Some(m) = o.strip_prefix('v') { m.parse::<u64>().ok().and_then(|m| f.loc.get(&m).cloned()).unwrap_or_else(|| format!("unknown-value:{}", o)) } else { o.clone() })
            .collect();
        reqs.push(format!("c02.merge {} {}", f.size, show_sections(&f.sections_newest_first)));
        imps.push(imp_locs.join(","));
        // oracle: the history-level "latest mention"
        let mut bad = vec![];
        for id in 0..f.size + 3 {
            let exp = match f.latest.get(&id) {
                Some(Latest::Direct(m)) | Some(Latest::Compressed(m)) => format!("v{}", m),
                Some(Latest::Free) => "F".to_string(),
                None => {
                    if id == 0 { "F".to_string() }   // object 0: free list head written in revision 0
                    else if id < f.size {
                        // auxiliary objects (object streams, xref streams) are not part of the history
                        if out[id as usize].starts_with('v') { out[id as usize].clone() } else { "N".to_string() }
                    } else if id == f.size { "F".to_string() } else { "U".to_string() }
                }
            };
            if out[id as usize] != exp {
                bad.push(format!("object {}: expected {} got {}", id, exp, out[id as usize]));
            }
            match f.latest.get(&id) {
                Some(Latest::Direct(_)) => or.count("latest=direct"),
                Some(Latest::Compressed(_)) => or.count("latest=compressed"),
                Some(Latest::Free) => or.count("latest=free"),
                None => or.count("latest=none"),
            }
        }
        if rev != Some(f.newest_rev as i32) {
            bad.push(format!("trailer: expected revision {} got {:?}", f.newest_rev, rev));
        }
        or.case(&f.desc, f.newest_rev > 0, || json!({"history": f.desc, "resolved": out}));
        if !bad.is_empty() {
            or.fail("stale-or-wrong-entry", &bad.join("; "), replay);
        }
    }
    let resp = driver.ask(&reqs);
    for ((rq, m), i) in reqs.iter().zip(resp.iter()).zip(imps.iter()) {
        // model: `ok <entries> <lookups>`; compare the lookups of ids 0..size+3 (the model prints len+2 = size+3)
        let f: Vec<&str> = m.split(' ').collect();
        let ml = if f.len() == 3 { f[2].to_string() } else { m.clone() };
        st.case(rq, &ml, i, rq.contains('|'));
    }
    (st, or)
}

/// One cross-reference stream with the given parameters as a complete file; the table the library
/// builds from it is compared with the model's `parseSections` + `mergeAll`.
fn xrefstm_file(size: u64, w: &[u64], index: &[(u64, u64)], data: &[u8]) -> Vec<u8> {
    let mut out = b"%PDF-1.7\n".to_vec();
    let off = out.len();
    let wtxt: Vec<String> = w.iter().map(|x| x.to_string()).collect();
    let itxt: Vec<String> = index.iter().map(|(a, b)| format!("{} {}", a, b)).collect();
    let dict = format!("/Type /XRef /Size {} /W [{}] /Index [{}]", size, wtxt.join(" "), itxt.join(" "));
    out.extend_from_slice(b"1 0 obj\n");
    out.extend_from_slice(&stream_body(&dict, data));
    out.extend_from_slice(format!("\nendobj\nstartxref\n{}\n%%EOF\n", off).as_bytes());
    out
}

fn be(n: u64, w: usize) -> Vec<u8> {
    n.to_be_bytes()[8 - w..].to_vec()
}

fn xrefstm(driver: &Driver, seed: u64, n: u64, outside: bool) -> Stream {
    use pdf::backend::Backend;
    let name = if outside { "c02.xrefstm.outside" } else { "c02.xrefstm" };
    let mut st = Stream::new(name, !outside);
    let mut reqs = vec![];
    let mut imps = vec![];
    for case in 0..n {
        let mut rng = Rng::derive(seed, name, case);
        let size = 1 + rng.below(14);
        let allow = rng.chance(1, 2);
        let (w, index, data): (Vec<u64>, Vec<(u64, u64)>, Vec<u8>);
        if !outside {
            // conforming writer: widths that fit, type field omitted only if all entries are in use
            let nsub = 1 + rng.usize(3);
            let mut subs: Vec<(u64, Vec<XRef>)> = vec![];
            for _ in 0..nsub {
                let first = rng.below(size + 2);
                let len = rng.usize(5);
                subs.push((first, (0..len).map(|_| rand_entry(&mut rng, false)).collect()));
            }
            let all_raw = subs.iter().all(|s| s.1.iter().all(|e| matches!(e, XRef::Raw { .. })));
            let fields = |e: &XRef| match *e {
                XRef::Free { next_obj_nr, gen_nr } => (0u64, next_obj_nr, gen_nr),
                XRef::Raw { pos, gen_nr } => (1, pos as u64, gen_nr),
                XRef::Stream { stream_id, index } => (2, stream_id, index as u64),
                _ => unreachable!(),
            };
            let max1 = subs.iter().flat_map(|s| s.1.iter()).map(|e| fields(e).1).max().unwrap_or(0);
            let max2 = subs.iter().flat_map(|s| s.1.iter()).map(|e| fields(e).2).max().unwrap_or(0);
            let w0 = if all_raw && rng.chance(1, 2) { 0 } else { 1 + rng.usize(2) };
            let w1 = (byte_width(max1) + rng.usize(3)).min(8);
            let w2 = (byte_width(max2) + rng.usize(3)).min(8);
            let mut d = vec![];
            for (_, es) in &subs {
                for e in es {
                    let (t, a, b) = fields(e);
                    d.extend_from_slice(&be(t, w0));
                    d.extend_from_slice(&be(a, w1));
                    d.extend_from_slice(&be(b, w2));
                }
            }
            if rng.chance(1, 4) { d.extend_from_slice(&rng.bytes(3)); } // trailing bytes are legal
            st.count(&format!("w0={}", w0));
            w = vec![w0 as u64, w1 as u64, w2 as u64];
            index = subs.iter().map(|s| (s.0, s.1.len() as u64)).collect();
            data = d;
        } else if case < 6 {
            // deterministic: rows of zero width (refused since the repair of D34, with or without entries,
            // strict and tolerant), widths whose sum does not fit
            let presets: [(&[u64], &[(u64, u64)], &[u8]); 6] = [
                (&[0, 0, 0], &[(0, 2)], &[]),
                (&[0, 0, 0], &[(0, 0)], &[]),
                (&[0, 0, 0], &[(1, 3)], &[1, 2, 3]),
                (&[0, 0, 0], &[], &[]),
                (&[1, 0, 0], &[(0, 2)], &[1, 1]),
                (&[0, 1, 0], &[(0, 9)], &[7, 8]),
            ];
            let (pw, pi, pd) = presets[case as usize];
            w = pw.to_vec();
            index = pi.to_vec();
            data = pd.to_vec();
        } else {
            let nw = *rng.pick(&[3usize, 3, 3, 3, 2, 4]);
            w = (0..nw).map(|_| *rng.pick(&[0u64, 0, 1, 1, 2, 2, 3, 4, 8, 9])).collect();
            let nsub = rng.usize(3);
            index = (0..nsub).map(|_| (rng.below(size + 2), rng.below(6))).collect();
            let len = rng.usize(40);
            data = (0..len).map(|_| if rng.chance(1, 2) { rng.below(4) as u8 } else { rng.byte() }).collect();
        }
        let bytes = xrefstm_file(size, &w, &index, &data);
        let r = catch_unwind(AssertUnwindSafe(|| {
            let opts = if allow { ParseOptions::tolerant() } else { ParseOptions::strict() };
            let storage = match Storage::with_cache(bytes.clone(), opts, NoCache, NoCache, NoLog) { Ok(s) => s, Err(_) => return "err".to_string() };
            let resolver = storage.resolver();
            match bytes.read_xref_table_and_trailer(0, &resolver) {
                Ok((t, _)) => format!("ok {}", (0..t.len()).map(|i| show_entry(&t.get(i as u64).unwrap())).collect::<Vec<_>>().join(",")),
                Err(_) => "err".to_string(),
            }
        }));
        imps.push(r.unwrap_or_else(|_| "panic".into()));
        let wtxt: Vec<String> = w.iter().map(|x| x.to_string()).collect();
        let itxt: Vec<String> = index.iter().map(|(a, b)| format!("{}:{}", a, b)).collect();
        reqs.push(format!("c02.xrefstm {} {} {} {} {}", allow as u8, size, wtxt.join(","), if itxt.is_empty() { "-".to_string() } else { itxt.join(",") }, crate::driver::hex(&data)));
    }
    let resp = driver.ask(&reqs);
    for ((rq, m), i) in reqs.iter().zip(resp.iter()).zip(imps.iter()) {
        st.count(&format!("outcome={}", m.split(' ').next().unwrap_or("")));
        st.case(rq, m, i, !rq.ends_with(" -"));
    }
    st
}


// ---------------------------------------------------------------------------------------------------
// classic tables at byte level (model = lean/PdfModel/Model/XrefTable.lean, writer = Spec/XrefTable.lean)

/// `{:0w$}`
fn pad(w: usize, n: u64) -> Vec<u8> {
    format!("{:0w$}", n, w = w).into_bytes()
}

fn eol_bytes(k: u64) -> &'static [u8] {
    match k {
        0 => b" \r",
        1 => b" \n",
        _ => b"\r\n",
    }
}

/// twin of `XrefTableSpec.entryBytes`
fn entry_bytes(e: &XRef, k: u64) -> Vec<u8> {
    let (a, g, kw) = match *e {
        XRef::Raw { pos, gen_nr } => (pos as u64, gen_nr, b'n'),
        XRef::Free { next_obj_nr, gen_nr } => (next_obj_nr, gen_nr, b'f'),
        _ => return vec![],
    };
    let mut out = pad(10, a);
    out.push(b' ');
    out.extend(pad(5, g));
    out.push(b' ');
    out.push(kw);
    out.extend_from_slice(eol_bytes(k));
    out
}

/// twin of `XrefTableSpec.writeSub`
fn write_sub(s: &Sub, t: &mut Tape) -> Vec<u8> {
    let mut out = nat_tok(s.0 as u64, t);
    out.extend(gap(true, t));
    out.extend(nat_tok(s.1.len() as u64, t));
    out.extend(gap(true, t));
    for e in &s.1 {
        let k = t.draw(3);
        out.extend(entry_bytes(e, k));
    }
    out.extend(gap(false, t));
    out
}

struct Section {
    bytes: Vec<u8>,
    /// position just behind the keyword `xref`
    after_xref: usize,
}

/// twin of `XrefTableSpec.writeSection`: trailer and tail first, then the gap behind `trailer`, the
/// table, the gap behind `xref`, the leading gap (the order in which the Lean writer draws)
fn write_section(subs: &[Sub], trailer: &Val, tail: &[u8], t: &mut Tape) -> Section {
    let (trl, _) = render_with_tail(trailer, tail, t);
    let g2 = gap(false, t);
    let mut tbl = vec![];
    for s in subs {
        tbl.extend(write_sub(s, t));
    }
    let g1 = gap(true, t);
    let g0 = gap(false, t);
    let mut out = g0;
    out.extend_from_slice(b"xref");
    let after_xref = out.len();
    out.extend(g1);
    out.extend(tbl);
    out.extend_from_slice(b"trailer");
    out.extend(g2);
    out.extend(trl);
    Section { bytes: out, after_xref }
}

fn key(s: &str) -> Vec<u8> {
    s.as_bytes().to_vec()
}

/// a random classic section: subsections (any splitting, also empty and overlapping ones) of in-use and
/// free entries. `wide = false`: what a conforming writer can emit (offsets of at most ten digits,
/// generations up to 65535, object numbers within the limits of Annex C); `wide = true`: also numbers
/// that overflow the fixed fields or the implementation limits (outside the property's domain).
fn gen_subs(rng: &mut Rng, wide: bool) -> Vec<Sub> {
    let nsub = rng.usize(5);
    let mut subs = vec![];
    for _ in 0..nsub {
        let first = match rng.below(8) {
            0 if wide => rng.below(1 << 32) as u32,
            1 if wide => u32::MAX,
            0 => rng.below(8_388_607) as u32,
            _ => rng.below(30) as u32,
        };
        let len = match rng.below(6) { 0 => 0, 1 => 1, _ => rng.usize(7) };
        let es: Vec<XRef> = (0..len).map(|_| gen_classic_entry(rng, wide)).collect();
        subs.push((first, es));
    }
    subs
}

fn gen_classic_entry(rng: &mut Rng, wide: bool) -> XRef {
    let a = match rng.below(10) {
        0 => 0,
        1 => 9_999_999_999,
        2 if wide => rng.next(),                     // beyond ten digits: the field grows, still three tokens
        3 if wide => u64::MAX,
        2 => rng.below(10_000_000_000),
        _ => rng.below(100_000),
    };
    let g = match rng.below(10) {
        0 => 65535,
        1 if wide => 99999,
        2 if wide => rng.next(),
        1 => rng.below(65536),
        3 | 4 => rng.below(4),
        _ => 0,
    };
    if rng.chance(1, 3) { XRef::Free { next_obj_nr: a, gen_nr: g } } else { XRef::Raw { pos: a as usize, gen_nr: g } }
}

fn gen_trailer(rng: &mut Rng, size: u64, prev: Option<u64>, marker: u64) -> Val {
    let mut kvs: Vec<(Vec<u8>, Val)> = vec![(key("Size"), Val::Int(size as i64))];
    if let Some(p) = prev {
        kvs.push((key("Prev"), Val::Int(p as i64)));
    }
    kvs.push((key("Root"), Val::Ref(1 + rng.below(5), 0)));
    kvs.push((key("Marker"), Val::Int(marker as i64)));
    if rng.chance(1, 2) {
        kvs.push((key("Info"), Val::Ref(rng.below(9), rng.below(2))));
    }
    if rng.chance(1, 2) {
        kvs.push((key("ID"), Val::Arr(vec![Val::Str(rng.bytes(4)), Val::Str(rng.bytes(4))])));
    }
    if rng.chance(1, 3) {
        kvs.push((key("X"), Val::Dict(vec![(key("A"), Val::Name(key("b"))), (key("B"), Val::Arr(vec![Val::Int(-3), Val::Null, Val::Bool(true)]))])));
    }
    rng.shuffle(&mut kvs);
    Val::Dict(kvs)
}

const TAILS: [&[u8]; 7] = [b"\nstartxref\n0\n%%EOF\n", b"", b" ", b"\r\nstartxref\r\n12\r\n%%EOF", b"%%EOF", b"\n1 0 obj\n<<>>\nendobj\n", b"startxref 5"];

/// an answer `ok <a> <value> [<b>]` with the value (field `idx`) in the canonical notation (reals as f32 bits:
/// the model hands back the token text, the implementation the number)
fn canon_answer(ans: &str, idx: usize) -> String {
    let mut f: Vec<String> = ans.split(' ').map(|x| x.to_string()).collect();
    if f.first().map(|x| x.as_str()) != Some("ok") || f.len() <= idx {
        return ans.to_string();
    }
    f[idx] = match read_val(&f[idx]) {
        Some(v) => show_canon(&v),
        None => format!("unreadable:{}", f[idx]),
    };
    f.join(" ")
}

fn show_subs(subs: &[Sub]) -> String {
    show_sections(&[subs.to_vec()])
}

fn show_real_sections(secs: &[XRefSection]) -> String {
    let subs: Vec<Sub> = secs.iter().map(|s| (s.first_id, s.entries.clone())).collect();
    show_subs(&subs)
}

/// `read_xref_and_trailer_at` with the lexer at position 0 of `bytes`; `stream` when the first lexeme is
/// not `xref` (the cross-reference stream branch, not part of the table model)
fn real_table(bytes: &[u8]) -> String {
    catch_unwind(AssertUnwindSafe(|| {
        let res = TestResolve::new(&vec![], false);
        let mut probe = Lexer::with_offset(bytes, 0);
        if let Ok(w) = probe.next() {
            if !w.equals(b"xref") {
                return "stream".to_string();
            }
        }
        let mut lexer = Lexer::with_offset(bytes, 0);
        match read_xref_and_trailer_at(&mut lexer, &res) {
            Ok((secs, trailer)) => format!("ok {} {}", show_real_sections(&secs), show_val(&prim_to_val(&Primitive::Dictionary(trailer), &res))),
            Err(_) => "err".to_string(),
        }
    }))
    .unwrap_or_else(|_| "panic".into())
}

/// `parse_xref_table_and_trailer` with the lexer at `pos`
fn real_table_at(bytes: &[u8], pos: usize) -> String {
    catch_unwind(AssertUnwindSafe(|| {
        let res = TestResolve::new(&vec![], false);
        let mut lexer = Lexer::new(bytes);
        lexer.set_pos(pos);
        match parse_xref_table_and_trailer(&mut lexer, &res) {
            Ok((secs, trailer)) => format!("ok {} {} {}", show_real_sections(&secs), show_val(&prim_to_val(&Primitive::Dictionary(trailer), &res)), lexer.get_pos()),
            Err(_) => "err".to_string(),
        }
    }))
    .unwrap_or_else(|_| "panic".into())
}

struct TableCase {
    subs: Vec<Sub>,
    trailer: Val,
    tail: Vec<u8>,
    tape: Vec<u64>,
    sec: Section,
}

fn gen_table_case(rng: &mut Rng, wide: bool) -> TableCase {
    let subs = gen_subs(rng, wide);
    let size = rng.below(40);
    let prev = if rng.chance(1, 2) { Some(rng.below(100_000)) } else { None };
    let marker = 1000 + rng.below(1000);
    let trailer = gen_trailer(rng, size, prev, marker);
    let tail = rng.pick(&TAILS).to_vec();
    let mut tape = Tape::lazy(rng.clone());
    let sec = write_section(&subs, &trailer, &tail, &mut tape);
    let tape = tape.consumed().to_vec();
    rng.next();
    TableCase { subs, trailer, tail, tape, sec }
}

/// `wide = false`: conforming sections (in-domain streams `c02.table.writer`, `c02.table`, `c02.table.at` and the
/// oracle); `wide = true`: the same with numbers beyond the format's fields (`c02.table.wide.*`, drift only)
fn table_streams(driver: &Driver, seed: u64, n: u64, only: Option<u64>, wide: bool) -> (Vec<Stream>, Oracle) {
    let base = if wide { "c02.table.wide" } else { "c02.table" };
    let mut st_w = Stream::new(&format!("{}.writer", base), !wide);
    let mut st_r = Stream::new(base, !wide);
    let mut st_a = Stream::new(&format!("{}.at", base), !wide);
    let mut or = Oracle::new(if wide { "c02.table.wide.readsback" } else { "c02.table.readsback" });
    let (mut rq_w, mut im_w, mut rq_r, mut im_r, mut rq_a, mut im_a) = (vec![], vec![], vec![], vec![], vec![], vec![]);
    let cases: Vec<u64> = match only { Some(c) => vec![c], None => (0..n).collect() };
    for case in cases {
        let mut rng = Rng::derive(seed, base, case);
        let c = gen_table_case(&mut rng, wide);
        let nent: usize = c.subs.iter().map(|s| s.1.len()).sum();
        st_r.count(&format!("subsections={}", c.subs.len()));
        st_r.count(&format!("entries={}", if nent > 9 { "10+".to_string() } else { nent.to_string() }));
        if c.sec.bytes.contains(&b'%') { st_r.count("layout=with-comment"); }
        for (i, w) in [" \r", " \n", "\r\n"].iter().enumerate() {
            if c.sec.bytes.windows(3).any(|x| (x[0] == b'n' || x[0] == b'f') && &x[1..] == w.as_bytes()) { st_r.count(&format!("eol={}", ["SP-CR", "SP-LF", "CR-LF"][i])); }
        }
        // writer twin
        rq_w.push(format!("c02.tablewrite {} {} {} {}", show_subs(&c.subs), show_val(&c.trailer), show_tape(&c.tape), crate::driver::hex(&c.tail)));
        im_w.push(crate::driver::hex(&c.sec.bytes));
        // reader at offset 0
        let imp = real_table(&c.sec.bytes);
        rq_r.push(format!("c02.table {}", crate::driver::hex(&c.sec.bytes)));
        // reader behind a prefix, positioned after `xref`
        let plen = rng.usize(30);
        let mut buf: Vec<u8> = (0..plen).map(|_| b"ab \n%x1"[rng.usize(7)]).collect();
        buf.extend_from_slice(&c.sec.bytes);
        let pos = plen + c.sec.after_xref;
        rq_a.push(format!("c02.tableat {} {}", crate::driver::hex(&buf), pos));
        im_a.push(real_table_at(&buf, pos));
        // oracle: the reader returns what the writer was given
        let expect = format!("ok {} {}", show_subs(&c.subs), show_val(&c.trailer));
        or.case(&rq_r[rq_r.len() - 1], nent > 0, || json!({"section": show_subs(&c.subs), "text": String::from_utf8_lossy(&c.sec.bytes)}));
        if imp != expect && !wide {
            or.fail("classic-table-misread", &format!("read_xref_and_trailer_at returned {} for a conforming section that holds {}", trunc(&imp), trunc(&expect)),
                json!({"stream": "c02.table", "seed": seed, "case": case, "section_hex": crate::driver::hex(&c.sec.bytes), "expected": expect, "got": imp}));
        }
        im_r.push(imp);
    }
    for ((rq, m), i) in rq_w.iter().zip(driver.ask(&rq_w).iter()).zip(im_w.iter()) { st_w.case(rq, m, i, true); }
    for ((rq, m), i) in rq_r.iter().zip(driver.ask(&rq_r).iter()).zip(im_r.iter()) {
        st_r.count(&format!("outcome={}", m.split(' ').next().unwrap_or("")));
        st_r.case(rq, &canon_answer(m, 2), &canon_answer(i, 2), true);
    }
    for ((rq, m), i) in rq_a.iter().zip(driver.ask(&rq_a).iter()).zip(im_a.iter()) { st_a.case(rq, &canon_answer(m, 2), &canon_answer(i, 2), true); }
    (vec![st_w, st_r, st_a], or)
}

/// every sequence of at most `max` tokens over a small alphabet, as the body of a table
fn table_tokens(driver: &Driver, max: usize) -> Stream {
    let mut st = Stream::new("c02.table.tokens", false);
    st.exhaustive = true;
    let alphabet: [&str; 8] = ["0", "1", "2", "f", "n", "trailer", "+1", "x"];
    let mut reqs = vec![];
    let mut imps = vec![];
    for k in 0..=max {
        let combos = alphabet.len().pow(k as u32);
        for c in 0..combos {
            let mut x = c;
            let mut body = String::from("xref ");
            for _ in 0..k {
                body.push_str(alphabet[x % alphabet.len()]);
                body.push(' ');
                x /= alphabet.len();
            }
            body.push_str("trailer<</Size 1>>");
            imps.push(real_table(body.as_bytes()));
            reqs.push(format!("c02.table {}", crate::driver::hex(body.as_bytes())));
        }
    }
    for ((rq, m), i) in reqs.iter().zip(driver.ask(&reqs).iter()).zip(imps.iter()) {
        st.count(&format!("outcome={}", m.split(' ').next().unwrap_or("")));
        st.case(rq, &canon_answer(m, 2), &canon_answer(i, 2), m.starts_with("ok") && !m.starts_with("ok - "));
    }
    st
}

fn corrupt(rng: &mut Rng, bytes: &[u8]) -> (Vec<u8>, &'static str) {
    let mut b = bytes.to_vec();
    if b.is_empty() { return (b, "empty"); }
    match rng.below(9) {
        0 => { let i = rng.usize(b.len()); b[i] = rng.byte(); (b, "byte-random") }
        1 => { let i = rng.usize(b.len()); b[i] = *rng.pick(b"fn t0+-%<> \r\n"); (b, "byte-token") }
        2 => { let i = rng.usize(b.len()); b.truncate(i); (b, "truncate") }
        3 => { let i = rng.usize(b.len()); b.remove(i); (b, "delete") }
        4 => { let i = rng.usize(b.len()); b.insert(i, *rng.pick(b"0 9fn\n+")); (b, "insert") }
        5 => {
            // an entry kind letter replaced
            let idx: Vec<usize> = (0..b.len()).filter(|&i| b[i] == b'n' || b[i] == b'f').collect();
            if let Some(&i) = idx.get(rng.usize(idx.len().max(1))) { b[i] = *rng.pick(b"fnxF"); }
            (b, "kind-letter")
        }
        6 => {
            // the keyword `trailer` damaged or doubled
            if let Some(i) = b.windows(7).position(|w| w == b"trailer") {
                if rng.chance(1, 2) { b[i + rng.usize(7)] = b'x'; } else { let mut ins = b"trailer ".to_vec(); ins.extend_from_slice(&b[i..]); b.truncate(i); b.extend(ins); }
            }
            (b, "trailer-keyword")
        }
        7 => {
            // a digit changed (counts, offsets, generations)
            let idx: Vec<usize> = (0..b.len()).filter(|&i| b[i].is_ascii_digit()).collect();
            if let Some(&i) = idx.get(rng.usize(idx.len().max(1))) { b[i] = b'0' + rng.below(10) as u8; }
            (b, "digit")
        }
        _ => {
            // a whole line dropped
            let lines: Vec<usize> = (0..b.len()).filter(|&i| b[i] == b'\n' || b[i] == b'\r').collect();
            if lines.len() >= 2 { let a = rng.usize(lines.len() - 1); let (x, y) = (lines[a], lines[a + 1]); b.drain(x..y); }
            (b, "line-dropped")
        }
    }
}

fn table_outside(driver: &Driver, seed: u64, n: u64) -> Stream {
    let mut st = Stream::new("c02.table.outside", false);
    let mut reqs = vec![];
    let mut imps = vec![];
    for case in 0..n {
        let mut rng = Rng::derive(seed, "c02.table.outside", case);
        let wide = rng.chance(1, 4);
        let c = gen_table_case(&mut rng, wide);
        let (mut b, what) = corrupt(&mut rng, &c.sec.bytes);
        if rng.chance(1, 4) { b = corrupt(&mut rng, &b).0; }
        st.count(&format!("corruption={}", what));
        imps.push(real_table(&b));
        reqs.push(format!("c02.table {}", crate::driver::hex(&b)));
    }
    for ((rq, m), i) in reqs.iter().zip(driver.ask(&reqs).iter()).zip(imps.iter()) {
        st.count(&format!("outcome={}", m.split(' ').next().unwrap_or("")));
        st.case(rq, &canon_answer(m, 2), &canon_answer(i, 2), true);
    }
    st
}

// ---------------------------------------------------------------------------------------------------
// the /Prev walk over classic sections

struct WalkFile {
    bytes: Vec<u8>,
    start: usize,
    /// expected merged table (independent of the model): per slot the newest mention or Invalid
    expect_entries: Vec<XRef>,
    newest_marker: u64,
    nsec: usize,
    desc: String,
}

/// A well-formed file made of classic sections only: revision k defines / frees / re-uses some numbers
/// with the generation discipline of the specification (a freed number carries generation + 1 and is
/// re-used with that generation), each section in a random conforming layout with any subsection
/// splitting, linked by /Prev; offsets are relative to the header, which sits behind an optional prefix.
fn gen_walk_file(rng: &mut Rng, breakage: Option<u64>) -> WalkFile {
    let nobj = 1 + rng.below(8);
    let nrev = 1 + rng.usize(5);
    let plen = if rng.chance(1, 3) { 1 + rng.usize(40) } else { 0 };
    let mut out: Vec<u8> = (0..plen).map(|_| b"ab \n\r12"[rng.usize(7)]).collect();
    let start = out.len();
    out.extend_from_slice(b"%PDF-1.4\n");
    #[derive(Clone, Copy, PartialEq)]
    enum St { Unborn, Live, Freed }
    let mut state = vec![(St::Unborn, 0u64); (nobj + 1) as usize];
    let mut latest: BTreeMap<u64, XRef> = BTreeMap::new();
    let mut offsets: Vec<u64> = vec![];
    let mut size = 0u64;
    let mut marker = 0;
    let mut desc = String::new();
    for rev in 0..nrev {
        // filler: object bodies the table could point at
        for _ in 0..rng.usize(3) {
            out.extend_from_slice(format!("{} 0 obj\n{}\nendobj\n", 1 + rng.below(nobj), rng.below(1000)).as_bytes());
        }
        let mut mentions: Vec<(u64, XRef)> = vec![];
        if rev == 0 {
            mentions.push((0, XRef::Free { next_obj_nr: 0, gen_nr: 65535 }));
        }
        for id in 1..=nobj {
            let (stt, g) = state[id as usize];
            let touch = if rev == 0 { rng.chance(3, 4) } else { rng.chance(2, 5) };
            if !touch { continue; }
            let e = if stt == St::Live && rng.chance(1, 3) {
                state[id as usize] = (St::Freed, g + 1);
                XRef::Free { next_obj_nr: rng.below(nobj + 1), gen_nr: g + 1 }
            } else {
                state[id as usize] = (St::Live, g);
                XRef::Raw { pos: rng.below(out.len() as u64 + 1) as usize, gen_nr: g }
            };
            mentions.push((id, e));
        }
        for (id, e) in &mentions { latest.insert(*id, *e); }
        // any splitting into subsections: runs of consecutive numbers, cut at random, in random order
        let mut subs: Vec<Sub> = vec![];
        for (id, e) in &mentions {
            match subs.last_mut() {
                Some((first, es)) if *first as u64 + es.len() as u64 == *id && !rng.chance(1, 4) => es.push(*e),
                _ => subs.push((*id as u32, vec![*e])),
            }
        }
        if rng.chance(1, 4) { subs.push((rng.below(nobj + 3) as u32, vec![])); }
        rng.shuffle(&mut subs);
        size = size.max(nobj + 1) + rng.below(2);
        marker = 5000 + rev as u64;
        let mut prev = offsets.last().copied();
        let mut tsize = Some(size);
        if let Some(b) = breakage {
            if rev == nrev - 1 || b % 2 == 0 {
                match b / 2 % 7 {
                    0 => prev = Some((out.len() - start) as u64),                  // /Prev to itself
                    1 => prev = offsets.first().copied().or(Some(3)),               // skips sections / dangling
                    2 => prev = Some(rng.below(out.len() as u64 + 50)),             // anywhere
                    3 => tsize = None,                                              // no /Size
                    4 => tsize = Some(1_000_001 + rng.below(5)),                    // beyond MAX_ID
                    5 => tsize = Some(rng.below(3)),                                // table smaller than the numbers
                    _ => prev = Some(u64::MAX / 2),
                }
            }
        }
        let mut trailer = gen_trailer(rng, tsize.unwrap_or(0), prev, marker);
        if tsize.is_none() {
            if let Val::Dict(kvs) = &mut trailer { kvs.retain(|(k, _)| k != b"Size"); }
        }
        let off = (out.len() - start) as u64;
        let mut tape = Tape::lazy(rng.clone());
        rng.next();
        let tail = format!("\nstartxref\n{}\n%%EOF\n", off);
        let sec = write_section(&subs, &trailer, tail.as_bytes(), &mut tape);
        out.extend_from_slice(&sec.bytes);
        offsets.push(off);
        desc.push_str(&format!("[rev{} @{} {} size={}]", rev, off, show_subs(&subs), size));
    }
    if breakage == Some(97) {
        // two sections that point at each other
        desc.push_str("(loop)");
    }
    let mut expect_entries = vec![XRef::Invalid; size as usize];
    expect_entries.push(XRef::Free { next_obj_nr: 0, gen_nr: 0xffff });
    for (id, e) in &latest {
        if (*id as usize) < expect_entries.len() {
            // the extra slot at /Size is a free entry with generation 65535: only a larger one replaces it
            if (*id as usize) < size as usize { expect_entries[*id as usize] = *e; }
        }
    }
    WalkFile { bytes: out, start, expect_entries, newest_marker: marker, nsec: nrev, desc }
}

fn real_walk_inner(bytes: &[u8], start: usize) -> (String, Option<u64>) {
    use pdf::backend::Backend;
    let r = catch_unwind(AssertUnwindSafe(|| {
        let res = TestResolve::new(&vec![], false);
        let data = bytes.to_vec();
        match data.read_xref_table_and_trailer(start, &res) {
            Ok((t, trailer)) => {
                let marker = trailer.get("Marker").and_then(|m| m.as_integer().ok()).map(|m| m as u64);
                (format!("ok {} {}", (0..t.len()).map(|i| show_entry(&t.get(i as u64).unwrap())).collect::<Vec<_>>().join(","), show_val(&prim_to_val(&Primitive::Dictionary(trailer), &res))), marker)
            }
            Err(_) => ("err".to_string(), None),
        }
    }));
    r.unwrap_or_else(|_| ("panic".into(), None))
}

static WALK_HUNG: std::sync::atomic::AtomicBool = std::sync::atomic::AtomicBool::new(false);

/// `read_xref_table_and_trailer` under a watchdog: a walk that does not end (a `/Prev` loop that is not
/// detected) answers `hang`; after the first one the remaining cases of the run are not started any more
/// (`hang-skipped`), the stuck thread dies with the process
fn real_walk(bytes: &[u8], start: usize) -> (String, Option<u64>) {
    use std::sync::atomic::Ordering;
    if WALK_HUNG.load(Ordering::SeqCst) {
        return ("hang-skipped".into(), None);
    }
    let (tx, rx) = std::sync::mpsc::channel();
    let data = bytes.to_vec();
    std::thread::spawn(move || {
        let _ = tx.send(real_walk_inner(&data, start));
    });
    match rx.recv_timeout(std::time::Duration::from_secs(10)) {
        Ok(r) => r,
        Err(_) => {
            WALK_HUNG.store(true, Ordering::SeqCst);
            ("hang".into(), None)
        }
    }
}

fn walk_streams(driver: &Driver, seed: u64, n: u64, only: Option<u64>) -> (Stream, Oracle) {
    let mut st = Stream::new("c02.walk", true);
    let mut or = Oracle::new("c02.walk.newest");
    let mut reqs = vec![];
    let mut imps = vec![];
    let cases: Vec<u64> = match only { Some(c) => vec![c], None => (0..n).collect() };
    for case in cases {
        let mut rng = Rng::derive(seed, "c02.walk", case);
        let f = gen_walk_file(&mut rng, None);
        st.count(&format!("sections={}", f.nsec));
        st.count(if f.start > 0 { "prefix=yes" } else { "prefix=no" });
        let (imp, marker) = real_walk(&f.bytes, f.start);
        reqs.push(format!("c02.walk {} {}", crate::driver::hex(&f.bytes), f.start));
        let expect = f.expect_entries.iter().map(show_entry).collect::<Vec<_>>().join(",");
        or.case(&f.desc, f.nsec > 1, || json!({"history": f.desc}));
        let got_entries = imp.split(' ').nth(1).unwrap_or("").to_string();
        let replay = json!({"stream": "c02.walk", "seed": seed, "case": case, "history": f.desc, "start": f.start, "file_hex": crate::driver::hex(&f.bytes)});
        if !imp.starts_with("ok ") {
            or.fail("walk-failed", &format!("read_xref_table_and_trailer answers {} on a well-formed chain of classic sections: {}", imp, f.desc), replay);
        } else if got_entries != expect {
            or.fail("stale-or-wrong-entry", &format!("merged table {} but the newest mentions are {} ({})", trunc(&got_entries), trunc(&expect), f.desc), replay);
        } else if marker != Some(f.newest_marker) {
            or.fail("trailer-not-newest", &format!("trailer marker {:?}, the newest section has {} ({})", marker, f.newest_marker, f.desc), replay);
        }
        imps.push(imp);
    }
    for ((rq, m), i) in reqs.iter().zip(driver.ask(&reqs).iter()).zip(imps.iter()) {
        st.count(&format!("outcome={}", m.split(' ').next().unwrap_or("")));
        st.case(rq, &canon_answer(m, 2), &canon_answer(i, 2), true);
    }
    (st, or)
}

fn walk_outside(driver: &Driver, seed: u64, n: u64) -> Stream {
    let mut st = Stream::new("c02.walk.outside", false);
    let mut reqs = vec![];
    let mut imps = vec![];
    for case in 0..n {
        let mut rng = Rng::derive(seed, "c02.walk.outside", case);
        let b = rng.below(28);
        let mut f = gen_walk_file(&mut rng, Some(b));
        let mut start = f.start;
        match rng.below(6) {
            0 => start = start.wrapping_add(1 + rng.usize(3)),                // header offset wrong
            1 => { let (c, _) = corrupt(&mut rng, &f.bytes); f.bytes = c; }
            _ => {}
        }
        st.count(&format!("breakage={}", b / 2 % 7));
        imps.push(real_walk(&f.bytes, start).0);
        reqs.push(format!("c02.walk {} {}", crate::driver::hex(&f.bytes), start));
    }
    for ((rq, m), i) in reqs.iter().zip(driver.ask(&reqs).iter()).zip(imps.iter()) {
        st.count(&format!("outcome={}", m.split(' ').next().unwrap_or("")));
        st.case(rq, &canon_answer(m, 2), &canon_answer(i, 2), true);
    }
    st
}


// ---------------------------------------------------------------------------------------------------
// filtered cross-reference streams (twin of Spec/XrefFiltered.lean: rows → PNG prediction → zlib → ASCII)

use crate::c05::codecs;

#[derive(Clone, Debug)]
struct FilteredRows {
    /// `/Filter … /DecodeParms …` as dictionary text
    dict: String,
    /// the stream data as it stands in the file
    data: Vec<u8>,
    /// third-party results for the model: `z.<compressed>.<inflated>` / `z.<..>.!;r.<..>.<..>`
    ext: Vec<String>,
    desc: String,
}

/// how the damaged variants differ from a conforming encoding
#[derive(Clone, Copy, PartialEq, Debug)]
enum Damage { None, ColumnsOff, Predictor2, Predictor16, BadTag, RawDeflate, UnknownFilter, ParmsShape, Truncated, NoParms, ParmsNotPaired }

/// encode complete rows of `stride` bytes the way writers of cross-reference streams do
fn encode_rows_filtered(rng: &mut Rng, rows: &[u8], stride: usize, damage: Damage) -> FilteredRows {
    // geometry with `stride` bytes per row
    let mut g = match rng.below(6) {
        0 => codecs::Geometry { colors: stride, bpc: 8, columns: 1 },
        1 if stride % 2 == 0 => codecs::Geometry { colors: 1, bpc: 16, columns: stride / 2 },
        2 if stride % 3 == 0 => codecs::Geometry { colors: 3, bpc: 8, columns: stride / 3 },
        _ => codecs::Geometry { colors: 1, bpc: 8, columns: stride },
    };
    let use_predictor = damage != Damage::None || !rng.chance(1, 6);
    let mut predictor: i64 = if use_predictor { 10 + rng.below(6) as i64 } else { 1 };
    let mut pre = if use_predictor {
        let types: Vec<u8> = (0..rows.len() / stride.max(1) + 1).map(|_| rng.below(5) as u8).collect();
        codecs::png_predict(rows, g, |r| types[r])
    } else {
        rows.to_vec()
    };
    match damage {
        Damage::BadTag if !pre.is_empty() => { let i = rng.usize(pre.len() / (stride + 1)) * (stride + 1); pre[i] = 5 + rng.below(250) as u8; }
        Damage::ColumnsOff => { if rng.chance(1, 2) { g.columns += 1 } else if g.columns > 1 { g.columns -= 1 } else { g.columns = 0 } }
        Damage::Predictor2 => predictor = 2,
        Damage::Predictor16 => predictor = *rng.pick(&[16i64, 255, -1, 3, 9]),
        _ => {}
    }
    let mut ext = vec![];
    let mut compressed = if damage == Damage::RawDeflate {
        let y = codecs::deflate_raw(&pre, 6);
        ext.push(format!("z.{}.!", crate::driver::hex(&y)));
        ext.push(format!("r.{}.{}", crate::driver::hex(&y), crate::driver::hex(&pre)));
        y
    } else {
        let y = codecs::zlib_level(&pre, *rng.pick(&[0u32, 1, 6, 9]));
        ext.push(format!("z.{}.{}", crate::driver::hex(&y), crate::driver::hex(&pre)));
        y
    };
    if damage == Damage::Truncated && compressed.len() > 2 {
        let n = 1 + rng.usize(compressed.len() - 1);
        compressed.truncate(n);
        let z = codecs::inflate_zlib_ref(&compressed);
        let r = codecs::inflate_raw_ref(&compressed);
        ext.push(format!("z.{}.{}", crate::driver::hex(&compressed), z.map(|b| crate::driver::hex(&b)).unwrap_or("!".into())));
        ext.push(format!("r.{}.{}", crate::driver::hex(&compressed), r.map(|b| crate::driver::hex(&b)).unwrap_or("!".into())));
    }
    // parameter dictionary: defaults may be left out, entries in any order
    let mut pe: Vec<String> = vec![];
    if predictor != 1 || rng.chance(1, 3) { pe.push(format!("/Predictor {}", predictor)); }
    if g.columns != 1 || rng.chance(1, 3) { pe.push(format!("/Columns {}", g.columns)); }
    if g.colors != 1 || rng.chance(1, 3) { pe.push(format!("/Colors {}", g.colors)); }
    if g.bpc != 8 || rng.chance(1, 3) { pe.push(format!("/BitsPerComponent {}", g.bpc)); }
    rng.shuffle(&mut pe);
    let parms = format!("<< {} >>", pe.join(" "));
    let no_parms = pe.is_empty() || damage == Damage::NoParms;
    let flate_name = if damage == Damage::UnknownFilter { *rng.pick(&["/Flate", "/flatedecode", "/Fl", "/DeflateDecode"]) } else { "/FlateDecode" };
    let ascii = rng.below(4);
    let (data, dict) = match ascii {
        0 => {
            let mut core = codecs::hex_encode(&compressed, codecs::HexCase::Mixed, false, rng);
            if !core.ends_with(b">") { core.push(b'>'); }
            let parms_txt = if no_parms { String::new() } else if damage == Damage::ParmsNotPaired { format!(" /DecodeParms {}", parms) } else if damage == Damage::ParmsShape { format!(" /DecodeParms [{} 7]", parms) } else { format!(" /DecodeParms [null {}]", parms) };
            (core, format!("/Filter [/ASCIIHexDecode {}]{}", flate_name, parms_txt))
        }
        1 => {
            let core = codecs::a85_encode(&compressed, rng.chance(1, 2));
            let parms_txt = if no_parms { String::new() } else if damage == Damage::ParmsNotPaired { format!(" /DecodeParms [{}]", parms) } else if damage == Damage::ParmsShape { " /DecodeParms /x".to_string() } else { format!(" /DecodeParms [null {}]", parms) };
            (core, format!("/Filter [/ASCII85Decode {}]{}", flate_name, parms_txt))
        }
        _ => {
            let arr = rng.chance(1, 2);
            let f = if arr { format!("/Filter [{}]", flate_name) } else { format!("/Filter {}", flate_name) };
            let parms_txt = if no_parms { String::new() } else if damage == Damage::ParmsShape { format!(" /DecodeParms ({})", "x") } else if arr && rng.chance(1, 2) { format!(" /DecodeParms [{}]", parms) } else { format!(" /DecodeParms {}", parms) };
            (compressed.clone(), format!("{}{}", f, parms_txt))
        }
    };
    let desc = format!("predictor={} geometry={}x{}x{} ascii={} damage={:?}", predictor, g.colors, g.bpc, g.columns, ["hex", "a85", "none", "none"][ascii as usize], damage);
    FilteredRows { dict, data, ext, desc }
}

fn xrefstm_filtered_file(size: u64, w: &[usize; 3], index: &[(u64, u64)], f: &FilteredRows) -> Vec<u8> {
    let mut out = b"%PDF-1.7\n".to_vec();
    let off = out.len();
    let itxt: Vec<String> = index.iter().map(|(a, b)| format!("{} {}", a, b)).collect();
    let dict = format!("/Type /XRef /Size {} /W [{} {} {}] /Index [{}] {}", size, w[0], w[1], w[2], itxt.join(" "), f.dict);
    out.extend_from_slice(b"1 0 obj\n");
    out.extend_from_slice(&stream_body(&dict, &f.data));
    out.extend_from_slice(format!("\nendobj\nstartxref\n{}\n%%EOF\n", off).as_bytes());
    out
}

/// `read_xref_table_and_trailer` through a `Storage` resolver (the stream data is read and decoded by the
/// library): entries and the trailer dictionary
fn real_walk_storage(bytes: &[u8], start: usize, tolerant: bool) -> String {
    use pdf::backend::Backend;
    catch_unwind(AssertUnwindSafe(|| {
        let opts = if tolerant { ParseOptions::tolerant() } else { ParseOptions::strict() };
        let data = bytes.to_vec();
        let storage = match Storage::with_cache(data.clone(), opts, NoCache, NoCache, NoLog) { Ok(s) => s, Err(_) => return "err".to_string() };
        let resolver = storage.resolver();
        let res = TestResolve::new(&vec![], tolerant);
        match data.read_xref_table_and_trailer(start, &resolver) {
            Ok((t, trailer)) => format!("ok {} {}", (0..t.len()).map(|i| show_entry(&t.get(i as u64).unwrap())).collect::<Vec<_>>().join(","), show_val(&prim_to_val(&Primitive::Dictionary(trailer), &res))),
            Err(_) => "err".to_string(),
        }
    }))
    .unwrap_or_else(|_| "panic".into())
}

fn xrefstm_filtered(driver: &Driver, seed: u64, n: u64, outside: bool) -> (Stream, Oracle) {
    let name = if outside { "c02.xrefstm.filtered.outside" } else { "c02.xrefstm.filtered" };
    let mut st = Stream::new(name, !outside);
    let mut or = Oracle::new("c02.xrefstm.filtered.readsback");
    let mut reqs = vec![];
    let mut imps = vec![];
    for case in 0..n {
        let mut rng = Rng::derive(seed, name, case);
        let size = 1 + rng.below(14);
        let allow = rng.chance(1, 3);
        let nsub = 1 + rng.usize(3);
        let mut subs: Vec<(u64, Vec<XRef>)> = vec![];
        for _ in 0..nsub {
            let first = rng.below(size + 2);
            let len = rng.usize(6);
            subs.push((first, (0..len).map(|_| rand_entry(&mut rng, false)).collect()));
        }
        let fields = |e: &XRef| match *e {
            XRef::Free { next_obj_nr, gen_nr } => (0u64, next_obj_nr, gen_nr),
            XRef::Raw { pos, gen_nr } => (1, pos as u64, gen_nr),
            XRef::Stream { stream_id, index } => (2, stream_id, index as u64),
            _ => unreachable!(),
        };
        let all_raw = subs.iter().all(|s| s.1.iter().all(|e| matches!(e, XRef::Raw { .. })));
        let max1 = subs.iter().flat_map(|s| s.1.iter()).map(|e| fields(e).1).max().unwrap_or(0);
        let max2 = subs.iter().flat_map(|s| s.1.iter()).map(|e| fields(e).2).max().unwrap_or(0);
        let w0 = if all_raw && rng.chance(1, 3) { 0 } else { 1 + rng.usize(2) };
        let w1 = (byte_width(max1) + rng.usize(3)).min(8);
        let w2 = (byte_width(max2) + rng.usize(3)).min(8);
        let stride = w0 + w1 + w2;
        let mut rows = vec![];
        for (_, es) in &subs {
            for e in es {
                let (t, a, b) = fields(e);
                rows.extend_from_slice(&be(t, w0));
                rows.extend_from_slice(&be(a, w1));
                rows.extend_from_slice(&be(b, w2));
            }
        }
        let damage = if outside {
            *rng.pick(&[Damage::ColumnsOff, Damage::Predictor2, Damage::Predictor16, Damage::BadTag, Damage::RawDeflate, Damage::UnknownFilter, Damage::ParmsShape, Damage::Truncated, Damage::NoParms, Damage::ParmsNotPaired])
        } else { Damage::None };
        let f = encode_rows_filtered(&mut rng, &rows, stride, damage);
        for k in f.desc.split(' ') { if !k.starts_with("geometry") { st.count(k); } }
        st.count(&format!("rows={}", if rows.len() / stride > 9 { "10+".to_string() } else { (rows.len() / stride).to_string() }));
        let index: Vec<(u64, u64)> = subs.iter().map(|s| (s.0, s.1.len() as u64)).collect();
        let bytes = xrefstm_filtered_file(size, &[w0, w1, w2], &index, &f);
        let imp = real_walk_storage(&bytes, 0, allow);
        reqs.push(format!("c02.walkf {} {} 0 {}", allow as u8, crate::driver::hex(&bytes), if f.ext.is_empty() { "-".to_string() } else { f.ext.join(";") }));
        if !outside {
            // oracle: the table is the merge of the sections written (independent of the filter model)
            let secs: Vec<Sub> = subs.iter().map(|(a, es)| (*a as u32, es.clone())).collect();
            let expect = real_merge(size, &[secs]);
            let got = imp.split(' ').take(2).collect::<Vec<_>>().join(" ");
            or.case(&reqs[reqs.len() - 1], !rows.is_empty(), || json!({"desc": f.desc}));
            if got != expect {
                or.fail("filtered-xref-stream-misread", &format!("a conforming filtered cross-reference stream ({}) gives {} instead of {}", f.desc, trunc(&got), trunc(&expect)),
                    json!({"stream": name, "seed": seed, "case": case, "file_hex": crate::driver::hex(&bytes), "desc": f.desc}));
            }
        }
        imps.push(imp);
    }
    for ((rq, m), i) in reqs.iter().zip(driver.ask(&reqs).iter()).zip(imps.iter()) {
        st.count(&format!("outcome={}", m.split(' ').next().unwrap_or("")));
        st.case(rq, &canon_answer(m, 2), &canon_answer(i, 2), true);
    }
    (st, or)
}

/// `PdfWriter::finish(XrefFormat::Stream, …)` with the rows PNG-predicted, compressed and optionally ASCII-wrapped
/// (the bookkeeping of `finish` — the stream lists itself, subsections cut at `cuts` — is repeated here because
/// pdfwrite.rs is a shared file)
fn finish_stream_filtered(w: &mut PdfWriter, rng: &mut Rng, size: u64, trailer_extra: &str, cuts: &[usize], xref_id: u64) -> u64 {
    let prev = w.revisions.last().map(|r| r.xref_off);
    let prev_txt = prev.map(|p| format!(" /Prev {}", p)).unwrap_or_default();
    let xref_off = w.rel();
    w.cur.push((xref_id, Entry::InUse { off: xref_off, gen: 0 }));
    let mut es: Vec<(u64, Entry)> = w.cur.clone();
    es.sort_by_key(|e| e.0);
    es.dedup_by_key(|e| e.0);
    let mut subs: Vec<(u64, Vec<Entry>)> = vec![];
    for (k, (id, e)) in es.into_iter().enumerate() {
        let start_new = match subs.last() { Some((first, v)) => first + v.len() as u64 != id || cuts.contains(&k), None => true };
        if start_new { subs.push((id, vec![e])); } else { subs.last_mut().unwrap().1.push(e); }
    }
    let f = |e: &Entry| match e { Entry::Free { next, gen } => (0u8, *next, *gen), Entry::InUse { off, gen } => (1, *off, *gen), Entry::Compressed { stm, idx } => (2, *stm, *idx) };
    let w1 = byte_width(subs.iter().flat_map(|s| s.1.iter()).map(|e| f(e).1).max().unwrap_or(0));
    let w2 = byte_width(subs.iter().flat_map(|s| s.1.iter()).map(|e| f(e).2).max().unwrap_or(0));
    let mut rows = Vec::new();
    let mut index = String::new();
    for (first, es) in &subs {
        index.push_str(&format!("{} {} ", first, es.len()));
        for e in es {
            let (t, a, b) = f(e);
            rows.push(t);
            rows.extend_from_slice(&a.to_be_bytes()[8 - w1..]);
            rows.extend_from_slice(&b.to_be_bytes()[8 - w2..]);
        }
    }
    let enc = encode_rows_filtered(rng, &rows, 1 + w1 + w2, Damage::None);
    let dict = format!("/Type /XRef /Size {}{} /W [1 {} {}] /Index [{}] {} {}", size, prev_txt, w1, w2, index.trim_end(), enc.dict, trailer_extra);
    let body = stream_body(&dict, &enc.data);
    w.out.extend_from_slice(format!("{} 0 obj\n", xref_id).as_bytes());
    w.out.extend_from_slice(&body);
    w.out.extend_from_slice(b"\nendobj\n");
    w.out.extend_from_slice(format!("startxref\n{}\n%%EOF\n", xref_off).as_bytes());
    let entries = std::mem::take(&mut w.cur);
    w.revisions.push(Revision { entries, xref_off, format: XrefFormat::Stream, subsections: subs, size });
    xref_off
}

fn parse_entry(t: &str) -> Option<XRef> {
    let f: Vec<&str> = t.split('.').collect();
    match f.as_slice() {
        ["f", a, b] => Some(XRef::Free { next_obj_nr: a.parse().ok()?, gen_nr: b.parse().ok()? }),
        ["r", a, b] => Some(XRef::Raw { pos: a.parse().ok()?, gen_nr: b.parse().ok()? }),
        ["s", a, b] => Some(XRef::Stream { stream_id: a.parse().ok()?, index: b.parse().ok()? }),
        ["P"] => Some(XRef::Promised),
        ["I"] => Some(XRef::Invalid),
        _ => None,
    }
}

/// the implementation's answer to one stored request line (used by --replay)
fn replay_request(rq: &str) -> String {
    use pdf::backend::Backend;
    let f: Vec<&str> = rq.split(' ').collect();
    match f.as_slice() {
        ["c02.merge", size, secs] => {
            let mut all = vec![];
            if *secs != "-" {
                for sec in secs.split('|') {
                    let mut subs = vec![];
                    if sec != "-" {
                        for sub in sec.split(';') {
                            let (first, es) = sub.split_once(':').unwrap_or(("0", "-"));
                            let es: Vec<XRef> = if es == "-" { vec![] } else { es.split(',').filter_map(parse_entry).collect() };
                            subs.push((first.parse().unwrap_or(0), es));
                        }
                    }
                    all.push(subs);
                }
            }
            real_merge(size.parse().unwrap_or(0), &all)
        }
        ["c02.xrefstm", allow, size, ws, index, hex] => {
            let w: Vec<u64> = ws.split(',').filter_map(|x| x.parse().ok()).collect();
            let ix: Vec<(u64, u64)> = if *index == "-" { vec![] } else { index.split(',').filter_map(|p| p.split_once(':').and_then(|(a, b)| Some((a.parse().ok()?, b.parse().ok()?)))).collect() };
            let data = crate::driver::unhex(hex).unwrap_or_default();
            let bytes = xrefstm_file(size.parse().unwrap_or(0), &w, &ix, &data);
            catch_unwind(AssertUnwindSafe(|| {
                let opts = if *allow == "1" { ParseOptions::tolerant() } else { ParseOptions::strict() };
                let storage = match Storage::with_cache(bytes.clone(), opts, NoCache, NoCache, NoLog) { Ok(s) => s, Err(_) => return "err".to_string() };
                let resolver = storage.resolver();
                match bytes.read_xref_table_and_trailer(0, &resolver) {
                    Ok((t, _)) => format!("ok {}", (0..t.len()).map(|i| show_entry(&t.get(i as u64).unwrap())).collect::<Vec<_>>().join(",")),
                    Err(_) => "err".to_string(),
                }
            })).unwrap_or_else(|_| "panic".into())
        }
        ["c02.table", hx] => real_table(&crate::driver::unhex(hx).unwrap_or_default()),
        ["c02.tableat", hx, pos] => real_table_at(&crate::driver::unhex(hx).unwrap_or_default(), pos.parse().unwrap_or(0)),
        ["c02.walkf", allow, hx, start, _ext] => real_walk_storage(&crate::driver::unhex(hx).unwrap_or_default(), start.parse().unwrap_or(0), *allow == "1"),
        ["c02.walk", hx, start] => real_walk(&crate::driver::unhex(hx).unwrap_or_default(), start.parse().unwrap_or(0)).0,
        ["c02.tablewrite", sec, trailer, tape, tail] => {
            let subs: Vec<Sub> = if *sec == "-" { vec![] } else {
                sec.split(';').map(|sub| {
                    let (first, es) = sub.split_once(':').unwrap_or(("0", "-"));
                    (first.parse().unwrap_or(0), if es == "-" { vec![] } else { es.split(',').filter_map(parse_entry).collect() })
                }).collect()
            };
            match (read_val(trailer), read_tape(tape), crate::driver::unhex(tail)) {
                (Some(tr), Some(tp), Some(tl)) => crate::driver::hex(&write_section(&subs, &tr, &tl, &mut Tape::fixed(tp)).bytes),
                _ => "unsupported-replay".into(),
            }
        }
        _ => "unsupported-replay".into(),
    }
}

pub fn run(driver: &Driver, seed: u64, thorough: bool, replay: Option<&serde_json::Value>) -> Report {
    let mut rep = Report::new("C02");
    if let Some(r) = replay {
        if let Some(rq) = r.get("disagreement").and_then(|d| d.get("request")).and_then(|x| x.as_str()) {
            // replay of a correspondence disagreement: the request itself is the case
            let mut st = Stream::new(r["stream"].as_str().unwrap_or("c02.replay"), true);
            let imp = replay_request(rq);
            let m = driver.ask(&[rq.to_string()]).remove(0);
            let m = if rq.starts_with("c02.merge") { model_entries(&m) } else { m };
            let (m, imp) = if rq.starts_with("c02.table ") || rq.starts_with("c02.tableat ") || rq.starts_with("c02.walk ") || rq.starts_with("c02.walkf ") { (canon_answer(&m, 2), canon_answer(&imp, 2)) } else { (m, imp) };
            st.case(rq, &m, &imp, true);
            rep.streams.push(st);
            return rep;
        }
        // replay of a stored oracle case: re-run exactly that (stream, seed, case)
        let seed = r["seed"].as_u64().unwrap_or(seed);
        let case = r["case"].as_u64().unwrap_or(0);
        match r["stream"].as_str() {
            Some("c02.table") => {
                let (sts, or) = table_streams(driver, seed, 0, Some(case), false);
                rep.streams.extend(sts);
                rep.oracles.push(or);
            }
            Some("c02.walk") => {
                let (st, or) = walk_streams(driver, seed, 0, Some(case));
                rep.streams.push(st);
                rep.oracles.push(or);
            }
            _ => {
                let (st, or) = file_level(driver, seed, case, case + 1);
                rep.streams.push(st);
                rep.oracles.push(or);
            }
        }
        return rep;
    }
    rep.streams.push(exhaustive(driver, if thorough { 3 } else { 2 }));
    rep.streams.push(random_merge(driver, seed, if thorough { 200_000 } else { 4000 }, false));
    rep.streams.push(random_merge(driver, seed, if thorough { 20_000 } else { 500 }, true));
    rep.streams.push(xrefstm(driver, seed, if thorough { 100_000 } else { 2000 }, false));
    rep.streams.push(xrefstm(driver, seed, if thorough { 100_000 } else { 2000 }, true));
    let (st, or) = file_level(driver, seed, 0, if thorough { 50_000 } else { 1500 });
    rep.streams.push(st);
    rep.oracles.push(or);
    let (sts, or) = table_streams(driver, seed, if thorough { 100_000 } else { 2500 }, None, false);
    rep.streams.extend(sts);
    rep.oracles.push(or);
    let (sts, _) = table_streams(driver, seed, if thorough { 30_000 } else { 800 }, None, true);
    rep.streams.extend(sts);
    rep.streams.push(table_tokens(driver, if thorough { 6 } else { 5 }));
    rep.streams.push(table_outside(driver, seed, if thorough { 100_000 } else { 3000 }));
    let (st, or) = walk_streams(driver, seed, if thorough { 50_000 } else { 1500 }, None);
    rep.streams.push(st);
    rep.oracles.push(or);
    rep.streams.push(walk_outside(driver, seed, if thorough { 50_000 } else { 1500 }));
    let (st, or) = xrefstm_filtered(driver, seed, if thorough { 40_000 } else { 1500 }, false);
    rep.streams.push(st);
    rep.oracles.push(or);
    rep.streams.push(xrefstm_filtered(driver, seed, if thorough { 40_000 } else { 1500 }, true).0);
    rep
}
