//! C01 correspondence streams: every modelled lexer / string-lexer / parser entry point against the real
//! function on ARBITRARY input. All inputs are in C01's domain (the property quantifies over all byte strings),
//! so every stream is `in_domain = true`. Compared: outcome class (ok / err / panic) + value + final cursor.
//!
//!   c01.lex.exhaustive   every buffer of length ≤ 2 (thorough: + length 3 over a 24-letter alphabet) × every cursor ×
//!                        next, peek, back, next_stream, seek_newline, ctx, StringLexer::next_lexeme,
//!                        HexStringLexer::next_hex_byte, the two string loops, parse (ANY), read_n, set_pos,
//!                        offset_pos, set_pos_from_end, seek_substr, seek_substr_back, next_expect
//!   c01.lex.random       random bytes (half of them over a structural alphabet), random cursor, one of the above
//!   c01.lex.soup         token soup (the C03 generator), random cursor, one of the above
//!   c01.str              junk for the string lexers: escapes, line continuations (runs of up to 3000), parentheses,
//!                        hex digits and non-digits; single steps and loops
//!   c01.parse.random     parse / parse_indirect_object (strict, tolerant) / parse_stream on random bytes and soup,
//!                        random flag sets, random cursors, random /Length resolver tables
//!   c01.parse.mutated    renderings of random values (the C03 printer) with 1–3 byte-level mutations
//!   c01.parse.corpus     slices of the fixture files (raw and normalised) at object starts and at random offsets
//!   c01.parse.deep       arrays / dictionaries nested 18 … 23 and 60 deep, complete and cut off
//!   c01.inline           `BI … ID` followed by arbitrary bytes: where the image data ends (through `parse_ops`);
//!                        dictionaries whose typed entries convert and ones whose do not (a parameter of the model)
//!   c01.xref             classic cross-reference tables, well-formed and mutated (huge counts, missing entries),
//!                        and soup, through `read_xref_and_trailer_at`
//!
//!   c01.date / c01.cs / c01.font   hand-written typed readers on hostile primitives and object tables: c01_typed.rs
//!
//!   c01.registry         the generated schemas satisfy the decidable hypothesis of `typed_registry_total` (driver-evaluated)
//!
//! Model side: `c03.*` requests are answered by Drv/C03.lean (same models), `c01.*` by Drv/C01.lean.
//! Oracle `c01.entry`: every call of a real function made for these streams; a panic is a failure of the
//! property itself (signature `panic@<entry point>`), a call that does not come back within 10 s a `hang@…`.
//! The real functions run in a worker thread; the first hang ends the run of the streams (the thread cannot be
//! stopped) and is reported with its request.

use crate::c03::render::*;
use crate::c03::{self, gen_soup, gen_stream, gen_val, mutate, parse_request, prim_to_val, render_random, GenCfg, LenMap, TestResolve, TAILS};
use crate::corpus;
use crate::driver::{hex, unhex, Driver};
use crate::report::*;
use crate::rng::Rng;
use pdf::content::Op;
use pdf::parser::{HexStringLexer, Lexer, StringLexer};
use pdf::primitive::Primitive;
use serde_json::json;
use std::panic::{catch_unwind, AssertUnwindSafe};
use std::sync::mpsc;
use std::sync::Arc;
use std::time::Duration;

/// runs `f` in a thread of its own (64 MiB stack); `None` when it has not answered after `secs` seconds (the
/// thread is abandoned: it ends with the process) or died
pub fn with_timeout<T: Send + 'static>(secs: u64, f: impl FnOnce() -> T + Send + 'static) -> Option<T> {
    let (tx, rx) = mpsc::channel();
    std::thread::Builder::new().stack_size(64 << 20).spawn(move || { let _ = tx.send(f()); }).ok()?;
    rx.recv_timeout(Duration::from_secs(secs)).ok()
}

/// Which end-of-data search `content::inline_image` of the tree under test uses: `"lf"` = `seek_substr("\nEI")`
/// (model `inlineImage`), `"ei"` = white-space followed by the token `EI` (repo commit 4386f8d of the C08
/// follow-up, model `inlineImageEI`). One of the two mirrors the code; set it when that commit is merged.
const INLINE_SEARCH: &str = "ei";

/// (the environment variable C01_INLINE_SEARCH overrides the constant: for trying a tree before it is merged)
fn inline_search() -> String {
    std::env::var("C01_INLINE_SEARCH").unwrap_or_else(|_| INLINE_SEARCH.to_string())
}

/// `TestResolve` (indirect `/Length` from a table) whose stream data are the bytes of the buffer under the lexer
/// (offset 0), decoded with the library's own filters
struct BufResolve {
    inner: TestResolve,
    buf: Vec<u8>,
}

impl pdf::object::Resolve for BufResolve {
    fn resolve_flags(&self, r: pdf::object::PlainRef, flags: pdf::parser::ParseFlags, depth: usize) -> pdf::error::Result<Primitive> {
        self.inner.resolve_flags(r, flags, depth)
    }
    fn get<T: pdf::object::Object>(&self, r: pdf::object::Ref<T>) -> pdf::error::Result<pdf::object::RcRef<T>> {
        let _ = r;
        Err(pdf::error::PdfError::Reference)
    }
    fn options(&self) -> &pdf::object::ParseOptions {
        &self.inner.opts
    }
    fn stream_data(&self, _id: pdf::object::PlainRef, range: std::ops::Range<usize>) -> pdf::error::Result<Arc<[u8]>> {
        self.buf.get(range).map(Arc::from).ok_or(pdf::error::PdfError::EOF)
    }
    fn get_data_or_decode(&self, id: pdf::object::PlainRef, range: std::ops::Range<usize>, filters: &[pdf::enc::StreamFilter]) -> pdf::error::Result<Arc<[u8]>> {
        let mut data: Vec<u8> = self.stream_data(id, range)?.to_vec();
        for f in filters {
            data = pdf::enc::decode(&data, f)?.to_vec();
        }
        Ok(Arc::from(data))
    }
}

fn guard(f: impl FnOnce() -> String) -> String {
    catch_unwind(AssertUnwindSafe(f)).unwrap_or_else(|_| "panic".into())
}

fn lexer_at(buf: &[u8], pos: usize) -> Lexer<'_> {
    let mut lx = Lexer::new(buf);
    lx.set_pos(pos);
    lx
}

fn range_of(s: &pdf::parser::Substr) -> (usize, usize) {
    let r = s.file_range();
    (r.start, r.end)
}

/// `parse_ops` with `allow_invalid_ops` set as asked (both `ParseOptions::strict()` and `tolerant()` set it)
fn parse_ops_with(data: &[u8], allow_invalid_ops: bool) -> Result<Vec<Op>, ()> {
    let mut res = TestResolve::new(&vec![], false);
    res.opts.allow_invalid_ops = allow_invalid_ops;
    pdf::content::parse_ops(data, &res).map_err(|_| ())
}

/// the implementation's answer to a `c01.*` request; `model` is needed where the observable is coarser than the
/// model's answer (ctx, inline, xref): both sides are then brought to the same comparable form
fn both_c01(req: &str, model: &str) -> (String, String) {
    let f: Vec<&str> = req.split(' ').collect();
    let bytes = |i: usize| f.get(i).and_then(|s| unhex(s)).unwrap_or_default();
    let num = |i: usize| f.get(i).and_then(|s| s.parse::<usize>().ok()).unwrap_or(0);
    match f[0] {
        "c01.seek" => {
            let (buf, pos, pat) = (bytes(1), num(2), bytes(3));
            (model.to_string(), guard(|| {
                let mut lx = lexer_at(&buf, pos);
                match lx.seek_substr(&pat) {
                    Some(s) => { let (a, b) = range_of(&s); format!("ok {} {} {}", a, b, lx.get_pos()) }
                    None => format!("ok none {}", lx.get_pos()),
                }
            }))
        }
        "c01.seekback" => {
            let (buf, pos, pat) = (bytes(1), num(2), bytes(3));
            (model.to_string(), guard(|| {
                let mut lx = lexer_at(&buf, pos);
                match lx.seek_substr_back(&pat) {
                    Ok(s) => { let (a, b) = range_of(&s); format!("ok {} {} {}", a, b, lx.get_pos()) }
                    Err(_) => "err".into(),
                }
            }))
        }
        "c01.fromend" => {
            let (buf, pos, n) = (bytes(1), num(2), num(3));
            (model.to_string(), guard(|| { let mut lx = lexer_at(&buf, pos); lx.set_pos_from_end(n); format!("ok {}", lx.get_pos()) }))
        }
        "c01.newline" => {
            let (buf, pos) = (bytes(1), num(2));
            (model.to_string(), guard(|| {
                let mut lx = lexer_at(&buf, pos);
                let (a, b) = { let s = lx.seek_newline(); range_of(&s) };
                format!("ok {} {} {}", a, b, lx.get_pos())
            }))
        }
        "c01.ctx" => {
            // the observable is the lossy text of the range: the model's range is turned into that text
            let (buf, pos) = (bytes(1), num(2));
            let m: Vec<&str> = model.split(' ').collect();
            let expected = if m.len() == 3 && m[0] == "ok" {
                match (m[1].parse::<usize>(), m[2].parse::<usize>()) {
                    (Ok(a), Ok(b)) if a <= b && b <= buf.len() => format!("ok {}", hex(String::from_utf8_lossy(&buf[a..b]).as_bytes())),
                    _ => format!("unusable:{}", model),
                }
            } else { model.to_string() };
            (expected, guard(|| { let lx = lexer_at(&buf, pos); format!("ok {}", hex(lx.ctx().as_bytes())) }))
        }
        "c01.lexeme" => {
            let (buf, pos) = (bytes(1), num(2).min(bytes(1).len()));
            (model.to_string(), guard(|| {
                let mut sl = StringLexer::new(&buf[pos..]);
                match sl.next_lexeme() {
                    Ok(Some(b)) => format!("ok {} {}", b, pos + sl.get_offset()),
                    Ok(None) => format!("ok none {}", pos + sl.get_offset()),
                    Err(_) => "err".into(),
                }
            }))
        }
        "c01.hexbyte" => {
            let (buf, pos) = (bytes(1), num(2).min(bytes(1).len()));
            (model.to_string(), guard(|| {
                let mut sl = HexStringLexer::new(&buf[pos..]);
                match sl.next_hex_byte() {
                    Ok(Some(b)) => format!("ok {} {}", b, pos + sl.get_offset()),
                    Ok(None) => format!("ok none {}", pos + sl.get_offset()),
                    Err(_) => "err".into(),
                }
            }))
        }
        "c01.inline" => {
            // model: `ok <a> <b> <p>` (image data buf[a..b], lexer at p) | `fail <p>` (inline_image returned Err)
            let buf = bytes(2);
            let m: Vec<&str> = model.split(' ').collect();
            if m.len() == 4 && m[0] == "ok" {
                let (a, b, p): (usize, usize, usize) = (m[1].parse().unwrap_or(0), m[2].parse().unwrap_or(0), m[3].parse().unwrap_or(0));
                if !(a <= b && b <= buf.len() && p <= buf.len()) {
                    return (format!("unusable:{}", model), "-".into());
                }
                // what follows the image is read by the same loop: if that fails the whole call fails
                let rest_ok = guard(|| if parse_ops_with(&buf[p..], true).is_ok() { "y".into() } else { "n".into() });
                let expected = if rest_ok == "y" { format!("ok {}", hex(&buf[a..b])) } else if rest_ok == "n" { "err".to_string() } else { "panic-in-rest".to_string() };
                let imp = guard(|| match parse_ops_with(&buf, true) {
                    Ok(ops) => match ops.first() {
                        Some(Op::InlineImage { image }) => match image.inner.data(&pdf::object::NoResolve) {
                            Ok(d) => format!("ok {}", hex(&d)),
                            Err(_) => "data-err".into(),
                        },
                        _ => "no-image".into(),
                    },
                    Err(_) => "err".into(),
                });
                (expected, imp)
            } else if m.len() == 2 && m[0] == "fail" {
                // strict: the error of `inline_image` is the error of `parse_ops`
                ("err".into(), guard(|| match parse_ops_with(&buf, false) { Ok(_) => "ok".into(), Err(_) => "err".into() }))
            } else {
                (model.to_string(), guard(|| match parse_ops_with(&buf, false) { Ok(_) => "ok".into(), Err(_) => "err".into() }))
            }
        }
        "c01.xref" => {
            let (buf, pos) = (bytes(1), num(2));
            let lens: LenMap = f.get(3).and_then(|s| c03::read_lens(s)).unwrap_or_default();
            let allow_err = f.get(4) == Some(&"1");
            let is_table = guard(|| { let mut lx = lexer_at(&buf, pos); match lx.next() { Ok(w) if w.equals(b"xref") => "t".into(), _ => "s".into() } });
            let m: Vec<&str> = model.split(' ').collect();
            // `table <subs> <dict> <pos>` / `stream <subs> <dict>`: the dictionary in the canonical notation of the harness
            let expected = if m.len() == 4 && m[0] == "table" {
                match read_val(m[2]) { Some(v) => format!("table {} {} {}", m[1], show_canon(&v), m[3]), None => format!("unreadable:{}", model) }
            } else if m.len() == 3 && m[0] == "stream" {
                match read_val(m[2]) { Some(v) => format!("stream {} {}", m[1], show_canon(&v)), None => format!("unreadable:{}", model) }
            } else { model.to_string() };
            let imp = guard(|| {
                let mut res = BufResolve { inner: TestResolve::new(&lens, false), buf: buf.clone() };
                res.inner.opts.allow_xref_error = allow_err;
                let mut lx = lexer_at(&buf, pos);
                match pdf::parser::read_xref_and_trailer_at(&mut lx, &res) {
                    Ok((secs, dict)) => {
                        let subs: Vec<String> = secs.iter().map(|s| format!("{}={}", s.first_id, s.entries.iter().map(|e| match e {
                            pdf::xref::XRef::Free { next_obj_nr, gen_nr } => format!("f{}.{}", next_obj_nr, gen_nr),
                            pdf::xref::XRef::Raw { pos, gen_nr } => format!("n{}.{}", pos, gen_nr),
                            pdf::xref::XRef::Stream { stream_id, index } => format!("s{}.{}", stream_id, index),
                            pdf::xref::XRef::Promised => "p".into(),
                            pdf::xref::XRef::Invalid => "i".into(),
                        }).collect::<Vec<_>>().join(","))).collect();
                        let v = prim_to_val(&Primitive::Dictionary(dict), &res.inner);
                        let subs = if subs.is_empty() { "-".to_string() } else { subs.join(";") };
                        if is_table == "t" { format!("table {} {} {}", subs, show_canon(&v), lx.get_pos()) } else { format!("stream {} {}", subs, show_canon(&v)) }
                    }
                    Err(_) => "err".into(),
                }
            });
            // a stream dictionary outside the plain shape the driver's typed reader covers: outcome class only
            if expected == "unmodelled" { ("unmodelled".into(), if imp == "panic" { imp } else { "unmodelled".into() }) } else { (expected, imp) }
        }
        _ => (model.to_string(), "unsupported-request".into()),
    }
}

fn both(req: &str, model: &str) -> (String, String) {
    if req.starts_with("c03.") {
        c03::both_sides(req, model)
    } else if req.starts_with("c01.date ") || req.starts_with("c01.cs ") || req.starts_with("c01.font ") {
        super::typed::both_typed(req, model)
    } else {
        both_c01(req, model)
    }
}

/// what a request calls, for the oracle's signature
fn entry_point(req: &str) -> String {
    let f: Vec<&str> = req.splitn(3, ' ').collect();
    match f[0] {
        "c03.word" => "Lexer::next".into(),
        "c03.peek" => "Lexer::peek".into(),
        "c03.back" => "Lexer::back".into(),
        "c03.expect" => "Lexer::next_expect".into(),
        "c03.nextstream" => "Lexer::next_stream".into(),
        "c03.readn" => "Lexer::read_n".into(),
        "c03.setpos" => "Lexer::set_pos".into(),
        "c03.offsetpos" => "Lexer::offset_pos".into(),
        "c03.litstr" => "StringLexer".into(),
        "c03.hexstr" => "HexStringLexer".into(),
        "c03.tok" => "Substr::{is_integer,real_number,to}".into(),
        "c03.parse" => match f.get(1) { Some(&"plain") => "parse_with_lexer".into(), Some(&"stm") => "parse_stream".into(), _ => "parse_indirect_object".into() },
        "c01.seek" => "Lexer::seek_substr".into(),
        "c01.seekback" => "Lexer::seek_substr_back".into(),
        "c01.fromend" => "Lexer::set_pos_from_end".into(),
        "c01.newline" => "Lexer::seek_newline".into(),
        "c01.ctx" => "Lexer::ctx".into(),
        "c01.lexeme" => "StringLexer::next_lexeme".into(),
        "c01.hexbyte" => "HexStringLexer::next_hex_byte".into(),
        "c01.inline" => "content::parse_ops(inline_image)".into(),
        "c01.xref" => "read_xref_and_trailer_at".into(),
        "c01.date" => "Date::from_primitive".into(),
        "c01.cs" => "ColorSpace::from_primitive".into(),
        "c01.font" => "Font::from_primitive".into(),
        x => x.to_string(),
    }
}

pub struct Runner<'a> {
    driver: &'a Driver,
    /// failures recorded per signature (a few each: the list must keep room for other signatures)
    per_sig: std::collections::HashMap<String, u32>,
    pub oracle: Oracle,
    /// set when a real function did not come back: the streams stop
    pub hung: bool,
    seed: u64,
}

impl<'a> Runner<'a> {
    pub fn new(driver: &'a Driver, seed: u64) -> Runner<'a> {
        Runner { driver, per_sig: Default::default(), oracle: Oracle::new("c01.entry"), hung: false, seed }
    }

    /// asks the model, runs the implementation (in a worker thread, watched), records every case
    pub fn compare(&mut self, st: &mut Stream, reqs: Vec<String>) {
        if self.hung || reqs.is_empty() {
            return;
        }
        let models = self.driver.ask(&reqs);
        let reqs = Arc::new(reqs);
        let models = Arc::new(models);
        let (tx, rx) = mpsc::channel::<(String, String)>();
        {
            let (reqs, models) = (reqs.clone(), models.clone());
            std::thread::Builder::new().stack_size(32 << 20).spawn(move || {
                for (rq, m) in reqs.iter().zip(models.iter()) {
                    if tx.send(both(rq, m)).is_err() {
                        break;
                    }
                }
            }).expect("spawn worker");
        }
        for (i, rq) in reqs.iter().enumerate() {
            match rx.recv_timeout(Duration::from_secs(10)) {
                Ok((m, im)) => {
                    st.count(&format!("outcome={}", m.split(' ').next().unwrap_or("")));
                    let buf_empty = rq.split(' ').any(|f| f == "-");
                    st.case(rq, &m, &im, !buf_empty);
                    self.oracle.cases += 1;
                    if im == "panic" || im.starts_with("panic") {
                        let ep = entry_point(rq);
                        let sig = format!("panic@{}", ep);
                        let k = self.per_sig.entry(sig.clone()).or_insert(0);
                        *k += 1;
                        self.oracle.count(&format!("failures:{}", sig));
                        if *k <= 3 {
                            self.oracle.fail(&sig, &format!("{} panicked on arbitrary input (stream {}, request `{}`)", ep, st.name, trunc(rq)),
                                json!({"stream": st.name, "seed": self.seed, "case": i, "disagreement": {"stream": st.name, "request": rq, "model": m, "impl": im}}));
                        }
                    }
                }
                Err(_) => {
                    let ep = entry_point(rq);
                    self.hung = true;
                    self.oracle.fail(&format!("hang@{}", ep), &format!("{} did not return within 10 s (stream {}); the remaining streams were not run", ep, st.name),
                        json!({"stream": st.name, "seed": self.seed, "case": i, "disagreement": {"stream": st.name, "request": rq, "model": models[i], "impl": "hang"}}));
                    st.case(rq, &models[i], "hang", true);
                    return;
                }
            }
        }
    }
}

// ---------------------------------------------------------------------------------------------------
// generators

const ALPHABET24: [u8; 24] = [0, 9, 10, 12, 13, 32, b'(', b')', b'<', b'>', b'[', b']', b'{', b'}', b'/', b'%', b'a', b'1', b'-', b'+', b'.', b'#', b'\\', 0x80];
const STRUCT: &[u8] = b"()<>[]{}/% \n\r\t\x0c\x000123456789+-.#\\abcdefnrtRstreamobjxEIDBLength";
const PATS: [&[u8]; 8] = [b"\nEI", b"endobj", b"startxref", b"a", b"ab", b"\n", b"%%EOF", b">>"];

fn rand_buf(rng: &mut Rng, max: usize) -> Vec<u8> {
    let n = rng.usize(max + 1);
    match rng.below(3) {
        0 => rng.bytes(n),
        1 => (0..n).map(|_| *rng.pick(STRUCT)).collect(),
        _ => (0..n).map(|_| if rng.chance(1, 5) { rng.byte() } else { *rng.pick(STRUCT) }).collect(),
    }
}

fn pick_n(rng: &mut Rng, len: usize, pos: usize) -> usize {
    let rem = len - pos.min(len);
    match rng.below(8) {
        0 => rem,
        1 => rem + 1,
        2 => rem.saturating_sub(1),
        3 => *rng.pick(&[usize::MAX, usize::MAX - pos, (usize::MAX - pos).wrapping_add(1), usize::MAX / 2, 1 << 31, 50]),
        4 => 0,
        _ => rng.usize(len + 3),
    }
}

/// one lexer-level request on `buf` at `pos`
fn lex_request(rng: &mut Rng, buf: &[u8], pos: usize) -> String {
    let h = hex(buf);
    match rng.below(21) {
        0 | 1 => format!("c03.word {} {}", h, pos),
        2 => format!("c03.peek {} {}", h, pos),
        3 => format!("c03.back {} {}", h, pos),
        4 => format!("c03.expect {} {} {}", h, pos, hex(*rng.pick(&[&b"obj"[..], b"endobj", b"endstream", b"R", b"stream"]))),
        5 => format!("c03.nextstream {} {}", h, pos),
        6 => format!("c03.readn {} {} {}", h, pos, pick_n(rng, buf.len(), pos)),
        7 => format!("c03.setpos {} {} {}", h, pos, pick_n(rng, buf.len(), 0)),
        8 => format!("c03.offsetpos {} {} {}", h, pos, pick_n(rng, buf.len(), pos)),
        9 => format!("c01.fromend {} {} {}", h, pos, pick_n(rng, buf.len(), 0)),
        10 | 11 => {
            let pat: Vec<u8> = if !buf.is_empty() && rng.chance(1, 2) { let a = rng.usize(buf.len()); let l = 1 + rng.usize(3.min(buf.len() - a)); buf[a..a + l].to_vec() } else { rng.pick(&PATS).to_vec() };
            format!("{} {} {} {}", if rng.chance(1, 2) { "c01.seek" } else { "c01.seekback" }, h, pos, hex(&pat))
        }
        12 => format!("c01.newline {} {}", h, pos),
        13 => format!("c01.ctx {} {}", h, pos),
        14 => format!("c01.lexeme {} {}", h, pos),
        15 => format!("c01.hexbyte {} {}", h, pos),
        16 => format!("c03.litstr {} {}", h, pos),
        17 => format!("c03.hexstr {} {}", h, pos),
        18 => format!("c03.tok {}", hex(&buf[pos.min(buf.len())..(pos + 12).min(buf.len())])),
        _ => parse_request("plain", buf, pos, 1023, 0, &vec![], None),
    }
}

fn exhaustive_stream(run: &mut Runner, thorough: bool) -> Stream {
    let mut st = Stream::new("c01.lex.exhaustive", true);
    st.exhaustive = true;
    let mut bufs: Vec<Vec<u8>> = vec![vec![]];
    for a in 0..=255u8 { bufs.push(vec![a]); }
    for a in 0..=255u8 { for b in 0..=255u8 { bufs.push(vec![a, b]); } }
    if thorough {
        for &a in &ALPHABET24 { for &b in &ALPHABET24 { for &c in &ALPHABET24 { bufs.push(vec![a, b, c]); } } }
    }
    // operations without a parameter: every buffer, every cursor
    let plain_ops = ["c03.word", "c03.peek", "c03.back", "c03.nextstream", "c01.newline", "c01.ctx", "c01.lexeme", "c01.hexbyte", "c03.litstr", "c03.hexstr"];
    for op in plain_ops {
        let mut reqs = Vec::with_capacity(bufs.len() * 3);
        for b in &bufs { let h = hex(b); for p in 0..=b.len() { reqs.push(format!("{} {} {}", op, h, p)); } }
        st.count(&format!("op={}", op));
        run.compare(&mut st, reqs);
    }
    // the parser (all kinds allowed) and the two string loops
    let mut reqs = Vec::with_capacity(bufs.len() * 3);
    for b in &bufs { for p in 0..=b.len() { reqs.push(parse_request("plain", b, p, 1023, 0, &vec![], None)); } }
    st.count("op=c03.parse plain");
    run.compare(&mut st, reqs);
    let mut reqs = vec![];
    for b in &bufs { reqs.push(parse_request("ind1", b, 0, 1023, 0, &vec![], None)); reqs.push(parse_request("stm", b, 0, 1023, 0, &vec![], Some((1, 0)))); reqs.push(format!("c01.xref {} 0 - 0", hex(b))); }
    st.count("op=c03.parse ind1/stm, c01.xref");
    run.compare(&mut st, reqs);
    // operations with a number: a few values around the buffer's length and the extremes
    let mut reqs = vec![];
    for b in &bufs {
        let h = hex(b);
        for p in 0..=b.len() {
            for n in [0usize, 1, 2, 3, usize::MAX] {
                reqs.push(format!("c03.readn {} {} {}", h, p, n));
                reqs.push(format!("c03.setpos {} {} {}", h, p, n));
                reqs.push(format!("c03.offsetpos {} {} {}", h, p, n));
                reqs.push(format!("c01.fromend {} {} {}", h, p, n));
            }
        }
    }
    st.count("op=read_n/set_pos/offset_pos/set_pos_from_end");
    run.compare(&mut st, reqs);
    // searches: the pattern is the buffer's own first byte, its two bytes, and a byte that is absent
    let mut reqs = vec![];
    for b in &bufs {
        let h = hex(b);
        let mut pats: Vec<Vec<u8>> = vec![vec![b'\n'], vec![b'a', b'b']];
        if !b.is_empty() { pats.push(vec![b[0]]); pats.push(b.clone()); }
        if b.len() == 2 { pats.push(vec![b[1]]); }
        for p in 0..=b.len() { for pat in &pats { reqs.push(format!("c01.seek {} {} {}", h, p, hex(pat))); reqs.push(format!("c01.seekback {} {} {}", h, p, hex(pat))); } }
        reqs.push(format!("c03.expect {} 0 {}", h, hex(b"R")));
    }
    st.count("op=seek_substr/seek_substr_back/next_expect");
    run.compare(&mut st, reqs);
    st
}

fn random_streams(run: &mut Runner, seed: u64, n: u64) -> Vec<Stream> {
    let mut a = Stream::new("c01.lex.random", true);
    let mut reqs = vec![];
    for case in 0..n {
        let mut rng = Rng::derive(seed, "c01.lex.random", case);
        let buf = rand_buf(&mut rng, 48);
        let pos = rng.usize(buf.len() + 1);
        let rq = lex_request(&mut rng, &buf, pos);
        a.count(&format!("op={}", rq.split(' ').next().unwrap_or("")));
        reqs.push(rq);
    }
    run.compare(&mut a, reqs);
    let mut b = Stream::new("c01.lex.soup", true);
    let mut reqs = vec![];
    for case in 0..n {
        let mut rng = Rng::derive(seed, "c01.lex.soup", case);
        let buf = gen_soup(&mut rng, 60);
        let pos = rng.usize(buf.len() + 1);
        let rq = lex_request(&mut rng, &buf, pos);
        b.count(&format!("op={}", rq.split(' ').next().unwrap_or("")));
        reqs.push(rq);
    }
    run.compare(&mut b, reqs);
    vec![a, b]
}

fn str_stream(run: &mut Runner, seed: u64, n: u64) -> Stream {
    let mut st = Stream::new("c01.str", true);
    let mut reqs = vec![];
    const LIT: [&[u8]; 20] = [b"\\", b"(", b")", b"\r", b"\n", b"\\\r", b"\\\n", b"\\\r\n", b"7", b"8", b"0", b"a", b"\\12", b"\\777", b"\xff", b"n", b"\\(", b"\\)", b"\\\\", b"\\q"];
    for case in 0..n {
        let mut rng = Rng::derive(seed, "c01.str", case);
        let is_hex = rng.chance(1, 3);
        let mut buf = vec![];
        if is_hex {
            for _ in 0..rng.usize(14) { buf.push(*rng.pick(b"0123456789abcdefABCDEF> \n\r\t\x0c\x00gG<x>")); }
        } else if rng.chance(1, 40) {
            // a long run of line continuations (the loop of next_lexeme), ended or not
            let k = 1 + rng.usize(3000);
            let c: &[u8] = *rng.pick(&[&b"\\\n"[..], b"\\\r", b"\\\r\n"]);
            for _ in 0..k { buf.extend_from_slice(c); }
            if rng.chance(2, 3) { buf.extend_from_slice(b"x)"); }
        } else {
            for _ in 0..rng.usize(14) { buf.extend_from_slice(*rng.pick(&LIT)); }
        }
        let pos = rng.usize(buf.len().min(4) + 1);
        let h = hex(&buf);
        let rq = match (is_hex, rng.below(3)) {
            (true, 0) => format!("c01.hexbyte {} {}", h, pos),
            (true, _) => format!("c03.hexstr {} {}", h, pos),
            (false, 0) => format!("c01.lexeme {} {}", h, pos),
            (false, _) => format!("c03.litstr {} {}", h, pos),
        };
        st.count(&format!("op={}", rq.split(' ').next().unwrap_or("")));
        reqs.push(rq);
    }
    run.compare(&mut st, reqs);
    st
}

fn rand_lens(rng: &mut Rng) -> LenMap {
    let mut l = vec![];
    for _ in 0..rng.usize(3) { l.push(((rng.below(4), rng.below(2)), *rng.pick(&[0u64, 1, 3, 5, 40, 2147483647]))); }
    l
}

fn rand_mode(rng: &mut Rng) -> (&'static str, Option<(u64, u64)>) {
    match rng.below(6) {
        0 | 1 | 2 => ("plain", None),
        3 => ("ind0", None),
        4 => ("ind1", None),
        _ => ("stm", Some((rng.below(5), rng.below(2)))),
    }
}

fn rand_flags(rng: &mut Rng) -> u16 {
    match rng.below(4) { 0 | 1 => 1023, 2 => 1 << rng.below(10), _ => (rng.next() & 1023) as u16 }
}

fn parse_random_stream(run: &mut Runner, seed: u64, n: u64) -> Stream {
    let mut st = Stream::new("c01.parse.random", true);
    let mut reqs = vec![];
    const PIECES: [&[u8]; 30] = [b"<<", b">>", b"[", b"]", b"(", b")", b"<", b">", b"/", b"/Length", b" ", b"\n", b"1", b"0", b"-7", b"2.5", b"R", b"obj", b"endobj",
        b"stream\n", b"stream\r\n", b"endstream", b"true", b"null", b"%c\n", b"\\", b"4 0 R", b"1 0 obj", b"/Length 3", b"abc"];
    for case in 0..n {
        let mut rng = Rng::derive(seed, "c01.parse.random", case);
        let buf = match rng.below(3) {
            0 => rand_buf(&mut rng, 64),
            1 => gen_soup(&mut rng, 80),
            _ => { let mut b = vec![]; for _ in 0..rng.usize(16) { b.extend_from_slice(*rng.pick(&PIECES)); if rng.chance(1, 2) { b.push(b' '); } } b }
        };
        let (mode, ctx) = rand_mode(&mut rng);
        let pos = if mode == "stm" || rng.chance(2, 3) { 0 } else { rng.usize(buf.len() + 1) };
        let off = if rng.chance(1, 5) { rng.usize(1000) } else { 0 };
        let lens = rand_lens(&mut rng);
        st.count(&format!("mode={}", mode));
        reqs.push(parse_request(mode, &buf, pos, rand_flags(&mut rng), off, &lens, ctx));
    }
    run.compare(&mut st, reqs);
    st
}

fn parse_mutated_stream(run: &mut Runner, seed: u64, n: u64) -> Stream {
    let mut st = Stream::new("c01.parse.mutated", true);
    let mut reqs = vec![];
    for case in 0..n {
        let mut rng = Rng::derive(seed, "c01.parse.mutated", case);
        let cfg = GenCfg { bad_name_pct: 2, wild_names: false };
        let tail: &[u8] = *rng.pick(&TAILS);
        let (c, mode) = match rng.below(4) {
            0 | 1 => { let v = gen_val(&mut rng, 0, &cfg); (render_random(&mut rng, "val", v, tail, (1, 0), vec![]), "plain") }
            2 => { let v = gen_val(&mut rng, 0, &cfg); (render_random(&mut rng, "ind", v, tail, (7, 0), vec![]), if rng.chance(1, 2) { "ind0" } else { "ind1" }) }
            _ => { let (v, lens) = gen_stream(&mut rng, &cfg, true); (render_random(&mut rng, "ind", v, tail, (7, 0), lens), if rng.chance(1, 2) { "ind0" } else { "ind1" }) }
        };
        let mut buf = c.text.clone();
        mutate(&mut rng, &mut buf);
        st.count(&format!("mode={}", mode));
        reqs.push(parse_request(mode, &buf, 0, rand_flags(&mut rng), 0, &c.lens, None));
    }
    run.compare(&mut st, reqs);
    st
}

fn corpus_stream(run: &mut Runner, seed: u64, n: u64) -> Stream {
    let mut st = Stream::new("c01.parse.corpus", true);
    let mut files: Vec<(String, Vec<u8>)> = vec![];
    let mut hung = false;
    for (name, b) in corpus::fixture_files() {
        if b.len() <= 400_000 {
            if !hung {
                let b2 = b.clone();
                match with_timeout(30, move || corpus::normalise(&b2)) {
                    Some(Some(nb)) => files.push((format!("{}(norm)", name), nb)),
                    Some(None) => {}
                    None => hung = true, // reported by the walker oracle (c01.rs); raw slices only from here on
                }
            }
            files.push((name, b));
        }
    }
    if files.is_empty() {
        return st;
    }
    let mut reqs = vec![];
    for case in 0..n {
        let mut rng = Rng::derive(seed, "c01.parse.corpus", case);
        let (name, b) = rng.pick(&files);
        // an object start (`obj` keyword, back to the start of its line) or any offset
        let mut start = rng.usize(b.len());
        let mut at_obj = false;
        if rng.chance(3, 4) {
            if let Some(i) = b[start..].windows(4).position(|w| w == b" obj") {
                let k = start + i;
                start = b[..k].iter().rposition(|&c| c == b'\n' || c == b'\r').map(|x| x + 1).unwrap_or(0);
                at_obj = true;
            }
        }
        let len = 1 + rng.usize(360);
        let mut slice = b[start..(start + len).min(b.len())].to_vec();
        if rng.chance(1, 3) { mutate(&mut rng, &mut slice); }
        let mode = if at_obj { *rng.pick(&["ind0", "ind1", "ind1", "plain"]) } else { *rng.pick(&["plain", "plain", "ind1"]) };
        st.count(&format!("file={}", if name.ends_with("(norm)") { "normalised" } else { "raw" }));
        st.count(&format!("at={}", if at_obj { "object" } else { "offset" }));
        let lens = rand_lens(&mut rng);
        reqs.push(parse_request(mode, &slice, 0, 1023, 0, &lens, None));
        if rng.chance(1, 6) { reqs.push(lex_request(&mut rng, &slice, 0)); }
    }
    run.compare(&mut st, reqs);
    st
}

fn deep_stream(run: &mut Runner) -> Stream {
    let mut st = Stream::new("c01.parse.deep", true);
    let mut reqs = vec![];
    for depth in [1usize, 18, 19, 20, 21, 22, 23, 60, 400] {
        for kind in 0..4 {
            let (mut open, mut close): (Vec<u8>, Vec<u8>) = (vec![], vec![]);
            for i in 0..depth {
                let dict = match kind { 0 => false, 1 => true, 2 => i % 2 == 0, _ => i % 3 == 0 };
                if dict { open.extend_from_slice(b"<</K "); close.splice(0..0, b">>".iter().cloned()); } else { open.push(b'['); close.insert(0, b']'); }
            }
            let mut full = open.clone(); full.extend_from_slice(b"1 "); full.extend_from_slice(&close);
            reqs.push(parse_request("plain", &full, 0, 1023, 0, &vec![], None));
            reqs.push(parse_request("plain", &open, 0, 1023, 0, &vec![], None));
            let mut ind = b"3 0 obj ".to_vec(); ind.extend_from_slice(&full); ind.extend_from_slice(b" endobj");
            reqs.push(parse_request("ind1", &ind, 0, 1023, 0, &vec![], None));
            st.count(&format!("depth={}", depth));
        }
    }
    run.compare(&mut st, reqs);
    st
}

fn inline_stream(run: &mut Runner, seed: u64, n: u64) -> Stream {
    let mut st = Stream::new("c01.inline", true);
    let mut reqs = vec![];
    for case in 0..n {
        let mut rng = Rng::derive(seed, "c01.inline", case);
        // `img_ok`: do the typed entries of the dictionary convert (the model takes that as a parameter)
        let (mut buf, img_ok) = match rng.below(6) {
            0 => (b"BI /W 1 /H 1 ID".to_vec(), 1),
            1 => (b"BI ID".to_vec(), 0),                         // no /W, /H
            2 => (b"BI /W 1 /H (x) ID".to_vec(), 0),             // /H is not a number
            3 => (b"BI /W 1 (x) 3 ID".to_vec(), 1),              // a key that is not a name: fails before `ID`
            _ => (b"BI /W 1 /H 1 /BPC 8 /CS /G ID".to_vec(), 1),
        };
        for _ in 0..rng.usize(12) {
            match rng.below(5) { 0 => buf.extend_from_slice(b"\nEI"), 1 => buf.push(rng.byte()), 2 => buf.extend_from_slice(b"EI"), 3 => buf.push(b'\n'), _ => buf.push(*rng.pick(b"Ax \r0Q")) }
        }
        if rng.chance(3, 4) { buf.extend_from_slice(*rng.pick(&[&b"\nEI"[..], b"\nEI Q", b"\nEI\n", b" EI", b"\rEI ", b"\nEIx", b"\nEI/", b"\nEI q BI /W 1 /H 1 ID y\nEI Q"])); }
        st.count(&format!("terminated={}", buf.windows(3).any(|w| w == b"\nEI")));
        reqs.push(format!("c01.inline {} {} {}", inline_search(), hex(&buf), img_ok));
    }
    run.compare(&mut st, reqs);
    st
}

fn xref_stream(run: &mut Runner, seed: u64, n: u64) -> Stream {
    let mut st = Stream::new("c01.xref", true);
    let mut reqs = vec![];
    for case in 0..n {
        let mut rng = Rng::derive(seed, "c01.xref", case);
        let mut buf = vec![];
        let kind = if rng.chance(1, 3) { 6 } else { rng.below(8) };
        if kind < 6 {
            buf.extend_from_slice(b"xref\n");
            for _ in 0..rng.usize(3) {
                let cnt = rng.usize(4);
                let claimed = match rng.below(8) { 0 => cnt + 1, 1 => 4294967295, 2 => 4294967296, 3 => cnt.saturating_sub(1), _ => cnt };
                buf.extend_from_slice(format!("{} {}\n", rng.below(5), claimed).as_bytes());
                for _ in 0..cnt {
                    let line = match rng.below(8) {
                        0 => format!("{} {} x \n", rng.below(99), rng.below(3)),
                        1 => format!("{:010} {:05}\n", rng.below(999), rng.below(3)),
                        2 => format!("18446744073709551616 0 n \n"),
                        _ => format!("{:010} {:05} {} \n", rng.below(99999), if rng.chance(1, 4) { 65535 } else { rng.below(3) }, if rng.chance(1, 3) { 'f' } else { 'n' }),
                    };
                    buf.extend_from_slice(line.as_bytes());
                }
            }
            if rng.chance(5, 6) { buf.extend_from_slice(b"trailer\n"); }
            buf.extend_from_slice(*rng.pick(&[&b"<</Size 4/Root 1 0 R>>"[..], b"<</Size 4", b"[1]", b"<<>>", b"", b"<</Size 4/Prev 10>>\nstartxref\n0\n%%EOF"]));
            if rng.chance(1, 4) { mutate(&mut rng, &mut buf); }
        } else if kind == 6 {
            // a cross-reference stream: widths, /Index, row data and /Size drawn at random, sometimes hostile
            let w: Vec<u64> = match rng.below(14) { 0 => vec![0, 0, 0], 1 => vec![9, 1, 1], 2 => vec![1, 1], 3 | 4 => vec![0, 2, 1], _ => vec![1 + rng.below(2), 1 + rng.below(3), rng.below(3)] };
            let row: usize = w.iter().map(|x| *x as usize).sum();
            let rows = rng.usize(5);
            let mut data = vec![];
            for _ in 0..rows { for (i, wi) in w.iter().enumerate() { for k in 0..*wi { data.push(if i == 0 && k + 1 == *wi { *rng.pick(&[0u8, 1, 1, 2, 2, 7]) } else if rng.chance(1, 3) { rng.byte() } else { 0 }); } } }
            if rng.chance(1, 8) { data.truncate(data.len().saturating_sub(1 + rng.usize(2))); }
            let index = match rng.below(12) { 0 => format!("/Index[0 {}]", rows + 1), 1 => "/Index[3]".to_string(), 2 => format!("/Index[0 1 5 {}]", rows.saturating_sub(1)), 3 => "/Index[0 4294967295]".to_string(), _ => String::new() };
            let size = match rng.below(12) { 0 => "4294967295".to_string(), 1 => "-1".to_string(), _ => format!("{}", rows) };
            let extra = *rng.pick(&["", "", "", "/Prev 10", "/Root 1 0 R", "/Filter/ASCIIHexDecode", "/Foo 1"]);
            let ty = if rng.chance(9, 10) { "/Type/XRef" } else { "" };
            let ws: Vec<String> = w.iter().map(|x| x.to_string()).collect();
            buf.extend_from_slice(format!("5 0 obj\n<<{}/Size {}/W[{}]{}{}/Length {}>>\nstream\n", ty, size, ws.join(" "), index, extra, data.len()).as_bytes());
            buf.extend_from_slice(&data);
            buf.extend_from_slice(*rng.pick(&[&b"\nendstream\nendobj\nstartxref"[..], b"\nendstream\nendobj\nstartxref", b"\nendstream\nendobj\ntrailer\n<</Size 9>>", b"\nendstream\nendobj\ntrailer\n<</Size 9/Prev 3>>\n", b"\nendstream\nendobj", b"\nendstream"]));
            let _ = row;
            if rng.chance(1, 10) { mutate(&mut rng, &mut buf); }
        } else {
            buf = gen_soup(&mut rng, 60);
        }
        let pos = if rng.chance(4, 5) { 0 } else { rng.usize(buf.len() + 1) };
        let lens = rand_lens(&mut rng);
        st.count(&format!("kind={}", if kind < 6 { "table" } else if kind == 6 { "stream" } else { "soup" }));
        reqs.push(format!("c01.xref {} {} {} {}", hex(&buf), pos, c03::show_lens(&lens), rng.below(2)));
    }
    run.compare(&mut st, reqs);
    st
}

/// the decidable hypothesis of `Props/C01.typed_registry_total` (every `default = ".."` of the generated schemas is of a
/// form the interpreter evaluates; `Page` / `PageTree` exist), evaluated by the compiled driver on the schemas the
/// translator has just regenerated from the source: a translator obligation, reported like a broken correspondence
fn registry_stream(driver: &Driver) -> Stream {
    let mut st = Stream::new("c01.registry", true);
    st.exhaustive = true;
    let rq = "c01.registry".to_string();
    let m = driver.ask(&[rq.clone()]).pop().unwrap_or_default();
    for part in m.split(' ').skip(1) { st.count(part); }
    st.case(&rq, &m, if m.starts_with("ok ") { &m } else { "ok" }, true);
    st
}

fn typed_streams(run: &mut Runner, seed: u64, n: u64) -> Vec<Stream> {
    let mut out = vec![];
    let mut st = Stream::new("c01.date", true);
    let reqs = super::typed::date_requests(seed, 2 * n, &mut st);
    run.compare(&mut st, reqs);
    out.push(st);
    let mut st = Stream::new("c01.cs", true);
    let reqs = super::typed::cs_requests(seed, n, &mut st);
    // what the inputs exercise: the family at the top, the nesting of the value, the recorded loads
    for m in run.driver.ask(&reqs) {
        let f: Vec<&str> = m.split(' ').collect();
        if f.len() == 3 && f[0] == "ok" {
            st.count(&format!("top={}", f[1].split('(').next().unwrap_or("")));
            st.count(&format!("nesting={}", f[1].matches("I(").count() + f[1].matches("S(").count() + f[1].matches("DN(").count()));
            if f[2] != "-" {
                for c in f[2].split('|') {
                    st.count(&format!("recorded-load={}", &c[..1]));
                }
            }
            if f[1].contains('?') {
                st.count("lookup=deferred");
            }
        }
    }
    run.compare(&mut st, reqs);
    out.push(st);
    let mut st = Stream::new("c01.font", true);
    let reqs = super::typed::font_requests(seed, n, &mut st);
    for m in run.driver.ask(&reqs) {
        let f: Vec<&str> = m.split(' ').collect();
        if f.len() == 8 && f[0] == "ok" {
            st.count(&format!("plan:loader={}", f[6]));
            st.count(if f[3] == "-" { "plan:encoding=none" } else if f[3].ends_with('/') { "plan:encoding=base" } else { "plan:encoding=differences" });
            st.count(if f[4] == "-" { "plan:tounicode=absent" } else { "plan:tounicode=present" });
        } else {
            st.count(&format!("plan:{}", f[0]));
        }
    }
    run.compare(&mut st, reqs);
    out.push(st);
    out
}

pub fn streams(driver: &Driver, seed: u64, thorough: bool) -> (Vec<Stream>, Oracle) {
    let mut run = Runner::new(driver, seed);
    let k: u64 = if thorough { 40 } else { 1 };
    let mut out = vec![];
    out.push(registry_stream(driver));
    out.push(exhaustive_stream(&mut run, thorough));
    out.extend(random_streams(&mut run, seed, 40_000 * k));
    out.push(str_stream(&mut run, seed, 20_000 * k));
    out.push(parse_random_stream(&mut run, seed, 40_000 * k));
    out.push(parse_mutated_stream(&mut run, seed, 30_000 * k));
    out.push(corpus_stream(&mut run, seed, 6_000 * k));
    out.push(deep_stream(&mut run));
    out.push(inline_stream(&mut run, seed, 6_000 * k));
    out.push(xref_stream(&mut run, seed, 10_000 * k));
    out.extend(typed_streams(&mut run, seed, 6_000 * k));
    (out, run.oracle)
}

/// re-runs a stored disagreement / entry-point failure: the same request to both sides
pub fn replay(driver: &Driver, r: &serde_json::Value) -> Option<(Stream, Oracle)> {
    let req = r["disagreement"]["request"].as_str()?;
    let name = r["stream"].as_str().unwrap_or("c01.replay");
    let mut run = Runner::new(driver, r["seed"].as_u64().unwrap_or(0));
    let mut st = Stream::new(name, true);
    run.compare(&mut st, vec![req.to_string()]);
    Some((st, run.oracle))
}
