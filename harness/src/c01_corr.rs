//! C01 correspondence streams: the lexical / syntactic core against the Lean models (all inputs in domain).

use crate::driver::Driver;
use crate::report::Stream;

pub fn streams(_driver: &Driver, _seed: u64, _thorough: bool) -> Vec<Stream> {
    vec![]
}

pub fn replay(_driver: &Driver, _r: &serde_json::Value) -> Option<Stream> {
    None
}
