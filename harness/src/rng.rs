//! One PRNG for every random choice of a run (splitmix64 seeding + xorshift64*), so that a case is
//! reproduced exactly from (seed, stream name, case index).

#[derive(Clone)]
pub struct Rng(u64);

fn splitmix(x: &mut u64) -> u64 {
    *x = x.wrapping_add(0x9E3779B97F4A7C15);
    let mut z = *x;
    z = (z ^ (z >> 30)).wrapping_mul(0xBF58476D1CE4E5B9);
    z = (z ^ (z >> 27)).wrapping_mul(0x94D049BB133111EB);
    z ^ (z >> 31)
}

impl Rng {
    pub fn new(seed: u64) -> Rng {
        let mut s = seed;
        let v = splitmix(&mut s) | 1;
        Rng(v)
    }
    /// independent sub-stream for (stream name, case index)
    pub fn derive(seed: u64, stream: &str, case: u64) -> Rng {
        let mut h: u64 = 0xcbf29ce484222325;
        for b in stream.bytes() {
            h ^= b as u64;
            h = h.wrapping_mul(0x100000001b3);
        }
        let mut s = seed ^ h.rotate_left(17) ^ case.wrapping_mul(0xD6E8FEB86659FD93);
        let a = splitmix(&mut s);
        let b = splitmix(&mut s);
        Rng((a ^ b.rotate_left(32)) | 1)
    }
    pub fn next(&mut self) -> u64 {
        let mut x = self.0;
        x ^= x >> 12;
        x ^= x << 25;
        x ^= x >> 27;
        self.0 = x;
        x.wrapping_mul(0x2545F4914F6CDD1D)
    }
    /// uniform in 0..n (n > 0)
    pub fn below(&mut self, n: u64) -> u64 {
        if n == 0 { return 0; }
        self.next() % n
    }
    pub fn range(&mut self, lo: i64, hi: i64) -> i64 {
        lo + self.below((hi - lo + 1) as u64) as i64
    }
    pub fn usize(&mut self, n: usize) -> usize {
        self.below(n as u64) as usize
    }
    pub fn chance(&mut self, num: u64, den: u64) -> bool {
        self.below(den) < num
    }
    pub fn pick<'a, T>(&mut self, xs: &'a [T]) -> &'a T {
        &xs[self.usize(xs.len())]
    }
    pub fn byte(&mut self) -> u8 {
        self.next() as u8
    }
    pub fn bytes(&mut self, n: usize) -> Vec<u8> {
        (0..n).map(|_| self.byte()).collect()
    }
    pub fn shuffle<T>(&mut self, xs: &mut [T]) {
        for i in (1..xs.len()).rev() {
            let j = self.usize(i + 1);
            xs.swap(i, j);
        }
    }
}
