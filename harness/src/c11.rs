//! C11 — an object's value does not depend on how it is stored.
//!
//! Correspondence streams (model = lean/PdfModel/Model/ObjStm.lean, spec = Spec/ObjStm.lean):
//!   c11.pack            the harness' object-stream writer against the specification's writer (certifies
//!                       that the generated streams lie in the domain of `objstm_slice`)
//!   c11.member          every index (and two beyond) of generated object streams: members of every kind,
//!                       separators SP / LF / CR LF / none, white-space behind the last member or none
//!                       → ObjectStream::from_primitive + get_object_slice + data.get(range)
//!   c11.member.parse    the same slices (`text ++ sep`, the buffer ends there) through the value parser with ANY and with
//!                       the kind's own flag: Model/Parser.lean (request `c03.parse plain`) against `parse_with_lexer`
//!   c11.member.outside  damaged headers: wrong /N, wrong /First, offsets out of order / beyond the data /
//!                       near 2^64 (overflow), signs, comments, missing numbers
//!   c17.load            (shared with C17) the compressed branch and the indirect /Length of resolve_ref:
//!                       model with table-instantiated parsers against Storage::resolve
//!   c11.crypt.member    encrypted twin documents: the member slices (plaintext) through the value parser WITHOUT a
//!                       decryption context (Model/Parser.lean) against what the library resolves for the compressed object
//! Oracle (the implementation against the property itself):
//!   c11.twins           generated files in which every value is stored twice — as an ordinary indirect
//!                       object and inside an object stream (first / middle / last, any separator, filters
//!                       none / Flate / ASCIIHex+Flate) — and every stream three times (/Length direct,
//!                       reference to a direct integer, reference to a compressed integer): the twins
//!                       must resolve identically with ANY and with restricted flags, the streams must
//!                       deliver the written bytes (raw and decoded); strict and tolerant options alternate
//!   c11.twins.encrypted the same twins as *encrypted* documents of every handler variant (R2 RC4-40 … R6 AES-256),
//!                       opened with the user or the owner password, strict or tolerant: BOTH twins must read as the
//!                       plaintext (direct strings are encrypted per object, members of an object stream are not
//!                       encrypted individually), all three /Length forms must decode to the plain data

#[path = "c11_crypt.rs"]
pub mod crypt;

use crate::c17::common::*;
use crate::driver::Driver;
use crate::pdfwrite::*;
use crate::report::*;
use crate::rng::Rng;
use pdf::file::{NoCache, NoLog, Storage};
use pdf::object::{NoResolve, NoUpdate, Object, ObjectStream, ParseOptions, PlainRef, Resolve, Stream};
use pdf::parser::ParseFlags;
use pdf::primitive::Primitive;
use serde_json::{json, Value};
use std::panic::{catch_unwind, AssertUnwindSafe};

// ---------------------------------------------------------------------------------------------------
// member level

#[derive(Clone, Debug)]
struct Member {
    id: u64,
    text: Vec<u8>,
    sep: Vec<u8>,
    kind: &'static str,
}

/// the harness' own writer: header `id off ` pairs, then `text ++ sep` per member
fn pack(ms: &[Member]) -> (u64, u64, Vec<u8>) {
    let mut head = String::new();
    let mut body = vec![];
    for m in ms {
        head.push_str(&format!("{} {} ", m.id, body.len()));
        body.extend_from_slice(&m.text);
        body.extend_from_slice(&m.sep);
    }
    let first = head.len() as u64;
    let mut data = head.into_bytes();
    data.extend_from_slice(&body);
    (ms.len() as u64, first, data)
}

fn gen_sep(rng: &mut Rng) -> Vec<u8> {
    match rng.below(7) {
        0 => b" ".to_vec(),
        1 => b"\n".to_vec(),
        2 => b"\r\n".to_vec(),
        3 => b"".to_vec(),
        4 => b"  \t".to_vec(),
        5 => b"\r".to_vec(),
        _ => b"".to_vec(),
    }
}

fn gen_members(rng: &mut Rng, first_id: u64, max: usize) -> Vec<Member> {
    let n = 1 + rng.usize(max);
    (0..n)
        .map(|i| {
            let v = match rng.below(1500) {
                // long members: offsets beyond one and two bytes
                0..=44 => { let l = 300 + rng.usize(1500); let mut t = vec![b'(']; t.extend((0..l).map(|_| b"abc xyz012"[rng.usize(10)])); t.push(b')'); ValText { kind: "string", text: t } }
                45 => { let l = 66_000 + rng.usize(3000); let mut t = vec![b'<']; t.extend((0..l * 2).map(|_| b"0123456789ABCDEF"[rng.usize(16)])); t.push(b'>'); ValText { kind: "string", text: t } }
                _ => value_text(rng, 2),
            };
            Member { id: first_id + i as u64, text: v.text, sep: gen_sep(rng), kind: v.kind }
        })
        .collect()
}

fn real_member(n: i64, first: i64, data: &[u8], idx: usize) -> String {
    let r = catch_unwind(AssertUnwindSafe(|| {
        let mut ps = match Stream::new((), data.to_vec()).to_pdf_stream(&mut NoUpdate) { Ok(p) => p, Err(_) => return "harness-error".to_string() };
        ps.info.insert("Type", Primitive::Name("ObjStm".into()));
        ps.info.insert("N", Primitive::Integer(n as i32));
        ps.info.insert("First", Primitive::Integer(first as i32));
        let os = match ObjectStream::from_primitive(Primitive::Stream(ps), &NoResolve) { Ok(o) => o, Err(_) => return "err".to_string() };
        match os.get_object_slice(idx, &NoResolve) {
            Ok((d, range)) => match d.get(range.clone()) { Some(s) => format!("ok {} {} {}", range.start, range.end, hex(s)), None => "err".to_string() },
            Err(_) => "err".to_string(),
        }
    }));
    r.unwrap_or_else(|_| "panic".into())
}

fn member_streams(driver: &Driver, seed: u64, thorough: bool, rep: &mut Report, only: Option<u64>) {
    let mut sp = Stream_::new("c11.pack", true);
    let mut st = Stream_::new("c11.member", true);
    let mut os = Oracle::new("c11.slices");
    let n = if thorough { 20_000 } else { 3000 };
    let mut pack_cases = vec![];
    let mut cases = vec![];
    let mut parse_reqs: Vec<String> = vec![];
    let range = match only { Some(c) => c..c + 1, None => 0..n };
    for case in range {
        let mut rng = Rng::derive(seed, "c11.member", case);
        let fid = 1 + rng.below(200);
        let ms = gen_members(&mut rng, fid, 7);
        let (cnt, first, data) = pack(&ms);
        let req = format!("c11.pack {}", ms.iter().map(|m| format!("{}:{}:{}", m.id, hex(&m.text), hex(&m.sep))).collect::<Vec<_>>().join(","));
        pack_cases.push((req, format!("{} {} {}", cnt, first, hex(&data))));
        st.count(&format!("members={}", ms.len()));
        for (i, m) in ms.iter().enumerate() {
            let pos = if i == 0 { "first" } else if i + 1 == ms.len() { "last" } else { "middle" };
            st.count(&format!("kind={}", m.kind));
            st.count(&format!("position={}", pos));
            st.count(&format!("separator={}", if m.sep.is_empty() { "none" } else { "white-space" }));
            let imp = real_member(cnt as i64, first as i64, &data, i);
            // the property-level expectation, independent of the model: text ++ sep
            let mut want = m.text.clone();
            want.extend_from_slice(&m.sep);
            if want.len() <= 4000 {
                parse_reqs.push(crate::c03::parse_request("plain", &want, 0, 1023, 0, &vec![], None));
                parse_reqs.push(crate::c03::parse_request("plain", &want, 0, flags_for(m.kind).bits(), 0, &vec![], None));
            }
            os.case(&format!("{}#{}", hex(&data[..data.len().min(64)]), i), true, || json!({"members": ms.len(), "index": i, "kind": m.kind}));
            os.count(&format!("kind={}", m.kind));
            os.count(&format!("position={}", pos));
            let got = imp.rsplit(' ').next().unwrap_or("");
            if !imp.starts_with("ok ") || got != hex(&want) {
                os.fail(&format!("slice-differs:{}", pos), &format!("member {} of {} ({}, {} member, separator {:?}): the reader's slice is {} instead of text ++ separator {}", i, ms.len(), m.kind, pos, String::from_utf8_lossy(&m.sep), trunc(&imp), trunc(&hex(&want))),
                    json!({"stream": "c11.member", "seed": seed, "case": case, "index": i, "n": cnt, "first": first, "data_hex": hex(&data)}));
            }
            cases.push((format!("c11.member {} {} {} {}", cnt, first, hex(&data), i), imp, true));
        }
        for extra in 0..2 {
            let i = ms.len() + extra;
            cases.push((format!("c11.member {} {} {} {}", cnt, first, hex(&data), i), real_member(cnt as i64, first as i64, &data, i), true));
        }
    }
    let reqs: Vec<String> = pack_cases.iter().map(|c| c.0.clone()).collect();
    for ((rq, imp), m) in pack_cases.iter().zip(driver.ask(&reqs).iter()) {
        sp.case(rq, m, imp, true);
    }
    let reqs: Vec<String> = cases.iter().map(|c| c.0.clone()).collect();
    for ((rq, imp, nt), m) in cases.iter().zip(driver.ask(&reqs).iter()) {
        st.count(&format!("outcome={}", m.split(' ').next().unwrap_or("")));
        st.case(rq, m, imp, *nt);
    }
    rep.streams.push(sp);
    rep.streams.push(st);
    // the value parser on the slices (`parse(slice, resolve, flags)` of the compressed branch): Model/Parser.lean
    // through the C03 driver request, with ANY and with the kind's own flag
    let mut stp = Stream_::new("c11.member.parse", true);
    let resp = driver.ask(&parse_reqs);
    for (rq, m) in parse_reqs.iter().zip(resp.iter()) {
        let (mm, imp) = crate::c03::both_sides(rq, m);
        stp.count(&format!("outcome={}", mm.split(' ').next().unwrap_or("")));
        stp.case(rq, &mm, &imp, true);
    }
    rep.streams.push(stp);
    rep.oracles.push(os);
    if only.is_some() { return; }

    let mut so = Stream_::new("c11.member.outside", false);
    let n = if thorough { 40_000 } else { 5000 };
    let mut cases = vec![];
    for case in 0..n {
        let mut rng = Rng::derive(seed, "c11.member.outside", case);
        let fid = 1 + rng.below(50);
        let ms = gen_members(&mut rng, fid, 5);
        let (cnt, first, data) = pack(&ms);
        let (mut n2, mut first2, mut data2) = (cnt as i64, first as i64, data.clone());
        let what = match rng.below(12) {
            0 => { n2 += 1 + rng.below(3) as i64; "n-too-big" }
            1 => { n2 = (n2 - 1 - rng.below(2) as i64).max(0); "n-too-small" }
            2 => { first2 += rng.range(-3, 3); "first-shifted" }
            3 => { first2 = data.len() as i64 + rng.range(-1, 3); "first-at-end" }
            4 => {
                // offsets out of order: swap the offsets of two members
                let mut m2 = ms.clone();
                m2.reverse();
                let mut head = String::new();
                let mut o = 0;
                let mut offs = vec![];
                for m in &ms { offs.push(o); o += m.text.len() + m.sep.len(); }
                offs.reverse();
                for (m, o) in m2.iter().zip(offs.iter()) { head.push_str(&format!("{} {} ", m.id, o)); }
                let mut d = head.into_bytes();
                first2 = d.len() as i64;
                d.extend_from_slice(&data[first as usize..]);
                data2 = d;
                "offsets-descending"
            }
            5 => {
                let big = [u64::MAX, u64::MAX - 1, u64::MAX - first, u64::MAX - first + 1, 1 << 63][rng.usize(5)];
                let head = format!("1 {} 2 {} ", big, if rng.chance(1, 2) { big } else { 3 });
                let mut d = head.into_bytes();
                first2 = d.len() as i64;
                n2 = 2;
                d.extend_from_slice(b"12 34");
                data2 = d;
                "offset-near-2^64"
            }
            6 => {
                let head = format!("1 {} ", data.len() + rng.usize(5));
                let mut d = head.into_bytes();
                first2 = d.len() as i64;
                n2 = 1;
                d.extend_from_slice(b"77");
                data2 = d;
                "offset-beyond-data"
            }
            7 => { let mut d = b"+1 +0 ".to_vec(); first2 = d.len() as i64; n2 = 1; d.extend_from_slice(b"true"); data2 = d; "plus-signs" }
            8 => { let mut d = b"1 -0 ".to_vec(); first2 = d.len() as i64; n2 = 1; d.extend_from_slice(b"true"); data2 = d; "minus-sign" }
            9 => { let mut d = b"% c\n1 %x\n 0 ".to_vec(); first2 = d.len() as i64; n2 = 1; d.extend_from_slice(b"/N"); data2 = d; "comments-in-header" }
            10 => { data2.truncate(rng.usize(first as usize + 1)); "header-truncated" }
            _ => { n2 = 0; "n-zero" }
        };
        so.count(&format!("damage={}", what));
        let nm = (n2.max(0) as usize).min(8);
        for i in 0..=nm {
            if n2 < 0 || first2 < 0 { continue; }
            cases.push((format!("c11.member {} {} {} {}", n2, first2, hex(&data2), i), real_member(n2, first2, &data2, i), true));
        }
    }
    let reqs: Vec<String> = cases.iter().map(|c| c.0.clone()).collect();
    for ((rq, imp, nt), m) in cases.iter().zip(driver.ask(&reqs).iter()) {
        so.count(&format!("outcome={}", m.split(' ').next().unwrap_or("")));
        so.case(rq, m, imp, *nt);
    }
    rep.streams.push(so);
}

type Stream_ = crate::report::Stream;

// ---------------------------------------------------------------------------------------------------
// file level: twins

struct TwinFile {
    bytes: Vec<u8>,
    /// (kind, direct id, compressed id, position, separator-kind, filter)
    twins: Vec<(&'static str, u64, u64, &'static str, &'static str, StmFilter)>,
    /// (ids of the three storage forms of one stream, data as written, decoded data, flate?)
    streams: Vec<([u64; 3], Vec<u8>, Vec<u8>, bool)>,
    desc: String,
}

fn encode_objstm(data: Vec<u8>, filter: StmFilter) -> (String, Vec<u8>) {
    match filter {
        StmFilter::None => (String::new(), data),
        StmFilter::Flate => ("/Filter /FlateDecode".to_string(), zlib(&data)),
        StmFilter::HexFlate => ("/Filter [/ASCIIHexDecode /FlateDecode]".to_string(), ascii_hex(&zlib(&data))),
    }
}

fn gen_twin_file(rng: &mut Rng, forced: Option<(&'static [u8], &'static str)>) -> TwinFile {
    let mut w = PdfWriter::new(b"", "1.7");
    w.free(0, 0, 65535);
    let mut next_id = 1u64;
    let mut desc = String::new();
    let nvals = if forced.is_some() { 1 } else { 2 + rng.usize(6) };
    let nstreams = if forced.is_some() { 1 } else { rng.usize(3) };
    // values
    let mut vals = vec![];
    for _ in 0..nvals {
        let v = match forced {
            Some((t, k)) => ValText { kind: k, text: t.to_vec() },
            None => match rng.below(1500) {
                0..=44 => { let l = 300 + rng.usize(1500); let mut t = vec![b'(']; t.extend((0..l).map(|_| b"abc xyz012"[rng.usize(10)])); t.push(b')'); ValText { kind: "string", text: t } }
                45 => { let l = 66_000 + rng.usize(3000); let mut t = vec![b'<']; t.extend((0..l * 2).map(|_| b"0123456789ABCDEF"[rng.usize(16)])); t.push(b'>'); ValText { kind: "string", text: t } }
                _ => value_text(rng, 2),
            },
        };
        let d = next_id;
        let c = next_id + 1;
        next_id += 2;
        vals.push((v, d, c));
    }
    // streams: three storage forms of the length
    let mut streams = vec![];
    let mut len_members: Vec<(u64, u64)> = vec![]; // (id, value) compressed length integers
    let mut stream_plan = vec![];
    for _ in 0..nstreams {
        let dl = rng.usize(60);
        let plain: Vec<u8> = if rng.chance(1, 2) { rng.bytes(dl) } else { (0..dl).map(|_| b"endstream\nendobj 0 R>>"[rng.usize(22)]).collect() };
        let flate = rng.chance(1, 3);
        let stored = if flate { zlib(&plain) } else { plain.clone() };
        let ids = [next_id, next_id + 1, next_id + 2];
        let len_direct_id = next_id + 3;
        let len_comp_id = next_id + 4;
        next_id += 5;
        len_members.push((len_comp_id, stored.len() as u64));
        stream_plan.push((ids, len_direct_id, len_comp_id, stored.clone(), flate));
        streams.push((ids, stored, plain, flate));
    }
    // distribute compressed members over 1..3 object streams
    let nstm = 1 + rng.usize(3);
    let mut buckets: Vec<Vec<Member>> = vec![vec![]; nstm];
    for (v, _, c) in &vals {
        let b = rng.usize(nstm);
        buckets[b].push(Member { id: *c, text: v.text.clone(), sep: gen_sep(rng), kind: v.kind });
    }
    for (id, val) in &len_members {
        let b = rng.usize(nstm);
        let at = rng.usize(buckets[b].len() + 1);
        buckets[b].insert(at, Member { id: *id, text: format!("{}", val).into_bytes(), sep: gen_sep(rng), kind: "length" });
    }
    // direct twins, shuffled with the streams
    for (v, d, _) in &vals {
        w.object(*d, 0, &v.text);
    }
    let mut twins = vec![];
    for b in buckets.iter() {
        if b.is_empty() { continue; }
        let stm = next_id;
        next_id += 1;
        let filter = *rng.pick(&[StmFilter::None, StmFilter::Flate, StmFilter::HexFlate]);
        let (n, first, data) = pack(b);
        let (fname, enc) = encode_objstm(data, filter);
        let dict = format!("/Type /ObjStm /N {} /First {} {}", n, first, fname);
        w.object(stm, 0, &stream_body(&dict, &enc));
        for (i, m) in b.iter().enumerate() {
            w.record(m.id, Entry::Compressed { stm, idx: i as u64 });
            let pos = if i == 0 { "first" } else if i + 1 == b.len() { "last" } else { "middle" };
            let sepk = if m.sep.is_empty() { "none" } else { "white-space" };
            if let Some((v, d, _)) = vals.iter().find(|(_, _, c)| *c == m.id) {
                twins.push((v.kind, *d, m.id, pos, sepk, filter));
            }
        }
        desc.push_str(&format!("objstm{}[{}]{:?} ", stm, b.len(), filter));
    }
    for (ids, len_direct_id, len_comp_id, stored, flate) in &stream_plan {
        let f = if *flate { "/Filter /FlateDecode " } else { "" };
        let eol: &[u8] = if rng.chance(1, 3) { b"\r\n" } else { b"\n" };
        w.object(ids[0], 0, &stream_body_len(&format!("{}/Marker 1", f), &format!("{}", stored.len()), stored, eol));
        w.object(ids[1], 0, &stream_body_len(&format!("{}/Marker 1", f), &format!("{} 0 R", len_direct_id), stored, eol));
        w.object(ids[2], 0, &stream_body_len(&format!("{}/Marker 1", f), &format!("{} 0 R", len_comp_id), stored, eol));
        w.object(*len_direct_id, 0, format!("{}", stored.len()).as_bytes());
    }
    let xref_id = next_id;
    next_id += 1;
    w.finish(XrefFormat::Stream, next_id, "", &[], xref_id);
    TwinFile { bytes: w.out.clone(), twins, streams, desc }
}

fn flags_for(kind: &str) -> ParseFlags {
    match kind {
        "integer" => ParseFlags::INTEGER,
        "real" => ParseFlags::NUMBER,
        "name" => ParseFlags::NAME,
        "string" => ParseFlags::STRING,
        "null" => ParseFlags::NULL,
        "bool" => ParseFlags::BOOL,
        "reference" => ParseFlags::REF,
        "array" => ParseFlags::ARRAY,
        _ => ParseFlags::DICT,
    }
}

fn check_twin_file(or: &mut Oracle, tf: &TwinFile, tolerant: bool, replay: Value) {
    let res = catch_unwind(AssertUnwindSafe(|| {
        let opts = if tolerant { ParseOptions::tolerant() } else { ParseOptions::strict() };
        let mut storage = Storage::with_cache(tf.bytes.clone(), opts, NoCache, NoCache, NoLog).map_err(|e| format!("with_cache: {}", e))?;
        storage.load_storage_and_trailer().map_err(|e| format!("load: {}", e))?;
        let resolver = storage.resolver();
        let mut bad: Vec<(String, String)> = vec![];
        let mut hist: Vec<String> = vec![format!("options={}", if tolerant { "tolerant" } else { "strict" })];
        for (kind, d, c, pos, sepk, filter) in &tf.twins {
            hist.push(format!("kind={}", kind));
            hist.push(format!("position={}", pos));
            hist.push(format!("separator={}", sepk));
            hist.push(format!("filter={:?}", filter));
            let rd = resolver.resolve(PlainRef { id: *d, gen: 0 });
            let rc = resolver.resolve(PlainRef { id: *c, gen: 0 });
            let (a, b) = (canon_result(&rd, &resolver), canon_result(&rc, &resolver));
            // an object whose value is a reference is followed by `resolve` (repair of D32): the outcome is that
            // of the target, which for a planted reference may legitimately be "no such object" — for both twins
            if *kind == "reference" {
                if a != b {
                    bad.push((format!("twin-differs:{}", kind), format!("{} stored directly ({}) reads {}, stored in an object stream ({}) reads {}", kind, d, trunc(&a), c, trunc(&b))));
                }
            } else if rd.is_err() && rc.is_err() {
                bad.push((format!("both-unreadable:{}", kind), format!("a conformant {} is readable neither as object {} nor as member {} ({}, {})", kind, d, c, a, b)));
            } else if a != b {
                bad.push((format!("twin-differs:{}", kind), format!("{} stored directly ({}) reads {}, stored in an object stream ({}, {} member, separator {}, filter {:?}) reads {}", kind, d, trunc(&a), c, pos, sepk, filter, trunc(&b))));
            }
            // restricted flags: the kind's own flag, and a foreign one
            for fl in [flags_for(kind), if *kind == "integer" { ParseFlags::NAME } else { ParseFlags::INTEGER }] {
                let fd = resolver.resolve_flags(PlainRef { id: *d, gen: 0 }, fl, 1);
                let fc = resolver.resolve_flags(PlainRef { id: *c, gen: 0 }, fl, 1);
                let (a, b) = (canon_result(&fd, &resolver), canon_result(&fc, &resolver));
                let same = match (&fd, &fc) { (Err(_), Err(_)) => true, _ => a == b };
                if !same {
                    bad.push((format!("twin-differs-flags:{}", kind), format!("{} requested with flags {:?}: direct {} reads {}, compressed {} reads {}", kind, fl, d, trunc(&a), c, trunc(&b))));
                }
                if fl == flags_for(kind) && fd.is_err() && *kind != "reference" {
                    bad.push((format!("flags-refused:{}", kind), format!("{} {} refused with its own flag {:?}", kind, d, fl)));
                }
            }
        }
        for (ids, stored, plain, flate) in &tf.streams {
            let how = ["direct", "indirect-direct", "indirect-compressed"];
            for (k, id) in ids.iter().enumerate() {
                hist.push(format!("length={}", how[k]));
                match resolver.resolve(PlainRef { id: *id, gen: 0 }) {
                    Ok(Primitive::Stream(s)) => {
                        match s.raw_data(&resolver) {
                            Ok(d) if &*d == &stored[..] => {}
                            Ok(d) => bad.push((format!("length-twin:{}", how[k]), format!("stream {} (/Length {}) delivers {} raw bytes, {} were written", id, how[k], d.len(), stored.len()))),
                            Err(e) => bad.push((format!("length-twin:{}", how[k]), format!("stream {} (/Length {}): raw data unreadable: {}", id, how[k], err_kind(&e)))),
                        }
                        match Stream::<()>::from_stream(s.clone(), &resolver).and_then(|st| st.data(&resolver)) {
                            Ok(d) if &*d == &plain[..] => {}
                            Ok(d) => bad.push((format!("length-twin-decoded:{}", how[k]), format!("stream {} (/Length {}, flate {}) decodes to {} bytes, expected {}", id, how[k], flate, d.len(), plain.len()))),
                            Err(e) => bad.push((format!("length-twin-decoded:{}", how[k]), format!("stream {} (/Length {}): data unreadable: {}", id, how[k], err_kind(&e)))),
                        }
                    }
                    Ok(p) => bad.push((format!("length-twin:{}", how[k]), format!("stream {} (/Length {}) reads as {}", id, how[k], trunc(&canon(&p, &resolver))))),
                    Err(e) => bad.push((format!("length-twin:{}", how[k]), format!("stream {} whose /Length is {} does not read: {}", id, how[k], err_kind(&e)))),
                }
            }
        }
        Ok::<_, String>((bad, hist))
    }));
    match res {
        Ok(Ok((bad, hist))) => {
            for h in hist { or.count(&h); }
            or.case(&hex(&tf.bytes[..tf.bytes.len().min(4000)]), true, || json!({"doc": tf.desc, "twins": tf.twins.len(), "streams": tf.streams.len()}));
            let mut seen = std::collections::BTreeSet::new();
            for (sig, what) in bad {
                if seen.insert(sig.clone()) { or.fail(&sig, &what, replay.clone()); }
            }
        }
        Ok(Err(e)) => { or.case(&tf.desc, true, || json!({"doc": tf.desc})); or.fail("twin-file-unloadable", &format!("a well-formed generated file does not load: {}", e), replay); }
        Err(_) => { or.case(&tf.desc, true, || json!({"doc": tf.desc})); or.fail("panic", "panic while reading a well-formed generated file", replay); }
    }
}

fn twin_oracle(seed: u64, thorough: bool, rep: &mut Report, only: Option<&Value>) {
    let mut or = Oracle::new("c11.twins");
    // deterministic regression witnesses: D6 (an integer that ends its slice), D42 (compressed /Length),
    // every kind as a single member without anything behind it
    const W: &[(&[u8], &str)] = &[(b"7", "integer"), (b"-12", "integer"), (b"3.5", "real"), (b"/Name", "name"), (b"(s)", "string"), (b"<4142>", "string"), (b"null", "null"), (b"true", "bool"), (b"4 0 R", "reference"), (b"[1 2]", "array"), (b"[1 2 3 4]", "array"), (b"<< /A 1 >>", "dict")];
    for (k, (t, kind)) in W.iter().enumerate() {
        if let Some(r) = only { if r["stream"] != "c11.witness" || r["case"].as_u64() != Some(k as u64) { continue; } }
        let mut rng = Rng::derive(7, "c11.witness", k as u64);
        let tf = gen_twin_file(&mut rng, Some((t, kind)));
        for tolerant in [false, true] {
            check_twin_file(&mut or, &tf, tolerant, json!({"stream": "c11.witness", "case": k, "tolerant": tolerant, "file_hex": hex(&tf.bytes), "doc": tf.desc}));
        }
    }
    let (from, to) = match only {
        Some(r) if r["stream"] == "c11.twins" => { let c = r["case"].as_u64().unwrap_or(0); (c, c + 1) }
        Some(_) => (0, 0),
        None => (0, if thorough { 60_000 } else { 5000 }),
    };
    for case in from..to {
        let mut rng = Rng::derive(seed, "c11.twins", case);
        let tf = gen_twin_file(&mut rng, None);
        let tolerant = case % 2 == 1;
        check_twin_file(&mut or, &tf, tolerant, json!({"stream": "c11.twins", "seed": seed, "case": case, "tolerant": tolerant, "file_hex": hex(&tf.bytes), "doc": tf.desc}));
    }
    rep.oracles.push(or);
}

/// the encrypted twin files: oracle = the plaintext for BOTH storage forms; correspondence = the member slices
/// through the value parser *without* a decryption context (Model/Parser.lean, `c03.parse plain`) against what the
/// library resolves for the compressed object of the encrypted document
fn crypt_twins(driver: &Driver, seed: u64, thorough: bool, rep: &mut Report, only: Option<&Value>) {
    let mut or = Oracle::new("c11.twins.encrypted");
    let mut st = Stream_::new("c11.crypt.member", true);
    let (from, to) = match only {
        Some(r) if r["stream"] == "c11.twins.encrypted" => { let c = r["case"].as_u64().unwrap_or(0); (c, c + 1) }
        Some(_) => (0, 0),
        None => (0, if thorough { 20_000 } else { 1500 }),
    };
    let mut reqs: Vec<(String, String)> = vec![];
    for case in from..to {
        let mut rng = Rng::derive(seed, "c11.twins.encrypted", case);
        let tf = crypt::build(&mut rng);
        let tolerant = rng.chance(1, 2);
        let owner = rng.chance(1, 3);
        let replay = json!({"stream": "c11.twins.encrypted", "seed": seed, "case": case, "variant": tf.variant, "tolerant": tolerant, "owner_password": owner, "file_hex": hex(&tf.bytes), "doc": tf.desc});
        let res = catch_unwind(AssertUnwindSafe(|| {
            let opts = if tolerant { ParseOptions::tolerant() } else { ParseOptions::strict() };
            let mut storage = Storage::with_cache(tf.bytes.clone(), opts, NoCache, NoCache, NoLog).map_err(|e| format!("with_cache: {}", e))?;
            storage.load_storage_and_trailer_password(if owner { &tf.owner_pw } else { &tf.user_pw }).map_err(|e| format!("load: {}", e))?;
            let resolver = storage.resolver();
            let mut bad: Vec<(String, String)> = vec![];
            let mut corr: Vec<(u64, String)> = vec![];
            for t in &tf.twins {
                let want = crypt::canon_pv(&t.plain);
                let rd = resolver.resolve(PlainRef { id: t.direct.0, gen: t.direct.1 });
                let rc = resolver.resolve(PlainRef { id: t.compressed, gen: 0 });
                let (a, b) = (canon_result(&rd, &resolver), canon_result(&rc, &resolver));
                if a != want {
                    bad.push((format!("encrypted-direct:{}", t.kind), format!("{}: {} stored as object {} {} of an encrypted document reads {}, the plaintext is {}", tf.variant, t.kind, t.direct.0, t.direct.1, trunc(&a), trunc(&want))));
                }
                if b != want {
                    bad.push((format!("encrypted-compressed:{}", t.kind), format!("{}: {} stored in an object stream ({}, {} member, separator {}, filter {:?}) of an encrypted document reads {}, the plaintext is {}", tf.variant, t.kind, t.compressed, t.position, t.separator, t.filter, trunc(&b), trunc(&want))));
                }
                if let Ok(p) = &rc {
                    let tr = crate::c03::TestResolve::new(&vec![], false);
                    corr.push((t.compressed, format!("ok {}", crate::c03::render::show_canon(&crate::c03::prim_to_val(p, &tr)))));
                } else {
                    corr.push((t.compressed, "err".to_string()));
                }
            }
            for (ids, plain, flate) in &tf.streams {
                let how = ["direct", "indirect-direct", "indirect-compressed"];
                for (k, id) in ids.iter().enumerate() {
                    match resolver.resolve(PlainRef { id: *id, gen: 0 }) {
                        Ok(Primitive::Stream(s)) => match Stream::<()>::from_stream(s.clone(), &resolver).and_then(|x| x.data(&resolver)) {
                            Ok(d) if &*d == &plain[..] => {}
                            Ok(d) => bad.push((format!("encrypted-length-twin:{}", how[k]), format!("{}: stream {} (/Length {}, flate {}) decodes to {} bytes, the plaintext has {}", tf.variant, id, how[k], flate, d.len(), plain.len()))),
                            Err(e) => bad.push((format!("encrypted-length-twin:{}", how[k]), format!("{}: stream {} (/Length {}): data unreadable: {}", tf.variant, id, how[k], err_kind(&e)))),
                        },
                        Ok(p) => bad.push((format!("encrypted-length-twin:{}", how[k]), format!("stream {} reads as {}", id, trunc(&canon(&p, &resolver))))),
                        Err(e) => bad.push((format!("encrypted-length-twin:{}", how[k]), format!("{}: stream {} whose /Length is {} does not read: {}", tf.variant, id, how[k], err_kind(&e)))),
                    }
                }
            }
            Ok::<_, String>((bad, corr))
        }));
        or.count(&format!("variant={}", tf.variant));
        or.count(&format!("options={}", if tolerant { "tolerant" } else { "strict" }));
        or.count(&format!("password={}", if owner { "owner" } else { "user" }));
        for t in &tf.twins {
            or.count(&format!("kind={}", t.kind));
            or.count(&format!("position={}", t.position));
            or.count(&format!("filter={:?}", t.filter));
        }
        or.case(&format!("{}", case), true, || json!({"doc": tf.desc, "twins": tf.twins.len(), "streams": tf.streams.len()}));
        match res {
            Ok(Ok((bad, corr))) => {
                let mut seen = std::collections::BTreeSet::new();
                for (sig, what) in bad { if seen.insert(sig.clone()) { or.fail(&sig, &what, replay.clone()); } }
                for (cid, imp) in corr {
                    if let Some((_, sl)) = tf.slices.iter().find(|x| x.0 == cid) {
                        if sl.len() <= 4000 { reqs.push((crate::c03::parse_request("plain", sl, 0, 1023, 0, &vec![], None), imp)); }
                    }
                }
            }
            Ok(Err(e)) => or.fail("encrypted-twin-file-unloadable", &format!("{}: a well-formed encrypted document does not open with its {} password: {}", tf.variant, if owner { "owner" } else { "user" }, e), replay),
            Err(_) => or.fail("panic", "panic while reading a well-formed encrypted document", replay),
        }
    }
    let rq: Vec<String> = reqs.iter().map(|c| c.0.clone()).collect();
    for ((r, imp), m) in reqs.iter().zip(driver.ask(&rq).iter()) {
        // the model answers `ok <value> <cursor>`; the implementation side has the value only
        let mm = crate::c03::canon_parse_answer("plain", m);
        let mv = match mm.rsplit_once(' ') { Some((v, _)) if mm.starts_with("ok ") => v.to_string(), _ => mm.clone() };
        st.count(&format!("outcome={}", mv.split(' ').next().unwrap_or("")));
        st.case(r, &mv, imp, true);
    }
    rep.oracles.push(or);
    rep.streams.push(st);
}

pub fn run(driver: &Driver, seed: u64, thorough: bool, replay: Option<&Value>) -> Report {
    let mut rep = Report::new("C11");
    if let Some(r) = replay {
        let seed = r["seed"].as_u64().unwrap_or(seed);
        let s = r["stream"].as_str().unwrap_or("");
        if s == "c11.twins.encrypted" {
            crypt_twins(driver, seed, thorough, &mut rep, Some(r));
        } else if s == "c11.twins" || s == "c11.witness" {
            twin_oracle(seed, thorough, &mut rep, Some(r));
        } else if s == "c11.member" {
            member_streams(driver, seed, thorough, &mut rep, r["case"].as_u64());
        } else {
            member_streams(driver, seed, thorough, &mut rep, None);
            crate::c17::load_streams(driver, seed, thorough, &mut rep);
        }
        return rep;
    }
    member_streams(driver, seed, thorough, &mut rep, None);
    crate::c17::load_streams(driver, seed, thorough, &mut rep);
    twin_oracle(seed, thorough, &mut rep, None);
    crypt_twins(driver, seed, thorough, &mut rep, None);
    rep
}
