//! Generates `$OUT_DIR/typed_registry.rs` (C15 / C18): the list of `#[derive(Object)]` models of the
//! repository under test as Rust types, so that the harness can instantiate its generic readers / writers at
//! every one of them. Produced by the same translator that writes `lean/PdfModel/Generated/Schemas.lean`
//! (src/extract.rs), from the same tree the `pdf` path dependency is compiled from (`../repo`).

#[path = "src/extract.rs"]
#[allow(dead_code)]
mod extract;

/// the probes of the compiled crate live in the harness binary (src/c15_probe.rs); a build script has no crate to probe
mod registry {
    pub mod c15 {
        pub mod probe {
            pub fn run(_: &crate::extract::Extracted) -> crate::extract::Probed {
                Default::default()
            }
        }
    }
}

fn main() {
    let manifest = std::env::var("CARGO_MANIFEST_DIR").unwrap();
    let repo = format!("{}/../repo", manifest);
    println!("cargo:rerun-if-changed=build.rs");
    println!("cargo:rerun-if-changed=src/extract.rs");
    println!("cargo:rerun-if-changed={}/pdf/src", repo);
    let ex = extract::extract(&repo);
    let out = std::path::Path::new(&std::env::var("OUT_DIR").unwrap()).join("typed_registry.rs");
    extract::write_if_changed(&out, &extract::rust_registry(&ex)).expect("write typed_registry.rs");
    for p in &ex.problems {
        // not fatal here: `pdfverif extract` reports them (exit 1) and ./check turns that into a verdict
        println!("cargo:warning=extract: {}", p);
    }
}
