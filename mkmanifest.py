#!/usr/bin/env python3
"""Regenerates MANIFEST.json from claims.json (one entry per claimed property) and properties.jsonl.
Properties without an entry in claims.json are listed under not_applicable with the reason given in
unclaimed.json (or a default)."""
import json, os
root = os.path.dirname(os.path.abspath(__file__))
claims = {f[:-5]: json.load(open(os.path.join(root, "claims", f))) for f in sorted(os.listdir(os.path.join(root, "claims"))) if f.endswith(".json")}
unclaimed = {}
p = os.path.join(root, "unclaimed.json")
if os.path.exists(p):
    unclaimed = json.load(open(p))
props = [json.loads(l) for l in open(os.path.join(root, "properties.jsonl"))]
checks, na = [], []
for pr in props:
    pid = pr["id"]
    if pid in claims:
        c = claims[pid]
        checks.append({
            "property_id": pid,
            "quick_cmd": f"./check {pid} --tier quick",
            "thorough_cmd": f"./check {pid} --tier thorough",
            "evidence_file": f"/verif/evidence/{pid}.json",
            "replay_cmd_template": f"./check {pid} --replay {{path}}",
            "engine": "lean4-proof+correspondence",
            "level_claimed": {"category": c.get("category", "proof"), "text": c["text"], "design_ref": c.get("design_ref", "DESIGN.md §3")},
            "level_note": c["note"],
            "technique": c["technique"],
        })
    else:
        na.append({"property_id": pid, "reason": unclaimed.get(pid, "not claimed yet: the Lean model, theorems and correspondence for this property are still being built (see DESIGN.md §3/§7); no other technique is substituted")})
man = {
    "version": 1,
    "setup_cmd": "./setup.sh",
    "hooks": {
        "guard": "pdf_rs_pdf_verif",
        "enable": "RUSTFLAGS=\"--cfg pdf_rs_pdf_verif\" (set in /verif/harness/.cargo/config.toml; the harness compiles /repo/pdf as a path dependency)",
        "baseline_off_cmd": "cd /repo && cargo test --workspace --no-fail-fast --offline",
        "source_commits": [(h["commit"] if isinstance(h, dict) else h) for h in json.load(open(os.path.join(root, "hooks.json")))] if os.path.exists(os.path.join(root, "hooks.json")) else [],
        "add_only": True,
    },
    "engines": [{
        "name": "lean4-proof+correspondence",
        "path": "/verif/check",
        "serves_properties": [c["property_id"] for c in checks],
        "kind_free_text": "Lean 4 model + kernel-checked theorems (lean/), Rust harness running the real library against the model driver and against per-property oracles (harness/), python entry point (check)",
    }],
    "checks": checks,
    "not_applicable": na,
    "notes": "All checks: ./check <id> --tier quick|thorough. Known findings: known_findings.json. Design: DESIGN.md.",
}
json.dump(man, open(os.path.join(root, "MANIFEST.json"), "w"), indent=1)
print("claimed", len(checks), "unclaimed", len(na))
