import subprocess, sys, json, os, re
REPO='/tmp/ws-w9c/repo'; VERIF='/tmp/ws-w9c/verif'
def sh(cmd, cwd=None):
    p=subprocess.run(cmd, cwd=cwd, shell=True, stdout=subprocess.PIPE, stderr=subprocess.STDOUT, text=True)
    return p.returncode, p.stdout
muts = {
 'C-M1-scan-lexer-offset-0': ('pdf/src/file.rs', 'let mut lexer = Lexer::with_offset(slice, start_offset);', 'let mut lexer = Lexer::with_offset(slice, 0);', ['C17']),
 'C-M2-scan-startxref-not-skipped': ('pdf/src/file.rs', 'b"startxref" if lexer.next().is_ok() => {', 'b"startxref" if false => {', ['C17']),
 'C-M3-scan-skip-xref-stops-at-size': ('pdf/src/file.rs', 'while lexer.next()? != "trailer" {', 'while lexer.next()? != "f" {', ['C17']),
 'C-M4-table-f-n-swapped': ('pdf/src/parser/parse_xref.rs', 'if w3 == "f" {', 'if w3 == "n" && false || w3 == "ff" {', ['C17']),
 'C-M5-section-no-back': ('pdf/src/parser/parse_xref.rs', '        lexer.back()?;\n', '        // lexer.back()?;\n', ['C17']),
 'C-M6-prev-of-stream-section-ignored': ('pdf/src/parser/parse_xref.rs', 'for (first_id, num_objects) in index.chunks_exact(2).map(|c| (c[0], c[1])) {', 'for (first_id, num_objects) in index.chunks_exact(2).map(|c| (c[0] + 1, c[1])) {', ['C17']),
 'C-R1-preserving-skip-xref': ('pdf/src/file.rs', '            while lexer.next()? != "trailer" {\n\n            }\n            Ok(())', '            loop {\n                if lexer.next()? == "trailer" {\n                    return Ok(());\n                }\n            }', ['C17']),
}
only = sys.argv[1:]
for name,(f,old,new,props) in muts.items():
    if only and name not in only: continue
    path=os.path.join(REPO,f)
    src=open(path).read()
    if old not in src:
        print(name,'PATTERN NOT FOUND'); continue
    open(path,'w').write(src.replace(old,new,1))
    for p in props:
        rc,out=sh(f'./check {p} --tier quick', cwd=VERIF)
        lines=[l for l in out.splitlines() if l.startswith(('VIOLATION','OK','KNOWN','ERROR'))]
        detail=''
        m=re.search(r'replay=(\S+)', out)
        if m and os.path.exists(m.group(1)):
            j=json.load(open(m.group(1)))
            detail=(j.get('what') or str(j.get('disagreement',''))[:300] or str(j.get('obligations_broken',''))[:200])
            if 'signature' in j: detail=j['signature']+': '+j.get('what','')[:200]
            if 'stream' in j: detail=j['stream']+': '+detail
        print(f'{name} [{p}] exit={rc} :: {lines[:1]} :: {detail[:260]}')
        sys.stdout.flush()
    sh('git checkout -- .', cwd=REPO)
