import subprocess, sys, json, os, re
REPO='/tmp/ws-w9b/repo'; VERIF='/tmp/ws-w9b/verif'
def sh(cmd, cwd=None):
    p=subprocess.run(cmd, cwd=cwd, shell=True, stdout=subprocess.PIPE, stderr=subprocess.STDOUT, text=True)
    return p.returncode, p.stdout
muts = {
 'B-M1-substr-forgets-offset': ('pdf/src/parser/lexer/mod.rs', 'file_offset: self.file_offset + range.start,\n            slice: &self.buf[range],', 'file_offset: range.start,\n            slice: &self.buf[range],', ['C17']),
 'B-M2-eof-lookahead-is-error': ('pdf/src/parser/mod.rs', 'let second_lexeme = lexer.next().ok().filter(|l| l.is_integer());', 'let second_lexeme = Some(lexer.next()?).filter(|l| l.is_integer());', ['C11']),
 'B-M3-offset-counted-twice': ('pdf/src/parser/mod.rs', 'file_range: stream_substr.file_range(),', 'file_range: { let r = stream_substr.file_range(); r.start + lexer.get_pos().min(0) .. r.end },', ['C17']),
 'B-M4-comment-ends-only-at-lf': ('pdf/src/parser/lexer/mod.rs', "position(|&b| b == b'\\n' || b == b'\\r')", "position(|&b| b == b'\\n')", ['C17']),
 'B-M5-resolve-ref-offset-wrong': ('pdf/src/file.rs', 'let mut lexer = Lexer::with_offset(t!(self.backend.read(pos ..)), pos);', 'let mut lexer = Lexer::with_offset(t!(self.backend.read(pos ..)), pos + 1);', ['C17']),
}
only = sys.argv[1:]
for name,(f,old,new,props) in muts.items():
    if only and name not in only: continue
    path=os.path.join(REPO,f)
    src=open(path).read()
    if old not in src:
        print(name,'PATTERN NOT FOUND'); continue
    open(path,'w').write(src.replace(old,new,1))
    for p in props:
        rc,out=sh(f'./check {p} --tier quick', cwd=VERIF)
        lines=[l for l in out.splitlines() if l.startswith(('VIOLATION','OK','KNOWN','ERROR'))]
        detail=''
        m=re.search(r'replay=(\S+)', out)
        if m and os.path.exists(m.group(1)):
            j=json.load(open(m.group(1)))
            detail=(j.get('what') or str(j.get('disagreement',''))[:300] or str(j.get('obligations_broken',''))[:200])
            if 'signature' in j: detail=j['signature']+': '+j.get('what','')[:200]
        print(f'{name} [{p}] exit={rc} :: {lines[:2]} :: {detail[:300]}')
        sys.stdout.flush()
    sh('git checkout -- .', cwd=REPO)
