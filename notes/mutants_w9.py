import subprocess, sys, json, os, re
REPO='/tmp/ws-w9/repo'; VERIF='/tmp/ws-w9/verif'
def sh(cmd, cwd=None):
    p=subprocess.run(cmd, cwd=cwd, shell=True, stdout=subprocess.PIPE, stderr=subprocess.STDOUT, text=True)
    return p.returncode, p.stdout
muts = {
 # name: (file, old, new, props)
 'C17-M1-window-1023': ('pdf/src/backend.rs', 'std::cmp::min(1024, self.len())', 'std::cmp::min(1023, self.len())', ['C17']),
 'C17-M2-prev-forgets-start': ('pdf/src/backend.rs', 'let pos = t!(start_offset.checked_add(prev_xref_offset).ok_or(PdfError::Invalid));', 'let pos = prev_xref_offset;', ['C17']),
 'C17-M3-lexer-offset-relative': ('pdf/src/file.rs', 'let mut lexer = Lexer::with_offset(t!(self.backend.read(pos ..)), pos);', 'let mut lexer = Lexer::with_offset(t!(self.backend.read(pos ..)), pos - self.start_offset);', ['C17']),
 'C17-M4-scan-lexer-offset-0': ('pdf/src/file.rs', 'let mut lexer = Lexer::with_offset(slice, start_offset);', 'let mut lexer = Lexer::with_offset(slice, 0);', ['C17']),
 'C17-M5-scan-end-absolute': ('pdf/src/file.rs', '.and_then(|end| self.backend.read(start_offset .. end));', '.and_then(|end| self.backend.read(start_offset .. end - start_offset));', ['C17']),
 'C17-M6-startxref-first-occurrence': ('pdf/src/parser/lexer/mod.rs', 'match self.buf[.. end].windows(substr.len()).rposition(|w| w == substr) {', 'match self.buf[.. end].windows(substr.len()).position(|w| w == substr) {', ['C17']),
 'C17-M7-startxref-bound-ge': ('pdf/src/backend.rs', 'if pos >= self.len() {\n            bail!("XRef offset outside file bounds");', 'if pos > self.len() + 1 {\n            bail!("XRef offset outside file bounds");', ['C17']),
 'C17-M8-version-absolute': ('pdf/src/file.rs', 'self.backend.read(self.start_offset+1..self.start_offset+8)', 'self.backend.read(1..8)', ['C17']),
 'C17-M9-wrapping-add': ('pdf/src/file.rs', 'let pos = t!(self.start_offset.checked_add(pos).ok_or(PdfError::Invalid));', 'let pos = self.start_offset.wrapping_add(pos);', ['C17']),
 'C17-R1-preserving-rewrite': ('pdf/src/backend.rs', '''        buf
            .windows(HEADER.len())
            .position(|window| window == HEADER)
            .ok_or_else(|| PdfError::Other{ msg: "file header is missing".to_string() })''', '''        let mut i = 0;
        while i + HEADER.len() <= buf.len() {
            if &buf[i .. i + HEADER.len()] == HEADER {
                return Ok(i);
            }
            i += 1;
        }
        Err(PdfError::Other{ msg: "file header is missing".to_string() })''', ['C17']),
 'C11-N1-slice-end-off-by-one': ('pdf/src/object/stream.rs', 'first.checked_add(self.offsets[index + 1]).ok_or(PdfError::Invalid)?\n', 'first.checked_add(self.offsets[index + 1]).ok_or(PdfError::Invalid)? - 1\n', ['C11']),
 'C11-N2-stream-gate-back': ('pdf/src/file.rs', '                    // use get to cache the object stream\n', '                    if !flags.contains(ParseFlags::STREAM) {\n                        return Err(PdfError::PrimitiveNotAllowed { found: ParseFlags::STREAM, allowed: flags });\n                    }\n', ['C11','C17']),
 'C11-N3-last-member-flipped': ('pdf/src/object/stream.rs', 'let end = if index == self.offsets.len() - 1 {', 'let end = if index >= self.offsets.len() - 2 {', ['C11']),
 'C11-N4-forgets-first': ('pdf/src/object/stream.rs', 'let start = first.checked_add(self.offsets[index]).ok_or(PdfError::Invalid)?;', 'let start = self.offsets[index];', ['C11']),
 'C11-N5-length-plus-one': ('pdf/src/parser/mod.rs', 'Some(&Primitive::Reference(reference)) => t!(t!(r.resolve_flags(reference, ParseFlags::INTEGER, 1)).as_usize()),', 'Some(&Primitive::Reference(reference)) => t!(t!(r.resolve_flags(reference, ParseFlags::INTEGER, 1)).as_usize()) + 1,', ['C11']),
 'C11-N6-header-offset-as-u32': ('pdf/src/object/stream.rs', 'let offset = lexer.next()?.to::<usize>()?;', 'let offset = lexer.next()?.to::<u8>()? as usize;', ['C11']),
 'C11-N7-header-offset-as-u16': ('pdf/src/object/stream.rs', 'let offset = lexer.next()?.to::<usize>()?;', 'let offset = lexer.next()?.to::<u16>()? as usize;', ['C11']),
 'C11-R1-preserving-rewrite': ('pdf/src/object/stream.rs', '''        let end = if index == self.offsets.len() - 1 {
            data.len()
        } else {
            first.checked_add(self.offsets[index + 1]).ok_or(PdfError::Invalid)?
        };''', '''        let end = match self.offsets.get(index + 1) {
            None => data.len(),
            Some(&next) => first.checked_add(next).ok_or(PdfError::Invalid)?,
        };''', ['C11']),
}
only = sys.argv[1:]
res = {}
for name,(f,old,new,props) in muts.items():
    if only and name not in only: continue
    path=os.path.join(REPO,f)
    src=open(path).read()
    if old not in src:
        print(name,'PATTERN NOT FOUND'); continue
    open(path,'w').write(src.replace(old,new,1))
    for p in props:
        rc,out=sh(f'./check {p} --tier quick', cwd=VERIF)
        lines=[l for l in out.splitlines() if l.startswith(('VIOLATION','OK','KNOWN','ERROR'))]
        detail=''
        m=re.search(r'replay=(\S+)', out)
        if m and os.path.exists(m.group(1)):
            j=json.load(open(m.group(1)))
            detail=(j.get('what') or j.get('signature') or str(j.get('disagreement',''))[:200] or str(j.get('obligations_broken',''))[:200])
            if 'signature' in j: detail=j['signature']+': '+j.get('what','')[:200]
        print(f'{name} [{p}] exit={rc} :: {lines[:2]} :: {detail[:300]}')
        sys.stdout.flush()
    sh('git checkout -- .', cwd=REPO)
