import subprocess, sys, json, os, re
REPO='/tmp/ws-w9d/repo'; VERIF='/tmp/ws-w9d/verif'
def sh(cmd, cwd=None):
    p=subprocess.run(cmd, cwd=cwd, shell=True, stdout=subprocess.PIPE, stderr=subprocess.STDOUT, text=True)
    return p.returncode, p.stdout
muts = {
 'D-M1-member-parsed-with-decryption-context': ('pdf/src/file.rs', '                    parse(slice, resolve, flags)\n',
   '                    let ctx = crate::parser::Context { decoder: self.decoder.as_ref(), id: r };\n                    crate::parser::parse_with_lexer_ctx(&mut Lexer::new(slice), resolve, Some(&ctx), flags, 20)\n', ['C11']),
 'D-M2-member-context-of-the-container': ('pdf/src/file.rs', '                    parse(slice, resolve, flags)\n',
   '                    let ctx = crate::parser::Context { decoder: self.decoder.as_ref(), id: PlainRef { id: stream_id, gen: 0 } };\n                    crate::parser::parse_with_lexer_ctx(&mut Lexer::new(slice), resolve, Some(&ctx), flags, 20)\n', ['C11']),
 'D-M3-direct-object-not-decrypted': ('pdf/src/file.rs', 'let p = t!(parse_indirect_object(&mut lexer, resolve, self.decoder.as_ref(), flags)).1;', 'let p = t!(parse_indirect_object(&mut lexer, resolve, None, flags)).1;', ['C11']),
 'D-M4-tolerant-only-compressed-gate': ('pdf/src/file.rs', '                    let obj_stream = resolve.get::<ObjectStream>(Ref::from_id(stream_id))?;\n',
   '                    if self.options.allow_missing_endobj && !flags.contains(ParseFlags::STREAM) { return Err(PdfError::Reference); }\n                    let obj_stream = resolve.get::<ObjectStream>(Ref::from_id(stream_id))?;\n', ['C11']),
 'D-R1-preserving-rewrite': ('pdf/src/file.rs', '                    parse(slice, resolve, flags)\n', '                    crate::parser::parse_with_lexer(&mut Lexer::new(slice), resolve, flags)\n', ['C11']),
}
only = sys.argv[1:]
for name,(f,old,new,props) in muts.items():
    if only and name not in only: continue
    path=os.path.join(REPO,f)
    src=open(path).read()
    if old not in src:
        print(name,'PATTERN NOT FOUND'); continue
    open(path,'w').write(src.replace(old,new,1))
    for p in props:
        rc,out=sh(f'./check {p} --tier quick', cwd=VERIF)
        lines=[l for l in out.splitlines() if l.startswith(('VIOLATION','OK','KNOWN','ERROR'))]
        if not lines: lines=[out[-400:]]
        detail=''
        m=re.search(r'replay=(\S+)', out)
        if m and os.path.exists(m.group(1)):
            j=json.load(open(m.group(1)))
            detail=(j.get('what') or str(j.get('disagreement',''))[:300] or str(j.get('obligations_broken',''))[:200])
            if 'signature' in j: detail=j['signature']+': '+j.get('what','')[:260]
        print(f'{name} [{p}] exit={rc} :: {lines[:1]} :: {detail[:360]}')
        sys.stdout.flush()
    sh('git checkout -- .', cwd=REPO)
