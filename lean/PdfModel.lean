import PdfModel.Core.Out
import PdfModel.Core.Proto
import PdfModel.Model.Xref
import PdfModel.Lemmas.Xref
import PdfModel.Props.C02
import PdfModel.Drv.C02
