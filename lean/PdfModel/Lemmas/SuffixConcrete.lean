import PdfModel.Model.OffsetsConcrete
import PdfModel.Lemmas.SuffixMember
import PdfModel.Lemmas.ShiftIndirect
import PdfModel.Lemmas.Offsets

/-!
  The token-level parsers of `Model/Offsets.lean` instantiated with the concrete lexer / parser models
  (`Model/Lexer.lean`, `Model/StrLexer.lean`, `Model/Parser.lean`).

  What stays a parameter is third-party or not modelled at byte level anywhere in the framework:
  `env.parseReal` (`f32::from_str`), `env.resolveLen` (the resolver seen from inside `parse_stream_object`),
  `dec` (the filter chain of an object stream: zlib, …), `X` (the cross-reference section reader:
  `read_xref_and_trailer_at`) and `S` (the item loop of `Storage::scan`).
-/

namespace Offsets
open PdfLex PdfShift

variable {R : Type}

/-! ### the direct-object read in its real call shape -/

/-- **Reading a direct object under a prefix, concrete parser.** Whatever is written at the offset —
    conformant or not — the prefixed file yields the same value, every stream range (nested ones too)
    `p.length` further on; errors and panics correspond. -/
theorem readObjectAt_prefix (env : Env R) (fuel : Nat) (p f : OffLex.Bytes) (s off flags : Nat) (hfit : Fits p f) :
    readObjectAt env fuel (p ++ f) (p.length + s) off flags
      = omap (shiftR p.length) (readObjectAt env fuel f s off flags) := by
  unfold readObjectAt
  rw [suffixAt_append p f s off hfit]
  cases suffixAt f s off with
  | ok qs =>
    obtain ⟨q, sfx⟩ := qs
    simp only
    have e : ({ env with fileOffset := p.length + q } : Env R) = ({ env with fileOffset := q } : Env R).shiftOffset p.length := by
      simp [Env.shiftOffset, Nat.add_comm]
    rw [e, parseIndirectObject_offset]
    cases parseIndirectObject { env with fileOffset := q } sfx.toArray fuel 0 flags <;> rfl
  | err => rfl
  | panic => rfl
  | oof => rfl

/-! ### `locate_xref_offset` on the concrete lexer -/

theorem locateXrefC_append (p f : OffLex.Bytes) (k : Nat)
    (hk : OffLex.findLast startxrefKw (f.take (f.length - 1)) = some k) :
    locateXrefC (p ++ f) = locateXrefC f := by
  have hne : f ≠ [] := by rintro rfl; simp [OffLex.findLast] at hk
  have hlen : 1 ≤ f.length := by cases f <;> simp_all
  have htake : (p ++ f).take ((p ++ f).length - 1) = p ++ f.take (f.length - 1) := by
    rw [List.take_append]
    have : p.take ((p ++ f).length - 1) = p := by apply List.take_of_length_le; simp; omega
    rw [this]; congr 2; simp; omega
  unfold locateXrefC
  rw [htake, findLast_append _ _ _ _ hk, hk]
  simp only
  have harr : (p ++ f).toArray = p.toArray ++ f.toArray := by simp
  have hps : p.toArray.size = p.length := by simp
  rw [harr, Nat.add_assoc, ← hps, next_shift]
  cases PdfLex.next f.toArray (k + startxrefKw.length) with
  | ok w => simp only [omap_ok, sh2, slice_shift]
  | err => rfl
  | panic => rfl
  | oof => rfl

end Offsets
