import PdfModel.Spec.PageTree

/-! Helper lemmas for C07: parent chains of a well-formed rendering load to the abstract ancestors; the
    kid loop finds the n-th leaf. -/

namespace PageTree

/-- `Depth tbl r d`: following /Parent from the /Pages object `r` reaches a root after exactly `d` steps -/
inductive Depth (tbl : Tbl) : Nat → Nat → Prop where
  | root {r kids count a} : tbl r = some (.pages none kids count a) → Depth tbl r 0
  | step {r p kids count a d} : tbl r = some (.pages (some p) kids count a) → Depth tbl p d → Depth tbl r (d + 1)

theorem Depth.functional {tbl : Tbl} {r d d' : Nat} (h : Depth tbl r d) (h' : Depth tbl r d') : d = d' := by
  induction h generalizing d' with
  | root e =>
    cases h' with
    | root e' => rfl
    | step e' _ => rw [e] at e'; cases e'
  | step e _ ih =>
    cases h' with
    | root e' => rw [e] at e'; cases e'
    | step e' hp =>
      rw [e] at e'
      cases e'
      rw [ih hp]

/-- the loaded value of node `P` is `P` with ancestors `anc`, whatever the guard stack holds, as long as the
    stack only holds objects deeper than `P` -/
def ChainInv (tbl : Tbl) (P : TreeRec) (anc : List TreeRec) (d : Nat) : Prop :=
  Depth tbl P.id d ∧
  ∀ fuel stack, d < fuel → (∀ x ∈ stack, ∀ d', Depth tbl x d' → d < d') →
    loadTree tbl fuel stack P.id = .ok (P, anc)

theorem chain_root {tbl : Tbl} {r : Nat} {kids : List Nat} {count : Nat} {a : Attrs}
    (e : tbl r = some (.pages none kids count a)) (hc : count < u32Max) :
    ChainInv tbl ⟨r, kids, count, a⟩ [] 0 := by
  refine ⟨Depth.root e, ?_⟩
  intro fuel stack hf hs
  cases fuel with
  | zero => omega
  | succ f =>
    have hns : r ∉ stack := fun hm => by
      have := hs r hm 0 (Depth.root e)
      omega
    simp [loadTree, hns, e, Nat.not_le.mpr hc]

theorem chain_step {tbl : Tbl} {P : TreeRec} {anc : List TreeRec} {d : Nat} (hP : ChainInv tbl P anc d)
    {c : Nat} {kids : List Nat} {count : Nat} {a : Attrs}
    (e : tbl c = some (.pages (some P.id) kids count a)) (hc : count < u32Max) :
    ChainInv tbl ⟨c, kids, count, a⟩ (P :: anc) (d + 1) := by
  have hd : Depth tbl c (d + 1) := Depth.step e hP.1
  refine ⟨hd, ?_⟩
  intro fuel stack hf hs
  cases fuel with
  | zero => omega
  | succ f =>
    have hns : c ∉ stack := fun hm => by
      have := hs c hm (d + 1) hd
      omega
    have hrec : loadTree tbl f (c :: stack) P.id = .ok (P, anc) := by
      apply hP.2 f (c :: stack) (by omega)
      intro x hx d' hx'
      rcases List.mem_cons.mp hx with rfl | hx
      · have := Depth.functional hd hx'
        omega
      · have := hs x hx d' hx'
        omega
    simp [loadTree, hns, e, Nat.not_le.mpr hc, hrec]

theorem loadNode_leaf {tbl : Tbl} {P : TreeRec} {anc : List TreeRec} {d : Nat} (hP : ChainInv tbl P anc d)
    {k : Nat} {a : Attrs} (e : tbl k = some (.page P.id a)) {fuel : Nat} (hf : d < fuel) :
    loadNode tbl fuel k = .ok (.leaf ⟨k, a, P, anc⟩) := by
  have hrec : loadTree tbl fuel [k] P.id = .ok (P, anc) := by
    apply hP.2 fuel [k] hf
    intro x hx d' hx'
    simp at hx
    subst hx
    cases hx' with
    | root e' => rw [e] at e'; cases e'
    | step e' _ => rw [e] at e'; cases e'
  simp [loadNode, e, hrec]

theorem loadNode_tree {tbl : Tbl} {C : TreeRec} {anc : List TreeRec} {d : Nat} (hC : ChainInv tbl C anc d)
    {fuel : Nat} (hf : d ≤ fuel) :
    loadNode tbl fuel C.id = .ok (.tree C anc) := by
  have hrec : loadTree tbl (fuel + 1) [] C.id = .ok (C, anc) := by
    apply hC.2 (fuel + 1) [] (by omega)
    intro x hx
    simp at hx
  have : ∃ p ks c a, tbl C.id = some (.pages p ks c a) := by
    cases hC.1 with
    | root e => exact ⟨_, _, _, _, e⟩
    | step e _ => exact ⟨_, _, _, _, e⟩
  obtain ⟨p, ks, c, a, e⟩ := this
  simp [loadNode, e, hrec]

mutual
theorem dfs_length : ∀ (t : PTree) (P : TreeRec) (anc : List TreeRec), (dfs P anc t).length = nLeaves t
  | .leaf _ _, _, _ => by simp [dfs, nLeaves]
  | .node _ _ ks, _, _ => by simp [dfs, nLeaves, dfsL_length ks]
theorem dfsL_length : ∀ (ks : List PTree) (P : TreeRec) (anc : List TreeRec), (dfsL P anc ks).length = nLeavesL ks
  | [], _, _ => by simp [dfsL, nLeavesL]
  | k :: ks, _, _ => by simp [dfsL, nLeavesL, dfs_length k, dfsL_length ks]
end

theorem representsL_mem {tbl : Tbl} {pid : Nat} : ∀ {ks : List PTree}, representsL tbl pid ks = true →
    ∀ k ∈ ks, represents tbl (some pid) k = true
  | [], _, k, hk => by simp at hk
  | k' :: ks, h, k, hk => by
    simp only [representsL, Bool.and_eq_true] at h
    rcases List.mem_cons.mp hk with rfl | hk
    · exact h.1
    · exact representsL_mem h.2 k hk

theorem height_le_heightL : ∀ {ks : List PTree} {k : PTree}, k ∈ ks → height k ≤ heightL ks
  | [], _, hk => by simp at hk
  | k' :: ks, k, hk => by
    simp only [heightL]
    rcases List.mem_cons.mp hk with rfl | hk
    · omega
    · have := height_le_heightL hk
      omega

theorem nLeaves_le_nLeavesL : ∀ {ks : List PTree} {k : PTree}, k ∈ ks → nLeaves k ≤ nLeavesL ks
  | [], _, hk => by simp at hk
  | k' :: ks, k, hk => by
    simp only [nLeavesL]
    rcases List.mem_cons.mp hk with rfl | hk
    · omega
    · have := nLeaves_le_nLeavesL hk
      omega

/-- the kid loop of `page_limited` over a well-formed list of kids: running position, range test,
    accurate counts ⇒ the (n - pos)-th leaf of the kids in document order, or out of bounds -/
theorem pageKids_spec {tbl : Tbl} {fuel : Nat} {P : TreeRec} {anc : List TreeRec} {d : Nat}
    (hP : ChainInv tbl P anc d) (hf : d < fuel) (sub : TreeRec → Nat → Out Leaf) (n : Nat) :
    ∀ (ks : List PTree) (pos : Nat), representsL tbl P.id ks = true → pos + nLeavesL ks < u32Max → pos ≤ n →
    (∀ id a ks', PTree.node id a ks' ∈ ks → ∀ m, m < nLeavesL ks' →
        sub (nodeRec id a ks') m =
          if h : m < (dfsL (nodeRec id a ks') (P :: anc) ks').length
          then .ok ((dfsL (nodeRec id a ks') (P :: anc) ks')[m]) else .err) →
    pageKids (loadNode tbl fuel) sub n (ks.map PTree.id) pos =
      if h : n - pos < (dfsL P anc ks).length then .ok ((dfsL P anc ks)[n - pos]) else .err
  | [], pos, _, _, _, _ => by simp [pageKids, dfsL]
  | .leaf id a :: ks, pos, hr, hsz, hn, hsub => by
    simp only [representsL, represents, Bool.and_eq_true, decide_eq_true_eq] at hr
    have hl := loadNode_leaf hP hr.1 hf
    simp only [nLeavesL, nLeaves] at hsz
    simp only [List.map_cons, PTree.id, pageKids, hl]
    by_cases hpn : pos = n
    · subst hpn
      simp [dfsL, dfs]
    · have hlt : pos < n := by omega
      have hov : ¬ (pos + 1 ≥ u32Max) := by omega
      simp only [hpn, if_false, hov]
      rw [pageKids_spec hP hf sub n ks (pos + 1) hr.2 (by omega) (by omega)
            (fun id a ks' hm => hsub id a ks' (List.mem_cons_of_mem _ hm))]
      simp only [dfsL, dfs, List.singleton_append, List.length_cons]
      have e : n - pos = (n - (pos + 1)) + 1 := by omega
      by_cases h : n - (pos + 1) < (dfsL P anc ks).length
      · simp [h, e]
      · have h' : ¬ n - pos < (dfsL P anc ks).length + 1 := by omega
        simp [h, h']
  | .node id a ks' :: ks, pos, hr, hsz, hn, hsub => by
    simp only [representsL, represents, Bool.and_eq_true, decide_eq_true_eq] at hr
    obtain ⟨⟨he, _hrs⟩, hrk⟩ := hr
    simp only [nLeavesL, nLeaves] at hsz
    have hC : ChainInv tbl (nodeRec id a ks') (P :: anc) (d + 1) := chain_step hP he (by omega)
    have hl : loadNode tbl fuel id = .ok (.tree (nodeRec id a ks') (P :: anc)) :=
      loadNode_tree (C := nodeRec id a ks') hC (by omega)
    simp only [List.map_cons, PTree.id, pageKids, hl]
    have hcnt : (nodeRec id a ks').count = nLeavesL ks' := rfl
    have hov : ¬ (pos + nLeavesL ks' ≥ u32Max) := by omega
    simp only [hcnt, hov, if_false]
    have hlen1 : (dfsL (nodeRec id a ks') (P :: anc) ks').length = nLeavesL ks' := dfsL_length _ _ _
    by_cases hin : pos ≤ n ∧ n < pos + nLeavesL ks'
    · simp only [hin, and_self, if_true]
      have hm : n - pos < nLeavesL ks' := by omega
      rw [hsub id a ks' (List.mem_cons_self ..) (n - pos) hm]
      simp only [dfsL, dfs, List.length_append]
      have h1 : n - pos < (dfsL (nodeRec id a ks') (P :: anc) ks').length := by omega
      have h2 : n - pos < (dfsL (nodeRec id a ks') (P :: anc) ks').length + (dfsL P anc ks).length := by omega
      simp [h1, h2, List.getElem_append_left h1]
    · simp only [hin, if_false]
      have hge : pos + nLeavesL ks' ≤ n := by omega
      rw [pageKids_spec hP hf sub n ks (pos + nLeavesL ks') hrk (by omega) hge
            (fun id a ks'' hm => hsub id a ks'' (List.mem_cons_of_mem _ hm))]
      simp only [dfsL, dfs, List.length_append]
      by_cases h : n - (pos + nLeavesL ks') < (dfsL P anc ks).length
      · have h' : n - pos < (dfsL (nodeRec id a ks') (P :: anc) ks').length + (dfsL P anc ks).length := by omega
        have h'' : (dfsL (nodeRec id a ks') (P :: anc) ks').length ≤ n - pos := by omega
        simp [h, h', List.getElem_append_right h'']
        congr 1
        omega
      · have h' : ¬ n - pos < (dfsL (nodeRec id a ks') (P :: anc) ks').length + (dfsL P anc ks).length := by omega
        simp [h, h']

/-- `page_limited` on a well-formed node whose sub-tree fits the depth budget -/
theorem pageLimited_spec {tbl : Tbl} {fuel : Nat} : ∀ (depth : Nat) (id : Nat) (a : Attrs) (ks : List PTree)
    (anc : List TreeRec) (d : Nat), ChainInv tbl (nodeRec id a ks) anc d → representsL tbl id ks = true →
    heightL ks < depth → d + heightL ks < fuel → nLeavesL ks < u32Max → ∀ n,
    pageLimited tbl fuel depth (nodeRec id a ks) n =
      if h : n < (dfsL (nodeRec id a ks) anc ks).length then .ok ((dfsL (nodeRec id a ks) anc ks)[n]) else .err
  | 0, _, _, _, _, _, _, _, hh, _, _, _ => by omega
  | depth + 1, id, a, ks, anc, d, hP, hr, hh, hf, hsz, n => by
    have hkids : (nodeRec id a ks).kids = ks.map PTree.id := rfl
    simp only [pageLimited, hkids]
    have := pageKids_spec hP (by omega : d < fuel) (fun t n => pageLimited tbl fuel depth t n) n ks 0
      hr (by omega) (by omega)
      (by
        intro id' a' ks' hm m _
        have hrep := representsL_mem hr _ hm
        simp only [represents, Bool.and_eq_true, decide_eq_true_eq] at hrep
        have hht := height_le_heightL hm
        have hnl := nLeaves_le_nLeavesL hm
        simp only [height, nLeaves] at hht hnl
        exact pageLimited_spec depth id' a' ks' (nodeRec id a ks :: anc) (d + 1)
          (chain_step hP hrep.1 (by omega)) hrep.2 (by omega) (by omega) (by omega) m)
    simpa using this

theorem inherit_eq_findSome (f : Attrs → Option Nat) : ∀ (t : TreeRec) (anc : List TreeRec),
    inherit f t anc = ((t :: anc).map (·.a)).findSome? f
  | t, [] => by
    simp only [inherit, List.map_cons, List.map_nil, List.findSome?_cons, List.findSome?_nil]
    cases f t.a <;> rfl
  | t, p :: ps => by
    simp only [inherit, List.map_cons, List.findSome?_cons]
    cases h : f t.a with
    | some x => rfl
    | none =>
      simp only []
      rw [inherit_eq_findSome f p ps]
      simp [List.findSome?_cons]

/-- the recursion guard makes the /Parent walk finite: with more fuel than objects the model never runs dry -/
theorem loadTree_ne_oof (tbl : Tbl) (keys : List Nat) (hk : ∀ r o, tbl r = some o → r ∈ keys) :
    ∀ (fuel : Nat) (stack : List Nat) (r : Nat), stack.Nodup → stack ⊆ keys → keys.length < fuel + stack.length →
    loadTree tbl fuel stack r ≠ .oof
  | 0, stack, r, hn, hs, hl => by
    have := List.Nodup.length_le_of_subset hn hs
    omega
  | f + 1, stack, r, hn, hs, hl => by
    unfold loadTree
    split
    · simp
    · rename_i hmem
      split
      · rename_i parent kids count a he
        split
        · simp
        · split
          · simp
          · rename_i p
            have ih := loadTree_ne_oof tbl keys hk f (r :: stack) p
              (List.nodup_cons.mpr ⟨hmem, hn⟩)
              (by intro x hx; rcases List.mem_cons.mp hx with rfl | hx; exact hk _ _ he; exact hs hx)
              (by simp only [List.length_cons]; omega)
            cases h : loadTree tbl f (r :: stack) p with
            | ok v => obtain ⟨t, anc⟩ := v; simp
            | err => simp
            | panic => simp
            | oof => exact absurd h ih
      · simp

theorem loadNode_ne_oof (tbl : Tbl) (keys : List Nat) (hk : ∀ r o, tbl r = some o → r ∈ keys) (fuel : Nat)
    (hf : keys.length ≤ fuel) (r : Nat) : loadNode tbl fuel r ≠ .oof := by
  unfold loadNode
  split
  · rename_i p a he
    have := loadTree_ne_oof tbl keys hk fuel [r] p (by simp) (by intro x hx; simp at hx; subst hx; exact hk _ _ he) (by simp; omega)
    cases h : loadTree tbl fuel [r] p with
    | ok v => obtain ⟨t, anc⟩ := v; simp
    | err => simp
    | panic => simp
    | oof => exact absurd h this
  · have := loadTree_ne_oof tbl keys hk (fuel + 1) [] r (by simp) (by simp) (by simp; omega)
    cases h : loadTree tbl (fuel + 1) [] r with
    | ok v => obtain ⟨t, anc⟩ := v; simp
    | err => simp
    | panic => simp
    | oof => exact absurd h this
  · simp

theorem pageKids_ne_oof (load : Nat → Out LNode) (sub : TreeRec → Nat → Out Leaf) (hl : ∀ r, load r ≠ .oof)
    (hs : ∀ t n, sub t n ≠ .oof) (n : Nat) : ∀ (ks : List Nat) (pos : Nat), pageKids load sub n ks pos ≠ .oof
  | [], _ => by simp [pageKids]
  | k :: ks, pos => by
    unfold pageKids
    have ih := pageKids_ne_oof load sub hl hs n ks
    cases h : load k with
    | ok v =>
      cases v with
      | tree t anc =>
        simp only []
        split
        · simp
        · split
          · exact hs _ _
          · exact ih _
      | leaf l =>
        simp only []
        split
        · simp
        · split
          · simp
          · exact ih _
    | err => simp
    | panic => simp
    | oof => exact absurd h (hl k)

theorem pageLimited_ne_oof (tbl : Tbl) (keys : List Nat) (hk : ∀ r o, tbl r = some o → r ∈ keys) (fuel : Nat)
    (hf : keys.length ≤ fuel) : ∀ (depth : Nat) (t : TreeRec) (n : Nat), pageLimited tbl fuel depth t n ≠ .oof
  | 0, _, _ => by simp [pageLimited]
  | d + 1, t, n => by
    simp only [pageLimited]
    exact pageKids_ne_oof _ _ (loadNode_ne_oof tbl keys hk fuel hf) (fun t n => pageLimited_ne_oof tbl keys hk fuel hf d t n) n _ _

end PageTree
