import PdfModel.Model.Enc
import PdfModel.Spec.Codecs

set_option linter.unusedSimpArgs false

/-! Shared helpers for the C05/C16 proofs: finite quantification over bytes, white-space sprinkling. -/

theorem UInt8.forall_of_fin {P : UInt8 → Prop} (h : ∀ n : Fin 256, P (UInt8.ofFin n)) : ∀ b : UInt8, P b := by
  intro b
  have := h b.toFin
  simpa using this

instance UInt8.decidableForall (P : UInt8 → Prop) [DecidablePred P] : Decidable (∀ b : UInt8, P b) :=
  decidable_of_iff (∀ n : Fin 256, P (UInt8.ofFin n)) ⟨UInt8.forall_of_fin, fun h _ => h _⟩

namespace Codecs

theorem Sprinkled.refl : ∀ t : Bytes, Sprinkled t t
  | [] => .nil
  | b :: t => .keep b (Sprinkled.refl t)

/-- removing the white-space from the sprinkled text gives the core back (if the core has none) -/
theorem Sprinkled.filter_eq {core text : Bytes} (h : Sprinkled core text)
    (hc : ∀ c ∈ core, isWs c = false) : text.filter (fun b => !isWs b) = core := by
  induction h with
  | nil => rfl
  | keep b _ ih =>
    have hb : isWs b = false := hc b (by simp)
    simp [List.filter, hb]
    exact ih (fun c hc' => hc c (by simp [hc']))
  | ws w hw _ ih =>
    simp [List.filter, hw]
    exact ih hc

/-- every character of the sprinkled text is a core character or white-space -/
theorem Sprinkled.mem {core text : Bytes} (h : Sprinkled core text) :
    ∀ c ∈ text, c ∈ core ∨ isWs c = true := by
  induction h with
  | nil => intro c hc; simp at hc
  | keep b _ ih =>
    intro c hc
    rcases List.mem_cons.mp hc with rfl | hc
    · left; simp
    · rcases ih c hc with h | h
      · left; simp [h]
      · right; exact h
  | ws w hw _ ih =>
    intro c hc
    rcases List.mem_cons.mp hc with rfl | hc
    · right; exact hw
    · exact ih c hc

/-- a sprinkled text splits at any core character -/
theorem Sprinkled.split {a b : Bytes} {x : UInt8} {text : Bytes} (h : Sprinkled (a ++ x :: b) text) :
    ∃ t1 t2, text = t1 ++ x :: t2 ∧ Sprinkled a t1 ∧ Sprinkled b t2 := by
  generalize hc : a ++ x :: b = core at h
  induction h generalizing a with
  | nil => simp at hc
  | keep y hs ih =>
    cases a with
    | nil =>
      simp at hc
      obtain ⟨rfl, rfl⟩ := hc
      exact ⟨[], _, rfl, .nil, hs⟩
    | cons a0 a' =>
      simp at hc
      obtain ⟨rfl, rfl⟩ := hc
      obtain ⟨t1, t2, rfl, h1, h2⟩ := ih rfl
      exact ⟨a0 :: t1, t2, rfl, .keep a0 h1, h2⟩
  | ws w hw _ ih =>
    obtain ⟨t1, t2, rfl, h1, h2⟩ := ih hc
    exact ⟨w :: t1, t2, rfl, .ws w hw h1, h2⟩

theorem takeWhile_append_stop {p : UInt8 → Bool} {pre : Bytes} {x : UInt8} {post : Bytes}
    (hpre : ∀ c ∈ pre, p c = true) (hx : p x = false) : (pre ++ x :: post).takeWhile p = pre := by
  induction pre with
  | nil => simp [List.takeWhile, hx]
  | cons c pre ih =>
    have hc : p c = true := hpre c (by simp)
    simp [List.takeWhile, hc]
    exact ih (fun c hc' => hpre c (by simp [hc']))

theorem dropWhile_append_stop {p : UInt8 → Bool} {pre : Bytes} {x : UInt8} {post : Bytes}
    (hpre : ∀ c ∈ pre, p c = true) (hx : p x = false) : (pre ++ x :: post).dropWhile p = x :: post := by
  induction pre with
  | nil => simp [List.dropWhile, hx]
  | cons c pre ih =>
    have hc : p c = true := hpre c (by simp)
    simp [List.dropWhile, hc]
    exact ih (fun c hc' => hpre c (by simp [hc']))

end Codecs
