import PdfModel.Lemmas.Lexer
import PdfModel.Model.StrLexer

/-! Literal and hexadecimal strings: the string lexers read a conformant body (`LitBody` / `HexBody`) as the
    bytes it denotes and stop right after the closing delimiter. -/

namespace PdfLex
open PdfSyntax (LitBody HexBody NoLf NoOct namedEscape isOct)

theorem namedEsc_eq : ∀ c, namedEsc c = namedEscape c := by decide +kernel

theorem isOctal_eq : ∀ c, isOctal c = isOct c := by decide +kernel

theorem oct_facts : ∀ c : UInt8, isOct c = true → namedEscape c = none ∧ c ≠ 10 ∧ c ≠ 13 ∧ c ≠ 92 := by decide +kernel

theorem litBody_ne_nil {t s : List UInt8} {n : Nat} (h : LitBody t n s) : t ≠ [] := by
  cases h <;> simp

theorem skipIf_hit {buf : Buf} {pos : Nat} {b : UInt8} {s : List UInt8} (h : Suffix buf pos (b :: s)) :
    skipIf buf pos b = pos + 1 := by
  simp [skipIf, h.get0]

theorem skipIf_miss {buf : Buf} {pos : Nat} {b c : UInt8} {s : List UInt8} (h : Suffix buf pos (c :: s)) (hc : c ≠ b) :
    skipIf buf pos b = pos := by
  simp [skipIf, h.get0, hc]

theorem skipIf_noLf {buf : Buf} {pos : Nat} {r rest s : List UInt8} {n : Nat} (hl : LitBody r n s) (hn : NoLf r)
    (h : Suffix buf pos (r ++ rest)) : skipIf buf pos 10 = pos := by
  cases r with
  | nil => exact absurd rfl (litBody_ne_nil hl)
  | cons c r' =>
    apply skipIf_miss (by simpa using h)
    simpa [NoLf] using hn

theorem nextByte_cons {buf : Buf} {pos : Nat} {b : UInt8} {s : List UInt8} (h : Suffix buf pos (b :: s)) :
    nextByte buf pos = .ok (b, pos + 1) := by simp [nextByte, h.get0]

theorem peekByte_cons {buf : Buf} {pos : Nat} {b : UInt8} {s : List UInt8} (h : Suffix buf pos (b :: s)) :
    peekByte buf pos = .ok b := by simp [peekByte, h.get0]

/-- octal digit as a number below 8 -/
theorem oct_digit (d : UInt8) (h : isOct d = true) : ∃ a : Fin 8, d.toNat - 48 = a.val ∧ d - 48 = UInt8.ofNat a.val := by
  revert d
  decide +kernel

theorem oct_value3 : ∀ a b c : Fin 8,
    UInt8.ofNat ((a.val * 8 + b.val) * 8 + c.val) = UInt8.ofNat a.val * 64 + UInt8.ofNat b.val * 8 + UInt8.ofNat c.val := by
  decide

theorem oct_value2 : ∀ a b : Fin 8, UInt8.ofNat (a.val * 8 + b.val) = UInt8.ofNat a.val * 8 + UInt8.ofNat b.val := by
  decide

theorem oct_ring : ∀ a b : Fin 8, (UInt8.ofNat a.val * 8 + UInt8.ofNat b.val) * 8 = UInt8.ofNat a.val * 64 + UInt8.ofNat b.val * 8 := by
  decide

theorem ofNat_mod (n : Nat) : UInt8.ofNat (n % 256) = UInt8.ofNat n := by
  apply UInt8.toNat_inj.mp
  simp


theorem octalMore_zero (buf : Buf) (code pos : Nat) : octalMore buf 0 code pos = .ok (code, pos) := rfl

theorem octalMore_stop {buf : Buf} {pos : Nat} {c : UInt8} {s : List UInt8} (k code : Nat)
    (h : Suffix buf pos (c :: s)) (hc : isOct c = false) : octalMore buf (k + 1) code pos = .ok (code, pos) := by
  simp [octalMore, peekByte_cons h, isOctal_eq, hc]

theorem octalMore_step {buf : Buf} {pos : Nat} {c : UInt8} {s : List UInt8} (k code : Nat)
    (h : Suffix buf pos (c :: s)) (hc : isOct c = true) :
    octalMore buf (k + 1) code pos = octalMore buf k (code * 8 + (c.toNat - 48)) (pos + 1) := by
  simp [octalMore, peekByte_cons h, isOctal_eq, hc]

theorem octalMore_noOct {buf : Buf} {pos : Nat} {r rest s : List UInt8} {n : Nat} (k code : Nat) (hl : LitBody r n s)
    (hn : NoOct r) (h : Suffix buf pos (r ++ rest)) : octalMore buf (k + 1) code pos = .ok (code, pos) := by
  cases r with
  | nil => exact absurd rfl (litBody_ne_nil hl)
  | cons c r' => exact octalMore_stop k code (by simpa using h) (by simpa [NoOct] using hn)

/-- what one call of `next_lexeme` does on a conformant string body -/
def LexStep (buf : Buf) (f pos : Nat) (txt : List UInt8) (n : Nat) (s : List UInt8) : Prop :=
  (s = [] ∧ nextLexeme buf f pos n = .ok (none, pos + txt.length, -1)) ∨
  (∃ v s' pre txt' n', s = v :: s' ∧ txt = pre ++ txt' ∧ LitBody txt' n' s' ∧
      (n' : Int) + txt'.length ≤ (n : Int) + txt.length ∧ 0 < pre.length ∧
      nextLexeme buf f pos n = .ok (some v, pos + pre.length, (n' : Int)))

theorem lexStep_mk {buf : Buf} {f pos : Nat} {txt : List UInt8} {n : Nat} {s : List UInt8}
    (v : UInt8) (s' pre txt' : List UInt8) (n' : Nat) (h1 : s = v :: s') (h2 : txt = pre ++ txt') (h3 : LitBody txt' n' s')
    (h4 : (n' : Int) + txt'.length ≤ (n : Int) + txt.length) (h6 : 0 < pre.length)
    (h5 : nextLexeme buf f pos n = .ok (some v, pos + pre.length, (n' : Int))) : LexStep buf f pos txt n s :=
  Or.inr ⟨v, s', pre, txt', n', h1, h2, h3, h4, h6, h5⟩

theorem nextLexeme_lit (txt s : List UInt8) (n : Nat) (h : LitBody txt n s) :
    ∀ (buf : Buf) (pos : Nat) (rest : List UInt8) (f : Nat), Suffix buf pos (txt ++ rest) → txt.length ≤ f →
      (n : Int) + txt.length ≤ 2147483647 → LexStep buf f pos txt n s := by
  induction h with
  | close =>
    intro buf pos rest f hs hf _
    obtain ⟨f, rfl⟩ : ∃ f', f = f' + 1 := ⟨f - 1, by simp at hf; omega⟩
    have hs' : Suffix buf pos (41 :: rest) := by simpa using hs
    left; refine ⟨rfl, ?_⟩
    simp [nextLexeme, nextByte_cons hs']
  | popen r s n hl ih =>
    intro buf pos rest f hs hf hb
    obtain ⟨f, rfl⟩ : ∃ f', f = f' + 1 := ⟨f - 1, by simp at hf; omega⟩
    have hs' : Suffix buf pos (40 :: (r ++ rest)) := by simpa using hs
    apply lexStep_mk 40 s [40] r (n + 1) rfl rfl hl (by simp <;> omega) (by simp)
    simp at hb
    simp [nextLexeme, nextByte_cons hs'] <;> omega
  | pclose r s n hl ih =>
    intro buf pos rest f hs hf hb
    obtain ⟨f, rfl⟩ : ∃ f', f = f' + 1 := ⟨f - 1, by simp at hf; omega⟩
    have hs' : Suffix buf pos (41 :: (r ++ rest)) := by simpa using hs
    apply lexStep_mk 41 s [41] r n rfl rfl hl (by simp <;> omega) (by simp)
    simp [nextLexeme, nextByte_cons hs'] <;> omega
  | plain b r s n h40 h41 h92 h13 hl ih =>
    intro buf pos rest f hs hf hb
    obtain ⟨f, rfl⟩ : ∃ f', f = f' + 1 := ⟨f - 1, by simp at hf; omega⟩
    have hs' : Suffix buf pos (b :: (r ++ rest)) := by simpa using hs
    apply lexStep_mk b s [b] r n rfl rfl hl (by simp <;> omega) (by simp)
    simp [nextLexeme, nextByte_cons hs', h40, h41, h92, h13]
  | cr r s n hn hl ih =>
    intro buf pos rest f hs hf hb
    obtain ⟨f, rfl⟩ : ∃ f', f = f' + 1 := ⟨f - 1, by simp at hf; omega⟩
    have hs' : Suffix buf pos (13 :: (r ++ rest)) := by simpa using hs
    apply lexStep_mk 10 s [13] r n rfl rfl hl (by simp <;> omega) (by simp)
    simp [nextLexeme, nextByte_cons hs', skipIf_noLf hl hn hs'.tail]
  | crlf r s n hl ih =>
    intro buf pos rest f hs hf hb
    obtain ⟨f, rfl⟩ : ∃ f', f = f' + 1 := ⟨f - 1, by simp at hf; omega⟩
    have hs' : Suffix buf pos (13 :: 10 :: (r ++ rest)) := by simpa using hs
    apply lexStep_mk 10 s [13, 10] r n rfl rfl hl (by simp <;> omega) (by simp)
    simp [nextLexeme, nextByte_cons hs', skipIf_hit hs'.tail]
  | named c v r s n hv hl ih =>
    intro buf pos rest f hs hf hb
    obtain ⟨f, rfl⟩ : ∃ f', f = f' + 1 := ⟨f - 1, by simp at hf; omega⟩
    have hs' : Suffix buf pos (92 :: c :: (r ++ rest)) := by simpa using hs
    apply lexStep_mk v s [92, c] r n rfl rfl hl (by simp <;> omega) (by simp)
    simp [nextLexeme, nextByte_cons hs', nextByte_cons hs'.tail, namedEsc_eq, hv]
  | ignored c r s n hv ho h10 h13 hl ih =>
    intro buf pos rest f hs hf hb
    obtain ⟨f, rfl⟩ : ∃ f', f = f' + 1 := ⟨f - 1, by simp at hf; omega⟩
    have hs' : Suffix buf pos (92 :: c :: (r ++ rest)) := by simpa using hs
    apply lexStep_mk c s [92, c] r n rfl rfl hl (by simp <;> omega) (by simp)
    simp [nextLexeme, nextByte_cons hs', nextByte_cons hs'.tail, namedEsc_eq, hv, h10, h13, isOctal_eq, ho]
  | contLf r s n hl ih =>
    intro buf pos rest f hs hf hb
    obtain ⟨f, rfl⟩ : ∃ f', f = f' + 1 := ⟨f - 1, by simp at hf; omega⟩
    have hs' : Suffix buf pos (92 :: 10 :: (r ++ rest)) := by simpa using hs
    have step : nextLexeme buf (f + 1) pos n = nextLexeme buf f (pos + 1 + 1) n := by
      simp [nextLexeme, nextByte_cons hs', nextByte_cons hs'.tail, namedEsc]
    rcases ih buf (pos + 1 + 1) rest f hs'.tail.tail (by simp at hf; omega) (by simp at hb; omega) with ⟨rfl, h2⟩ | ⟨v, s', pre, txt', n', h1, h2, h3, h4, _, h5⟩
    · left; refine ⟨rfl, ?_⟩; rw [step, h2]; simp; omega
    · apply lexStep_mk v s' (92 :: 10 :: pre) txt' n' h1 (by simp [h2]) h3 (by simp at h4 ⊢; omega) (by simp)
      rw [step, h5]; simp; omega
  | contCr r s n hn hl ih =>
    intro buf pos rest f hs hf hb
    obtain ⟨f, rfl⟩ : ∃ f', f = f' + 1 := ⟨f - 1, by simp at hf; omega⟩
    have hs' : Suffix buf pos (92 :: 13 :: (r ++ rest)) := by simpa using hs
    have step : nextLexeme buf (f + 1) pos n = nextLexeme buf f (pos + 1 + 1) n := by
      simp [nextLexeme, nextByte_cons hs', nextByte_cons hs'.tail, namedEsc, skipIf_noLf hl hn hs'.tail.tail]
    rcases ih buf (pos + 1 + 1) rest f hs'.tail.tail (by simp at hf; omega) (by simp at hb; omega) with ⟨rfl, h2⟩ | ⟨v, s', pre, txt', n', h1, h2, h3, h4, _, h5⟩
    · left; refine ⟨rfl, ?_⟩; rw [step, h2]; simp; omega
    · apply lexStep_mk v s' (92 :: 13 :: pre) txt' n' h1 (by simp [h2]) h3 (by simp at h4 ⊢; omega) (by simp)
      rw [step, h5]; simp; omega
  | contCrLf r s n hl ih =>
    intro buf pos rest f hs hf hb
    obtain ⟨f, rfl⟩ : ∃ f', f = f' + 1 := ⟨f - 1, by simp at hf; omega⟩
    have hs' : Suffix buf pos (92 :: 13 :: 10 :: (r ++ rest)) := by simpa using hs
    have step : nextLexeme buf (f + 1) pos n = nextLexeme buf f (pos + 1 + 1 + 1) n := by
      simp [nextLexeme, nextByte_cons hs', nextByte_cons hs'.tail, namedEsc, skipIf_hit hs'.tail.tail]
    rcases ih buf (pos + 1 + 1 + 1) rest f hs'.tail.tail.tail (by simp at hf; omega) (by simp at hb; omega) with ⟨rfl, h2⟩ | ⟨v, s', pre, txt', n', h1, h2, h3, h4, _, h5⟩
    · left; refine ⟨rfl, ?_⟩; rw [step, h2]; simp; omega
    · apply lexStep_mk v s' (92 :: 13 :: 10 :: pre) txt' n' h1 (by simp [h2]) h3 (by simp at h4 ⊢; omega) (by simp)
      rw [step, h5]; simp; omega
  | oct1 d1 r s n h1 hno hl ih =>
    intro buf pos rest f hs hf hb
    obtain ⟨f, rfl⟩ : ∃ f', f = f' + 1 := ⟨f - 1, by simp at hf; omega⟩
    have hs' : Suffix buf pos (92 :: d1 :: (r ++ rest)) := by simpa using hs
    obtain ⟨hn1, h10, h13, _⟩ := oct_facts d1 h1
    obtain ⟨a, ha, ha'⟩ := oct_digit d1 h1
    apply lexStep_mk (d1 - 48) s [92, d1] r n rfl rfl hl (by simp <;> omega) (by simp)
    simp [nextLexeme, nextByte_cons hs', nextByte_cons hs'.tail, namedEsc_eq, hn1, h10, h13, isOctal_eq, h1,
      octalMore_noOct 1 _ hl hno hs'.tail.tail, ha, ha', ofNat_mod]
  | oct2 d1 d2 r s n h1 h2 hno hl ih =>
    intro buf pos rest f hs hf hb
    obtain ⟨f, rfl⟩ : ∃ f', f = f' + 1 := ⟨f - 1, by simp at hf; omega⟩
    have hs' : Suffix buf pos (92 :: d1 :: d2 :: (r ++ rest)) := by simpa using hs
    obtain ⟨hn1, h10, h13, _⟩ := oct_facts d1 h1
    obtain ⟨a, ha, ha'⟩ := oct_digit d1 h1
    obtain ⟨b, hb1, hb'⟩ := oct_digit d2 h2
    apply lexStep_mk ((d1 - 48) * 8 + (d2 - 48)) s [92, d1, d2] r n rfl rfl hl (by simp <;> omega) (by simp)
    simp [nextLexeme, nextByte_cons hs', nextByte_cons hs'.tail, namedEsc_eq, hn1, h10, h13, isOctal_eq, h1,
      octalMore_step 1 _ hs'.tail.tail h2, octalMore_noOct 0 _ hl hno hs'.tail.tail.tail, ha, ha', hb1, hb', ofNat_mod]
  | oct3 d1 d2 d3 r s n h1 h2 h3 hl ih =>
    intro buf pos rest f hs hf hb
    obtain ⟨f, rfl⟩ : ∃ f', f = f' + 1 := ⟨f - 1, by simp at hf; omega⟩
    have hs' : Suffix buf pos (92 :: d1 :: d2 :: d3 :: (r ++ rest)) := by simpa using hs
    obtain ⟨hn1, h10, h13, _⟩ := oct_facts d1 h1
    obtain ⟨a, ha, ha'⟩ := oct_digit d1 h1
    obtain ⟨b, hb1, hb'⟩ := oct_digit d2 h2
    obtain ⟨c, hc1, hc'⟩ := oct_digit d3 h3
    apply lexStep_mk ((d1 - 48) * 64 + (d2 - 48) * 8 + (d3 - 48)) s [92, d1, d2, d3] r n rfl rfl hl (by simp <;> omega) (by simp)
    simp [nextLexeme, nextByte_cons hs', nextByte_cons hs'.tail, namedEsc_eq, hn1, h10, h13, isOctal_eq, h1,
      octalMore_step 1 _ hs'.tail.tail h2, octalMore_step 0 _ hs'.tail.tail.tail h3, octalMore_zero, ha, ha', hb1, hb', hc1, hc',
      ofNat_mod]
    exact oct_ring a b


/-- the `StringLexer` loop reads a conformant literal-string body as the bytes it denotes and stops right
    after the closing parenthesis -/
theorem collectString_lit (s : List UInt8) :
    ∀ (txt : List UInt8) (n : Nat), LitBody txt n s → ∀ (buf : Buf) (pos : Nat) (rest acc : List UInt8) (fuel : Nat),
      Suffix buf pos (txt ++ rest) → txt.length + 1 ≤ fuel → (n : Int) + txt.length ≤ 2147483647 →
      collectString buf fuel pos n acc = .ok (acc.reverse ++ s, pos + txt.length) := by
  induction s with
  | nil =>
    intro txt n hl buf pos rest acc fuel hs hf hb
    obtain ⟨fuel, rfl⟩ : ∃ f', fuel = f' + 1 := ⟨fuel - 1, by omega⟩
    rcases nextLexeme_lit txt [] n hl buf pos rest (fuel + 1) hs (by omega) hb with ⟨_, h2⟩ | ⟨v, s', pre, txt', n', h1, _⟩
    · simp [collectString, h2]
    · simp at h1
  | cons v s ih =>
    intro txt n hl buf pos rest acc fuel hs hf hb
    obtain ⟨fuel, rfl⟩ : ∃ f', fuel = f' + 1 := ⟨fuel - 1, by omega⟩
    rcases nextLexeme_lit txt (v :: s) n hl buf pos rest (fuel + 1) hs (by omega) hb with ⟨h1, _⟩ | ⟨v', s', pre, txt', n', h1, h2, h3, h4, h6, h5⟩
    · simp at h1
    · simp at h1
      obtain ⟨rfl, rfl⟩ := h1
      subst h2
      have hs2 : Suffix buf (pos + pre.length) (txt' ++ rest) := Suffix.drop (by simpa using hs)
      have := ih txt' n' h3 buf (pos + pre.length) rest (v :: acc) fuel hs2 (by simp at hf; omega) (by omega)
      simp [collectString, h5, this]; omega


/-! ### hexadecimal strings -/

open PdfSyntax (HexWs hexVal)

theorem isHexWs_eq : ∀ b, isHexWs b = PdfSyntax.isWs b := by decide +kernel

theorem hexVal_facts : ∀ c v : UInt8, hexVal c = some v → hexDigitVal c = some v ∧ v < 16 ∧ PdfSyntax.isWs c = false ∧ c ≠ 62 := by
  intro c
  revert c
  decide +kernel

theorem nibble_combine2 : ∀ a b : Fin 16, ((UInt8.ofNat a.val) <<< 4) ||| (UInt8.ofNat b.val) = (UInt8.ofNat a.val) * 16 + (UInt8.ofNat b.val) := by
  decide

theorem nibble_combine2' (a b : UInt8) (ha : a < 16) (hb : b < 16) : (a <<< 4) ||| b = a * 16 + b := by
  have := nibble_combine2 ⟨a.toNat, UInt8.lt_iff_toNat_lt.mp ha⟩ ⟨b.toNat, UInt8.lt_iff_toNat_lt.mp hb⟩
  simpa using this

theorem nibble_shift : ∀ a : Fin 16, (UInt8.ofNat a.val) <<< 4 = (UInt8.ofNat a.val) * 16 := by decide

theorem nibble_shift' (a : UInt8) (ha : a < 16) : a <<< 4 = a * 16 := by
  have := nibble_shift ⟨a.toNat, UInt8.lt_iff_toNat_lt.mp ha⟩
  simpa using this

theorem nextNonWs_skip {buf : Buf} (w : List UInt8) (c : UInt8) (s : List UInt8) (hw : HexWs w)
    (hc : PdfSyntax.isWs c = false) : ∀ (pos fuel : Nat), Suffix buf pos (w ++ c :: s) → w.length + 1 ≤ fuel →
    nextNonWs buf fuel pos = .ok (c, pos + w.length + 1) := by
  induction w with
  | nil =>
    intro pos fuel h hf
    obtain ⟨fuel, rfl⟩ : ∃ f', fuel = f' + 1 := ⟨fuel - 1, by simp at hf; omega⟩
    have h' : Suffix buf pos (c :: s) := by simpa using h
    simp [nextNonWs, h'.get0, isHexWs_eq, hc]
  | cons b w ih =>
    intro pos fuel h hf
    obtain ⟨fuel, rfl⟩ : ∃ f', fuel = f' + 1 := ⟨fuel - 1, by simp at hf; omega⟩
    have h' : Suffix buf pos (b :: (w ++ c :: s)) := by simpa using h
    have hb : PdfSyntax.isWs b = true := hw b (by simp)
    have := ih (fun x hx => hw x (by simp [hx])) (pos + 1) fuel h'.tail (by simp at hf; omega)
    simp [nextNonWs, h'.get0, isHexWs_eq, hb, this]; omega

theorem nextNonWs_at {buf : Buf} (w : List UInt8) (c : UInt8) (s : List UInt8) (hw : HexWs w)
    (hc : PdfSyntax.isWs c = false) (pos : Nat) (h : Suffix buf pos (w ++ c :: s)) :
    nextNonWs buf (buf.size - pos + 1) pos = .ok (c, pos + w.length + 1) := by
  apply nextNonWs_skip w c s hw hc pos _ h
  have := h.size_sub; simp at this; omega

/-- the `HexStringLexer` loop reads a conformant hexadecimal-string body as the bytes it denotes and stops
    right after `>` -/
theorem collectHex_hex (txt s : List UInt8) (h : HexBody txt s) :
    ∀ (buf : Buf) (base pos : Nat) (rest acc : List UInt8) (fuel : Nat), Suffix buf pos (txt ++ rest) → base ≤ pos →
      txt.length + 1 ≤ fuel → collectHex buf base fuel pos acc = .ok (acc.reverse ++ s, pos + txt.length) := by
  induction h with
  | close w hw =>
    intro buf base pos rest acc fuel hs hb hf
    obtain ⟨fuel, rfl⟩ : ∃ f', fuel = f' + 1 := ⟨fuel - 1, by omega⟩
    have hs' : Suffix buf pos (w ++ 62 :: rest) := by simpa using hs
    simp [collectHex, nextHexByte, nextNonWs_at w 62 rest hw (by decide) pos hs']; omega
  | byte w1 w2 h1 h2 v1 v2 r s hw1 hw2 hv1 hv2 hr ih =>
    intro buf base pos rest acc fuel hs hb hf
    obtain ⟨fuel, rfl⟩ : ∃ f', fuel = f' + 1 := ⟨fuel - 1, by omega⟩
    obtain ⟨d1, l1, nw1, ne1⟩ := hexVal_facts h1 v1 hv1
    obtain ⟨d2, l2, nw2, ne2⟩ := hexVal_facts h2 v2 hv2
    have hs1 : Suffix buf pos (w1 ++ h1 :: (w2 ++ h2 :: (r ++ rest))) := by simpa using hs
    have hs2 : Suffix buf (pos + w1.length + 1) (w2 ++ h2 :: (r ++ rest)) := by
      have := Suffix.drop (a := w1 ++ [h1]) (by simpa using hs1)
      simpa [Nat.add_assoc] using this
    have hs3 : Suffix buf (pos + w1.length + 1 + w2.length + 1) (r ++ rest) := by
      have := Suffix.drop (a := w2 ++ [h2]) (by simpa using hs2)
      simpa [Nat.add_assoc] using this
    have := ih buf base (pos + w1.length + 1 + w2.length + 1) rest ((v1 * 16 + v2) :: acc) fuel hs3 (by omega)
      (by simp at hf; omega)
    simp [collectHex, nextHexByte, nextNonWs_at w1 h1 _ hw1 nw1 pos hs1, ne1, d1,
      nextNonWs_at w2 h2 _ hw2 nw2 _ hs2, ne2, d2, nibble_combine2' v1 v2 l1 l2, this]
    omega
  | odd w1 w2 h1 v1 hw1 hw2 hv1 =>
    intro buf base pos rest acc fuel hs hb hf
    obtain ⟨fuel, rfl⟩ : ∃ f', fuel = f' + 1 := ⟨fuel - 1, by omega⟩
    obtain ⟨fuel, rfl⟩ : ∃ f', fuel = f' + 1 := ⟨fuel - 1, by simp at hf; omega⟩
    obtain ⟨d1, l1, nw1, ne1⟩ := hexVal_facts h1 v1 hv1
    have hs1 : Suffix buf pos (w1 ++ h1 :: (w2 ++ 62 :: rest)) := by simpa using hs
    have hs2 : Suffix buf (pos + w1.length + 1) (w2 ++ 62 :: rest) := by
      have := Suffix.drop (a := w1 ++ [h1]) (by simpa using hs1)
      simpa [Nat.add_assoc] using this
    have hs3 : Suffix buf (pos + w1.length + 1 + w2.length) ([] ++ 62 :: rest) := by
      have := Suffix.drop (a := w2) (by simpa using hs2)
      simpa [Nat.add_assoc] using this
    have hback : hexBack base (pos + w1.length + 1 + w2.length + 1) = .ok (pos + w1.length + 1 + w2.length) := by
      simp [hexBack]; omega
    simp [collectHex, nextHexByte, nextNonWs_at w1 h1 _ hw1 nw1 pos hs1, ne1, d1,
      nextNonWs_at w2 62 _ hw2 (by decide) _ hs2, hback, nibble_shift' v1 l1,
      nextNonWs_at [] 62 rest (by intro b hb; simp at hb) (by decide) _ hs3]
    omega

end PdfLex
