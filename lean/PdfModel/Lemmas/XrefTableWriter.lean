import PdfModel.Lemmas.Render
import PdfModel.Spec.XrefTable

/-! The executable table writer of `Spec/XrefTable` only produces texts that the relation `TableText`
    permits, whatever the tape; the fixed 20-byte entry format of ISO 32000-1 §7.5.4 is an instance of
    `EntryText`, and the writer's entries have that format whenever the numbers fit their fields. -/

namespace XrefTableSpec
open PdfSyntax (Gap Bnd NatTok Digits digitsVal isDig Spells)
open PdfSpec (Tape draw gap natTok zeros gap_spec natTok_spec' digitsVal_zeros zeros_digits)
open PdfLex (fmtNat fmtNat_spec gap_append Prim Dict)
open Xref

/-! ### digits -/

theorem dig_le9 : ∀ b : UInt8, isDig b = true → b.toNat - 48 ≤ 9 := by decide +kernel

theorem foldl_digits_lt (ds : List UInt8) (h : Digits ds) :
    ∀ acc, ds.foldl (fun a d => a * 10 + (d.toNat - 48)) acc < (acc + 1) * 10 ^ ds.length := by
  induction ds with
  | nil => intro acc; simp
  | cons d ds ih =>
    intro acc
    have hd := dig_le9 d (h d (by simp))
    have := ih (fun b hb => h b (by simp [hb])) (acc * 10 + (d.toNat - 48))
    simp only [List.foldl_cons, List.length_cons]
    have h2 : (acc * 10 + (d.toNat - 48) + 1) * 10 ^ ds.length ≤ ((acc + 1) * 10) * 10 ^ ds.length :=
      Nat.mul_le_mul_right _ (by omega)
    have h3 : (acc + 1) * 10 * 10 ^ ds.length = (acc + 1) * 10 ^ (ds.length + 1) := by
      rw [Nat.pow_succ, Nat.mul_assoc, Nat.mul_comm 10]
    omega

/-- a string of `k` digits denotes a number below `10^k` -/
theorem digitsVal_lt (ds : List UInt8) (h : Digits ds) : digitsVal ds < 10 ^ ds.length := by
  have := foldl_digits_lt ds h 0
  simpa [digitsVal] using this

theorem zeros_length (k : Nat) : (zeros k).length = k := by
  induction k with
  | zero => rfl
  | succ k ih => simp [zeros, ih]

theorem natDigitsAux_length (fuel : Nat) :
    ∀ (n w : Nat) (acc : List UInt8), n < 10 ^ w → 1 ≤ w →
      (PdfLex.natDigitsAux fuel n acc).length ≤ acc.length + w := by
  induction fuel with
  | zero => intro n w acc _ _; simp [PdfLex.natDigitsAux]
  | succ f ih =>
    intro n w acc hn hw
    simp only [PdfLex.natDigitsAux]
    split
    · simp; omega
    · rename_i hge
      have hw2 : 2 ≤ w := by
        cases w with
        | zero => omega
        | succ w' =>
          cases w' with
          | zero => simp at hn; omega
          | succ w'' => omega
      have hdiv : n / 10 < 10 ^ (w - 1) := by
        have : 10 ^ w = 10 ^ (w - 1) * 10 := by
          rw [← Nat.pow_succ]; congr 1; omega
        rw [this] at hn
        exact Nat.div_lt_of_lt_mul (by rw [Nat.mul_comm]; exact hn)
      have := ih (n / 10) (w - 1) (PdfLex.digitByte (n % 10) :: acc) hdiv (by omega)
      simp at this; omega

theorem fmtNat_length (n w : Nat) (hn : n < 10 ^ w) (hw : 1 ≤ w) : (fmtNat n).length ≤ w := by
  have := natDigitsAux_length (n + 1) n w [] hn hw
  simpa [fmtNat] using this

theorem pad_natTok (w n : Nat) : NatTok (pad w n) n := by
  obtain ⟨hne, hd, hv⟩ := fmtNat_spec n
  unfold pad
  simp only []
  refine ⟨by simp [hne], ?_, ?_⟩
  · intro b hb; simp at hb; rcases hb with hb | hb
    · exact zeros_digits _ b hb
    · exact hd b hb
  · rw [digitsVal_zeros, hv]

theorem pad_length (w n : Nat) (hn : n < 10 ^ w) (hw : 1 ≤ w) : (pad w n).length = w := by
  have := fmtNat_length n w hn hw
  unfold pad
  simp [zeros_length]; omega

/-! ### entries -/

theorem sep_sp : Sep [32] := ⟨Gap.ws 32 [] (by decide) Gap.nil, by simp⟩

theorem eol2_sep (e : List UInt8) (h : Eol2 e) : Sep e := by
  rcases h with rfl | rfl | rfl
  · exact ⟨Gap.ws 32 _ (by decide) (Gap.ws 13 [] (by decide) Gap.nil), by simp⟩
  · exact ⟨Gap.ws 32 _ (by decide) (Gap.ws 10 [] (by decide) Gap.nil), by simp⟩
  · exact ⟨Gap.ws 13 _ (by decide) (Gap.ws 10 [] (by decide) Gap.nil), by simp⟩

theorem eolBytes_eol2 (k : Nat) : Eol2 (eolBytes k) := by
  unfold eolBytes Eol2
  split
  · exact Or.inl rfl
  · split
    · exact Or.inr (Or.inl rfl)
    · exact Or.inr (Or.inr rfl)

/-- **The 20-byte entry** `nnnnnnnnnn ggggg n eol` / `… f eol` with eol ∈ {SP CR, SP LF, CR LF} is an
    instance of `EntryText` (so the reader theorems cover it), and it is 20 bytes long. -/
theorem strict_entry_conformant (e : XRef) (t : List UInt8) (h : StrictEntry e t) :
    EntryText e t ∧ t.length = 20 := by
  obtain ⟨a, b, eol, hla, hlb, hda, hdb, heol, h⟩ := h
  have hane : a ≠ [] := by intro h0; simp [h0] at hla
  have hbne : b ≠ [] := by intro h0; simp [h0] at hlb
  have hva : digitsVal a ≤ u64Max := by
    have := digitsVal_lt a hda; rw [hla] at this; unfold u64Max; omega
  have hvb : digitsVal b ≤ u64Max := by
    have := digitsVal_lt b hdb; rw [hlb] at this; unfold u64Max; omega
  have hl : eol.length = 2 := by rcases heol with rfl | rfl | rfl <;> rfl
  rcases h with ⟨rfl, rfl⟩ | ⟨rfl, rfl⟩
  · refine ⟨?_, by simp [hla, hlb, hl]⟩
    have := EntryText.inuse a [32] b [32] eol (digitsVal a) (digitsVal b) ⟨hane, hda, rfl⟩ ⟨hbne, hdb, rfl⟩
      sep_sp sep_sp (eol2_sep eol heol) hva hvb
    simpa using this
  · refine ⟨?_, by simp [hla, hlb, hl]⟩
    have := EntryText.free a [32] b [32] eol (digitsVal a) (digitsVal b) ⟨hane, hda, rfl⟩ ⟨hbne, hdb, rfl⟩
      sep_sp sep_sp (eol2_sep eol heol) hva hvb
    simpa using this

/-- entries a classic table can hold, with fields that fit the reader's integer types -/
def Writable : XRef → Prop
  | .raw p g => p ≤ u64Max ∧ g ≤ u64Max
  | .free n g => n ≤ u64Max ∧ g ≤ u64Max
  | _ => False

theorem entryBytes_text (e : XRef) (k : Nat) (h : Writable e) : EntryText e (entryBytes e k) := by
  cases e with
  | raw p g =>
    have := EntryText.inuse (pad 10 p) [32] (pad 5 g) [32] (eolBytes k) p g (pad_natTok 10 p) (pad_natTok 5 g)
      sep_sp sep_sp (eol2_sep _ (eolBytes_eol2 k)) h.1 h.2
    simpa [entryBytes] using this
  | free n g =>
    have := EntryText.free (pad 10 n) [32] (pad 5 g) [32] (eolBytes k) n g (pad_natTok 10 n) (pad_natTok 5 g)
      sep_sp sep_sp (eol2_sep _ (eolBytes_eol2 k)) h.1 h.2
    simpa [entryBytes] using this
  | stream _ _ => exact absurd h (by simp [Writable])
  | promised => exact absurd h (by simp [Writable])
  | invalid => exact absurd h (by simp [Writable])

/-- the writer's entry has the fixed format whenever offset and generation fit 10 and 5 digits -/
theorem entryBytes_strict (e : XRef) (k : Nat)
    (h : match e with
      | .raw p g => p < 10 ^ 10 ∧ g < 10 ^ 5
      | .free n g => n < 10 ^ 10 ∧ g < 10 ^ 5
      | _ => False) :
    StrictEntry e (entryBytes e k) := by
  cases e with
  | raw p g =>
    obtain ⟨_, hd1, hv1⟩ := pad_natTok 10 p
    obtain ⟨_, hd2, hv2⟩ := pad_natTok 5 g
    exact ⟨pad 10 p, pad 5 g, eolBytes k, pad_length 10 p h.1 (by omega), pad_length 5 g h.2 (by omega), hd1, hd2,
      eolBytes_eol2 k, Or.inl ⟨by rw [hv1, hv2], by simp [entryBytes]⟩⟩
  | free n g =>
    obtain ⟨_, hd1, hv1⟩ := pad_natTok 10 n
    obtain ⟨_, hd2, hv2⟩ := pad_natTok 5 g
    exact ⟨pad 10 n, pad 5 g, eolBytes k, pad_length 10 n h.1 (by omega), pad_length 5 g h.2 (by omega), hd1, hd2,
      eolBytes_eol2 k, Or.inr ⟨by rw [hv1, hv2], by simp [entryBytes]⟩⟩
  | stream _ _ => exact absurd h (by simp)
  | promised => exact absurd h (by simp)
  | invalid => exact absurd h (by simp)

theorem sep_append_gap {g g' : List UInt8} (h : Sep g) (hg : Gap g') : Sep (g ++ g') :=
  ⟨gap_append h.1 hg, by intro h0; exact h.2 (List.append_eq_nil_iff.mp h0).1⟩

/-- a gap behind an entry belongs to the separator behind its keyword -/
theorem entryText_append_gap (e : XRef) (t g : List UInt8) (h : EntryText e t) (hg : Gap g) : EntryText e (t ++ g) := by
  cases h with
  | inuse a g1 b g2 g3 pos gen ha hb h1 h2 h3 hx hy =>
    have := EntryText.inuse a g1 b g2 (g3 ++ g) pos gen ha hb h1 h2 (sep_append_gap h3 hg) hx hy
    simpa using this
  | free a g1 b g2 g3 nxt gen ha hb h1 h2 h3 hx hy =>
    have := EntryText.free a g1 b g2 (g3 ++ g) nxt gen ha hb h1 h2 (sep_append_gap h3 hg) hx hy
    simpa using this

theorem entriesText_append_gap (es : List XRef) (body g : List UInt8) (h : EntriesText es body) (hne : es ≠ [])
    (hg : Gap g) : EntriesText es (body ++ g) := by
  induction h with
  | nil => exact absurd rfl hne
  | cons e es t ts he hes ih =>
    cases es with
    | nil =>
      cases hes
      have := EntriesText.cons e [] (t ++ g) [] (entryText_append_gap e t g he hg) EntriesText.nil
      simpa using this
    | cons e' es' =>
      have := EntriesText.cons e (e' :: es') t (ts ++ g) he (ih (by simp))
      simpa using this

theorem writeEntries_text (es : List XRef) (h : ∀ e ∈ es, Writable e) :
    ∀ t : Tape, EntriesText es (writeEntries es t).1 := by
  induction es with
  | nil => intro t; exact EntriesText.nil
  | cons e es ih =>
    intro t
    simp only [writeEntries]
    exact EntriesText.cons e es _ _ (entryBytes_text e _ (h e (by simp))) (ih (fun x hx => h x (by simp [hx])) _)

/-- what the writer needs of a subsection: numbers within the reader's types, no compressed entries -/
def SubOK (s : Sub) : Prop := s.first ≤ u32Max ∧ s.entries.length ≤ u32Max ∧ ∀ e ∈ s.entries, Writable e

theorem writeSub_text (s : Sub) (h : SubOK s) (t : Tape) : SubText s (writeSub s t).1 := by
  obtain ⟨hf, hl, hw⟩ := h
  simp only [writeSub]
  generalize ha : natTok s.first t = A
  generalize hg1 : gap true A.2 = G1
  generalize hb : natTok s.entries.length G1.2 = B
  generalize hg2 : gap true B.2 = G2
  generalize hes : writeEntries s.entries G2.2 = ES
  generalize hg3 : gap false ES.2 = G3
  have hA : NatTok A.1 s.first := by rw [← ha]; exact natTok_spec' _ _
  have hB : NatTok B.1 s.entries.length := by rw [← hb]; exact natTok_spec' _ _
  have hG1 : Sep G1.1 := by rw [← hg1]; exact ⟨(gap_spec true _).1, (gap_spec true _).2 rfl⟩
  have hG2 : Sep G2.1 := by rw [← hg2]; exact ⟨(gap_spec true _).1, (gap_spec true _).2 rfl⟩
  have hG3 : Gap G3.1 := by rw [← hg3]; exact (gap_spec false _).1
  have hES : EntriesText s.entries ES.1 := by rw [← hes]; exact writeEntries_text _ hw _
  by_cases hne : s.entries = []
  · -- no entries: the optional gap belongs to the separator behind the count
    have hnil : ES.1 = [] := by
      rw [← hes, hne]; rfl
    refine ⟨A.1, G1.1, B.1, G2.1 ++ G3.1, [], ?_, hA, hB, hG1, sep_append_gap hG2 hG3, hf, hl, ?_⟩
    · simp [hnil]
    · rw [hne]; exact EntriesText.nil
  · exact ⟨A.1, G1.1, B.1, G2.1, ES.1 ++ G3.1, by simp, hA, hB, hG1, hG2, hf, hl,
      entriesText_append_gap _ _ _ hES hne hG3⟩

/-- **The writer is conforming**: whatever the tape, its table is one the relation permits. -/
theorem writeTable_conformant (subs : List Sub) (h : ∀ s ∈ subs, SubOK s) :
    ∀ t : Tape, TableText subs (writeTable subs t).1 := by
  induction subs with
  | nil => intro t; exact TableText.nil
  | cons s ss ih =>
    intro t
    simp only [writeTable]
    exact TableText.cons s ss _ _ (writeSub_text s (h s (by simp)) t) (ih (fun x hx => h x (by simp [hx])) _)

variable {R : Type}

/-- a whole section: the text up to the end of the trailer dictionary is a `SectionText`, the trailer
    dictionary's text is a conformant spelling of it (C03 printer), a gap and the tail follow -/
theorem writeSection_conformant (fmt : R → List UInt8) (pr : List UInt8 → Option R) (subs : List Sub) (d : Dict R)
    (tail : List UInt8) (h : ∀ s ∈ subs, SubOK s) (hr : PdfSpec.Renderable fmt pr (.dict d)) (t : Tape) :
    ∃ sec dtxt g, (writeSection fmt subs d tail t).1 = sec ++ g ++ tail ∧ SectionText subs dtxt sec ∧
      Spells pr (.dict d) dtxt ∧ Gap g := by
  obtain ⟨dtxt, g, hrw, hsp, hg, _⟩ := PdfSpec.renderWithTail_spec fmt pr (.dict d) tail hr t
  simp only [writeSection]
  generalize hT : PdfSpec.renderWithTail fmt (Prim.dict d) tail t = T at hrw
  generalize hg2 : gap false T.2 = G2
  generalize htb : writeTable subs G2.2 = TB
  generalize hg1 : gap true TB.2 = G1
  generalize hg0 : gap false G1.2 = G0
  have hG2 : Gap G2.1 := by rw [← hg2]; exact (gap_spec false _).1
  have hG1 : Sep G1.1 := by rw [← hg1]; exact ⟨(gap_spec true _).1, (gap_spec true _).2 rfl⟩
  have hG0 : Gap G0.1 := by rw [← hg0]; exact (gap_spec false _).1
  have hTB : TableText subs TB.1 := by rw [← htb]; exact writeTable_conformant subs h _
  refine ⟨G0.1 ++ kwXref ++ G1.1 ++ TB.1 ++ kwTrailer ++ G2.1 ++ dtxt, dtxt, g, ?_, ?_, hsp, hg⟩
  · simp [hrw]
  · exact ⟨G0.1, G1.1, TB.1, G2.1, rfl, hG0, hG1, hTB, hG2⟩

end XrefTableSpec
