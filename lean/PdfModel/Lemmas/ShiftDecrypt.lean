import PdfModel.Lemmas.ShiftIndirect

/-!
  The decryption context of the parser (`Model/Parser.lean`: `ctx : Option (id, gen)` + `env.decrypt`).
  With a decryptor that never fails, parsing with the decryptor is parsing without it and then decrypting
  every string of the value with the context's key; without a context (`parse(slice, …)`, the compressed
  branch of `resolve_ref`) the decryptor is not consulted at all.
-/

namespace PdfShift
open PdfLex

variable {R : Type}

mutual
/-- apply `f` to every string of a value -/
def mapStr (f : List UInt8 → List UInt8) : Prim R → Prim R
  | .str s => .str (f s)
  | .stream info inner => .stream (mapStrE f info) inner
  | .dict kvs => .dict (mapStrE f kvs)
  | .arr xs => .arr (mapStrL f xs)
  | .null => .null
  | .int i => .int i
  | .real r => .real r
  | .bool b => .bool b
  | .ref i g => .ref i g
  | .name n => .name n
def mapStrL (f : List UInt8 → List UInt8) : List (Prim R) → List (Prim R)
  | [] => []
  | x :: xs => mapStr f x :: mapStrL f xs
def mapStrE (f : List UInt8 → List UInt8) : List (List UInt8 × Prim R) → List (List UInt8 × Prim R)
  | [] => []
  | (k, v) :: rest => (k, mapStr f v) :: mapStrE f rest
end

/-- what a context does to the strings: nothing without one, `d id gen` with one -/
def ctxFn (d : Nat → Nat → List UInt8 → List UInt8) : Option (Nat × Nat) → List UInt8 → List UInt8
  | none => fun s => s
  | some (i, g) => d i g

/-- the environment with the (never failing) decryptor `d` -/
def withDec (env : Env R) (d : Nat → Nat → List UInt8 → List UInt8) : Env R :=
  { env with decrypt := some fun i g s => .ok (d i g s) }

/-- the environment without a decryptor -/
def noDec (env : Env R) : Env R := { env with decrypt := none }

def decV (d : Nat → Nat → List UInt8 → List UInt8) (ctx : Option (Nat × Nat)) (r : Prim R × Nat) : Prim R × Nat :=
  (mapStr (ctxFn d ctx) r.1, r.2)
def decD (d : Nat → Nat → List UInt8 → List UInt8) (ctx : Option (Nat × Nat)) (r : Dict R × Nat) : Dict R × Nat :=
  (mapStrE (ctxFn d ctx) r.1, r.2)

theorem mapStrL_eq_map (f : List UInt8 → List UInt8) (xs : List (Prim R)) : mapStrL f xs = xs.map (mapStr f) := by
  induction xs with
  | nil => rfl
  | cons x xs ih => simp [mapStrL, ih]

theorem mapStrL_reverse (f : List UInt8 → List UInt8) (xs : List (Prim R)) :
    mapStrL f xs.reverse = (mapStrL f xs).reverse := by simp [mapStrL_eq_map]

theorem dictInsert_mapStr (f : List UInt8 → List UInt8) (d : Dict R) (key : List UInt8) (v : Prim R) :
    dictInsert (mapStrE f d) key (mapStr f v) = mapStrE f (dictInsert d key v) := by
  induction d with
  | nil => rfl
  | cons kv d ih =>
    obtain ⟨a, w⟩ := kv
    simp only [mapStrE, dictInsert]
    split
    · rfl
    · simp only [mapStrE, ih]

theorem dictGet_mapStr (f : List UInt8 → List UInt8) (d : Dict R) (key : List UInt8) :
    dictGet (mapStrE f d) key = (dictGet d key).map (mapStr f) := by
  induction d with
  | nil => rfl
  | cons kv d ih =>
    obtain ⟨a, w⟩ := kv
    simp only [mapStrE, dictGet]
    split
    · rfl
    · exact ih

theorem decryptStr_withDec (env : Env R) (d : Nat → Nat → List UInt8 → List UInt8) (ctx : Option (Nat × Nat)) (s : List UInt8) :
    decryptStr (withDec env d) ctx s = .ok (ctxFn d ctx s) := by
  cases ctx with
  | none => rfl
  | some ig => obtain ⟨i, g⟩ := ig; rfl

theorem decryptStr_noDec (env : Env R) (ctx : Option (Nat × Nat)) (s : List UInt8) :
    decryptStr (noDec env) ctx s = .ok s := by
  cases ctx with
  | none => rfl
  | some ig => obtain ⟨i, g⟩ := ig; rfl

theorem streamTail_dec (env : Env R) (d : Nat → Nat → List UInt8 → List UInt8) (f : List UInt8 → List UInt8)
    (buf : Buf) (q n : Nat) (dict : Dict R) (id : Nat × Nat) :
    streamTail (withDec env d) buf q n (mapStrE f dict) id
      = omap (fun r => (mapStr f r.1, r.2)) (streamTail (noDec env) buf q n dict id) := by
  unfold streamTail
  apply bind_same; intro x
  split
  · rfl
  · apply bind_same; intro q2
    rfl

theorem parseStreamObject_dec (env : Env R) (d : Nat → Nat → List UInt8 → List UInt8) (f : List UInt8 → List UInt8)
    (buf : Buf) (pos : Nat) (dict : Dict R) (id : Nat × Nat) :
    parseStreamObject (withDec env d) buf pos (mapStrE f dict) id
      = omap (fun r => (mapStr f r.1, r.2)) (parseStreamObject (noDec env) buf pos dict id) := by
  unfold parseStreamObject
  apply bind_same; intro q
  rw [dictGet_mapStr]
  cases hg : dictGet dict kwLength with
  | none => rfl
  | some v =>
    cases v with
    | int i =>
      simp only [Option.map_some, mapStr]
      by_cases hi : i ≥ 0
      · simp only [hi, if_true, Out.bind_ok]
        exact streamTail_dec env d f buf q i.toNat dict id
      · simp only [hi, if_false]; rfl
    | ref i g =>
      simp only [Option.map_some, mapStr]
      have hro : (withDec env d).resolveLen i g = (noDec env).resolveLen i g := rfl
      rw [hro]
      cases (noDec env).resolveLen i g with
      | ok n => simp only [Out.bind_ok]; exact streamTail_dec env d f buf q n dict id
      | err => rfl
      | panic => rfl
      | oof => rfl
    | null => rfl
    | real _ => rfl
    | bool _ => rfl
    | str _ => rfl
    | stream _ _ => rfl
    | dict _ => rfl
    | arr _ => rfl
    | name _ => rfl

structure Decs (env : Env R) (d : Nat → Nat → List UInt8 → List UInt8) (buf : Buf) (fuel : Nat) : Prop where
  ctx : ∀ pos ctx flags depth, parseCtx (withDec env d) buf fuel pos ctx flags depth
      = omap (decV d ctx) (parseCtx (noDec env) buf fuel pos ctx flags depth)
  inner : ∀ pos ctx flags depth, parseInner (withDec env d) buf fuel pos ctx flags depth
      = omap (decV d ctx) (parseInner (noDec env) buf fuel pos ctx flags depth)
  arr : ∀ pos ctx depth acc, parseArray (withDec env d) buf fuel pos ctx depth (mapStrL (ctxFn d ctx) acc)
      = omap (decV d ctx) (parseArray (noDec env) buf fuel pos ctx depth acc)
  dict : ∀ pos ctx depth acc, parseDict (withDec env d) buf fuel pos ctx depth (mapStrE (ctxFn d ctx) acc)
      = omap (decD d ctx) (parseDict (noDec env) buf fuel pos ctx depth acc)

theorem parseIntOrRef_decV (d : Nat → Nat → List UInt8 → List UInt8) (ctx : Option (Nat × Nat)) (buf : Buf)
    (posBk : Nat) (first : List UInt8) (flags : Nat) :
    parseIntOrRef (R := R) buf posBk first flags = omap (decV d ctx) (parseIntOrRef buf posBk first flags) := by
  have : ∀ (x : Out (Prim R × Nat)), (∀ v q, x = .ok (v, q) → mapStr (ctxFn d ctx) v = v) → x = omap (decV d ctx) x := by
    intro x hx
    cases x with
    | ok r => obtain ⟨v, q⟩ := r; simp [omap, decV, hx v q rfl]
    | err => rfl
    | panic => rfl
    | oof => rfl
  apply this
  intro v q h
  unfold parseIntOrRef at h
  obtain ⟨_, _, h⟩ := bind_eq_ok h
  obtain ⟨lc, _, h⟩ := bind_eq_ok h
  obtain ⟨la, cur⟩ := lc
  have key : ∀ (x : Out (Prim R × Nat)), x = ((check flags Flags.integer).bind fun _ =>
        (setPos buf cur posBk).bind fun q =>
          match parseI32 first with
          | some i => (Out.ok (Prim.int i, q) : Out (Prim R × Nat))
          | none => .err) → x = .ok (v, q) → mapStr (ctxFn d ctx) v = v := by
    intro x hx hxe
    subst hx
    obtain ⟨_, _, hxe⟩ := bind_eq_ok hxe
    obtain ⟨q', _, hxe⟩ := bind_eq_ok hxe
    cases hp : parseI32 first with
    | none => simp [hp] at hxe
    | some i => simp only [hp] at hxe; cases hxe; rfl
  cases la with
  | none => exact key _ rfl h
  | some ww =>
    simp only at h
    split at h
    · obtain ⟨_, _, h⟩ := bind_eq_ok h
      cases hp1 : parseU64 first with
      | none => simp [hp1] at h
      | some i =>
        simp only [hp1] at h
        cases hp2 : parseU64 (slice buf ww.1.1 ww.1.2) with
        | none => simp [hp2] at h
        | some g => simp only [hp2] at h; cases h; rfl
    · exact key _ rfl h

theorem decs (env : Env R) (d : Nat → Nat → List UInt8 → List UInt8) (buf : Buf) : ∀ fuel, Decs env d buf fuel := by
  intro fuel
  induction fuel with
  | zero =>
    refine ⟨?_, ?_, ?_, ?_⟩
    · intro pos ctx flags depth; simp only [parseCtx]; rfl
    · intro pos ctx flags depth; simp only [parseInner]; rfl
    · intro pos ctx depth acc; simp only [parseArray]; rfl
    · intro pos ctx depth acc; simp only [parseDict]; rfl
  | succ fuel ih =>
    refine ⟨?_, ?_, ?_, ?_⟩
    · intro pos ctx flags depth
      simp only [parseCtx]
      rw [ih.inner]
      cases parseInner (noDec env) buf fuel pos ctx flags depth with
      | ok r => rfl
      | err => simp only [omap]; apply bind_same; intro _; rfl
      | panic => rfl
      | oof => rfl
    · intro pos ctx flags depth
      simp only [parseInner]
      apply bind_same; intro _
      apply bind_same; intro w
      split
      · apply bind_same; intro _
        split
        · rfl
        · have hD := ih.dict w.2 ctx (depth - 1) []
          simp only [mapStrE] at hD
          apply bind_shift _ _ (decD d ctx) (decV d ctx) _ _ hD
          rintro ⟨dict, q⟩
          simp only [decD]
          apply bind_same; intro pk
          split
          · cases ctx with
            | none => rfl
            | some id => exact parseStreamObject_dec env d (ctxFn d (some id)) buf q dict id
          · rfl
      · split
        · exact parseIntOrRef_decV d ctx buf w.2 _ flags
        · split
          · apply bind_same; intro _
            have : (withDec env d).parseReal = (noDec env).parseReal := rfl
            rw [this]
            split <;> rfl
          · split
            · apply bind_same; intro _
              apply bind_same; intro s
              rfl
            · split
              · apply bind_same; intro _
                split
                · rfl
                · have := ih.arr w.2 ctx (depth - 1) []
                  simpa [mapStrL] using this
              · split
                · apply bind_same; intro _
                  apply bind_same; intro _
                  apply bind_same; intro sq
                  apply bind_same; intro q2
                  rw [decryptStr_withDec, decryptStr_noDec]
                  rfl
                · split
                  · apply bind_same; intro _
                    apply bind_same; intro _
                    apply bind_same; intro sq
                    apply bind_same; intro q2
                    rw [decryptStr_withDec, decryptStr_noDec]
                    rfl
                  · split
                    · apply bind_same; intro _; rfl
                    · split
                      · apply bind_same; intro _; rfl
                      · split
                        · apply bind_same; intro _; rfl
                        · apply bind_same; intro _; rfl
    · intro pos ctx depth acc
      simp only [parseArray]
      apply bind_same; intro pk
      split
      · apply bind_same; intro w
        simp only [omap, decV, mapStr, mapStrL_reverse]
      · apply bind_shift _ _ (decV d ctx) (decV d ctx) _ _ (ih.ctx pos ctx Flags.any depth)
        rintro ⟨e, q⟩
        simp only [decV]
        have := ih.arr q ctx depth (e :: acc)
        simpa [mapStrL] using this
    · intro pos ctx depth acc
      simp only [parseDict]
      apply bind_same; intro w
      split
      · apply bind_same; intro key
        apply bind_shift _ _ (decV d ctx) (decD d ctx) _ _ (ih.ctx w.2 ctx Flags.any depth)
        rintro ⟨obj, q⟩
        simp only [decV]
        rw [dictInsert_mapStr]
        exact ih.dict _ _ _ _
      · split <;> rfl

/-- **The decryptor acts on the strings and on nothing else**, with the key of the context. -/
theorem parseCtx_dec (env : Env R) (d : Nat → Nat → List UInt8 → List UInt8) (buf : Buf) (fuel pos : Nat)
    (ctx : Option (Nat × Nat)) (flags depth : Nat) :
    parseCtx (withDec env d) buf fuel pos ctx flags depth
      = omap (decV d ctx) (parseCtx (noDec env) buf fuel pos ctx flags depth) :=
  (decs env d buf fuel).ctx pos ctx flags depth

mutual
theorem mapStr_comp (f g : List UInt8 → List UInt8) : ∀ (v : Prim R), mapStr g (mapStr f v) = mapStr (fun s => g (f s)) v
  | .str s => rfl
  | .stream info inner => by simp only [mapStr, mapStrE_comp f g info]
  | .dict kvs => by simp only [mapStr, mapStrE_comp f g kvs]
  | .arr xs => by simp only [mapStr, mapStrL_comp f g xs]
  | .null => rfl
  | .int _ => rfl
  | .real _ => rfl
  | .bool _ => rfl
  | .ref _ _ => rfl
  | .name _ => rfl
theorem mapStrL_comp (f g : List UInt8 → List UInt8) : ∀ (xs : List (Prim R)), mapStrL g (mapStrL f xs) = mapStrL (fun s => g (f s)) xs
  | [] => rfl
  | x :: xs => by simp only [mapStrL, mapStr_comp f g x, mapStrL_comp f g xs]
theorem mapStrE_comp (f g : List UInt8 → List UInt8) : ∀ (kvs : List (List UInt8 × Prim R)),
    mapStrE g (mapStrE f kvs) = mapStrE (fun s => g (f s)) kvs
  | [] => rfl
  | (k, v) :: rest => by simp only [mapStrE, mapStr_comp f g v, mapStrE_comp f g rest]
end

mutual
theorem mapStr_id (f : List UInt8 → List UInt8) (hf : ∀ s, f s = s) : ∀ (v : Prim R), mapStr f v = v
  | .str s => by simp only [mapStr, hf]
  | .stream info inner => by simp only [mapStr, mapStrE_id f hf info]
  | .dict kvs => by simp only [mapStr, mapStrE_id f hf kvs]
  | .arr xs => by simp only [mapStr, mapStrL_id f hf xs]
  | .null => rfl
  | .int _ => rfl
  | .real _ => rfl
  | .bool _ => rfl
  | .ref _ _ => rfl
  | .name _ => rfl
theorem mapStrL_id (f : List UInt8 → List UInt8) (hf : ∀ s, f s = s) : ∀ (xs : List (Prim R)), mapStrL f xs = xs
  | [] => rfl
  | x :: xs => by simp only [mapStrL, mapStr_id f hf x, mapStrL_id f hf xs]
theorem mapStrE_id (f : List UInt8 → List UInt8) (hf : ∀ s, f s = s) : ∀ (kvs : List (List UInt8 × Prim R)), mapStrE f kvs = kvs
  | [] => rfl
  | (k, v) :: rest => by simp only [mapStrE, mapStr_id f hf v, mapStrE_id f hf rest]
end

/-- a decryptor that inverts the encryptor gives the plaintext value back -/
theorem mapStr_inverts (e d : List UInt8 → List UInt8) (h : ∀ s, d (e s) = s) (v : Prim R) :
    mapStr d (mapStr e v) = v := by
  rw [mapStr_comp]; exact mapStr_id _ h v

/-- `parse_indirect_object` with a decryptor: the strings of the object are decrypted with the key of the
    object's own number and generation (the header the parser has just read) -/
theorem parseIndirectObject_dec (env : Env R) (d : Nat → Nat → List UInt8 → List UInt8) (buf : Buf) (fuel pos flags : Nat) :
    parseIndirectObject (withDec env d) buf fuel pos flags
      = omap (fun r => ((r.1.1, mapStr (d r.1.1.1 r.1.1.2) r.1.2), r.2)) (parseIndirectObject (noDec env) buf fuel pos flags) := by
  unfold parseIndirectObject
  apply bind_same
  rintro ⟨id, q⟩
  simp only
  apply bind_shift _ _ (decV d (some id)) _ _ _ (parseCtx_dec env d buf fuel q (some id) flags maxDepth)
  rintro ⟨obj, q2⟩
  simp only [decV]
  have hm : (withDec env d).allowMissingEndobj = (noDec env).allowMissingEndobj := rfl
  rw [hm]
  obtain ⟨i, g⟩ := id
  split
  · cases nextExpect buf q2 kwEndobj with
    | ok q3 => rfl
    | err => simp only; apply bind_same; intro q4; rfl
    | panic => rfl
    | oof => rfl
  · apply bind_same; intro q3; rfl

/-- without a context — `parse(slice, resolve, flags)`, the compressed branch — the decryptor is not consulted -/
theorem parse_ignores_decryptor (env : Env R) (d : Nat → Nat → List UInt8 → List UInt8) (buf : Buf) (flags : Nat) :
    parse (withDec env d) buf flags = parse (noDec env) buf flags := by
  unfold parse parseWithLexer
  rw [parseCtx_dec]
  cases parseCtx (noDec env) buf (defaultFuel buf) 0 none flags maxDepth with
  | ok r => obtain ⟨v, q⟩ := r; simp [omap, decV, ctxFn, mapStr_id (fun s => s) (fun _ => rfl) v]
  | err => rfl
  | panic => rfl
  | oof => rfl

end PdfShift
