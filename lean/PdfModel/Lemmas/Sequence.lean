import PdfModel.Lemmas.Parser

/-! Sequences of objects: each parse consumes exactly its own text. -/

namespace PdfLex
open PdfSyntax (Gap Bnd Spells needsBnd WF vdepth need)

variable {R : Type}

/-- an object of a sequence: the value, its text, the gap after it -/
abbrev Item (R : Type) := Prim R × List UInt8 × List UInt8

/-- the text of a sequence of objects -/
def seqText : List (Item R) → List UInt8
  | [] => []
  | (_, tx, g) :: r => tx ++ g ++ seqText r

/-- a conformant sequence: every text spells its value, gaps are gaps, a value that ends in a regular
    character is followed by a gap or a delimiter (the last object carries no gap of its own: what follows the
    sequence is `rest`) -/
def SeqOK (pr : List UInt8 → Option R) (rest : List UInt8) : List (Item R) → Prop
  | [] => True
  | (v, tx, g) :: r => Spells pr v tx ∧ WF v ∧ vdepth v ≤ maxDepth ∧ Gap g ∧ (r = [] → g = []) ∧
      (needsBnd v = true → Bnd (g ++ seqText r ++ rest)) ∧ SeqOK pr rest r

/-- what parsing the sequence from `pos` must return: each value with the cursor right after its text -/
def seqExpected (pos : Nat) : List (Item R) → List (Prim R × Nat)
  | [] => []
  | (v, tx, g) :: r => (v, pos + tx.length) :: seqExpected (pos + tx.length + g.length) r

/-- `n` times `parse_with_lexer` on the same lexer -/
def parseSeq (env : Env R) (buf : Buf) (fuel : Nat) : Nat → Nat → Out (List (Prim R × Nat))
  | 0, _ => .ok []
  | n + 1, pos =>
    (parseWithLexer env buf fuel pos Flags.any).bind fun r =>
    (parseSeq env buf fuel n r.2).bind fun rs => .ok (r :: rs)

def seqNeed : List (Item R) → Nat
  | [] => 0
  | (v, _, _) :: r => max (need v) (seqNeed r)

/-- what follows an object of a sequence never merges with it -/
theorem ahead_seq (pr : List UInt8 → Option R) (items : List (Item R)) :
    ∀ {buf : Buf} (g rest : List UInt8) (q : Nat), SeqOK pr rest items → Gap g → (items = [] → g = []) →
      Suffix buf q (g ++ seqText items ++ rest) → Ahead buf (q + g.length + (seqText items).length) → Ahead buf q := by
  induction items with
  | nil =>
    intro buf g rest q _ hg hnil hs hah
    rw [hnil rfl] at hah
    simpa [seqText] using hah
  | cons it items ih =>
    obtain ⟨v, tx, g'⟩ := it
    intro buf g rest q hok hg _ hs hah
    simp only [SeqOK] at hok
    obtain ⟨hx, _, _, hg', hlast, hbnd, hrest⟩ := hok
    simp only [seqText] at hs hah
    have hs1 : Suffix buf q (g ++ tx ++ (g' ++ seqText items ++ rest)) := by simpa using hs
    obtain ⟨k, t, hk, hn, hsl, hf, hint⟩ := spells_first pr v tx hx g (g' ++ seqText items ++ rest) q hg hs1
      (fun hb => by simpa using hbnd hb)
    refine ahead_of_lexeme _ t hn hsl hf.neR hf.neStream ?_
    intro hi
    rcases hint hi with ⟨hk', _⟩ | hnr
    · subst hk'
      have hs2 : Suffix buf (q + g.length + tx.length) (g' ++ seqText items ++ rest) := by
        have := Suffix.drop (a := g ++ tx) (by simpa using hs1)
        simpa [Nat.add_assoc] using this
      refine (ih g' rest _ hrest hg' hlast hs2 ?_).notR
      have e : q + g.length + tx.length + g'.length + (seqText items).length =
          q + g.length + (tx ++ g' ++ seqText items).length := by simp; omega
      rw [e]; exact hah
    · exact hnr

/-- **each parse consumes exactly its own text**: parsing `n` objects in a row from a conformant sequence
    returns the `n` values, each with the cursor right after its own text -/
theorem parseSeq_spells (env : Env R) (hd : env.decrypt = none) (items : List (Item R)) :
    ∀ {buf : Buf}, buf.size ≤ 2147483647 → ∀ (g0 rest : List UInt8) (pos fuel : Nat), SeqOK env.parseReal rest items →
      Gap g0 → Suffix buf pos (g0 ++ seqText items ++ rest) →
      Ahead buf (pos + g0.length + (seqText items).length) → seqNeed items ≤ fuel →
      parseSeq env buf fuel items.length pos = .ok (seqExpected (pos + g0.length) items) := by
  induction items with
  | nil => intro buf _ g0 rest pos fuel _ _ _ _ _; rfl
  | cons it items ih =>
    obtain ⟨v, tx, g'⟩ := it
    intro buf hsz g0 rest pos fuel hok hg0 hs hah hfuel
    simp only [SeqOK] at hok
    obtain ⟨hx, hwf, hdep, hg', hlast, hbnd, hrest⟩ := hok
    simp only [seqText] at hs hah
    simp only [seqNeed] at hfuel
    have hs1 : Suffix buf pos (g0 ++ tx ++ (g' ++ seqText items ++ rest)) := by simpa using hs
    have hs2 : Suffix buf (pos + g0.length + tx.length) (g' ++ seqText items ++ rest) := by
      have := Suffix.drop (a := g0 ++ tx) (by simpa using hs1)
      simpa [Nat.add_assoc] using this
    have e : pos + g0.length + tx.length + g'.length + (seqText items).length =
        pos + g0.length + (tx ++ g' ++ seqText items).length := by simp; omega
    have hah2 : Ahead buf (pos + g0.length + tx.length + g'.length + (seqText items).length) := by rw [e]; exact hah
    have hv := parseCtx_spells env hd v tx hx hwf hsz g0 (g' ++ seqText items ++ rest) pos fuel none maxDepth Flags.any hg0
      (any_allows v) hs1
      (fun hb => by simpa using hbnd hb) (ahead_seq env.parseReal items g' rest _ hrest hg' hlast hs2 hah2) (by omega) hdep
    have hrec := ih hsz g' rest (pos + g0.length + tx.length) fuel hrest hg' hs2 hah2 (by omega)
    simp only [List.length_cons, parseSeq, parseWithLexer, hv, Out.bind_ok, hrec, seqExpected]


/-! ### the fuel of the public entry points suffices -/

open PdfSyntax (SpellsElems SpellsEntries needL needE)

mutual
theorem need_bound (pr : List UInt8 → Option R) (v : Prim R) : ∀ txt, Spells pr v txt → need v + 1 ≤ 3 * txt.length := by
  intro txt h
  have hne := spells_ne_nil pr v txt h
  have hlen : 1 ≤ txt.length := by cases txt with | nil => exact absurd rfl hne | cons => simp
  cases v with
  | arr xs =>
    simp only [Spells] at h
    obtain ⟨g, r, rfl, _, hr⟩ := h
    have := needL_bound pr xs r hr
    simp [need]; omega
  | dict kvs =>
    simp only [Spells] at h
    obtain ⟨g, r, rfl, _, hr⟩ := h
    have := needE_bound pr kvs r hr
    simp [need]; omega
  | stream info inner => simp [Spells] at h
  | null => simp [need]; omega
  | int i => simp [need]; omega
  | real r => simp [need]; omega
  | bool b => simp [need]; omega
  | str s => simp [need]; omega
  | name s => simp [need]; omega
  | ref a b => simp [need]; omega
theorem needL_bound (pr : List UInt8 → Option R) (xs : List (Prim R)) : ∀ r, SpellsElems pr xs r → needL xs ≤ 3 * r.length := by
  intro r h
  cases xs with
  | nil => simp only [SpellsElems] at h; subst h; simp [needL]
  | cons x xs =>
    simp only [SpellsElems] at h
    obtain ⟨tx, g, r', rfl, hx, _, hr', _⟩ := h
    have h1 := need_bound pr x tx hx
    have h2 := needL_bound pr xs r' hr'
    simp [needL]; omega
theorem needE_bound (pr : List UInt8 → Option R) (kvs : List (List UInt8 × Prim R)) :
    ∀ r, SpellsEntries pr kvs r → needE kvs ≤ 3 * r.length := by
  intro r h
  cases kvs with
  | nil => simp only [SpellsEntries] at h; subst h; simp [needE]
  | cons kv kvs =>
    obtain ⟨k, v⟩ := kv
    simp only [SpellsEntries] at h
    obtain ⟨kb, g1, tv, g2, r', rfl, _, _, _, hv, _, hr', _⟩ := h
    have h1 := need_bound pr v tv hv
    have h2 := needE_bound pr kvs r' hr'
    simp [needE]; omega
end


/-- the fuel a sequence needs is the largest need of its values -/
theorem seqNeed_le (items : List (Item R)) (n : Nat) (h : ∀ x ∈ items.map (·.1), need x ≤ n) : seqNeed items ≤ n := by
  induction items with
  | nil => simp [seqNeed]
  | cons it items ih =>
    obtain ⟨v, tx, g⟩ := it
    simp only [seqNeed]
    have h1 := h v (by simp)
    have h2 := ih (fun x hx => h x (by simp at hx ⊢; exact Or.inr hx))
    omega

end PdfLex
