import PdfModel.Model.ContentBytes
import PdfModel.Lemmas.ContentSim

/-! C08 byte level, part 1: one iteration of the writer, as items (`serItems`) and as tokens (`serOne`), is the
    same thing: same look-ahead decisions, same `advance`, same state, and the tokens are the items turned into
    tokens one by one. -/

namespace ContentBytes
open Content

section
variable {R : Type} (ro : RealOps R)

/-- the token the reader sees for an item (`cfg`: state of D9, see `Model/Content`) -/
def itemTok (cfg : Cfg) : Item R → Tok R
  | .num r => numTok ro r
  | .nat n => .prim (.int n)
  | .name s => .prim (.name s)
  | .str bs => .prim (.str bs)
  | .prim p => primTok ro cfg p
  | .nums xs => numArrayTok ro xs
  | .tda xs => tdaArrayTok ro xs

theorem colorToks_items (cfg : Cfg) (stroke : Bool) (c : Color R) :
    colorToks ro cfg stroke c = (colorItems stroke c).1.map (itemTok ro cfg) ++ [.kw (colorItems stroke c).2] := by
  cases c <;> simp [colorToks, colorItems, itemTok, Function.comp_def]

/-- `serOne` is `serItems` with every item turned into its token -/
theorem serOne_items (cfg : Cfg) (s : SState R) (op : Op R) (rest : List (Op R)) :
    serOne ro cfg s op rest =
      (serItems ro s op rest).map fun x =>
        ⟨x.operands.map (itemTok ro cfg) ++ [.kw x.kw], x.extra, x.st⟩ := by
  cases op
  case beginMarkedContent tag p => cases p <;> simp [serOne, serItems, itemTok]
  case markedContentPoint tag p => cases p <;> simp [serOne, serItems, itemTok]
  case fillAndStroke w => cases w <;> simp [serOne, serItems]
  case fill w => cases w <;> simp [serOne, serItems]
  case clip w => cases w <;> simp [serOne, serItems]
  case close => simp only [serOne, serItems]; split <;> simp
  case textNewline => simp only [serOne, serItems]; split <;> simp [itemTok]
  case wordSpacing ws => simp only [serOne, serItems]; split <;> simp [itemTok]
  case leading l => simp only [serOne, serItems]; split <;> (try split) <;> simp_all [itemTok, ptToks, ptItems]
  case curveTo c1 c2 p => simp only [serOne, serItems]; split <;> (try split) <;> simp_all [itemTok, ptToks, ptItems]
  case strokeColor c => simp [serOne, serItems, colorToks_items]
  case fillColor c => simp [serOne, serItems, colorToks_items]
  all_goals simp [serOne, serItems, itemTok, ptToks, ptItems, matrixToks, matrixItems]

end
end ContentBytes
