import PdfModel.Model.CacheDoc
import PdfModel.Lemmas.Cache

/-! Soundness of the decidable domain check `CacheDoc.okRanks`: a description that passes it gives a
document (`toDoc`) satisfying the hypothesis `WF` of the C12 / C13 theorems, and the call kinds of the
property are admissible calls (`Fine … (fun _ => True)`). The model driver evaluates `okRanks` on every
generated document, so the generated cases are certified to lie in the domain of the theorems. -/

namespace CacheDoc
open Cache

theorem find_mem {d : Desc} {id : Nat} {o : Obj} (h : d.find id = some o) : o ∈ d.objs ∧ o.id = id := by
  unfold Desc.find at h
  exact ⟨List.mem_of_find?_eq_some h, by simpa using List.find?_some h⟩

theorem dep_lt {d : Desc} (hok : okRanks d = true) {id : Nat} {o : Obj} (hf : d.find id = some o) {x : Nat}
    (hx : x ∈ depsOf d id) : rk d x < rk d id := by
  obtain ⟨hm, hid⟩ := find_mem hf
  unfold okRanks at hok
  rw [List.all_eq_true] at hok
  have := hok o hm
  rw [hid, List.all_eq_true] at this
  simpa using this x hx

theorem stm_dep {d : Desc} {id sid idx : Nat} {o : Obj} (hf : d.find id = some o) (hp : o.place = .inStm sid idx) :
    sid ∈ depsOf d id := by
  unfold depsOf
  rw [hf]
  simp [hp]

theorem errP_fine (filt : Nat → List Nat) (P : Nat → Prop) (e : String) : Fine filt P (errP e) := .ret _ (by simp)
theorem okP_fine (filt : Nat → List Nat) (P : Nat → Prop) (v : Val) : Fine filt P (okP v) := .ret _ (by simp)

theorem rawP_fine {d : Desc} (hok : okRanks d = true) (id : Nat) :
    Fine (filtersOf d) (fun r' => rk d r' < rk d id) (rawP d id) := by
  unfold rawP
  cases hf : d.find id with
  | none =>
    simp only
    split
    · exact errP_fine _ _ _
    · split <;> exact errP_fine _ _ _
  | some o =>
    simp only
    cases hp : o.place with
    | free => exact errP_fine _ _ _
    | direct => exact okP_fine _ _ _
    | inStm sid idx =>
      simp only
      refine .get _ _ _ (dep_lt hok hf (stm_dep hf hp)) fun x hx => ?_
      cases x with
      | oof => exact absurd rfl hx
      | err e => exact errP_fine _ _ _
      | ok v =>
        cases v with
        | objstm i n =>
          simp only
          split
          · refine .data _ _ _ rfl fun y hy => ?_
            cases y with
            | oof => exact absurd rfl hy
            | err e => exact errP_fine _ _ _
            | ok w => exact okP_fine _ _ _
          · exact errP_fine _ _ _
        | _ => exact errP_fine _ _ _

theorem bindRaw_fine {filt : Nat → List Nat} {P : Nat → Prop} {p : CacheDoc.P} {f : Nat → CacheDoc.P}
    (hp : Fine filt P p) (hf : ∀ i, Fine filt P (f i)) : Fine filt P (bindRaw p f) := by
  induction hp with
  | ret x hx =>
    cases x with
    | oof => exact absurd rfl hx
    | err e => exact .ret _ (by simp)
    | ok v => cases v <;> first | exact hf _ | exact errP_fine _ _ _
  | get T r k hr _ ih => exact .get T r _ hr fun y hy => ih y hy
  | data r fs k hfs _ ih => exact .data r fs _ hfs fun y hy => ih y hy

theorem parentP_fine {d : Desc} {P : Nat → Prop} (p : Nat) (optional : Bool) (k : Val → CacheDoc.P)
    (hp : P p) (hk : ∀ v, Fine (filtersOf d) P (k v)) : Fine (filtersOf d) P (parentP d p optional k) := by
  unfold parentP
  refine .get _ _ _ hp fun x hx => ?_
  cases x with
  | oof => exact absurd rfl hx
  | err e =>
    simp only
    split
    · exact hk _
    · exact errP_fine _ _ _
  | ok v =>
    cases v with
    | tree i q ks c => exact hk _
    | _ =>
      simp only
      split
      · exact hk _
      · exact errP_fine _ _ _

theorem pageRefP_fine {d : Desc} {P : Nat → Prop} (p : Nat) (k : CacheDoc.P)
    (hp : P p) (hk : Fine (filtersOf d) P k) : Fine (filtersOf d) P (pageRefP d p k) := by
  unfold pageRefP
  refine .get _ _ _ hp fun x hx => ?_
  cases x with
  | oof => exact absurd rfl hx
  | err e =>
    simp only
    split
    · exact hk
    · exact errP_fine _ _ _
  | ok v =>
    cases v with
    | leaf i q => exact hk
    | _ =>
      simp only
      split
      · exact hk
      · exact errP_fine _ _ _

theorem annotsLoop_fine {d : Desc} {P : Nat → Prop} : ∀ (ids acc : List Nat), (∀ a ∈ ids, P a) →
    Fine (filtersOf d) P (annotsLoop ids acc) := by
  intro ids
  induction ids with
  | nil => intro acc _; exact okP_fine _ _ _
  | cons a rest ih =>
    intro acc h
    simp only [annotsLoop]
    refine .get _ _ _ (h a (by simp)) fun x hx => ?_
    cases x with
    | oof => exact absurd rfl hx
    | err e => exact errP_fine _ _ _
    | ok v => exact ih _ fun b hb => h b (by simp [hb])

/-- the initialiser of a `Lazy` annotation array (given directly, by reference, or absent) -/
theorem lazyInit_fine (d : Desc) (f : CellForm) : Fine (filtersOf d) (fun _ => True) (lazyInit f) := by
  cases f with
  | direct ids => exact annotsLoop_fine ids [] fun _ _ => trivial
  | absent => exact okP_fine _ _ _
  | ref r =>
    refine .get _ _ _ trivial fun x hx => ?_
    cases x with
    | oof => exact absurd rfl hx
    | ok v => exact okP_fine _ _ _
    | err e =>
      simp only
      split
      · exact okP_fine _ _ _
      · exact errP_fine _ _ _

theorem fromPrim_fine {d : Desc} (hok : okRanks d = true) (T id : Nat) (o : Obj) (hf : d.find id = some o) :
    Fine (filtersOf d) (fun r' => rk d r' < rk d id) (fromPrim d T id o.kind) := by
  have hdep : ∀ x, x ∈ depsOf d id → rk d x < rk d id := fun x hx => dep_lt hok hf hx
  have hdeps : depsOf d id = (match o.place with | .inStm sid _ => [sid] | _ => []) ++
      (match o.kind with
        | .pages p _ _ => if p = 0 then [] else [p]
        | .page p => [p]
        | .cat p => [p]
        | .annot p => if p = 0 then [] else [p]
        | .annots ids => ids
        | _ => []) := by
    unfold depsOf; rw [hf]
    try rfl
  unfold fromPrim
  split
  · exact okP_fine _ _ _
  split
  · split <;> first | exact okP_fine _ _ _ | exact errP_fine _ _ _
  split
  · split <;> first | exact okP_fine _ _ _ | exact errP_fine _ _ _
  split
  · -- PagesNode
    split
    · rename_i parent kids count hk
      split
      · exact okP_fine _ _ _
      · rename_i hne
        refine parentP_fine parent true _ (hdep parent ?_) fun v => okP_fine _ _ _
        rw [hdeps, hk]; simp [hne]
    · rename_i parent hk
      refine parentP_fine parent false _ (hdep parent ?_) fun v => okP_fine _ _ _
      rw [hdeps, hk]; simp
    · exact errP_fine _ _ _
  split
  · -- Catalog
    split
    · rename_i pages hk
      refine parentP_fine pages false _ (hdep pages ?_) fun v => okP_fine _ _ _
      rw [hdeps, hk]; simp
    · exact errP_fine _ _ _
  split
  · split <;> first | exact okP_fine _ _ _ | exact errP_fine _ _ _
  split
  · split <;> first | exact okP_fine _ _ _ | exact errP_fine _ _ _
  split
  · -- ObjectStream: reads its own data with its own filters
    split
    · rename_i n fs st hk
      have hfs : fs = filtersOf d id := by
        unfold filtersOf; rw [hf]
        show fs = o.kind.filters
        rw [hk]; rfl
      refine .data _ _ _ hfs fun y hy => ?_
      cases y with
      | oof => exact absurd rfl hy
      | err e => exact errP_fine _ _ _
      | ok w => exact okP_fine _ _ _
    · exact errP_fine _ _ _
  split
  · -- Annot
    split
    · rename_i page hk
      unfold annotP
      split
      · exact okP_fine _ _ _
      · rename_i hne
        refine pageRefP_fine page _ (hdep page ?_) (okP_fine _ _ _)
        rw [hdeps, hk]; simp [hne]
    · exact errP_fine _ _ _
  split
  · -- Vec<MaybeRef<Annot>>
    split
    · rename_i ids hk
      refine annotsLoop_fine ids [] fun a ha => hdep a ?_
      rw [hdeps, hk]; simp [ha]
    · rename_i page hk
      unfold annotP
      split
      · exact okP_fine _ _ _
      · rename_i hne
        refine pageRefP_fine page _ (hdep page ?_) (okP_fine _ _ _)
        rw [hdeps, hk]; simp [hne]
    · exact errP_fine _ _ _
  · exact errP_fine _ _ _

theorem bodyD_fine {d : Desc} (hok : okRanks d = true) (T id : Nat) :
    Fine (filtersOf d) (fun r' => rk d r' < rk d id) (bodyD d T id) := by
  unfold bodyD
  refine bindRaw_fine (rawP_fine hok id) fun _ => ?_
  cases hf : d.find id with
  | none => exact errP_fine _ _ _
  | some o => exact fromPrim_fine hok T id o hf

theorem decodeD_ne_oof (d : Desc) (id : Nat) (fs : List Nat) : decodeD d id fs ≠ .oof := by
  unfold decodeD
  split
  · split
    · split <;> simp
    · simp
  · simp

/-- **Soundness of the domain check.** -/
theorem wf_of_okRanks {d : Desc} (hok : okRanks d = true) : WF (toDoc d) (filtersOf d) (rk d) :=
  ⟨fun T r => bodyD_fine hok T r, fun r => rawP_fine hok r, fun r fs => decodeD_ne_oof d r fs⟩

theorem rkF_le (d : Desc) : ∀ f id, rkF d f id ≤ f := by
  intro f
  induction f with
  | zero => intro id; simp [rkF]
  | succ f ih =>
    intro id
    simp only [rkF]
    have : ∀ (l : List Nat) (m : Nat), m ≤ f + 1 → l.foldl (fun m x => max m (rkF d f x + 1)) m ≤ f + 1 := by
      intro l
      induction l with
      | nil => intro m hm; exact hm
      | cons x xs ihl =>
        intro m hm
        simp only [List.foldl_cons]
        apply ihl
        have := ih x
        omega
    exact this _ 0 (by omega)

theorem rk_lt (d : Desc) (r : Nat) : rk d r < d.objs.length + 2 := by
  have := rkF_le d (d.objs.length + 1) r
  unfold rk
  omega

/-! ### the call kinds are admissible calls -/

theorem getP_fine (filt : Nat → List Nat) (T id : Nat) : Fine filt (fun _ => True) (getP T id) :=
  .get T id _ trivial fun x hx => .ret x hx

theorem resolve_fine {d : Desc} (hok : okRanks d = true) (id : Nat) : Fine (filtersOf d) (fun _ => True) (rawP d id) :=
  (rawP_fine hok id).mono fun _ _ => trivial

theorem sdataP_fine (d : Desc) (id : Nat) : Fine (filtersOf d) (fun _ => True) (sdataP d id) := by
  unfold sdataP
  refine .get _ _ _ trivial fun x hx => ?_
  cases x with
  | oof => exact absurd rfl hx
  | err e => exact errP_fine _ _ _
  | ok v => exact .data _ _ _ rfl fun y hy => .ret y hy

theorem take_of_drop_isEmpty (fs : List Nat) (e : Nat) (h : (fs.drop e).isEmpty = true) : fs.take e = fs := by
  have : fs.drop e = [] := by simpa using h
  have hl : fs.length ≤ e := by
    rw [List.drop_eq_nil_iff] at this; exact this
  exact List.take_of_length_le hl

theorem rawimgK_fine (d : Desc) (id : Nat) (k : String → Nat → CacheDoc.P)
    (hk : ∀ h f, Fine (filtersOf d) (fun _ => True) (k h f)) :
    Fine (filtersOf d) (fun _ => True) (rawimgK d false id k) := by
  unfold rawimgK
  refine .get _ _ _ trivial fun x hx => ?_
  cases x with
  | oof => exact absurd rfl hx
  | err e => exact errP_fine _ _ _
  | ok v =>
    simp only
    have fin_fine : ∀ y : R, y ≠ .oof → Fine (filtersOf d) (fun _ => True)
        (match y with
          | .ok (.bytes h) =>
            match (filtersOf d id).drop (imageSplit (filtersOf d id)) with
            | [] => k h 0
            | [f] => if f = 6 || f = 4 then k h f else errP "E"
            | _ => errP "E"
          | .ok _ => errP "E"
          | .err er => errP er
          | .oof => oofP) := by
      intro y hy
      cases y with
      | oof => exact absurd rfl hy
      | err e => exact errP_fine _ _ _
      | ok w =>
        cases w with
        | bytes h =>
          simp only
          split
          · exact hk _ _
          · split
            · exact hk _ _
            · exact errP_fine _ _ _
          · exact errP_fine _ _ _
        | _ => exact errP_fine _ _ _
    split
    · rename_i hcond
      simp only [Bool.or_false] at hcond
      exact .data _ _ _ (take_of_drop_isEmpty _ _ hcond) fun y hy => fin_fine y hy
    · exact fin_fine _ (decodeD_ne_oof d id _)

theorem rawimgP_fine (d : Desc) (id : Nat) : Fine (filtersOf d) (fun _ => True) (rawimgP d id) :=
  rawimgK_fine d id _ fun _ _ => okP_fine _ _ _

theorem imgdataP_fine (d : Desc) (id : Nat) : Fine (filtersOf d) (fun _ => True) (imgdataP d id) := by
  refine rawimgK_fine d id _ fun h f => ?_
  split
  · exact okP_fine _ _ _
  · have := decodeD_ne_oof d id (filtersOf d id)
    cases hdec : decodeD d id (filtersOf d id) with
    | ok v => exact okP_fine _ _ _
    | err e => exact errP_fine _ _ _
    | oof => exact absurd hdec this

theorem pageLoop_fine (filt : Nat → List Nat) : ∀ (dep : Nat) (kids : List Nat) (pos n : Nat),
    Fine filt (fun _ => True) (pageLoop dep kids pos n) := by
  intro dep kids pos n
  fun_induction pageLoop dep kids pos n with
  | case1 => exact errP_fine _ _ _
  | case2 => exact errP_fine _ _ _
  | case3 pos n dep kid rest ih1 ih2 ih3 =>
    refine .get _ _ _ trivial fun x hx => ?_
    cases x with
    | oof => exact absurd rfl hx
    | err e => exact errP_fine _ _ _
    | ok v =>
      cases v with
      | tree i q ks c =>
        simp only
        split
        · rename_i hc
          first | exact ih1 ks c hc | exact ih1 ks c | exact ih1 ks | (apply ih1 <;> assumption)
        · rename_i hc
          first | exact ih2 c hc | exact ih2 c | exact ih2 | (apply ih2 <;> assumption)
      | leaf i p =>
        simp only
        split
        · exact okP_fine _ _ _
        · rename_i hc
          first | exact ih3 | exact ih3 hc | (apply ih3 <;> assumption)
      | _ => exact errP_fine _ _ _

theorem pageP_fine (filt : Nat → List Nat) (root : R) (n : Nat) : Fine filt (fun _ => True) (pageP root n) := by
  unfold pageP
  split
  · exact pageLoop_fine filt _ _ _ _
  · exact errP_fine _ _ _

/-- every call kind of the property is an admissible call on a description that passes the check -/
theorem callK_fine {d : Desc} (hok : okRanks d = true) (root : R) (c : CallK) :
    Fine (filtersOf d) (fun _ => True) (c.prog d root) := by
  cases c with
  | get T id => exact getP_fine _ T id
  | resolve id => exact resolve_fine hok id
  | sdata id => exact sdataP_fine d id
  | rawimg id => exact rawimgP_fine d id
  | imgdata id => exact imgdataP_fine d id
  | page n => exact pageP_fine _ root n

end CacheDoc
