import PdfModel.Spec.Render
import PdfModel.Lemmas.Parser
import PdfModel.Lemmas.Serialize
import PdfModel.Lemmas.Sequence

/-! The randomized printer of `Spec/Render` only produces conformant spellings (`Spec/Syntax`), whatever the
    tape: so every rendering the harness generates lies in the domain of the C03 theorems. -/

namespace PdfSpec
open PdfLex
open PdfSyntax (Gap Bnd NatTok IntTok NameBody HexBody LitBody HexWs Spells SpellsElems SpellsEntries Digits digitsVal)

/-! ### gaps -/

theorem wsByte_ws (i : Nat) : PdfSyntax.isWs (wsByte i) = true := by
  unfold wsByte
  split <;> decide

theorem commentBody_spec (k : Nat) (t : Tape) : ∀ b ∈ (commentBody k t).1, b ≠ 10 ∧ b ≠ 13 := by
  induction k generalizing t with
  | zero => simp [commentBody]
  | succ k ih =>
    intro b hb
    simp only [commentBody] at hb
    simp at hb
    rcases hb with rfl | hb
    · split
      · decide
      · rename_i h
        simp at h
        constructor
        · intro e
          have := congrArg UInt8.toNat e
          simp at this
          have hlt : (draw 256 t).1 < 256 := by
            unfold draw; split <;> simp <;> omega
          rw [Nat.mod_eq_of_lt hlt] at this
          exact h.1 this
        · intro e
          have := congrArg UInt8.toNat e
          simp at this
          have hlt : (draw 256 t).1 < 256 := by
            unfold draw; split <;> simp <;> omega
          rw [Nat.mod_eq_of_lt hlt] at this
          exact h.2 this
    · exact ih _ b hb

theorem gapPiece_spec (t : Tape) (g : List UInt8) (hg : Gap g) : Gap ((gapPiece t).1 ++ g) := by
  unfold gapPiece
  simp only []
  split
  · simpa using Gap.ws _ _ (wsByte_ws _) hg
  · simp only []
    split
    · have := Gap.comment _ 10 g (commentBody_spec (draw 4 (draw 8 t).2).1 (draw 4 (draw 8 t).2).2) (Or.inl rfl) hg
      simpa using this
    · split
      · have := Gap.comment _ 13 g (commentBody_spec (draw 4 (draw 8 t).2).1 (draw 4 (draw 8 t).2).2) (Or.inr rfl) hg
        simpa using this
      · have := Gap.comment _ 13 (10 :: g) (commentBody_spec (draw 4 (draw 8 t).2).1 (draw 4 (draw 8 t).2).2) (Or.inr rfl)
          (Gap.ws 10 g (by decide) hg)
        simpa using this

theorem gapPieces_spec (k : Nat) (t : Tape) : Gap (gapPieces k t).1 := by
  induction k generalizing t with
  | zero => exact Gap.nil
  | succ k ih =>
    simp only [gapPieces]
    exact gapPiece_spec t _ (ih _)

theorem gap_spec (must : Bool) (t : Tape) : Gap (gap must t).1 ∧ (must = true → (gap must t).1 ≠ []) := by
  unfold gap
  simp only []
  split
  · rename_i h
    exact ⟨Gap.ws 32 [] (by decide) Gap.nil, fun _ => by simp⟩
  · rename_i h
    refine ⟨gapPieces_spec _ _, fun hm => ?_⟩
    simp [hm] at h
    exact h


/-! ### numbers -/

theorem digitsVal_zeros (k : Nat) (ds : List UInt8) : digitsVal (zeros k ++ ds) = digitsVal ds := by
  induction k with
  | zero => rfl
  | succ k ih =>
    have : digitsVal (48 :: (zeros k ++ ds)) = digitsVal (zeros k ++ ds) := by simp [digitsVal]
    simpa [zeros, ih] using this

theorem zeros_digits (k : Nat) : Digits (zeros k) := by
  induction k with
  | zero => intro b hb; simp [zeros] at hb
  | succ k ih => intro b hb; simp [zeros] at hb; rcases hb with rfl | hb; decide; exact ih b hb

theorem natTok_spec' (n : Nat) (t : Tape) : NatTok (natTok n t).1 n := by
  obtain ⟨hne, hd, hv⟩ := fmtNat_spec n
  unfold natTok
  simp only []
  refine ⟨by simp [hne], ?_, ?_⟩
  · intro b hb; simp at hb; rcases hb with hb | hb
    · exact zeros_digits _ b hb
    · exact hd b hb
  · rw [digitsVal_zeros, hv]

theorem intTok_spec' (i : Int) (t : Tape) : IntTok (intTok i t).1 i := by
  unfold intTok
  simp only []
  obtain ⟨hne, hd, hv⟩ := natTok_spec' i.natAbs (draw 3 t).2
  refine ⟨_, hne, hd, ?_⟩
  by_cases h0 : i < 0
  · simp only [h0, if_true]; right; right; exact ⟨rfl, by rw [hv]; omega⟩
  · simp only [h0, if_false]
    by_cases h1 : ((draw 3 t).1 == 1) = true
    · simp only [h1, if_true]; right; left; exact ⟨rfl, by rw [hv]; omega⟩
    · simp only [h1, if_false]
      by_cases h2 : ((draw 3 t).1 == 2 && i == 0) = true
      · simp only [h2, if_true]; right; right
        simp at h2
        exact ⟨rfl, by rw [hv, h2.2]; simp⟩
      · simp only [h2, if_false]; left; exact ⟨by simp, by rw [hv]; omega⟩

/-! ### names -/

theorem hexDigitCase_spec : ∀ (b : UInt8) (u : Bool), PdfSyntax.hexVal (hexDigitCase (b >>> 4) u) = some (b >>> 4) ∧
    PdfSyntax.hexVal (hexDigitCase (b &&& 15) u) = some (b &&& 15) := by
  intro b u
  cases u <;> (revert b; decide +kernel)

theorem hex2Case_fst (b : UInt8) (t : Tape) : ∃ u1 u2, (hex2Case b t).1 = [hexDigitCase (b >>> 4) u1, hexDigitCase (b &&& 15) u2] :=
  ⟨_, _, rfl⟩

theorem nameBody_spec' (s : List UInt8) (t : Tape) : NameBody (nameBody s t).1 s := by
  induction s generalizing t with
  | nil => exact NameBody.nil
  | cons b s ih =>
    simp only [nameBody]
    split
    · rename_i h
      simp at h
      obtain ⟨h1, h2⟩ := nameVerbatim_spec b h.1
      exact NameBody.raw b _ _ h1 h2 (ih _)
    · obtain ⟨u1, u2, e⟩ := hex2Case_fst b (draw 4 (nameBody s t).2).2
      obtain ⟨_, _, h3⟩ := hex2_spec b
      have key := NameBody.esc _ _ _ _ _ _ (hexDigitCase_spec b u1).1 (hexDigitCase_spec b u2).2 (ih t)
      rw [h3] at key
      simp only []
      rw [e]
      simpa using key

/-! ### hexadecimal strings -/

theorem hexWs_spec (t : Tape) : HexWs (hexWs t).1 := by
  unfold hexWs
  simp only []
  split
  · intro b hb; simp at hb; subst hb; exact wsByte_ws _
  · split
    · intro b hb; simp at hb; rcases hb with rfl | rfl <;> exact wsByte_ws _
    · intro b hb; simp at hb

theorem hexBody_spec' (s : List UInt8) (t : Tape) : HexBody (hexBody s t).1 s := by
  induction s generalizing t with
  | nil => exact HexBody.close _ (hexWs_spec t)
  | cons b s ih =>
    simp only [hexBody]
    obtain ⟨u1, u2, e⟩ := hex2Case_fst b (hexBody s t).2
    obtain ⟨_, _, h3⟩ := hex2_spec b
    rw [e]
    simp only []
    split
    · rename_i h
      simp at h
      obtain ⟨⟨hs, hlow⟩, _⟩ := h
      subst hs
      have hr : (hexBody [] t).1 = (hexWs t).1 ++ [62] := rfl
      rw [hr]
      have key := HexBody.odd (hexWs (hex2Case b (hexBody [] t).2).2).1 (hexWs t).1 _ _ (hexWs_spec _) (hexWs_spec t)
        (hexDigitCase_spec b u1).1
      have hv : (b >>> 4) * 16 = b := by
        have := h3; rw [hlow] at this; simpa using this
      rw [hv] at key
      simpa using key
    · have key := HexBody.byte (hexWs (hex2Case b (hexBody s t).2).2).1
        (hexWs (hexWs (hex2Case b (hexBody s t).2).2).2).1 _ _ _ _ _ _ (hexWs_spec _) (hexWs_spec _)
        (hexDigitCase_spec b u1).1 (hexDigitCase_spec b u2).2 (ih t)
      rw [h3] at key
      simpa using key


/-! ### literal strings -/

open PdfSyntax (NoLf NoOct namedEscape isOct)

theorem oct_forms : ∀ b : UInt8,
    (b.toNat < 8 → isOct (octDigit b.toNat) = true ∧ octDigit b.toNat - 48 = b) ∧
    (b.toNat < 64 → isOct (octDigit (b.toNat / 8)) = true ∧ isOct (octDigit b.toNat) = true ∧
      (octDigit (b.toNat / 8) - 48) * 8 + (octDigit b.toNat - 48) = b) ∧
    (isOct (octDigit (b.toNat / 64)) = true ∧ isOct (octDigit (b.toNat / 8)) = true ∧ isOct (octDigit b.toNat) = true ∧
      (octDigit (b.toNat / 64) - 48) * 64 + (octDigit (b.toNat / 8) - 48) * 8 + (octDigit b.toNat - 48) = b) ∧
    (isOct (octDigit ((b.toNat + 256) / 64)) = true ∧
      (octDigit ((b.toNat + 256) / 64) - 48) * 64 + (octDigit (b.toNat / 8) - 48) * 8 + (octDigit b.toNat - 48) = b) := by
  decide +kernel

theorem octalEsc_spec (b : UInt8) (k : Nat) (r s : List UInt8) (n : Nat) (hl : LitBody r n s) :
    LitBody (octalEsc b.toNat k r.head? ++ r) n (b :: s) := by
  obtain ⟨f1, f2, f3, _⟩ := oct_forms b
  cases r with
  | nil => exact absurd rfl (litBody_ne_nil hl)
  | cons c r' =>
    simp only [octalEsc, List.head?_cons]
    by_cases hf : isOctal c = true
    · simp only [hf, if_true]
      obtain ⟨o1, o2, o3, ov⟩ := f3
      have := LitBody.oct3 _ _ _ _ _ _ o1 o2 o3 hl
      rw [ov] at this
      simpa using this
    · have hno : NoOct (c :: r') := by simpa [NoOct, ← isOctal_eq] using hf
      simp only [hf, Bool.false_eq_true, if_false]
      generalize hm : max (if b.toNat ≥ 64 then 3 else if b.toNat ≥ 8 then 2 else 1) k = m
      by_cases h1 : m = 1
      · have hv : b.toNat < 8 := by
          subst h1
          by_cases h64 : b.toNat ≥ 64
          · simp [h64] at hm; omega
          · by_cases h8 : b.toNat ≥ 8
            · simp [h64, h8] at hm; omega
            · omega
        obtain ⟨o1, ov⟩ := f1 hv
        have := LitBody.oct1 _ _ _ _ o1 hno hl
        rw [ov] at this
        simpa [h1] using this
      · by_cases h2 : m = 2
        · have hv : b.toNat < 64 := by
            subst h2
            by_cases h64 : b.toNat ≥ 64
            · simp [h64] at hm; omega
            · omega
          obtain ⟨o1, o2, ov⟩ := f2 hv
          have := LitBody.oct2 _ _ _ _ _ o1 o2 hno hl
          rw [ov] at this
          simpa [h2] using this
        · obtain ⟨o1, o2, o3, ov⟩ := f3
          have := LitBody.oct3 _ _ _ _ _ _ o1 o2 o3 hl
          rw [ov] at this
          simpa [h1, h2] using this

theorem continuation_spec (x s : List UInt8) (n : Nat) (t : Tape) (hl : LitBody x n s) :
    LitBody ((continuation x.head? t).1 ++ x) n s := by
  unfold continuation
  simp only []
  split
  · exact LitBody.contLf _ _ _ hl
  · split
    · exact LitBody.contCrLf _ _ _ hl
    · split
      · rename_i h
        simp at h
        exact LitBody.contCr _ _ _ (by simpa [NoLf] using h.2) hl
      · simpa using hl


theorem plainAfterBackslash_spec : ∀ c : UInt8, plainAfterBackslash c = true →
    namedEscape c = none ∧ isOct c = false ∧ c ≠ 10 ∧ c ≠ 13 := by decide +kernel

theorem strPiece_spec (b : UInt8) (raw : Bool) (r s : List UInt8) (n n' : Nat) (t : Tape) (hl : LitBody r n' s)
    (h40 : (raw && b == 40) = true → n' = n + 1) (h41 : (raw && b == 41) = true → n = n' + 1)
    (hoth : ((b == 40 || b == 41) && raw) = false → n' = n) :
    LitBody ((strPiece b raw r.head? t).1 ++ r) n (b :: s) := by
  obtain ⟨_, _, f3, f4⟩ := oct_forms b
  unfold strPiece
  simp only []
  by_cases hraw : ((b == 40 || b == 41) && raw) = true
  · simp only [hraw, if_true]
    simp at hraw
    rcases hraw.1 with rfl | rfl
    · have := h40 (by simp [hraw.2]); subst this
      exact LitBody.popen _ _ _ hl
    · have := h41 (by simp [hraw.2]); subst this
      exact LitBody.pclose _ _ _ hl
  · have hnn := hoth (by simpa using hraw); subst hnn
    simp only [hraw, Bool.false_eq_true, if_false]
    split
    · exact octalEsc_spec b _ r s _ hl
    · split
      · obtain ⟨o1, o2, o3, _⟩ := f3
        have := LitBody.oct3 _ _ _ _ _ _ f4.1 o2 o3 hl
        rw [f4.2] at this
        simpa using this
      · by_cases h10 : b = 10
        · subst h10
          simp only [beq_self_eq_true, if_true]
          split
          · exact LitBody.named 110 10 _ _ _ (by decide) hl
          · split
            · exact LitBody.plain 10 _ _ _ (by decide) (by decide) (by decide) (by decide) hl
            · split
              · exact LitBody.crlf _ _ _ hl
              · split
                · exact LitBody.plain 10 _ _ _ (by decide) (by decide) (by decide) (by decide) hl
                · rename_i hnl
                  exact LitBody.cr _ _ _ (by simpa [NoLf] using hnl) hl
        · have e10 : (b == 10) = false := by simp [h10]
          simp only [e10, Bool.false_eq_true, if_false]
          by_cases h13 : b = 13
          · subst h13; exact LitBody.named 114 13 _ _ _ (by decide) hl
          · have e13 : (b == 13) = false := by simp [h13]
            simp only [e13, Bool.false_eq_true, if_false]
            by_cases h92 : b = 92
            · subst h92; exact LitBody.named 92 92 _ _ _ (by decide) hl
            · have e92 : (b == 92) = false := by simp [h92]
              simp only [e92, Bool.false_eq_true, if_false]
              by_cases hp : (b == 40 || b == 41) = true
              · simp only [hp, if_true]
                simp at hp
                rcases hp with rfl | rfl
                · exact LitBody.named 40 40 _ _ _ (by decide) hl
                · exact LitBody.named 41 41 _ _ _ (by decide) hl
              · simp only [hp, Bool.false_eq_true, if_false]
                simp at hp
                by_cases h9 : b = 9
                · subst h9
                  simp only [beq_self_eq_true, if_true]
                  split
                  · exact LitBody.named 116 9 _ _ _ (by decide) hl
                  · exact LitBody.plain 9 _ _ _ (by decide) (by decide) (by decide) (by decide) hl
                · have e9 : (b == 9) = false := by simp [h9]
                  simp only [e9, Bool.false_eq_true, if_false]
                  by_cases h8 : b = 8
                  · subst h8
                    simp only [beq_self_eq_true, if_true]
                    split
                    · exact LitBody.named 98 8 _ _ _ (by decide) hl
                    · exact LitBody.plain 8 _ _ _ (by decide) (by decide) (by decide) (by decide) hl
                  · have e8 : (b == 8) = false := by simp [h8]
                    simp only [e8, Bool.false_eq_true, if_false]
                    by_cases h12 : b = 12
                    · subst h12
                      simp only [beq_self_eq_true, if_true]
                      split
                      · exact LitBody.named 102 12 _ _ _ (by decide) hl
                      · exact LitBody.plain 12 _ _ _ (by decide) (by decide) (by decide) (by decide) hl
                    · have e12 : (b == 12) = false := by simp [h12]
                      simp only [e12, Bool.false_eq_true, if_false]
                      split
                      · rename_i hpl
                        simp at hpl
                        obtain ⟨p1, p2, p3, p4⟩ := plainAfterBackslash_spec b hpl.2
                        exact LitBody.ignored b _ _ _ p1 p2 p3 p4 hl
                      · exact LitBody.plain b _ _ _ hp.1 hp.2 h92 h13 hl


theorem litBody_spec (s : List UInt8) : ∀ (raws : List Bool) (n : Nat) (t : Tape), rawOkFrom n s raws = true →
    LitBody (litBody s raws t).1 n s := by
  induction s with
  | nil =>
    intro raws n t h
    simp [rawOkFrom] at h; subst h
    simp only [litBody]
    have := continuation_spec [41] [] 0 t LitBody.close
    simpa using this
  | cons b bs ih =>
    intro raws n t h
    simp only [litBody]
    simp only [rawOkFrom] at h
    -- the level after `b`
    by_cases h40 : ((raws.head?.getD false) && b == 40) = true
    · simp only [h40, if_true] at h
      have hr := ih (raws.drop 1) (n + 1) t h
      have hp := strPiece_spec b (raws.head?.getD false) _ bs n (n + 1) (litBody bs (raws.drop 1) t).2 hr (fun _ => rfl)
        (fun h41 => by simp at h40 h41; rw [h40.2] at h41; simp at h41) (fun hf => by simp at h40 hf; simp [h40.2] at hf; exact absurd h40.1 (by simp [hf]))
      have := continuation_spec _ (b :: bs) n (strPiece b (raws.head?.getD false) (litBody bs (raws.drop 1) t).1.head? (litBody bs (raws.drop 1) t).2).2 hp
      simpa using this
    · simp only [h40, Bool.false_eq_true, if_false] at h
      by_cases h41 : ((raws.head?.getD false) && b == 41) = true
      · simp only [h41, if_true] at h
        simp at h
        have hr := ih (raws.drop 1) (n - 1) t (by simpa using h.2)
        have hp := strPiece_spec b (raws.head?.getD false) _ bs n (n - 1) (litBody bs (raws.drop 1) t).2 hr
          (fun h => absurd h h40) (fun _ => by omega)
          (fun hf => by simp at h41 hf; simp [h41.2] at hf; exact absurd h41.1 (by simp [hf]))
        have := continuation_spec _ (b :: bs) n (strPiece b (raws.head?.getD false) (litBody bs (raws.drop 1) t).1.head? (litBody bs (raws.drop 1) t).2).2 hp
        simpa using this
      · simp only [h41, Bool.false_eq_true, if_false] at h
        have hr := ih (raws.drop 1) n t h
        have hp := strPiece_spec b (raws.head?.getD false) _ bs n n (litBody bs (raws.drop 1) t).2 hr
          (fun h => absurd h h40) (fun h => absurd h h41) (fun _ => rfl)
        have := continuation_spec _ (b :: bs) n (strPiece b (raws.head?.getD false) (litBody bs (raws.drop 1) t).1.head? (litBody bs (raws.drop 1) t).2).2 hp
        simpa using this

theorem rawOkFrom_nil (s : List UInt8) (n : Nat) : rawOkFrom n s [] = (n == 0) := by
  induction s generalizing n with
  | nil => rfl
  | cons b bs ih => simp [rawOkFrom, ih]

theorem raws_ok (s : List UInt8) (cand : List Bool) :
    rawOkFrom 0 s (if rawOkFrom 0 s cand = true then cand else []) = true := by
  by_cases h : rawOkFrom 0 s cand = true
  · simp [h]
  · simp [h, rawOkFrom_nil]

theorem strTok_spec {R : Type} (pr : List UInt8 → Option R) (s : List UInt8) (t : Tape) : Spells pr (.str s) (strTok s t).1 := by
  unfold strTok
  simp only [Spells]
  split
  · right; exact ⟨_, rfl, hexBody_spec' s _⟩
  · left
    exact ⟨_, rfl, litBody_spec s _ 0 _ (raws_ok s _)⟩


/-! ### values -/

variable {R : Type}

mutual
/-- what the printer can spell: 32-bit integers, object numbers within `u64`, reals for which every variant
    text derived from `f32::to_string` is a real token that `f32::from_str` maps back to the same real
    (hypothesis on third-party code, validated by the harness stream `c04.f32`), no stream below the top -/
def Renderable (fmt : R → List UInt8) (pr : List UInt8 → Option R) : Prim R → Prop
  | .int i => -2147483648 ≤ i ∧ i ≤ 2147483647
  | .real r => ∀ t, PdfSyntax.RealTok (realTok (fmt r) t).1 ∧ pr (realTok (fmt r) t).1 = some r
  | .ref id gen => id ≤ 18446744073709551615 ∧ gen ≤ 18446744073709551615
  | .arr xs => RenderableL fmt pr xs
  | .dict kvs => RenderableE fmt pr kvs
  | .stream _ _ => False
  | _ => True
def RenderableL (fmt : R → List UInt8) (pr : List UInt8 → Option R) : List (Prim R) → Prop
  | [] => True
  | x :: xs => Renderable fmt pr x ∧ RenderableL fmt pr xs
def RenderableE (fmt : R → List UInt8) (pr : List UInt8 → Option R) : List (List UInt8 × Prim R) → Prop
  | [] => True
  | (_, v) :: rest => Renderable fmt pr v ∧ RenderableE fmt pr rest
end

theorem bnd_of_gap {g r : List UInt8} (hg : Gap g) (h : g ≠ [] ∨ startsRegular r = false) : Bnd (g ++ r) := by
  by_cases hne : g = []
  · subst hne
    rcases h with h | h
    · exact absurd rfl h
    · cases r with
      | nil => simp [Bnd]
      | cons c r' => simpa [Bnd, startsRegular, isRegular_eq] using h
  · exact gap_bnd hg hne r

theorem gap_bnd_must (must : Bool) (t : Tape) (r : List UInt8) (h : must = false → startsRegular r = false) :
    Bnd ((gap must t).1 ++ r) := by
  obtain ⟨hg, hm⟩ := gap_spec must t
  apply bnd_of_gap hg
  cases must with
  | true => exact Or.inl (hm rfl)
  | false => exact Or.inr (h rfl)

theorem spellsEntries_cons (pr : List UInt8 → Option R) (k : List UInt8) (v : Prim R) (rest : List (List UInt8 × Prim R))
    (kb g1 tv g2 r : List UInt8) (h1 : NameBody kb k) (h2 : Gap g1) (h3 : Bnd (g1 ++ tv)) (h4 : Spells pr v tv) (h5 : Gap g2)
    (h6 : SpellsEntries pr rest r) (h7 : PdfSyntax.needsBnd v = true → Bnd (g2 ++ r)) :
    SpellsEntries pr ((k, v) :: rest) (47 :: kb ++ g1 ++ tv ++ g2 ++ r) := by
  simp only [SpellsEntries]
  exact ⟨kb, g1, tv, g2, r, rfl, h1, h2, h3, h4, h5, h6, h7⟩

mutual

theorem render_spells (fmt : R → List UInt8) (pr : List UInt8 → Option R) (v : Prim R) :
    Renderable fmt pr v → ∀ t, Spells pr v (render fmt v t).1 := by
  intro h t
  cases v with
  | null => simp [render, Spells, kwNull, PdfSyntax.kwNull]
  | bool b => cases b <;> simp [render, Spells, kwTrue, kwFalse, PdfSyntax.kwTrue, PdfSyntax.kwFalse]
  | int i =>
    simp only [Renderable] at h
    simp only [render, Spells]
    exact ⟨intTok_spec' i t, h.1, h.2⟩
  | real r =>
    simp only [Renderable] at h
    simp only [render, Spells]
    exact h t
  | str s => simp only [render]; exact strTok_spec pr s t
  | name s =>
    simp only [render, nameTok, Spells]
    exact ⟨_, rfl, nameBody_spec' s t⟩
  | ref id gen =>
    simp only [Renderable] at h
    simp only [render, Spells]
    refine ⟨(natTok id t).1, (gap true (natTok id t).2).1, (natTok gen (gap true (natTok id t).2).2).1,
      (gap true (natTok gen (gap true (natTok id t).2).2).2).1, rfl, natTok_spec' _ _, natTok_spec' _ _,
      (gap_spec true _).1, (gap_spec true _).2 rfl, (gap_spec true _).1, (gap_spec true _).2 rfl, h.1, h.2⟩
  | stream info inner => simp [Renderable] at h
  | arr xs =>
    simp only [Renderable] at h
    simp only [render, Spells]
    exact ⟨(gap false (renderElems fmt xs t).2).1, (renderElems fmt xs t).1, by simp, (gap_spec false _).1,
      renderElems_spells fmt pr xs h t⟩
  | dict kvs =>
    simp only [Renderable] at h
    simp only [render, Spells]
    exact ⟨(gap false (renderEntries fmt kvs t).2).1, (renderEntries fmt kvs t).1, by simp, (gap_spec false _).1,
      renderEntries_spells fmt pr kvs h t⟩

theorem renderElems_spells (fmt : R → List UInt8) (pr : List UInt8 → Option R) (xs : List (Prim R)) :
    RenderableL fmt pr xs → ∀ t, SpellsElems pr xs (renderElems fmt xs t).1 := by
  intro h t
  cases xs with
  | nil => simp [renderElems, SpellsElems]
  | cons x xs =>
    simp only [RenderableL] at h
    simp only [renderElems, SpellsElems]
    refine ⟨_, _, _, rfl, render_spells fmt pr x h.1 _, (gap_spec _ _).1, renderElems_spells fmt pr xs h.2 t, ?_⟩
    intro hb
    apply gap_bnd_must
    intro hm
    simpa [needsBnd, hb] using hm

theorem renderEntries_spells (fmt : R → List UInt8) (pr : List UInt8 → Option R) (kvs : List (List UInt8 × Prim R)) :
    RenderableE fmt pr kvs → ∀ t, SpellsEntries pr kvs (renderEntries fmt kvs t).1 := by
  intro h t
  cases kvs with
  | nil => simp [renderEntries, SpellsEntries]
  | cons kv kvs =>
    obtain ⟨k, v⟩ := kv
    simp only [RenderableE] at h
    simp only [renderEntries, nameTok]
    apply spellsEntries_cons pr k v kvs _ _ _ _ _ (nameBody_spec' k _) (gap_spec _ _).1 ?_ (render_spells fmt pr v h.1 _)
      (gap_spec _ _).1 (renderEntries_spells fmt pr kvs h.2 t) ?_
    · apply gap_bnd_must
      intro hm
      simpa using hm
    · intro hb
      apply gap_bnd_must
      intro hm
      simpa [needsBnd, hb] using hm

end


theorem spellsStream_mk (pr : List UInt8 → Option R) (info : Dict R) (data g1 ents g2 eol g3 : List UInt8)
    (h1 : Gap g1) (h2 : SpellsEntries pr info ents) (h3 : Gap g2) (h4 : eol = [10] ∨ eol = [13, 10]) (h5 : Gap g3) :
    PdfSyntax.SpellsStream pr info data ([60, 60] ++ g1 ++ ents ++ g2 ++ kwStream ++ eol ++ data ++ g3 ++ kwEndstream) :=
  ⟨g1, ents, g2, eol, g3, by simp [PdfSyntax.kwStream, PdfSyntax.kwEndstream, kwStream, kwEndstream], h1, h2, h3, h4, h5⟩

theorem render_stream_spells (fmt : R → List UInt8) (pr : List UInt8 → Option R) (info : Dict R) (data : List UInt8)
    (h : RenderableE fmt pr info) (t : Tape) :
    PdfSyntax.SpellsStream pr info data (render fmt (.stream info (.pending data)) t).1 := by
  simp only [render]
  apply spellsStream_mk pr info data _ _ _ _ _ (gap_spec _ _).1 (renderEntries_spells fmt pr info h _) (gap_spec _ _).1 ?_
    (gap_spec false t).1
  split
  · exact Or.inl rfl
  · exact Or.inr rfl

/-- value, a gap where one is needed, tail -/
theorem renderWithTail_spec (fmt : R → List UInt8) (pr : List UInt8 → Option R) (v : Prim R) (tail : List UInt8)
    (h : Renderable fmt pr v) (t : Tape) :
    ∃ txt g, (renderWithTail fmt v tail t).1 = txt ++ g ++ tail ∧ Spells pr v txt ∧ Gap g ∧
      (PdfSyntax.needsBnd v = true → Bnd (g ++ tail)) := by
  refine ⟨_, _, rfl, render_spells fmt pr v h _, (gap_spec _ _).1, ?_⟩
  intro hb
  apply gap_bnd_must
  intro hm
  simpa [needsBnd, hb] using hm


/-- side conditions of the indirect-object theorem, as a property of a text -/
def IndirectOK (pr : List UInt8 → Option R) (id gen : Nat) (v : Prim R) (tail txt : List UInt8) : Prop :=
  ∃ a g1 b g2 g3 tv g4 g5, txt = [] ++ a ++ g1 ++ b ++ g2 ++ kwObj ++ g3 ++ tv ++ g4 ++ kwEndobj ++ (g5 ++ tail) ∧
    NatTok a id ∧ NatTok b gen ∧ Gap g1 ∧ g1 ≠ [] ∧ Gap g2 ∧ g2 ≠ [] ∧ Gap g3 ∧ Spells pr v tv ∧ Gap g4 ∧ Gap g5 ∧
    Bnd (g3 ++ tv) ∧ (PdfSyntax.needsBnd v = true → g4 ≠ []) ∧ Bnd (g5 ++ tail)

theorem indirectOK_mk (pr : List UInt8 → Option R) (id gen : Nat) (v : Prim R) (tail a g1 b g2 g3 tv g4 g5 : List UInt8)
    (h1 : NatTok a id) (h2 : NatTok b gen) (h3 : Gap g1) (h4 : g1 ≠ []) (h5 : Gap g2) (h6 : g2 ≠ []) (h7 : Gap g3)
    (h8 : Spells pr v tv) (h9 : Gap g4) (h10 : Gap g5) (h11 : Bnd (g3 ++ tv)) (h12 : PdfSyntax.needsBnd v = true → g4 ≠ [])
    (h13 : Bnd (g5 ++ tail)) :
    IndirectOK pr id gen v tail (a ++ g1 ++ b ++ g2 ++ kwObj ++ g3 ++ tv ++ g4 ++ kwEndobj ++ g5 ++ tail) :=
  ⟨a, g1, b, g2, g3, tv, g4, g5, by simp, h1, h2, h3, h4, h5, h6, h7, h8, h9, h10, h11, h12, h13⟩

/-- `id gen obj value endobj tail` as the printer writes it: all the side conditions of the indirect-object
    theorem hold -/
theorem renderIndirect_spec (fmt : R → List UInt8) (pr : List UInt8 → Option R) (id gen : Nat) (v : Prim R)
    (tail : List UInt8) (h : Renderable fmt pr v) (t : Tape) :
    IndirectOK pr id gen v tail (renderIndirect fmt id gen v tail t).1 := by
  simp only [renderIndirect]
  apply indirectOK_mk pr id gen v tail _ _ _ _ _ _ _ _ (natTok_spec' _ _) (natTok_spec' _ _)
    (gap_spec true _).1 ((gap_spec true _).2 rfl) (gap_spec true _).1 ((gap_spec true _).2 rfl) (gap_spec _ _).1
    (render_spells fmt pr v h _) (gap_spec _ _).1 (gap_spec _ t).1 ?_ ?_ ?_
  · apply gap_bnd_must; intro hm; simpa using hm
  · intro hb; exact (gap_spec _ _).2 (by simpa [needsBnd] using hb)
  · apply gap_bnd_must; intro hm; simpa using hm


/-- a sequence of objects as the printer writes it is a conformant sequence (`SeqOK`) of exactly these values;
    the gap after the last object belongs to what follows (`rest` = that gap, then the tail) -/
theorem renderSeq_spec (fmt : R → List UInt8) (pr : List UInt8 → Option R) (xs : List (Prim R)) (tail : List UInt8) :
    RenderableL fmt pr xs → (∀ x ∈ xs, PdfSyntax.WF x ∧ PdfSyntax.vdepth x ≤ maxDepth) → ∀ (t : Tape),
    ∃ items rest, (renderSeq fmt xs tail t).1 = seqText items ++ rest ∧ SeqOK pr rest items ∧ items.map (·.1) = xs ∧
      ∃ g, Gap g ∧ rest = g ++ tail := by
  induction xs with
  | nil => intro _ _ t; exact ⟨[], tail, by simp [renderSeq, seqText], by simp [SeqOK], rfl, [], Gap.nil, rfl⟩
  | cons x xs ih =>
    intro h hwf t
    simp only [RenderableL] at h
    obtain ⟨items, rest, e, hok, hmap, g0, hg0, erest⟩ := ih h.2 (fun y hy => hwf y (by simp [hy])) t
    have hx := hwf x (by simp)
    simp only [renderSeq]
    have hgap := gap_spec (needsBnd x && startsRegular (renderSeq fmt xs tail t).1) (renderSeq fmt xs tail t).2
    have hbnd : PdfSyntax.needsBnd x = true →
        Bnd ((gap (needsBnd x && startsRegular (renderSeq fmt xs tail t).1) (renderSeq fmt xs tail t).2).1 ++
          (renderSeq fmt xs tail t).1) := by
      intro hb
      apply gap_bnd_must
      intro hm
      simpa [needsBnd, hb] using hm
    have key : ∀ (G T : List UInt8), Gap G → (PdfSyntax.needsBnd x = true → Bnd (G ++ (renderSeq fmt xs tail t).1)) →
        Spells pr x T → ∃ items rest, T ++ G ++ (renderSeq fmt xs tail t).1 = seqText items ++ rest ∧ SeqOK pr rest items ∧
          items.map (·.1) = x :: xs ∧ ∃ g, Gap g ∧ rest = g ++ tail := by
      intro G T hG hB hT
      cases items with
      | nil =>
        refine ⟨[(x, T, [])], G ++ rest, ?_, ?_, by simp at hmap; simp [hmap], G ++ g0, gap_append hG hg0, by simp [erest]⟩
        · simp [seqText] at e; simp [seqText, e]
        · simp only [SeqOK, seqText]
          refine ⟨hT, hx.1, hx.2, Gap.nil, by simp, ?_, trivial⟩
          intro hb
          have := hB hb
          simp [seqText] at e
          simpa [e] using this
      | cons it items' =>
        refine ⟨(x, T, G) :: it :: items', rest, ?_, ?_, by simp at hmap ⊢; exact hmap, g0, hg0, erest⟩
        · simp only [seqText] at e ⊢; rw [e]; simp
        · simp only [SeqOK]
          refine ⟨hT, hx.1, hx.2, hG, fun hc => by simp at hc, ?_, hok⟩
          intro hb
          have := hB hb
          rw [e] at this
          simpa using this
    exact key _ _ hgap.1 hbnd (render_spells fmt pr x h.1 _)


/-- side conditions of the indirect *stream* object theorem, as a property of a text -/
def IndirectStreamOK (pr : List UInt8 → Option R) (id gen : Nat) (info : Dict R) (data tail txt : List UInt8) : Prop :=
  ∃ a g1 b g2 g3 tv g4 g5, txt = [] ++ a ++ g1 ++ b ++ g2 ++ kwObj ++ g3 ++ tv ++ g4 ++ kwEndobj ++ (g5 ++ tail) ∧
    NatTok a id ∧ NatTok b gen ∧ Gap g1 ∧ g1 ≠ [] ∧ Gap g2 ∧ g2 ≠ [] ∧ Gap g3 ∧ PdfSyntax.SpellsStream pr info data tv ∧
    Gap g4 ∧ g4 ≠ [] ∧ Gap g5 ∧ Bnd (g5 ++ tail)

theorem indirectStreamOK_mk (pr : List UInt8 → Option R) (id gen : Nat) (info : Dict R) (data tail a g1 b g2 g3 tv g4 g5 : List UInt8)
    (h1 : NatTok a id) (h2 : NatTok b gen) (h3 : Gap g1) (h4 : g1 ≠ []) (h5 : Gap g2) (h6 : g2 ≠ []) (h7 : Gap g3)
    (h8 : PdfSyntax.SpellsStream pr info data tv) (h9 : Gap g4) (h10 : g4 ≠ []) (h11 : Gap g5) (h13 : Bnd (g5 ++ tail)) :
    IndirectStreamOK pr id gen info data tail (a ++ g1 ++ b ++ g2 ++ kwObj ++ g3 ++ tv ++ g4 ++ kwEndobj ++ g5 ++ tail) :=
  ⟨a, g1, b, g2, g3, tv, g4, g5, by simp, h1, h2, h3, h4, h5, h6, h7, h8, h9, h10, h11, h13⟩

theorem renderIndirect_stream_spec (fmt : R → List UInt8) (pr : List UInt8 → Option R) (id gen : Nat) (info : Dict R)
    (data tail : List UInt8) (h : RenderableE fmt pr info) (t : Tape) :
    IndirectStreamOK pr id gen info data tail (renderIndirect fmt id gen (.stream info (.pending data)) tail t).1 := by
  simp only [renderIndirect]
  apply indirectStreamOK_mk pr id gen info data tail _ _ _ _ _ _ _ _ (natTok_spec' _ _) (natTok_spec' _ _)
    (gap_spec true _).1 ((gap_spec true _).2 rfl) (gap_spec true _).1 ((gap_spec true _).2 rfl) (gap_spec _ _).1
    (render_stream_spells fmt pr info data h _) (gap_spec _ _).1 ((gap_spec _ _).2 (by simp [needsBnd, PdfSyntax.needsBnd]))
    (gap_spec _ t).1 ?_
  apply gap_bnd_must; intro hm; simpa using hm

end PdfSpec
