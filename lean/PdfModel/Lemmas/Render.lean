import PdfModel.Spec.Render
import PdfModel.Lemmas.Parser
import PdfModel.Lemmas.Serialize

/-! The randomized printer of `Spec/Render` only produces conformant spellings (`Spec/Syntax`), whatever the
    tape: so every rendering the harness generates lies in the domain of the C03 theorems. -/

namespace PdfSpec
open PdfLex
open PdfSyntax (Gap Bnd NatTok IntTok NameBody HexBody LitBody HexWs Spells SpellsElems SpellsEntries Digits digitsVal)

/-! ### gaps -/

theorem wsByte_ws (i : Nat) : PdfSyntax.isWs (wsByte i) = true := by
  unfold wsByte
  split <;> decide

theorem commentBody_spec (k : Nat) (t : Tape) : ∀ b ∈ (commentBody k t).1, b ≠ 10 ∧ b ≠ 13 := by
  induction k generalizing t with
  | zero => simp [commentBody]
  | succ k ih =>
    intro b hb
    simp only [commentBody] at hb
    simp at hb
    rcases hb with rfl | hb
    · split
      · decide
      · rename_i h
        simp at h
        constructor
        · intro e
          have := congrArg UInt8.toNat e
          simp at this
          have hlt : (draw 256 t).1 < 256 := by
            unfold draw; split <;> simp <;> omega
          rw [Nat.mod_eq_of_lt hlt] at this
          exact h.1 this
        · intro e
          have := congrArg UInt8.toNat e
          simp at this
          have hlt : (draw 256 t).1 < 256 := by
            unfold draw; split <;> simp <;> omega
          rw [Nat.mod_eq_of_lt hlt] at this
          exact h.2 this
    · exact ih _ b hb

theorem gapPiece_spec (t : Tape) (g : List UInt8) (hg : Gap g) : Gap ((gapPiece t).1 ++ g) := by
  unfold gapPiece
  simp only []
  split
  · simpa using Gap.ws _ _ (wsByte_ws _) hg
  · simp only []
    split
    · have := Gap.comment _ 10 g (commentBody_spec (draw 4 (draw 8 t).2).1 (draw 4 (draw 8 t).2).2) (Or.inl rfl) hg
      simpa using this
    · split
      · have := Gap.comment _ 13 g (commentBody_spec (draw 4 (draw 8 t).2).1 (draw 4 (draw 8 t).2).2) (Or.inr rfl) hg
        simpa using this
      · have := Gap.comment _ 13 (10 :: g) (commentBody_spec (draw 4 (draw 8 t).2).1 (draw 4 (draw 8 t).2).2) (Or.inr rfl)
          (Gap.ws 10 g (by decide) hg)
        simpa using this

theorem gapPieces_spec (k : Nat) (t : Tape) : Gap (gapPieces k t).1 := by
  induction k generalizing t with
  | zero => exact Gap.nil
  | succ k ih =>
    simp only [gapPieces]
    exact gapPiece_spec t _ (ih _)

theorem gap_spec (must : Bool) (t : Tape) : Gap (gap must t).1 ∧ (must = true → (gap must t).1 ≠ []) := by
  unfold gap
  simp only []
  split
  · rename_i h
    exact ⟨Gap.ws 32 [] (by decide) Gap.nil, fun _ => by simp⟩
  · rename_i h
    refine ⟨gapPieces_spec _ _, fun hm => ?_⟩
    simp [hm] at h
    exact h


/-! ### numbers -/

theorem digitsVal_zeros (k : Nat) (ds : List UInt8) : digitsVal (zeros k ++ ds) = digitsVal ds := by
  induction k with
  | zero => rfl
  | succ k ih =>
    have : digitsVal (48 :: (zeros k ++ ds)) = digitsVal (zeros k ++ ds) := by simp [digitsVal]
    simpa [zeros, ih] using this

theorem zeros_digits (k : Nat) : Digits (zeros k) := by
  induction k with
  | zero => intro b hb; simp [zeros] at hb
  | succ k ih => intro b hb; simp [zeros] at hb; rcases hb with rfl | hb; decide; exact ih b hb

theorem natTok_spec' (n : Nat) (t : Tape) : NatTok (natTok n t).1 n := by
  obtain ⟨hne, hd, hv⟩ := fmtNat_spec n
  unfold natTok
  simp only []
  refine ⟨by simp [hne], ?_, ?_⟩
  · intro b hb; simp at hb; rcases hb with hb | hb
    · exact zeros_digits _ b hb
    · exact hd b hb
  · rw [digitsVal_zeros, hv]

theorem intTok_spec' (i : Int) (t : Tape) : IntTok (intTok i t).1 i := by
  unfold intTok
  simp only []
  obtain ⟨hne, hd, hv⟩ := natTok_spec' i.natAbs (draw 3 t).2
  refine ⟨_, hne, hd, ?_⟩
  by_cases h0 : i < 0
  · simp only [h0, if_true]; right; right; exact ⟨rfl, by rw [hv]; omega⟩
  · simp only [h0, if_false]
    by_cases h1 : ((draw 3 t).1 == 1) = true
    · simp only [h1, if_true]; right; left; exact ⟨rfl, by rw [hv]; omega⟩
    · simp only [h1, if_false]
      by_cases h2 : ((draw 3 t).1 == 2 && i == 0) = true
      · simp only [h2, if_true]; right; right
        simp at h2
        exact ⟨rfl, by rw [hv, h2.2]; simp⟩
      · simp only [h2, if_false]; left; exact ⟨by simp, by rw [hv]; omega⟩

/-! ### names -/

theorem hexDigitCase_spec : ∀ (b : UInt8) (u : Bool), PdfSyntax.hexVal (hexDigitCase (b >>> 4) u) = some (b >>> 4) ∧
    PdfSyntax.hexVal (hexDigitCase (b &&& 15) u) = some (b &&& 15) := by
  intro b u
  cases u <;> (revert b; decide +kernel)

theorem hex2Case_fst (b : UInt8) (t : Tape) : ∃ u1 u2, (hex2Case b t).1 = [hexDigitCase (b >>> 4) u1, hexDigitCase (b &&& 15) u2] :=
  ⟨_, _, rfl⟩

theorem nameBody_spec' (s : List UInt8) (t : Tape) : NameBody (nameBody s t).1 s := by
  induction s generalizing t with
  | nil => exact NameBody.nil
  | cons b s ih =>
    simp only [nameBody]
    split
    · rename_i h
      simp at h
      obtain ⟨h1, h2⟩ := nameVerbatim_spec b h.1
      exact NameBody.raw b _ _ h1 h2 (ih _)
    · obtain ⟨u1, u2, e⟩ := hex2Case_fst b (draw 4 (nameBody s t).2).2
      obtain ⟨_, _, h3⟩ := hex2_spec b
      have key := NameBody.esc _ _ _ _ _ _ (hexDigitCase_spec b u1).1 (hexDigitCase_spec b u2).2 (ih t)
      rw [h3] at key
      simp only []
      rw [e]
      simpa using key

/-! ### hexadecimal strings -/

theorem hexWs_spec (t : Tape) : HexWs (hexWs t).1 := by
  unfold hexWs
  simp only []
  split
  · intro b hb; simp at hb; subst hb; exact wsByte_ws _
  · split
    · intro b hb; simp at hb; rcases hb with rfl | rfl <;> exact wsByte_ws _
    · intro b hb; simp at hb

theorem hexBody_spec' (s : List UInt8) (t : Tape) : HexBody (hexBody s t).1 s := by
  induction s generalizing t with
  | nil => exact HexBody.close _ (hexWs_spec t)
  | cons b s ih =>
    simp only [hexBody]
    obtain ⟨u1, u2, e⟩ := hex2Case_fst b (hexBody s t).2
    obtain ⟨_, _, h3⟩ := hex2_spec b
    rw [e]
    simp only []
    split
    · rename_i h
      simp at h
      obtain ⟨⟨hs, hlow⟩, _⟩ := h
      subst hs
      have hr : (hexBody [] t).1 = (hexWs t).1 ++ [62] := rfl
      rw [hr]
      have key := HexBody.odd (hexWs (hex2Case b (hexBody [] t).2).2).1 (hexWs t).1 _ _ (hexWs_spec _) (hexWs_spec t)
        (hexDigitCase_spec b u1).1
      have hv : (b >>> 4) * 16 = b := by
        have := h3; rw [hlow] at this; simpa using this
      rw [hv] at key
      simpa using key
    · have key := HexBody.byte (hexWs (hex2Case b (hexBody s t).2).2).1
        (hexWs (hexWs (hex2Case b (hexBody s t).2).2).2).1 _ _ _ _ _ _ (hexWs_spec _) (hexWs_spec _)
        (hexDigitCase_spec b u1).1 (hexDigitCase_spec b u2).2 (ih t)
      rw [h3] at key
      simpa using key


/-! ### literal strings -/

open PdfSyntax (NoLf NoOct namedEscape isOct)

theorem oct_forms : ∀ b : UInt8,
    (b.toNat < 8 → isOct (octDigit b.toNat) = true ∧ octDigit b.toNat - 48 = b) ∧
    (b.toNat < 64 → isOct (octDigit (b.toNat / 8)) = true ∧ isOct (octDigit b.toNat) = true ∧
      (octDigit (b.toNat / 8) - 48) * 8 + (octDigit b.toNat - 48) = b) ∧
    (isOct (octDigit (b.toNat / 64)) = true ∧ isOct (octDigit (b.toNat / 8)) = true ∧ isOct (octDigit b.toNat) = true ∧
      (octDigit (b.toNat / 64) - 48) * 64 + (octDigit (b.toNat / 8) - 48) * 8 + (octDigit b.toNat - 48) = b) ∧
    (isOct (octDigit ((b.toNat + 256) / 64)) = true ∧
      (octDigit ((b.toNat + 256) / 64) - 48) * 64 + (octDigit (b.toNat / 8) - 48) * 8 + (octDigit b.toNat - 48) = b) := by
  decide +kernel

theorem octalEsc_spec (b : UInt8) (k : Nat) (r s : List UInt8) (n : Nat) (hl : LitBody r n s) :
    LitBody (octalEsc b.toNat k r.head? ++ r) n (b :: s) := by
  obtain ⟨f1, f2, f3, _⟩ := oct_forms b
  cases r with
  | nil => exact absurd rfl (litBody_ne_nil hl)
  | cons c r' =>
    simp only [octalEsc, List.head?_cons]
    by_cases hf : isOctal c = true
    · simp only [hf, if_true]
      obtain ⟨o1, o2, o3, ov⟩ := f3
      have := LitBody.oct3 _ _ _ _ _ _ o1 o2 o3 hl
      rw [ov] at this
      simpa using this
    · have hno : NoOct (c :: r') := by simpa [NoOct, ← isOctal_eq] using hf
      simp only [hf, Bool.false_eq_true, if_false]
      generalize hm : max (if b.toNat ≥ 64 then 3 else if b.toNat ≥ 8 then 2 else 1) k = m
      by_cases h1 : m = 1
      · have hv : b.toNat < 8 := by
          subst h1
          by_cases h64 : b.toNat ≥ 64
          · simp [h64] at hm; omega
          · by_cases h8 : b.toNat ≥ 8
            · simp [h64, h8] at hm; omega
            · omega
        obtain ⟨o1, ov⟩ := f1 hv
        have := LitBody.oct1 _ _ _ _ o1 hno hl
        rw [ov] at this
        simpa [h1] using this
      · by_cases h2 : m = 2
        · have hv : b.toNat < 64 := by
            subst h2
            by_cases h64 : b.toNat ≥ 64
            · simp [h64] at hm; omega
            · omega
          obtain ⟨o1, o2, ov⟩ := f2 hv
          have := LitBody.oct2 _ _ _ _ _ o1 o2 hno hl
          rw [ov] at this
          simpa [h2] using this
        · obtain ⟨o1, o2, o3, ov⟩ := f3
          have := LitBody.oct3 _ _ _ _ _ _ o1 o2 o3 hl
          rw [ov] at this
          simpa [h1, h2] using this

theorem continuation_spec (x s : List UInt8) (n : Nat) (t : Tape) (hl : LitBody x n s) :
    LitBody ((continuation x.head? t).1 ++ x) n s := by
  unfold continuation
  simp only []
  split
  · exact LitBody.contLf _ _ _ hl
  · split
    · exact LitBody.contCrLf _ _ _ hl
    · split
      · rename_i h
        simp at h
        exact LitBody.contCr _ _ _ (by simpa [NoLf] using h.2) hl
      · simpa using hl


theorem plainAfterBackslash_spec : ∀ c : UInt8, plainAfterBackslash c = true →
    namedEscape c = none ∧ isOct c = false ∧ c ≠ 10 ∧ c ≠ 13 := by decide +kernel

theorem strPiece_spec (b : UInt8) (raw : Bool) (r s : List UInt8) (n n' : Nat) (t : Tape) (hl : LitBody r n' s)
    (h40 : (raw && b == 40) = true → n' = n + 1) (h41 : (raw && b == 41) = true → n = n' + 1)
    (hoth : ((b == 40 || b == 41) && raw) = false → n' = n) :
    LitBody ((strPiece b raw r.head? t).1 ++ r) n (b :: s) := by
  obtain ⟨_, _, f3, f4⟩ := oct_forms b
  unfold strPiece
  simp only []
  by_cases hraw : ((b == 40 || b == 41) && raw) = true
  · simp only [hraw, if_true]
    simp at hraw
    rcases hraw.1 with rfl | rfl
    · have := h40 (by simp [hraw.2]); subst this
      exact LitBody.popen _ _ _ hl
    · have := h41 (by simp [hraw.2]); subst this
      exact LitBody.pclose _ _ _ hl
  · have hnn := hoth (by simpa using hraw); subst hnn
    simp only [hraw, Bool.false_eq_true, if_false]
    split
    · exact octalEsc_spec b _ r s _ hl
    · split
      · obtain ⟨o1, o2, o3, _⟩ := f3
        have := LitBody.oct3 _ _ _ _ _ _ f4.1 o2 o3 hl
        rw [f4.2] at this
        simpa using this
      · by_cases h10 : b = 10
        · subst h10
          simp only [beq_self_eq_true, if_true]
          split
          · exact LitBody.named 110 10 _ _ _ (by decide) hl
          · split
            · exact LitBody.plain 10 _ _ _ (by decide) (by decide) (by decide) (by decide) hl
            · split
              · exact LitBody.crlf _ _ _ hl
              · split
                · exact LitBody.plain 10 _ _ _ (by decide) (by decide) (by decide) (by decide) hl
                · rename_i hnl
                  exact LitBody.cr _ _ _ (by simpa [NoLf] using hnl) hl
        · have e10 : (b == 10) = false := by simp [h10]
          simp only [e10, Bool.false_eq_true, if_false]
          by_cases h13 : b = 13
          · subst h13; exact LitBody.named 114 13 _ _ _ (by decide) hl
          · have e13 : (b == 13) = false := by simp [h13]
            simp only [e13, Bool.false_eq_true, if_false]
            by_cases h92 : b = 92
            · subst h92; exact LitBody.named 92 92 _ _ _ (by decide) hl
            · have e92 : (b == 92) = false := by simp [h92]
              simp only [e92, Bool.false_eq_true, if_false]
              by_cases hp : (b == 40 || b == 41) = true
              · simp only [hp, if_true]
                simp at hp
                rcases hp with rfl | rfl
                · exact LitBody.named 40 40 _ _ _ (by decide) hl
                · exact LitBody.named 41 41 _ _ _ (by decide) hl
              · simp only [hp, Bool.false_eq_true, if_false]
                simp at hp
                by_cases h9 : b = 9
                · subst h9
                  simp only [beq_self_eq_true, if_true]
                  split
                  · exact LitBody.named 116 9 _ _ _ (by decide) hl
                  · exact LitBody.plain 9 _ _ _ (by decide) (by decide) (by decide) (by decide) hl
                · have e9 : (b == 9) = false := by simp [h9]
                  simp only [e9, Bool.false_eq_true, if_false]
                  by_cases h8 : b = 8
                  · subst h8
                    simp only [beq_self_eq_true, if_true]
                    split
                    · exact LitBody.named 98 8 _ _ _ (by decide) hl
                    · exact LitBody.plain 8 _ _ _ (by decide) (by decide) (by decide) (by decide) hl
                  · have e8 : (b == 8) = false := by simp [h8]
                    simp only [e8, Bool.false_eq_true, if_false]
                    by_cases h12 : b = 12
                    · subst h12
                      simp only [beq_self_eq_true, if_true]
                      split
                      · exact LitBody.named 102 12 _ _ _ (by decide) hl
                      · exact LitBody.plain 12 _ _ _ (by decide) (by decide) (by decide) (by decide) hl
                    · have e12 : (b == 12) = false := by simp [h12]
                      simp only [e12, Bool.false_eq_true, if_false]
                      split
                      · rename_i hpl
                        simp at hpl
                        obtain ⟨p1, p2, p3, p4⟩ := plainAfterBackslash_spec b hpl.2
                        exact LitBody.ignored b _ _ _ p1 p2 p3 p4 hl
                      · exact LitBody.plain b _ _ _ hp.1 hp.2 h92 h13 hl

end PdfSpec
