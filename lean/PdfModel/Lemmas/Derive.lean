import PdfModel.Spec.Derive

/-! Helper lemmas for Props/C15: dictionary algebra, the container law, the field loops. -/

namespace Derive

/-! ## dictionaries -/

@[simp] theorem dget_dinsert_self (k : String) (v : Prim) (d : Dict) : dget k (dinsert k v d) = some v := by
  induction d with
  | nil => simp [dinsert, dget]
  | cons h t ih =>
    obtain ⟨k', v'⟩ := h
    by_cases hk : k' = k <;> simp [dinsert, dget, hk, ih]

theorem dget_dinsert_ne {k k' : String} (h : k' ≠ k) (v : Prim) (d : Dict) :
    dget k (dinsert k' v d) = dget k d := by
  induction d with
  | nil => simp [dinsert, dget, h]
  | cons hd t ih =>
    obtain ⟨k2, v2⟩ := hd
    by_cases hk : k2 = k'
    · subst hk; simp [dinsert, dget, h]
    · by_cases hk2 : k2 = k
      · subst hk2; simp [dinsert, dget, hk]
      · simp [dinsert, dget, hk, hk2, ih]

@[simp] theorem dget_derase_self (k : String) (d : Dict) : dget k (derase k d) = none := by
  induction d with
  | nil => simp [derase, dget]
  | cons hd t ih =>
    obtain ⟨k2, v2⟩ := hd
    by_cases hk : k2 = k <;> simp [derase, dget, hk, ih]

theorem dget_derase_ne {k k' : String} (h : k' ≠ k) (d : Dict) : dget k (derase k' d) = dget k d := by
  induction d with
  | nil => simp [derase, dget]
  | cons hd t ih =>
    obtain ⟨k2, v2⟩ := hd
    by_cases hk : k2 = k'
    · subst hk; simp [derase, dget, h, ih]
    · by_cases hk2 : k2 = k
      · subst hk2; simp [derase, dget, hk]
      · simp [derase, dget, hk, hk2, ih]

theorem derase_fresh {k : String} {d : Dict} (h : dget k d = none) : derase k d = d := by
  induction d with
  | nil => simp [derase]
  | cons hd t ih =>
    obtain ⟨k2, v2⟩ := hd
    by_cases hk : k2 = k
    · simp [dget, hk] at h
    · simp [dget, hk] at h; simp [derase, hk, ih h]

theorem derase_dinsert_fresh {k : String} {d : Dict} (v : Prim) (h : dget k d = none) :
    derase k (dinsert k v d) = d := by
  induction d with
  | nil => simp [dinsert, derase]
  | cons hd t ih =>
    obtain ⟨k2, v2⟩ := hd
    by_cases hk : k2 = k
    · simp [dget, hk] at h
    · simp [dget, hk] at h; simp [dinsert, derase, hk, ih h]

theorem derase_dinsert_comm {k k' : String} (h : k' ≠ k) (v : Prim) (d : Dict) :
    derase k (dinsert k' v d) = dinsert k' v (derase k d) := by
  induction d with
  | nil => simp [dinsert, derase, h]
  | cons hd t ih =>
    obtain ⟨k2, v2⟩ := hd
    by_cases hk : k2 = k'
    · subst hk; simp [dinsert, derase, h]
    · by_cases hk2 : k2 = k
      · subst hk2; simp [dinsert, derase, hk, ih]
      · simp [dinsert, derase, hk, hk2, ih]

theorem dinsert_idem {k : String} {v : Prim} {d : Dict} (h : dget k d = some v) : dinsert k v d = d := by
  induction d with
  | nil => simp [dget] at h
  | cons hd t ih =>
    obtain ⟨k2, v2⟩ := hd
    by_cases hk : k2 = k
    · simp [dget, hk] at h; subst hk; simp [dinsert, h]
    · simp [dget, hk] at h; simp [dinsert, hk, ih h]

theorem dget_dinsert (k k' : String) (v : Prim) (d : Dict) :
    dget k (dinsert k' v d) = if k' = k then some v else dget k d := by
  by_cases h : k' = k
  · subst h; simp
  · simp [h, dget_dinsert_ne h]

/-! ## all-or-nothing maps -/

theorem mapR_law {α β : Type} (f : α → R β) (g : β → R α) (P : α → Prop)
    (h : ∀ x, P x → ∀ y, f x = .ok y → ∃ x', g y = .ok x' ∧ f x' = .ok y) :
    ∀ xs, (∀ x ∈ xs, P x) → ∀ ys, mapR f xs = .ok ys → ∃ xs', mapR g ys = .ok xs' ∧ mapR f xs' = .ok ys := by
  intro xs
  induction xs with
  | nil => intro _ ys hy; simp [mapR] at hy; subst hy; exact ⟨[], by simp [mapR], by simp [mapR]⟩
  | cons x xs ih =>
    intro hP ys hy
    simp only [mapR] at hy
    cases hfx : f x with
    | error e => simp [hfx] at hy
    | ok y =>
      simp only [hfx] at hy
      cases hrest : mapR f xs with
      | error e => simp [hrest] at hy
      | ok ys' =>
        simp only [hrest] at hy
        cases hy
        obtain ⟨x', hg, hf'⟩ := h x (hP x (by simp)) y hfx
        obtain ⟨xs', hgs, hfs⟩ := ih (fun z hz => hP z (by simp [hz])) ys' hrest
        exact ⟨x' :: xs', by simp [mapR, hg, hgs], by simp [mapR, hf', hfs]⟩

theorem mapKV_law {α β : Type} (f : α → R β) (g : β → R α) (P : α → Prop)
    (h : ∀ x, P x → ∀ y, f x = .ok y → ∃ x', g y = .ok x' ∧ f x' = .ok y) :
    ∀ xs : List (String × α), (∀ kv ∈ xs, P kv.2) → ∀ ys, mapKV f xs = .ok ys →
      ∃ xs', mapKV g ys = .ok xs' ∧ mapKV f xs' = .ok ys ∧ (xs = [] ↔ xs' = []) := by
  intro xs
  induction xs with
  | nil => intro _ ys hy; simp [mapKV] at hy; subst hy; exact ⟨[], by simp [mapKV], by simp [mapKV], by simp⟩
  | cons x xs ih =>
    obtain ⟨k, x⟩ := x
    intro hP ys hy
    simp only [mapKV] at hy
    cases hfx : f x with
    | error e => simp [hfx] at hy
    | ok y =>
      simp only [hfx] at hy
      cases hrest : mapKV f xs with
      | error e => simp [hrest] at hy
      | ok ys' =>
        simp only [hrest] at hy
        cases hy
        obtain ⟨x', hg, hf'⟩ := h x (hP (k, x) (by simp)) y hfx
        obtain ⟨xs', hgs, hfs, _⟩ := ih (fun z hz => hP z (by simp [hz])) ys' hrest
        exact ⟨(k, x') :: xs', by simp [mapKV, hg, hgs], by simp [mapKV, hf', hfs], by simp⟩

theorem mapKV_nil_iff {α β : Type} (f : α → R β) (xs : List (String × α)) (ys : List (String × β))
    (h : mapKV f xs = .ok ys) : xs = [] ↔ ys = [] := by
  cases xs with
  | nil => simp [mapKV] at h; simp [h]
  | cons x xs =>
    obtain ⟨k, x⟩ := x
    simp only [mapKV] at h
    cases hfx : f x with
    | error e => simp [hfx] at h
    | ok y =>
      simp only [hfx] at h
      cases hrest : mapKV f xs with
      | error e => simp [hrest] at h
      | ok ys' => simp only [hrest] at h; cases h; simp

end Derive
