import PdfModel.Lemmas.ContentBytesCompose

/-! C08 byte level, part 6: a `/Contents` array.  `Content::operations` joins the data of the parts with a line feed
    after each; when every part was written by `serialize_ops`, the join is a spelling of the concatenated token
    sequences, and the token-level reader, which carries `last` / `subpath_start` across the junction, returns the
    concatenated operations (each part's writer starts with no current point, so it never relies on the previous
    part's). -/

namespace ContentBytes
open Content ContentSyntax
open PdfSyntax (Gap Bnd Spells needsBnd)

variable {R : Type}

section
variable (ro : RealOps R) (fmt : R → List UInt8) (pr : List UInt8 → Option R)

/-- a spelling followed by a line feed and another spelling is a spelling of both token sequences: the line feed
    that `Content::operations` inserts keeps the last token of a part and the first of the next apart -/
theorem spellsToks_join {toks1 toks2 : List (Tok R)} {t1 b2 : List UInt8} (h1 : SpellsToks pr toks1 t1)
    (h2 : SpellsAfter pr toks2 b2) : SpellsToks pr (toks1 ++ toks2) (t1 ++ 10 :: b2) := by
  induction h1 with
  | nil g hg =>
    have := h2 (g ++ [10]) (PdfLex.gap_append hg (Gap.ws 10 [] (by decide) Gap.nil))
    simpa using this
  | prim g p txt rest toks hg hsp hb ht ih =>
    have := SpellsToks.prim g p txt (rest ++ 10 :: b2) (toks ++ toks2) hg hsp (fun hn => by
      cases rest with
      | nil => simp [Bnd]; decide
      | cons b r => simpa [Bnd] using hb hn) ih
    simpa [List.append_assoc] using this
  | kw g s rest toks hg hk hb ht ih =>
    have := SpellsToks.kw g s (rest ++ 10 :: b2) (toks ++ toks2) hg hk (by
      cases rest with
      | nil => simp [Bnd]; decide
      | cons b r => simpa [Bnd] using hb) ih
    simpa [List.append_assoc] using this

/-- every part through `serialize_ops` -/
def serializeParts : List (List (Op R)) → Out (List (List UInt8))
  | [] => .ok []
  | p :: ps =>
    match serializeBytes ro fmt p, serializeParts ps with
    | .ok b, .ok bs => .ok (b :: bs)
    | .ok _, o => o
    | .err, _ => .err
    | .panic, _ => .panic
    | .oof, _ => .oof

/-- the parts of a `/Contents` array, each written by `serialize_ops`: the joined data spells the concatenated
    tokens, and the token-level reader returns the concatenated operations -/
theorem parts_spell (laws : RealLaws ro) (fl : FmtLaws ro fmt pr) (allow : Bool) :
    ∀ (parts : List (List (Op R))), (∀ p ∈ parts, ∀ op ∈ p, OpV ro op) → ∀ (st : PState R),
    ∃ toks bs st' new, serializeParts ro fmt parts = .ok bs ∧ SpellsAfter pr toks (joinParts bs) ∧
      (∀ p ∈ primsOf toks, PrimRT p) ∧
      parseLoop ro allow ⟨st, []⟩ toks = .ok ⟨st', []⟩ ∧ st'.ops = st.ops ++ new ∧
      opsEquiv ro new parts.flatten = true := by
  intro parts
  induction parts with
  | nil =>
    intro _ st
    exact ⟨[], [], st, [], rfl, fun g hg => by simpa [joinParts] using SpellsToks.nil g hg, by simp [primsOf], rfl,
      by simp, rfl⟩
  | cons p ps ih =>
    intro hv st
    have hp := hv p (by simp)
    obtain ⟨toks1, b1, h1, h2, h3, h4⟩ := serBytes_spells ro fmt pr fl p.length p ⟨none, none⟩ (Nat.le_refl _) hp
    have hinv : Inv ro ⟨none, none⟩ st := ⟨fun q hq => by simp at hq, fun q hq => by simp at hq⟩
    obtain ⟨toks1', st1, new1, h5, h6, h7, _, h9⟩ := serLoop_sim ro laws ⟨true⟩ allow p.length p ⟨none, none⟩ st
      (Nat.le_refl _) (fun o ho => (hp o ho).1) (fun o ho => opV_accepted ro (hp o ho)) hinv
    have : toks1' = toks1 := by rw [h1] at h5; cases h5; rfl
    subst this
    obtain ⟨toks2, bs, st2, new2, g1, g2, g3, g4, g5, g6⟩ := ih (fun q hq => hv q (by simp [hq])) st1
    refine ⟨toks1' ++ toks2, b1 :: bs, st2, new1 ++ new2, ?_, ?_, ?_, ?_, ?_, ?_⟩
    · simp [serializeParts, serializeBytes, h2, g1]
    · intro g hg
      have := spellsToks_join pr (h3 g hg) g2
      simpa [joinParts, List.append_assoc] using this
    · intro q hq
      rw [primsOf_append] at hq
      rcases List.mem_append.mp hq with hq | hq
      · exact h4 q hq
      · exact g3 q hq
    · rw [parseLoop_append, h6]; exact g4
    · rw [g5, h7, List.append_assoc]
    · simpa using opsEquiv_append ro h9 g6

end
end ContentBytes
