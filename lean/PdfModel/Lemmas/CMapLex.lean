import PdfModel.Spec.CMap

/-! Lexical lemmas for the CMap reader: words, delimiters, hexadecimal strings, UTF-16. -/

namespace CMap

theorem UInt8.forall_of_fin {P : UInt8 → Prop} (h : ∀ n : Fin 256, P (UInt8.ofFin n)) : ∀ b : UInt8, P b := by
  intro b
  have := h b.toFin
  simpa using this

/-! ### white space, words -/

theorem scan_ws (pre : Bytes) (hpre : pre.all isWs = true) (b : UInt8) (X : Bytes)
    (hb : isWs b = false) (hb' : (b == 37) = false) : scan false (pre ++ b :: X) = some (b :: X) := by
  induction pre with
  | nil => simp [scan, hb, hb']
  | cons p ps ih =>
    simp only [List.all_cons, Bool.and_eq_true] at hpre
    simp [scan, hpre.1, ih hpre.2]

theorem scan_ws_end (pre : Bytes) (hpre : pre.all isWs = true) : scan false pre = none := by
  induction pre with
  | nil => rfl
  | cons p ps ih =>
    simp only [List.all_cons, Bool.and_eq_true] at hpre
    simp [scan, hpre.1, ih hpre.2]

theorem nextWord_ws_end (pre : Bytes) (hpre : pre.all isWs = true) : nextWord pre = none := by
  simp [nextWord, scan_ws_end pre hpre]

theorem takeWhile_regular (w : Bytes) (hw : w.all isRegular = true) (c : UInt8) (hc : isRegular c = false) (X : Bytes) :
    (w ++ c :: X).takeWhile isRegular = w ∧ (w ++ c :: X).dropWhile isRegular = c :: X := by
  induction w with
  | nil => simp [hc]
  | cons a as ih =>
    simp only [List.all_cons, Bool.and_eq_true] at hw
    have := ih hw.2
    simp [hw.1, this.1, this.2]

theorem isRegular_not_ws {b : UInt8} (h : isRegular b = true) : isWs b = false ∧ isDelim b = false := by
  simp only [isRegular, Bool.and_eq_true, Bool.not_eq_true'] at h
  exact h

theorem isDelim_37 : isDelim 37 = true := by decide

/-- a regular word followed by a non-regular byte is the next lexeme -/
theorem nextWord_word (pre : Bytes) (hpre : pre.all isWs = true) (a : UInt8) (w : Bytes)
    (hw : (a :: w).all isRegular = true) (c : UInt8) (hc : isRegular c = false) (X : Bytes) :
    nextWord (pre ++ a :: (w ++ c :: X)) = some (a :: w, c :: X) := by
  simp only [List.all_cons, Bool.and_eq_true] at hw
  obtain ⟨hws, hdl⟩ := isRegular_not_ws hw.1
  have h37 : (a == 37) = false := by
    cases h : a == 37 with
    | false => rfl
    | true =>
      have : a = 37 := by simpa using h
      rw [this, isDelim_37] at hdl
      cases hdl
  have hs : scan false (pre ++ a :: (w ++ c :: X)) = some (a :: (w ++ c :: X)) := scan_ws pre hpre a _ hws h37
  simp only [nextWord, hs, hdl]
  have tw := takeWhile_regular (a :: w) (by simp [hw.1, hw.2]) c hc X
  simp only [List.cons_append] at tw
  simp [tw.1, tw.2]

/-- `<` that is not the start of `<<` -/
theorem nextWord_lt (pre : Bytes) (hpre : pre.all isWs = true) (d : UInt8) (hd : (d == 60) = false) (X : Bytes) :
    nextWord (pre ++ 60 :: d :: X) = some ([60], d :: X) := by
  have hs : scan false (pre ++ 60 :: d :: X) = some (60 :: d :: X) := scan_ws pre hpre 60 _ (by decide) (by decide)
  simp only [nextWord, hs]
  have h1 : isDelim 60 = true := by decide
  have h2 : ((60 : UInt8) == 47) = false := by decide
  have h3 : ((60 : UInt8) == 62) = false := by decide
  simp [h1, h2, h3, hd]

theorem nextWord_lbracket (pre : Bytes) (hpre : pre.all isWs = true) (X : Bytes) :
    nextWord (pre ++ 91 :: X) = some ([91], X) := by
  have hs : scan false (pre ++ 91 :: X) = some (91 :: X) := scan_ws pre hpre 91 _ (by decide) (by decide)
  simp only [nextWord, hs]
  have h1 : isDelim 91 = true := by decide
  have h2 : ((91 : UInt8) == 47) = false := by decide
  have h3 : ((91 : UInt8) == 60) = false := by decide
  have h4 : ((91 : UInt8) == 62) = false := by decide
  cases X <;> simp [h1, h2, h3, h4]

theorem nextWord_rbracket (pre : Bytes) (hpre : pre.all isWs = true) (X : Bytes) :
    nextWord (pre ++ 93 :: X) = some ([93], X) := by
  have hs : scan false (pre ++ 93 :: X) = some (93 :: X) := scan_ws pre hpre 93 _ (by decide) (by decide)
  simp only [nextWord, hs]
  have h1 : isDelim 93 = true := by decide
  have h2 : ((93 : UInt8) == 47) = false := by decide
  have h3 : ((93 : UInt8) == 60) = false := by decide
  have h4 : ((93 : UInt8) == 62) = false := by decide
  cases X <;> simp [h1, h2, h3, h4]

/-! ### hexadecimal strings -/

theorem hexDigit_facts : ∀ d : Fin 16,
    nib (hexDigit d.val) = some d.val ∧ isHexWs (hexDigit d.val) = false ∧ (hexDigit d.val == 62) = false ∧
    (hexDigit d.val == 60) = false := by decide

/-- bytes (as numbers below 256) in upper-case hexadecimal, two digits each -/
def hexOf : List Nat → Bytes
  | [] => []
  | b :: r => hexDigit (b / 16) :: hexDigit (b % 16) :: hexOf r

theorem hexStr_hexOf : ∀ (bs : List Nat), (∀ b ∈ bs, b < 256) → ∀ (acc : List UInt8) (X : Bytes),
    hexStr none acc (hexOf bs ++ 62 :: X) = some (acc.reverse ++ bs.map UInt8.ofNat, X)
  | [], _, acc, X => by simp [hexOf, hexStr, isHexWs]
  | b :: r, h, acc, X => by
    have hb : b < 256 := h b (List.mem_cons_self ..)
    have f1 := hexDigit_facts ⟨b / 16, by omega⟩
    have f2 := hexDigit_facts ⟨b % 16, by omega⟩
    simp only at f1 f2
    have ih := hexStr_hexOf r (fun x hx => h x (List.mem_cons_of_mem _ hx)) (UInt8.ofNat (b / 16 * 16 + b % 16) :: acc) X
    have e : b / 16 * 16 + b % 16 = b := by omega
    rw [e] at ih
    simp only [hexOf, List.cons_append, hexStr, f1.1, f1.2.1, f1.2.2.1, f2.1, f2.2.1, f2.2.2.1, Bool.false_eq_true,
      if_false, e, ih]
    simp

theorem hexOf_head_ne_60 (bs : List Nat) (hb : ∀ b ∈ bs, b < 256) (X : Bytes) :
    ∃ d Y, hexOf bs ++ 62 :: X = d :: Y ∧ (d == 60) = false := by
  cases bs with
  | nil => exact ⟨62, X, rfl, by decide⟩
  | cons b r =>
    have f1 := hexDigit_facts ⟨b / 16, by have := hb b (List.mem_cons_self ..); omega⟩
    exact ⟨_, _, rfl, f1.2.2.2⟩

/-- `parse_with_lexer(STRING)` on a hexadecimal string -/
theorem parseStr_hex (pre : Bytes) (hpre : pre.all isWs = true) (bs : List Nat) (hb : ∀ b ∈ bs, b < 256) (X : Bytes) :
    parseStr (pre ++ 60 :: (hexOf bs ++ 62 :: X)) = .ok (bs.map UInt8.ofNat, X) := by
  obtain ⟨d, Y, e, hd⟩ := hexOf_head_ne_60 bs hb X
  have := hexStr_hexOf bs hb [] X
  rw [e] at this ⊢
  simp [parseStr, nextWord_lt pre hpre d hd Y, this]

theorem parseStrOrArr_hex (pre : Bytes) (hpre : pre.all isWs = true) (bs : List Nat) (hb : ∀ b ∈ bs, b < 256) (X : Bytes) :
    parseStrOrArr (pre ++ 60 :: (hexOf bs ++ 62 :: X)) = .ok (.str (bs.map UInt8.ofNat), X) := by
  obtain ⟨d, Y, e, hd⟩ := hexOf_head_ne_60 bs hb X
  have := hexStr_hexOf bs hb [] X
  rw [e] at this ⊢
  simp [parseStrOrArr, nextWord_lt pre hpre d hd Y, this]

/-- `parse_with_lexer(STRING)` on a regular word: an error, position unchanged -/
theorem parseStr_word (pre : Bytes) (hpre : pre.all isWs = true) (a : UInt8) (w : Bytes)
    (hw : (a :: w).all isRegular = true) (c : UInt8) (hc : isRegular c = false) (X : Bytes) :
    parseStr (pre ++ a :: (w ++ c :: X)) = .err := by
  have h1 : isDelim a = false := by
    simp only [List.all_cons, Bool.and_eq_true] at hw
    exact (isRegular_not_ws hw.1).2
  have n60 : a ≠ 60 := by intro h; rw [h] at h1; revert h1; decide
  have n40 : a ≠ 40 := by intro h; rw [h] at h1; revert h1; decide
  simp [parseStr, nextWord_word pre hpre a w hw c hc X, n60, n40]


/-! ### UTF-16, code units, bytes -/

theorem utf16_roundtrip : ∀ (s : List Nat), s.all isScalar = true → utf16Decode (utf16Encode s) = some s
  | [], _ => rfl
  | c :: r, h => by
    simp only [List.all_cons, Bool.and_eq_true, isScalar, Bool.or_eq_true, decide_eq_true_eq] at h
    have ih := utf16_roundtrip r h.2
    by_cases hc : c < 0x10000
    · have h1 : c < 0xD800 ∨ 0xDFFF < c := by omega
      rw [utf16Encode, if_pos hc, utf16Decode.eq_def]
      simp only [h1, if_true, ih, Option.map_some]
    · have hi1 : ¬ (0xD800 + (c - 0x10000) / 0x400 < 0xD800 ∨ 0xDFFF < 0xD800 + (c - 0x10000) / 0x400) := by omega
      have hi2 : 0xD800 + (c - 0x10000) / 0x400 ≤ 0xDBFF := by omega
      have lo1 : 0xDC00 ≤ 0xDC00 + (c - 0x10000) % 0x400 ∧ 0xDC00 + (c - 0x10000) % 0x400 ≤ 0xDFFF := by omega
      have val : 0x10000 + (0xD800 + (c - 0x10000) / 0x400 - 0xD800) * 0x400 + (0xDC00 + (c - 0x10000) % 0x400 - 0xDC00) = c := by
        omega
      rw [utf16Encode, if_neg hc, utf16Decode.eq_def]
      simp only [hi1, if_false, hi2, if_true, lo1, and_self, ih, Option.map_some, val]

theorem utf16Encode_lt : ∀ (s : List Nat), s.all isScalar = true → ∀ u ∈ utf16Encode s, u < 65536
  | [], _, u, hu => by simp [utf16Encode] at hu
  | c :: r, h, u, hu => by
    simp only [List.all_cons, Bool.and_eq_true, isScalar, Bool.or_eq_true, decide_eq_true_eq] at h
    have ih := utf16Encode_lt r h.2
    by_cases hc : c < 0x10000
    · rw [utf16Encode, if_pos hc] at hu
      rcases List.mem_cons.mp hu with h1 | hu
      · omega
      · exact ih u hu
    · rw [utf16Encode, if_neg hc] at hu
      rcases List.mem_cons.mp hu with h1 | hu
      · omega
      · rcases List.mem_cons.mp hu with h1 | hu
        · omega
        · exact ih u hu

theorem unitBytes_lt : ∀ (us : List Nat), (∀ u ∈ us, u < 65536) → ∀ b ∈ unitBytes us, b < 256
  | [], _, b, hb => by simp [unitBytes] at hb
  | u :: r, h, b, hb => by
    have hu := h u (List.mem_cons_self ..)
    simp only [unitBytes, List.mem_cons] at hb
    rcases hb with rfl | rfl | hb
    · omega
    · omega
    · exact unitBytes_lt r (fun x hx => h x (List.mem_cons_of_mem _ hx)) b hb

theorem toNat_ofNat_lt {n : Nat} (h : n < 256) : (UInt8.ofNat n).toNat = n := by
  simp [Nat.mod_eq_of_lt h]

theorem units_unitBytes : ∀ (us : List Nat), (∀ u ∈ us, u < 65536) → units ((unitBytes us).map UInt8.ofNat) = us
  | [], _ => rfl
  | u :: r, h => by
    have hu := h u (List.mem_cons_self ..)
    have ih := units_unitBytes r (fun x hx => h x (List.mem_cons_of_mem _ hx))
    have h1 : u / 256 < 256 := by omega
    have h2 : u % 256 < 256 := by omega
    simp only [unitBytes, List.map_cons, units, toNat_ofNat_lt h1, toNat_ofNat_lt h2, ih]
    congr 1
    omega

theorem hexOf_unitBytes : ∀ (us : List Nat), (∀ u ∈ us, u < 65536) → hexOf (unitBytes us) = us.flatMap hex4
  | [], _ => rfl
  | u :: r, h => by
    have hu := h u (List.mem_cons_self ..)
    have ih := hexOf_unitBytes r (fun x hx => h x (List.mem_cons_of_mem _ hx))
    have e1 : u / 256 / 16 = u / 4096 % 16 := by omega
    have e2 : u / 256 % 16 = u / 256 % 16 := rfl
    have e3 : u % 256 / 16 = u / 16 % 16 := by omega
    have e4 : u % 256 % 16 = u % 16 := by omega
    simp only [unitBytes, hexOf, List.flatMap_cons, hex4, ih, e1, e3, e4, List.cons_append, List.nil_append]

/-- the bytes a hexadecimal string written by `write_unicode` decodes to -/
def strBytes (s : List Nat) : Bytes := (unitBytes (utf16Encode s)).map UInt8.ofNat

/-- the bytes `write_cid` denotes -/
def cidBytes (c : Nat) : Bytes := (unitBytes [c]).map UInt8.ofNat

theorem writeUnicode_eq (s : List Nat) (hs : s.all isScalar = true) (X : Bytes) :
    writeUnicode s ++ X = 60 :: (hexOf (unitBytes (utf16Encode s)) ++ 62 :: X) := by
  simp [writeUnicode, hexOf_unitBytes _ (utf16Encode_lt s hs)]

theorem writeCid_eq (c : Nat) (hc : c < 65536) (X : Bytes) :
    writeCid c ++ X = 60 :: (hexOf (unitBytes [c]) ++ 62 :: X) := by
  have := hexOf_unitBytes [c] (by simpa using hc)
  simp only [List.flatMap_cons, List.flatMap_nil, List.append_nil] at this
  simp [writeCid, this]

theorem decodeStr_strBytes (s : List Nat) (hs : s.all isScalar = true) : decodeStr (strBytes s) = some s := by
  simp [decodeStr, strBytes, units_unitBytes _ (utf16Encode_lt s hs), utf16_roundtrip s hs]

theorem parseCid_cidBytes (c : Nat) (hc : c < 65536) : parseCid (cidBytes c) = some c := by
  have h1 : c / 256 < 256 := by omega
  have h2 : c % 256 < 256 := by omega
  simp only [cidBytes, unitBytes, List.map_cons, List.map_nil, parseCid, toNat_ofNat_lt h1, toNat_ofNat_lt h2]
  congr 1
  omega

theorem parseStr_cid (pre : Bytes) (hpre : pre.all isWs = true) (c : Nat) (hc : c < 65536) (X : Bytes) :
    parseStr (pre ++ (writeCid c ++ X)) = .ok (cidBytes c, X) := by
  rw [writeCid_eq c hc]
  exact parseStr_hex pre hpre _ (unitBytes_lt [c] (by simpa using hc)) X

theorem parseStr_unicode (pre : Bytes) (hpre : pre.all isWs = true) (s : List Nat) (hs : s.all isScalar = true) (X : Bytes) :
    parseStr (pre ++ (writeUnicode s ++ X)) = .ok (strBytes s, X) := by
  rw [writeUnicode_eq s hs]
  exact parseStr_hex pre hpre _ (unitBytes_lt _ (utf16Encode_lt s hs)) X

theorem parseStrOrArr_unicode (pre : Bytes) (hpre : pre.all isWs = true) (s : List Nat) (hs : s.all isScalar = true) (X : Bytes) :
    parseStrOrArr (pre ++ (writeUnicode s ++ X)) = .ok (.str (strBytes s), X) := by
  rw [writeUnicode_eq s hs]
  exact parseStrOrArr_hex pre hpre _ (unitBytes_lt _ (utf16Encode_lt s hs)) X

end CMap
