import PdfModel.Spec.CMapSpell
import PdfModel.Lemmas.CMapParse

/-! The CMap reader on every conformant spelling (`Sp`): separators, hexadecimal spellings, junk tokens, blocks. -/

namespace CMap

/-! ### the specification's lexical classes are the modelled lexer's -/

theorem isWhite_eq : ∀ b, isWhite b = isWs b := UInt8.forall_of_fin (by decide +kernel)
theorem isWhite_eq_hex : ∀ b, isWhite b = isHexWs b := UInt8.forall_of_fin (by decide +kernel)
theorem isDelimiter_eq : ∀ b, isDelimiter b = isDelim b := UInt8.forall_of_fin (by decide +kernel)
theorem isRegularChar_eq : ∀ b, isRegularChar b = isRegular b := UInt8.forall_of_fin (by decide +kernel)
theorem isRegularChar_fun : isRegularChar = isRegular := funext isRegularChar_eq
theorem isEolChar_eq : ∀ b, isEolChar b = isEol b := UInt8.forall_of_fin (by decide +kernel)
theorem white_facts : ∀ b, isWhite b = true → (b == 60) = false ∧ (b == 62) = false ∧ (b == 37) = false :=
  UInt8.forall_of_fin (by decide +kernel)

/-! ### separators -/

theorem scan_comment (t : Bytes) (eol : UInt8) (he : isEol eol = true) : ∀ (body : Bytes),
    body.all (fun c => !isEol c) = true → scan true (body ++ eol :: t) = scan false t
  | [], _ => by simp [scan, he]
  | c :: r, h => by
    simp only [List.all_cons, Bool.and_eq_true, Bool.not_eq_true'] at h
    simp [scan, h.1, scan_comment t eol he r h.2]

theorem scan_skip {p : Bytes} (hp : Skip p) (t : Bytes) : scan false (p ++ t) = scan false t := by
  cases hp with
  | white b h =>
    rw [isWhite_eq] at h
    simp [scan, h]
  | comment body eol hb he =>
    rw [isEolChar_eq] at he
    have hb' : body.all (fun c => !isEol c) = true := by
      simpa only [isEolChar_eq] using hb
    have hany : (body ++ eol :: t).any isEol = true := by simp [he]
    have h37 : isWs 37 = false := by decide
    have e : 37 :: (body ++ [eol]) ++ t = 37 :: (body ++ eol :: t) := by simp
    rw [e]
    simp only [scan, h37, Bool.false_eq_true, if_false, beq_self_eq_true, if_true, hany]
    exact scan_comment t eol he body hb'

theorem nextWord_skip {p : Bytes} (hp : Skip p) (t : Bytes) : nextWord (p ++ t) = nextWord t := by
  simp only [nextWord, scan_skip hp t]

theorem parseStr_skip {p : Bytes} (hp : Skip p) (t : Bytes) : parseStr (p ++ t) = parseStr t := by
  simp only [parseStr, nextWord_skip hp t]

theorem parseStrOrArr_skip {p : Bytes} (hp : Skip p) (t : Bytes) : parseStrOrArr (p ++ t) = parseStrOrArr t := by
  simp only [parseStrOrArr, nextWord_skip hp t]

theorem parseArr_skip {p : Bytes} (hp : Skip p) (t : Bytes) (f : Nat) (acc : List Bytes) :
    parseArr (f + 1) (p ++ t) acc = parseArr (f + 1) t acc := by
  simp only [parseArr, nextWord_skip hp t]

theorem outer_skip {p : Bytes} (hp : Skip p) (t : Bytes) (f : Nat) (m : Map) : outer f (p ++ t) m = outer f t m := by
  cases f with
  | zero => rfl
  | succ f => simp only [outer, nextWord_skip hp t]

theorem contChar_skip {p : Bytes} (hp : Skip p) (t : Bytes) (f g : Nat) (m : Map) :
    contChar (f + 1) g (p ++ t) m = contChar (f + 1) g t m := by
  simp only [contChar, bfchar, parseStr_skip hp t]
  cases parseStr t with
  | err => simp only [outer_skip hp t g m]
  | ok v => rfl
  | unmodelled => rfl
  | oof => rfl

theorem contRange_skip {p : Bytes} (hp : Skip p) (t : Bytes) (f g : Nat) (m : Map) :
    contRange (f + 1) g (p ++ t) m = contRange (f + 1) g t m := by
  simp only [contRange, bfrange, parseStr_skip hp t]
  cases parseStr t with
  | err => simp only [outer_skip hp t g m]
  | ok v => rfl
  | unmodelled => rfl
  | oof => rfl

theorem parseStr_seps {sp : Bytes} (h : Seps sp) (t : Bytes) : parseStr (sp ++ t) = parseStr t := by
  induction h with
  | nil => rfl
  | cons hp _ ih => rw [List.append_assoc, parseStr_skip hp, ih]

theorem parseStrOrArr_seps {sp : Bytes} (h : Seps sp) (t : Bytes) : parseStrOrArr (sp ++ t) = parseStrOrArr t := by
  induction h with
  | nil => rfl
  | cons hp _ ih => rw [List.append_assoc, parseStrOrArr_skip hp, ih]

theorem parseArr_seps {sp : Bytes} (h : Seps sp) (t : Bytes) (f : Nat) (acc : List Bytes) :
    parseArr (f + 1) (sp ++ t) acc = parseArr (f + 1) t acc := by
  induction h with
  | nil => rfl
  | cons hp _ ih => rw [List.append_assoc, parseArr_skip hp, ih]

/-! ### hexadecimal spellings -/

theorem hexDigitLower_facts : ∀ d : Fin 16,
    nib (hexDigitLower d.val) = some d.val ∧ isHexWs (hexDigitLower d.val) = false ∧ (hexDigitLower d.val == 62) = false ∧
    (hexDigitLower d.val == 60) = false := by decide

theorem digit_facts (n : Nat) (hn : n < 16) (c : UInt8) (hc : c = hexDigit n ∨ c = hexDigitLower n) :
    nib c = some n ∧ isHexWs c = false ∧ (c == 62) = false ∧ (c == 60) = false := by
  rcases hc with rfl | rfl
  · exact hexDigit_facts ⟨n, hn⟩
  · exact hexDigitLower_facts ⟨n, hn⟩

/-- any spelling of the digits reads like the canonical one (upper case, no white space) -/
theorem hexStr_spell {ns : List Nat} {body : Bytes} (h : HexNibs ns body) (X : Bytes) :
    ∀ (hi : Option Nat) (acc : List UInt8),
      hexStr hi acc (body ++ 62 :: X) = hexStr hi acc (ns.map hexDigit ++ 62 :: X) := by
  induction h with
  | nil => intro hi acc; rfl
  | white b hb _ ih =>
    intro hi acc
    rw [isWhite_eq_hex] at hb
    simp only [List.cons_append, hexStr, hb, if_true, ih]
  | digit n c hn hc _ ih =>
    intro hi acc
    obtain ⟨f1, f2, f3, _⟩ := digit_facts n hn c hc
    obtain ⟨g1, g2, g3, _⟩ := hexDigit_facts ⟨n, hn⟩
    simp only at g1 g2 g3
    cases hi with
    | none => simp only [List.cons_append, List.map_cons, hexStr, f1, f2, f3, g1, g2, g3, Bool.false_eq_true, if_false, ih]
    | some x => simp only [List.cons_append, List.map_cons, hexStr, f1, f2, f3, g1, g2, g3, Bool.false_eq_true, if_false, ih]

theorem hexOf_nibbles : ∀ (bs : List Nat), hexOf bs = (nibbles bs).map hexDigit
  | [] => rfl
  | b :: r => by simp [hexOf, nibbles, hexOf_nibbles r]

theorem hexNibs_head {ns : List Nat} {body : Bytes} (h : HexNibs ns body) (X : Bytes) :
    ∃ d Y, body ++ 62 :: X = d :: Y ∧ (d == 60) = false := by
  cases h with
  | nil => exact ⟨62, X, rfl, by decide⟩
  | white b hb _ => exact ⟨b, _, rfl, (white_facts b hb).1⟩
  | digit n c hn hc _ => exact ⟨c, _, rfl, (digit_facts n hn c hc).2.2.2⟩

theorem lex_hexStr {bs : List Nat} {t : Bytes} (h : HexStr bs t) (hb : ∀ b ∈ bs, b < 256) (X : Bytes) :
    ∃ d Y, t ++ X = 60 :: d :: Y ∧ (d == 60) = false ∧ hexStr none [] (d :: Y) = some (bs.map UInt8.ofNat, X) := by
  obtain ⟨body, hn, rfl⟩ := h
  obtain ⟨d, Y, e, hd⟩ := hexNibs_head hn X
  refine ⟨d, Y, by simp [e], hd, ?_⟩
  rw [← e, hexStr_spell hn X none [], ← hexOf_nibbles]
  simpa using hexStr_hexOf bs hb [] X

theorem parseStr_hexStr {bs : List Nat} {t : Bytes} (h : HexStr bs t) (hb : ∀ b ∈ bs, b < 256) (X : Bytes) :
    parseStr (t ++ X) = .ok (bs.map UInt8.ofNat, X) := by
  obtain ⟨d, Y, e, hd, hx⟩ := lex_hexStr h hb X
  rw [e]
  have := nextWord_lt [] (by simp) d hd Y
  simp only [List.nil_append] at this
  simp [parseStr, this, hx]

theorem parseStrOrArr_hexStr {bs : List Nat} {t : Bytes} (h : HexStr bs t) (hb : ∀ b ∈ bs, b < 256) (X : Bytes) :
    parseStrOrArr (t ++ X) = .ok (.str (bs.map UInt8.ofNat), X) := by
  obtain ⟨d, Y, e, hd, hx⟩ := lex_hexStr h hb X
  rw [e]
  have := nextWord_lt [] (by simp) d hd Y
  simp only [List.nil_append] at this
  simp [parseStrOrArr, this, hx]

theorem hexStr_length_pos {bs : List Nat} {t : Bytes} (h : HexStr bs t) : 2 ≤ t.length := by
  obtain ⟨body, _, rfl⟩ := h
  simp

/-- a code in either width: the bytes the reader sees denote it -/
theorem parseStr_code {c : Nat} {t : Bytes} (h : CodeSp c t) (hc : c < 65536) (X : Bytes) :
    ∃ bs, parseStr (t ++ X) = .ok (bs, X) ∧ parseCid bs = some c ∧ 2 ≤ t.length := by
  rcases h with h | ⟨hlt, h⟩
  · refine ⟨_, parseStr_hexStr h (by intro b hb; simp at hb; omega) X, ?_, hexStr_length_pos h⟩
    have := parseCid_cidBytes c hc
    simpa [cidBytes, unitBytes] using this
  · refine ⟨_, parseStr_hexStr h (by intro b hb; simp at hb; omega) X, ?_, hexStr_length_pos h⟩
    simp [parseCid, toNat_ofNat_lt hlt]

theorem parseStr_dst {s : List Nat} {t : Bytes} (h : DstSp s t) (hs : s.all isScalar = true) (X : Bytes) :
    parseStr (t ++ X) = .ok (strBytes s, X) :=
  parseStr_hexStr h (unitBytes_lt _ (utf16Encode_lt s hs)) X

theorem parseStrOrArr_dst {s : List Nat} {t : Bytes} (h : DstSp s t) (hs : s.all isScalar = true) (X : Bytes) :
    parseStrOrArr (t ++ X) = .ok (.str (strBytes s), X) :=
  parseStrOrArr_hexStr h (unitBytes_lt _ (utf16Encode_lt s hs)) X


/-! ### tokens between blocks -/

theorem takeWhile_boundary (w : Bytes) (hw : w.all isRegular = true) (t : Bytes) (hb : Boundary t) :
    (w ++ t).takeWhile isRegular = w ∧ (w ++ t).dropWhile isRegular = t := by
  rcases hb with rfl | ⟨b, r, rfl, hbr⟩
  · induction w with
    | nil => simp
    | cons a as ih =>
      simp only [List.all_cons, Bool.and_eq_true] at hw
      have := ih hw.2
      simp only [List.append_nil] at this ⊢
      simp [hw.1, this.1, this.2]
  · rw [isRegularChar_eq] at hbr
    exact takeWhile_regular w hw b hbr r

theorem regular_facts : ∀ b, isRegular b = true → isWs b = false ∧ isDelim b = false ∧ (b == 37) = false :=
  UInt8.forall_of_fin (by decide +kernel)

theorem nextWord_regword (a : UInt8) (w : Bytes) (hw : (a :: w).all isRegularChar = true) (t : Bytes) (hb : Boundary t) :
    nextWord (a :: (w ++ t)) = some (a :: w, t) := by
  have hw' : (a :: w).all isRegular = true := by rw [← isRegularChar_fun]; exact hw
  have ha : isRegular a = true := by simp only [List.all_cons, Bool.and_eq_true] at hw'; exact hw'.1
  obtain ⟨f1, f2, f3⟩ := regular_facts a ha
  have tw := takeWhile_boundary (a :: w) hw' t hb
  simp only [List.cons_append] at tw
  simp [nextWord, scan, f1, f2, f3, tw.1, tw.2]

theorem nextWord_name (w : Bytes) (hw : w.all isRegularChar = true) (t : Bytes) (hb : Boundary t) :
    nextWord (47 :: (w ++ t)) = some (47 :: w, t) := by
  have hw' : w.all isRegular = true := by rw [← isRegularChar_fun]; exact hw
  have tw := takeWhile_boundary w hw' t hb
  have h1 : isWs 47 = false := by decide
  have h2 : isDelim 47 = true := by decide
  simp [nextWord, scan, h1, h2, tw.1, tw.2]

theorem nextWord_delim1 (b : UInt8) (hb : b = 40 ∨ b = 41 ∨ b = 91 ∨ b = 93 ∨ b = 123 ∨ b = 125) (t : Bytes) :
    nextWord (b :: t) = some ([b], t) := by
  rcases hb with rfl | rfl | rfl | rfl | rfl | rfl <;> cases t <;> simp [nextWord, scan, isWs, isDelim]

theorem nextWord_lt1 (t : Bytes) (h : t.head? ≠ some 60) : nextWord (60 :: t) = some ([60], t) := by
  cases t with
  | nil => simp [nextWord, scan, isWs, isDelim]
  | cons d r =>
    have hd : (d == 60) = false := by
      simp only [List.head?_cons, ne_eq, Option.some.injEq] at h
      simpa using h
    have := nextWord_lt [] (by simp) d hd r
    simpa using this

theorem nextWord_ltlt (t : Bytes) : nextWord (60 :: 60 :: t) = some ([60, 60], t) := by
  simp [nextWord, scan, isWs, isDelim]

theorem nextWord_gt1 (t : Bytes) (h : t.head? ≠ some 62) : nextWord (62 :: t) = some ([62], t) := by
  cases t with
  | nil => simp [nextWord, scan, isWs, isDelim]
  | cons d r =>
    have hd : (d == 62) = false := by
      simp only [List.head?_cons, ne_eq, Option.some.injEq] at h
      simpa using h
    simp [nextWord, scan, isWs, isDelim, hd]

theorem nextWord_gtgt (t : Bytes) : nextWord (62 :: 62 :: t) = some ([62, 62], t) := by
  simp [nextWord, scan, isWs, isDelim]

theorem outer_junk {bs w t : Bytes} (h : nextWord bs = some (w, t)) (n1 : w ≠ kwBfchar) (n2 : w ≠ kwBfrange)
    (n3 : w ≠ kwEndcmap) (f : Nat) (m : Map) : outer (f + 1) bs m = outer f t m := by
  simp [outer, h, n1, n2, n3]

/-! ### array bodies -/

theorem parseArr_body {ss : List (List Nat)} {body : Bytes} (h : ArrBody ss body) (hs : ∀ s ∈ ss, s.all isScalar = true)
    (X : Bytes) : ∀ (f : Nat) (acc : List Bytes), body.length < f →
    parseArr f (body ++ 93 :: X) acc = .ok (acc.reverse ++ ss.map strBytes, X) := by
  induction h with
  | nil hsp =>
    intro f acc hf
    obtain ⟨f', rfl⟩ : ∃ f', f = f' + 1 := ⟨f - 1, by omega⟩
    rw [parseArr_seps hsp]
    have := nextWord_rbracket [] (by simp) X
    simp only [List.nil_append] at this
    simp [parseArr, this]
  | @cons s ss sp d t hsp hd _ ih =>
    intro f acc hf
    obtain ⟨f', rfl⟩ : ∃ f', f = f' + 1 := ⟨f - 1, by omega⟩
    have h1 := hs s (List.mem_cons_self ..)
    obtain ⟨c, Y, e, hc, hx⟩ := lex_hexStr hd (unitBytes_lt _ (utf16Encode_lt s h1)) (t ++ 93 :: X)
    have hl := hexStr_length_pos hd
    simp only [List.length_append] at hf
    have ih' := ih (fun x hx => hs x (List.mem_cons_of_mem _ hx)) f' (strBytes s :: acc) (by omega)
    have e2 : sp ++ (d ++ t) ++ 93 :: X = sp ++ (d ++ (t ++ 93 :: X)) := by simp
    rw [e2, parseArr_seps hsp, e]
    have nw := nextWord_lt [] (by simp) c hc Y
    simp only [List.nil_append] at nw
    have n1 : ([60] : Bytes) ≠ [93] := by decide
    simp only [parseArr, nw, n1, if_false, if_true]
    have hx' : hexStr none [] (c :: Y) = some (strBytes s, t ++ 93 :: X) := by simpa [strBytes] using hx
    simp only [hx', ih']
    simp

theorem parseStrOrArr_body {ss : List (List Nat)} {body : Bytes} (h : ArrBody ss body)
    (hs : ∀ s ∈ ss, s.all isScalar = true) (X : Bytes) :
    parseStrOrArr (91 :: (body ++ 93 :: X)) = .ok (.arr (ss.map strBytes), X) := by
  have := parseArr_body h hs X ((body ++ 93 :: X).length + 1) [] (by simp; omega)
  simp only [List.reverse_nil, List.nil_append] at this
  have nw := nextWord_lbracket [] (by simp) (body ++ 93 :: X)
  simp only [List.nil_append] at nw
  have n1 : ([91] : Bytes) ≠ [60] := by decide
  have n2 : ([91] : Bytes) ≠ [40] := by decide
  simp only [parseStrOrArr, nw, n1, n2, if_false, if_true, this]


/-! ### the reader on a spelling -/

def Good : St → List Ent → Bytes → Prop
  | .outer, es, t => ∀ f m, t.length < f → outer f t m = .ok ((pairs es).reverse ++ m)
  | .chars, es, t => ∀ f g m, t.length < f → t.length < g → contChar f g t m = .ok ((pairs es).reverse ++ m)
  | .ranges, es, t => ∀ f g m, t.length < f → t.length < g → contRange f g t m = .ok ((pairs es).reverse ++ m)

theorem good_skip {st : St} {es : List Ent} {p t : Bytes} (hp : Skip p) (ih : Good st es t) : Good st es (p ++ t) := by
  cases st with
  | outer =>
    intro f m hf
    simp only [List.length_append] at hf
    rw [outer_skip hp]
    exact ih f m (by omega)
  | chars =>
    intro f g m hf hg
    simp only [List.length_append] at hf hg
    obtain ⟨f', rfl⟩ : ∃ f', f = f' + 1 := ⟨f - 1, by omega⟩
    rw [contChar_skip hp]
    exact ih (f' + 1) g m (by omega) (by omega)
  | ranges =>
    intro f g m hf hg
    simp only [List.length_append] at hf hg
    obtain ⟨f', rfl⟩ : ∃ f', f = f' + 1 := ⟨f - 1, by omega⟩
    rw [contRange_skip hp]
    exact ih (f' + 1) g m (by omega) (by omega)

theorem good_junk {es : List Ent} {bs w t : Bytes} (h : nextWord bs = some (w, t)) (n1 : w ≠ kwBfchar)
    (n2 : w ≠ kwBfrange) (n3 : w ≠ kwEndcmap) (hl : t.length < bs.length) (ih : Good .outer es t) :
    Good .outer es bs := by
  intro f m hf
  obtain ⟨f', rfl⟩ : ∃ f', f = f' + 1 := ⟨f - 1, by omega⟩
  rw [outer_junk h n1 n2 n3]
  exact ih f' m (by omega)

theorem good_char {es : List Ent} {t a sp b : Bytes} (c : Nat) (s : List Nat) (hwf : (Ent.char c s).wf = true)
    (ha : CodeSp c a) (hsp : Seps sp) (hb : DstSp s b) (ih : Good .chars es t) :
    Good .chars (.char c s :: es) (a ++ (sp ++ (b ++ t))) := by
  intro f g m hf hg
  simp only [Ent.wf, Bool.and_eq_true, decide_eq_true_eq] at hwf
  obtain ⟨bs, p1, pc, hl⟩ := parseStr_code ha hwf.1 (sp ++ (b ++ t))
  have p2 : parseStr (sp ++ (b ++ t)) = .ok (strBytes s, t) := by
    rw [parseStr_seps hsp]; exact parseStr_dst hb hwf.2 t
  simp only [List.length_append] at hf hg
  obtain ⟨f', rfl⟩ : ∃ f', f = f' + 1 := ⟨f - 1, by omega⟩
  have := ih f' g ((c, s) :: m) (by omega) (by omega)
  simp only [contChar] at this
  simp only [contChar, bfchar, p1, p2, pc, insertDecoded_strBytes m c s hwf.2, this]
  simp [pairs, Ent.pairs]

theorem wordEndbfchar_regular : wordEndbfchar.all isRegularChar = true := by decide
theorem wordEndbfrange_regular : wordEndbfrange.all isRegularChar = true := by decide
theorem kwBfchar_regular : kwBfchar.all isRegularChar = true := by decide
theorem kwBfrange_regular : kwBfrange.all isRegularChar = true := by decide
theorem kwEndcmap_regular : kwEndcmap.all isRegularChar = true := by decide

theorem parseStr_regword (a : UInt8) (w : Bytes) (hw : (a :: w).all isRegularChar = true) (t : Bytes) (hb : Boundary t) :
    parseStr (a :: (w ++ t)) = .err := by
  have nw := nextWord_regword a w hw t hb
  have ha : isRegular a = true := by
    have : (a :: w).all isRegular = true := by rw [← isRegularChar_fun]; exact hw
    simp only [List.all_cons, Bool.and_eq_true] at this; exact this.1
  have hd := (regular_facts a ha).2.1
  have n60 : a ≠ 60 := by intro h; rw [h] at hd; revert hd; decide
  have n40 : a ≠ 40 := by intro h; rw [h] at hd; revert hd; decide
  simp [parseStr, nw, n60, n40]

theorem good_endChars {es : List Ent} {t : Bytes} (hb : Boundary t) (ih : Good .outer es t) :
    Good .chars es (wordEndbfchar ++ t) := by
  intro f g m hf hg
  have hl : wordEndbfchar.length = 9 := rfl
  simp only [List.length_append] at hf hg
  obtain ⟨f', rfl⟩ : ∃ f', f = f' + 1 := ⟨f - 1, by omega⟩
  obtain ⟨g', rfl⟩ : ∃ g', g = g' + 1 := ⟨g - 1, by omega⟩
  have pe := parseStr_regword 101 _ wordEndbfchar_regular t hb
  have nw := nextWord_regword 101 _ wordEndbfchar_regular t hb
  have e : wordEndbfchar ++ t = 101 :: ([110, 100, 98, 102, 99, 104, 97, 114] ++ t) := rfl
  rw [e]
  simp only [contChar, bfchar, pe]
  rw [outer_junk nw (by decide) (by decide) (by decide)]
  exact ih g' m (by omega)

theorem good_endRanges {es : List Ent} {t : Bytes} (hb : Boundary t) (ih : Good .outer es t) :
    Good .ranges es (wordEndbfrange ++ t) := by
  intro f g m hf hg
  have hl : wordEndbfrange.length = 10 := rfl
  simp only [List.length_append] at hf hg
  obtain ⟨f', rfl⟩ : ∃ f', f = f' + 1 := ⟨f - 1, by omega⟩
  obtain ⟨g', rfl⟩ : ∃ g', g = g' + 1 := ⟨g - 1, by omega⟩
  have pe := parseStr_regword 101 _ wordEndbfrange_regular t hb
  have nw := nextWord_regword 101 _ wordEndbfrange_regular t hb
  have e : wordEndbfrange ++ t = 101 :: ([110, 100, 98, 102, 114, 97, 110, 103, 101] ++ t) := rfl
  rw [e]
  simp only [contRange, bfrange, pe]
  rw [outer_junk nw (by decide) (by decide) (by decide)]
  exact ih g' m (by omega)

theorem good_beginChars {es : List Ent} {t : Bytes} (hb : Boundary t) (ih : Good .chars es t) :
    Good .outer es (kwBfchar ++ t) := by
  intro f m hf
  have hl : kwBfchar.length = 11 := rfl
  simp only [List.length_append] at hf
  obtain ⟨f', rfl⟩ : ∃ f', f = f' + 1 := ⟨f - 1, by omega⟩
  have nw := nextWord_regword 98 _ kwBfchar_regular t hb
  have e : kwBfchar ++ t = 98 :: ([101, 103, 105, 110, 98, 102, 99, 104, 97, 114] ++ t) := rfl
  have hr := ih f' f' m (by omega) (by omega)
  simp only [contChar] at hr
  rw [e]
  have k : (98 : UInt8) :: [101, 103, 105, 110, 98, 102, 99, 104, 97, 114] = kwBfchar := rfl
  simp only [outer, nw, k, if_true]
  exact hr

theorem good_beginRanges {es : List Ent} {t : Bytes} (hb : Boundary t) (ih : Good .ranges es t) :
    Good .outer es (kwBfrange ++ t) := by
  intro f m hf
  have hl : kwBfrange.length = 12 := rfl
  simp only [List.length_append] at hf
  obtain ⟨f', rfl⟩ : ∃ f', f = f' + 1 := ⟨f - 1, by omega⟩
  have nw := nextWord_regword 98 _ kwBfrange_regular t hb
  have e : kwBfrange ++ t = 98 :: ([101, 103, 105, 110, 98, 102, 114, 97, 110, 103, 101] ++ t) := rfl
  have hr := ih f' f' m (by omega) (by omega)
  simp only [contRange] at hr
  rw [e]
  have k : (98 : UInt8) :: [101, 103, 105, 110, 98, 102, 114, 97, 110, 103, 101] = kwBfrange := rfl
  have n1 : kwBfrange ≠ kwBfchar := by decide
  simp only [outer, nw, k, n1, if_false, if_true]
  exact hr

theorem good_endcmap (t : Bytes) (hb : Boundary t) : Good .outer [] (kwEndcmap ++ t) := by
  intro f m hf
  obtain ⟨f', rfl⟩ : ∃ f', f = f' + 1 := ⟨f - 1, by omega⟩
  have nw := nextWord_regword 101 _ kwEndcmap_regular t hb
  have e : kwEndcmap ++ t = 101 :: ([110, 100, 99, 109, 97, 112] ++ t) := rfl
  rw [e]
  have k : (101 : UInt8) :: [110, 100, 99, 109, 97, 112] = kwEndcmap := rfl
  have n1 : kwEndcmap ≠ kwBfchar := by decide
  have n2 : kwEndcmap ≠ kwBfrange := by decide
  simp only [outer, nw, k, n1, n2, if_false, if_true, pairs, List.flatMap_nil, List.reverse_nil, List.nil_append]

theorem good_rstr {es : List Ent} {t a s1 b s2 d : Bytes} (lo : Nat) (ss : List (List Nat))
    (hwf : (Ent.rstr lo ss).wf = true) (ha : CodeSp lo a) (h1 : Seps s1) (hb : CodeSp (lo + ss.length - 1) b)
    (h2 : Seps s2) (hd : DstSp (ss.headD []) d) (ih : Good .ranges es t) :
    Good .ranges (.rstr lo ss :: es) (a ++ (s1 ++ (b ++ (s2 ++ (d ++ t))))) := by
  intro f g m hf hg
  simp only [Ent.wf, Bool.and_eq_true, Bool.not_eq_true', decide_eq_true_eq] at hwf
  obtain ⟨⟨⟨⟨hne, hhi⟩, hsc0⟩, hhd⟩, hch⟩ := hwf
  have hsc : ∀ x ∈ ss, x.all isScalar = true := fun x hx => (List.all_eq_true.mp hsc0) x hx
  cases ss with
  | nil => simp at hne
  | cons s0 r =>
    simp only [List.headD_cons, List.length_cons] at hhd hhi hd hb
    have hs0 : s0.all isScalar = true := hsc s0 (List.mem_cons_self ..)
    have hs0ne : s0 ≠ [] := by intro h; simp [h] at hhd
    obtain ⟨bs1, p1, pc1, hl1⟩ := parseStr_code ha (by omega) (s1 ++ (b ++ (s2 ++ (d ++ t))))
    obtain ⟨bs2, p2', pc2, hl2⟩ := parseStr_code hb (by omega) (s2 ++ (d ++ t))
    have p2 : parseStr (s1 ++ (b ++ (s2 ++ (d ++ t)))) = .ok (bs2, s2 ++ (d ++ t)) := by
      rw [parseStr_seps h1]; exact p2'
    have p3 : parseStrOrArr (s2 ++ (d ++ t)) = .ok (.str (strBytes s0), t) := by
      rw [parseStrOrArr_seps h2]; exact parseStrOrArr_dst hd hs0 t
    simp only [List.length_append] at hf hg
    obtain ⟨f', rfl⟩ : ∃ f', f = f' + 1 := ⟨f - 1, by omega⟩
    have hpos := strBytes_length_pos s0 hs0ne
    have hn : lo + (r.length + 1) - 1 + 1 - lo = r.length + 1 := by omega
    have hr := rangeStr_spec s0 r hsc hch lo m
    have := ih f' g ((enumFrom lo (s0 :: r)).reverse ++ m) (by omega) (by omega)
    simp only [contRange] at this
    simp only [contRange, bfrange, p1, p2, p3, hpos, if_true, pc1, pc2, hn, hr, this]
    simp [pairs, Ent.pairs]

theorem good_rarr {es : List Ent} {t a s1 b s2 body : Bytes} (lo : Nat) (ss : List (List Nat))
    (hwf : (Ent.rarr lo ss).wf = true) (ha : CodeSp lo a) (h1 : Seps s1) (hb : CodeSp (lo + ss.length - 1) b)
    (h2 : Seps s2) (hbody : ArrBody ss body) (ih : Good .ranges es t) :
    Good .ranges (.rarr lo ss :: es) (a ++ (s1 ++ (b ++ (s2 ++ (91 :: (body ++ 93 :: t)))))) := by
  intro f g m hf hg
  simp only [Ent.wf, Bool.and_eq_true, Bool.not_eq_true', decide_eq_true_eq] at hwf
  obtain ⟨⟨hne, hhi⟩, hsc0⟩ := hwf
  have hsc : ∀ x ∈ ss, x.all isScalar = true := fun x hx => (List.all_eq_true.mp hsc0) x hx
  have hlen : 0 < ss.length := by
    cases ss with
    | nil => simp at hne
    | cons _ _ => simp
  obtain ⟨bs1, p1, pc1, hl1⟩ := parseStr_code ha (by omega) (s1 ++ (b ++ (s2 ++ (91 :: (body ++ 93 :: t)))))
  obtain ⟨bs2, p2', pc2, hl2⟩ := parseStr_code hb (by omega) (s2 ++ (91 :: (body ++ 93 :: t)))
  have p2 : parseStr (s1 ++ (b ++ (s2 ++ (91 :: (body ++ 93 :: t))))) = .ok (bs2, s2 ++ (91 :: (body ++ 93 :: t))) := by
    rw [parseStr_seps h1]; exact p2'
  have p3 : parseStrOrArr (s2 ++ (91 :: (body ++ 93 :: t))) = .ok (.arr (ss.map strBytes), t) := by
    rw [parseStrOrArr_seps h2]; exact parseStrOrArr_body hbody hsc t
  simp only [List.length_append, List.length_cons] at hf hg
  obtain ⟨f', rfl⟩ : ∃ f', f = f' + 1 := ⟨f - 1, by omega⟩
  have hr := rangeArr_spec ss hsc (lo + ss.length - 1 + 1 - lo) lo m (by omega)
  have := ih f' g ((enumFrom lo ss).reverse ++ m) (by omega) (by omega)
  simp only [contRange] at this
  simp only [contRange, bfrange, p1, p2, p3, pc1, pc2, hr, this]
  simp [pairs, Ent.pairs]

theorem sp_good {st : St} {es : List Ent} {t : Bytes} (h : Sp st es t) : Good st es t := by
  induction h with
  | skip hp _ ih => exact good_skip hp ih
  | eof =>
    intro f m hf
    obtain ⟨f', rfl⟩ : ∃ f', f = f' + 1 := ⟨f - 1, by simp at hf; omega⟩
    simp [outer, nextWord, scan, pairs]
  | endcmap t hb => exact good_endcmap t hb
  | word a w hw h1 h2 h3 hb _ ih =>
    exact good_junk (nextWord_regword a w hw _ hb) h1 h2 h3 (by simp only [List.length_cons, List.length_append]; omega) ih
  | name w hw hb _ ih =>
    have nk : ∀ k : Bytes, k.head? ≠ some 47 → 47 :: w ≠ k := by
      intro k hk h; rw [← h] at hk; simp at hk
    exact good_junk (nextWord_name w hw _ hb) (nk _ (by decide)) (nk _ (by decide)) (nk _ (by decide))
      (by simp only [List.length_cons, List.length_append]; omega) ih
  | delim b hb _ ih =>
    refine good_junk (nextWord_delim1 b hb _) ?_ ?_ ?_ (by simp only [List.length_cons]; omega) ih <;>
      (rcases hb with rfl | rfl | rfl | rfl | rfl | rfl <;> decide)
  | lt h _ ih => exact good_junk (nextWord_lt1 _ h) (by decide) (by decide) (by decide) (by simp only [List.length_cons]; omega) ih
  | ltlt _ ih => exact good_junk (nextWord_ltlt _) (by decide) (by decide) (by decide) (by simp only [List.length_cons]; omega) ih
  | gt h _ ih => exact good_junk (nextWord_gt1 _ h) (by decide) (by decide) (by decide) (by simp only [List.length_cons]; omega) ih
  | gtgt _ ih => exact good_junk (nextWord_gtgt _) (by decide) (by decide) (by decide) (by simp only [List.length_cons]; omega) ih
  | beginChars hb _ ih => exact good_beginChars hb ih
  | beginRanges hb _ ih => exact good_beginRanges hb ih
  | char c s hwf ha hsp hb _ ih => exact good_char c s hwf ha hsp hb ih
  | endChars hb _ ih => exact good_endChars hb ih
  | rstr lo ss hwf ha h1 hb h2 hd _ ih => exact good_rstr lo ss hwf ha h1 hb h2 hd ih
  | rarr lo ss hwf ha h1 hb h2 hbody _ ih => exact good_rarr lo ss hwf ha h1 hb h2 hbody ih
  | endRanges hb _ ih => exact good_endRanges hb ih

/-- the reader on every conformant spelling of a program: exactly the program's pairs, newest first -/
theorem parseCMap_spelling {es : List Ent} {text : Bytes} (h : CMapSpells es text) :
    parseCMap text = .ok (pairs es).reverse := by
  have := sp_good h (text.length + 1) [] (by omega)
  simpa [parseCMap] using this

end CMap
