import PdfModel.Lemmas.DeriveValue
import PdfModel.Lemmas.DerivePreserve

/-! `PagesNode` (C15): the hand-written reader takes `/Type` out of the dictionary before it calls the derived
    `from_dict` of the variant; the hand-written writer is the variant's derived writer. What the writer produces is
    read back — by the same values the derived reader alone gives, the catch-all minus `/Type`. -/

namespace Derive

theorem derase_exchange (k k' : String) : ∀ d : Dict, derase k (derase k' d) = derase k' (derase k d) := by
  intro d
  induction d with
  | nil => simp [derase]
  | cons hd t ih =>
    obtain ⟨k2, v2⟩ := hd
    by_cases h1 : k2 = k'
    · subst h1
      by_cases h2 : k2 = k
      · subst h2; simp [derase, ih]
      · simp [derase, h2, ih]
    · by_cases h2 : k2 = k
      · subst h2; simp [derase, h1, ih]
      · simp [derase, h1, h2, ih]

/-- the field loop does not look at an entry whose key is not the key of a field: taking it out beforehand takes it
    out of what is left over (and of the catch-all), nothing else -/
theorem readFields_minus_key (cfg : Cfg) (sem : Sem) (env : Env) (k : String) :
    ∀ (fs : List Field) (d : Dict) (acc : List Val) (oth : Option Dict), k ∉ fkeys fs →
      readFields cfg sem env fs (derase k d) acc (oth.map (derase k)) =
        match readFields cfg sem env fs d acc oth with
        | .ok (vals, d', oth') => .ok (vals, derase k d', oth'.map (derase k))
        | .error e => .error e := by
  intro fs
  induction fs with
  | nil => intro d acc oth _; simp [readFields]
  | cons f fs ih =>
    intro d acc oth hk
    simp only [readFields]
    cases hs : f.skip with
    | true =>
      simp only [if_true]
      exact ih d acc oth (by simpa [fkeys, hs] using hk)
    | false =>
      cases ho : f.other with
      | true =>
        simp only [Bool.false_eq_true, if_false, if_true]
        have := ih d acc (some d) (by simpa [fkeys, hs, ho] using hk)
        simpa using this
      | false =>
        simp only [Bool.false_eq_true, if_false]
        have hk' : k ∉ keyOf f :: fkeys fs := by simpa [fkeys, hs, ho] using hk
        have hne : keyOf f ≠ k := fun h => hk' (by simp [h])
        have hkr : k ∉ fkeys fs := fun h => hk' (by simp [h])
        have hg : dget (f.key.getD "") (derase k d) = dget (f.key.getD "") d :=
          dget_derase_ne (k := f.key.getD "") (k' := k) (fun h => hne (by simp [keyOf, h])) d
        rw [hg]
        cases hr : readField cfg sem env f acc (dget (f.key.getD "") d) with
        | error e => simp
        | ok v =>
          simp only
          rw [derase_exchange (f.key.getD "") k d]
          exact ih (derase (f.key.getD "") d) (acc ++ [v]) oth hkr

theorem expectAll_minus_key (k : String) (d : Dict) :
    ∀ cs : List (String × String), k ∉ cs.map (·.1) → expectAll (derase k d) cs = expectAll d cs := by
  intro cs
  induction cs with
  | nil => intro _; rfl
  | cons c cs ih =>
    obtain ⟨k0, v0⟩ := c
    intro hk
    simp at hk
    have hne : k ≠ k0 := fun h => hk.1 h
    simp only [expectAll, expect, dget_derase_ne (k := k0) (k' := k) hne d]
    rw [ih (by simpa using hk.2)]

/-- `PagesNode::from_primitive` after the test of `/Type`: the derived `from_dict` on the dictionary without `/Type`
    gives what it gives on the whole dictionary, the catch-all minus `/Type` -/
theorem readStructD_derase_type (cfg : Cfg) (sem : Sem) (env : Env) (S : Schema)
    (hk : S.kind = .struct) (hrd : S.derivesRead = true) (wf : S.WF) (t : String)
    (ht : S.typeName = some t) (hreq : S.typeRequired = false)
    (d : Dict) (vals : List Val) (oth : Dict) (h : readStructD cfg sem env S d = .ok (.struct vals oth)) :
    readStructD cfg sem env S (derase "Type" d) =
      .ok (.struct vals (if S.hasOther then derase "Type" oth else [])) := by
  have F := structFacts hk hrd wf
  obtain ⟨_, hch, vals', dfin, oth', hrf, hx⟩ := readStructD_ok h
  cases hx
  have htag : "Type" ∈ S.tagKeys := by simp [Schema.tagKeys, ht]
  have hnf : "Type" ∉ fkeys S.fields := F.disjoint "Type" htag
  have hnc : "Type" ∉ S.checks.map (·.1) := by
    have hd := F.distinctTags
    simp only [Schema.tagKeys, ht] at hd
    exact ((distinct_cons "Type" _).1 (by simpa using hd)).1
  have hrf' := readFields_minus_key cfg sem env "Type" S.fields d [] none hnf
  simp only [Option.map_none, hrf] at hrf'
  have hoth := readFields_other cfg sem env S.fields d [] none vals dfin oth' F.noSkip F.last hrf
  have hany : (S.fields.any fun f => f.other) = S.hasOther := rfl
  simp only [readStructD, ht, expect, dget_derase_self, hreq, Bool.false_eq_true, if_false,
    expectAll_minus_key "Type" d S.checks hnc, hch, hrf']
  cases ho : S.hasOther with
  | false =>
    rw [hany, ho] at hoth
    simp at hoth
    subst hoth
    simp
  | true =>
    rw [hany, ho] at hoth
    simp at hoth
    subst hoth
    simp

end Derive

namespace Derive

/-- what `PagesNode::to_primitive` produces for a value of variant `t` is read back by `PagesNode::from_primitive`:
    as the same variant, with the field values the variant's derived reader gives on the written dictionary (they
    write to the identical dictionary again), the catch-all minus the `/Type` entry the hand-written reader took out -/
theorem pagesNode_reads_back (cfg : Cfg) (schemas : List Schema) (inner : Sem) (env : Env) (lok : Shape → Val → Prop)
    (law : inner.Law env lok) (t : String) (ht : t = "Page" ∨ t = "Pages") (S : Schema)
    (hfind : findSchema (if t = "Page" then "Page" else "PageTree") schemas = some S)
    (hk : S.kind = .struct) (hrd : S.derivesRead = true) (wf : S.WF)
    (htn : S.typeName = some t) (hreq : S.typeRequired = false)
    (v : Val) (hv : structOk cfg inner env lok S v) (p : Prim)
    (hw : writePagesNode schemas inner (.pair (.leaf (.name t)) v) = .ok p) :
    ∃ vals oth,
      readPagesNode cfg schemas inner env p
        = .ok (.pair (.leaf (.name t)) (.struct vals (if S.hasOther then derase "Type" oth else []))) ∧
      writeStruct inner S (.struct vals oth) = .ok p := by
  have hw' : writeStruct inner S v = .ok p := by simpa [writePagesNode, hfind] using hw
  obtain ⟨v', hr, hw2⟩ := struct_roundTrips cfg inner env lok law S hk hrd wf v hv p hw'
  obtain ⟨vals0, other0, rfl, _, _⟩ := hv
  -- the written form is a dictionary that carries /Type
  simp only [writeStruct] at hw'
  cases hD : writeFields inner S.fields vals0 (writeBase S other0) with
  | error e => simp [hD] at hw'
  | ok D =>
    simp only [hD] at hw'
    cases hw'
    have htags := written_has_tags inner S hk hrd wf vals0 other0 D (by simp [writeStruct, hD])
    have htype : dget "Type" D = some (.name t) := htags.2 t htn
    have hrD : readStructD cfg inner env S D = .ok v' := by
      simpa [readStruct, asDict, chase_nonref env env.depth (p := .dict D) rfl] using hr
    obtain ⟨_, _, vals, dfin, oth', _, hx⟩ := readStructD_ok hrD
    subst hx
    have hder := readStructD_derase_type cfg inner env S hk hrd wf t htn hreq D vals (oth'.getD []) hrD
    refine ⟨vals, oth'.getD [], ?_, hw2⟩
    simp only [readPagesNode, resolve1, resolveP, htype]
    rcases ht with rfl | rfl
    · simp only [if_true] at hfind ⊢
      simp [hfind, hder]
    · have hne : ¬ ("Pages" = "Page") := by decide
      simp only [hne, if_false] at hfind ⊢
      simp [hfind, hder]

end Derive
