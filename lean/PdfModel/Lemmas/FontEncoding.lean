import PdfModel.Model.FontEncoding

/-! Lemmas for the /Differences array: groups, last assignment, write/read round trip. -/

namespace FontEncoding
variable {ν : Type}

theorem ofI32_toI32 (g : Nat) (h : g < 4294967296) : ofI32 (toI32 g) = g := by
  unfold ofI32 toI32
  split
  · rename_i h1
    have h2 : ¬ ((g : Int) < 0) := by omega
    simp only [h2, if_false, Int.toNat_natCast]
  · rename_i h1
    have h2 : (g : Int) - 4294967296 < 0 := by omega
    simp only [h2, if_true]
    omega

/-- a well-formed /Differences array: groups `code name₀ name₁ …` -/
def renderGroups : List (Nat × List ν) → List (DP ν)
  | [] => []
  | (c, ns) :: r => .int (toI32 c) :: (ns.map .name ++ renderGroups r)

def enumNames (c : Nat) : List ν → List (Nat × ν)
  | [] => []
  | n :: r => (c, n) :: enumNames (c + 1) r

/-- the (code, name) pairs of the groups, in order -/
def groupPairs : List (Nat × List ν) → List (Nat × ν)
  | [] => []
  | (c, ns) :: r => enumNames c ns ++ groupPairs r

theorem readDiffs_names : ∀ (ns : List ν) (gid : Nat) (rest : List (DP ν)) (m : DMap ν), gid + ns.length < 4294967296 →
    readDiffs gid (ns.map .name ++ rest) m = readDiffs (gid + ns.length) rest ((enumNames gid ns).reverse ++ m)
  | [], gid, rest, m, _ => by simp [enumNames]
  | n :: r, gid, rest, m, h => by
    simp only [List.length_cons] at h
    have h1 : ¬ (gid + 1 ≥ 4294967296) := by omega
    simp only [List.map_cons, List.cons_append, readDiffs, h1, if_false]
    rw [readDiffs_names r (gid + 1) rest ((gid, n) :: m) (by omega)]
    simp only [enumNames, List.reverse_cons, List.append_assoc, List.singleton_append, List.length_cons]
    congr 1
    omega

theorem readDiffs_groups : ∀ (gs : List (Nat × List ν)) (gid : Nat) (m : DMap ν),
    (∀ g ∈ gs, g.1 + g.2.length < 4294967296) →
    readDiffs gid (renderGroups gs) m = .ok ((groupPairs gs).reverse ++ m)
  | [], gid, m, _ => by simp [renderGroups, readDiffs, groupPairs]
  | (c, ns) :: r, gid, m, h => by
    have hc := h (c, ns) (List.mem_cons_self ..)
    simp only at hc
    have ih := readDiffs_groups r (c + ns.length) ((enumNames c ns).reverse ++ m)
      (fun g hg => h g (List.mem_cons_of_mem _ hg))
    simp only [renderGroups, readDiffs, ofI32_toI32 c (by omega)]
    rw [readDiffs_names ns c _ m hc, ih]
    simp [groupPairs]

/-- keys strictly increasing from `lo` on, and small enough to be read back (`key + 1` fits `u32`) -/
def sortedFrom (lo : Nat) : List (Nat × ν) → Prop
  | [] => True
  | e :: r => lo ≤ e.1 ∧ e.1 + 1 < 4294967296 ∧ sortedFrom (e.1 + 1) r

theorem write_read : ∀ (l : List (Nat × ν)) (last : Option Nat) (gid : Nat) (m : DMap ν),
    sortedFrom (match last with | some p => p + 1 | none => 0) l → (∀ p, last = some p → gid = p + 1) →
    ∃ items, writeDiffs last l = .ok items ∧ readDiffs gid items m = .ok (l.reverse ++ m)
  | [], last, gid, m, _, _ => ⟨[], rfl, by simp [readDiffs]⟩
  | (g, n) :: r, last, gid, m, hs, hg => by
    simp only [sortedFrom] at hs
    obtain ⟨hlo, hg32, hr⟩ := hs
    have h1 : ¬ (g + 1 ≥ 4294967296) := by omega
    obtain ⟨rest, hw, hrd⟩ := write_read r (some g) (g + 1) ((g, n) :: m) hr (fun p hp => by cases hp; rfl)
    cases last with
    | none =>
      refine ⟨.int (toI32 g) :: .name n :: rest, by simp [writeDiffs, hw], ?_⟩
      simp only [readDiffs, ofI32_toI32 g (by omega), h1, if_false, hrd]
      simp
    | some p =>
      have hgid := hg p rfl
      simp only at hlo
      have hnp : ¬ (p + 1 ≥ 4294967296) := by omega
      by_cases he : p + 1 = g
      · refine ⟨.name n :: rest, by simp [writeDiffs, hw, he]; omega, ?_⟩
        rw [hgid, he]
        simp only [readDiffs, h1, if_false, hrd]
        simp
      · refine ⟨.int (toI32 g) :: .name n :: rest, by simp [writeDiffs, hw, hnp, he], ?_⟩
        simp only [readDiffs, ofI32_toI32 g (by omega), h1, if_false, hrd]
        simp

theorem find_none_of_lt (code : Nat) : ∀ (l : List (Nat × ν)) (lo : Nat), sortedFrom lo l → code < lo →
    l.find? (·.1 == code) = none
  | [], _, _, _ => rfl
  | e :: r, lo, h, hc => by
    simp only [sortedFrom] at h
    have hne : (e.1 == code) = false := by
      simp only [beq_eq_false_iff_ne, ne_eq]
      omega
    simp only [List.find?_cons, hne]
    exact find_none_of_lt code r (e.1 + 1) h.2.2 (by omega)

theorem find_reverse_sorted (code : Nat) : ∀ (l : List (Nat × ν)) (lo : Nat), sortedFrom lo l →
    l.reverse.find? (·.1 == code) = l.find? (·.1 == code)
  | [], _, _ => rfl
  | e :: r, lo, h => by
    simp only [sortedFrom] at h
    have ih := find_reverse_sorted code r (e.1 + 1) h.2.2
    simp only [List.reverse_cons, List.find?_append, ih, List.find?_cons, List.find?_nil]
    cases he : e.1 == code with
    | true =>
      have : code = e.1 := by simpa using (beq_iff_eq.mp he).symm
      rw [find_none_of_lt code r (e.1 + 1) h.2.2 (by omega)]
      rfl
    | false => cases r.find? (·.1 == code) <;> rfl

end FontEncoding
