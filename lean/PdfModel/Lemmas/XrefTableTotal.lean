import PdfModel.Lemmas.ParserBasics
import PdfModel.Model.XrefTable

/-! Totality of the classic table reader: every lexeme the lexer hands out is non-empty progress
    (`nextWord_progress`), the comment loop of `next_word` never exhausts its fuel, and therefore the
    subsection loop of `parse_xref_table_and_trailer` ends within `buf.size + 1` rounds on *every* input:
    `parseTable_ne_oof`.  (The Rust loop has no fuel; this is the model-level content of "the reader
    returns".) -/

namespace PdfLex

/-! ### scans -/

theorem scanWhile_ge (buf : Buf) (cond : UInt8 → Bool) :
    ∀ (fuel pos : Nat), pos ≤ buf.size → pos ≤ scanWhile buf cond fuel pos := by
  intro fuel
  induction fuel with
  | zero => intro pos h; simpa [scanWhile] using h
  | succ f ih =>
    intro pos h
    simp only [scanWhile]
    cases hb : buf[pos]? with
    | none => simpa using h
    | some b =>
      simp only
      split
      · have hlt : pos < buf.size := by
          rcases Nat.lt_or_ge pos buf.size with h' | h'
          · exact h'
          · simp [Array.getElem?_eq_none h'] at hb
        have := ih (pos + 1) (by omega)
        omega
      · exact Nat.le_refl _

theorem scanWhile_le (buf : Buf) (cond : UInt8 → Bool) :
    ∀ (fuel pos : Nat), pos ≤ buf.size → scanWhile buf cond fuel pos ≤ buf.size := by
  intro fuel
  induction fuel with
  | zero => intro pos _; simp [scanWhile]
  | succ f ih =>
    intro pos h
    simp only [scanWhile]
    cases hb : buf[pos]? with
    | none => simp
    | some b =>
      simp only
      split
      · have hlt : pos < buf.size := by
          rcases Nat.lt_or_ge pos buf.size with h' | h'
          · exact h'
          · simp [Array.getElem?_eq_none h'] at hb
        exact ih (pos + 1) (by omega)
      · exact h

/-- where the scan stops inside the buffer, the condition fails -/
theorem scanWhile_stops (buf : Buf) (cond : UInt8 → Bool) :
    ∀ (fuel pos : Nat), buf.size - pos ≤ fuel → scanWhile buf cond fuel pos < buf.size →
      ∃ b, buf[scanWhile buf cond fuel pos]? = some b ∧ cond b = false := by
  intro fuel
  induction fuel with
  | zero => intro pos _ h; simp [scanWhile] at h
  | succ f ih =>
    intro pos hf h
    simp only [scanWhile] at h ⊢
    cases hb : buf[pos]? with
    | none => rw [hb] at h; simp at h
    | some b =>
      rw [hb] at h
      simp only at h ⊢
      by_cases hc : cond b = true
      · simp only [hc, if_true] at h ⊢
        exact ih (pos + 1) (by omega) h
      · simp only [hc, Bool.false_eq_true, if_false] at h ⊢
        exact ⟨b, hb, by simpa using hc⟩

theorem scanWhile_first_xt (buf : Buf) (cond : UInt8 → Bool) (fuel pos : Nat) (b : UInt8) (hb : buf[pos]? = some b)
    (hc : cond b = true) : pos + 1 ≤ scanWhile buf cond (fuel + 1) pos := by
  have hlt : pos < buf.size := by
    rcases Nat.lt_or_ge pos buf.size with h' | h'
    · exact h'
    · simp [Array.getElem?_eq_none h'] at hb
  simp only [scanWhile, hb, hc, if_true]
  exact scanWhile_ge buf cond fuel (pos + 1) (by omega)

/-- a position inside the buffer whose byte is not white-space -/
def TokAt (buf : Buf) (p : Nat) : Prop := p < buf.size ∧ ∃ b, buf[p]? = some b ∧ isWhitespace b = false

theorem skipWhitespace_spec_xt {buf : Buf} {pos p : Nat} (h : skipWhitespace buf pos = .ok p) : pos ≤ p ∧ TokAt buf p := by
  unfold skipWhitespace boundary at h
  by_cases hp : pos > buf.size
  · simp [hp] at h
  · simp only [hp, if_false, Out.bind_ok] at h
    split at h
    · simp at h
    · rename_i hlt
      simp at h
      subst h
      have hle : pos ≤ buf.size := by omega
      exact ⟨scanWhile_ge buf _ _ pos hle, by omega,
        scanWhile_stops buf isWhitespace (buf.size - pos) pos (Nat.le_refl _) (by omega)⟩

theorem skipWhitespace_ne_oof (buf : Buf) (pos : Nat) : skipWhitespace buf pos ≠ .oof := by
  unfold skipWhitespace boundary
  split
  · simp
  · simp only [Out.bind_ok]; split <;> simp

theorem findEol_ge (buf : Buf) : ∀ (fuel p q : Nat), findEol buf fuel p = some q → p ≤ q ∧ q < buf.size := by
  intro fuel
  induction fuel with
  | zero => intro p q h; simp [findEol] at h
  | succ f ih =>
    intro p q h
    simp only [findEol] at h
    cases hb : buf[p]? with
    | none => rw [hb] at h; simp at h
    | some b =>
      rw [hb] at h
      simp only at h
      have hlt : p < buf.size := by
        rcases Nat.lt_or_ge p buf.size with h' | h'
        · exact h'
        · simp [Array.getElem?_eq_none h'] at hb
      split at h
      · simp at h; subst h; exact ⟨Nat.le_refl _, hlt⟩
      · have := ih (p + 1) q h; omega

/-- the comment loop of `next_word`: with fuel that covers the rest of the buffer it never runs out, and it
    ends at the start of a token -/
theorem skipComments_spec_xt (buf : Buf) :
    ∀ (fuel pos : Nat), TokAt buf pos → buf.size - pos ≤ fuel →
      skipComments buf fuel pos ≠ .oof ∧ ∀ q, skipComments buf fuel pos = .ok q → pos ≤ q ∧ TokAt buf q := by
  intro fuel
  induction fuel with
  | zero =>
    intro pos ht hf
    have := ht.1
    omega
  | succ f ih =>
    intro pos ht hf
    unfold skipComments
    by_cases hc : (buf[pos]? == some 37) = true
    · simp only [hc, if_true]
      have hlt := ht.1
      have h1 : ¬ pos + 1 > buf.size := by omega
      simp only [h1, if_false]
      have key : ∀ pos2, pos + 1 ≤ pos2 →
          ((skipWhitespace buf pos2).bind fun p => skipComments buf f p) ≠ .oof ∧
          ∀ q, ((skipWhitespace buf pos2).bind fun p => skipComments buf f p) = .ok q → pos ≤ q ∧ TokAt buf q := by
        intro pos2 hpos2
        cases hs : skipWhitespace buf pos2 with
        | ok p =>
          obtain ⟨hle, htp⟩ := skipWhitespace_spec_xt hs
          simp only [Out.bind_ok]
          obtain ⟨a, b⟩ := ih p htp (by have := htp.1; omega)
          refine ⟨a, fun q hq => ?_⟩
          obtain ⟨x, y⟩ := b q hq
          exact ⟨by omega, y⟩
        | err => simp
        | panic => simp
        | oof => exact absurd hs (skipWhitespace_ne_oof _ _)
      apply key
      split
      · rename_i p hp
        have := (findEol_ge buf _ _ _ hp).1
        exact Nat.le_succ_of_le this
      · exact Nat.le_refl _
    · simp only [hc, Bool.false_eq_true, if_false]
      exact ⟨by simp, fun q hq => by simp at hq; subst hq; exact ⟨Nat.le_refl _, ht⟩⟩

theorem tokenStart_spec_xt (buf : Buf) (pos : Nat) :
    tokenStart buf pos ≠ .oof ∧ ∀ q, tokenStart buf pos = .ok q → pos ≤ q ∧ TokAt buf q := by
  unfold tokenStart
  cases hs : skipWhitespace buf pos with
  | ok p0 =>
    obtain ⟨hle, ht⟩ := skipWhitespace_spec_xt hs
    simp only [Out.bind_ok]
    obtain ⟨a, b⟩ := skipComments_spec_xt buf buf.size p0 ht (by omega)
    exact ⟨a, fun q hq => by have := b q hq; exact ⟨by omega, this.2⟩⟩
  | err => simp
  | panic => simp
  | oof => exact absurd hs (skipWhitespace_ne_oof _ _)

theorem newSubstr_eq {buf : Buf} {a b : Nat} {w : Nat × Nat} (hab : a ≤ b) (h : newSubstr buf a b = .ok w) : w = (a, b) := by
  have h1 : ¬ a > b := by omega
  simp only [newSubstr, h1, if_false] at h
  split at h
  · simp at h
  · simp at h; exact h.symm

theorem newSubstr_ne_oof (buf : Buf) (a b : Nat) : newSubstr buf a b ≠ .oof := by
  unfold newSubstr
  simp only []
  split <;> split <;> simp

theorem advancePos_ne_oof (buf : Buf) (p : Nat) : advancePos buf p ≠ .oof := by
  unfold advancePos; split <;> simp

theorem advancePos_ok {buf : Buf} {p q : Nat} (h : advancePos buf p = .ok q) : q = p + 1 := by
  unfold advancePos at h; split at h <;> simp at h; exact h.symm

theorem lexemeAt_ne_oof (buf : Buf) (start : Nat) : lexemeAt buf start ≠ .oof := by
  unfold lexemeAt
  split
  · split
    · simp
    · split
      · cases h1 : advancePos buf start with
        | ok p => simp only [Out.bind_ok]; exact newSubstr_ne_oof _ _ _
        | err => simp
        | panic => simp
        | oof => exact absurd h1 (advancePos_ne_oof _ _)
      · generalize hq : (if isDouble buf start = true then advancePos buf start else Out.ok start) = q1
        cases q1 with
        | ok q =>
          simp only [Out.bind_ok]
          cases h2 : advancePos buf q with
          | ok q2 => simp only [Out.bind_ok]; exact newSubstr_ne_oof _ _ _
          | err => simp
          | panic => simp
          | oof => exact absurd h2 (advancePos_ne_oof _ _)
        | err => simp
        | panic => simp
        | oof =>
          split at hq
          · exact absurd hq (advancePos_ne_oof _ _)
          · simp at hq
  · exact newSubstr_ne_oof _ _ _

/-- a lexeme that starts at a token position is not empty -/
theorem lexemeAt_progress {buf : Buf} {start : Nat} {w : Nat × Nat} (ht : TokAt buf start)
    (h : lexemeAt buf start = .ok w) : start < w.2 := by
  obtain ⟨hlt, b, hb, hws⟩ := ht
  unfold lexemeAt at h
  by_cases hd : isDelimAt buf start = true
  · simp only [hd, if_true, hb] at h
    by_cases h47 : (b == 47) = true
    · simp only [h47, if_true] at h
      have ha : advancePos buf start = .ok (start + 1) := by simp [advancePos, hlt]
      simp only [ha, Out.bind_ok] at h
      have hge : start + 1 ≤ scanRegular buf (start + 1) := scanWhile_ge buf _ _ _ (by omega)
      have := newSubstr_eq (by omega) h
      subst this; simp; omega
    · simp only [h47, Bool.false_eq_true, if_false] at h
      generalize hq : (if isDouble buf start = true then advancePos buf start else Out.ok start) = q1 at h
      cases q1 with
      | ok q =>
        have hqge : start ≤ q := by
          split at hq
          · have := advancePos_ok hq; omega
          · simp at hq; omega
        simp only [Out.bind_ok] at h
        cases h2 : advancePos buf q with
        | ok q2 =>
          rw [h2] at h
          simp only [Out.bind_ok] at h
          have e2 := advancePos_ok h2
          have := newSubstr_eq (by omega) h
          subst this; simp; omega
        | err => rw [h2] at h; simp at h
        | panic => rw [h2] at h; simp at h
        | oof => rw [h2] at h; simp at h
      | err => simp at h
      | panic => simp at h
      | oof => simp at h
  · simp only [hd, Bool.false_eq_true, if_false] at h
    have hnd : isDelimiter b = false := by
      simpa [isDelimAt, hb] using hd
    have hreg : isRegular b = true := by simp [isRegular, hws, hnd]
    have hge : start + 1 ≤ scanRegular buf start := by
      unfold scanRegular
      obtain ⟨k, hk⟩ : ∃ k, buf.size - start = k + 1 := ⟨buf.size - start - 1, by omega⟩
      rw [hk]
      exact scanWhile_first_xt buf isRegular k start b hb hreg
    have := newSubstr_eq (by omega) h
    subst this; simp; omega

theorem nextWord_ne_oof (buf : Buf) (pos : Nat) : nextWord buf pos ≠ .oof := by
  unfold nextWord
  split
  · simp
  · cases ht : tokenStart buf pos with
    | ok s => simp only [Out.bind_ok]; exact lexemeAt_ne_oof _ _
    | err => simp
    | panic => simp
    | oof => exact absurd ht (tokenStart_spec_xt buf pos).1

/-- **every lexeme is progress**: `next` moves the lexer forward by at least one byte -/
theorem nextWord_progress {buf : Buf} {pos : Nat} {w : Nat × Nat} (h : nextWord buf pos = .ok w) : pos < w.2 := by
  unfold nextWord at h
  split at h
  · simp at h
  · cases ht : tokenStart buf pos with
    | ok s =>
      rw [ht] at h
      simp only [Out.bind_ok] at h
      obtain ⟨hle, htok⟩ := (tokenStart_spec_xt buf pos).2 s ht
      have := lexemeAt_progress htok h
      omega
    | err => rw [ht] at h; simp at h
    | panic => rw [ht] at h; simp at h
    | oof => rw [ht] at h; simp at h

theorem peek_ne_oof (buf : Buf) (pos : Nat) : peek buf pos ≠ .oof := by
  unfold peek
  cases h : nextWord buf pos with
  | ok w => simp
  | err => exact newSubstr_ne_oof _ _ _
  | panic => simp
  | oof => exact absurd h (nextWord_ne_oof _ _)

end PdfLex

namespace XrefTable
open PdfLex Xref

theorem nextAsU32_spec (buf : Buf) (pos : Nat) :
    nextAsU32 buf pos ≠ .oof ∧ ∀ n q, nextAsU32 buf pos = .ok (n, q) → pos < q ∧ q ≤ buf.size := by
  unfold nextAsU32
  cases h : next buf pos with
  | ok w =>
    simp only
    cases parseU32 (slice buf w.1 w.2) with
    | some n =>
      refine ⟨by simp, fun n' q hq => ?_⟩
      simp at hq
      obtain ⟨_, rfl⟩ := hq
      exact ⟨nextWord_progress h, (nextWord_bounds h).2⟩
    | none => simp
  | err => simp
  | panic => simp
  | oof => exact absurd h (nextWord_ne_oof _ _)

theorem entryOfTokens_ne_oof (a b c : List UInt8) : entryOfTokens a b c ≠ .oof := by
  unfold entryOfTokens
  split
  · split <;> simp
  · split
    · split <;> simp
    · simp

theorem readEntry_spec' (buf : Buf) (pos : Nat) :
    readEntry buf pos ≠ .oof ∧ ∀ e q, readEntry buf pos = .ok (e, q) → pos < q ∧ q ≤ buf.size := by
  unfold readEntry
  cases h1 : next buf pos with
  | ok w1 =>
    simp only
    split
    · simp
    · cases h2 : next buf w1.2 with
      | ok w2 =>
        simp only
        cases h3 : next buf w2.2 with
        | ok w3 =>
          simp only
          cases he : entryOfTokens (slice buf w1.1 w1.2) (slice buf w2.1 w2.2) (slice buf w3.1 w3.2) with
          | ok e =>
            refine ⟨by simp, fun e' q hq => ?_⟩
            simp at hq
            obtain ⟨_, rfl⟩ := hq
            have a := nextWord_progress h1
            have b := nextWord_progress h2
            have c := nextWord_progress h3
            exact ⟨by omega, (nextWord_bounds h3).2⟩
          | err => simp
          | panic => simp
          | oof => exact absurd he (entryOfTokens_ne_oof _ _ _)
        | err => simp
        | panic => simp
        | oof => exact absurd h3 (nextWord_ne_oof _ _)
      | err => simp
      | panic => simp
      | oof => exact absurd h2 (nextWord_ne_oof _ _)
  | err => simp
  | panic => simp
  | oof => exact absurd h1 (nextWord_ne_oof _ _)

theorem entryLoop_spec' (buf : Buf) :
    ∀ (n pos : Nat) (acc : List XRef), pos ≤ buf.size →
      entryLoop buf n pos acc ≠ .oof ∧ ∀ es q, entryLoop buf n pos acc = .ok (es, q) → pos ≤ q ∧ q ≤ buf.size := by
  intro n
  induction n with
  | zero =>
    intro pos acc hp
    refine ⟨by simp [entryLoop], fun es q hq => ?_⟩
    simp [entryLoop] at hq
    obtain ⟨_, rfl⟩ := hq
    exact ⟨Nat.le_refl _, hp⟩
  | succ n ih =>
    intro pos acc hp
    simp only [entryLoop]
    cases hr : readEntry buf pos with
    | ok r =>
      obtain ⟨e, p⟩ := r
      simp only
      obtain ⟨h1, h2⟩ := (readEntry_spec' buf pos).2 e p hr
      obtain ⟨a, b⟩ := ih p (e :: acc) h2
      exact ⟨a, fun es q hq => by have := b es q hq; omega⟩
    | err => simp
    | panic => simp
    | oof => exact absurd hr (readEntry_spec' buf pos).1

theorem readSub_spec' (buf : Buf) (pos : Nat) :
    readSub buf pos ≠ .oof ∧ ∀ s q, readSub buf pos = .ok (s, q) → pos < q ∧ q ≤ buf.size := by
  unfold readSub
  cases h1 : nextAsU32 buf pos with
  | ok r1 =>
    obtain ⟨first, p1⟩ := r1
    simp only
    obtain ⟨a1, b1⟩ := (nextAsU32_spec buf pos).2 first p1 h1
    cases h2 : nextAsU32 buf p1 with
    | ok r2 =>
      obtain ⟨num, p2⟩ := r2
      simp only
      obtain ⟨a2, b2⟩ := (nextAsU32_spec buf p1).2 num p2 h2
      cases h3 : entryLoop buf num p2 [] with
      | ok r3 =>
        obtain ⟨es, p3⟩ := r3
        refine ⟨by simp, fun s q hq => ?_⟩
        simp at hq
        obtain ⟨_, rfl⟩ := hq
        have := (entryLoop_spec' buf num p2 [] b2).2 es p3 h3
        omega
      | err => simp
      | panic => simp
      | oof => exact absurd h3 (entryLoop_spec' buf num p2 [] b2).1
    | err => simp
    | panic => simp
    | oof => exact absurd h2 (nextAsU32_spec buf p1).1
  | err => simp
  | panic => simp
  | oof => exact absurd h1 (nextAsU32_spec buf pos).1

theorem tableLoop_ne_oof (buf : Buf) :
    ∀ (fuel pos : Nat) (acc : List Sub), pos ≤ buf.size → buf.size + 1 ≤ fuel + pos →
      tableLoop buf fuel pos acc ≠ .oof ∧ ∀ subs q, tableLoop buf fuel pos acc = .ok (subs, q) → q ≤ buf.size := by
  intro fuel
  induction fuel with
  | zero => intro pos acc hp hf; omega
  | succ f ih =>
    intro pos acc hp hf
    simp only [tableLoop]
    cases hpk : peek buf pos with
    | ok w =>
      simp only
      split
      · exact ⟨by simp, fun subs q hq => by simp at hq; obtain ⟨_, rfl⟩ := hq; exact hp⟩
      · cases hr : readSub buf pos with
        | ok r =>
          obtain ⟨s, p⟩ := r
          simp only
          obtain ⟨a, b⟩ := (readSub_spec' buf pos).2 s p hr
          exact ih p (s :: acc) b (by omega)
        | err => simp
        | panic => simp
        | oof => exact absurd hr (readSub_spec' buf pos).1
    | err => simp
    | panic => simp
    | oof => exact absurd hpk (peek_ne_oof _ _)

theorem nextExpect_ne_oof (buf : Buf) (pos : Nat) (kw : List UInt8) : nextExpect buf pos kw ≠ .oof := by
  unfold nextExpect
  cases h : next buf pos with
  | ok w => simp only [Out.bind_ok]; split <;> simp
  | err => simp
  | panic => simp
  | oof => exact absurd h (nextWord_ne_oof _ _)

/-- **the model's fuel suffices on every input**: the subsection loop of `parse_xref_table_and_trailer`
    ends within `buf.size + 1` rounds, whatever the bytes -/
theorem parseTable_ne_oof (buf : Buf) (pos : Nat) (hp : pos ≤ buf.size) :
    parseTable buf (defaultFuel buf) pos ≠ .oof := by
  unfold parseTable
  obtain ⟨a, _⟩ := tableLoop_ne_oof buf (defaultFuel buf) pos [] hp (by simp [defaultFuel])
  cases h : tableLoop buf (defaultFuel buf) pos [] with
  | ok r =>
    obtain ⟨subs, p⟩ := r
    simp only
    cases h2 : nextExpect buf p kwTrailer with
    | ok p' => simp
    | err => simp
    | panic => simp
    | oof => exact absurd h2 (nextExpect_ne_oof _ _ _)
  | err => simp
  | panic => simp
  | oof => exact absurd h a

end XrefTable
