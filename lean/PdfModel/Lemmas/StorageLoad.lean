import PdfModel.Lemmas.StorageInv

/-! `BaseOK` is what loading a well-formed file gives: the hypotheses of the C09 theorems, stated on the
    bytes (sections and objects of the file) instead of on the loaded document. -/

namespace Storage
open Xref

variable {V : Type}

/-- Well-formedness of the file being opened, in terms of its newest section `s0` and the sections
    `chain` that `/Prev` reaches from it: the C02 condition in its strong form (towards older sections
    generations never increase, also behind a compressed entry), every number below `/Size`, every
    offset inside the file. -/
structure FileWF (s : St V) (s0 : Sec) (chain : List (List Sub)) : Prop where
  start_le : s.start ≤ s.len
  pos_lt : s.start + s.startxref < s.len
  sec0 : secAt s.secs (s.start + s.startxref) = some s0
  size_ok : s0.size ≤ MAX_ID
  walk : prevChain s.secs s.start (s.secs.length + 1) s0.prev [] = .ok chain
  entries : pairsOK (allPairs (s0.subs :: chain))
  ids_lt : ∀ p ∈ allPairs (s0.subs :: chain), p.1 < s0.size
  newest_dominates : ∀ (j : Nat) (e : XRef) (older : List XRef),
      mentions (allPairs (s0.subs :: chain)) j = e :: older → ∀ m ∈ older, gen m ≤ gen e
  raw_in_file : ∀ p ∈ allPairs (s0.subs :: chain), ∀ pos g, p.2 = .raw pos g → s.start + pos < s.len
  stream_in_table : ∀ p ∈ allPairs (s0.subs :: chain), ∀ sid idx, p.2 = .stream sid idx → sid < s0.size + 1
  objs_lt : ∀ o ∈ s.objs, o.off < s.len
  secs_lt : ∀ x ∈ s.secs, x.off < s.len

theorem mem_mentions_of_mem (ps : List (Nat × XRef)) (p : Nat × XRef) (h : p ∈ ps) : p.2 ∈ mentions ps p.1 := by
  simp only [mentions, List.mem_map, List.mem_filter]
  exact ⟨p, ⟨h, by simp⟩, rfl⟩

theorem load_baseOK (s : St V) (s0 : Sec) (chain : List (List Sub)) (wf : FileWF s s0 chain) (c : Bool) (d0 : Doc V)
    (h : reload s c = .ok d0) : BaseOK d0 chain := by
  -- the table
  have hnp := newTable_noProm s0.size
  have hm := mergeAll_eq (newTable s0.size) (s0.subs :: chain) hnp wf.entries
  unfold reload at h
  have hge : ¬ (s.start + s.startxref ≥ s.len) := by have := wf.pos_lt; omega
  have hsz : ¬ (s0.size > MAX_ID) := by have := wf.size_ok; omega
  simp only [hge, if_false, wf.sec0, hsz, wf.walk, hm] at h
  split at h
  case h_1 tr hl =>
    simp only [Out.ok.injEq] at h
    subst h
    have htr : tr.prev = s0.prev := by
      unfold loadTrailer at hl
      split at hl
      · cases hi : s0.info with
        | none => simp only [hi, Out.ok.injEq] at hl; subst hl; rfl
        | some ii =>
          simp only [hi] at hl
          split at hl <;> first | (simp only [Out.ok.injEq] at hl; subst hl; rfl) | simp at hl
      · simp at hl
    -- what the table holds
    have hget : ∀ j : Nat, (pureAdd (newTable s0.size) (allPairs (s0.subs :: chain)))[j]? =
        (newTable s0.size)[j]?.map (fun d => mergeList d (mentions (allPairs (s0.subs :: chain)) j)) :=
      pureAdd_get _ _
    have hnew : ∀ j : Nat, j < s0.size → (newTable s0.size)[j]? = some .invalid := by
      intro j hj; simp [newTable, List.getElem?_append_left, hj]
    have hlast : (newTable s0.size)[s0.size]? = some (.free 0 65535) := by simp [newTable]
    have hbeyond : ∀ j : Nat, s0.size < j → (newTable s0.size)[j]? = none := by
      intro j hj; simp [newTable]; omega
    have hnomention : ∀ j : Nat, s0.size ≤ j → mentions (allPairs (s0.subs :: chain)) j = [] := by
      intro j hj
      cases hmm : mentions (allPairs (s0.subs :: chain)) j with
      | nil => rfl
      | cons m ms =>
        have : m ∈ mentions (allPairs (s0.subs :: chain)) j := by rw [hmm]; simp
        have := wf.ids_lt (j, m) (mem_mentions _ _ _ this)
        simp only at this; omega
    -- an entry of the table below /Size that is not `invalid` is the newest mention of its number
    have hentry : ∀ (j : Nat) (e : XRef), (pureAdd (newTable s0.size) (allPairs (s0.subs :: chain)))[j]? = some e →
        (e = .invalid ∧ mentions (allPairs (s0.subs :: chain)) j = []) ∨ (e = .free 0 65535 ∧ j = s0.size) ∨
        (∃ older, mentions (allPairs (s0.subs :: chain)) j = e :: older ∧ (j, e) ∈ allPairs (s0.subs :: chain)) := by
      intro j e he
      rw [hget] at he
      by_cases hj : j < s0.size
      · rw [hnew j hj] at he
        simp only [Option.map_some, Option.some.injEq] at he
        cases hmm : mentions (allPairs (s0.subs :: chain)) j with
        | nil => left; rw [hmm] at he; simp [mergeList] at he; exact ⟨he.symm, rfl⟩
        | cons m ms =>
          right; right
          rw [hmm, mergeList_invalid] at he
          have hmem : m ∈ mentions (allPairs (s0.subs :: chain)) j := by rw [hmm]; simp
          have hpair := mem_mentions _ _ _ hmem
          have hk : mergeList m ms = m :=
            mergeList_keep m (wf.entries _ hpair) ms (Or.inr (wf.newest_dominates j m ms hmm))
          rw [hk] at he; subst he
          exact ⟨ms, rfl, hpair⟩
      · by_cases hj2 : j = s0.size
        · subst hj2
          rw [hlast, hnomention _ (Nat.le_refl _)] at he
          simp [mergeList] at he
          right; left; exact ⟨he.symm, rfl⟩
        · rw [hbeyond j (by omega)] at he; simp at he
    refine
      { start_le := wf.start_le, chain := by rw [htr]; exact wf.walk, pairs_entry := ?_, pairs_dom := ?_,
        objs_lt := wf.objs_lt, secs_lt := wf.secs_lt, raw_lt := ?_, stream_lt := ?_, no_prom := ?_,
        changes_nil := rfl, cache_nil := rfl }
    · intro p hp
      exact wf.entries p (by simp only [allPairs, List.flatMap_cons, List.mem_append]; exact Or.inr hp)
    · intro p hp
      have hp' : p ∈ allPairs (s0.subs :: chain) := by
        simp only [allPairs, List.flatMap_cons, List.mem_append]; exact Or.inr hp
      have hlt := wf.ids_lt p hp'
      have hmem := mem_mentions_of_mem _ p hp'
      cases hmm : mentions (allPairs (s0.subs :: chain)) p.1 with
      | nil => rw [hmm] at hmem; cases hmem
      | cons e older =>
        have hpair : (p.1, e) ∈ allPairs (s0.subs :: chain) := mem_mentions _ _ _ (by rw [hmm]; simp)
        refine ⟨e, ?_, wf.entries _ hpair, ?_⟩
        · show (pureAdd (newTable s0.size) (allPairs (s0.subs :: chain)))[p.1]? = some e
          rw [hget, hnew _ hlt, hmm]
          simp only [Option.map_some, mergeList_invalid]
          rw [mergeList_keep e (wf.entries _ hpair) older (Or.inr (wf.newest_dominates p.1 e older hmm))]
        · rw [hmm] at hmem
          simp only [List.mem_cons] at hmem
          rcases hmem with h1 | h1
          · rw [h1]; exact Nat.le_refl _
          · exact wf.newest_dominates p.1 e older hmm _ h1
    · intro j pos g hj
      rcases hentry j _ hj with ⟨h1, _⟩ | ⟨h1, _⟩ | ⟨older, _, hp⟩
      · cases h1
      · cases h1
      · exact wf.raw_in_file _ hp pos g rfl
    · intro j sid idx hj
      rcases hentry j _ hj with ⟨h1, _⟩ | ⟨h1, _⟩ | ⟨older, _, hp⟩
      · cases h1
      · cases h1
      · show sid < (pureAdd (newTable s0.size) (allPairs (s0.subs :: chain))).length
        rw [pureAdd_length]
        have := wf.stream_in_table _ hp sid idx rfl
        simp [newTable]; omega
    · exact pureAdd_noProm _ _ hnp wf.entries
  all_goals simp at h

end Storage
