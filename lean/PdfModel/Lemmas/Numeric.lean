import PdfModel.Model.Numeric
