import PdfModel.Model.Numeric

/-! Helper lemmas for the numeric part of `Props/C14.lean`. -/

namespace Numeric

theorem readU64_consumes (w : Nat) (d : List Nat) (v : Nat) (r : List Nat) (h : readU64 w d = .ok (v, r)) :
    r.length + w = d.length := by
  unfold readU64 at h
  split at h
  · simp at h
  · split at h
    · simp at h
    · simp only [Out.ok.injEq, Prod.mk.injEq] at h
      rw [← h.2, List.length_drop]
      omega

theorem readU64_ne_bad (w : Nat) (d : List Nat) : readU64 w d ≠ .panic ∧ readU64 w d ≠ .oof := by
  unfold readU64
  split
  · simp
  · split <;> simp

theorem readEntry_ne_bad (w0 w1 w2 : Nat) (d : List Nat) : readEntry w0 w1 w2 d ≠ .panic ∧ readEntry w0 w1 w2 d ≠ .oof := by
  unfold readEntry
  have h0 : (if w0 = 0 then Out.ok (1, d) else readU64 w0 d) ≠ .panic ∧ (if w0 = 0 then Out.ok (1, d) else readU64 w0 d) ≠ .oof := by
    split
    · simp
    · exact readU64_ne_bad w0 d
  split
  · rename_i ty d1 _
    have h1 := readU64_ne_bad w1 d1
    split
    · rename_i f1 d2 _
      have h2 := readU64_ne_bad w2 d2
      split
      · split
        · simp
        · split
          · simp
          · split <;> simp
      · simp
      · rename_i e; exact absurd e h2.1
      · rename_i e; exact absurd e h2.2
    · simp
    · rename_i e; exact absurd e h1.1
    · rename_i e; exact absurd e h1.2
  · simp
  · rename_i e; exact absurd e h0.1
  · rename_i e; exact absurd e h0.2

theorem readEntry_consumes (w0 w1 w2 : Nat) (d : List Nat) (e : XEntry) (r : List Nat)
    (h : readEntry w0 w1 w2 d = .ok (e, r)) : r.length + (w0 + w1 + w2) = d.length := by
  unfold readEntry at h
  split at h
  · rename_i ty d1 h0
    have c0 : d1.length + w0 = d.length := by
      split at h0
      · rename_i hw; simp only [Out.ok.injEq, Prod.mk.injEq] at h0; rw [← h0.2, hw]; rfl
      · exact readU64_consumes w0 d ty d1 h0
    split at h
    · rename_i f1 d2 h1
      have c1 := readU64_consumes w1 d1 f1 d2 h1
      split at h
      · rename_i f2 d3 h2
        have c2 := readU64_consumes w2 d2 f2 d3 h2
        have hr : r = d3 := by
          split at h
          · simp only [Out.ok.injEq, Prod.mk.injEq] at h; exact h.2.symm
          · split at h
            · simp only [Out.ok.injEq, Prod.mk.injEq] at h; exact h.2.symm
            · split at h
              · simp only [Out.ok.injEq, Prod.mk.injEq] at h; exact h.2.symm
              · simp at h
        rw [hr]; omega
      · simp at h
      · simp at h
      · simp at h
    · simp at h
    · simp at h
    · simp at h
  · simp at h
  · simp at h
  · simp at h

theorem readEntries_ne_bad (w0 w1 w2 : Nat) : ∀ (n : Nat) (d : List Nat) (acc : List XEntry),
    readEntries w0 w1 w2 n d acc ≠ .panic ∧ readEntries w0 w1 w2 n d acc ≠ .oof := by
  intro n
  induction n with
  | zero => intro d acc; simp [readEntries]
  | succ n ih =>
    intro d acc
    unfold readEntries
    have h := readEntry_ne_bad w0 w1 w2 d
    split
    · exact ih _ _
    · simp
    · rename_i e; exact absurd e h.1
    · rename_i e; exact absurd e h.2

theorem readEntries_consumes (w0 w1 w2 : Nat) : ∀ (n : Nat) (d : List Nat) (acc es : List XEntry) (r : List Nat),
    readEntries w0 w1 w2 n d acc = .ok (es, r) →
      es.length = acc.length + n ∧ r.length + n * (w0 + w1 + w2) = d.length := by
  intro n
  induction n with
  | zero =>
    intro d acc es r h
    simp only [readEntries, Out.ok.injEq, Prod.mk.injEq] at h
    rw [← h.1, ← h.2]; simp
  | succ n ih =>
    intro d acc es r h
    unfold readEntries at h
    split at h
    · rename_i e rest he
      have c := readEntry_consumes w0 w1 w2 d e rest he
      have := ih rest (e :: acc) es r h
      simp only [List.length_cons] at this
      refine ⟨by omega, ?_⟩
      rw [Nat.add_mul]; omega
    · simp at h
    · simp at h
    · simp at h

theorem xrefCount_ne_bad (bits : Nat) (tol : Bool) (num w0 w1 w2 len : Nat) :
    xrefCount bits true tol num w0 w1 w2 len ≠ .panic ∧ xrefCount bits true tol num w0 w1 w2 len ≠ .oof := by
  unfold xrefCount
  rw [if_pos rfl]
  split
  · simp
  · split
    · simp
    · simp only
      split
      · simp
      · split
        · split <;> simp
        · simp

theorem xrefCount_bound (bits : Nat) (tol : Bool) (num w0 w1 w2 len n : Nat)
    (h : xrefCount bits true tol num w0 w1 w2 len = .ok n) :
    0 < w0 + w1 + w2 ∧ n ≤ num ∧ n * (w0 + w1 + w2) ≤ len := by
  unfold xrefCount at h
  rw [if_pos rfl] at h
  split at h
  · simp at h
  · split at h
    · simp at h
    · simp only at h
      split at h
      · simp at h
      · rename_i he
        have hpos : 0 < w0 + w1 + w2 := Nat.pos_of_ne_zero he
        have hdiv := Nat.div_mul_le_self len (w0 + w1 + w2)
        split at h
        · rename_i hgt
          split at h
          · simp only [Out.ok.injEq] at h
            rw [← h]
            exact ⟨hpos, by omega, hdiv⟩
          · simp at h
        · rename_i hle
          simp only [Out.ok.injEq] at h
          rw [← h]
          refine ⟨hpos, Nat.le_refl _, ?_⟩
          have : num ≤ len / (w0 + w1 + w2) := by omega
          exact Nat.le_trans (Nat.mul_le_mul_right _ this) hdiv

-- ---------------------------------------------------------------------------------------------------
-- PostScript calculator

theorem binop_ne_bad {V : Type} (f : V → V → V) (st : List V) : binop f st ≠ .panic ∧ binop f st ≠ .oof := by
  unfold binop
  split
  · simp
  · split <;> simp

theorem pop?_length {V : Type} (st st1 : List V) (v : V) (h : pop? st = some (v, st1)) : st.length = st1.length + 1 := by
  unfold pop? at h
  split at h
  · simp at h
  · rename_i top rest hr
    simp only [Option.some.injEq, Prod.mk.injEq] at h
    have : st.reverse.length = (top :: rest).length := by rw [hr]
    simp only [List.length_reverse, List.length_cons] at this
    rw [← h.2, List.length_reverse]
    exact this

theorem execOp_ne_bad {V : Type} (A : Arith V) (op : PsOp V) (st : List V) :
    execOp A true op st ≠ .panic ∧ execOp A true op st ≠ .oof := by
  cases op with
  | int i => simp [execOp]
  | value v => simp [execOp]
  | add => exact binop_ne_bad _ _
  | sub => exact binop_ne_bad _ _
  | mul => exact binop_ne_bad _ _
  | abs => simp only [execOp]; split <;> simp
  | dup => simp only [execOp]; split <;> simp
  | exch =>
    simp only [execOp]
    split
    · simp
    · split <;> simp
  | cvr => simp [execOp]
  | pop => simp only [execOp]; split <;> simp
  | index =>
    simp only [execOp]
    split
    · simp
    · rename_i v st1 _
      split
      · simp
      · rename_i hn
        split
        · rename_i hnone
          have := List.getElem?_eq_none_iff.1 hnone
          omega
        · simp
  | roll =>
    simp only [execOp]
    split
    · simp
    · split
      · simp
      · simp only [if_true]
        split
        · simp
        · split <;> simp

theorem execInner_ne_bad {V : Type} (A : Arith V) : ∀ (ops : List (PsOp V)) (st : List V),
    execInner A true ops st ≠ .panic ∧ execInner A true ops st ≠ .oof := by
  intro ops
  induction ops with
  | nil => intro st; simp [execInner]
  | cons op ops ih =>
    intro st
    unfold execInner
    have h := execOp_ne_bad A op st
    split
    · exact ih _
    · simp
    · rename_i e; exact absurd e h.1
    · rename_i e; exact absurd e h.2


-- ---------------------------------------------------------------------------------------------------
-- key lengths

theorem sliceTo_ok {n len : Nat} (h : n ≤ len) : sliceTo n len = .ok () := by simp [sliceTo, h]
theorem rc4Key_ok {len : Nat} (h : 0 < len ∧ len ≤ 256) : rc4Key len = .ok () := by simp [rc4Key, h]
theorem seqU_ok (b : Out Unit) : seqU (.ok ()) b = b := rfl

theorem userKeySlices_ok (revision keySize : Nat) : userKeySlices true revision keySize = .ok () := by
  unfold userKeySlices
  rw [sliceTo_ok (show 16 ≤ max keySize 16 by omega)]
  split
  · simp only [if_true]; rw [sliceTo_ok (show min keySize 16 ≤ 16 by omega)]; rfl
  · rfl

theorem keySchedule_returns (revision keyBits : Nat) (userOk : Bool) :
    keySchedule true revision keyBits userOk = .ok () ∨ keySchedule true revision keyBits userOk = .err := by
  unfold keySchedule
  simp only []
  by_cases h0 : keyBits / 8 = 0
  · right; rw [if_pos h0]
  · rw [if_neg h0]
    by_cases h32 : keyBits / 8 > 32
    · right; rw [if_pos h32]
    rw [if_neg h32, userKeySlices_ok, seqU_ok, sliceTo_ok (show min (keyBits / 8) 16 ≤ max (keyBits / 8) 16 by omega), seqU_ok,
      rc4Key_ok (show 0 < min (keyBits / 8) 16 ∧ min (keyBits / 8) 16 ≤ 256 by omega), seqU_ok]
    cases userOk
    · simp only [Bool.false_eq_true, if_false]
      by_cases hb : keyBits / 8 > 16
      · right; rw [if_pos hb]
      · left
        rw [if_neg hb]
        simp only [sliceTo_ok (show keyBits / 8 ≤ 16 by omega), sliceTo_ok (show keyBits / 8 ≤ max (keyBits / 8) 16 by omega),
          rc4Key_ok (show 0 < keyBits / 8 ∧ keyBits / 8 ≤ 256 by omega), userKeySlices_ok, seqU_ok]
    · left; rfl

theorem objectKeySlices_ok (aes : Bool) (keySize keyLen : Nat) (h : min keySize 16 ≤ keyLen) :
    objectKeySlices aes keySize keyLen = .ok () := by
  unfold objectKeySlices
  simp only []
  rw [sliceTo_ok h, seqU_ok]
  cases aes
  · simp only [Bool.false_eq_true, if_false]
    rw [sliceTo_ok (show min keySize 16 + 5 ≤ 21 by omega), seqU_ok]
    exact rc4Key_ok (by omega)
  · simp only [if_true]
    rw [sliceTo_ok (show min keySize 16 + 9 ≤ 41 by omega), seqU_ok]

end Numeric
