import PdfModel.Model.XrefTable
import PdfModel.Model.XrefStreamRead
import PdfModel.Lemmas.TotalParser
import PdfModel.Lemmas.TotalXrefStream
import PdfModel.Lemmas.Xref

/-!
  Totality of the cross-reference section readers on arbitrary buffers (C01), over the ONE model of them,
  `Model/XrefTable` (the C02 package's, with which `Props/C02` reads conforming sections back) and its stream
  branch `Model/XrefStreamRead`: `Ok` or `Err` — never `panic`, never `oof` with the default fuels — the cursor inside
  the buffer, and only `Free` / `Raw` / `Stream` entries come out (what `Props/C02.merge_total` asks of a section).

  Resources: every round of the entry loop consumes three lexemes, every round of the subsection loop two, so a
  subsection header that claims 4294967295 entries ends in `Err` after at most `len / 3` rounds
  (`entryLoop_total`: the entries returned fit into the bytes consumed).
-/

namespace PdfLex

/-- every entry is one a section reader can produce (`Free`, `Raw`, `Stream`) -/
def SubsOk (secs : List Xref.Sub) : Prop := ∀ s ∈ secs, ∀ e ∈ s.entries, Xref.isEntry e = true

theorem mem_pairsFrom (i : Nat) (es : List Xref.XRef) : ∀ p ∈ Xref.pairsFrom i es, p.2 ∈ es := by
  induction es generalizing i with
  | nil => intro p hp; simp [Xref.pairsFrom] at hp
  | cons e es ih =>
    intro p hp
    simp only [Xref.pairsFrom, List.mem_cons] at hp
    rcases hp with rfl | hp
    · simp
    · exact List.mem_cons_of_mem _ (ih (i + 1) p hp)

theorem subsOk_pairsOK (secs : List Xref.Sub) (h : SubsOk secs) : Xref.pairsOK (Xref.secPairs secs) := by
  intro p hp
  simp only [Xref.secPairs, List.mem_flatMap] at hp
  obtain ⟨s, hs, hps⟩ := hp
  exact h s hs p.2 (mem_pairsFrom s.first s.entries p hps)

end PdfLex

namespace XrefTable
open PdfLex Xref

variable {R : Type}

theorem nextAsU32_good (buf : Buf) (pos : Nat) (h : pos ≤ buf.size) : Good buf pos (nextAsU32 buf pos) := by
  unfold nextAsU32
  rcases next_spec buf pos h with he | ⟨w, hw, a1, a2, a3⟩
  · left; simp only [he]
  · simp only [hw]
    split
    · exact good_ok _ (by omega) a3
    · exact good_err _ _

theorem entryOfTokens_cases (a b c : List UInt8) :
    entryOfTokens a b c = .err ∨ ∃ e, entryOfTokens a b c = .ok e ∧ isEntry e = true := by
  unfold entryOfTokens
  split
  · split
    · exact Or.inr ⟨_, rfl, rfl⟩
    · exact Or.inl rfl
  · split
    · split
      · exact Or.inr ⟨_, rfl, rfl⟩
      · exact Or.inl rfl
    · exact Or.inl rfl

/-- one entry: `Err`, or a `Free` / `Raw` entry behind at least three consumed bytes -/
theorem readEntry_total (buf : Buf) (pos : Nat) (h : pos ≤ buf.size) :
    readEntry buf pos = .err ∨
    ∃ e q, readEntry buf pos = .ok (e, q) ∧ pos + 3 ≤ q ∧ q ≤ buf.size ∧ isEntry e = true := by
  unfold readEntry
  rcases next_spec buf pos h with he | ⟨w1, hw1, a1, a2, a3⟩
  · left; simp only [he]
  · simp only [hw1]
    split
    · left; rfl
    · rcases next_spec buf w1.2 a3 with he | ⟨w2, hw2, b1, b2, b3⟩
      · left; simp only [he]
      · simp only [hw2]
        rcases next_spec buf w2.2 b3 with he | ⟨w3, hw3, c1, c2, c3⟩
        · left; simp only [he]
        · simp only [hw3]
          rcases entryOfTokens_cases (slice buf w1.1 w1.2) (slice buf w2.1 w2.2) (slice buf w3.1 w3.2)
            with he | ⟨e, hE, hi⟩
          · left; simp only [he]
          · right; simp only [hE]; exact ⟨e, w3.2, rfl, by omega, c3, hi⟩

/-- the entry loop, whatever count `num_ids` the header claims: `Err`, or entries that fit three-to-one into
    the bytes consumed — so at most `len / 3` rounds ever run -/
theorem entryLoop_total (buf : Buf) : ∀ (n pos : Nat) (acc : List XRef), pos ≤ buf.size →
    (∀ e ∈ acc, isEntry e = true) →
    entryLoop buf n pos acc = .err ∨
    ∃ es q, entryLoop buf n pos acc = .ok (es, q) ∧ pos + 3 * n ≤ q ∧ q ≤ buf.size ∧
      (∀ e ∈ es, isEntry e = true) ∧ es.length = acc.length + n := by
  intro n
  induction n with
  | zero =>
    intro pos acc h hacc
    right; exact ⟨acc.reverse, pos, rfl, by omega, h, fun e he => hacc e (by simpa using he), by simp⟩
  | succ n ih =>
    intro pos acc h hacc
    simp only [entryLoop]
    rcases readEntry_total buf pos h with he | ⟨e, q, hq, q1, q2, q3⟩
    · left; simp only [he]
    · simp only [hq]
      rcases ih q (e :: acc) q2 (fun x hx => by
          rcases List.mem_cons.1 hx with rfl | hx
          · exact q3
          · exact hacc x hx) with he | ⟨es, r, hr, r1, r2, r3, r4⟩
      · left; exact he
      · right; exact ⟨es, r, hr, by omega, r2, r3, by simp at r4; omega⟩

theorem readSub_total (buf : Buf) (pos : Nat) (h : pos ≤ buf.size) :
    readSub buf pos = .err ∨
    ∃ s q, readSub buf pos = .ok (s, q) ∧ pos + 2 ≤ q ∧ q ≤ buf.size ∧ (∀ e ∈ s.entries, isEntry e = true) ∧
      3 * s.entries.length ≤ q - pos := by
  unfold readSub
  rcases nextAsU32_good buf pos h with he | ⟨first, p1, hp1, a1, a2⟩
  · left; simp only [he]
  · simp only [hp1]
    rcases nextAsU32_good buf p1 a2 with he | ⟨num, p2, hp2, b1, b2⟩
    · left; simp only [he]
    · simp only [hp2]
      rcases entryLoop_total buf num p2 [] b2 (fun e he => by cases he) with he | ⟨es, q, hq, q1, q2, q3, q4⟩
      · left; simp only [he]
      · right; simp only [hq]
        exact ⟨_, q, rfl, by omega, q2, q3, by simp at q4 ⊢; omega⟩

/-- the subsection loop with fuel `buf.size - pos + 1` (`defaultFuel` from any cursor) -/
theorem tableLoop_total (buf : Buf) : ∀ (fuel pos : Nat) (acc : List Sub), pos ≤ buf.size → buf.size - pos < fuel →
    SubsOk acc →
    tableLoop buf fuel pos acc = .err ∨
    ∃ subs q, tableLoop buf fuel pos acc = .ok (subs, q) ∧ pos ≤ q ∧ q ≤ buf.size ∧ SubsOk subs := by
  intro fuel
  induction fuel with
  | zero => intro pos acc h hf; omega
  | succ fuel ih =>
    intro pos acc h hf hacc
    simp only [tableLoop]
    obtain ⟨pk, hpk, _, _, _⟩ := peek_spec buf pos h
    simp only [hpk]
    split
    · right; exact ⟨_, _, rfl, Nat.le_refl _, h, fun s hs => hacc s (by simpa using hs)⟩
    · rcases readSub_total buf pos h with he | ⟨s, q, hq, q1, q2, q3, _⟩
      · left; simp only [he]
      · simp only [hq]
        rcases ih q (s :: acc) q2 (by omega) (fun x hx => by
            rcases List.mem_cons.1 hx with rfl | hx
            · exact q3
            · exact hacc x hx) with he | ⟨subs, r, hr, r1, r2, r3⟩
        · left; exact he
        · right; exact ⟨subs, r, hr, by omega, r2, r3⟩

theorem parseTable_total (buf : Buf) (pos : Nat) (h : pos ≤ buf.size) :
    parseTable buf (defaultFuel buf) pos = .err ∨
    ∃ subs q, parseTable buf (defaultFuel buf) pos = .ok (subs, q) ∧ pos < q ∧ q ≤ buf.size ∧ SubsOk subs := by
  unfold parseTable
  rcases tableLoop_total buf (defaultFuel buf) pos [] h (by unfold defaultFuel; omega) (fun s hs => by cases hs)
    with he | ⟨subs, q, hq, q1, q2, q3⟩
  · left; simp only [he]
  · simp only [hq]
    rcases nextExpect_spec buf q kwTrailer q2 with he | ⟨p, hp, p1, p2⟩
    · left; simp only [he]
    · right; simp only [hp]; exact ⟨subs, p, rfl, by omega, p2, q3⟩

theorem trailerDict_good (env : Env R) (henv : EnvOk env) (buf : Buf) (hs : RealSize buf) (pos : Nat)
    (h : pos ≤ buf.size) : Good buf pos (trailerDict env buf (PdfLex.defaultFuel buf) pos) := by
  unfold trailerDict
  rcases parseWithLexer_good env henv buf hs (PdfLex.defaultFuel buf) pos Flags.dict h
    (by have := defaultFuel_enough buf pos; omega) with he | ⟨v, p, hp, p1, p2⟩
  · left; simp only [he]
  · simp only [hp]
    cases v <;> first | exact good_ok _ p1 p2 | exact good_err _ _

/-- `parse_xref_table_and_trailer` -/
theorem parseXrefTableAndTrailer_total (env : Env R) (henv : EnvOk env) (buf : Buf) (hs : RealSize buf) (pos : Nat)
    (h : pos ≤ buf.size) :
    parseXrefTableAndTrailer env buf (defaultFuel buf) (PdfLex.defaultFuel buf) pos = .err ∨
    ∃ subs d q, parseXrefTableAndTrailer env buf (defaultFuel buf) (PdfLex.defaultFuel buf) pos = .ok ((subs, d), q) ∧
      pos < q ∧ q ≤ buf.size ∧ SubsOk subs := by
  unfold parseXrefTableAndTrailer
  rcases parseTable_total buf pos h with he | ⟨subs, q, hq, q1, q2, q3⟩
  · left; simp only [he]
  · simp only [hq]
    rcases trailerDict_good env henv buf hs q q2 with he | ⟨d, p, hp, p1, p2⟩
    · left; simp only [he]
    · right; simp only [hp]; exact ⟨subs, d, p, rfl, by omega, p2, q3⟩

/-- what the dispatcher asks of the stream reader it is handed -/
def StmOk (stm : Buf → Nat → Out (List Sub × Dict R)) : Prop :=
  ∀ buf pos, pos ≤ buf.size → RealSize buf →
    stm buf pos = .err ∨ ∃ subs d, stm buf pos = .ok (subs, d) ∧ SubsOk subs

/-- `read_xref_and_trailer_at`, both branches: `Ok` or `Err`, sections of `Free` / `Raw` / `Stream` entries -/
theorem readXrefAndTrailerAt_total (env : Env R) (henv : EnvOk env) (stm : Buf → Nat → Out (List Sub × Dict R))
    (hstm : StmOk stm) (buf : Buf) (hs : RealSize buf) (pos : Nat) (h : pos ≤ buf.size) :
    readXrefAndTrailerAt env stm buf (defaultFuel buf) (PdfLex.defaultFuel buf) pos = .err ∨
    ∃ subs d, readXrefAndTrailerAt env stm buf (defaultFuel buf) (PdfLex.defaultFuel buf) pos = .ok (subs, d) ∧
      SubsOk subs := by
  unfold readXrefAndTrailerAt
  rcases next_spec buf pos h with he | ⟨w, hw, a1, a2, a3⟩
  · left; simp only [he]
  · simp only [hw]
    split
    · rcases parseXrefTableAndTrailer_total env henv buf hs w.2 a3 with he | ⟨subs, d, q, hq, _, _, q3⟩
      · left; simp only [he]
      · right; simp only [hq]; exact ⟨subs, d, rfl, q3⟩
    · obtain ⟨b, hb, b1, b2⟩ := back_spec buf w.2 a3
      simp only [hb]
      exact hstm buf b.1 (by omega) hs

/-- `parse_xref_stream_and_trailer`, for a typed reader and a data reader that return `Ok` or `Err`:
    strict and tolerant (`allowErr`) -/
theorem parseXrefStreamAndTrailer_total (env : Env R) (henv : EnvOk env) (typed : Dict R → Out XInfo)
    (htyped : ∀ d, Ret (typed d)) (data : Dict R → StreamInner → Out (List UInt8)) (hdata : ∀ d i, Ret (data d i))
    (allowErr : Bool) : StmOk (fun b p => parseXrefStreamAndTrailer env typed data allowErr b (PdfLex.defaultFuel b) p) := by
  intro buf pos h hs
  simp only []
  unfold parseXrefStreamAndTrailer
  rcases parseIndirectStream_good env henv buf hs (PdfLex.defaultFuel buf) pos h (by unfold PdfLex.defaultFuel; omega)
    with he | ⟨v, p, hp, p1, p2⟩
  · left; simp only [he]
  · obtain ⟨id, v⟩ := v
    cases v with
    | stream info inner =>
      simp only [hp]
      rcases next_spec buf p p2 with he | ⟨w, hw, a1, a2, a3⟩
      · left; simp only [he]
      · simp only [hw]
        have htr : Ret (streamTrailer env buf (PdfLex.defaultFuel buf) w info) := by
          unfold streamTrailer
          split
          · rcases trailerDict_good env henv buf hs w.2 a3 with he | ⟨d, q, hq, _, _⟩
            · left; simp only [he]
            · right; simp only [hq]; exact ⟨d, rfl⟩
          · exact Or.inr ⟨_, rfl⟩
        rcases htr with he | ⟨tr, htr⟩
        · left; simp only [he]
        · simp only [htr]
          rcases htyped info with he | ⟨xi, hxi⟩
          · left; simp only [he]
          · simp only [hxi]
            rcases hdata info inner with he | ⟨bytes, hb⟩
            · left; simp only [he]
            · simp only [hb]
              split
              · left; rfl
              · rcases parseSections_spec xi.w allowErr (pairsOf xi.index) bytes [] (fun s hs => by cases hs)
                  with he | ⟨secs, hsec, hok⟩
                · left; simp only [he]
                · right; simp only [hsec]; exact ⟨secs, tr, rfl, hok⟩
    | _ => left; simp only [hp]

/-- `read_xref_and_trailer_at` with both section formats concrete -/
theorem readXrefAt_total (env : Env R) (henv : EnvOk env) (typed : Dict R → Out XInfo) (htyped : ∀ d, Ret (typed d))
    (data : Dict R → StreamInner → Out (List UInt8)) (hdata : ∀ d i, Ret (data d i)) (allowErr : Bool)
    (buf : Buf) (hs : RealSize buf) (pos : Nat) (h : pos ≤ buf.size) :
    readXrefAt env typed data allowErr buf pos = .err ∨
    ∃ subs d, readXrefAt env typed data allowErr buf pos = .ok (subs, d) ∧ SubsOk subs :=
  readXrefAndTrailerAt_total env henv _ (parseXrefStreamAndTrailer_total env henv typed htyped data hdata allowErr)
    buf hs pos h

end XrefTable
