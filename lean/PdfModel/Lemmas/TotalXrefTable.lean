import PdfModel.Model.XrefTableC01
import PdfModel.Lemmas.TotalParser
import PdfModel.Lemmas.Xref

/-!
  Totality of the cross-reference table reader and of the dispatcher `read_xref_and_trailer_at`
  (`Model/XrefTable`) on arbitrary buffers: `Ok` or `Err`, the cursor inside the buffer, every loop within
  `buf.size + 1` rounds whatever entry count the file claims, and only `Free` / `Raw` entries come out (which is
  what `Props/C02.merge_total` asks of a section).
-/

namespace PdfLex

variable {R : Type}

/-- every entry is one a section reader can produce (`Free`, `Raw`, `Stream`) -/
def SubsOk (secs : List Xref.Sub) : Prop := ∀ s ∈ secs, ∀ e ∈ s.entries, Xref.isEntry e = true

theorem nextU32_good (buf : Buf) (pos : Nat) (h : pos ≤ buf.size) : Good buf pos (nextU32 buf pos) := by
  unfold nextU32
  rcases next_spec buf pos h with he | ⟨w, hw, a1, a2, a3⟩
  · left; simp [he]
  · rw [hw]; simp only [Out.bind_ok]
    split
    · exact good_ok _ (by omega) a3
    · exact good_err _ _

/-- the entry loop: every round consumes three lexemes, so `buf.size - pos + 1` units of fuel are never used up,
    however many entries the subsection header claims -/
theorem xrefEntryLoop_spec (buf : Buf) (fuel left pos : Nat) (acc : List Xref.XRef) (h : pos ≤ buf.size)
    (hf : buf.size - pos < fuel) (hacc : ∀ e ∈ acc, Xref.isEntry e = true) :
    xrefEntryLoop buf fuel left pos acc = .err ∨
    ∃ es p, xrefEntryLoop buf fuel left pos acc = .ok (es, p) ∧ pos ≤ p ∧ p ≤ buf.size ∧
      (∀ e ∈ es, Xref.isEntry e = true) := by
  induction fuel generalizing left pos acc with
  | zero => omega
  | succ fuel ih =>
    cases left with
    | zero =>
      right; unfold xrefEntryLoop
      exact ⟨_, _, rfl, Nat.le_refl _, h, fun e he => hacc e (by simpa using he)⟩
    | succ left =>
      unfold xrefEntryLoop
      rcases next_spec buf pos h with he | ⟨w1, hw1, a1, a2, a3⟩
      · left; simp [he]
      · rw [hw1]; simp only [Out.bind_ok]
        split
        · left; rfl
        · rcases next_spec buf w1.2 a3 with he | ⟨w2, hw2, b1, b2, b3⟩
          · left; simp [he]
          · rw [hw2]; simp only [Out.bind_ok]
            rcases next_spec buf w2.2 b3 with he | ⟨w3, hw3, c1, c2, c3⟩
            · left; simp [he]
            · rw [hw3]; simp only [Out.bind_ok]
              split
              · split
                · rename_i a g _ _
                  rcases ih left w3.2 (.free a g :: acc) c3 (by omega)
                    (fun e he => by
                      rcases List.mem_cons.1 he with rfl | he
                      · rfl
                      · exact hacc e he) with he | ⟨es, p, hp, p1, p2, p3⟩
                  · left; exact he
                  · right; exact ⟨es, p, hp, by omega, p2, p3⟩
                · left; rfl
              · split
                · split
                  · rename_i a g _ _
                    rcases ih left w3.2 (.raw a g :: acc) c3 (by omega)
                      (fun e he => by
                        rcases List.mem_cons.1 he with rfl | he
                        · rfl
                        · exact hacc e he) with he | ⟨es, p, hp, p1, p2, p3⟩
                    · left; exact he
                    · right; exact ⟨es, p, hp, by omega, p2, p3⟩
                  · left; rfl
                · left; rfl

/-- the subsection loop: every round consumes the two numbers of the subsection header -/
theorem xrefSectionLoop_spec (buf : Buf) (fuel pos : Nat) (acc : List Xref.Sub) (h : pos ≤ buf.size)
    (hf : buf.size - pos < fuel) (hacc : SubsOk acc) :
    xrefSectionLoop buf fuel pos acc = .err ∨
    ∃ secs p, xrefSectionLoop buf fuel pos acc = .ok (secs, p) ∧ pos ≤ p ∧ p ≤ buf.size ∧ SubsOk secs := by
  induction fuel generalizing pos acc with
  | zero => omega
  | succ fuel ih =>
    unfold xrefSectionLoop
    obtain ⟨pk, hpk, _, _, _⟩ := peek_spec buf pos h
    rw [hpk]; simp only [Out.bind_ok]
    split
    · right
      refine ⟨_, _, rfl, Nat.le_refl _, h, fun s hs => hacc s (by simpa using hs)⟩
    · rcases nextU32_good buf pos h with he | ⟨startId, p1, hp1, a1, a2⟩
      · left; simp [he]
      · rw [hp1]; simp only [Out.bind_ok]
        rcases nextU32_good buf p1 a2 with he | ⟨numIds, p2, hp2, b1, b2⟩
        · left; simp [he]
        · rw [hp2]; simp only [Out.bind_ok]
          rcases xrefEntryLoop_spec buf (buf.size + 1) numIds p2 [] b2 (by omega) (fun e he => by cases he)
            with he | ⟨es, p3, hp3, c1, c2, c3⟩
          · left; simp [he]
          · rw [hp3]; simp only [Out.bind_ok]
            rcases ih p3 (⟨startId, es⟩ :: acc) c2 (by omega)
              (fun s hs => by
                rcases List.mem_cons.1 hs with rfl | hs
                · exact c3
                · exact hacc s hs) with he | ⟨secs, p, hp, q1, q2, q3⟩
            · left; exact he
            · right; exact ⟨secs, p, hp, by omega, q2, q3⟩

/-- `parse_xref_table_and_trailer` -/
theorem parseXrefTable_spec (env : Env R) (henv : EnvOk env) (buf : Buf) (hs : RealSize buf) (pos : Nat)
    (h : pos ≤ buf.size) :
    parseXrefTable env buf pos = .err ∨
    ∃ secs d p, parseXrefTable env buf pos = .ok ((secs, d), p) ∧ pos < p ∧ p ≤ buf.size ∧ SubsOk secs := by
  unfold parseXrefTable
  rcases xrefSectionLoop_spec buf (buf.size + 1) pos [] h (by omega) (fun s hs => by cases hs)
    with he | ⟨secs, p, hp, a1, a2, a3⟩
  · left; simp [he]
  · rw [hp]; simp only [Out.bind_ok]
    rcases nextExpect_spec buf p kwTrailer a2 with he | ⟨p1, hp1, b1, b2⟩
    · left; simp [he]
    · rw [hp1]; simp only [Out.bind_ok]
      rcases parseWithLexer_good env henv buf hs (defaultFuel buf) p1 Flags.dict b2
        (by have := defaultFuel_enough buf p1; omega) with he | ⟨v, p2, hp2, c1, c2⟩
      · left; simp [he]
      · rw [hp2]; simp only [Out.bind_ok]
        split
        · right; exact ⟨_, _, _, rfl, by omega, c2, a3⟩
        · left; rfl

/-- `parse_xref_stream_and_trailer` up to the typed conversion -/
theorem xrefStreamHead_good (env : Env R) (henv : EnvOk env) (buf : Buf) (hs : RealSize buf) (pos : Nat)
    (h : pos ≤ buf.size) : Good buf pos (xrefStreamHead env buf pos) := by
  unfold xrefStreamHead
  rcases parseIndirectStream_good env henv buf hs (defaultFuel buf) pos h (by unfold defaultFuel; omega)
    with he | ⟨v, p, hp, a1, a2⟩
  · left; simp [he]
  · rw [hp]; simp only [Out.bind_ok]
    rcases next_spec buf p a2 with he | ⟨w, hw, b1, b2, b3⟩
    · left; simp [he]
    · rw [hw]; simp only [Out.bind_ok]
      split
      · rcases parseWithLexer_good env henv buf hs (defaultFuel buf) w.2 Flags.dict b3
          (by have := defaultFuel_enough buf w.2; omega) with he | ⟨v2, p2, hp2, c1, c2⟩
        · left; simp [he]
        · rw [hp2]; simp only [Out.bind_ok]
          split
          · exact good_ok _ (by omega) c2
          · exact good_err _ _
      · split
        · exact good_ok _ (by omega) b3
        · exact good_err _ _

/-- `read_xref_and_trailer_at`: `Ok` or `Err`; a table's sections hold `Free` / `Raw` entries only -/
theorem readXrefAt_spec (env : Env R) (henv : EnvOk env) (buf : Buf) (hs : RealSize buf) (pos : Nat)
    (h : pos ≤ buf.size) :
    readXrefAt env buf pos = .err ∨
    ∃ r p, readXrefAt env buf pos = .ok (r, p) ∧ p ≤ buf.size ∧
      (∀ secs d, r = .table secs d → SubsOk secs) := by
  unfold readXrefAt
  rcases next_spec buf pos h with he | ⟨w, hw, a1, a2, a3⟩
  · left; simp [he]
  · rw [hw]; simp only [Out.bind_ok]
    split
    · rcases parseXrefTable_spec env henv buf hs w.2 a3 with he | ⟨secs, d, p, hp, b1, b2, b3⟩
      · left; simp [he]
      · rw [hp]; simp only [Out.bind_ok]
        right; refine ⟨_, _, rfl, b2, fun s' d' hh => ?_⟩
        cases hh; exact b3
    · obtain ⟨b, hb, c1, c2⟩ := back_spec buf w.2 a3
      rw [hb]; simp only [Out.bind_ok]
      rcases xrefStreamHead_good env henv buf hs b.1 (by omega) with he | ⟨v, p, hp, d1, d2⟩
      · left; simp [he]
      · rw [hp]; simp only [Out.bind_ok]
        right; refine ⟨_, _, rfl, d2, fun s' d' hh => ?_⟩
        cases hh

end PdfLex
