import PdfModel.Lemmas.Lexer
import PdfModel.Model.Parser

/-! Names: the text of a name (`NameBody`) is made of regular characters and `#xx` decoding yields the
    bytes it denotes. -/

namespace PdfLex
open PdfSyntax (NameBody hexVal)

theorem hexVal_nibble : ∀ c v : UInt8, hexVal c = some v → decodeNibble c = some v ∧ v < 16 ∧ isRegular c = true := by
  intro c
  revert c
  decide +kernel

theorem nibble_combine : ∀ a b : Fin 16, (UInt8.ofNat b.val) ||| ((UInt8.ofNat a.val) <<< 4) = (UInt8.ofNat a.val) * 16 + (UInt8.ofNat b.val) := by
  decide

theorem nibble_combine' (a b : UInt8) (ha : a < 16) (hb : b < 16) : b ||| (a <<< 4) = a * 16 + b := by
  have := nibble_combine ⟨a.toNat, UInt8.lt_iff_toNat_lt.mp ha⟩ ⟨b.toNat, UInt8.lt_iff_toNat_lt.mp hb⟩
  simpa using this

theorem unescapeName_raw (b : UInt8) (t : List UInt8) (h : b ≠ 35) :
    unescapeName (b :: t) = (unescapeName t).bind fun r => .ok (b :: r) := by
  have hb : (b == 35) = false := by simp [h]
  cases t with
  | nil => simp [unescapeName, hb]
  | cons c t' =>
    cases t' with
    | nil => simp [unescapeName, hb]
    | cons d t'' => simp [unescapeName, hb]

theorem unescapeName_esc (hi lo : UInt8) (t : List UInt8) :
    unescapeName (35 :: hi :: lo :: t) =
      match decodeNibble lo, decodeNibble hi with
      | some l, some h => (unescapeName t).bind fun r => .ok ((l ||| (h <<< 4)) :: r)
      | _, _ => .err := by
  simp only [unescapeName, beq_self_eq_true, if_true]
  cases decodeNibble lo <;> cases decodeNibble hi <;> rfl

theorem nameBody_spec (t s : List UInt8) (h : NameBody t s) :
    unescapeName t = .ok s ∧ (∀ b ∈ t, isRegular b = true) := by
  induction h with
  | nil => simp [unescapeName]
  | raw b t s hreg h35 _ ih =>
    refine ⟨?_, ?_⟩
    · rw [unescapeName_raw b t h35]; simp [ih.1]
    · intro x hx; simp at hx; rcases hx with rfl | hx
      · rw [isRegular_eq]; exact hreg
      · exact ih.2 x hx
  | esc h1 h2 v1 v2 t s hv1 hv2 _ ih =>
    obtain ⟨n1, l1, r1⟩ := hexVal_nibble h1 v1 hv1
    obtain ⟨n2, l2, r2⟩ := hexVal_nibble h2 v2 hv2
    refine ⟨?_, ?_⟩
    · rw [unescapeName_esc]; simp [n1, n2, ih.1, nibble_combine' v1 v2 l1 l2]
    · intro x hx; simp at hx; rcases hx with rfl | rfl | rfl | hx
      · decide
      · exact r1
      · exact r2
      · exact ih.2 x hx

end PdfLex
