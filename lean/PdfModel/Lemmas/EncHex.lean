import PdfModel.Lemmas.EncBasic

set_option linter.unusedSimpArgs false

/-! ASCIIHex: per-byte facts (checked by kernel evaluation over all 256 bytes) and the digit loop. -/

namespace Enc
open Codecs

theorem hexWs_eq_isWs : hexWs = isWs := rfl
theorem ws85_eq_isWs : ws85 = isWs := rfl

theorem nibble_digit_lo : ∀ n : UInt8, n < 10 → decodeNibble (48 + n) = some n := by decide +kernel
theorem nibble_digit_lower : ∀ n : UInt8, 10 ≤ n → n < 16 → decodeNibble (87 + n) = some n := by decide +kernel
theorem nibble_digit_upper : ∀ n : UInt8, 10 ≤ n → n < 16 → decodeNibble (55 + n) = some n := by decide +kernel

theorem decodeNibble_of_isHexDigit {c n : UInt8} (h : IsHexDigit c n) : decodeNibble c = some n := by
  rcases h with ⟨h1, rfl⟩ | ⟨h1, h2, rfl | rfl⟩
  · exact nibble_digit_lo n h1
  · exact nibble_digit_lower n h1 h2
  · exact nibble_digit_upper n h1 h2

theorem byte_join : ∀ b : UInt8, ((b >>> 4) <<< 4 ||| (b &&& 15)) = b := by decide +kernel
theorem hi_lt : ∀ b : UInt8, b >>> 4 < 16 := by decide +kernel
theorem lo_lt : ∀ b : UInt8, b &&& 15 < 16 := by decide +kernel
theorem nibble_zero : decodeNibble 48 = some 0 := by decide

/-- hexadecimal digits are neither white-space nor the EOD marker -/
theorem digit_clean_lo : ∀ n : UInt8, n < 10 → isWs (48 + n) = false ∧ (48 + n != 62) = true := by decide +kernel
theorem digit_clean_lower : ∀ n : UInt8, 10 ≤ n → n < 16 → isWs (87 + n) = false ∧ (87 + n != 62) = true := by decide +kernel
theorem digit_clean_upper : ∀ n : UInt8, 10 ≤ n → n < 16 → isWs (55 + n) = false ∧ (55 + n != 62) = true := by decide +kernel

theorem isHexDigit_clean {c n : UInt8} (h : IsHexDigit c n) : isWs c = false ∧ (c != 62) = true := by
  rcases h with ⟨h1, rfl⟩ | ⟨h1, h2, rfl | rfl⟩
  · exact digit_clean_lo n h1
  · exact digit_clean_lower n h1 h2
  · exact digit_clean_upper n h1 h2

theorem ws_not_gt : ∀ c : UInt8, isWs c = true → (c != 62) = true := by decide +kernel

theorem hexPair_of_digits {h l b : UInt8} (hh : IsHexDigit h (b >>> 4)) (hl : IsHexDigit l (b &&& 15)) :
    hexPair h l = .ok b := by
  simp [hexPair, decodeNibble_of_isHexDigit hh, decodeNibble_of_isHexDigit hl, byte_join]

theorem hexBody_clean {bs body : Bytes} (h : HexBody bs body) :
    ∀ c ∈ body, isWs c = false ∧ (c != 62) = true := by
  induction h with
  | nil => intro c hc; simp at hc
  | byte hh hl _ ih =>
    intro c hc
    simp only [List.mem_cons] at hc
    rcases hc with rfl | rfl | hc
    · exact isHexDigit_clean hh
    · exact isHexDigit_clean hl
    · exact ih c hc
  | oddLast hh _ =>
    intro c hc
    simp only [List.mem_cons, List.not_mem_nil, or_false] at hc
    subst hc
    exact isHexDigit_clean hh

theorem decodeHexDigits_of_body {bs body : Bytes} (h : HexBody bs body) : decodeHexDigits body = .ok bs := by
  induction h with
  | nil => rfl
  | byte hh hl _ ih =>
    simp [decodeHexDigits, hexPair_of_digits hh hl, ih]
  | @oddLast b h hh hz =>
    have h0 : IsHexDigit 48 (b &&& 15) := by
      left; rw [hz]; decide
    simp [decodeHexDigits, hexPair_of_digits hh h0]

end Enc
