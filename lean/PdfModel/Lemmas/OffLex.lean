import PdfModel.Model.OffLex

/-! Sanity lemmas on the lexer fragment: no panics, the fuel of the comment loop is never exhausted. -/

namespace OffLex

theorem length_dropWhile_le' (p : UInt8 → Bool) (l : Bytes) : (l.dropWhile p).length ≤ l.length := by
  induction l with
  | nil => simp
  | cons a l ih => simp only [List.dropWhile]; split <;> simp <;> omega

theorem afterNl_length_le (tl : Bytes) : (afterNl tl).length ≤ tl.length := by
  unfold afterNl
  have := length_dropWhile_le' (fun b => b != 10 && b != 13) tl
  split
  · omega
  · rename_i h; rw [h] at this; simp at this; omega

theorem skipCommentsF_returns : ∀ (fuel : Nat) (r : Bytes), r.length ≤ fuel →
    skipCommentsF fuel r ≠ .oof ∧ skipCommentsF fuel r ≠ .panic := by
  intro fuel
  induction fuel with
  | zero =>
    intro r h
    have : r = [] := by cases r <;> simp_all
    subst this; simp [skipCommentsF]
  | succ fuel ih =>
    intro r h
    cases r with
    | nil => simp [skipCommentsF]
    | cons b tl =>
      simp only [skipCommentsF]
      split
      · split
        · simp
        · rename_i c r' heq
          apply ih
          have h1 := length_dropWhile_le' isWs (afterNl tl)
          have h2 := afterNl_length_le tl
          rw [heq] at h1
          simp at h h1 ⊢
          omega
      · simp

theorem skipComments_returns (r : Bytes) : skipComments r ≠ .oof ∧ skipComments r ≠ .panic :=
  skipCommentsF_returns r.length r (Nat.le_refl _)

theorem skipWs_returns (r : Bytes) : skipWs r ≠ .oof ∧ skipWs r ≠ .panic := by
  unfold skipWs; split <;> simp

theorem nextWord_returns (r : Bytes) : nextWord r ≠ .oof ∧ nextWord r ≠ .panic := by
  unfold nextWord
  cases r with
  | nil => simp
  | cons a r =>
    simp only
    have h1 := skipWs_returns (a :: r)
    cases hs : skipWs (a :: r) with
    | ok r1 =>
      simp only
      have h2 := skipComments_returns r1
      cases hc : skipComments r1 with
      | ok r2 =>
        cases r2 with
        | nil => simp
        | cons b tl =>
          simp only
          split
          · split
            · simp
            · split
              · split <;> simp
              · simp
          · simp
      | err => simp
      | panic => simp [hc] at h2
      | oof => simp [hc] at h2
    | err => simp
    | panic => simp [hs] at h1
    | oof => simp [hs] at h1

theorem parseUsize_returns (w : Bytes) : parseUsize w ≠ .oof ∧ parseUsize w ≠ .panic := by
  unfold parseUsize
  simp only
  split
  · simp
  · split
    · split <;> simp
    · simp

end OffLex
