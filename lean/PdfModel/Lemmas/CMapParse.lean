import PdfModel.Lemmas.CMapLex

/-! The CMap reader on a conformant program: arrays, ranges, the three loops. -/

namespace CMap

theorem lex_unicode (pre : Bytes) (s : List Nat) (hs : s.all isScalar = true) (Y : Bytes) :
    ∃ d Z, pre ++ (writeUnicode s ++ Y) = pre ++ 60 :: d :: Z ∧ (d == 60) = false ∧
      hexStr none [] (d :: Z) = some (strBytes s, Y) := by
  have hb := unitBytes_lt _ (utf16Encode_lt s hs)
  obtain ⟨d, Z, e, hd⟩ := hexOf_head_ne_60 (unitBytes (utf16Encode s)) hb Y
  refine ⟨d, Z, ?_, hd, ?_⟩
  · rw [writeUnicode_eq s hs, e]
  · rw [← e]
    simpa [strBytes] using hexStr_hexOf _ hb [] Y

theorem writeUnicode_length_pos (s : List Nat) : 0 < (writeUnicode s).length := by
  simp [writeUnicode]

theorem joinSp_length : ∀ (ss : List (List Nat)), ss.length ≤ (joinSp (ss.map writeUnicode)).length
  | [] => by simp [joinSp]
  | [s] => by
    have := writeUnicode_length_pos s
    simp only [List.map_cons, List.map_nil, joinSp, List.length_cons, List.length_nil]
    omega
  | s :: t :: r => by
    have ih := joinSp_length (t :: r)
    simp only [List.map_cons, joinSp, List.length_append, List.length_cons] at ih ⊢
    omega

theorem parseArr_spec : ∀ (ss : List (List Nat)), (∀ s ∈ ss, s.all isScalar = true) →
    ∀ (fuel : Nat) (pre : Bytes) (acc : List Bytes) (X : Bytes), pre.all isWs = true → ss.length < fuel →
    parseArr fuel (pre ++ (joinSp (ss.map writeUnicode) ++ 93 :: X)) acc = .ok (acc.reverse ++ ss.map strBytes, X)
  | [], _, fuel, pre, acc, X, hpre, hf => by
    cases fuel with
    | zero => omega
    | succ f => simp [joinSp, parseArr, nextWord_rbracket pre hpre X]
  | [s], hs, fuel, pre, acc, X, hpre, hf => by
    cases fuel with
    | zero => omega
    | succ f =>
      have h1 := hs s (List.mem_cons_self ..)
      obtain ⟨d, Z, e, hd, hx⟩ := lex_unicode pre s h1 (93 :: X)
      have ih := parseArr_spec [] (by simp) f [] (strBytes s :: acc) X (by simp) (by simp at hf; omega)
      simp only [List.map_nil, joinSp, List.nil_append] at ih
      simp only [List.map_cons, List.map_nil, joinSp]
      rw [e]
      simp only [parseArr, nextWord_lt pre hpre d hd Z, hx]
      have n1 : ([60] : Bytes) ≠ [93] := by decide
      simp [n1, ih]
  | s :: t :: r, hs, fuel, pre, acc, X, hpre, hf => by
    cases fuel with
    | zero => omega
    | succ f =>
      have h1 := hs s (List.mem_cons_self ..)
      have e0 : joinSp ((s :: t :: r).map writeUnicode) ++ 93 :: X
          = writeUnicode s ++ ([32] ++ (joinSp ((t :: r).map writeUnicode) ++ 93 :: X)) := by
        simp [joinSp]
      obtain ⟨d, Z, e, hd, hx⟩ := lex_unicode pre s h1 ([32] ++ (joinSp ((t :: r).map writeUnicode) ++ 93 :: X))
      have ih := parseArr_spec (t :: r) (fun x hx => hs x (List.mem_cons_of_mem _ hx)) f [32] (strBytes s :: acc) X
        (by decide) (by simp at hf ⊢; omega)
      rw [e0, e]
      simp only [parseArr, nextWord_lt pre hpre d hd Z, hx]
      have n1 : ([60] : Bytes) ≠ [93] := by decide
      simp only [n1, if_false, if_true, ih]
      simp

theorem parseStrOrArr_arr (pre : Bytes) (hpre : pre.all isWs = true) (ss : List (List Nat))
    (hs : ∀ s ∈ ss, s.all isScalar = true) (X : Bytes) :
    parseStrOrArr (pre ++ 91 :: (joinSp (ss.map writeUnicode) ++ 93 :: X)) = .ok (.arr (ss.map strBytes), X) := by
  have hl := joinSp_length ss
  have := parseArr_spec ss hs ((joinSp (ss.map writeUnicode) ++ 93 :: X).length + 1) [] [] X (by simp)
    (by simp only [List.length_append, List.length_cons]; omega)
  simp only [List.nil_append, List.reverse_nil] at this
  have n1 : ([91] : Bytes) ≠ [60] := by decide
  have n2 : ([91] : Bytes) ≠ [40] := by decide
  simp only [parseStrOrArr, nextWord_lbracket pre hpre, n1, n2, if_false, if_true, this]

theorem insertDecoded_strBytes (m : Map) (cid : Nat) (s : List Nat) (hs : s.all isScalar = true) :
    insertDecoded m cid (strBytes s) = (cid, s) :: m := by
  simp [insertDecoded, decodeStr_strBytes s hs, Map.insert]

theorem rangeArr_spec : ∀ (ss : List (List Nat)), (∀ s ∈ ss, s.all isScalar = true) →
    ∀ (n lo : Nat) (m : Map), ss.length ≤ n → rangeArr n lo (ss.map strBytes) m = (enumFrom lo ss).reverse ++ m
  | [], _, n, lo, m, _ => by cases n <;> simp [rangeArr, enumFrom]
  | s :: r, hs, n, lo, m, hn => by
    cases n with
    | zero => simp at hn
    | succ k =>
      have ih := rangeArr_spec r (fun x hx => hs x (List.mem_cons_of_mem _ hx)) k (lo + 1) ((lo, s) :: m)
        (by simp at hn; omega)
      simp [rangeArr, insertDecoded_strBytes m lo s (hs s (List.mem_cons_self ..)), ih, enumFrom]

theorem u8_succ_facts : ∀ n : Fin 256, n.val < 255 →
    (UInt8.ofNat n.val < 255) = true ∧ UInt8.ofNat n.val + 1 = UInt8.ofNat (n.val + 1) := by decide +kernel

theorem incLast_succUnits : ∀ (us us' : List Nat), (∀ u ∈ us, u < 65536) → succUnits us = some us' →
    incLast ((unitBytes us).map UInt8.ofNat) = some ((unitBytes us').map UInt8.ofNat)
  | [], _, _, h => by simp [succUnits] at h
  | [u], us', hu, h => by
    have hlt := hu u (List.mem_cons_self ..)
    simp only [succUnits] at h
    split at h
    · rename_i hlow
      cases h
      obtain ⟨f1, f2⟩ := u8_succ_facts ⟨u % 256, by omega⟩ hlow
      simp only at f1 f2
      have e1 : (u + 1) / 256 = u / 256 := by omega
      have e2 : (u + 1) % 256 = u % 256 + 1 := by omega
      have f1' : UInt8.ofNat (u % 256) < 255 := by simpa using f1
      show incLast [UInt8.ofNat (u / 256), UInt8.ofNat (u % 256)] = some [UInt8.ofNat ((u + 1) / 256), UInt8.ofNat ((u + 1) % 256)]
      rw [e1, e2, ← f2]
      show (incLast [UInt8.ofNat (u % 256)]).map (UInt8.ofNat (u / 256) :: ·) = _
      rw [incLast, if_pos f1']
      rfl
    · cases h
  | u :: v :: r, us', hu, h => by
    simp only [succUnits] at h
    cases hr : succUnits (v :: r) with
    | none => rw [hr] at h; cases h
    | some w =>
      rw [hr] at h
      cases h
      have ih := incLast_succUnits (v :: r) w (fun x hx => hu x (List.mem_cons_of_mem _ hx)) hr
      have step : ∀ (a b : UInt8) (c : Bytes), incLast (a :: b :: c) = (incLast (b :: c)).map (a :: ·) := fun _ _ _ => rfl
      simp only [unitBytes, List.map_cons] at ih ⊢
      rw [step, step, ih]
      rfl

theorem rangeStr_spec : ∀ (s : List Nat) (r : List (List Nat)), (∀ x ∈ s :: r, x.all isScalar = true) →
    chainOk (s :: r) = true → ∀ (lo : Nat) (m : Map),
    rangeStr (r.length + 1) lo (strBytes s) m = (enumFrom lo (s :: r)).reverse ++ m
  | s, [], hs, _, lo, m => by
    have h1 := hs s (List.mem_cons_self ..)
    simp only [List.length_nil, rangeStr, insertDecoded_strBytes m lo s h1, enumFrom]
    cases incLast (strBytes s) <;> simp
  | s, t :: r, hs, hc, lo, m => by
    have h1 := hs s (List.mem_cons_self ..)
    simp only [chainOk, Bool.and_eq_true, beq_iff_eq] at hc
    have hinc : incLast (strBytes s) = some (strBytes t) :=
      incLast_succUnits _ _ (utf16Encode_lt s h1) hc.1
    have ih := rangeStr_spec t r (fun x hx => hs x (List.mem_cons_of_mem _ hx)) hc.2 (lo + 1) ((lo, s) :: m)
    simp only [List.length_cons] at ih ⊢
    rw [show rangeStr (r.length + 1 + 1) lo (strBytes s) m =
          (match incLast (strBytes s) with
           | some s' => rangeStr (r.length + 1) (lo + 1) s' (insertDecoded m lo (strBytes s))
           | none => insertDecoded m lo (strBytes s)) from rfl]
    simp only [insertDecoded_strBytes m lo s h1, hinc, ih]
    simp [enumFrom]


/-! ### keywords -/

def wEndbfchar : Bytes := [101, 110, 100, 98, 102, 99, 104, 97, 114]
def wEndbfrange : Bytes := [101, 110, 100, 98, 102, 114, 97, 110, 103, 101]

theorem header_true : header true = kwBfchar ++ [10] := rfl
theorem header_false : header false = kwBfrange ++ [10] := rfl
theorem footer_true : footer true = wEndbfchar ++ [10] := rfl
theorem footer_false : footer false = wEndbfrange ++ [10] := rfl

theorem nextWord_kw (pre : Bytes) (hpre : pre.all isWs = true) (kw : Bytes) (a : UInt8) (w : Bytes) (e : kw = a :: w)
    (hw : kw.all isRegular = true) (X : Bytes) : nextWord (pre ++ (kw ++ 10 :: X)) = some (kw, 10 :: X) := by
  subst e
  exact nextWord_word pre hpre a w hw 10 (by decide) X

theorem parseStr_kw (pre : Bytes) (hpre : pre.all isWs = true) (kw : Bytes) (a : UInt8) (w : Bytes) (e : kw = a :: w)
    (hw : kw.all isRegular = true) (X : Bytes) : parseStr (pre ++ (kw ++ 10 :: X)) = .err := by
  subst e
  exact parseStr_word pre hpre a w hw 10 (by decide) X

/-! ### the loops -/

def contChar (f g : Nat) (bs : Bytes) (m : Map) : R Map :=
  match bfchar f bs m with
  | .ok (r, m') => outer g r m'
  | .err => .err
  | .unmodelled => .unmodelled
  | .oof => .oof

def contRange (f g : Nat) (bs : Bytes) (m : Map) : R Map :=
  match bfrange f bs m with
  | .ok (r, m') => outer g r m'
  | .err => .err
  | .unmodelled => .unmodelled
  | .oof => .oof

def GoodChar (ents : List Ent) : Prop :=
  ∀ f g m, (render (some true) ents).length + 1 < f → (render (some true) ents).length + 1 < g →
    contChar f g (10 :: render (some true) ents) m = .ok ((pairs ents).reverse ++ m)

def GoodRange (ents : List Ent) : Prop :=
  ∀ f g m, (render (some false) ents).length + 1 < f → (render (some false) ents).length + 1 < g →
    contRange f g (10 :: render (some false) ents) m = .ok ((pairs ents).reverse ++ m)

def GoodNone (ents : List Ent) : Prop :=
  ∀ pre, pre.all isWs = true → ∀ fuel m, (pre ++ render none ents).length < fuel →
    outer fuel (pre ++ render none ents) m = .ok ((pairs ents).reverse ++ m)

theorem outer_ws (pre : Bytes) (hpre : pre.all isWs = true) (fuel : Nat) (hf : 0 < fuel) (m : Map) :
    outer fuel pre m = .ok m := by
  cases fuel with
  | zero => omega
  | succ f => simp [outer, nextWord_ws_end pre hpre]

theorem goodNone_nil : GoodNone [] := by
  intro pre hpre fuel m hf
  simp only [render, List.append_nil, pairs, List.flatMap_nil, List.reverse_nil, List.nil_append]
  exact outer_ws pre hpre fuel (by omega) m

/-- after a section's last entry: the end keyword stops the inner loop, the outer loop skips it -/
theorem outer_endword (w : Bytes) (a : UInt8) (t : Bytes) (e : w = a :: t) (hw : w.all isRegular = true)
    (n1 : w ≠ kwBfchar) (n2 : w ≠ kwBfrange) (n3 : w ≠ kwEndcmap) (X : Bytes) (g : Nat) (m : Map) :
    outer (g + 1) (10 :: (w ++ 10 :: X)) m = outer g (10 :: X) m := by
  have := nextWord_kw [10] (by decide) w a t e hw X
  simp only [List.singleton_append] at this
  simp [outer, this, n1, n2, n3]

theorem goodChar_nil : GoodChar [] := by
  intro f g m hf hg
  simp only [render, footer_true, List.length_append, List.length_cons, List.length_nil] at hf hg
  have hl : wEndbfchar.length = 9 := rfl
  have hp : parseStr ([10] ++ (wEndbfchar ++ 10 :: [])) = .err :=
    parseStr_kw [10] (by decide) wEndbfchar 101 _ rfl (by decide) []
  simp only [List.singleton_append] at hp
  obtain ⟨f', rfl⟩ : ∃ f', f = f' + 1 := ⟨f - 1, by omega⟩
  obtain ⟨g', rfl⟩ : ∃ g', g = g' + 1 := ⟨g - 1, by omega⟩
  have e : (10 : UInt8) :: render (some true) [] = 10 :: (wEndbfchar ++ 10 :: []) := by simp [render, footer_true]
  rw [e]
  simp only [contChar, bfchar, hp]
  rw [outer_endword wEndbfchar 101 _ rfl (by decide) (by decide) (by decide) (by decide) [] g' m]
  simp only [pairs, List.flatMap_nil, List.reverse_nil, List.nil_append]
  exact outer_ws [10] (by decide) g' (by omega) m

theorem goodRange_nil : GoodRange [] := by
  intro f g m hf hg
  simp only [render, footer_false, List.length_append, List.length_cons, List.length_nil] at hf hg
  have hl : wEndbfrange.length = 10 := rfl
  have hp : parseStr ([10] ++ (wEndbfrange ++ 10 :: [])) = .err :=
    parseStr_kw [10] (by decide) wEndbfrange 101 _ rfl (by decide) []
  simp only [List.singleton_append] at hp
  obtain ⟨f', rfl⟩ : ∃ f', f = f' + 1 := ⟨f - 1, by omega⟩
  obtain ⟨g', rfl⟩ : ∃ g', g = g' + 1 := ⟨g - 1, by omega⟩
  have e : (10 : UInt8) :: render (some false) [] = 10 :: (wEndbfrange ++ 10 :: []) := by simp [render, footer_false]
  rw [e]
  simp only [contRange, bfrange, hp]
  rw [outer_endword wEndbfrange 101 _ rfl (by decide) (by decide) (by decide) (by decide) [] g' m]
  simp only [pairs, List.flatMap_nil, List.reverse_nil, List.nil_append]
  exact outer_ws [10] (by decide) g' (by omega) m


theorem goodChar_char (c : Nat) (s : List Nat) (hc : c < 65536) (hs : s.all isScalar = true) (es : List Ent)
    (ih : GoodChar es) : GoodChar (.char c s :: es) := by
  intro f g m hf hg
  have er : render (some true) (.char c s :: es)
      = writeCid c ++ ([32] ++ (writeUnicode s ++ 10 :: render (some true) es)) := by
    simp [render, Ent.isChar, Ent.line]
  rw [er] at hf hg ⊢
  simp only [List.length_append, List.length_cons, List.length_nil] at hf hg
  obtain ⟨f', rfl⟩ : ∃ f', f = f' + 1 := ⟨f - 1, by omega⟩
  have p1 := parseStr_cid [10] (by decide) c hc ([32] ++ (writeUnicode s ++ 10 :: render (some true) es))
  have p2 := parseStr_unicode [32] (by decide) s hs (10 :: render (some true) es)
  have := ih f' g ((c, s) :: m) (by omega) (by omega)
  simp only [contChar] at this
  rw [contChar, bfchar]
  rw [show (10 : UInt8) :: (writeCid c ++ ([32] ++ (writeUnicode s ++ 10 :: render (some true) es)))
        = [10] ++ (writeCid c ++ ([32] ++ (writeUnicode s ++ 10 :: render (some true) es))) from rfl, p1]
  simp only [p2, parseCid_cidBytes c hc, insertDecoded_strBytes m c s hs, this]
  simp [pairs, Ent.pairs]

theorem strBytes_length_pos (s : List Nat) (h : s ≠ []) : (strBytes s).length > 0 := by
  cases s with
  | nil => exact absurd rfl h
  | cons c r =>
    simp only [strBytes, utf16Encode]
    split <;> simp [unitBytes]

theorem goodRange_rstr (lo : Nat) (ss : List (List Nat)) (hwf : (Ent.rstr lo ss).wf = true) (es : List Ent)
    (ih : GoodRange es) : GoodRange (.rstr lo ss :: es) := by
  intro f g m hf hg
  simp only [Ent.wf, Bool.and_eq_true, Bool.not_eq_true', decide_eq_true_eq] at hwf
  obtain ⟨⟨⟨⟨hne, hhi⟩, hsc0⟩, hhd⟩, hch⟩ := hwf
  have hsc : ∀ x ∈ ss, x.all isScalar = true := fun x hx => (List.all_eq_true.mp hsc0) x hx
  cases ss with
  | nil => simp at hne
  | cons s0 r =>
    simp only [List.headD_cons, List.length_cons] at hhd hhi
    have hs0 : s0.all isScalar = true := hsc s0 (List.mem_cons_self ..)
    have hs0ne : s0 ≠ [] := by
      intro h
      simp [h] at hhd
    have er : render (some false) (.rstr lo (s0 :: r) :: es)
        = writeCid lo ++ ([32] ++ (writeCid (lo + (r.length + 1) - 1) ++ ([32] ++ (writeUnicode s0 ++ 10 :: render (some false) es)))) := by
      simp [render, Ent.isChar, Ent.line]
    rw [er] at hf hg ⊢
    simp only [List.length_append, List.length_cons, List.length_nil] at hf hg
    obtain ⟨f', rfl⟩ : ∃ f', f = f' + 1 := ⟨f - 1, by omega⟩
    have hlo : lo < 65536 := by omega
    have hhi' : lo + (r.length + 1) - 1 < 65536 := by omega
    have p1 := parseStr_cid [10] (by decide) lo hlo ([32] ++ (writeCid (lo + (r.length + 1) - 1) ++ ([32] ++ (writeUnicode s0 ++ 10 :: render (some false) es))))
    have p2 := parseStr_cid [32] (by decide) (lo + (r.length + 1) - 1) hhi' ([32] ++ (writeUnicode s0 ++ 10 :: render (some false) es))
    have p3 := parseStrOrArr_unicode [32] (by decide) s0 hs0 (10 :: render (some false) es)
    have hpos := strBytes_length_pos s0 hs0ne
    have hn : lo + (r.length + 1) - 1 + 1 - lo = r.length + 1 := by omega
    have hr := rangeStr_spec s0 r hsc hch lo m
    have := ih f' g ((enumFrom lo (s0 :: r)).reverse ++ m) (by omega) (by omega)
    simp only [contRange] at this
    rw [contRange, bfrange]
    rw [show (10 : UInt8) :: (writeCid lo ++ ([32] ++ (writeCid (lo + (r.length + 1) - 1) ++ ([32] ++ (writeUnicode s0 ++ 10 :: render (some false) es)))))
          = [10] ++ (writeCid lo ++ ([32] ++ (writeCid (lo + (r.length + 1) - 1) ++ ([32] ++ (writeUnicode s0 ++ 10 :: render (some false) es))))) from rfl, p1]
    simp only [p2, p3, hpos, if_true, parseCid_cidBytes lo hlo, parseCid_cidBytes _ hhi', hn, hr, this]
    simp [pairs, Ent.pairs]

theorem goodRange_rarr (lo : Nat) (ss : List (List Nat)) (hwf : (Ent.rarr lo ss).wf = true) (es : List Ent)
    (ih : GoodRange es) : GoodRange (.rarr lo ss :: es) := by
  intro f g m hf hg
  simp only [Ent.wf, Bool.and_eq_true, Bool.not_eq_true', decide_eq_true_eq] at hwf
  obtain ⟨⟨hne, hhi⟩, hsc0⟩ := hwf
  have hsc : ∀ x ∈ ss, x.all isScalar = true := fun x hx => (List.all_eq_true.mp hsc0) x hx
  have hlen : 0 < ss.length := by
    cases ss with
    | nil => simp at hne
    | cons _ _ => simp
  have er : render (some false) (.rarr lo ss :: es)
      = writeCid lo ++ ([32] ++ (writeCid (lo + ss.length - 1) ++ ([32] ++ 91 :: (joinSp (ss.map writeUnicode) ++ 93 :: (10 :: render (some false) es))))) := by
    simp [render, Ent.isChar, Ent.line]
  rw [er] at hf hg ⊢
  simp only [List.length_append, List.length_cons, List.length_nil] at hf hg
  obtain ⟨f', rfl⟩ : ∃ f', f = f' + 1 := ⟨f - 1, by omega⟩
  have hlo : lo < 65536 := by omega
  have hhi' : lo + ss.length - 1 < 65536 := by omega
  have p1 := parseStr_cid [10] (by decide) lo hlo ([32] ++ (writeCid (lo + ss.length - 1) ++ ([32] ++ 91 :: (joinSp (ss.map writeUnicode) ++ 93 :: (10 :: render (some false) es)))))
  have p2 := parseStr_cid [32] (by decide) (lo + ss.length - 1) hhi' ([32] ++ 91 :: (joinSp (ss.map writeUnicode) ++ 93 :: (10 :: render (some false) es)))
  have p3 := parseStrOrArr_arr [32] (by decide) ss hsc (10 :: render (some false) es)
  have hr := rangeArr_spec ss hsc (lo + ss.length - 1 + 1 - lo) lo m (by omega)
  have := ih f' g ((enumFrom lo ss).reverse ++ m) (by omega) (by omega)
  simp only [contRange] at this
  rw [contRange, bfrange]
  rw [show (10 : UInt8) :: (writeCid lo ++ ([32] ++ (writeCid (lo + ss.length - 1) ++ ([32] ++ 91 :: (joinSp (ss.map writeUnicode) ++ 93 :: (10 :: render (some false) es))))))
        = [10] ++ (writeCid lo ++ ([32] ++ (writeCid (lo + ss.length - 1) ++ ([32] ++ 91 :: (joinSp (ss.map writeUnicode) ++ 93 :: (10 :: render (some false) es)))))) from rfl, p1]
  simp only [p2, p3, parseCid_cidBytes lo hlo, parseCid_cidBytes _ hhi', hr, this]
  simp [pairs, Ent.pairs]

theorem render_same (e : Ent) (es : List Ent) :
    render (some e.isChar) (e :: es) = e.line ++ render (some e.isChar) es := by
  simp [render]

theorem goodChar_of_range (e : Ent) (he : e.isChar = false) (es : List Ent) (h : GoodRange (e :: es)) :
    GoodChar (e :: es) := by
  intro f g m hf hg
  have e2 : render (some false) (e :: es) = e.line ++ render (some false) es := by
    have := render_same e es
    rwa [he] at this
  have er : render (some true) (e :: es) = wEndbfchar ++ 10 :: (kwBfrange ++ 10 :: render (some false) (e :: es)) := by
    rw [e2]
    simp [render, he, footer_true, header_false]
  rw [er] at hf hg ⊢
  simp only [List.length_append, List.length_cons] at hf hg
  have hl1 : wEndbfchar.length = 9 := rfl
  have hl2 : kwBfrange.length = 12 := rfl
  obtain ⟨f', rfl⟩ : ∃ f', f = f' + 1 := ⟨f - 1, by omega⟩
  obtain ⟨g', rfl⟩ : ∃ g', g = g' + 1 + 1 := ⟨g - 2, by omega⟩
  have hp := parseStr_kw [10] (by decide) wEndbfchar 101 _ rfl (by decide) (kwBfrange ++ 10 :: render (some false) (e :: es))
  have hn := nextWord_kw [10] (by decide) kwBfrange 98 _ rfl (by decide) (render (some false) (e :: es))
  simp only [List.singleton_append] at hp hn
  have hr := h g' g' m (by omega) (by omega)
  simp only [contRange] at hr
  simp only [contChar, bfchar, hp]
  rw [outer_endword wEndbfchar 101 _ rfl (by decide) (by decide) (by decide) (by decide)]
  have n1 : kwBfrange ≠ kwBfchar := by decide
  simp only [outer, hn, n1, if_false, if_true]
  exact hr

theorem goodRange_of_char (e : Ent) (he : e.isChar = true) (es : List Ent) (h : GoodChar (e :: es)) :
    GoodRange (e :: es) := by
  intro f g m hf hg
  have e2 : render (some true) (e :: es) = e.line ++ render (some true) es := by
    have := render_same e es
    rwa [he] at this
  have er : render (some false) (e :: es) = wEndbfrange ++ 10 :: (kwBfchar ++ 10 :: render (some true) (e :: es)) := by
    rw [e2]
    simp [render, he, footer_false, header_true]
  rw [er] at hf hg ⊢
  simp only [List.length_append, List.length_cons] at hf hg
  have hl1 : wEndbfrange.length = 10 := rfl
  have hl2 : kwBfchar.length = 11 := rfl
  obtain ⟨f', rfl⟩ : ∃ f', f = f' + 1 := ⟨f - 1, by omega⟩
  obtain ⟨g', rfl⟩ : ∃ g', g = g' + 1 + 1 := ⟨g - 2, by omega⟩
  have hp := parseStr_kw [10] (by decide) wEndbfrange 101 _ rfl (by decide) (kwBfchar ++ 10 :: render (some true) (e :: es))
  have hn := nextWord_kw [10] (by decide) kwBfchar 98 _ rfl (by decide) (render (some true) (e :: es))
  simp only [List.singleton_append] at hp hn
  have hr := h g' g' m (by omega) (by omega)
  simp only [contChar] at hr
  simp only [contRange, bfrange, hp]
  rw [outer_endword wEndbfrange 101 _ rfl (by decide) (by decide) (by decide) (by decide)]
  simp only [outer, hn, if_true]
  exact hr

theorem goodNone_of_char (e : Ent) (he : e.isChar = true) (es : List Ent) (h : GoodChar (e :: es)) :
    GoodNone (e :: es) := by
  intro pre hpre fuel m hf
  have e2 : render (some true) (e :: es) = e.line ++ render (some true) es := by
    have := render_same e es
    rwa [he] at this
  have er : render none (e :: es) = kwBfchar ++ 10 :: render (some true) (e :: es) := by
    rw [e2]
    simp [render, he, header_true]
  rw [er] at hf ⊢
  simp only [List.length_append, List.length_cons] at hf
  have hl2 : kwBfchar.length = 11 := rfl
  obtain ⟨f', rfl⟩ : ∃ f', fuel = f' + 1 := ⟨fuel - 1, by omega⟩
  have hn := nextWord_kw pre hpre kwBfchar 98 _ rfl (by decide) (render (some true) (e :: es))
  have hr := h f' f' m (by omega) (by omega)
  simp only [contChar] at hr
  simp only [outer, hn, if_true]
  exact hr

theorem goodNone_of_range (e : Ent) (he : e.isChar = false) (es : List Ent) (h : GoodRange (e :: es)) :
    GoodNone (e :: es) := by
  intro pre hpre fuel m hf
  have e2 : render (some false) (e :: es) = e.line ++ render (some false) es := by
    have := render_same e es
    rwa [he] at this
  have er : render none (e :: es) = kwBfrange ++ 10 :: render (some false) (e :: es) := by
    rw [e2]
    simp [render, he, header_false]
  rw [er] at hf ⊢
  simp only [List.length_append, List.length_cons] at hf
  have hl2 : kwBfrange.length = 12 := rfl
  obtain ⟨f', rfl⟩ : ∃ f', fuel = f' + 1 := ⟨fuel - 1, by omega⟩
  have hn := nextWord_kw pre hpre kwBfrange 98 _ rfl (by decide) (render (some false) (e :: es))
  have hr := h f' f' m (by omega) (by omega)
  simp only [contRange] at hr
  have n1 : kwBfrange ≠ kwBfchar := by decide
  simp only [outer, hn, n1, if_false, if_true]
  exact hr

theorem good_all : ∀ (es : List Ent), (∀ e ∈ es, e.wf = true) → GoodNone es ∧ GoodChar es ∧ GoodRange es
  | [], _ => ⟨goodNone_nil, goodChar_nil, goodRange_nil⟩
  | e :: es, h => by
    have ih := good_all es (fun x hx => h x (List.mem_cons_of_mem _ hx))
    have hw := h e (List.mem_cons_self ..)
    cases e with
    | char c s =>
      simp only [Ent.wf, Bool.and_eq_true, decide_eq_true_eq] at hw
      have gc := goodChar_char c s hw.1 hw.2 es ih.2.1
      exact ⟨goodNone_of_char _ rfl es gc, gc, goodRange_of_char _ rfl es gc⟩
    | rstr lo ss =>
      have gr := goodRange_rstr lo ss hw es ih.2.2
      exact ⟨goodNone_of_range _ rfl es gr, goodChar_of_range _ rfl es gr, gr⟩
    | rarr lo ss =>
      have gr := goodRange_rarr lo ss hw es ih.2.2
      exact ⟨goodNone_of_range _ rfl es gr, goodChar_of_range _ rfl es gr, gr⟩

/-- the reader on a conformant program: exactly the pairs of the program, newest first -/
theorem parseCMap_render (es : List Ent) (h : ∀ e ∈ es, e.wf = true) :
    parseCMap (render none es) = .ok (pairs es).reverse := by
  have := (good_all es h).1 [] (by simp) ((render none es).length + 1) [] (by simp)
  simpa [parseCMap] using this

end CMap
