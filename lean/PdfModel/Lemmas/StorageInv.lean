import PdfModel.Lemmas.Storage

/-! The invariant that ties every reachable document to the document it was loaded from, and its
    preservation by `create`, `update`, `promise`, `fulfil`, `get` (the `save` case is in
    `Lemmas/StorageSave.lean`). -/

namespace Storage
open Xref

variable {V : Type}

def rawOrStream : XRef → Bool
  | .raw .. | .stream .. => true
  | _ => false

/-- What the theorems assume about the document a history starts from (a freshly loaded file):
    nothing pending, positions inside the file, and the table dominates every older section that
    `/Prev` reaches (the well-formedness of C02: generations never increase towards older sections). -/
structure BaseOK (d0 : Doc V) (chain0 : List (List Sub)) : Prop where
  start_le : d0.st.start ≤ d0.st.len
  chain : prevChain d0.st.secs d0.st.start (d0.st.secs.length + 1) d0.tr.prev [] = .ok chain0
  pairs_entry : pairsOK (allPairs chain0)
  pairs_dom : ∀ p ∈ allPairs chain0, ∃ e, d0.st.refs[p.1]? = some e ∧ isEntry e = true ∧ gen p.2 ≤ gen e
  objs_lt : ∀ o ∈ d0.st.objs, o.off < d0.st.len
  secs_lt : ∀ s ∈ d0.st.secs, s.off < d0.st.len
  raw_lt : ∀ (j pos g : Nat), d0.st.refs[j]? = some (.raw pos g) → d0.st.start + pos < d0.st.len
  stream_lt : ∀ (j sid idx : Nat), d0.st.refs[j]? = some (.stream sid idx) → sid < d0.st.refs.length
  no_prom : ∀ e ∈ d0.st.refs, e ≠ .promised
  changes_nil : d0.st.changes = []
  cache_nil : d0.st.cache = []

structure Inv (d0 d : Doc V) : Prop where
  tr_eq : d.tr = d0.tr
  start_eq : d.st.start = d0.st.start
  len_ge : d0.st.len ≤ d.st.len
  objs_ext : ∃ ext, d.st.objs = d0.st.objs ++ ext ∧ ∀ o ∈ ext, d0.st.len ≤ o.off
  secs_ext : ∃ ext, d.st.secs = d0.st.secs ++ ext ∧ ∀ s ∈ ext, d0.st.len ≤ s.off
  objs_lt : ∀ o ∈ d.st.objs, o.off < d.st.len
  secs_lt : ∀ s ∈ d.st.secs, s.off < d.st.len
  refs_len : d0.st.refs.length ≤ d.st.refs.length
  sorted : Sorted d.st.changes
  refs_old : ∀ j : Nat, j < d0.st.refs.length → chLookup d.st.changes j = none → d.st.refs[j]? = d0.st.refs[j]?
  refs_new : ∀ j : Nat, d0.st.refs.length ≤ j → j < d.st.refs.length → chLookup d.st.changes j = none →
      d.st.refs[j]? = some .promised
  ch_lt : ∀ (j : Nat) (x : V × Nat), chLookup d.st.changes j = some x → j < d.st.refs.length
  ch_old : ∀ (j : Nat) (v : V) (g : Nat), chLookup d.st.changes j = some (v, g) → j < d0.st.refs.length →
      ∃ e, d0.st.refs[j]? = some e ∧ rawOrStream e = true ∧ g = gen e ∧
        (d.st.refs[j]? = some e ∨ ∃ pos, d.st.refs[j]? = some (.raw pos g))
  ch_new : ∀ (j : Nat) (v : V) (g : Nat), chLookup d.st.changes j = some (v, g) → d0.st.refs.length ≤ j →
      g = 0 ∧ (d.st.refs[j]? = some .promised ∨ ∃ pos, d.st.refs[j]? = some (.raw pos 0))
  cache_ok : ∀ (id : Nat) (r : Rd V), cacheLookup d.st.cache id = some r →
      ∀ v, r = .val v ↔ resolve d.st id = .val v

theorem inv_base (d0 : Doc V) (chain0) (hb : BaseOK d0 chain0) : Inv d0 d0 where
  tr_eq := rfl
  start_eq := rfl
  len_ge := Nat.le_refl _
  objs_ext := ⟨[], by simp⟩
  secs_ext := ⟨[], by simp⟩
  objs_lt := hb.objs_lt
  secs_lt := hb.secs_lt
  refs_len := Nat.le_refl _
  sorted := by rw [hb.changes_nil]; trivial
  refs_old := fun _ _ _ => rfl
  refs_new := fun j h1 h2 _ => by omega
  ch_lt := fun j x h => by rw [hb.changes_nil] at h; simp [chLookup] at h
  ch_old := fun j v g h => by rw [hb.changes_nil] at h; simp [chLookup] at h
  ch_new := fun j v g h => by rw [hb.changes_nil] at h; simp [chLookup] at h
  cache_ok := fun id r h => by rw [hb.cache_nil] at h; simp [cacheLookup] at h

/-! ### reads only look at `changes`, `refs`, `objs`, `start` -/

theorem resolve_changed (st : St V) (id : Nat) (v : V) (g : Nat) (h : chLookup st.changes id = some (v, g)) :
    resolve st id = .val v := by
  simp [resolve, h]

theorem resolve_congr (st st' : St V) (hch : st'.changes = st.changes) (hobjs : st'.objs = st.objs)
    (hstart : st'.start = st.start)
    (hrefs : ∀ j : Nat, chLookup st.changes j = none → st'.refs[j]? = st.refs[j]?) :
    ∀ j, resolve st' j = resolve st j := by
  intro j
  simp only [resolve, hch]
  cases hc : chLookup st.changes j with
  | some x => rfl
  | none =>
    simp only
    rw [hrefs j hc]
    cases st.refs[j]? with
    | none => rfl
    | some e =>
      cases e with
      | raw pos g => simp [readAt, hobjs, hstart]
      | stream sid idx =>
        simp only [readCompressed, hch]
        cases hs : chLookup st.changes sid with
        | some x => rfl
        | none => simp only; rw [hrefs sid hs, hobjs, hstart]
      | free n g => rfl
      | promised => rfl
      | invalid => rfl

/-- appending a promised slot changes no read that returned a value (a number that did not exist
    before now reads as an error of another kind) -/
theorem resolve_alloc (st : St V) (j : Nat) (v : V) :
    resolve { st with refs := st.refs ++ [.promised] } j = .val v ↔ resolve st j = .val v := by
  have key : ∀ k : Nat, k < st.refs.length → (st.refs ++ [XRef.promised])[k]? = st.refs[k]? := by
    intro k hk; simp [List.getElem?_append_left hk]
  have key2 : ∀ k : Nat, st.refs.length ≤ k → st.refs[k]? = none := by
    intro k hk; simp [hk]
  have key3 : ∀ k : Nat, st.refs.length ≤ k →
      (st.refs ++ [XRef.promised])[k]? = none ∨ (st.refs ++ [XRef.promised])[k]? = some .promised := by
    intro k hk
    by_cases h : k = st.refs.length
    · right; subst h; simp
    · left; simp; omega
  simp only [resolve]
  cases hc : chLookup st.changes j with
  | some x => simp
  | none =>
    simp only
    by_cases hj : j < st.refs.length
    · rw [key j hj]
      cases he : st.refs[j]? with
      | none => simp
      | some e =>
        cases e with
        | raw pos g => simp [readAt]
        | stream sid idx =>
          simp only [readCompressed]
          cases hs : chLookup st.changes sid with
          | some x => simp
          | none =>
            simp only
            by_cases hsid : sid < st.refs.length
            · rw [key sid hsid]
            · rw [key2 sid (by omega)]
              rcases key3 sid (by omega) with h | h <;> simp [h]
        | free n g => simp
        | promised => simp
        | invalid => simp
    · rw [key2 j (by omega)]
      rcases key3 j (by omega) with h | h <;> simp [h]

/-! ### preservation -/

theorem getElem?_append_promised (refs : List XRef) (j : Nat) (hj : j < refs.length) :
    (refs ++ [XRef.promised])[j]? = refs[j]? := by
  simp [List.getElem?_append_left hj]

theorem inv_alloc (d0 d : Doc V) (hi : Inv d0 d) :
    Inv d0 { d with st := { d.st with refs := d.st.refs ++ [.promised] } } where
  tr_eq := hi.tr_eq
  start_eq := hi.start_eq
  len_ge := hi.len_ge
  objs_ext := hi.objs_ext
  secs_ext := hi.secs_ext
  objs_lt := hi.objs_lt
  secs_lt := hi.secs_lt
  refs_len := by simp only [List.length_append, List.length_singleton]; have := hi.refs_len; omega
  sorted := hi.sorted
  refs_old := by
    intro j hj hc
    simp only
    rw [getElem?_append_promised _ _ (by have := hi.refs_len; omega)]
    exact hi.refs_old j hj hc
  refs_new := by
    intro j hj hlt hc
    simp only [List.length_append, List.length_singleton] at hlt
    simp only
    by_cases h : j < d.st.refs.length
    · rw [getElem?_append_promised _ _ h]; exact hi.refs_new j hj h hc
    · have : j = d.st.refs.length := by omega
      subst this; simp
  ch_lt := by
    intro j x h
    simp only [List.length_append, List.length_singleton]
    have := hi.ch_lt j x h; omega
  ch_old := by
    intro j v g h hj
    obtain ⟨e, a, b, c, dd⟩ := hi.ch_old j v g h hj
    refine ⟨e, a, b, c, ?_⟩
    simp only
    rw [getElem?_append_promised _ _ (hi.ch_lt j _ h)]
    exact dd
  ch_new := by
    intro j v g h hj
    obtain ⟨a, b⟩ := hi.ch_new j v g h hj
    refine ⟨a, ?_⟩
    simp only
    rw [getElem?_append_promised _ _ (hi.ch_lt j _ h)]
    exact b
  cache_ok := by
    intro id r h v
    rw [hi.cache_ok id r h v]
    exact (resolve_alloc d.st id v).symm

/-- replacing / adding the pending value of a number whose slot admits it; the cache is dropped -/
theorem inv_put (d0 d : Doc V) (chain0) (hb : BaseOK d0 chain0) (hi : Inv d0 d) (id : Nat) (v : V) (e : XRef)
    (he : d.st.refs[id]? = some e) (hk : e = .promised ∨ rawOrStream e = true) :
    Inv d0 { d with st := { d.st with
      changes := chInsert d.st.changes id (v, match e with | .raw _ g => g | _ => 0), cache := [] } } := by
  have hlt : id < d.st.refs.length := (List.getElem?_eq_some_iff.mp he).1
  refine
    { tr_eq := hi.tr_eq, start_eq := hi.start_eq, len_ge := hi.len_ge, objs_ext := hi.objs_ext,
      secs_ext := hi.secs_ext, objs_lt := hi.objs_lt, secs_lt := hi.secs_lt, refs_len := hi.refs_len,
      sorted := sorted_chInsert _ _ _ hi.sorted, refs_old := ?_, refs_new := ?_, ch_lt := ?_, ch_old := ?_,
      ch_new := ?_, cache_ok := ?_ }
  · intro j hj hc
    simp only [chLookup_chInsert] at hc
    split at hc
    · simp at hc
    · exact hi.refs_old j hj hc
  · intro j hj hl hc
    simp only [chLookup_chInsert] at hc
    split at hc
    · simp at hc
    · exact hi.refs_new j hj hl hc
  · intro j x hc
    simp only [chLookup_chInsert] at hc
    split at hc
    · subst_vars; exact hlt
    · exact hi.ch_lt j x hc
  · intro j v' g' hc hj
    simp only [chLookup_chInsert] at hc
    split at hc
    · rename_i hji
      subst hji
      simp only [Option.some.injEq, Prod.mk.injEq] at hc
      obtain ⟨rfl, rfl⟩ := hc
      cases hprev : chLookup d.st.changes j with
      | none =>
        have h0 := hi.refs_old j hj hprev
        rw [he] at h0
        have hne : e ≠ .promised := hb.no_prom e (List.mem_of_getElem? h0.symm)
        have hrs : rawOrStream e = true := by rcases hk with h | h; exact absurd h hne; exact h
        refine ⟨e, h0.symm, hrs, ?_, Or.inl he⟩
        cases e <;> simp_all [rawOrStream, gen]
      | some x =>
        obtain ⟨v1, g1⟩ := x
        obtain ⟨e0, a, b, c, dd⟩ := hi.ch_old j v1 g1 hprev hj
        refine ⟨e0, a, b, ?_, ?_⟩
        · rcases dd with dd | ⟨pos, dd⟩
          · rw [he] at dd; simp at dd; subst dd
            cases e <;> simp_all [rawOrStream, gen]
          · rw [he] at dd; simp at dd; subst dd; simpa using c
        · rcases dd with dd | ⟨pos, dd⟩
          · left; exact dd
          · right; rw [he] at dd; simp at dd; subst dd; exact ⟨pos, by simpa using he⟩
    · exact hi.ch_old j v' g' hc hj
  · intro j v' g' hc hj
    simp only [chLookup_chInsert] at hc
    split at hc
    · rename_i hji
      subst hji
      simp only [Option.some.injEq, Prod.mk.injEq] at hc
      obtain ⟨rfl, rfl⟩ := hc
      cases hprev : chLookup d.st.changes j with
      | none =>
        have h0 := hi.refs_new j hj hlt hprev
        rw [he] at h0; simp at h0; subst h0
        exact ⟨rfl, Or.inl he⟩
      | some x =>
        obtain ⟨v1, g1⟩ := x
        obtain ⟨a, b⟩ := hi.ch_new j v1 g1 hprev hj
        rcases b with b | ⟨pos, b⟩
        · rw [he] at b; simp at b; subst b; exact ⟨rfl, Or.inl he⟩
        · rw [he] at b; simp at b; subst b; exact ⟨rfl, Or.inr ⟨pos, he⟩⟩
    · exact hi.ch_new j v' g' hc hj
  · intro id' r h; simp [cacheLookup] at h

theorem inv_create (d0 d : Doc V) (chain0) (hb : BaseOK d0 chain0) (hi : Inv d0 d) (v : V) :
    Inv d0 { d with st := (create d.st v).1 } := by
  have h1 := inv_alloc d0 d hi
  have h2 := inv_put d0 _ chain0 hb h1 d.st.refs.length v .promised (by simp) (Or.inl rfl)
  simpa [create, alloc] using h2

theorem inv_promise (d0 d : Doc V) (hi : Inv d0 d) : Inv d0 { d with st := (promise d.st).1 } := by
  simpa [promise, alloc] using inv_alloc d0 d hi

theorem inv_update (d0 d : Doc V) (chain0) (hb : BaseOK d0 chain0) (hi : Inv d0 d) (id : Nat) (v : V) :
    Inv d0 { d with st := (update d.st id v).1 } := by
  simp only [update]
  cases he : d.st.refs[id]? with
  | none => simpa using hi
  | some e =>
    cases e with
    | free n g => simpa using hi
    | invalid => simpa using hi
    | raw pos g => simpa using inv_put d0 d chain0 hb hi id v (.raw pos g) he (Or.inr rfl)
    | stream s i => simpa using inv_put d0 d chain0 hb hi id v (.stream s i) he (Or.inr rfl)
    | promised => simpa using inv_put d0 d chain0 hb hi id v .promised he (Or.inl rfl)

theorem inv_get (d0 d : Doc V) (hi : Inv d0 d) (id : Nat) : Inv d0 { d with st := (get d.st id).1 } := by
  simp only [get]
  split
  · split
    · simpa using hi
    · rename_i hmiss
      refine { hi with cache_ok := ?_ }
      intro id' r h v
      simp only [cacheLookup] at h
      split at h
      · simp only [Option.some.injEq] at h; subst h; subst_vars
        exact ⟨fun h => h, fun h => h⟩
      · exact hi.cache_ok id' r h v
  · simpa using hi

/-! ### reads of numbers of the original table that have no pending value -/

/-- what such a number reads as: its value in the original document, unless it lives in an object stream
    whose container has itself been given a pending value -/
def resolveOld (d0 : Doc V) (touched : Nat → Bool) (j : Nat) : Rd V :=
  match d0.st.refs[j]? with
  | some (.stream sid _) => if touched sid then .other else resolve d0.st j
  | _ => resolve d0.st j

theorem objAt_base (d0 d : Doc V) (chain0) (_hb : BaseOK d0 chain0) (hi : Inv d0 d) (off : Nat) (h : off < d0.st.len) :
    objAt d.st.objs off = objAt d0.st.objs off := by
  obtain ⟨ext, a, b⟩ := hi.objs_ext
  rw [a, objAt_append_old]
  intro o ho; have := b o ho; omega

theorem resolve_old (d0 d : Doc V) (chain0) (hb : BaseOK d0 chain0) (hi : Inv d0 d) (j : Nat)
    (hj : j < d0.st.refs.length) (hc : chLookup d.st.changes j = none) :
    resolve d.st j = resolveOld d0 (fun s => (chLookup d.st.changes s).isSome) j := by
  have h0 : ∀ k, chLookup d0.st.changes k = none := by intro k; rw [hb.changes_nil]; rfl
  simp only [resolve, resolveOld, hc, h0]
  rw [hi.refs_old j hj hc]
  cases he : d0.st.refs[j]? with
  | none => rfl
  | some e =>
    cases e with
    | raw pos g =>
      simp only [readAt, hi.start_eq]
      rw [objAt_base d0 d chain0 hb hi _ (hb.raw_lt j pos g he)]
    | stream sid idx =>
      simp only [readCompressed, h0]
      rcases Option.eq_none_or_eq_some (chLookup d.st.changes sid) with hs | ⟨x, hs⟩
      · simp only [hs, Option.isSome_none, Bool.false_eq_true, if_false]
        have hsid := hb.stream_lt j sid idx he
        rw [hi.refs_old sid hsid hs]
        rcases Option.eq_none_or_eq_some (d0.st.refs[sid]?) with he2 | ⟨e2, he2⟩
        · simp only [he2]
        · simp only [he2]
          cases e2 with
          | raw pos g =>
            simp only [hi.start_eq]
            rw [objAt_base d0 d chain0 hb hi _ (hb.raw_lt sid pos g he2)]
          | _ => rfl
      · simp [hs]
    | free n g => rfl
    | promised => rfl
    | invalid => rfl

theorem resolveOld_untouched (d0 : Doc V) (touched : Nat → Bool) (j : Nat)
    (h : ∀ sid idx, d0.st.refs[j]? = some (.stream sid idx) → touched sid = false) :
    resolveOld d0 touched j = resolve d0.st j := by
  unfold resolveOld
  split
  · rename_i sid idx he; rw [h sid idx he]; simp
  · rfl

/-- numbers of the original table without a pending value read as in the original document -/
theorem resolve_untouched (d0 d : Doc V) (chain0) (hb : BaseOK d0 chain0) (hi : Inv d0 d) (j : Nat)
    (hj : j < d0.st.refs.length) (hc : chLookup d.st.changes j = none)
    (hcont : ∀ sid idx, d0.st.refs[j]? = some (.stream sid idx) → chLookup d.st.changes sid = none) :
    resolve d.st j = resolve d0.st j := by
  rw [resolve_old d0 d chain0 hb hi j hj hc, resolveOld_untouched]
  intro sid idx he; simp [hcont sid idx he]

/-- numbers allocated since the load that have no pending value are unfulfilled promises -/
theorem resolve_new_pending (d0 d : Doc V) (hi : Inv d0 d) (j : Nat)
    (hj : d0.st.refs.length ≤ j) (hc : chLookup d.st.changes j = none) :
    resolve d.st j = .other ∨ resolve d.st j = .unspec := by
  simp only [resolve, hc]
  by_cases hlt : j < d.st.refs.length
  · rw [hi.refs_new j hj hlt hc]; simp
  · have : d.st.refs[j]? = none := by simp; omega
    rw [this]; simp

end Storage
