import PdfModel.Model.ColorSpaceLoad
import PdfModel.Lemmas.TotalTyped

/-!
  `ColorSpace::from_primitive_depth` is total and respects its budget (C01): for EVERY budget, every plain primitive
  and every object table the model answers with a value or an error of the implementation; a value never nests
  base / alternate spaces deeper than the budget.
-/

namespace CSLoad
open Derive

theorem resolveO_spec {se : SEnv} (he : EnvOk se.env) (p : Prim) (hp : p.plain = true) :
    Clean (resolveO se p) ∧ ∀ q, resolveO se p = .ok (.prim q) → q.plain = true := by
  cases p with
  | ref id g =>
    simp only [resolveO]
    cases hs : se.streams id with
    | some x => obtain ⟨i, d⟩ := x; exact ⟨clean_ok _, fun q hq => by cases hq⟩
    | none =>
      simp only []
      cases hr : se.env.resolve id with
      | ok q => exact ⟨clean_ok _, fun q' hq => by cases hq; exact (he.value id q hr).2⟩
      | error e => exact ⟨clean_err e (he.clean id e hr), fun q hq => by cases hq⟩
  | created q => simp [Prim.plain] at hp
  | _ => exact ⟨clean_ok _, fun q hq => by cases hq; exact hp⟩

theorem asU8_clean (p : Prim) : Clean (asU8 p) := by
  unfold asU8; split <;> (try split) <;> simp [Clean, Err.hasOof]

theorem asU8_range (p : Prim) (n : Nat) (h : asU8 p = .ok n) : n < 256 := by
  unfold asU8 at h
  split at h
  · split at h
    · cases h; omega
    · cases h
  · cases h

theorem unitStreamData_err (i : Dict) (d : List UInt8) (e : Err) (h : unitStreamData i d = .error e) :
    e = .oof ∨ e.hasOof = false := by
  unfold unitStreamData at h
  repeat' split at h
  all_goals cases h
  all_goals first | exact Or.inl rfl | exact Or.inr rfl

theorem readLookup_clean {se : SEnv} (he : EnvOk se.env) (p : Prim) (hp : p.plain = true) : Clean (readLookup se p) := by
  have h1 : Clean (lookupObj se p) := by
    cases p <;> first | exact clean_ok _ | exact (resolveO_spec he _ hp).1
  unfold readLookup
  cases hl : lookupObj se p with
  | error e => exact clean_err e (h1 e hl)
  | ok o =>
    cases o with
    | prim q => cases q <;> first | exact clean_ok _ | exact clean_err _ rfl
    | stream i d =>
      simp only []
      split
      · exact clean_ok _
      cases hu : unitStreamData i d with
      | ok x => exact clean_ok _
      | error e =>
        rcases unitStreamData_err i d e hu with rfl | h
        · exact clean_ok _
        · cases e <;> first | exact clean_ok _ | exact clean_err _ h

theorem dictOf_clean {se : SEnv} (he : EnvOk se.env) (p : Prim) (hp : p.plain = true) : Clean (dictOf se p) := by
  have := (asDict_spec he p hp).1
  unfold dictOf
  split
  · split
    · exact clean_err _ rfl
    · exact this
  · exact this

theorem calDict_clean {se : SEnv} (he : EnvOk se.env) (arr : List Prim) (hp : plainList arr = true) :
    Clean (calDict se arr) := by
  unfold calDict
  cases h : arr[1]? with
  | none => exact clean_err _ rfl
  | some p => exact dictOf_clean he p (plainList_mem hp p (List.mem_of_getElem? h))

theorem csHead_spec {se : SEnv} (he : EnvOk se.env) (p : Prim) (hp : p.plain = true) :
    Clean (csHead se p) ∧ ∀ typ arr, csHead se p = .ok (.inr (typ, arr)) → plainList arr = true := by
  obtain ⟨h1, h2⟩ := resolveO_spec he p hp
  unfold csHead
  cases hr : resolveO se p with
  | error e => exact ⟨clean_err e (h1 e hr), fun _ _ h => by cases h⟩
  | ok o =>
    cases o with
    | stream i d => exact ⟨clean_err _ rfl, fun _ _ h => by cases h⟩
    | prim q =>
      have hq := h2 q hr
      cases q with
      | name n => exact ⟨clean_ok _, fun _ _ h => by cases h⟩
      | arr arr =>
        have ha : plainList arr = true := by simpa [Prim.plain] using hq
        simp only []
        cases h0 : arr[0]? with
        | none => exact ⟨clean_err _ rfl, fun _ _ h => by cases h⟩
        | some t0 =>
          simp only []
          obtain ⟨h3, _⟩ := resolveO_spec he t0 (plainList_mem ha t0 (List.mem_of_getElem? h0))
          cases hr0 : resolveO se t0 with
          | error e => exact ⟨clean_err e (h3 e hr0), fun _ _ h => by cases h⟩
          | ok o0 =>
            cases o0 with
            | stream i d => exact ⟨clean_err _ rfl, fun _ _ h => by cases h⟩
            | prim q0 =>
              cases q0 <;> first
                | exact ⟨clean_err _ rfl, fun _ _ h => by cases h⟩
                | exact ⟨clean_ok _, fun _ _ h => by cases h; exact ha⟩
      | _ => exact ⟨clean_err _ rfl, fun _ _ h => by cases h⟩

theorem csFamily_clean {se : SEnv} (he : EnvOk se.env) (rec : Prim → R CS) (hrec : ∀ q : Prim, q.plain = true → Clean (rec q))
    (typ : String) (arr : List Prim) (ha : plainList arr = true) : Clean (csFamily se rec typ arr) := by
  have hm : ∀ (i : Nat) (q : Prim), arr[i]? = some q → q.plain = true := fun i q h => plainList_mem ha q (List.mem_of_getElem? h)
  have hcal := calDict_clean he arr ha
  unfold csFamily
  split
  · -- Indexed
    cases h1 : arr[1]? with
    | none => exact clean_err _ rfl
    | some b =>
      simp only []
      have hb := hrec b (hm 1 b h1)
      cases hr : rec b with
      | error e => exact clean_err _ (by simpa using hb e hr)
      | ok base =>
        simp only []
        cases h2 : arr[2]? with
        | none => exact clean_err _ rfl
        | some h =>
          simp only []
          cases hu : asU8 h with
          | error e => exact clean_err _ (by simpa using asU8_clean h e hu)
          | ok hival =>
            simp only []
            cases h3 : arr[3]? with
            | none => exact clean_err _ rfl
            | some l =>
              simp only []
              have hl := readLookup_clean he l (hm 3 l h3)
              cases hlk : readLookup se l with
              | error e => exact clean_err e (hl e hlk)
              | ok lk => exact clean_ok _
  · split
    · -- Separation
      split
      · rename_i name h1
        cases h2 : arr[2]? with
        | none => exact clean_err _ rfl
        | some a =>
          simp only []
          have hb := hrec a (hm 2 a h2)
          cases hr : rec a with
          | error e => exact clean_err _ (by simpa using hb e hr)
          | ok alt =>
            simp only []
            cases h3 : arr[3]? <;> first | exact clean_err _ rfl | exact clean_ok _
      · exact clean_err _ rfl
    · split
      · -- ICCBased
        cases h1 : arr[1]? <;> first | exact clean_err _ rfl | exact clean_ok _
      · split
        · -- DeviceN
          cases h1 : arr[1]? with
          | none => exact clean_err _ rfl
          | some names =>
            simp only []
            cases h2 : arr[2]? with
            | none => exact clean_err _ rfl
            | some a =>
              simp only []
              have hb := hrec a (hm 2 a h2)
              cases hr : rec a with
              | error e => exact clean_err _ (by simpa using hb e hr)
              | ok alt =>
                simp only []
                cases h3 : arr[3]? with
                | none => exact clean_err _ rfl
                | some f =>
                  simp only []
                  cases h4 : arr[4]? with
                  | none => exact clean_ok _
                  | some a4 =>
                    simp only []
                    have hd := dictOf_clean he a4 (hm 4 a4 h4)
                    cases hdd : dictOf se a4 with
                    | ok d => exact clean_ok _
                    | error e => exact clean_err e (hd e hdd)
        · repeat' split
          all_goals first | exact map_clean _ _ hcal | exact clean_ok _

/-- **Total for every budget.** -/
theorem csRead_clean {se : SEnv} (he : EnvOk se.env) : ∀ (depth : Nat) (p : Prim), p.plain = true →
    Clean (csRead se depth p) := by
  intro depth
  induction depth with
  | zero =>
    intro p hp
    obtain ⟨h1, _⟩ := csHead_spec he p hp
    unfold csRead
    cases hh : csHead se p with
    | error e => exact clean_err e (h1 e hh)
    | ok x =>
      cases x with
      | inl cs => exact clean_ok _
      | inr ta => exact clean_err _ rfl
  | succ d ih =>
    intro p hp
    obtain ⟨h1, h2⟩ := csHead_spec he p hp
    unfold csRead
    cases hh : csHead se p with
    | error e => exact clean_err e (h1 e hh)
    | ok x =>
      cases x with
      | inl cs => exact clean_ok _
      | inr ta =>
        obtain ⟨typ, arr⟩ := ta
        exact csFamily_clean he _ (fun q hq => ih q hq) typ arr (h2 typ arr hh)

theorem ofName_nesting (n : String) : (ofName n).nesting = 0 := by
  unfold ofName; repeat' split
  all_goals rfl

theorem csHead_nesting (se : SEnv) (p : Prim) (cs : CS) (h : csHead se p = .ok (.inl cs)) : cs.nesting = 0 := by
  unfold csHead at h
  repeat' split at h
  all_goals cases h
  exact ofName_nesting _

theorem map_ok {α β : Type} (f : α → β) (r : R α) (b : β) (h : r.map f = .ok b) : ∃ a, r = .ok a ∧ b = f a := by
  cases r with
  | error e => cases h
  | ok a => exact ⟨a, rfl, by cases h; rfl⟩

theorem csFamily_nesting (se : SEnv) (rec : Prim → R CS) (d : Nat) (hrec : ∀ q cs, rec q = .ok cs → cs.nesting ≤ d)
    (typ : String) (arr : List Prim) (cs : CS) (h : csFamily se rec typ arr = .ok cs) : cs.nesting ≤ d + 1 := by
  unfold csFamily at h
  repeat' split at h
  all_goals first | cases h | skip
  all_goals first
    | (have := hrec _ _ ‹rec _ = Except.ok _›; simp only [CS.nesting]; omega)
    | (simp only [CS.nesting]; omega)
    | (obtain ⟨a, _, rfl⟩ := map_ok _ _ _ h; simp only [CS.nesting]; omega)

/-- **The budget bounds the value**: what `from_primitive_depth(.., depth)` returns nests base and alternate spaces at
    most `depth` deep (`ColorSpace::from_primitive`: 5) -/
theorem csRead_nesting (se : SEnv) : ∀ (depth : Nat) (p : Prim) (cs : CS), csRead se depth p = .ok cs →
    cs.nesting ≤ depth := by
  intro depth
  induction depth with
  | zero =>
    intro p cs h
    unfold csRead at h
    cases hh : csHead se p with
    | error e => simp [hh] at h
    | ok x =>
      cases x with
      | inl c => simp [hh] at h; subst h; have := csHead_nesting se p c hh; omega
      | inr ta => simp [hh] at h
  | succ d ih =>
    intro p cs h
    unfold csRead at h
    cases hh : csHead se p with
    | error e => simp [hh] at h
    | ok x =>
      cases x with
      | inl c => simp [hh] at h; subst h; have := csHead_nesting se p c hh; omega
      | inr ta =>
        obtain ⟨typ, arr⟩ := ta
        simp only [hh] at h
        exact csFamily_nesting se _ d (fun q c hq => ih q c hq) typ arr cs h

end CSLoad
