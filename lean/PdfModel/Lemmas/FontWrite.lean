import PdfModel.Model.FontWrite
import PdfModel.Lemmas.Derive

/-! `Font::to_primitive` against `FontLoad.fontPlan` (C15). -/

namespace FontLoad
open Derive

theorem dget_derase (k k' : String) (d : Dict) : dget k (derase k' d) = if k' = k then none else dget k d := by
  by_cases h : k' = k
  · subst h; simp
  · simp [h, dget_derase_ne h]

/-- the tags of the written dictionary: `/Subtype` is the tag of the VARIANT of the data, `/Type` is `/Font` -/
theorem finish_tags (f : FontW) (encP : Option Prim) (d : Dict) :
    dget "Subtype" (finish f encP d) = some (.name f.variant.tag) ∧
    dget "Type" (finish f encP d) = some (.name "Font") := by
  simp [finish, dget_dinsert]

theorem finish_baseFont (f : FontW) (encP : Option Prim) (d : Dict) (n : String) (hn : f.name = some n) :
    dget "BaseFont" (finish f encP d) = some (.name n) := by
  simp [finish, dget_dinsert, hn]

theorem finish_toUnicode (f : FontW) (encP : Option Prim) (d : Dict) :
    dget "ToUnicode" (finish f encP d) = (match f.toUnicode with | some r => some r | none => dget "ToUnicode" d) := by
  cases hu : f.toUnicode <;> cases encP <;> cases hn : f.name <;> simp [finish, dget_dinsert, hu, hn]

theorem finish_encoding (f : FontW) (encP : Option Prim) (d : Dict) :
    dget "Encoding" (finish f encP d) = (match encP with | some q => some q | none => dget "Encoding" d) := by
  cases hu : f.toUnicode <;> cases encP <;> cases hn : f.name <;> simp [finish, dget_dinsert, hu, hn]

/-- every other entry is the data's own -/
theorem finish_foreign (f : FontW) (encP : Option Prim) (d : Dict) (k : String)
    (hk : k ≠ "Subtype" ∧ k ≠ "Type" ∧ k ≠ "BaseFont" ∧ k ≠ "Encoding" ∧ k ≠ "ToUnicode") :
    dget k (finish f encP d) = dget k d := by
  obtain ⟨h1, h2, h3, h4, h5⟩ := hk
  cases hu : f.toUnicode <;> cases encP <;> cases hn : f.name <;>
    simp [finish, dget_dinsert, hu, hn, Ne.symm h1, Ne.symm h2, Ne.symm h3, Ne.symm h4, Ne.symm h5]

/-- reading the tag back selects the variant it was written for, and that variant's `from_dict` -/
theorem tag_selects_variant (v : Variant) (hv : v ≠ .other) :
    variantOf v.tag = v ∧ loaderOf v.tag = v.loader := by
  cases v <;> simp [Variant.tag, variantOf, loaderOf, Variant.loader] at hv ⊢

/-- distinct variants have distinct tags: no two variants are written alike -/
theorem tag_injective (a b : Variant) (ha : a ≠ .other) (hb : b ≠ .other) (h : a.tag = b.tag) : a = b := by
  have := (tag_selects_variant a ha).1
  rw [h, (tag_selects_variant b hb).1] at this
  exact this.symm

theorem trunc_ok (env : Env) (dd : Dict) (h : ∀ q, dget "DescendantFonts" dd = some q → ∃ xs, q = .arr xs) :
    ∃ d4, truncDescendants env dd = .ok d4 := by
  simp only [truncDescendants]
  cases hq : dget "DescendantFonts" dd with
  | none => exact ⟨_, rfl⟩
  | some q =>
    obtain ⟨xs, rfl⟩ := h q hq
    exact ⟨dinsert "DescendantFonts" (.arr (xs.take 1)) (derase "DescendantFonts" dd), by simp [resolve1, resolveP]⟩

/-- **what `Font::to_primitive` writes is accepted by `Font::from_primitive` up to the subtype's `from_dict`, as the
    same variant**: the plan of the reader (C01) for the written dictionary exists, its subtype is the tag of the
    variant of the data, it selects that variant's loader, and the name and the `/ToUnicode` reference are the value's -/
theorem fontPlan_written (env : Env) (fontType : Schema) (f : FontW)
    (hft : readSubtype env fontType (.name f.variant.tag) = .ok f.variant.tag)
    (n : String) (hn : f.name = some n) (encP : Option Prim)
    (henc : ∀ q, encP = some q → ∃ e, readEncoding env env.depth q = .ok e)
    (d : Dict) (hnoenc : encP = none → dget "Encoding" d = none)
    (hdesc : ∀ q, dget "DescendantFonts" d = some q → ∃ xs, q = .arr xs) :
    ∃ pl, fontPlan env fontType (.dict (finish f encP d)) = .ok pl ∧
      pl.subtype = f.variant.tag ∧ pl.loader = loaderOf f.variant.tag ∧ pl.name = some n ∧
      pl.toUnicode = (match f.toUnicode with | some r => some r | none => dget "ToUnicode" d) ∧
      readEncodingOpt env (derase "Subtype" (finish f encP d)) = .ok pl.encoding := by
  have hS := (finish_tags f encP d).1
  have hT := (finish_tags f encP d).2
  have hB := finish_baseFont f encP d n hn
  have hU := finish_toUnicode f encP d
  have hE := finish_encoding f encP d
  have hD : dget "DescendantFonts" (finish f encP d) = dget "DescendantFonts" d :=
    finish_foreign f encP d "DescendantFonts" (by decide)
  -- the encoding entry is readable (or absent)
  have hencR : ∃ eo, readEncodingOpt env (derase "Subtype" (finish f encP d)) = .ok eo := by
    simp only [readEncodingOpt, dget_derase, hE]
    cases encP with
    | none => simp [hnoenc rfl]
    | some q =>
      obtain ⟨e, he⟩ := henc q rfl
      simp [he]
  obtain ⟨eo, heo⟩ := hencR
  -- the cut of /DescendantFonts cannot fail on an array
  have htr : ∃ d4, (if loaderOf f.variant.tag = Loader.type0
      then truncDescendants env (derase "ToUnicode" (derase "Encoding" (derase "Subtype" (finish f encP d))))
      else .ok (derase "ToUnicode" (derase "Encoding" (derase "Subtype" (finish f encP d))))) = .ok d4 := by
    by_cases hl : loaderOf f.variant.tag = Loader.type0
    · simp only [hl, if_true]
      exact trunc_ok env _ (by
        intro q hq
        simp [dget_derase, hD] at hq
        exact hdesc q hq)
    · exact ⟨derase "ToUnicode" (derase "Encoding" (derase "Subtype" (finish f encP d))), by simp [hl]⟩
  obtain ⟨d4, h4⟩ := htr
  refine ⟨{ subtype := f.variant.tag, name := some n, encoding := eo,
            toUnicode := dget "ToUnicode" (derase "Encoding" (derase "Subtype" (finish f encP d))),
            other := derase "ToUnicode" (derase "Encoding" (derase "Subtype" (finish f encP d))),
            loader := loaderOf f.variant.tag, dict := d4 }, ?_, rfl, rfl, rfl, ?_, heo⟩
  · simp only [fontPlan, resolve1, resolveP, hS, hft, expect, dget_derase, hT, baseFont, hB, heo, h4]
    simp
  · simp [dget_derase, hU]

end FontLoad
