import PdfModel.Lemmas.Content
import PdfModel.Lemmas.ContentKw

/-! One iteration of the serializer, read back (C08): for every operation the tokens that `serOne` writes
    (with its look-ahead) are read by the loop of the reader as operations that are numerically equal to the
    operations consumed, and the invariant between the serializer's `current_point` / `subpath_start` and the
    reader's `last` / `subpath_start` is kept. -/

namespace Content
section
variable {R : Type} (ro : RealOps R)

/-- what the reader does with the tokens of one serializer iteration -/
def SimGoal (allow : Bool) (st : PState R) (op : Op R) (rest : List (Op R)) (r : SerStep R) : Prop :=
  ∃ st' new, (∀ more, parseLoop ro allow ⟨st, []⟩ (r.toks ++ more) = parseLoop ro allow ⟨st', []⟩ more)
    ∧ st'.ops = st.ops ++ new ∧ st'.compat = st.compat
    ∧ opsEquiv ro new (op :: rest.take r.extra) = true ∧ Inv ro r.st st'

theorem parseLoop_prims (allow : Bool) (st : PState R) (buf qs : List (Prim R)) (rest : List (Tok R)) :
    parseLoop ro allow ⟨st, buf⟩ (qs.map .prim ++ rest) = parseLoop ro allow ⟨st, buf ++ qs⟩ rest := by
  induction qs generalizing buf with
  | nil => simp
  | cons q qs ih => simp [parseLoop, step, ih]

theorem primTok_writable {cfg : Cfg} {p : Prim R} (h : primWritable ro cfg p = true) :
    ∃ q, primTok ro cfg p = .prim q ∧ serPrim? ro cfg p = some q := by
  unfold primWritable at h
  unfold primTok
  cases hq : serPrim? ro cfg p with
  | none => simp [hq] at h
  | some q => exact ⟨q, rfl, rfl⟩

theorem primToks_writable {cfg : Cfg} {ps : List (Prim R)} (h : ps.all (primWritable ro cfg) = true) :
    ∃ qs, ps.map (primTok ro cfg) = qs.map .prim ∧ serPrims? ro cfg ps = some qs := by
  induction ps with
  | nil => exact ⟨[], rfl, rfl⟩
  | cons p ps ih =>
    have h' : primWritable ro cfg p = true ∧ ps.all (primWritable ro cfg) = true := by simpa using h
    obtain ⟨q, h1, h2⟩ := primTok_writable ro h'.1
    obtain ⟨qs, h3, h4⟩ := ih h'.2
    exact ⟨q :: qs, by simp [h1, h3], by simp [serPrims?, h2, h4]⟩

theorem intentOfName_intentName (i : Intent) : intentOfName (intentName i) = some i := by
  cases i <;> decide

theorem finOfInt_val {k : Nat} (j : Fin k) : finOfInt k ((j.val : Nat) : Int) = some j := by
  unfold finOfInt
  have h : (0 : Int) ≤ ((j.val : Nat) : Int) ∧ (((j.val : Nat) : Int)).toNat < k := ⟨Int.natCast_nonneg _, by simp⟩
  rw [dif_pos h]
  simp

theorem allSome_asNumber_numQ' (xs : List R) :
    allSome (xs.map (asNumber ro ∘ numQ ro)) = some (xs.map (rb ro)) := by
  rw [← allSome_asNumber_numQ, List.map_map]

theorem allSome_tdaOfPrim' (xs : List (TDA R)) :
    allSome (xs.map (tdaOfPrim ro ∘ tdaQ ro)) = some (xs.map (tdaRb ro)) := by
  rw [← allSome_tdaOfPrim, List.map_map]

theorem inv_same {s : SState R} {st st' : PState R} (h : Inv ro s st) (h1 : st'.last = st.last)
    (h2 : st'.start = st.start) : Inv ro s st' := by
  unfold Inv at *
  rw [h1, h2]; exact h


theorem ptEquiv_rb (laws : RealLaws ro) {p : Pt R} (hx : finiteR ro p.x = true) (hy : finiteR ro p.y = true) :
    ptEquiv ro ⟨rb ro p.x, rb ro p.y⟩ p = true := by
  simp [ptEquiv, rb_beq ro laws hx, rb_beq ro laws hy]

/-- evaluate the reader on the tokens written and compare; leaves the invariant (`h5`) to the caller -/
local macro "sim_eval" laws:ident : tactic => `(tactic|
  (refine ⟨?st', ?new, ?h1, ?h2, ?h3, ?h4, ?h5⟩
   case h1 =>
     (intro more
      simp [*, ptToks, matrixToks, colorToks, numTok_fin, numArrayTok_fin, tdaArrayTok_fin, parseLoop, step, one1, name1,
        popNum, popNums, popName, popStr, popInt, asNumber_numQ, allSome_asNumber_numQ, allSome_tdaOfPrim, allSome_asNumber_numQ', allSome_tdaOfPrim', okPush,
        addBDC, addC, addCm, addD, addDP, addJLower, addJUpper, addKUpper, addKLower, addL, addM, addRe, addRGUpper,
        addRgLower, addRi, addTdLower, addTDUpper, addTf, addTjLower, addTJUpper, addTm, addTr, addV, addY, addQuote,
        addDQuote, intentOfName_intentName, finOfInt_val]
      try rfl)
   case h2 => rfl
   case h3 => rfl
   case h4 =>
     simp [*, opsEquiv, opEquiv, ptEquiv, matrixEquiv, colorEquiv, propsEquiv, rb_beq _ $laws, realsEquiv_rb _ $laws,
       tdasEquiv_rb _ $laws]))

local macro "fin_split" hf:ident : tactic => `(tactic|
  simp only [finiteOp, finitePt, finiteMatrix, finiteProps, finiteColor, Bool.and_eq_true] at $hf:ident)

theorem serOne_sim (laws : RealLaws ro) (cfg : Cfg) (allow : Bool) (s : SState R) (st : PState R)
    (op : Op R) (rest : List (Op R)) (r : SerStep R)
    (hf : finiteOp ro op = true) (hfr : ∀ o ∈ rest.take r.extra, finiteOp ro o = true)
    (ha : acceptedOp ro cfg op = true)
    (hinv : Inv ro s st) (h : serOne ro cfg s op rest = some r) :
    SimGoal ro allow st op rest r := by
  cases op
  case inlineImage img => simp [serOne] at h
  case moveTo p =>
    simp [serOne] at h; subst h; fin_split hf
    sim_eval laws
    exact ⟨fun q hq => by simp at hq; subst hq; exact ptEquiv_rb ro laws hf.1 hf.2,
           fun q hq => by simp at hq; subst hq; exact ptEquiv_rb ro laws hf.1 hf.2⟩
  case lineTo p =>
    simp [serOne] at h; subst h; fin_split hf
    sim_eval laws
    exact ⟨fun q hq => by simp at hq; subst hq; exact ptEquiv_rb ro laws hf.1 hf.2, fun q hq => hinv.2 q hq⟩
  case rect x y w hh =>
    simp [serOne] at h; subst h; fin_split hf
    sim_eval laws
    exact ⟨fun q hq => by simp at hq; subst hq; exact ptEquiv_rb ro laws (p := ⟨x, y⟩) hf.1.1.1 hf.1.1.2,
           fun q hq => by simp at hq; subst hq; exact ptEquiv_rb ro laws (p := ⟨x, y⟩) hf.1.1.1 hf.1.1.2⟩
  case dash pat ph =>
    simp [serOne] at h; subst h; fin_split hf
    sim_eval laws
    exact hinv
  case textDrawAdjusted arr =>
    simp [serOne] at h; subst h; fin_split hf
    sim_eval laws
    exact hinv
  case lineJoin j => simp [serOne] at h; subst h; sim_eval laws; exact hinv
  case lineCap j => simp [serOne] at h; subst h; sim_eval laws; exact hinv
  case textRenderMode j => simp [serOne] at h; subst h; sim_eval laws; exact hinv
  case fillAndStroke w => cases w <;> (simp [serOne] at h; subst h; sim_eval laws; exact hinv)
  case fill w => cases w <;> (simp [serOne] at h; subst h; sim_eval laws; exact hinv)
  case clip w => cases w <;> (simp [serOne] at h; subst h; sim_eval laws; exact hinv)
  case close =>
    have hinv' : ∀ st' : PState R, st'.last = st.start → st'.start = st.start → Inv ro ⟨s.start, s.start⟩ st' := by
      intro st' h1 h2
      exact ⟨fun q hq => by rw [h1]; exact hinv.2 q hq, fun q hq => by rw [h2]; exact hinv.2 q hq⟩
    simp only [serOne] at h
    split at h <;> (simp at h; subst h; sim_eval laws; exact hinv' _ rfl rfl)
  case textNewline =>
    simp only [serOne] at h
    split at h <;> (simp at h; subst h; sim_eval laws; exact hinv)
  case wordSpacing ws =>
    simp only [serOne] at h
    split at h
    · rename_i cs text tl
      simp at h; subst h; fin_split hf
      have hcs := hfr (.charSpacing cs) (by simp)
      fin_split hcs
      sim_eval laws; exact hinv
    · simp at h; subst h; fin_split hf; sim_eval laws; exact hinv
  case leading l =>
    simp only [serOne] at h
    split at h
    · rename_i t tl
      have ht := hfr (.moveTextPosition t)
      split at h
      · rename_i hc
        simp at h; subst h; fin_split hf
        have ht' := ht (by simp)
        fin_split ht'
        have hl : ro.beq (ro.neg (rb ro t.y)) l = true :=
          laws.beq_trans _ _ _ (laws.neg_congr _ _ (rb_beq ro laws ht'.2)) (laws.beq_symm _ _ hc)
        sim_eval laws; exact hinv
      · simp at h; subst h; fin_split hf; sim_eval laws; exact hinv
    · simp at h; subst h; fin_split hf; sim_eval laws; exact hinv
  case curveTo c1 c2 p =>
    simp only [serOne] at h
    fin_split hf
    obtain ⟨⟨⟨h1x, h1y⟩, ⟨h2x, h2y⟩⟩, ⟨h3x, h3y⟩⟩ := hf
    have hp := ptEquiv_rb ro laws h3x h3y
    have hinv' : ∀ st' : PState R, st'.last = ⟨rb ro p.x, rb ro p.y⟩ → st'.start = st.start →
        Inv ro ⟨some p, s.start⟩ st' := by
      intro st' e1 e2
      exact ⟨fun q hq => by simp at hq; subst hq; rw [e1]; exact hp, fun q hq => by rw [e2]; exact hinv.2 q hq⟩
    split at h
    · rename_i hc
      simp at h; subst h
      have hlast : ptEquiv ro st.last c1 = true := by
        unfold isCurrent at hc
        cases hcur : s.cur with
        | none => simp [hcur] at hc
        | some q =>
          simp only [hcur] at hc
          exact ptEquiv_trans ro laws (hinv.1 q hcur) (ptEquiv_symm ro laws hc)
      have hl := hlast
      simp only [ptEquiv, Bool.and_eq_true] at hl
      sim_eval laws; exact hinv' _ rfl rfl
    · split at h
      · rename_i hc
        simp at h; subst h
        have h2 : ptEquiv ro ⟨rb ro p.x, rb ro p.y⟩ c2 = true :=
          ptEquiv_trans ro laws hp (ptEquiv_symm ro laws hc)
        simp only [ptEquiv, Bool.and_eq_true] at h2
        sim_eval laws; exact hinv' _ rfl rfl
      · simp at h; subst h; sim_eval laws; exact hinv' _ rfl rfl
  case beginMarkedContent tag props =>
    cases props with
    | none => simp [serOne] at h; subst h; sim_eval laws; exact hinv
    | some p =>
      simp [serOne] at h; subst h
      obtain ⟨q, hq1, hq2⟩ := primTok_writable ro (p := p) (cfg := cfg) (by simpa [acceptedOp] using ha)
      have he := serPrim?_equiv ro laws cfg p q (by simpa [finiteOp, finiteProps] using hf) hq2
      sim_eval laws; exact hinv
  case markedContentPoint tag props =>
    cases props with
    | none => simp [serOne] at h; subst h; sim_eval laws; exact hinv
    | some p =>
      simp [serOne] at h; subst h
      obtain ⟨q, hq1, hq2⟩ := primTok_writable ro (p := p) (cfg := cfg) (by simpa [acceptedOp] using ha)
      have he := serPrim?_equiv ro laws cfg p q (by simpa [finiteOp, finiteProps] using hf) hq2
      sim_eval laws; exact hinv
  case strokeColor c =>
    cases c with
    | other args =>
      simp [serOne] at h; subst h
      obtain ⟨qs, hq1, hq2⟩ := primToks_writable ro (ps := args) (cfg := cfg) (by simpa [acceptedOp] using ha)
      have he := serPrims?_equiv ro laws cfg args qs (by simpa [finiteOp, finiteColor] using hf) hq2
      refine ⟨st.push [.strokeColor (.other qs)], [.strokeColor (.other qs)], ?_, rfl, rfl, ?_, hinv⟩
      · intro more
        simp only [colorToks, hq1, List.append_assoc, if_true]
        rw [parseLoop_prims]
        simp [parseLoop, step, okPush]
      · simp [opsEquiv, opEquiv, colorEquiv, he]
    | _ => simp [serOne] at h; subst h; fin_split hf; sim_eval laws; exact hinv
  case fillColor c =>
    cases c with
    | other args =>
      simp [serOne] at h; subst h
      obtain ⟨qs, hq1, hq2⟩ := primToks_writable ro (ps := args) (cfg := cfg) (by simpa [acceptedOp] using ha)
      have he := serPrims?_equiv ro laws cfg args qs (by simpa [finiteOp, finiteColor] using hf) hq2
      refine ⟨st.push [.fillColor (.other qs)], [.fillColor (.other qs)], ?_, rfl, rfl, ?_, hinv⟩
      · intro more
        simp only [colorToks, hq1, List.append_assoc]
        rw [parseLoop_prims]
        simp [parseLoop, step, okPush]
      · simp [opsEquiv, opEquiv, colorEquiv, he]
    | _ => simp [serOne] at h; subst h; fin_split hf; sim_eval laws; exact hinv
  all_goals (simp [serOne] at h; subst h; fin_split hf; sim_eval laws; exact hinv)


theorem serOne_some_of_accepted (cfg : Cfg) (s : SState R) (op : Op R) (rest : List (Op R))
    (ha : acceptedOp ro cfg op = true) : ∃ r, serOne ro cfg s op rest = some r := by
  cases op
  case inlineImage img => simp [acceptedOp] at ha
  case beginMarkedContent tag p => cases p <;> simp [serOne]
  case markedContentPoint tag p => cases p <;> simp [serOne]
  case fillAndStroke w => cases w <;> simp [serOne]
  case fill w => cases w <;> simp [serOne]
  case clip w => cases w <;> simp [serOne]
  case close => simp only [serOne]; split <;> simp
  case textNewline => simp only [serOne]; split <;> simp
  case wordSpacing ws => simp only [serOne]; split <;> simp
  case leading l => simp only [serOne]; split <;> (try split) <;> simp
  case curveTo c1 c2 p => simp only [serOne]; split <;> (try split) <;> simp
  all_goals simp [serOne]

/-- the whole serializer, read back: by induction on the fuel (= number of operations still to write) -/
theorem serLoop_sim (laws : RealLaws ro) (cfg : Cfg) (allow : Bool) :
    ∀ (fuel : Nat) (ops : List (Op R)) (s : SState R) (st : PState R),
      ops.length ≤ fuel → (∀ o ∈ ops, finiteOp ro o = true) → (∀ o ∈ ops, acceptedOp ro cfg o = true) →
      Inv ro s st →
      ∃ toks st' new, serLoop ro cfg fuel s ops = .ok toks
        ∧ parseLoop ro allow ⟨st, []⟩ toks = .ok ⟨st', []⟩
        ∧ st'.ops = st.ops ++ new ∧ st'.compat = st.compat ∧ opsEquiv ro new ops = true := by
  intro fuel
  induction fuel with
  | zero =>
    intro ops s st hl _ _ _
    have : ops = [] := List.eq_nil_of_length_eq_zero (Nat.le_zero.mp hl)
    subst this
    exact ⟨[], st, [], rfl, rfl, by simp, rfl, rfl⟩
  | succ fuel ih =>
    intro ops s st hl hfin hacc hinv
    cases ops with
    | nil => exact ⟨[], st, [], rfl, rfl, by simp, rfl, rfl⟩
    | cons op rest =>
      obtain ⟨r, hr⟩ := serOne_some_of_accepted ro cfg s op rest (hacc op (by simp))
      have hdrop : ∀ o ∈ rest.drop r.extra, o ∈ op :: rest := fun o ho => List.mem_cons_of_mem _ (List.mem_of_mem_drop ho)
      have htake : ∀ o ∈ rest.take r.extra, o ∈ op :: rest := fun o ho => List.mem_cons_of_mem _ (List.mem_of_mem_take ho)
      have hlen : (rest.drop r.extra).length ≤ fuel := by
        simp only [List.length_drop, List.length_cons] at *
        omega
      obtain ⟨st1, new1, hp1, hops1, hcompat1, heq1, hinv1⟩ := serOne_sim ro laws cfg allow s st op rest r
        (hfin op (by simp)) (fun o ho => hfin o (htake o ho)) (hacc op (by simp)) hinv hr
      obtain ⟨toks2, st2, new2, hser2, hparse2, hops2, hcompat2, heq2⟩ :=
        ih (rest.drop r.extra) r.st st1 hlen (fun o ho => hfin o (hdrop o ho)) (fun o ho => hacc o (hdrop o ho)) hinv1
      refine ⟨r.toks ++ toks2, st2, new1 ++ new2, ?_, ?_, ?_, ?_, ?_⟩
      · simp [serLoop, hr, hser2]
      · rw [hp1 toks2, hparse2]
      · rw [hops2, hops1, List.append_assoc]
      · rw [hcompat2, hcompat1]
      · have := opsEquiv_append ro heq1 heq2
        simpa [List.take_append_drop] using this

end
end Content
