import PdfModel.Lemmas.ConcurrentSeq

/-! Part 3 of the invariants of `Model/Concurrent.lean`: who owns an in-process marker, what a waiting
thread waits for, and when a thread is enabled (for `deadlock_free_of_acyclic`). -/

namespace Conc
open Cache
variable {V E : Type}

theorem advP_slots (d : Doc V E) (cfg : Cfg) : ∀ (p : Prog V E) (sh : Shared V E), (advP d cfg sh p).2.slots = sh.slots := by
  intro p
  induction p with
  | ret x => intro sh; rfl
  | get T r k _ => intro sh; rfl
  | data r fs k ih =>
    intro sh
    simp only [advP]
    rw [ih]
    unfold dataS
    split
    · split <;> rfl
    · rfl

theorem finish_store (t : Thread V E) (res : Res V E) :
    ∀ f ∈ t.stack, f.store = true → f ∈ (finish t res).stack := by
  intro f hf hs
  unfold finish
  cases hst : t.stack with
  | nil => rw [hst] at hf; simp at hf
  | cons g rest =>
    rw [hst] at hf
    simp only
    split
    · simpa [hst] using hf
    · rename_i hg
      simp only [List.mem_cons] at hf
      rcases hf with rfl | hf
      · exact absurd hs hg
      · exact hf

theorem finish_notWaiting (t : Thread V E) (res : Res V E) (T r : Nat) (k : Res V E → Prog V E) :
    (finish t res).ctl ≠ .waiting T r k := by
  unfold finish
  cases t.stack with
  | nil => simp
  | cons g rest => simp only; split <;> simp

theorem runTo_store (d : Doc V E) (cfg : Cfg) (sh : Shared V E) (t : Thread V E) (p : Prog V E) :
    (runTo d cfg sh t p).1.slots = sh.slots ∧
    (∀ f ∈ t.stack, f.store = true → f ∈ (runTo d cfg sh t p).2.stack) ∧
    (∀ T r k, (runTo d cfg sh t p).2.ctl ≠ .waiting T r k) := by
  refine ⟨advP_slots d cfg p sh, ?_, ?_⟩
  · intro f hf hs
    unfold runTo
    simp only
    cases (advP d cfg sh p).1 with
    | enter T r k => exact hf
    | fin res => exact finish_store t res f hf hs
  · intro T r k
    unfold runTo
    simp only
    cases (advP d cfg sh p).1 with
    | enter T' r' k' => simp only [applyAdv]; split <;> simp
    | fin res => exact finish_notWaiting t res T r k

theorem startLoad_store (d : Doc V E) (cfg : Cfg) (sh : Shared V E) (t : Thread V E) (r : Nat) (p : Prog V E) :
    (startLoad d cfg sh t r p).1.slots = sh.slots ∧
    (∀ f ∈ t.stack, f.store = true → f ∈ (startLoad d cfg sh t r p).2.stack) ∧
    (∀ T r' k, (startLoad d cfg sh t r p).2.ctl ≠ .waiting T r' k) := by
  unfold startLoad
  split
  · exact ⟨rfl, fun f hf _ => hf, by intro T r' k; simp⟩
  · exact runTo_store d cfg sh t p

theorem runTo_store' {d : Doc V E} {cfg : Cfg} {sh : Shared V E} {t : Thread V E} {p : Prog V E}
    {x : Shared V E × Thread V E} (h : runTo d cfg sh t p = x) :
    x.1.slots = sh.slots ∧ (∀ f ∈ t.stack, f.store = true → f ∈ x.2.stack) ∧ (∀ T r k, x.2.ctl ≠ .waiting T r k) :=
  h ▸ runTo_store d cfg sh t p

theorem afterLookup_store (d : Doc V E) (cfg : Cfg) (sh : Shared V E) (t : Thread V E) (T r : Nat)
    (k : Res V E → Prog V E) (T' : Nat) (res : Res V E) :
    (afterLookup d cfg sh t T r k T' res).1.slots = sh.slots ∧
    (∀ f ∈ t.stack, f.store = true → f ∈ (afterLookup d cfg sh t T r k T' res).2.stack) ∧
    (∀ T1 r1 k1, (afterLookup d cfg sh t T r k T' res).2.ctl ≠ .waiting T1 r1 k1) := by
  have fb := startLoad_store d cfg sh { t with stack := ⟨T, r, false, k⟩ :: t.stack } r (d.body T r)
  have fb' : (startLoad d cfg sh { t with stack := ⟨T, r, false, k⟩ :: t.stack } r (d.body T r)).1.slots = sh.slots ∧
      (∀ f ∈ t.stack, f.store = true → f ∈ (startLoad d cfg sh { t with stack := ⟨T, r, false, k⟩ :: t.stack } r (d.body T r)).2.stack) ∧
      (∀ T1 r1 k1, (startLoad d cfg sh { t with stack := ⟨T, r, false, k⟩ :: t.stack } r (d.body T r)).2.ctl ≠ .waiting T1 r1 k1) :=
    ⟨fb.1, fun f hf hs => fb.2.1 f (List.mem_cons_of_mem _ hf) hs, fb.2.2⟩
  unfold afterLookup
  cases res with
  | ok v =>
    simp only
    split
    · exact ⟨rfl, fun f hf _ => hf, by intro T1 r1 k1; simp⟩
    · exact fb'
  | err e => exact fb'
  | oof => exact fb'

/-- what one transition does to the slots and to the frames that own a slot -/
theorem stepT_shape {d : Doc V E} {cfg : Cfg} {i : Nat} {sh sh' : Shared V E} {t t' : Thread V E}
    (hs : stepT d cfg i sh t = some (sh', t')) :
    (∀ r, sh.slots.lookup r ≠ none → sh'.slots.lookup r ≠ none) ∧
    (∀ r j, sh'.slots.lookup r = some (.inProcess j) →
      sh.slots.lookup r = some (.inProcess j) ∨ (j = i ∧ ∃ f ∈ t'.stack, f.r = r ∧ f.store = true)) ∧
    (∀ f ∈ t.stack, f.store = true → f ∈ t'.stack ∨ ∃ T res, sh'.slots.lookup f.r = some (.computed T res)) ∧
    (∀ T r k, t'.ctl = .waiting T r k → sh'.slots.lookup r ≠ none) := by
  obtain ⟨ctl, stack, chain, todo, out⟩ := t
  -- the common situation: slots unchanged, owning frames kept, not waiting afterwards
  have same : ∀ (x : Shared V E × Thread V E), x = (sh', t') → x.1.slots = sh.slots →
      (∀ f ∈ stack, f.store = true → f ∈ x.2.stack) → (∀ T r k, x.2.ctl ≠ .waiting T r k) →
      (∀ r, sh.slots.lookup r ≠ none → sh'.slots.lookup r ≠ none) ∧
      (∀ r j, sh'.slots.lookup r = some (.inProcess j) →
        sh.slots.lookup r = some (.inProcess j) ∨ (j = i ∧ ∃ f ∈ t'.stack, f.r = r ∧ f.store = true)) ∧
      (∀ f ∈ stack, f.store = true → f ∈ t'.stack ∨ ∃ T res, sh'.slots.lookup f.r = some (.computed T res)) ∧
      (∀ T r k, t'.ctl = .waiting T r k → sh'.slots.lookup r ≠ none) := by
    intro x hx h1 h2 h3
    subst hx
    simp only at h1 h2 h3
    refine ⟨fun r h => by rw [h1]; exact h, fun r j h => Or.inl (by rw [← h1]; exact h), fun f hf hst => Or.inl (h2 f hf hst), ?_⟩
    intro T r k h; exact absurd h (h3 T r k)
  cases ctl with
  | done => simp [stepT] at hs
  | panicked => simp [stepT] at hs
  | start =>
    cases todo with
    | nil =>
      simp only [stepT, Option.some.injEq] at hs
      exact same _ hs rfl (fun f hf _ => hf) (by intro T r k; simp)
    | cons p ps =>
      simp only [stepT, Option.some.injEq] at hs
      have := runTo_store d cfg sh ⟨.start, stack, chain, ps, out⟩ p
      exact same _ hs this.1 this.2.1 this.2.2
  | enter T r k =>
    simp only [stepT] at hs
    split at hs
    · split at hs
      · simp only [Option.some.injEq] at hs
        exact same _ hs rfl (fun f hf _ => hf) (by intro T r k; simp)
      · split at hs
        · simp only [Option.some.injEq] at hs
          have := runTo_store d cfg sh ⟨.enter T r k, stack, chain, todo, out⟩ (k (.err d.recErr))
          exact same _ hs this.1 this.2.1 this.2.2
        · split at hs
          · simp only [Option.some.injEq] at hs
            have := runTo_store d cfg sh ⟨.enter T r k, stack, chain, todo, out⟩ (k (.err d.recErr))
            exact same _ hs this.1 this.2.1 this.2.2
          · simp only [Option.some.injEq] at hs
            exact same _ hs rfl (fun f hf _ => hf) (by intro T r k; simp)
    · split at hs
      · simp only [Option.some.injEq] at hs
        have := runTo_store d cfg sh ⟨.enter T r k, stack, chain, todo, out⟩ (k (.err d.recErr))
        exact same _ hs this.1 this.2.1 this.2.2
      · split at hs
        · simp only [Option.some.injEq] at hs
          have := runTo_store d cfg sh ⟨.enter T r k, stack, chain, todo, out⟩ (k (.err d.recErr))
          exact same _ hs this.1 this.2.1 this.2.2
        · simp only [Option.some.injEq] at hs
          exact same _ hs rfl (fun f hf _ => hf) (by intro T r k; simp)
  | pushed T r k =>
    simp only [stepT] at hs
    split at hs
    · split at hs
      · -- claim
        rename_i hl
        simp only [Option.some.injEq] at hs
        have h := startLoad_store d cfg { sh with slots := (r, .inProcess i) :: sh.slots }
          ⟨.pushed T r k, ⟨T, r, true, k⟩ :: stack, chain, todo, out⟩ r (d.compute T r)
        rw [hs] at h
        simp only at h
        obtain ⟨h1, h2, h3⟩ := h
        refine ⟨?_, ?_, ?_, ?_⟩
        · intro r' hr'
          rw [h1]
          simp only [List.lookup_cons]
          split
          · simp
          · exact hr'
        · intro r' j hj
          rw [h1] at hj
          simp only [List.lookup_cons] at hj
          split at hj
          · rename_i e
            have e' : r' = r := by simpa using e
            simp only [Option.some.injEq, Slot.inProcess.injEq] at hj
            exact Or.inr ⟨hj.symm, ⟨T, r, true, k⟩, h2 _ (by simp) rfl, e'.symm, rfl⟩
          · exact Or.inl hj
        · intro f hf hst
          exact Or.inl (h2 f (List.mem_cons_of_mem _ hf) hst)
        · intro T1 r1 k1 hw; exact absurd hw (h3 T1 r1 k1)
      · -- the slot is in process: wait
        rename_i o hl
        simp only [Option.some.injEq] at hs
        have e1 : sh' = sh := (congrArg Prod.fst hs).symm
        have e2 : t' = ⟨.waiting T r k, stack, chain, todo, out⟩ := (congrArg Prod.snd hs).symm
        subst e1 e2
        refine ⟨fun r h => h, fun r j h => Or.inl h, fun f hf _ => Or.inl hf, ?_⟩
        intro T1 r1 k1 hw
        simp only [Ctl.waiting.injEq] at hw
        obtain ⟨_, rfl, _⟩ := hw
        rw [hl]; simp
      · rename_i _ T' res' hl
        simp only [Option.some.injEq] at hs
        have := afterLookup_store d cfg sh ⟨.pushed T r k, stack, chain, todo, out⟩ T r k T' res'
        exact same _ hs this.1 this.2.1 this.2.2
    · simp only [Option.some.injEq] at hs
      have h := startLoad_store d cfg sh ⟨.pushed T r k, ⟨T, r, false, k⟩ :: stack, chain, todo, out⟩ r (d.compute T r)
      exact same _ hs h.1 (fun f hf hst => h.2.1 f (List.mem_cons_of_mem _ hf) hst) h.2.2
  | waiting T r k =>
    simp only [stepT] at hs
    split at hs
    · rename_i _ T' res' hl
      simp only [Option.some.injEq] at hs
      have := afterLookup_store d cfg sh ⟨.waiting T r k, stack, chain, todo, out⟩ T r k T' res'
      exact same _ hs this.1 this.2.1 this.2.2
    · simp at hs
  | logging T r k =>
    simp only [stepT, Option.some.injEq] at hs
    exact same _ hs rfl (fun f hf _ => hf) (by intro T r k; simp)
  | loading r p =>
    simp only [stepT, Option.some.injEq] at hs
    have := runTo_store d cfg sh ⟨.loading r p, stack, chain, todo, out⟩ p
    exact same _ hs this.1 this.2.1 this.2.2
  | storing res =>
    cases stack with
    | nil => simp [stepT] at hs
    | cons g rest =>
      simp only [stepT, Option.some.injEq, Prod.mk.injEq] at hs
      obtain ⟨e1, e2⟩ := hs
      subst e1 e2
      refine ⟨?_, ?_, ?_, ?_⟩
      · intro r' hr'
        simp only [List.lookup_cons]
        split
        · simp
        · exact hr'
      · intro r' j hj
        simp only [List.lookup_cons] at hj
        split at hj
        · simp at hj
        · exact Or.inl hj
      · intro f hf hst
        simp only [List.mem_cons] at hf
        rcases hf with rfl | hf
        · exact Or.inr ⟨f.T, res, by simp [List.lookup_cons]⟩
        · exact Or.inl hf
      · intro T1 r1 k1 hw; simp at hw
  | popping T r k res =>
    simp only [stepT] at hs
    split at hs
    · split at hs
      · simp only [Option.some.injEq] at hs
        exact same _ hs rfl (fun f hf _ => hf) (by intro T r k; simp)
      · split at hs
        · split at hs
          · rename_i _ c cs hchain hc
            simp only [Option.some.injEq] at hs
            have := runTo_store d cfg { sh with chain := cs } ⟨.popping T r k res, stack, chain, todo, out⟩ (k res)
            exact same _ hs this.1 this.2.1 this.2.2
          · simp only [Option.some.injEq] at hs
            exact same _ hs rfl (fun f hf _ => hf) (by intro T r k; simp)
        · simp only [Option.some.injEq] at hs
          exact same _ hs rfl (fun f hf _ => hf) (by intro T r k; simp)
    · split at hs
      · split at hs
        · simp only [Option.some.injEq] at hs
          have := runTo_store' hs
          exact same (sh', t') rfl this.1 this.2.1 this.2.2
        · simp only [Option.some.injEq] at hs
          exact same _ hs rfl (fun f hf _ => hf) (by intro T r k; simp)
      · simp only [Option.some.injEq] at hs
        exact same _ hs rfl (fun f hf _ => hf) (by intro T r k; simp)

/-- every in-process marker belongs to a frame of its owner that will store into it -/
def OwnInv (s : State V E) : Prop :=
  ∀ (r j : Nat), s.sh.slots.lookup r = some (.inProcess j) →
    ∃ t, s.threads[j]? = some t ∧ ∃ f ∈ t.stack, f.r = r ∧ f.store = true

/-- a waiting thread waits for a slot that exists -/
def WaitInv (s : State V E) : Prop :=
  ∀ (i : Nat) (t : Thread V E) (T r : Nat) (k : Res V E → Prog V E),
    s.threads[i]? = some t → t.ctl = .waiting T r k → s.sh.slots.lookup r ≠ none

theorem step_ownWait {d : Doc V E} {cfg : Cfg} {s s' : State V E} {i : Nat}
    (h : OwnInv s ∧ WaitInv s) (hs : step d cfg s i = some s') : OwnInv s' ∧ WaitInv s' := by
  obtain ⟨ho, hw⟩ := h
  unfold step at hs
  cases hti : s.threads[i]? with
  | none => simp [hti] at hs
  | some t =>
    simp only [hti] at hs
    cases hst : stepT d cfg i s.sh t with
    | none => simp [hst] at hs
    | some p =>
      obtain ⟨sh', t'⟩ := p
      simp only [hst, Option.some.injEq] at hs
      subst hs
      have hlt : i < s.threads.length := (List.getElem?_eq_some_iff.mp hti).1
      obtain ⟨hmono, hnew, hkeep, hwait⟩ := stepT_shape hst
      constructor
      · intro r j hj
        simp only at hj
        rcases hnew r j hj with hold | ⟨rfl, f, hf, hfr, hfs⟩
        · obtain ⟨u, hu, f, hf, hfr, hfs⟩ := ho r j hold
          by_cases e : j = i
          · subst e
            rw [hti] at hu
            simp only [Option.some.injEq] at hu
            subst hu
            refine ⟨t', by simp [List.getElem?_set, hlt], ?_⟩
            rcases hkeep f hf hfs with hin | ⟨T, res, hc⟩
            · exact ⟨f, hin, hfr, hfs⟩
            · rw [hfr, hj] at hc; simp at hc
          · refine ⟨u, ?_, f, hf, hfr, hfs⟩
            simp only [List.getElem?_set]
            split
            · rename_i e'; exact absurd e'.symm e
            · exact hu
        · exact ⟨t', by simp [List.getElem?_set, hlt], f, hf, hfr, hfs⟩
      · intro j u T r k hu hc
        simp only [List.getElem?_set] at hu
        split at hu
        · have hu' : t' = u := by simpa [hlt] using hu
          subst hu'
          exact hwait T r k hc
        · exact hmono r (hw j u T r k hu hc)

theorem init_ownWait (stm : List (Nat × Res V E)) (css : List (List (Prog V E))) :
    OwnInv (State.init ([] : List (Nat × Slot V E)) stm css) ∧ WaitInv (State.init ([] : List (Nat × Slot V E)) stm css) := by
  constructor
  · intro r j h; simp [State.init] at h
  · intro i t T r k ht hc
    simp only [State.init, List.getElem?_map, Option.map_eq_some_iff] at ht
    obtain ⟨cs, _, rfl⟩ := ht
    simp [Thread.init] at hc

theorem reachable_ownWait {d : Doc V E} {cfg : Cfg} {s0 s : State V E} (h0 : OwnInv s0 ∧ WaitInv s0)
    (hr : Reachable d cfg s0 s) : OwnInv s ∧ WaitInv s := by
  induction hr with
  | init => exact h0
  | step i _ hs ih => exact step_ownWait ih hs

/-- a thread that is not finished and is not waiting for an unfinished slot can take a step -/
theorem stepT_enabled (d : Doc V E) (cfg : Cfg) (i : Nat) (sh : Shared V E) (t : Thread V E)
    (hfin : t.ctl.isFinal = false)
    (hstore : ∀ res, t.ctl = .storing res → t.stack ≠ [])
    (hwait : ∀ T r k, t.ctl = .waiting T r k → ∃ T' res, sh.slots.lookup r = some (.computed T' res)) :
    (stepT d cfg i sh t).isSome = true := by
  obtain ⟨ctl, stack, chain, todo, out⟩ := t
  cases ctl with
  | done => simp [Ctl.isFinal] at hfin
  | panicked => simp [Ctl.isFinal] at hfin
  | start => cases todo <;> simp [stepT]
  | enter T r k =>
    simp only [stepT]
    split
    · split
      · rfl
      · split
        · rfl
        · split <;> rfl
    · split
      · rfl
      · split <;> rfl
  | pushed T r k =>
    simp only [stepT]
    split
    · split <;> rfl
    · rfl
  | waiting T r k =>
    obtain ⟨T', res, h⟩ := hwait T r k rfl
    simp [stepT, h]
  | logging T r k => simp [stepT]
  | loading r p => simp [stepT]
  | storing res =>
    cases stack with
    | nil => exact absurd rfl (hstore res rfl)
    | cons f rest => simp [stepT]
  | popping T r k res =>
    simp only [stepT]
    split
    · split
      · rfl
      · split
        · split <;> rfl
        · rfl
    · split
      · split <;> rfl
      · rfl

end Conc
