import PdfModel.Spec.CMapSpellCheck
import PdfModel.Lemmas.CMapLex

/-! Soundness of the spelling checker: `spellsCheck es text = true → CMapSpells es text`. -/

set_option linter.unusedSimpArgs false

namespace CMap

theorem afterComment_sound : ∀ (t r : Bytes), afterComment t = some r →
    ∃ body eol, t = body ++ eol :: r ∧ body.all (fun c => !isEolChar c) = true ∧ isEolChar eol = true
  | [], _, h => by simp [afterComment] at h
  | c :: t, r, h => by
    simp only [afterComment] at h
    split at h
    · rename_i hc
      simp only [Option.some.injEq] at h
      subst h
      exact ⟨[], c, rfl, rfl, hc⟩
    · rename_i hc
      obtain ⟨body, eol, e, hb, he⟩ := afterComment_sound t r h
      refine ⟨c :: body, eol, by simp [e], ?_, he⟩
      simp only [List.all_cons, hb, Bool.and_true]
      simpa using hc

theorem skip_of_comment {r r' : Bytes} (h : afterComment r = some r') : ∃ p, Skip p ∧ 37 :: r = p ++ r' := by
  obtain ⟨body, eol, e, hb, he⟩ := afterComment_sound r r' h
  exact ⟨37 :: (body ++ [eol]), Skip.comment body eol hb he, by simp [e]⟩

theorem dropSeps_sound : ∀ (f : Nat) (t : Bytes), ∃ sp, Seps sp ∧ t = sp ++ dropSeps f t
  | 0, t => ⟨[], Seps.nil, rfl⟩
  | f + 1, [] => ⟨[], Seps.nil, rfl⟩
  | f + 1, b :: r => by
    simp only [dropSeps]
    split
    · rename_i hb
      obtain ⟨sp, h1, h2⟩ := dropSeps_sound f r
      exact ⟨[b] ++ sp, Seps.cons (Skip.white b hb) h1, by rw [List.append_assoc, ← h2]; rfl⟩
    · split
      · rename_i h37
        have e37 : b = 37 := by simpa using h37
        subst e37
        cases hc : afterComment r with
        | none => exact ⟨[], Seps.nil, rfl⟩
        | some r' =>
          obtain ⟨p, hp, e⟩ := skip_of_comment hc
          obtain ⟨sp, h1, h2⟩ := dropSeps_sound f r'
          refine ⟨p ++ sp, Seps.cons hp h1, ?_⟩
          simp only []
          rw [e, List.append_assoc, ← h2]
      · exact ⟨[], Seps.nil, rfl⟩

theorem hexValue_sound_all : ∀ c : UInt8,
    (match hexValue c with
     | some n => decide (n < 16) && (c == hexDigit n || c == hexDigitLower n)
     | none => true) = true := UInt8.forall_of_fin (by decide +kernel)

theorem hexValue_sound {c : UInt8} {n : Nat} (h : hexValue c = some n) :
    n < 16 ∧ (c = hexDigit n ∨ c = hexDigitLower n) := by
  have := hexValue_sound_all c
  rw [h] at this
  simpa using this

theorem readNibs_sound : ∀ (t : Bytes) (ns : List Nat) (r : Bytes), readNibs t = some (ns, r) →
    ∃ body, HexNibs ns body ∧ t = body ++ 62 :: r
  | [], _, _, h => by simp [readNibs] at h
  | c :: t, ns, r, h => by
    simp only [readNibs] at h
    split at h
    · rename_i hc
      have : c = 62 := by simpa using hc
      simp only [Option.some.injEq, Prod.mk.injEq] at h
      obtain ⟨rfl, rfl⟩ := h
      exact ⟨[], HexNibs.nil, by simp [this]⟩
    · split at h
      · rename_i hw
        obtain ⟨body, hb, e⟩ := readNibs_sound t ns r h
        exact ⟨c :: body, HexNibs.white c hw hb, by simp [e]⟩
      · cases hv : hexValue c with
        | none => simp [hv] at h
        | some n =>
          simp only [hv] at h
          cases hr : readNibs t with
          | none => simp [hr] at h
          | some p =>
            obtain ⟨ns', r'⟩ := p
            simp only [hr, Option.map_some, Option.some.injEq, Prod.mk.injEq] at h
            obtain ⟨rfl, rfl⟩ := h
            obtain ⟨body, hb, e⟩ := readNibs_sound t ns' r' hr
            obtain ⟨hn, hc⟩ := hexValue_sound hv
            exact ⟨c :: body, HexNibs.digit n c hn hc hb, by simp [e]⟩

theorem readHexStr_sound {t : Bytes} {ns : List Nat} {r : Bytes} (h : readHexStr t = some (ns, r)) (bs : List Nat)
    (e : ns = nibbles bs) : ∃ a, HexStr bs a ∧ t = a ++ r := by
  cases t with
  | nil => simp [readHexStr] at h
  | cons c t =>
    by_cases hc : c = 60
    · subst hc
      simp only [readHexStr] at h
      obtain ⟨body, hb, e2⟩ := readNibs_sound t ns r h
      subst e
      exact ⟨60 :: (body ++ [62]), ⟨body, hb, rfl⟩, by simp [e2]⟩
    · simp [readHexStr, hc] at h

theorem code_sound {t : Bytes} {ns : List Nat} {r : Bytes} (h : readHexStr t = some (ns, r)) {c : Nat}
    (hc : codeOk c ns = true) : ∃ a, CodeSp c a ∧ t = a ++ r := by
  simp only [codeOk, Bool.or_eq_true, beq_iff_eq, Bool.and_eq_true, decide_eq_true_eq] at hc
  rcases hc with e | ⟨hlt, e⟩
  · obtain ⟨a, ha, e2⟩ := readHexStr_sound h _ e
    exact ⟨a, Or.inl ha, e2⟩
  · obtain ⟨a, ha, e2⟩ := readHexStr_sound h _ e
    exact ⟨a, Or.inr ⟨hlt, ha⟩, e2⟩

theorem dst_sound {t : Bytes} {ns : List Nat} {r : Bytes} (h : readHexStr t = some (ns, r)) {s : List Nat}
    (hs : dstOk s ns = true) : ∃ a, DstSp s a ∧ t = a ++ r := by
  simp only [dstOk, beq_iff_eq] at hs
  exact readHexStr_sound h _ hs

theorem chkArr_sound : ∀ (f : Nat) (ss : List (List Nat)) (t r : Bytes), chkArr f ss t = some r →
    ∃ body, ArrBody ss body ∧ t = body ++ 93 :: r
  | 0, _, _, _, h => by simp [chkArr] at h
  | f + 1, ss, t, r, h => by
    obtain ⟨sp, hsp, e⟩ := dropSeps_sound t.length t
    simp only [chkArr] at h
    split at h
    · rename_i r0 hd
      split at h
      · rename_i hemp
        simp only [Option.some.injEq] at h
        subst h
        have : ss = [] := by simpa using hemp
        subst this
        exact ⟨sp, ArrBody.nil hsp, by rw [hd] at e; exact e⟩
      · cases h
    · rename_i r0 hd
      split at h
      · rename_i s ss' ns r1 hrd
        split at h
        · rename_i hok
          obtain ⟨body, hb, e2⟩ := chkArr_sound f ss' r1 r h
          obtain ⟨a, ha, e3⟩ := dst_sound hrd hok
          refine ⟨sp ++ (a ++ body), ArrBody.cons hsp ha hb, ?_⟩
          rw [e, hd, e3, e2]
          simp
        · cases h
      · cases h
    · cases h

theorem chkCodes_sound {lo hi : Nat} {t r : Bytes} (h : chkCodes lo hi t = some r) :
    ∃ a s1 b s2, CodeSp lo a ∧ Seps s1 ∧ CodeSp hi b ∧ Seps s2 ∧ t = a ++ (s1 ++ (b ++ (s2 ++ r))) := by
  simp only [chkCodes] at h
  cases h1 : readHexStr t with
  | none => simp [h1] at h
  | some p1 =>
    obtain ⟨n1, r1⟩ := p1
    simp only [h1] at h
    split at h
    · rename_i hc1
      cases h2 : readHexStr (dropSeps r1.length r1) with
      | none => simp [h2] at h
      | some p2 =>
        obtain ⟨n2, r2⟩ := p2
        simp only [h2] at h
        split at h
        · rename_i hc2
          simp only [Option.some.injEq] at h
          obtain ⟨a, ha, e1⟩ := code_sound h1 hc1
          obtain ⟨s1, hs1, e2⟩ := dropSeps_sound r1.length r1
          obtain ⟨b, hb, e3⟩ := code_sound h2 hc2
          obtain ⟨s2, hs2, e4⟩ := dropSeps_sound r2.length r2
          refine ⟨a, s1, b, s2, ha, hs1, hb, hs2, ?_⟩
          rw [← h, ← e4, ← e3, ← e2, ← e1]
        · cases h
    · cases h


theorem dropWhile_boundary : ∀ (l : Bytes), Boundary (l.dropWhile isRegularChar)
  | [] => Or.inl rfl
  | a :: l => by
    simp only [List.dropWhile_cons]
    split
    · exact dropWhile_boundary l
    · rename_i h
      exact Or.inr ⟨a, l, rfl, by simpa using h⟩

theorem takeWhile_all_regular : ∀ (l : Bytes), (l.takeWhile isRegularChar).all isRegularChar = true
  | [] => rfl
  | a :: l => by
    simp only [List.takeWhile_cons]
    split
    · rename_i h
      simp [h, takeWhile_all_regular l]
    · rfl

theorem chk_sound : ∀ (f : Nat) (st : St) (es : List Ent) (t : Bytes), chk f st es t = true → Sp st es t
  | 0, _, _, _, h => by simp [chk] at h
  | f + 1, st, es, [], h => by
    simp only [chk, Bool.and_eq_true, beq_iff_eq, List.isEmpty_iff] at h
    obtain ⟨rfl, rfl⟩ := h
    exact Sp.eof
  | f + 1, st, es, b :: r, h => by
    have ih := chk_sound f
    by_cases hw : isWhite b = true
    · simp only [chk, hw, if_true] at h
      exact Sp.skip (Skip.white b hw) (ih st es r h)
    by_cases h37 : (b == 37) = true
    · have e37 : b = 37 := by simpa using h37
      subst e37
      simp only [chk, hw, Bool.false_eq_true, if_false, beq_self_eq_true, if_true] at h
      cases hc : afterComment r with
      | none => simp [hc] at h
      | some r' =>
        simp only [hc] at h
        obtain ⟨p, hp, e⟩ := skip_of_comment hc
        rw [e]
        exact Sp.skip hp (ih st es r' h)
    have etd := List.takeWhile_append_dropWhile (p := isRegularChar) (l := b :: r)
    have hbd := dropWhile_boundary (b :: r)
    have hall := takeWhile_all_regular (b :: r)
    cases st with
    | outer =>
      simp only [chk, hw, Bool.false_eq_true, if_false, h37] at h
      by_cases hreg : isRegularChar b = true
      · simp only [hreg, if_true] at h
        have etw : (b :: r).takeWhile isRegularChar = b :: r.takeWhile isRegularChar := by simp [hreg]
        rw [etw] at h hall etd
        generalize r.takeWhile isRegularChar = w at h hall etd
        generalize (b :: r).dropWhile isRegularChar = t at h hbd etd
        simp only [List.cons_append] at etd
        rw [← etd]
        by_cases k1 : b :: w = kwEndcmap
        · simp only [k1, if_true, List.isEmpty_iff] at h
          subst h
          have := Sp.endcmap t hbd
          rw [← k1] at this
          exact this
        by_cases k2 : b :: w = kwBfchar
        · simp only [k1, k2, if_false, if_true] at h
          have := Sp.beginChars hbd (ih _ _ _ h)
          rw [← k2] at this
          exact this
        by_cases k3 : b :: w = kwBfrange
        · simp only [k1, k2, k3, if_false, if_true] at h
          have := Sp.beginRanges hbd (ih _ _ _ h)
          rw [← k3] at this
          exact this
        simp only [k1, k2, k3, if_false] at h
        exact Sp.word b w hall k2 k3 k1 hbd (ih _ _ _ h)
      · simp only [hreg, Bool.false_eq_true, if_false] at h
        by_cases h47 : (b == 47) = true
        · have e47 : b = 47 := by simpa using h47
          subst e47
          simp only [beq_self_eq_true, if_true] at h
          have e2 := List.takeWhile_append_dropWhile (p := isRegularChar) (l := r)
          have := Sp.name (r.takeWhile isRegularChar) (takeWhile_all_regular r) (dropWhile_boundary r) (ih _ _ _ h)
          rw [e2] at this
          exact this
        simp only [h47, Bool.false_eq_true, if_false] at h
        by_cases hd : (b == 40 || b == 41 || b == 91 || b == 93 || b == 123 || b == 125) = true
        · simp only [hd, if_true] at h
          refine Sp.delim b ?_ (ih _ _ _ h)
          have hd' : ((((b = 40 ∨ b = 41) ∨ b = 91) ∨ b = 93) ∨ b = 123) ∨ b = 125 := by
            simpa [Bool.or_eq_true] using hd
          rcases hd' with ((((h|h)|h)|h)|h)|h <;> simp [h]
        simp only [hd, Bool.false_eq_true, if_false] at h
        by_cases h60 : (b == 60) = true
        · have e60 : b = 60 := by simpa using h60
          subst e60
          simp only [beq_self_eq_true, if_true] at h
          cases r with
          | nil => exact Sp.lt (by simp) (ih _ _ _ h)
          | cons c r2 =>
            by_cases hc : c = 60
            · subst hc
              exact Sp.ltlt (ih _ _ _ h)
            · have : chk f .outer es (c :: r2) = true := by
                split at h
                · rename_i heq; simp only [List.cons.injEq] at heq; exact absurd heq.1 hc
                · exact h
              exact Sp.lt (by simpa using hc) (ih _ _ _ this)
        simp only [h60, Bool.false_eq_true, if_false] at h
        by_cases h62 : (b == 62) = true
        · have e62 : b = 62 := by simpa using h62
          subst e62
          simp only [beq_self_eq_true, if_true] at h
          cases r with
          | nil => exact Sp.gt (by simp) (ih _ _ _ h)
          | cons c r2 =>
            by_cases hc : c = 62
            · subst hc
              exact Sp.gtgt (ih _ _ _ h)
            · have : chk f .outer es (c :: r2) = true := by
                split at h
                · rename_i heq; simp only [List.cons.injEq] at heq; exact absurd heq.1 hc
                · exact h
              exact Sp.gt (by simpa using hc) (ih _ _ _ this)
        simp [h62] at h
    | chars =>
      simp only [chk, hw, Bool.false_eq_true, if_false, h37] at h
      by_cases hreg : isRegularChar b = true
      · simp only [hreg, if_true, Bool.and_eq_true, decide_eq_true_eq] at h
        have := Sp.endChars hbd (ih _ _ _ h.2)
        rw [← h.1, etd] at this
        exact this
      · simp only [hreg, Bool.false_eq_true, if_false] at h
        match es, h with
        | .char c s :: es', h =>
          simp only [Bool.and_eq_true] at h
          obtain ⟨hwf, h⟩ := h
          cases h1 : readHexStr (b :: r) with
          | none => simp [h1] at h
          | some p1 =>
            obtain ⟨n1, r1⟩ := p1
            simp only [h1, Bool.and_eq_true] at h
            obtain ⟨hc1, h⟩ := h
            cases h2 : readHexStr (dropSeps r1.length r1) with
            | none => simp [h2] at h
            | some p2 =>
              obtain ⟨n2, r2⟩ := p2
              simp only [h2, Bool.and_eq_true] at h
              obtain ⟨a, ha, e1⟩ := code_sound h1 hc1
              obtain ⟨sp, hsp, e2⟩ := dropSeps_sound r1.length r1
              obtain ⟨d, hd, e3⟩ := dst_sound h2 h.1
              have := Sp.char c s hwf ha hsp hd (ih _ _ _ h.2)
              rw [e1, e2, e3]
              exact this
        | [], h => simp at h
        | .rstr _ _ :: _, h => simp at h
        | .rarr _ _ :: _, h => simp at h
    | ranges =>
      simp only [chk, hw, Bool.false_eq_true, if_false, h37] at h
      by_cases hreg : isRegularChar b = true
      · simp only [hreg, if_true, Bool.and_eq_true, decide_eq_true_eq] at h
        have := Sp.endRanges hbd (ih _ _ _ h.2)
        rw [← h.1, etd] at this
        exact this
      · simp only [hreg, Bool.false_eq_true, if_false] at h
        match es, h with
        | .rstr lo ss :: es', h =>
          simp only [Bool.and_eq_true] at h
          obtain ⟨hwf, h⟩ := h
          cases hcc : chkCodes lo (lo + ss.length - 1) (b :: r) with
          | none => simp [hcc] at h
          | some r2 =>
            simp only [hcc] at h
            cases h3 : readHexStr r2 with
            | none => simp [h3] at h
            | some p3 =>
              obtain ⟨n3, r3⟩ := p3
              simp only [h3, Bool.and_eq_true] at h
              obtain ⟨a, s1, b', s2, ha, hs1, hb, hs2, e1⟩ := chkCodes_sound hcc
              obtain ⟨d, hd, e3⟩ := dst_sound h3 h.1
              have := Sp.rstr lo ss hwf ha hs1 hb hs2 hd (ih _ _ _ h.2)
              rw [e1, e3]
              exact this
        | .rarr lo ss :: es', h =>
          simp only [Bool.and_eq_true] at h
          obtain ⟨hwf, h⟩ := h
          cases hcc : chkCodes lo (lo + ss.length - 1) (b :: r) with
          | none => simp [hcc] at h
          | some r2 =>
            simp only [hcc] at h
            cases r2 with
            | nil => simp at h
            | cons c r2' =>
              by_cases hc : c = 91
              · subst hc
                simp only [] at h
                cases ha3 : chkArr (r2'.length + 1) ss r2' with
                | none => simp [ha3] at h
                | some r3 =>
                  simp only [ha3] at h
                  obtain ⟨a, s1, b', s2, ha, hs1, hb, hs2, e1⟩ := chkCodes_sound hcc
                  obtain ⟨body, hbody, e3⟩ := chkArr_sound _ _ _ _ ha3
                  have := Sp.rarr lo ss hwf ha hs1 hb hs2 hbody (ih _ _ _ h)
                  rw [e1, e3]
                  exact this
              · exfalso
                split at h
                · rename_i heq
                  simp only [Option.some.injEq, List.cons.injEq] at heq
                  exact hc heq.1
                · cases h
        | [], h => simp at h
        | .char _ _ :: _, h => simp at h

/-- the checker only accepts conformant spellings -/
theorem spellsCheck_sound {es : List Ent} {text : Bytes} (h : spellsCheck es text = true) : CMapSpells es text :=
  chk_sound _ _ _ _ h

end CMap
