import PdfModel.Lemmas.Parser
import PdfModel.Spec.ContentSyntax

/-! C08 byte level, part 2: what the lexer / object parser of the shared models do at the two places of a content
    stream that are not objects: after the last token (nothing but white-space and comments: `EOF`) and at an
    operator keyword (`parse_with_lexer` fails, without a panic, and leaves the position alone). -/

namespace PdfLex
open PdfSyntax (Gap Bnd)

variable {R : Type}

/-- nothing but a gap up to the end of the buffer: the skipping part of `next_word` reports EOF -/
theorem skip_gap_end {buf : Buf} (g : List UInt8) (hg : Gap g) :
    ∀ (pos fuel : Nat), Suffix buf pos g → g.length ≤ fuel →
    (skipWhitespace buf pos).bind (fun p0 => skipComments buf fuel p0) = .err := by
  induction hg with
  | nil =>
    intro pos fuel h _
    rw [skipWhitespace_nil h]; rfl
  | ws b g hb hg ih =>
    intro pos fuel h hf
    rw [skipWhitespace_ws h (by rw [isWhitespace_eq]; exact hb)]
    exact ih (pos + 1) fuel h.tail (by simp at hf; omega)
  | comment body e g hbody he hg ih =>
    intro pos fuel h hf
    have h' : Suffix buf pos (37 :: (body ++ e :: g)) := by simpa using h
    rw [skipWhitespace_stop h' (by decide)]
    simp only [Out.bind_ok]
    cases fuel with
    | zero => simp at hf
    | succ fuel =>
      have hlt := h'.lt
      simp only [skipComments, h'.get0, beq_self_eq_true, if_true]
      rw [if_neg (by omega)]
      rw [findEol_body body e g (pos + 1) h'.tail hbody he]
      simp only []
      have h2 : Suffix buf (pos + 1 + body.length + 1) g := by
        have := Suffix.drop (buf := buf) (pos := pos + 1) (a := body ++ [e]) (s := g) (by simpa using h'.tail)
        simpa [Nat.add_assoc] using this
      exact ih (pos + 1 + body.length + 1) fuel h2 (by simp at hf; omega)

theorem next_gap_end {buf : Buf} (g : List UInt8) (hg : Gap g) (pos : Nat) (h : Suffix buf pos g) :
    next buf pos = .err := by
  unfold next nextWord
  by_cases he : pos = buf.size
  · simp [he]
  · have : (pos == buf.size) = false := by simpa using he
    rw [this]
    simp only [Bool.false_eq_true, if_false]
    unfold tokenStart
    rw [skip_gap_end g hg pos buf.size h (by have := h.size_eq; omega)]
    rfl

/-- at the end of the data (white-space and comments only) `parse_with_lexer` fails: `Err`, no panic -/
theorem parseWithLexer_gap_end (env : Env R) {buf : Buf} (g : List UInt8) (hg : Gap g) (pos : Nat)
    (h : Suffix buf pos g) (fuel flags : Nat) (hf : 2 ≤ fuel) :
    parseWithLexer env buf fuel pos flags = .err := by
  obtain ⟨f, rfl⟩ : ∃ f, fuel = f + 2 := ⟨fuel - 2, by omega⟩
  unfold parseWithLexer
  simp only [parseCtx, parseInner, remainingStart_ok h.le, Out.bind_ok, next_gap_end g hg pos h, Out.bind_err]
  rw [setPos_ok h.le h.le]
  rfl


theorem readN_returns {buf : Buf} (p n : Nat) (hp : p ≤ buf.size) (hpos : 0 < buf.size) (hsz : buf.size ≤ 2147483647)
    (hn : n ≤ 2147483647) : ∃ r, readN buf p n = .ok r := by
  unfold readN
  have m : min (p + n) usizeMax = p + n := Nat.min_eq_left (by unfold usizeMax; omega)
  rw [m]
  by_cases h2 : p + n ≥ buf.size
  · simp only [h2, if_true]
    by_cases h4 : p < buf.size
    · simp only [h4, if_true]
      unfold newSubstr
      have : ¬ (p > buf.size - 1) := by omega
      have h5 : ¬ (buf.size < buf.size - 1) := by omega
      simp [this, h5, Out.bind]
    · simp only [h4, if_false]
      unfold newSubstr
      simp [Out.bind]
  · simp only [h2, if_false]
    have h4 : p < buf.size := by omega
    simp only [h4, if_true]
    unfold newSubstr
    have : ¬ (p > p + n) := by omega
    have h5 : ¬ (buf.size < p + n) := by omega
    simp [this, h5, Out.bind]

theorem regular_not_delims : ∀ b : UInt8, isRegular b = true →
    b ≠ 60 ∧ b ≠ 47 ∧ b ≠ 91 ∧ b ≠ 40 := by decide +kernel

open ContentSyntax in
/-- at an operator keyword `parse_with_lexer` fails with `Err` (the `UnknownType` arm; no panic), the lexer is
    where it was, and `next` returns the keyword -/
theorem parseWithLexer_keyword (env : Env R) {buf : Buf} (g t rest : List UInt8) (pos : Nat) (hg : Gap g)
    (hs : Suffix buf pos (g ++ t ++ rest)) (hk : kwOK t = true) (hb : Bnd rest) (hsz : buf.size ≤ 2147483647)
    (fuel : Nat) (hf : 2 ≤ fuel) :
    parseWithLexer env buf fuel pos Flags.any = .err ∧
    next buf pos = .ok (pos + g.length, pos + g.length + t.length) ∧
    slice buf (pos + g.length) (pos + g.length + t.length) = t := by
  simp only [kwOK, Bool.and_eq_true, Bool.not_eq_true', List.all_eq_true, bne_iff_ne, ne_eq,
    Option.isNone_iff_eq_none, List.isEmpty_eq_false_iff] at hk
  obtain ⟨⟨⟨⟨⟨⟨⟨⟨⟨hne, hreg⟩, hint⟩, hreal⟩, hR⟩, hS⟩, hT⟩, hF⟩, hN⟩, hBI⟩ := hk
  obtain ⟨hn, hsl⟩ := next_regular g t rest pos hg hs hne hreg hb
  refine ⟨?_, hn, hsl⟩
  obtain ⟨f, rfl⟩ : ∃ f, fuel = f + 2 := ⟨fuel - 2, by omega⟩
  have hend : pos + g.length + t.length ≤ buf.size := by
    have := hs.size_eq; simp at this; omega
  have hpos : 0 < buf.size := by
    cases t with
    | nil => exact absurd rfl hne
    | cons b t' => simp at hend; omega
  obtain ⟨b0, t', rfl⟩ : ∃ b0 t', t = b0 :: t' := by
    cases t with
    | nil => exact absurd rfl hne
    | cons b t' => exact ⟨b, t', rfl⟩
  obtain ⟨d60, d47, d91, d40⟩ := regular_not_delims b0 (hreg b0 (by simp))
  obtain ⟨r, hr⟩ := readN_returns (buf := buf) (pos + g.length + (b0 :: t').length) 50 hend hpos hsz (by decide)
  unfold parseWithLexer
  simp only [parseCtx, parseInner, remainingStart_ok hs.le, Out.bind_ok, hn, hsl]
  have c1 : ((b0 :: t') == [60, 60]) = false := by
    simp only [beq_eq_false_iff_ne, ne_eq, List.cons.injEq, not_and]; intro h; exact absurd h d60
  have c2 : ((b0 :: t').head? == some 47) = false := by simp [d47]
  have c3 : ((b0 :: t') == [91]) = false := by
    simp only [beq_eq_false_iff_ne, ne_eq, List.cons.injEq, not_and]; intro h; exact absurd h d91
  have c4 : ((b0 :: t') == [40]) = false := by
    simp only [beq_eq_false_iff_ne, ne_eq, List.cons.injEq, not_and]; intro h; exact absurd h d40
  have c5 : ((b0 :: t') == [60]) = false := by
    simp only [beq_eq_false_iff_ne, ne_eq, List.cons.injEq, not_and]; intro h; exact absurd h d60
  have c6 : ((b0 :: t') == kwTrue) = false := by simpa [kwTrue, PdfSyntax.kwTrue] using hT
  have c7 : ((b0 :: t') == kwFalse) = false := by simpa [kwFalse, PdfSyntax.kwFalse] using hF
  have c8 : ((b0 :: t') == kwNull) = false := by simpa [kwNull, PdfSyntax.kwNull] using hN
  simp only [c1, hint, hreal, c2, c3, c4, c5, c6, c7, c8, Bool.false_eq_true, if_false, hr, Out.bind_ok]
  rw [setPos_ok hs.le hs.le]
  rfl

end PdfLex
