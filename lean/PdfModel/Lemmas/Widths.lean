import PdfModel.Spec.Widths

/-! Helper lemmas for C19 (widths): `get_set` over the five growth cases, runs, ranges, the interpreter. -/

namespace Widths
variable {α : Type}

theorem set_default (w : Widths α) (c : Nat) (x : α) : (w.set c x).default = w.default := by
  unfold Widths.set
  repeat' split
  all_goals rfl

theorem getD_ite_none (p : Prop) [Decidable p] (d : α) : (if p then some d else none).getD d = d := by
  split <;> rfl

theorem get_set (w : Widths α) (c : Nat) (x : α) (c' : Nat) :
    (w.set c x).get c' = if c' = c then x else w.get c' := by
  unfold Widths.set
  split
  · -- empty
    rename_i he
    have hv : w.values = [] := List.isEmpty_iff.mp he
    simp only [Widths.get, hv]
    by_cases h : c' = c
    · subst h; simp
    · simp only [h, if_false]
      by_cases h2 : c' < c
      · simp [h2]
      · simp only [h2, if_false]
        cases hk : c' - c with
        | zero => omega
        | succ k => simp
  · split
    · -- append
      rename_i hne hc
      simp only [Widths.get]
      by_cases h : c' = c
      · subst h
        have h1 : ¬ c' < w.first := by omega
        have e : c' - w.first = w.values.length := by omega
        simp only [h1, if_false, e]
        simp
      · simp only [h, if_false]
        by_cases h2 : c' < w.first
        · simp [h2]
        · simp only [h2, if_false]
          by_cases h3 : c' - w.first < w.values.length
          · simp [List.getElem?_append_left h3]
          · have h4 : w.values.length ≤ c' - w.first := by omega
            rw [List.getElem?_append_right h4]
            rw [List.getElem?_eq_none (by omega : w.values.length ≤ c' - w.first)]
            cases hk : c' - w.first - w.values.length with
            | zero => omega
            | succ k => simp
    · split
      · -- prepend
        rename_i hne hc hlt
        simp only [Widths.get]
        by_cases h : c' = c
        · subst h
          simp only [Nat.lt_irrefl, if_false, Nat.sub_self, if_true]
          rw [List.getElem?_set_self (by simp; omega)]
          simp
        · simp only [h, if_false]
          by_cases h2 : c' < c
          · have : c' < w.first := by omega
            simp [h2, this]
          · simp only [h2, if_false]
            rw [List.getElem?_set_ne (by omega)]
            by_cases h3 : c' < w.first
            · simp only [h3, if_true]
              rw [List.getElem?_append_left (by simp; omega)]
              simp only [List.getElem?_replicate]
              exact getD_ite_none _ _
            · simp only [h3, if_false]
              rw [List.getElem?_append_right (by simp; omega)]
              simp only [List.length_replicate]
              have : c' - c - (w.first - c) = c' - w.first := by omega
              rw [this]
      · split
        · -- gap
          rename_i hne hc hlt hgt
          simp only [Widths.get]
          have hl : (w.values ++ List.replicate (c - w.first - w.values.length) w.default).length = c - w.first := by
            simp; omega
          by_cases h : c' = c
          · subst h
            simp only [hlt, if_false, if_true]
            rw [List.getElem?_append_right (by omega), hl]
            simp
          · simp only [h, if_false]
            by_cases h2 : c' < w.first
            · simp [h2]
            · simp only [h2, if_false]
              by_cases h3 : c' - w.first < w.values.length
              · rw [List.append_assoc, List.getElem?_append_left h3]
              · rw [List.getElem?_eq_none (by omega : w.values.length ≤ c' - w.first)]
                by_cases h4 : c' < c
                · rw [List.getElem?_append_left (by omega)]
                  rw [List.getElem?_append_right (by omega)]
                  simp only [List.getElem?_replicate]
                  exact getD_ite_none _ _
                · rw [List.getElem?_append_right (by omega), hl]
                  cases hk : c' - w.first - (c - w.first) with
                  | zero => omega
                  | succ k => simp
        · -- overwrite
          rename_i hne hc hlt hgt
          simp only [Widths.get]
          by_cases h : c' = c
          · subst h
            simp only [hlt, if_false, if_true]
            rw [List.getElem?_set_self (by omega)]
            simp
          · simp only [h, if_false]
            by_cases h2 : c' < w.first
            · simp [h2]
            · simp only [h2, if_false]
              rw [List.getElem?_set_ne (by omega)]

theorem setRun_spec : ∀ (xs : List (WP α)) (w : Widths α) (c : Nat), xs.all isNum = true →
    ∃ w', setRun w c xs = .ok w' ∧ w'.default = w.default ∧
      ∀ c', w'.get c' = (if c ≤ c' then (xs[c' - c]?).bind asNumber else none).getD (w.get c')
  | [], w, c, _ => ⟨w, rfl, rfl, fun c' => by simp⟩
  | p :: ps, w, c, h => by
    simp only [List.all_cons, Bool.and_eq_true, isNum] at h
    obtain ⟨x, hx⟩ := Option.isSome_iff_exists.mp h.1
    obtain ⟨w', h1, h2, h3⟩ := setRun_spec ps (w.set c x) (c + 1) h.2
    refine ⟨w', by simp [setRun, hx, h1], by rw [h2, set_default], fun c' => ?_⟩
    rw [h3 c', get_set]
    by_cases hc : c' = c
    · subst hc
      have : ¬ (c' + 1 ≤ c') := by omega
      simp [hx, this]
    · by_cases hlt : c + 1 ≤ c'
      · have e : c' - c = (c' - (c + 1)) + 1 := by omega
        have hle : c ≤ c' := by omega
        simp only [hlt, hle, if_true, e, List.getElem?_cons_succ, hc, if_false]
      · have hle : ¬ c ≤ c' := by omega
        simp [hlt, hle, hc]

theorem setRange_spec (x : α) : ∀ (n : Nat) (w : Widths α) (c : Nat),
    (setRange w c x n).default = w.default ∧
    ∀ c', (setRange w c x n).get c' = if c ≤ c' ∧ c' < c + n then x else w.get c'
  | 0, w, c => ⟨rfl, fun c' => by
      simp only [setRange, Nat.add_zero]
      split
      · omega
      · rfl⟩
  | n + 1, w, c => by
    obtain ⟨h1, h2⟩ := setRange_spec x n (w.set c x) (c + 1)
    refine ⟨by simp only [setRange]; rw [h1, set_default], fun c' => ?_⟩
    simp only [setRange]
    rw [h2 c', get_set]
    by_cases hc : c' = c
    · subst hc
      simp
    · by_cases hin : c + 1 ≤ c' ∧ c' < c + 1 + n
      · have : c ≤ c' ∧ c' < c + (n + 1) := by omega
        simp [hin, this]
      · have : ¬ (c ≤ c' ∧ c' < c + (n + 1)) := by omega
        simp [hin, this, hc]

/-- value of code `c` after the groups `gs`, starting from `init` -/
def assignFrom (init : α) (gs : List (Group α)) (c : Nat) : α :=
  gs.foldl (fun acc g => (g.assign c).getD acc) init

theorem assignFrom_eq_lastAssign (init : α) (gs : List (Group α)) (c : Nat) :
    assignFrom init gs c = (lastAssign gs c).getD init := by
  unfold assignFrom lastAssign
  induction gs generalizing init with
  | nil => simp
  | cons g gs ih =>
    simp only [List.foldl_cons, List.reverse_cons, List.findSome?_append, List.findSome?_cons,
      List.findSome?_nil]
    rw [ih]
    cases h1 : gs.reverse.findSome? (·.assign c) with
    | some v => simp
    | none =>
      simp only [Option.getD_none, Option.none_or]
      cases g.assign c <;> rfl

theorem interp_spec (cx : α) : ∀ (gs : List (Group α)) (w : Widths α), (∀ g ∈ gs, g.wf = true) →
    ∃ w', interp w (render cx gs) = .ok w' ∧ w'.default = w.default ∧
      ∀ c, w'.get c = assignFrom (w.get c) gs c
  | [], w, _ => ⟨w, by simp [render, interp], rfl, fun c => by simp [assignFrom]⟩
  | g :: gs, w, h => by
    have hg := h g (List.mem_cons_self ..)
    have hgs : ∀ g' ∈ gs, g'.wf = true := fun g' hm => h g' (List.mem_cons_of_mem _ hm)
    cases g with
    | run c1 byRef xs =>
      simp only [Group.wf, Bool.and_eq_true, decide_eq_true_eq] at hg
      obtain ⟨w1, e1, d1, g1⟩ := setRun_spec xs w c1 hg.2
      obtain ⟨w', e2, d2, g2⟩ := interp_spec cx gs w1 hgs
      have hnn : ¬ ((c1 : Int) < 0) := by omega
      have hnr : ¬ (c1 + xs.length > maxCid + 1) := by simp only [maxCid]; omega
      refine ⟨w', ?_, by rw [d2, d1], fun c => ?_⟩
      · cases byRef <;>
          simp [render, Group.render, interp, hnn, hnr, e1] <;>
          simpa [render] using e2
      · rw [g2 c, g1 c]
        simp [assignFrom, Group.assign]
    | range c1 c2 x =>
      simp only [Group.wf, Bool.and_eq_true, decide_eq_true_eq, isNum] at hg
      obtain ⟨v, hv⟩ := Option.isSome_iff_exists.mp hg.2
      obtain ⟨d1, g1⟩ := setRange_spec v (c2 + 1 - c1) w c1
      obtain ⟨w', e2, d2, g2⟩ := interp_spec cx gs (setRange w c1 v (c2 + 1 - c1)) hgs
      have hn1 : ¬ ((c1 : Int) < 0) := by omega
      have hn2 : ¬ ((c2 : Int) < 0) := by omega
      have hnr : ¬ (c2 > maxCid) := by simp only [maxCid]; omega
      refine ⟨w', ?_, by rw [d2, d1], fun c => ?_⟩
      · simp [render, Group.render, interp, hn1, hn2, hnr, hv]
        simpa [render] using e2
      · rw [g2 c, g1 c]
        simp only [assignFrom, List.foldl_cons, Group.assign, hv]
        congr 1
        by_cases hin : c1 ≤ c ∧ c ≤ c2
        · have : c1 ≤ c ∧ c < c1 + (c2 + 1 - c1) := by omega
          simp [hin, this]
        · have : ¬ (c1 ≤ c ∧ c < c1 + (c2 + 1 - c1)) := by omega
          simp [hin, this]

end Widths
