import PdfModel.Model.Cache

/-! Helper definitions and lemmas for `Props/C12` (and the sequential core of `Props/C13`).

* `Fine filt P p` : every `get` of the load `p` goes to a reference satisfying `P`, every
  `get_data_or_decode` for reference `r` passes the filter list `filt r` (the filters are a function of
  the stream object, `Stream::data` always passes all of them), and `p` does not return `oof` by itself.
* `WF d filt rank` : the typed-load dependency relation of the document is well founded (`rank`
  decreases along every nested `get`).
* `Inv` : "every cache entry equals the uncached answer for its key".
-/

namespace Cache
variable {V E : Type}

inductive Fine (filt : Nat → List Nat) (P : Nat → Prop) : Prog V E → Prop
  | ret (x : Res V E) : x ≠ .oof → Fine filt P (.ret x)
  | get (T r : Nat) (k : Res V E → Prog V E) :
      P r → (∀ x, x ≠ .oof → Fine filt P (k x)) → Fine filt P (.get T r k)
  | data (r : Nat) (fs : List Nat) (k : Res V E → Prog V E) :
      fs = filt r → (∀ x, x ≠ .oof → Fine filt P (k x)) → Fine filt P (.data r fs k)

theorem Fine.mono {filt : Nat → List Nat} {P Q : Nat → Prop} (h : ∀ r, P r → Q r) {p : Prog V E}
    (hp : Fine filt P p) : Fine filt Q p := by
  induction hp with
  | ret x hx => exact .ret x hx
  | get T r k hr _ ih => exact .get T r k (h r hr) ih
  | data r fs k hf _ ih => exact .data r fs k hf ih

theorem Fine.discard {filt : Nat → List Nat} {P : Nat → Prop} {q : Prog V E} (hq : Fine filt P q)
    (x : Res V E) (hx : x ≠ .oof) : Fine filt P (discard q x) := by
  induction hq with
  | ret y _ => exact .ret x hx
  | get T r k hr _ ih => exact .get T r _ hr fun y hy => ih y hy
  | data r fs k hf _ ih => exact .data r fs _ hf fun y hy => ih y hy

theorem Fine.orLog {filt : Nat → List Nat} {P : Nat → Prop} {p q : Prog V E} (hp : Fine filt P p)
    (hq : Fine filt P q) : Fine filt P (orLog p q) := by
  induction hp with
  | ret x hx =>
    cases x with
    | ok v => exact .ret _ hx
    | err e => exact hq.discard _ (by simp)
    | oof => exact absurd rfl hx
  | get T r k hr _ ih => exact .get T r _ hr fun y hy => ih y hy
  | data r fs k hf _ ih => exact .data r fs _ hf fun y hy => ih y hy

structure WF (d : Doc V E) (filt : Nat → List Nat) (rank : Nat → Nat) : Prop where
  body : ∀ T r, Fine filt (fun r' => rank r' < rank r) (d.body T r)
  relog : ∀ r, Fine filt (fun r' => rank r' < rank r) (d.relog r)
  dec : ∀ r fs, d.decode r fs ≠ .oof

/-- the uncached, unguarded answer of `get::<T>(r)` -/
def ans (d : Doc V E) (rank : Nat → Nat) (T r : Nat) : Res V E := ansF d (rank r + 1) T r

theorem canon_congr {filt : Nat → List Nat} {P : Nat → Prop} (d : Doc V E) (a1 a2 : Nat → Nat → Res V E)
    {p : Prog V E} (hp : Fine filt P p) (h : ∀ T r, P r → a1 T r = a2 T r) (hd : ∀ r fs, d.decode r fs ≠ .oof) :
    canon a1 d p = canon a2 d p := by
  induction hp with
  | ret x _ => rfl
  | get T r k hr _ ih =>
    simp only [canon]
    rw [h T r hr]
    cases hx : a2 T r with
    | oof => rfl
    | ok v => exact ih _ (by simp)
    | err e => exact ih _ (by simp)
  | data r fs k _ _ ih =>
    simp only [canon]
    exact ih _ (hd r fs)

theorem ansF_stable {d : Doc V E} {filt : Nat → List Nat} {rank : Nat → Nat} (wf : WF d filt rank) :
    ∀ n r T f, rank r < n → rank r < f → ansF d f T r = ans d rank T r := by
  intro n
  induction n with
  | zero => intro r T f h; omega
  | succ n ih =>
    intro r T f hr hf
    cases f with
    | zero => omega
    | succ f =>
      simp only [ans, ansF]
      apply canon_congr d _ _ (wf.body T r) _ wf.dec
      intro T' r' hr'
      rw [ih r' T' f (by omega) (by omega), ih r' T' (rank r) (by omega) hr']

/-- the answer of a typed load is the evaluation of its body over the answers of the nested loads -/
theorem ans_eq {d : Doc V E} {filt : Nat → List Nat} {rank : Nat → Nat} (wf : WF d filt rank) (T r : Nat) :
    ans d rank T r = canon (ans d rank) d (d.body T r) := by
  show ansF d (rank r + 1) T r = _
  simp only [ansF]
  apply canon_congr d _ _ (wf.body T r) _ wf.dec
  intro T' r' hr'
  exact ansF_stable wf (rank r) r' T' (rank r) hr' hr'

theorem canon_ne_oof {filt : Nat → List Nat} {P : Nat → Prop} (d : Doc V E) (a : Nat → Nat → Res V E)
    {p : Prog V E} (hp : Fine filt P p) (h : ∀ T r, P r → a T r ≠ .oof) (hd : ∀ r fs, d.decode r fs ≠ .oof) :
    canon a d p ≠ .oof := by
  induction hp with
  | ret x hx => exact hx
  | get T r k hr _ ih =>
    simp only [canon]
    have := h T r hr
    cases hx : a T r with
    | oof => exact absurd hx this
    | ok v => exact ih _ (by simp)
    | err e => exact ih _ (by simp)
  | data r fs k _ _ ih =>
    simp only [canon]
    exact ih _ (hd r fs)

theorem canon_discard {filt : Nat → List Nat} {P : Nat → Prop} (d : Doc V E) (a : Nat → Nat → Res V E)
    {q : Prog V E} (hq : Fine filt P q) (h : ∀ T r, P r → a T r ≠ .oof) (hd : ∀ r fs, d.decode r fs ≠ .oof)
    (x : Res V E) : canon a d (discard q x) = x := by
  induction hq with
  | ret y _ => rfl
  | get T r k hr _ ih =>
    simp only [discard, canon]
    have := h T r hr
    cases hx : a T r with
    | oof => exact absurd hx this
    | ok v => exact ih _ (by simp)
    | err e => exact ih _ (by simp)
  | data r fs k _ _ ih =>
    simp only [discard, canon]
    exact ih _ (hd r fs)

/-- the extra `resolve` of a failed load changes nothing in the answer -/
theorem canon_orLog {filt : Nat → List Nat} {P : Nat → Prop} (d : Doc V E) (a : Nat → Nat → Res V E)
    {p q : Prog V E} (hp : Fine filt P p) (hq : Fine filt P q) (h : ∀ T r, P r → a T r ≠ .oof)
    (hd : ∀ r fs, d.decode r fs ≠ .oof) : canon a d (orLog p q) = canon a d p := by
  induction hp with
  | ret x hx =>
    cases x with
    | ok v => rfl
    | err e => exact canon_discard d a hq h hd _
    | oof => exact absurd rfl hx
  | get T r k hr _ ih =>
    simp only [orLog, canon]
    cases hx : a T r with
    | oof => rfl
    | ok v => exact ih _ (by simp)
    | err e => exact ih _ (by simp)
  | data r fs k _ _ ih =>
    simp only [orLog, canon]
    exact ih _ (hd r fs)

theorem ans_ne_oof {d : Doc V E} {filt : Nat → List Nat} {rank : Nat → Nat} (wf : WF d filt rank) :
    ∀ n r T, rank r < n → ans d rank T r ≠ .oof := by
  intro n
  induction n with
  | zero => intro r T h; omega
  | succ n ih =>
    intro r T hr
    rw [ans_eq wf]
    exact canon_ne_oof d _ (wf.body T r) (fun T' r' hr' => ih r' T' (by omega)) wf.dec

/-- "every cache entry equals the uncached answer for its key": a value stored under `r` with type tag
    `T` is the answer of `get::<T>(r)`; bytes stored under `r` are `r`'s data decoded with `r`'s filters.
    Cached errors need no clause: the repaired `get` never trusts them. -/
def Inv (d : Doc V E) (filt : Nat → List Nat) (a : Nat → Nat → Res V E) (st : St V E) : Prop :=
  (∀ r T v, st.obj.lookup r = some (.val T v) → a T r = .ok v) ∧
  (∀ r x, st.stm.lookup r = some x → x = d.decode r (filt r))

theorem Inv_empty (d : Doc V E) (filt : Nat → List Nat) (a : Nat → Nat → Res V E) : Inv d filt a St.empty := by
  constructor <;> intro r <;> simp [St.empty]

theorem dataM_spec {d : Doc V E} {filt : Nat → List Nat} {a : Nat → Nat → Res V E} (cfg : Cfg) {st : St V E}
    (hi : Inv d filt a st) (r : Nat) :
    (dataM d cfg st r (filt r)).1 = d.decode r (filt r) ∧ Inv d filt a (dataM d cfg st r (filt r)).2 := by
  unfold dataM
  split
  · cases hl : st.stm.lookup r with
    | some v => exact ⟨hi.2 r v hl, hi⟩
    | none =>
      refine ⟨rfl, hi.1, ?_⟩
      intro r' x hx
      simp only [List.lookup_cons] at hx
      by_cases e : r' = r
      · subst e; simp at hx; exact hx.symm
      · have : (r' == r) = false := by simpa using e
        rw [this] at hx
        exact hi.2 r' x hx
  · exact ⟨rfl, hi⟩

theorem store_spec {d : Doc V E} {filt : Nat → List Nat} {a : Nat → Nat → Res V E} {st : St V E}
    (hi : Inv d filt a st) (r T : Nat) (x : Res V E) (hx : x = a T r) :
    (store st r T x).1 = a T r ∧ Inv d filt a (store st r T x).2 := by
  cases x with
  | oof => exact ⟨hx, hi⟩
  | ok v =>
    refine ⟨hx, ?_, hi.2⟩
    intro r' T' v' hl
    simp only [store, List.lookup_cons] at hl
    by_cases e : r' = r
    · subst e
      simp at hl
      obtain ⟨rfl, rfl⟩ := hl
      exact hx.symm
    · have : (r' == r) = false := by simpa using e
      rw [this] at hl
      exact hi.1 r' T' v' hl
  | err e' =>
    refine ⟨hx, ?_, hi.2⟩
    intro r' T' v' hl
    simp only [store, List.lookup_cons] at hl
    by_cases e : r' = r
    · subst e; simp at hl
    · have : (r' == r) = false := by simpa using e
      rw [this] at hl
      exact hi.1 r' T' v' hl

/-- what a correct `get` does for every reference of rank below `n` -/
def GetSpec (d : Doc V E) (filt : Nat → List Nat) (rank : Nat → Nat)
    (getF : List Nat → St V E → Nat → Nat → Res V E × St V E) (n : Nat) : Prop :=
  ∀ r, rank r < n → ∀ ch st T, (∀ c ∈ ch, rank r < rank c) → ch.length + rank r < maxNestedGets →
    Inv d filt (ans d rank) st →
    (getF ch st T r).1 = ans d rank T r ∧ Inv d filt (ans d rank) (getF ch st T r).2

theorem run_spec {d : Doc V E} {filt : Nat → List Nat} {rank : Nat → Nat} (cfg : Cfg)
    {getF : List Nat → St V E → Nat → Nat → Res V E × St V E} {n : Nat}
    (hd : ∀ r fs, d.decode r fs ≠ .oof)
    (hg : GetSpec d filt rank getF n) {p : Prog V E} (hp : Fine filt (fun r' => rank r' < n) p) :
    ∀ ch st, (∀ c ∈ ch, n ≤ rank c) → ch.length + n ≤ maxNestedGets → Inv d filt (ans d rank) st →
      (run getF d cfg ch st p).1 = canon (ans d rank) d p ∧ Inv d filt (ans d rank) (run getF d cfg ch st p).2 := by
  induction hp with
  | ret x _ => intro ch st _ _ hi; exact ⟨rfl, hi⟩
  | get T r k hr _ ih =>
    intro ch st hc hl hi
    have h1 := hg r hr ch st T (fun c hcm => by have := hc c hcm; omega) (by omega) hi
    simp only [run, canon]
    rcases hq : getF ch st T r with ⟨x, st'⟩
    rw [hq] at h1
    simp only at h1
    obtain ⟨hx, hi'⟩ := h1
    rw [← hx]
    cases x with
    | oof => exact ⟨rfl, hi'⟩
    | ok v => exact ih _ (by simp) ch st' hc hl hi'
    | err e => exact ih _ (by simp) ch st' hc hl hi'
  | data r fs k hf _ ih =>
    intro ch st hc hl hi
    subst hf
    simp only [run, canon]
    have h1 := dataM_spec (a := ans d rank) cfg hi r
    rw [h1.1]
    exact ih _ (hd r (filt r)) ch _ hc hl h1.2

theorem GetSpec.mono {d : Doc V E} {filt : Nat → List Nat} {rank : Nat → Nat}
    {getF : List Nat → St V E → Nat → Nat → Res V E × St V E} {n m : Nat}
    (h : GetSpec d filt rank getF n) (hm : m ≤ n) : GetSpec d filt rank getF m :=
  fun r hr => h r (by omega)

/-- The guarded, memoising `get` returns the unguarded uncached answer and keeps the invariant, for
    every configuration in which cached errors are not trusted. -/
theorem getM_spec {d : Doc V E} {filt : Nat → List Nat} {rank : Nat → Nat} (wf : WF d filt rank)
    (cfg : Cfg) (ht : cfg.trustErr = false) : ∀ f, GetSpec d filt rank (getM d cfg f) f := by
  intro f
  induction f with
  | zero => intro r hr; omega
  | succ f ih =>
    intro r hr ch st T hc hlen hi
    have hnot : r ∉ ch := fun hm => by have := hc r hm; omega
    have hdeep : ¬ maxNestedGets ≤ ch.length := by omega
    have hR := run_spec cfg wf.dec (ih.mono (by omega : rank r ≤ f)) (wf.body T r) (r :: ch) st
      (by intro c hcm; simp at hcm; rcases hcm with rfl | hcm
          · omega
          · have := hc c hcm; omega) (by simp only [List.length_cons]; omega) hi
    rw [← ans_eq wf] at hR
    have hC := run_spec cfg wf.dec (ih.mono (by omega : rank r ≤ f)) ((wf.body T r).orLog (wf.relog r)) (r :: ch) st
      (by intro c hcm; simp at hcm; rcases hcm with rfl | hcm
          · omega
          · have := hc c hcm; omega) (by simp only [List.length_cons]; omega) hi
    rw [show orLog (d.body T r) (d.relog r) = d.compute T r from rfl,
        show canon (ans d rank) d (d.compute T r) = ans d rank T r from by
          rw [ans_eq wf T r]
          exact canon_orLog d _ (wf.body T r) (wf.relog r) (fun T' r' h' => ans_ne_oof wf (rank r) r' T' h') wf.dec] at hC
    simp only [getM, hnot, hdeep, if_false]
    split
    · -- object cache on
      cases hl : st.obj.lookup r with
      | none => exact store_spec hC.2 r T _ hC.1
      | some e =>
        cases e with
        | val T' v =>
          simp only
          split
          · rename_i e; subst e; exact ⟨(hi.1 r T' v hl).symm, hi⟩
          · exact hR
        | err e =>
          simp only [ht]
          exact hR
    · exact hC

end Cache
