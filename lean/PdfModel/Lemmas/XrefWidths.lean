import PdfModel.Lemmas.SaveShape

/-! `byte_len`, big-endian fields and the `/W` widths of the cross-reference stream. -/

namespace Storage
open Xref

/-- `n` fits into `byteLen n` bytes -/
theorem lt_pow_byteLen : ∀ n : Nat, n < 256 ^ byteLen n := by
  intro n
  induction n using Nat.strongRecOn with
  | ind n ih =>
    rw [byteLen]
    split
    · rename_i h; simpa using h
    · rename_i h
      have h1 : n / 256 < n := Nat.div_lt_self (by omega) (by omega)
      have h2 := ih (n / 256) h1
      have h3 : 256 ^ (1 + byteLen (n / 256)) = 256 ^ byteLen (n / 256) * 256 := by
        rw [Nat.add_comm, Nat.pow_succ]
      rw [h3]
      have h4 : n < (n / 256 + 1) * 256 := by omega
      exact Nat.lt_of_lt_of_le h4 (Nat.mul_le_mul_right 256 h2)

theorem byteLen_pos (n : Nat) : 1 ≤ byteLen n := by
  rw [byteLen]; split <;> omega

/-- and into no fewer (for `n ≥ 256`): `byteLen` is the exact number of base-256 digits -/
theorem pow_byteLen_le (n : Nat) (h : 256 ≤ n) : 256 ^ (byteLen n - 1) ≤ n := by
  induction n using Nat.strongRecOn with
  | ind n ih =>
    rw [byteLen]
    rw [if_neg (by omega)]
    simp only [Nat.add_sub_cancel_left]
    by_cases h2 : 256 ≤ n / 256
    · have h1 : n / 256 < n := Nat.div_lt_self (by omega) (by omega)
      have := ih (n / 256) h1 h2
      have hb := byteLen_pos (n / 256)
      have h3 : 256 ^ byteLen (n / 256) = 256 ^ (byteLen (n / 256) - 1) * 256 := by
        rw [← Nat.pow_succ]; congr 1; omega
      rw [h3]
      calc 256 ^ (byteLen (n / 256) - 1) * 256 ≤ (n / 256) * 256 := Nat.mul_le_mul_right 256 this
        _ ≤ n := by omega
    · have : byteLen (n / 256) = 1 := by rw [byteLen]; rw [if_pos (by omega)]
      rw [this]; simpa using h

/-- `byteLen` is determined by the two bounds: `n` has exactly `k + 1` base-256 digits -/
theorem byteLen_unique (n k : Nat) (hlo : 256 ^ k ≤ n) (hhi : n < 256 ^ (k + 1)) : byteLen n = k + 1 := by
  have h1 := lt_pow_byteLen n
  have hp := byteLen_pos n
  by_cases hk : k = 0
  · subst hk
    rw [byteLen, if_pos (by simpa using hhi)]
  · have h256 : 256 ≤ n := by
      have : 256 ^ 1 ≤ 256 ^ k := Nat.pow_le_pow_right (by decide) (by omega)
      simp only [Nat.pow_one] at this; omega
    have h2 := pow_byteLen_le n h256
    apply Nat.le_antisymm
    · apply Classical.byContradiction; intro hgt
      have : 256 ^ (k + 1) ≤ 256 ^ (byteLen n - 1) := Nat.pow_le_pow_right (by decide) (by omega)
      omega
    · apply Classical.byContradiction; intro hlt
      have : 256 ^ byteLen n ≤ 256 ^ k := Nat.pow_le_pow_right (by decide) (by omega)
      omega

def decodeBE (l : List Nat) : Nat := l.foldl (fun acc b => acc * 256 + b) 0

theorem beBytes_length : ∀ (w n : Nat), (beBytes w n).length = w := by
  intro w
  induction w with
  | zero => intro n; rfl
  | succ w ih => intro n; simp [beBytes, ih]

theorem beBytes_lt : ∀ (w n : Nat), ∀ b ∈ beBytes w n, b < 256 := by
  intro w
  induction w with
  | zero => intro n b hb; simp [beBytes] at hb
  | succ w ih =>
    intro n b hb
    simp only [beBytes, List.mem_append, List.mem_singleton] at hb
    rcases hb with hb | rfl
    · exact ih _ b hb
    · omega

/-- a field written with enough bytes is read back as it was -/
theorem decode_beBytes : ∀ (w n : Nat), n < 256 ^ w → decodeBE (beBytes w n) = n := by
  intro w
  induction w with
  | zero => intro n h; simp at h; subst h; rfl
  | succ w ih =>
    intro n h
    have h1 : n / 256 < 256 ^ w := by
      rw [Nat.pow_succ] at h
      exact Nat.div_lt_of_lt_mul (by rw [Nat.mul_comm]; exact h)
    simp only [beBytes, decodeBE, List.foldl_append, List.foldl_cons, List.foldl_nil]
    have := ih (n / 256) h1
    simp only [decodeBE] at this
    rw [this]; omega

theorem maxFields_ge : ∀ (t : List XRef) (e : XRef) (ty a b : Nat), e ∈ t → e ≠ .promised →
    fieldsOf e = some (ty, a, b) → a ≤ (maxFields t).1 ∧ b ≤ (maxFields t).2 := by
  intro t
  induction t with
  | nil => intro e ty a b he; cases he
  | cons x xs ih =>
    intro e ty a b he hne hf
    simp only [List.mem_cons] at he
    simp only [maxFields]
    rcases he with rfl | he
    · cases e <;> simp_all [fieldsOf] <;> omega
    · have := ih e ty a b he hne hf
      cases x <;> simp [fieldsOf] <;> omega

theorem fieldsOf_rowOf (e r : XRef) (h : rowOf e = some r) : fieldsOf r = fieldsOf e := by
  cases e <;> simp [rowOf] at h <;> subst h <;> rfl

variable {V : Type}

/-- **/W**: every field of every row written fits the width announced for its column, so the bytes of
    the row decode to the row -/
theorem width_fits_c (P : Params V) (L : Layout) (hL : L.Pos) (d0 d d' : Doc V) (chain0) (i : SaveInfo)
    (hb : BaseOK d0 chain0) (hi : Inv d0 d) (h : Committed P L d d'.st i) :
    1 ≤ i.aw ∧ 1 ≤ i.bw ∧
    ∀ r ∈ i.rows, ∀ ty a b, fieldsOf r = some (ty, a, b) →
      a < 256 ^ i.aw ∧ b < 256 ^ i.bw ∧
      rowBytes i.aw i.bw r = ty :: (beBytes i.aw a ++ beBytes i.bw b) ∧
      decodeBE (beBytes i.aw a) = a ∧ decodeBE (beBytes i.bw b) = b := by
  have sh := save_shape_c P L hL d0 d d' chain0 i hb hi h
  have hw := save_ok_widths_c P L d d' i h
  simp only [widths] at hw
  have haw : i.aw = byteLen (maxFields d'.st.refs).1 := by
    have := congrArg Prod.fst hw; simpa using this
  have hbw : i.bw = byteLen (maxFields d'.st.refs).2 := by
    have := congrArg Prod.snd hw; simpa using this
  refine ⟨by rw [haw]; exact byteLen_pos _, by rw [hbw]; exact byteLen_pos _, ?_⟩
  intro r hr ty a b hf
  obtain ⟨j, hj⟩ := List.getElem?_of_mem hr
  have hjl : j < i.rows.length := (List.getElem?_eq_some_iff.mp hj).1
  have hjt : j < d'.st.refs.length := by rw [sh.table_len]; have := sh.rows_len.1; omega
  obtain ⟨r', a1, a2⟩ := sh.rows_of_table j d'.st.refs[j] (by simp [hjt])
  rw [hj] at a2; simp only [Option.some.injEq] at a2; subst a2
  have hne : d'.st.refs[j] ≠ .promised := by intro hp; rw [hp] at a1; simp [rowOf] at a1
  have hf2 : fieldsOf d'.st.refs[j] = some (ty, a, b) := by rw [← fieldsOf_rowOf _ _ a1]; exact hf
  obtain ⟨m1, m2⟩ := maxFields_ge d'.st.refs _ ty a b (List.getElem_mem hjt) hne hf2
  have ha : a < 256 ^ i.aw := by rw [haw]; exact Nat.lt_of_le_of_lt m1 (lt_pow_byteLen _)
  have hb' : b < 256 ^ i.bw := by rw [hbw]; exact Nat.lt_of_le_of_lt m2 (lt_pow_byteLen _)
  exact ⟨ha, hb', by simp [rowBytes, hf], decode_beBytes _ _ ha, decode_beBytes _ _ hb'⟩

theorem width_fits (P : Params V) (L : Layout) (hL : L.Pos) (d0 d d' : Doc V) (chain0) (i : SaveInfo)
    (hb : BaseOK d0 chain0) (hi : Inv d0 d) (h : save P L d = (d', .ok i)) :
    1 ≤ i.aw ∧ 1 ≤ i.bw ∧
    ∀ r ∈ i.rows, ∀ ty a b, fieldsOf r = some (ty, a, b) →
      a < 256 ^ i.aw ∧ b < 256 ^ i.bw ∧
      rowBytes i.aw i.bw r = ty :: (beBytes i.aw a ++ beBytes i.bw b) ∧
      decodeBE (beBytes i.aw a) = a ∧ decodeBE (beBytes i.bw b) = b :=
  width_fits_c P L hL d0 d d' chain0 i hb hi (committed_of_ok P L d d' i h)

end Storage
