import PdfModel.Model.Crypt
import PdfModel.Spec.StdSecurity

/-! Helper lemmas for `Props/C06` (core Lean only). -/

namespace Crypt
open StdSec

/-! ## bytes -/

theorem u8_xor_cancel (a b : UInt8) : (a ^^^ b) ^^^ b = a := by
  rw [UInt8.xor_assoc, UInt8.xor_self, UInt8.xor_zero]

theorem xorBytes_length (a b : Bytes) : (xorBytes a b).length = min a.length b.length := by
  simp [xorBytes]

theorem xorBytes_cancel : ∀ (a b : Bytes), a.length ≤ b.length → xorBytes (xorBytes a b) b = a
  | [], _, _ => by simp [xorBytes]
  | _ :: _, [], h => by simp at h
  | x :: a, y :: b, h => by
    have ih := xorBytes_cancel a b (by simpa using h)
    simp only [xorBytes, List.zipWith_cons_cons] at ih ⊢
    rw [ih, u8_xor_cancel]

theorem xorBytes_right_comm : ∀ (a b c : Bytes), xorBytes (xorBytes a b) c = xorBytes (xorBytes a c) b
  | [], _, _ => by simp [xorBytes]
  | _ :: _, [], c => by simp [xorBytes]
  | _ :: _, _ :: _, [] => by simp [xorBytes]
  | x :: a, y :: b, z :: c => by
    have ih := xorBytes_right_comm a b c
    simp only [xorBytes, List.zipWith_cons_cons] at ih ⊢
    rw [ih, UInt8.xor_assoc, UInt8.xor_comm y z, ← UInt8.xor_assoc]

/-! ## RC4 -/

/-- the key stream: what `Rc4.apply` xors onto the data -/
def Rc4.stream (r : Rc4) : Nat → Bytes
  | 0 => []
  | n + 1 => r.next.2 :: Rc4.stream r.next.1 n

theorem Rc4.stream_length (r : Rc4) (n : Nat) : (r.stream n).length = n := by
  induction n generalizing r with
  | zero => rfl
  | succ n ih => simp [Rc4.stream, ih]

theorem Rc4.apply_eq_xor (r : Rc4) (d : Bytes) : r.apply d = xorBytes d (r.stream d.length) := by
  induction d generalizing r with
  | nil => simp [Rc4.apply, xorBytes]
  | cons b bs ih => simp [Rc4.apply, Rc4.stream, xorBytes, ih] 

theorem Rc4.apply_length (r : Rc4) (d : Bytes) : (r.apply d).length = d.length := by
  rw [Rc4.apply_eq_xor, xorBytes_length, Rc4.stream_length]; simp

/-- applying the key stream twice is the identity -/
theorem Rc4.apply_apply (r : Rc4) (d : Bytes) : r.apply (r.apply d) = d := by
  rw [Rc4.apply_eq_xor r (r.apply d), Rc4.apply_length, Rc4.apply_eq_xor r d]
  exact xorBytes_cancel _ _ (by rw [Rc4.stream_length]; exact Nat.le_refl _)

theorem Rc4.apply_comm (r s : Rc4) (d : Bytes) : r.apply (s.apply d) = s.apply (r.apply d) := by
  rw [Rc4.apply_eq_xor r (s.apply d), Rc4.apply_eq_xor s (r.apply d), Rc4.apply_length, Rc4.apply_length,
    Rc4.apply_eq_xor s d, Rc4.apply_eq_xor r d]
  exact xorBytes_right_comm _ _ _

def validKey (key : Bytes) : Prop := 0 < key.length ∧ key.length ≤ 256

instance (key : Bytes) : Decidable (validKey key) := by unfold validKey; infer_instance

theorem Rc4.new_ok {key : Bytes} (h : validKey key) : ∃ r, Rc4.new key = .ok r := by
  unfold validKey at h
  unfold Rc4.new; rw [dif_pos h]
  generalize List.foldl (ksaStep key h.1) (identityState, 0) (List.finRange 256) = sj
  obtain ⟨s, j⟩ := sj
  exact ⟨_, rfl⟩

theorem Rc4.new_panic {key : Bytes} (h : ¬ validKey key) : Rc4.new key = .panic := by
  unfold validKey at h
  unfold Rc4.new; rw [dif_neg h]

theorem rc4Encrypt_eq {key : Bytes} (h : validKey key) (d : Bytes) : rc4Encrypt key d = .ok (rc4 key d) := by
  obtain ⟨r, hr⟩ := Rc4.new_ok h
  simp [rc4Encrypt, rc4, hr]

theorem rc4Encrypt_panic {key : Bytes} (h : ¬ validKey key) (d : Bytes) : rc4Encrypt key d = .panic := by
  simp [rc4Encrypt, Rc4.new_panic h]

theorem rc4_length (key d : Bytes) : (rc4 key d).length = d.length := by
  unfold rc4; split <;> simp [Rc4.apply_length]

theorem rc4_rc4 (key d : Bytes) : rc4 key (rc4 key d) = d := by
  unfold rc4; split <;> simp [Rc4.apply_apply]

theorem rc4_comm (k1 k2 d : Bytes) : rc4 k1 (rc4 k2 d) = rc4 k2 (rc4 k1 d) := by
  unfold rc4; split <;> split <;> simp [Rc4.apply_comm]

/-! ## chains of RC4 passes -/

theorem xorKey_length (k : Bytes) (i : Nat) : (xorKey k i).length = k.length := by simp [xorKey]

theorem validKey_xorKey {k : Bytes} (h : validKey k) (i : Nat) : validKey (xorKey k i) := by
  unfold validKey at *; rw [xorKey_length]; exact h

theorem xorKey_zero (k : Bytes) : xorKey k 0 = k := by
  simp [xorKey]

theorem rc4Chain_length (k : Bytes) (is : List Nat) (d : Bytes) : (rc4Chain k is d).length = d.length := by
  induction is generalizing d with
  | nil => rfl
  | cons i is ih => simp [rc4Chain, List.foldl_cons] at ih ⊢; rw [ih, rc4_length]

theorem rc4Chain_cons (k : Bytes) (i : Nat) (is : List Nat) (d : Bytes) :
    rc4Chain k (i :: is) d = rc4Chain k is (rc4 (xorKey k i) d) := rfl

theorem rc4Chain_append (k : Bytes) (a b : List Nat) (d : Bytes) :
    rc4Chain k (a ++ b) d = rc4Chain k b (rc4Chain k a d) := by
  simp [rc4Chain, List.foldl_append]

/-- a pass commutes with a chain -/
theorem rc4Chain_rc4 (k k' : Bytes) (is : List Nat) (d : Bytes) :
    rc4Chain k is (rc4 k' d) = rc4 k' (rc4Chain k is d) := by
  induction is generalizing d with
  | nil => rfl
  | cons i is ih => rw [rc4Chain_cons, rc4Chain_cons, rc4_comm, ih]

/-- the order of the passes does not matter (Algorithm 7 runs 19 … 0, `from_password` runs 0 … 19) -/
theorem rc4Chain_reverse (k : Bytes) (is : List Nat) (d : Bytes) : rc4Chain k is.reverse d = rc4Chain k is d := by
  induction is generalizing d with
  | nil => rfl
  | cons i is ih =>
    rw [List.reverse_cons, rc4Chain_append, ih, rc4Chain_cons, rc4Chain_rc4]
    show rc4 (xorKey k i) (rc4Chain k is d) = _
    rw [rc4Chain_cons, rc4Chain_rc4]

/-- running the same chain twice restores the data -/
theorem rc4Chain_involution (k : Bytes) (is : List Nat) (d : Bytes) : rc4Chain k is (rc4Chain k is d) = d := by
  induction is generalizing d with
  | nil => rfl
  | cons i is ih => rw [rc4Chain_cons, rc4Chain_cons, rc4Chain_rc4, rc4Chain_rc4, rc4Chain_rc4, rc4_rc4, ih]

/-- the model's loop over `u8` round numbers is the chain -/
theorem rc4Rounds_eq {k : Bytes} (h : validKey k) (is : List Nat) (d : Bytes) :
    rc4Rounds k (is.map UInt8.ofNat) d = .ok (rc4Chain k is d) := by
  induction is generalizing d with
  | nil => rfl
  | cons i is ih =>
    have hv : validKey (k.map (· ^^^ UInt8.ofNat i)) := validKey_xorKey h i
    simp only [List.map_cons, rc4Rounds, rc4Encrypt_eq hv, Out.bind_ok]
    rw [ih]; rfl

theorem roundList_eq (lo hi : Nat) : roundList lo hi = ((List.range (hi - lo)).map (lo + ·)).map UInt8.ofNat := by
  simp [roundList, List.map_map, Function.comp_def]

/-! ## small encodings -/

theorem PADDING_length : PADDING.length = 32 := rfl

theorem padPass_eq (pw : Bytes) : padPass pw = pad32 pw := by
  unfold padPass pad32
  rw [List.take_append]
  split
  · next h => rw [List.take_of_length_le (Nat.le_of_lt h)]
  · next h => simp [show 32 - pw.length = 0 by omega]

theorem pad32_length (pw : Bytes) : (pad32 pw).length = 32 := by
  simp [pad32, PADDING_length]

theorem pad32_idem (pw : Bytes) : pad32 (pad32 pw) = pad32 pw := by
  have h := pad32_length pw
  unfold pad32 at h ⊢
  rw [List.take_append, List.take_of_length_le (Nat.le_of_eq h), h]; simp

theorem i32le_eq (p : Int) : i32le p = le32 p := by
  simp [i32le, le32, List.range, List.range.loop]

theorem idBytes_eq (id : Nat) : idBytes id = lowBytes 3 id := by
  simp [idBytes, lowBytes, List.range, List.range.loop]

theorem genBytes_eq (gen : Nat) : genBytes gen = lowBytes 2 gen := by
  simp [genBytes, lowBytes, List.range, List.range.loop]

/-! ## iterated MD5 -/

theorem md5Iter_eq {P : Prims} {H : Hashes} (hp : PrimsAgree P H) (k n : Nat) (d : Bytes) :
    md5Iter P k n d = .ok (iter (fun h => H.md5 (h.take k)) n d) := by
  induction n generalizing d with
  | zero => rfl
  | succ n ih => simp only [md5Iter, hp.md5, Out.bind_ok, ih, iter]

theorem iter_length {f : Bytes → Bytes} {m : Nat} (hf : ∀ x, (f x).length = m) (n : Nat) (d : Bytes) (hd : d.length = m) :
    (iter f n d).length = m := by
  induction n generalizing d with
  | zero => exact hd
  | succ n ih => exact ih _ (hf _)

/-! ## CBC over the block function -/

theorem cbcEncryptBlocks_eq {P : Prims} {H : Hashes} (hp : PrimsAgree P H) (key : Bytes) (n : Nat) (prev data : Bytes) :
    cbcEncryptBlocks P key n prev data = .ok (cbcEnc (H.aesE key) n prev data) := by
  unfold cbcEncryptBlocks
  induction n generalizing prev data with
  | zero => rfl
  | succ n ih => simp only [cbcEncryptBlocksF, hp.aesEnc, Out.bind_ok, ih, cbcEnc]

theorem cbcDecryptBlocks_eq {P : Prims} {H : Hashes} (hp : PrimsAgree P H) (key : Bytes) (n : Nat) (prev data : Bytes) :
    cbcDecryptBlocks P key n prev data = .ok (cbcDec (H.aesD key) n prev data) := by
  induction n generalizing prev data with
  | zero => rfl
  | succ n ih => simp only [cbcDecryptBlocks, hp.aesDec, Out.bind_ok, ih, cbcDec]

theorem cbcEnc_length {E : Bytes → Bytes} (hE : ∀ b, b.length = 16 → (E b).length = 16) (n : Nat) (prev data : Bytes)
    (hprev : prev.length = 16) (hdata : data.length = 16 * n) : (cbcEnc E n prev data).length = 16 * n := by
  induction n generalizing prev data with
  | zero => rfl
  | succ n ih =>
    have hx : (xorBytes (data.take 16) prev).length = 16 := by
      rw [xorBytes_length, List.length_take, hprev, hdata]; omega
    simp only [cbcEnc, List.length_append]
    rw [hE _ hx, ih _ _ (hE _ hx) (by rw [List.length_drop, hdata]; omega)]; omega

/-- CBC decryption undoes CBC encryption when the block function has an inverse -/
theorem cbcDec_cbcEnc {E D : Bytes → Bytes} (hE : ∀ b, b.length = 16 → (E b).length = 16)
    (hD : ∀ b, b.length = 16 → D (E b) = b) (n : Nat) (prev data : Bytes)
    (hprev : prev.length = 16) (hdata : data.length = 16 * n) :
    cbcDec D n prev (cbcEnc E n prev data) = data := by
  induction n generalizing prev data with
  | zero => simp at hdata; simp [cbcDec, hdata]
  | succ n ih =>
    have ht : (data.take 16).length = 16 := by rw [List.length_take, hdata]; omega
    have hx : (xorBytes (data.take 16) prev).length = 16 := by
      rw [xorBytes_length, ht, hprev]; rfl
    have hc := hE _ hx
    simp only [cbcEnc, cbcDec]
    rw [List.take_left' hc, List.drop_left' hc, hD _ hx, xorBytes_cancel _ _ (by rw [ht, hprev]; exact Nat.le_refl _),
      ih _ _ hc (by rw [List.length_drop, hdata]; omega), List.take_append_drop]

/-! ## PKCS#7 -/

theorem pkcs7Pad_length (d : Bytes) : (pkcs7Pad d).length % 16 = 0 ∧ 16 ≤ (pkcs7Pad d).length := by
  simp only [pkcs7Pad, List.length_append, List.length_replicate]
  have := Nat.mod_lt d.length (show 16 > 0 by decide)
  constructor <;> omega

theorem pkcs7Unpad_pad (d : Bytes) : pkcs7Unpad (pkcs7Pad d) = .ok d := by
  have hk : 1 ≤ 16 - d.length % 16 ∧ 16 - d.length % 16 ≤ 16 := by
    have := Nat.mod_lt d.length (show 16 > 0 by decide); omega
  generalize hkk : 16 - d.length % 16 = k at hk
  have hpad : pkcs7Pad d = d ++ List.replicate k (UInt8.ofNat k) := by simp [pkcs7Pad, hkk]
  obtain ⟨k', rfl⟩ : ∃ k', k = k' + 1 := ⟨k - 1, by omega⟩
  have hto : (UInt8.ofNat (k' + 1)).toNat = k' + 1 := by
    simp [UInt8.toNat_ofNat']; omega
  have hne : UInt8.ofNat (k' + 1) ≠ 0 := by
    intro h; have := congrArg UInt8.toNat h; rw [hto] at this; simp at this
  rw [hpad]
  unfold pkcs7Unpad
  have hlast : (d ++ List.replicate (k' + 1) (UInt8.ofNat (k' + 1))).getLast? = some (UInt8.ofNat (k' + 1)) := by
    rw [List.replicate_succ', ← List.append_assoc, List.getLast?_append]; simp
  rw [hlast]
  simp only [hto]
  rw [if_neg (by intro h; rcases h with h | h; exact hne h; omega)]
  have hlen : (d ++ List.replicate (k' + 1) (UInt8.ofNat (k' + 1))).length - (k' + 1) = d.length := by simp
  simp only [hlen, List.drop_left, List.take_left]
  rw [if_neg]
  simp [List.replicate_succ']

/-! ## `from_password`, revisions 2–4, piece by piece -/

theorem iter_congr {α : Type} {f g : α → α} (Q : α → Prop) (hQ : ∀ a, Q a → Q (f a)) (hfg : ∀ a, Q a → f a = g a)
    (n : Nat) (a : α) (ha : Q a) : iter f n a = iter g n a := by
  induction n generalizing a with
  | zero => rfl
  | succ n ih => simp only [iter]; rw [← hfg a ha]; exact ih _ (hQ a ha)

theorem alg2Digest_length {H : Hashes} (hw : H.WF) (r n : Nat) (o : Bytes) (p : Int) (id0 : Bytes) (em : Bool) (pw : Bytes) :
    (alg2Digest H r n o p id0 em pw).length = 16 := by
  unfold alg2Digest
  simp only []
  by_cases h3 : r ≥ 3
  · rw [if_pos h3]; exact iter_length (fun x => hw.md5_len _) _ _ (hw.md5_len _)
  · rw [if_neg h3]; exact hw.md5_len _

theorem keyDerivUser_eq {P : Prims} {H : Hashes} (hp : PrimsAgree P H) (r n : Nat) (hn : n ≤ 16) (d : CryptDict) (id pw : Bytes) :
    keyDerivUser P r n d id pw = .ok (alg2Digest H r n d.o d.p id d.encryptMetadata pw) := by
  have hsuf : (if r ≥ 4 ∧ (!d.encryptMetadata) = true then ([0xff, 0xff, 0xff, 0xff] : Bytes) else []) =
      (if r ≥ 4 ∧ d.encryptMetadata = false then [0xff, 0xff, 0xff, 0xff] else []) := by
    cases d.encryptMetadata <;> simp
  unfold keyDerivUser alg2Digest
  simp only [hp.md5, Out.bind_ok, padPass_eq, i32le_eq, hsuf, Nat.min_eq_left hn,
    show max n 16 - 16 = 0 by omega, List.replicate_zero, List.append_nil]
  by_cases h3 : r ≥ 3
  · simp only [if_pos h3, md5Iter_eq hp, Out.bind_ok]
  · simp only [if_neg h3, Out.bind_ok]

theorem keyDerivOwner_eq {P : Prims} {H : Hashes} (hp : PrimsAgree P H) (hw : H.WF) (r n : Nat) (hn : n ≤ 16) (pw : Bytes) :
    keyDerivOwner P r n pw = .ok (alg3Key H r n pw) := by
  unfold keyDerivOwner alg3Key
  rw [if_neg (by omega)]
  simp only [hp.md5, Out.bind_ok, padPass_eq]
  by_cases h3 : r ≥ 3
  · simp only [if_pos h3, md5Iter_eq hp, Out.bind_ok]
    rw [iter_congr (fun a : Bytes => a.length = 16) (fun a _ => hw.md5_len _)
      (fun a ha => by rw [List.take_of_length_le (Nat.le_of_eq ha)]) 50 _ (hw.md5_len _)]
  · simp only [if_neg h3, Out.bind_ok]

theorem range20 : List.range 20 = 0 :: (List.range 19).map (1 + ·) := by decide

theorem computeURev34_eq {P : Prims} {H : Hashes} (hp : PrimsAgree P H) (id k : Bytes) (hk : validKey k) :
    computeURev34 P id k = .ok (rc4Chain k (List.range 20) (H.md5 (PADDING ++ id))) := by
  unfold computeURev34
  simp only [hp.md5, Out.bind_ok, rc4Encrypt_eq hk]
  rw [show roundList 1 20 = ((List.range 19).map (1 + ·)).map UInt8.ofNat from roundList_eq 1 20, rc4Rounds_eq hk,
    range20, rc4Chain_cons, xorKey_zero]

/-- the boolean the model computes is the decision of the standard's comparison -/
theorem checkPasswordRc4_eq {P : Prims} {H : Hashes} (hp : PrimsAgree P H) (hw : H.WF) (r : Nat) (u id k : Bytes) (hk : validKey k) :
    checkPasswordRc4 P r u id k = .ok (decide (if r = 2 then makeU H 2 k id [] = u else makeU H r k id [] = u.take 16)) := by
  unfold checkPasswordRc4
  by_cases h2 : r = 2
  · simp only [if_pos h2, computeURev2, rc4Encrypt_eq hk, Out.bind_ok, makeU]
    congr 1
    by_cases hc : rc4 k PADDING = u <;> simp [hc]
  · simp only [if_neg h2, computeURev34_eq hp id k hk, Out.bind_ok, makeU, List.append_nil]
    congr 1
    have hl : (rc4Chain k (List.range 20) (H.md5 (PADDING ++ id))).length = 16 := by
      rw [rc4Chain_length, hw.md5_len]
    generalize rc4Chain k (List.range 20) (H.md5 (PADDING ++ id)) = c at hl
    unfold startsWith
    rw [hl]
    by_cases hc : c = u.take 16
    · have : 16 ≤ u.length := by
        have := congrArg List.length hc; rw [hl, List.length_take] at this; omega
      simp [hc, this]
    · have : ¬ (u.take 16 = c) := fun e => hc e.symm
      simp [hc, this]

/-! ## Algorithm 2.B: the loop of `revision_6_kdf` is the loop of the standard -/

theorem foldl_add_toNat (bs : Bytes) (a : Nat) : bs.foldl (fun a b => a + b.toNat) a = a + bs.foldl (fun a b => a + b.toNat) 0 := by
  induction bs generalizing a with
  | nil => simp
  | cons b bs ih => simp only [List.foldl_cons]; rw [ih, ih (0 + b.toNat)]; omega

theorem sumBytes_cons (b : UInt8) (bs : Bytes) : sumBytes (b :: bs) = b.toNat + sumBytes bs := by
  unfold sumBytes; simp only [List.foldl_cons]; rw [foldl_add_toNat]; omega

/-- 256 ≡ 1 (mod 3): the big-endian number and the byte sum agree modulo 3 -/
theorem beNat_mod3 (bs : Bytes) : beNat bs % 3 = sumBytes bs % 3 := by
  induction bs with
  | nil => rfl
  | cons b bs ih =>
    have h1 : 256 ^ bs.length % 3 = 1 := by rw [Nat.pow_mod]; simp
    rw [beNat, sumBytes_cons, Nat.add_mod, Nat.mul_mod, h1, ih]
    simp [Nat.add_mod]

theorem flatten_replicate_length (n : Nat) (unit : Bytes) : (List.replicate n unit).flatten.length = n * unit.length := by
  induction n with
  | zero => simp
  | succ n ih => rw [List.replicate_succ, List.flatten_cons, List.length_append, ih]; rw [Nat.succ_mul]; omega

theorem repeat64_length (unit : Bytes) : (repeat64 unit).length = 64 * unit.length :=
  flatten_replicate_length 64 unit

def optOut {α : Type} : Option α → Out α
  | some a => .ok a
  | none => .oof

/-- what stays true of `K` from round to round -/
def KLen (k : Bytes) : Prop := k.length = 32 ∨ k.length = 48 ∨ k.length = 64

theorem kdfRound_eq {P : Prims} {H : Hashes} (hp : PrimsAgree P H) (hw : H.WF) (pw u k : Bytes)
    (hpw : pw.length ≤ 127) (hu : u.length ≤ 48) (hk : KLen k) :
    kdfRound P pw u k = .ok (round2B H pw u k) ∧ KLen (round2B H pw u k).1 := by
  have hul : (pw ++ k ++ u).length * 64 ≤ 15360 := by
    simp only [List.length_append]; unfold KLen at hk; omega
  have hpos : 0 < (pw ++ k ++ u).length := by
    simp only [List.length_append]; unfold KLen at hk; omega
  have hiv : ((k.drop 16).take 16).length = 16 := by
    rw [List.length_take, List.length_drop]; unfold KLen at hk; omega
  have hrl := repeat64_length (pw ++ k ++ u)
  have hel : (cbcEnc (H.aesE (k.take 16)) ((repeat64 (pw ++ k ++ u)).length / 16) ((k.drop 16).take 16) (repeat64 (pw ++ k ++ u))).length
      = 16 * ((repeat64 (pw ++ k ++ u)).length / 16) :=
    cbcEnc_length (hw.aesE_len _) _ _ _ hiv (by rw [hrl]; omega)
  constructor
  · unfold kdfRound round2B
    simp only []
    rw [if_neg (by omega)]
    unfold cbcEncryptNoPad
    rw [if_neg (by rw [hrl]; omega), cbcEncryptBlocks_eq hp, Out.bind_ok]
    rw [show (List.replicate 64 (pw ++ k ++ u)).flatten = repeat64 (pw ++ k ++ u) from rfl]
    have hel' : (cbcEnc (H.aesE (k.take 16)) ((repeat64 (pw ++ k ++ u)).length / 16) ((k.drop 16).take 16) (repeat64 (pw ++ k ++ u))).length
        = 64 * (pw ++ k ++ u).length := by rw [hel, hrl]; omega
    generalize cbcEnc (H.aesE (k.take 16)) ((repeat64 (pw ++ k ++ u)).length / 16) ((k.drop 16).take 16) (repeat64 (pw ++ k ++ u)) = e at hel'
    have hne : e ≠ [] := by
      intro h; rw [h, List.length_nil] at hel'; omega
    obtain ⟨last, hlast⟩ : ∃ l, e.getLast? = some l := by
      cases hh : e.getLast? with
      | none => exact absurd (List.getLast?_eq_none_iff.mp hh) hne
      | some l => exact ⟨l, rfl⟩
    rw [hlast]
    have hm := beNat_mod3 (e.take 16)
    have hlt := Nat.mod_lt (beNat (e.take 16)) (show 3 > 0 by decide)
    rw [← hm]
    generalize beNat (e.take 16) % 3 = m at hlt
    by_cases h0 : m = 0
    · rw [if_pos (by omega), if_pos h0, hp.sha256]; rfl
    · by_cases h1 : m = 1
      · rw [if_neg (by omega), if_pos (by omega), if_neg h0, if_pos h1, hp.sha384]; rfl
      · rw [if_neg (by omega), if_neg (by omega), if_neg h0, if_neg h1, hp.sha512]; rfl
  · unfold round2B KLen
    simp only []
    split
    · exact Or.inl (hw.sha256_len _)
    · split
      · exact Or.inr (Or.inl (hw.sha384_len _))
      · exact Or.inr (Or.inr (hw.sha512_len _))

theorem kdfLoop_eq {P : Prims} {H : Hashes} (hp : PrimsAgree P H) (hw : H.WF) (pw u : Bytes)
    (hpw : pw.length ≤ 127) (hu : u.length ≤ 48) (f : Nat) :
    ∀ (i : Nat) (k : Bytes) (last : UInt8), KLen k → (i < 64 ∨ i < last.toNat + 32) →
      kdfLoop P pw u (f + 1) i k last = optOut (loop2B H pw u f i k) := by
  induction f with
  | zero =>
    intro i k last hk hc
    have ⟨hr, _⟩ := kdfRound_eq hp hw pw u k hpw hu hk
    simp only [kdfLoop, if_pos hc, hr, Out.bind_ok, loop2B, optOut]
  | succ f ih =>
    intro i k last hk hc
    have ⟨hr, hk'⟩ := kdfRound_eq hp hw pw u k hpw hu hk
    rw [kdfLoop, if_pos hc, hr, Out.bind_ok]
    simp only [loop2B]
    generalize round2B H pw u k = r at hk' ⊢
    obtain ⟨k', l⟩ := r
    simp only []
    by_cases hc' : i + 1 < 64 ∨ i + 1 < l.toNat + 32
    · rw [ih (i + 1) k' l hk' hc', if_neg (by omega)]
    · rw [if_pos (by omega), kdfLoop, if_neg hc']; rfl

theorem loop2B_isSome (H : Hashes) (pw u : Bytes) (f : Nat) :
    ∀ (i : Nat) (k : Bytes), 1 ≤ f → 288 ≤ i + f → (loop2B H pw u f i k).isSome = true := by
  induction f with
  | zero => intro i k h; omega
  | succ f ih =>
    intro i k _ hif
    simp only [loop2B]
    generalize round2B H pw u k = r
    obtain ⟨k', l⟩ := r
    have hl := UInt8.toNat_lt l
    simp only []
    by_cases hx : i + 1 ≥ 64 ∧ l.toNat + 32 ≤ i + 1
    · rw [if_pos hx]; rfl
    · rw [if_neg hx]; exact ih (i + 1) k' (by omega) (by omega)

/-- `revision_6_kdf` computes Algorithm 2.B, for every password of at most 127 bytes and `u` of at most 48 -/
theorem revision6Kdf_eq {P : Prims} {H : Hashes} (hp : PrimsAgree P H) (hw : H.WF) (pw salt u : Bytes)
    (hpw : pw.length ≤ 127) (hu : u.length ≤ 48) : revision6Kdf P pw salt u = .ok (hash2B H pw salt u) := by
  unfold revision6Kdf hash2B
  rw [hp.sha256, Out.bind_ok, kdfLoop_eq hp hw pw u hpw hu 288 0 _ 0 (Or.inl (hw.sha256_len _)) (Or.inl (by decide))]
  have := loop2B_isSome H pw u 288 0 (H.sha256 (pw ++ salt ++ u)) (by decide) (by decide)
  cases hh : loop2B H pw u 288 0 (H.sha256 (pw ++ salt ++ u)) with
  | none => rw [hh] at this; cases this
  | some k => rfl

theorem hash56_eq {P : Prims} {H : Hashes} (hp : PrimsAgree P H) (hw : H.WF) (level : Nat) (pw salt u : Bytes)
    (hpw : pw.length ≤ 127) (hu : u.length ≤ 48) : Crypt.hash56 P level pw salt u = .ok (StdSec.hash56 H level pw salt u) := by
  unfold Crypt.hash56 StdSec.hash56
  by_cases h6 : level = 6
  · rw [if_pos h6, if_pos h6, revision6Kdf_eq hp hw pw salt u hpw hu]
  · rw [if_neg h6, if_neg h6, hp.sha256]

/-! ## helper lemmas of `Props/C06` -/

theorem ite_isEmpty_of_length_pos {α : Type} (l : Bytes) (h : 0 < l.length) (a b : α)
    [inst : Decidable (l.isEmpty = true)] : (@ite α (l.isEmpty = true) inst a b) = b := by
  have hn : ¬ (l.isEmpty = true) := by
    cases l with
    | nil => simp at h
    | cons _ _ => simp
  rw [if_neg hn]

theorem rc4_roundtrip_aux (okey data : Bytes) (hv : validKey okey) :
    (if (rc4 okey data).isEmpty = true then Out.ok (rc4 okey data) else rc4Encrypt okey (rc4 okey data)) = .ok data := by
  rw [rc4Encrypt_eq hv, rc4_rc4]
  cases data with
  | nil =>
    have : rc4 okey [] = [] := List.eq_nil_of_length_eq_zero (by rw [rc4_length]; rfl)
    rw [this]; rfl
  | cons x xs => exact ite_isEmpty_of_length_pos _ (by rw [rc4_length]; simp) _ _

theorem decrypt_v2 (P : Prims) (d : Decoder) (id gen : Nat) (data : Bytes) (h : ¬ Exempt d id gen) (hm : d.method = .v2) :
    decrypt P d id gen data =
      if data.isEmpty then .ok data else
      d.keyOf.bind fun k => (P.md5 (k ++ idBytes id ++ genBytes gen)).bind fun h =>
          rc4Encrypt (h.take (min (k.length + 5) 16)) data := by
  unfold Exempt at h
  have h1 : ¬ d.encryptRef = some (id, gen) := fun e => h (Or.inl e)
  have h2 : ¬ ((!d.encryptMetadata) = true ∧ d.metadataRef = some (id, gen)) := by
    intro ⟨a, b⟩; exact h (Or.inr ⟨by simpa using a, b⟩)
  unfold decrypt
  rw [if_neg h1, if_neg h2, hm]

theorem decrypt_aesv2 (P : Prims) (d : Decoder) (id gen : Nat) (data : Bytes) (h : ¬ Exempt d id gen) (hm : d.method = .aesv2) :
    decrypt P d id gen data =
      if data.isEmpty then .ok data else
      d.keyOf.bind fun k => (P.md5 (k ++ idBytes id ++ genBytes gen ++ sAlT)).bind fun h =>
          if data.length < 16 then .err
          else cbcDecryptPkcs7 P 16 (h.take (min (min d.keySize 16 + 5) 16)) (data.take 16) (data.drop 16) := by
  unfold Exempt at h
  have h1 : ¬ d.encryptRef = some (id, gen) := fun e => h (Or.inl e)
  have h2 : ¬ ((!d.encryptMetadata) = true ∧ d.metadataRef = some (id, gen)) := by
    intro ⟨a, b⟩; exact h (Or.inr ⟨by simpa using a, b⟩)
  unfold decrypt
  rw [if_neg h1, if_neg h2, hm]

theorem decrypt_aesv3 (P : Prims) (d : Decoder) (id gen : Nat) (data : Bytes) (h : ¬ Exempt d id gen) (hm : d.method = .aesv3) :
    decrypt P d id gen data =
      if data.isEmpty then .ok data else
      if data.length < 16 then .err else cbcDecryptPkcs7 P 32 d.key (data.take 16) (data.drop 16) := by
  unfold Exempt at h
  have h1 : ¬ d.encryptRef = some (id, gen) := fun e => h (Or.inl e)
  have h2 : ¬ ((!d.encryptMetadata) = true ∧ d.metadataRef = some (id, gen)) := by
    intro ⟨a, b⟩; exact h (Or.inr ⟨by simpa using a, b⟩)
  unfold decrypt
  rw [if_neg h1, if_neg h2, hm]

/-- the CBC + PKCS#7 part shared by AESV2 and AESV3 -/
theorem cbcDecryptPkcs7_encrypt {P : Prims} {H : Hashes} (hp : PrimsAgree P H) (hw : H.WF) (klen : Nat) (key iv data : Bytes)
    (hkl : key.length = klen) (hk : klen = 16 ∨ klen = 32) (hiv : iv.length = 16) :
    cbcDecryptPkcs7 P klen key iv (cbcEnc (H.aesE key) ((pkcs7Pad data).length / 16) iv (pkcs7Pad data)) = .ok data := by
  have ⟨hmod, _⟩ := pkcs7Pad_length data
  have hlen : (pkcs7Pad data).length = 16 * ((pkcs7Pad data).length / 16) := by omega
  have hE : ∀ b, b.length = 16 → (H.aesE key b).length = 16 := hw.aesE_len key
  have hD : ∀ b, b.length = 16 → H.aesD key (H.aesE key b) = b := fun b hb => hw.aesD_E key b (by omega) hb
  have hcl := cbcEnc_length hE _ iv (pkcs7Pad data) hiv hlen
  unfold cbcDecryptPkcs7
  rw [if_neg (by omega), if_neg (by omega), cbcDecryptBlocks_eq hp, Out.bind_ok, hcl]
  rw [show 16 * ((pkcs7Pad data).length / 16) / 16 = (pkcs7Pad data).length / 16 by omega]
  rw [cbcDec_cbcEnc hE hD _ iv _ hiv hlen, pkcs7Unpad_pad]

theorem authUser_eq (H : Hashes) (r n : Nat) (o u : Bytes) (p : Int) (id : Bytes) (em : Bool) (pw : Bytes) :
    authUser H r n o u p id em pw =
      if UCheck H r u id ((alg2Digest H r n o p id em pw).take n) then some (alg2Digest H r n o p id em pw) else none := by
  unfold authUser UCheck
  by_cases h2 : r = 2 <;> simp [h2]

theorem ucheck_written {H : Hashes} (hw : H.WF) {d : CryptDict} {id0 : Bytes} {n : Nat} {userPw ownerPw tail : Bytes}
    (w : WrittenRc4 H d id0 n userPw ownerPw tail) :
    UCheck H d.r d.u id0 ((alg2Digest H d.r n d.o d.p id0 d.encryptMetadata userPw).take n) := by
  unfold UCheck
  rw [w.u]
  unfold alg2Key makeU
  by_cases h2 : d.r = 2
  · simp [h2]
  · simp only [if_neg h2, List.append_nil]
    rw [List.take_left']
    rw [rc4Chain_length, hw.md5_len]

theorem alg2Digest_pad32 (H : Hashes) (r n : Nat) (o : Bytes) (p : Int) (id0 : Bytes) (em : Bool) (pw : Bytes) :
    alg2Digest H r n o p id0 em (pad32 pw) = alg2Digest H r n o p id0 em pw := by
  unfold alg2Digest; rw [pad32_idem]

theorem authenticate_some {H : Hashes} (hw : H.WF) (r n : Nat) (o u : Bytes) (p : Int) (id0 : Bytes) (em : Bool) (pw dg : Bytes)
    (ha : authenticate H r n o u p id0 em pw = some dg) : dg.length = 16 ∧ UCheck H r u id0 (dg.take n) := by
  unfold authenticate at ha
  rw [authUser_eq] at ha
  by_cases h1 : UCheck H r u id0 ((alg2Digest H r n o p id0 em pw).take n)
  · rw [if_pos h1] at ha
    injection ha with ha; subst ha
    exact ⟨alg2Digest_length hw .., h1⟩
  · rw [if_neg h1] at ha
    simp only [authOwner] at ha
    rw [authUser_eq] at ha
    generalize rc4Chain (alg3Key H r n pw) (if r ≥ 3 then (List.range 20).reverse else [0]) o = upw at ha
    by_cases h2 : UCheck H r u id0 ((alg2Digest H r n o p id0 em upw).take n)
    · rw [if_pos h2] at ha
      injection ha with ha; subst ha
      exact ⟨alg2Digest_length hw .., h2⟩
    · rw [if_neg h2] at ha; cases ha

theorem loop2B_length {H : Hashes} (hw : H.WF) (pw u : Bytes) (f : Nat) :
    ∀ (i : Nat) (k x : Bytes), loop2B H pw u f i k = some x → x.length = 32 := by
  induction f with
  | zero => intro i k x h; cases h
  | succ f ih =>
    intro i k x h
    simp only [loop2B] at h
    have hk : KLen (round2B H pw u k).1 := by
      unfold round2B KLen; simp only []
      split
      · exact Or.inl (hw.sha256_len _)
      · split
        · exact Or.inr (Or.inl (hw.sha384_len _))
        · exact Or.inr (Or.inr (hw.sha512_len _))
    generalize round2B H pw u k = r at h hk
    obtain ⟨k', l⟩ := r
    simp only [] at h hk
    split at h
    · injection h with h; subst h; rw [List.length_take]; unfold KLen at hk; omega
    · exact ih _ _ _ h

theorem hash56_length {H : Hashes} (hw : H.WF) (r : Nat) (pw salt u : Bytes) : (StdSec.hash56 H r pw salt u).length = 32 := by
  unfold StdSec.hash56
  split
  · unfold hash2B
    have hs := loop2B_isSome H pw u 288 0 (H.sha256 (pw ++ salt ++ u)) (by decide) (by decide)
    cases hh : loop2B H pw u 288 0 (H.sha256 (pw ++ salt ++ u)) with
    | none => rw [hh] at hs; cases hs
    | some x => exact loop2B_length hw pw u 288 0 _ x hh
  · exact hw.sha256_len _

theorem unwrap_wrap {H : Hashes} (hw : H.WF) (ik fileKey : Bytes) (hik : ik.length = 32) (hk : fileKey.length = 32) :
    cbcDec (H.aesD ik) 2 zeroIV (cbcEnc (H.aesE ik) 2 zeroIV fileKey) = fileKey :=
  cbcDec_cbcEnc (hw.aesE_len ik) (fun b hb => hw.aesD_E ik b (Or.inr hik) hb) 2 zeroIV fileKey (by simp [zeroIV]) (by omega)

theorem makeU56_parts {H : Hashes} (hw : H.WF) (r : Nat) (p vs ks : Bytes) (hvs : vs.length = 8) (hks : ks.length = 8) :
    (makeU56 H r p vs ks).length = 48 ∧ (makeU56 H r p vs ks).take 32 = StdSec.hash56 H r p vs [] ∧
    ((makeU56 H r p vs ks).drop 32).take 8 = vs ∧ ((makeU56 H r p vs ks).drop 40).take 8 = ks := by
  have hl := hash56_length hw r p vs []
  unfold makeU56
  refine ⟨by simp [hl, hvs, hks], ?_, ?_, ?_⟩
  · rw [List.append_assoc, List.take_left' hl]
  · rw [List.append_assoc, List.drop_left' hl, List.take_left' hvs]
  · rw [show 40 = (StdSec.hash56 H r p vs [] ++ vs).length by simp [hl, hvs], List.drop_left, List.take_of_length_le (by omega)]

mutual
theorem decryptVal_enc {P : Prims} {R : Bytes → Bytes → Prop} (d : Decoder) (id gen : Nat)
    (hR : ∀ p s, R p s → decrypt P d id gen s = .ok p) :
    ∀ (plain stored : Val), EncVal R plain stored → decryptVal P (some d) id gen stored = .ok plain
  | .str p, .str s, h => by simp only [EncVal] at h; simp [decryptVal, ctxDecrypt, hR p s h]
  | .atom t, .atom t', h => by simp only [EncVal] at h; simp [decryptVal, h]
  | .arr ps, .arr ss, h => by
    simp only [EncVal] at h; simp [decryptVal, decryptVals_enc d id gen hR ps ss h]
  | .dict ps, .dict ss, h => by
    simp only [EncVal] at h; simp [decryptVal, decryptKvs_enc d id gen hR ps ss h]
  | .str _, .atom _, h | .str _, .arr _, h | .str _, .dict _, h
  | .atom _, .str _, h | .atom _, .arr _, h | .atom _, .dict _, h
  | .arr _, .str _, h | .arr _, .atom _, h | .arr _, .dict _, h
  | .dict _, .str _, h | .dict _, .atom _, h | .dict _, .arr _, h => by simp [EncVal] at h
theorem decryptVals_enc {P : Prims} {R : Bytes → Bytes → Prop} (d : Decoder) (id gen : Nat)
    (hR : ∀ p s, R p s → decrypt P d id gen s = .ok p) :
    ∀ (plain stored : List Val), EncVals R plain stored → decryptVals P (some d) id gen stored = .ok plain
  | [], [], _ => by simp [decryptVals]
  | p :: ps, s :: ss, h => by
    simp only [EncVals] at h
    simp [decryptVals, decryptVal_enc d id gen hR p s h.1, decryptVals_enc d id gen hR ps ss h.2]
  | [], _ :: _, h | _ :: _, [], h => by simp [EncVals] at h
theorem decryptKvs_enc {P : Prims} {R : Bytes → Bytes → Prop} (d : Decoder) (id gen : Nat)
    (hR : ∀ p s, R p s → decrypt P d id gen s = .ok p) :
    ∀ (plain stored : List (Bytes × Val)), EncKvs R plain stored → decryptKvs P (some d) id gen stored = .ok plain
  | [], [], _ => by simp [decryptKvs]
  | (k, p) :: ps, (k', s) :: ss, h => by
    simp only [EncKvs] at h
    simp [decryptKvs, decryptVal_enc d id gen hR p s h.2.1, decryptKvs_enc d id gen hR ps ss h.2.2, h.1]
  | [], _ :: _, h | _ :: _, [], h => by simp [EncKvs] at h
end

end Crypt
