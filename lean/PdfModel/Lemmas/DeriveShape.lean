import PdfModel.Lemmas.Derive

/-! The container law (C15): `Option`, `Vec`, `HashMap`, pairs, `Box`, `MaybeRef`, `RcRef`, `Ref`, `Lazy` round-trip
    whenever their leaves do. -/

namespace Derive

theorem isRef_not_null {p : Prim} (h : p.isRef = true) : p ≠ .null := by
  intro hp; subst hp; simp [Prim.isRef] at h

/-- reading an `Option<T>` from a non-null primitive that `T` reads -/
theorem readShape_option_ok {cfg : Cfg} {sem : Sem} {env : Env} {a : Shape} {p : Prim} {v : Val}
    (h : readShape cfg sem env a p = .ok v) :
    readShape cfg sem env (.option a) p = .ok (if p.isNull then .none else .some v) := by
  cases p <;> simp [readShape, h, Prim.isNull]

theorem shape_law (cfg : Cfg) (sem : Sem) (env : Env) (lok : Shape → Val → Prop) (law : sem.Law env lok) :
    ∀ (s : Shape) (v : Val), ValOk cfg sem env lok s v →
      RoundTrips (readShape cfg sem env s) (writeShape sem s) v := by
  intro s
  induction s with
  | leaf n => intro v hv; exact law (.leaf n) v rfl (by simpa [ValOk] using hv)
  | leafApp n a _ => intro v hv; exact law (.leafApp n a) v rfl (by simpa [ValOk] using hv)
  | model n => intro v hv; exact law (.model n) v rfl (by simpa [ValOk] using hv)
  | modelApp n a _ => intro v hv; exact law (.modelApp n a) v rfl (by simpa [ValOk] using hv)
  | param n => intro v hv; exact law (.param n) v rfl (by simpa [ValOk] using hv)
  | option a ih =>
    intro v hv p hw
    cases v with
    | none =>
      simp [writeShape] at hw; subst hw
      exact ⟨.none, by simp [readShape], by simp [writeShape]⟩
    | some w =>
      simp only [writeShape] at hw
      obtain ⟨w', hr, hw'⟩ := ih w (by simpa [ValOk] using hv) p hw
      refine ⟨if p.isNull then .none else .some w', readShape_option_ok hr, ?_⟩
      cases hp : p.isNull
      · simp [writeShape, hw']
      · cases p <;> simp [Prim.isNull] at hp
        simp [writeShape]
    | _ => simp [ValOk] at hv
  | vec a ih =>
    intro v hv p hw
    cases v with
    | list vs =>
      simp only [writeShape] at hw
      cases hm : mapR (fun v => writeShape sem a v) vs with
      | error e => simp [hm] at hw
      | ok ps =>
        simp only [hm] at hw; cases hw
        have hall : ∀ v ∈ vs, ValOk cfg sem env lok a v := by simpa [ValOk] using hv
        obtain ⟨vs', hr, hw'⟩ := mapR_law (fun v => writeShape sem a v) (fun x => readShape cfg sem env a x)
          (fun v => ValOk cfg sem env lok a v) (fun x hx y hy => ih x hx y hy) vs hall ps hm
        exact ⟨.list vs', by simp [readShape, Prim.isRef, hr], by simp [writeShape, hw']⟩
    | _ => simp [ValOk] at hv
  | hashMap a ih =>
    intro v hv p hw
    cases v with
    | map kvs =>
      cases kvs with
      | nil =>
        simp [writeShape] at hw; subst hw
        exact ⟨.map [], by simp [readShape, Prim.isRef], by simp [writeShape]⟩
      | cons kv kvs =>
        simp only [writeShape] at hw
        cases hm : mapKV (fun v => writeShape sem a v) (kv :: kvs) with
        | error e => simp [hm] at hw
        | ok d =>
          simp only [hm] at hw; cases hw
          have hall : ∀ x ∈ kv :: kvs, ValOk cfg sem env lok a x.2 := by simpa [ValOk] using hv
          obtain ⟨kvs', hr, hw', hnil⟩ := mapKV_law (fun v => writeShape sem a v) (fun x => readShape cfg sem env a x)
            (fun v => ValOk cfg sem env lok a v) (fun x hx y hy => ih x hx y hy) (kv :: kvs) hall d hm
          refine ⟨.map kvs', by simp [readShape, Prim.isRef, hr], ?_⟩
          cases kvs' with
          | nil => simp at hnil
          | cons x xs => simp [writeShape, hw']
    | _ => simp [ValOk] at hv
  | box a ih =>
    intro v hv p hw
    simp only [writeShape] at hw
    obtain ⟨v', hr, hw'⟩ := ih v (by simpa [ValOk] using hv) p hw
    exact ⟨v', by simp [readShape, hr], by simp [writeShape, hw']⟩
  | maybeRef a ih =>
    intro v hv p hw
    cases v with
    | direct w =>
      simp only [writeShape] at hw
      have hv' : ValOk cfg sem env lok a w ∧ ∀ p, writeShape sem a w = .ok p → p.isRef = true →
          ∃ v', getTyped env (fun q => readShape cfg sem env a q) p = .ok v' := by simpa [ValOk] using hv
      cases hp : p.isRef
      · obtain ⟨w', hr, hw'⟩ := ih w hv'.1 p hw
        exact ⟨.direct w', by simp [readShape, hp, hr], by simp [writeShape, hw']⟩
      · obtain ⟨w', hg⟩ := hv'.2 p hw hp
        exact ⟨.indirect p w', by simp [readShape, hp, hg], by simp [writeShape]⟩
    | indirect r w =>
      simp [writeShape] at hw; subst hw
      have hv' : r.isRef = true ∧ ∃ v', getTyped env (fun q => readShape cfg sem env a q) r = .ok v' := by
        simpa [ValOk] using hv
      obtain ⟨hr, w', hg⟩ := hv'
      exact ⟨.indirect r w', by simp [readShape, hr, hg], by simp [writeShape]⟩
    | _ => simp [ValOk] at hv
  | rcRef a _ =>
    intro v hv p hw
    cases v with
    | indirect r w =>
      simp [writeShape] at hw; subst hw
      have hv' : r.isRef = true ∧ ∃ v', getTyped env (fun q => readShape cfg sem env a q) r = .ok v' := by
        simpa [ValOk] using hv
      obtain ⟨hr, w', hg⟩ := hv'
      exact ⟨.indirect r w', by simp [readShape, hr, hg], by simp [writeShape]⟩
    | _ => simp [ValOk] at hv
  | ref a _ =>
    intro v hv p hw
    cases v with
    | leaf r =>
      simp [writeShape] at hw; subst hw
      have hr : r.isRef = true := by simpa [ValOk] using hv
      exact ⟨.leaf r, by simp [readShape, hr], by simp [writeShape]⟩
    | _ => simp [ValOk] at hv
  | lazy a _ =>
    intro v hv p hw
    cases v with
    | lazy q =>
      simp [writeShape] at hw; subst hw
      exact ⟨.lazy q, by simp [readShape], by simp [writeShape]⟩
    | _ => simp [ValOk] at hv
  | pair a b iha ihb =>
    intro v hv p hw
    cases v with
    | pair x y =>
      simp only [writeShape] at hw
      have hv' : ValOk cfg sem env lok a x ∧ ValOk cfg sem env lok b y := by simpa [ValOk] using hv
      cases hx : writeShape sem a x with
      | error e => simp [hx] at hw
      | ok px =>
        simp only [hx] at hw
        cases hy : writeShape sem b y with
        | error e => simp [hy] at hw
        | ok py =>
          simp only [hy] at hw; cases hw
          obtain ⟨x', hrx, hwx⟩ := iha x hv'.1 px hx
          obtain ⟨y', hry, hwy⟩ := ihb y hv'.2 py hy
          exact ⟨.pair x' y', by simp [readShape, resolve1, resolveP, hrx, hry], by simp [writeShape, hwx, hwy]⟩
    | _ => simp [ValOk] at hv

end Derive
