import PdfModel.Model.Build
import PdfModel.Lemmas.StorageRun

/-! Helper lemmas for C10: what `CatalogBuilder::build` leaves pending, and that it keeps the storage
    invariant (so that the C09 theorems apply to the `save` that follows). -/

namespace Build
open Storage Xref

variable {A R C I : Type}

/-! ### the empty storage is a base document -/

theorem emptyDoc_ok (cached : Bool) (tr : Trailer (BV A R C I)) (h : tr.prev = none) :
    BaseOK (⟨emptySt cached, tr⟩ : Doc (BV A R C I)) [] where
  start_le := by simp [emptySt]
  chain := by simp [emptySt, h, prevChain]
  pairs_entry := by intro p hp; simp [allPairs] at hp
  pairs_dom := by intro p hp; simp [allPairs] at hp
  objs_lt := by intro o ho; simp [emptySt] at ho
  secs_lt := by intro s hs; simp [emptySt] at hs
  raw_lt := by
    intro j pos g hj
    rcases j with _ | j <;> simp [emptySt] at hj
  stream_lt := by
    intro j sid idx hj
    rcases j with _ | j <;> simp [emptySt] at hj
  no_prom := by intro e he; simp [emptySt] at he; subst he; simp
  changes_nil := rfl
  cache_nil := rfl

/-! ### promises -/

theorem promiseN_spec (n : Nat) : ∀ (st : St (BV A R C I)),
    (promiseN st n).1.refs = st.refs ++ List.replicate n .promised ∧
    (promiseN st n).1.changes = st.changes ∧
    (promiseN st n).2 = (List.range n).map (st.refs.length + ·) ∧
    (promiseN st n).1.objs = st.objs ∧ (promiseN st n).1.secs = st.secs ∧ (promiseN st n).1.len = st.len ∧
    (promiseN st n).1.start = st.start := by
  induction n with
  | zero => intro st; simp [promiseN]
  | succ n ih =>
    intro st
    obtain ⟨h1, h2, h3, h4, h5, h6, h7⟩ := ih (promise st).1
    simp only [promiseN]
    refine ⟨?_, ?_, ?_, ?_, ?_, ?_, ?_⟩
    · rw [h1]; simp [promise, alloc, List.replicate_succ]
    · rw [h2]; rfl
    · rw [h3]
      simp only [promise, alloc, List.length_append, List.length_singleton, List.range_succ_eq_map, List.map_cons,
        List.map_map]
      congr 1
      apply List.map_congr_left
      intro a _; simp only [Function.comp]; omega
    · rw [h4]; rfl
    · rw [h5]; rfl
    · rw [h6]; rfl
    · rw [h7]; rfl

theorem inv_promiseN (d0 : Doc (BV A R C I)) (n : Nat) : ∀ (d : Doc (BV A R C I)), Inv d0 d →
    Inv d0 { d with st := (promiseN d.st n).1 } := by
  induction n with
  | zero => intro d hi; simpa [promiseN] using hi
  | succ n ih =>
    intro d hi
    have h1 := inv_promise d0 d hi
    have h2 := ih _ h1
    simpa [promiseN] using h2

/-! ### one page -/

theorem fulfilPage_promised (st : St (BV A R C I)) (pid tree res : Nat) (p : PageSpec A R C)
    (h : st.refs[pid]? = some .promised) :
    fulfilPage st pid tree res p =
      ({ (create st (.content p.ops)).1 with
          changes := chInsert (create st (.content p.ops)).1.changes pid (.page tree res st.refs.length p.attrs, 0),
          cache := [] }, .ok (pid, 0)) := by
  simp [fulfilPage, h, create, alloc]

theorem inv_fulfilPage (d0 d : Doc (BV A R C I)) (chain0) (hb : BaseOK d0 chain0) (hi : Inv d0 d)
    (pid tree res : Nat) (p : PageSpec A R C) (h : d.st.refs[pid]? = some .promised) :
    Inv d0 { d with st := (fulfilPage d.st pid tree res p).1 } := by
  rw [fulfilPage_promised _ _ _ _ _ h]
  have h1 := inv_create d0 d chain0 hb hi (.content p.ops)
  have hp : ({ d with st := (create d.st (.content p.ops)).1 } : Doc (BV A R C I)).st.refs[pid]? = some .promised := by
    have hlt : pid < d.st.refs.length := (List.getElem?_eq_some_iff.mp h).1
    simp only [create, alloc]
    rw [List.getElem?_append_left hlt]; exact h
  have h2 := inv_put d0 _ chain0 hb h1 pid (.page tree res d.st.refs.length p.attrs) .promised hp (Or.inl rfl)
  simpa using h2

/-! ### the loop over the pages -/

/-- what the loop leaves pending: every page under its promised number, its resources and its content
    stream under fresh numbers; nothing else touched -/
structure Filled (tree : Nat) (st st' : St (BV A R C I)) (zs : List (PageSpec A R C × Nat)) : Prop where
  refs_len : st.refs.length ≤ st'.refs.length
  refs_old : ∀ j : Nat, j < st.refs.length → st'.refs[j]? = st.refs[j]?
  frame : ∀ j : Nat, j < st.refs.length → (∀ z ∈ zs, z.2 ≠ j) → chLookup st'.changes j = chLookup st.changes j
  pages : ∀ z ∈ zs, ∃ r c, chLookup st'.changes z.2 = some (.page tree r c z.1.attrs, 0) ∧
      chLookup st'.changes r = some (.resources z.1.res, 0) ∧ chLookup st'.changes c = some (.content z.1.ops, 0)
  fresh : ∀ j : Nat, st.refs.length ≤ j → j < st'.refs.length → chLookup st'.changes j ≠ none
  grow : st'.refs.length = st.refs.length + 2 * zs.length
  objs : st'.objs = st.objs
  secs : st'.secs = st.secs
  len : st'.len = st.len
  start : st'.start = st.start

theorem fillPages_spec (tree : Nat) : ∀ (zs : List (PageSpec A R C × Nat)) (st : St (BV A R C I)),
    (∀ z ∈ zs, st.refs[z.2]? = some .promised) → (zs.map (·.2)).Nodup →
    ∃ st', fillPages tree st zs = (st', .ok ()) ∧ Filled tree st st' zs := by
  intro zs
  induction zs with
  | nil =>
    intro st _ _
    exact ⟨st, rfl, ⟨Nat.le_refl _, fun _ _ => rfl, fun _ _ _ => rfl, (by intro z hz; cases hz),
      (by intro j h1 h2; omega), (by simp), rfl, rfl, rfl, rfl⟩⟩
  | cons z rest ih =>
    obtain ⟨p, k⟩ := z
    intro st hprom hnd
    have hk : st.refs[k]? = some .promised := hprom (p, k) (by simp)
    have hklt : k < st.refs.length := (List.getElem?_eq_some_iff.mp hk).1
    simp only [List.map_cons, List.nodup_cons] at hnd
    -- the state after this page
    have hk1 : (create st (.resources p.res)).1.refs[k]? = some .promised := by
      simp only [create, alloc]; rw [List.getElem?_append_left hklt]; exact hk
    have hlen1 : (create st (.resources p.res)).1.refs.length = st.refs.length + 1 := by simp [create, alloc]
    have hfp := fulfilPage_promised (create st (.resources p.res)).1 k tree st.refs.length p hk1
    simp only [fillPages]
    have hcr : (create st (.resources p.res)).2 = st.refs.length := by simp [create, alloc]
    rw [hcr, hfp]
    simp only
    -- name it
    generalize hst2 : ({ (create (create st (.resources p.res)).1 (.content p.ops)).1 with
        changes := chInsert (create (create st (.resources p.res)).1 (.content p.ops)).1.changes k
          (.page tree st.refs.length (create st (.resources p.res)).1.refs.length p.attrs, 0),
        cache := [] } : St (BV A R C I)) = st2
    have hrefs2 : st2.refs = st.refs ++ [.promised] ++ [.promised] := by subst hst2; simp [create, alloc]
    have hch2 : ∀ j, chLookup st2.changes j =
        if j = k then some (.page tree st.refs.length (st.refs.length + 1) p.attrs, 0)
        else if j = st.refs.length + 1 then some (.content p.ops, 0)
        else if j = st.refs.length then some (.resources p.res, 0)
        else chLookup st.changes j := by
      intro j; subst hst2
      simp [create, alloc, chLookup_chInsert]
    have hprom2 : ∀ z ∈ rest, st2.refs[z.2]? = some .promised := by
      intro z hz
      have h0 := hprom z (by simp [hz])
      have hlt : z.2 < st.refs.length := (List.getElem?_eq_some_iff.mp h0).1
      rw [hrefs2, List.append_assoc, List.getElem?_append_left hlt]; exact h0
    obtain ⟨st', hrun, hf⟩ := ih st2 hprom2 hnd.2
    refine ⟨st', hrun, ?_⟩
    have hlen2 : st2.refs.length = st.refs.length + 2 := by rw [hrefs2]; simp
    have hrest_lt : ∀ z ∈ rest, z.2 < st.refs.length := by
      intro z hz; exact (List.getElem?_eq_some_iff.mp (hprom z (by simp [hz]))).1
    refine
      { refs_len := by have := hf.refs_len; omega
        refs_old := ?_, frame := ?_, pages := ?_, fresh := ?_
        grow := by rw [hf.grow, hlen2]; simp only [List.length_cons]; omega
        objs := by rw [hf.objs]; subst hst2; simp [create, alloc]
        secs := by rw [hf.secs]; subst hst2; simp [create, alloc]
        len := by rw [hf.len]; subst hst2; simp [create, alloc]
        start := by rw [hf.start]; subst hst2; simp [create, alloc] }
    · intro j hj
      rw [hf.refs_old j (by omega), hrefs2, List.append_assoc, List.getElem?_append_left hj]
    · intro j hj hne
      rw [hf.frame j (by omega) (fun z hz => hne z (by simp [hz])), hch2]
      have h1 : j ≠ k := fun h => hne (p, k) (by simp) h.symm
      rw [if_neg h1, if_neg (by omega), if_neg (by omega)]
    · intro z hz
      simp only [List.mem_cons] at hz
      rcases hz with rfl | hz
      · -- the head: still there after the rest of the loop
        refine ⟨st.refs.length, st.refs.length + 1, ?_, ?_, ?_⟩
        · rw [hf.frame k (by omega) (fun z hz h => hnd.1 (by rw [← h]; exact List.mem_map_of_mem hz)), hch2]
          simp
        · rw [hf.frame _ (by omega) (fun z hz h => by have := hrest_lt z hz; omega), hch2]
          rw [if_neg (by omega), if_neg (by omega)]; simp
        · rw [hf.frame _ (by omega) (fun z hz h => by have := hrest_lt z hz; omega), hch2]
          rw [if_neg (by omega)]; simp
      · exact hf.pages z hz
    · intro j h1 h2
      by_cases hj : j < st.refs.length + 2
      · rw [hf.frame j (by omega) (fun z hz h => by have := hrest_lt z hz; omega), hch2]
        have hne : j ≠ k := by omega
        rw [if_neg hne]
        by_cases hj2 : j = st.refs.length + 1
        · rw [if_pos hj2]; simp
        · rw [if_neg hj2, if_pos (by omega)]; simp
      · exact hf.fresh j (by omega) h2

theorem inv_fillPages (d0 : Doc (BV A R C I)) (chain0) (hb : BaseOK d0 chain0) (tree : Nat) :
    ∀ (zs : List (PageSpec A R C × Nat)) (d : Doc (BV A R C I)), Inv d0 d →
      (∀ z ∈ zs, d.st.refs[z.2]? = some .promised) → Inv d0 { d with st := (fillPages tree d.st zs).1 } := by
  intro zs
  induction zs with
  | nil => intro d hi _; simpa [fillPages] using hi
  | cons z rest ih =>
    obtain ⟨p, k⟩ := z
    intro d hi hprom
    have hk : d.st.refs[k]? = some .promised := hprom (p, k) (by simp)
    have hklt : k < d.st.refs.length := (List.getElem?_eq_some_iff.mp hk).1
    have h1 := inv_create d0 d chain0 hb hi (.resources p.res)
    have hk1 : (create d.st (.resources p.res)).1.refs[k]? = some .promised := by
      simp only [create, alloc]; rw [List.getElem?_append_left hklt]; exact hk
    have h2 := inv_fulfilPage d0 _ chain0 hb h1 k tree d.st.refs.length p hk1
    have hfp := fulfilPage_promised (create d.st (.resources p.res)).1 k tree d.st.refs.length p hk1
    have hcr : (create d.st (.resources p.res)).2 = d.st.refs.length := by simp [create, alloc]
    simp only [fillPages]
    rw [hcr, hfp]
    simp only
    rw [hfp] at h2
    apply ih _ h2
    intro z hz
    have h0 := hprom z (by simp [hz])
    have hlt : z.2 < d.st.refs.length := (List.getElem?_eq_some_iff.mp h0).1
    simp only [create, alloc]
    rw [List.getElem?_append_left (by simp; omega), List.getElem?_append_left hlt]; exact h0

/-! ### the whole preparation -/

/-- `rd` reads every pending value of `ch` -/
def Agrees (rd : Nat → Rd (BV A R C I)) (ch : List (Nat × BV A R C I × Nat)) : Prop :=
  ∀ j v g, chLookup ch j = some (v, g) → rd j = .val v

theorem allSome_map {α β : Type} (f : α → Option β) (g : α → β) :
    ∀ (l : List α), (∀ x ∈ l, f x = some (g x)) → allSome (l.map f) = some (l.map g) := by
  intro l
  induction l with
  | nil => intro _; rfl
  | cons x xs ih =>
    intro h
    simp only [List.map_cons, allSome, h x (by simp)]
    rw [ih (fun y hy => h y (by simp [hy]))]

theorem zip_map_fst {α β : Type} : ∀ (a : List α) (b : List β), a.length = b.length → (a.zip b).map (·.1) = a := by
  intro a
  induction a with
  | nil => intro b _; rfl
  | cons x xs ih =>
    intro b h
    cases b with
    | nil => simp at h
    | cons y ys => simp only [List.zip_cons_cons, List.map_cons, ih ys (by simpa using h)]

theorem zip_map_snd {α β : Type} : ∀ (a : List α) (b : List β), a.length = b.length → (a.zip b).map (·.2) = b := by
  intro a
  induction a with
  | nil => intro b h; cases b <;> simp_all
  | cons x xs ih =>
    intro b h
    cases b with
    | nil => simp at h
    | cons y ys => simp only [List.zip_cons_cons, List.map_cons, ih ys (by simpa using h)]

structure Prepared (cached : Bool) (pages : List (PageSpec A R C)) (info : Option I) (d : Doc (BV A R C I)) : Prop where
  tr_prev : d.tr.prev = none
  tr_info : d.tr.info = info.map .info
  root_gen : d.tr.root.2 = 0
  inv : Inv ⟨emptySt cached, d.tr⟩ d
  pages_ok : ∀ rd, Agrees rd d.st.changes → pagesOf rd d.tr.root.1 = some pages
  all_pending : ∀ j : Nat, 1 ≤ j → j < d.st.refs.length → chLookup d.st.changes j ≠ none
  refs_len : d.st.refs.length = 3 * pages.length + 3
  backend : d.st.objs = [] ∧ d.st.secs = [] ∧ d.st.len = 9 ∧ d.st.start = 0
  root_pending : ∃ t, chLookup d.st.changes d.tr.root.1 = some (.catalog t, 0)

theorem prepare_spec (cached : Bool) (pages : List (PageSpec A R C)) (info : Option I) :
    ∃ d, prepare cached pages info = .ok d ∧ Prepared cached pages info d := by
  -- promises
  obtain ⟨p1, p2, p3, p4, p5, p6, p7⟩ := promiseN_spec (A := A) (R := R) (C := C) (I := I) pages.length (emptySt cached)
  generalize hst1 : (promiseN (emptySt cached : St (BV A R C I)) pages.length).1 = st1 at p1 p2 p4 p5 p6 p7
  generalize hkids : (promiseN (emptySt cached : St (BV A R C I)) pages.length).2 = kids at p3
  have hlen1 : st1.refs.length = pages.length + 1 := by rw [p1]; simp [emptySt]
  have hkl : kids.length = pages.length := by rw [p3]; simp
  have hkids_get : ∀ k ∈ kids, 1 ≤ k ∧ k < pages.length + 1 := by
    intro k hk; rw [p3] at hk
    simp only [List.mem_map, List.mem_range] at hk
    obtain ⟨a, ha, rfl⟩ := hk
    show 1 ≤ 1 + a ∧ 1 + a < pages.length + 1
    omega
  have hkids_nd : kids.Nodup := by
    rw [p3, List.Nodup, List.pairwise_map]
    exact List.Pairwise.imp (fun h => by omega) List.nodup_range
  have hprom1 : ∀ k ∈ kids, st1.refs[k]? = some .promised := by
    intro k hk
    obtain ⟨a, b⟩ := hkids_get k hk
    rw [p1]
    simp only [emptySt]
    rw [List.getElem?_append_right (by simp; omega)]
    simp only [List.length_singleton]
    rw [List.getElem?_replicate]; simp; omega
  -- the page tree root
  generalize hst2 : (create st1 (.tree kids pages.length)).1 = st2
  have htree : (create st1 (.tree kids pages.length)).2 = pages.length + 1 := by simp [create, alloc, hlen1]
  have hrefs2 : st2.refs = st1.refs ++ [.promised] := by subst hst2; simp [create, alloc]
  have hch2 : ∀ j, chLookup st2.changes j =
      if j = pages.length + 1 then some (.tree kids pages.length, 0) else none := by
    intro j; subst hst2
    simp only [create, alloc, chLookup_chInsert, hlen1, p2, emptySt]; rfl
  have hlen2 : st2.refs.length = pages.length + 2 := by rw [hrefs2]; simp [hlen1]
  -- the loop
  have hzl : (pages.zip kids).map (·.2) = kids := zip_map_snd pages kids hkl.symm
  have hzf : (pages.zip kids).map (·.1) = pages := zip_map_fst pages kids hkl.symm
  have hprom2 : ∀ z ∈ pages.zip kids, st2.refs[z.2]? = some .promised := by
    intro z hz
    have hk : z.2 ∈ kids := by rw [← hzl]; exact List.mem_map_of_mem hz
    obtain ⟨a, b⟩ := hkids_get z.2 hk
    rw [hrefs2, List.getElem?_append_left (by omega)]
    exact hprom1 z.2 hk
  obtain ⟨st3, hrun, hf⟩ := fillPages_spec (pages.length + 1) (pages.zip kids) st2 hprom2 (by rw [hzl]; exact hkids_nd)
  have hzlen : (pages.zip kids).length = pages.length := by simp [hkl]
  have hlen3 : st3.refs.length = 3 * pages.length + 2 := by rw [hf.grow, hlen2, hzlen]; omega
  -- the catalog
  let root := st3.refs.length
  let tr : Trailer (BV A R C I) := ⟨(root, 0), info.map .info, none⟩
  let d : Doc (BV A R C I) := ⟨(create st3 (.catalog (pages.length + 1))).1, tr⟩
  have hprep : prepare cached pages info = .ok d := by
    simp only [prepare, buildCatalog, hst1, hkids]
    rw [show create st1 (.tree kids pages.length) = (st2, pages.length + 1) from by rw [← hst2, ← htree]]
    simp only [hrun]
    simp [d, tr, root, create, alloc]
  refine ⟨d, hprep, ?_⟩
  -- invariant
  have hb := emptyDoc_ok (A := A) (R := R) (C := C) (I := I) cached tr rfl
  have i0 : Inv ⟨emptySt cached, tr⟩ (⟨emptySt cached, tr⟩ : Doc (BV A R C I)) := inv_base _ [] hb
  have i1 := inv_promiseN _ pages.length _ i0
  simp only [hst1] at i1
  have i2 := inv_create _ _ [] hb i1 (.tree kids pages.length)
  simp only [hst2] at i2
  have i3 := inv_fillPages _ [] hb (pages.length + 1) (pages.zip kids) _ i2 hprom2
  simp only [hrun] at i3
  have i4 := inv_create _ _ [] hb i3 (.catalog (pages.length + 1))
  have hchd : ∀ j, chLookup d.st.changes j =
      if j = st3.refs.length then some (.catalog (pages.length + 1), 0) else chLookup st3.changes j := by
    intro j; simp [d, create, alloc, chLookup_chInsert]
  refine
    { tr_prev := rfl, tr_info := rfl, root_gen := rfl, inv := i4, pages_ok := ?_, all_pending := ?_,
      refs_len := by simp [d, create, alloc, hlen3],
      backend := by
        simp only [d, create, alloc]
        rw [hf.objs, hf.secs, hf.len, hf.start]
        subst hst2
        simp only [create, alloc]
        rw [p4, p5, p6, p7]
        simp [emptySt]
      root_pending := ⟨pages.length + 1, by
        show chLookup d.st.changes st3.refs.length = _
        rw [hchd]; simp⟩ }
  · -- the page list can be read back from the pending values
    intro rd hrd
    have hroot : rd st3.refs.length = .val (.catalog (pages.length + 1)) :=
      hrd _ _ 0 (by rw [hchd]; simp)
    have htr : rd (pages.length + 1) = .val (.tree kids pages.length) := by
      apply hrd _ _ 0
      rw [hchd, if_neg (by omega), hf.frame _ (by omega), hch2]
      · simp
      · intro z hz h
        have hk : z.2 ∈ kids := by rw [← hzl]; exact List.mem_map_of_mem hz
        have := (hkids_get z.2 hk).2; omega
    show pagesOf rd st3.refs.length = some pages
    simp only [pagesOf, hroot, htr, hkl, if_true]
    have hmap : kids.map (pageAt rd (pages.length + 1)) =
        (pages.zip kids).map (pageAt rd (pages.length + 1) ∘ fun z => z.2) := by
      have := congrArg (List.map (pageAt rd (pages.length + 1))) hzl
      rw [List.map_map] at this
      exact this.symm
    rw [hmap, allSome_map _ (fun z => z.1)]
    · rw [hzf]
    · intro z hz
      obtain ⟨r, c, a1, a2, a3⟩ := hf.pages z hz
      have hlt : ∀ j x, chLookup st3.changes j = some x → j < st3.refs.length := by
        intro j x hx; exact i3.ch_lt j x hx
      have e1 := hrd z.2 _ 0 (by rw [hchd, if_neg (by have := hlt _ _ a1; omega)]; exact a1)
      have e2 := hrd r _ 0 (by rw [hchd, if_neg (by have := hlt _ _ a2; omega)]; exact a2)
      have e3 := hrd c _ 0 (by rw [hchd, if_neg (by have := hlt _ _ a3; omega)]; exact a3)
      simp [Function.comp, pageAt, e1, e2, e3]
  · intro j h1 h2
    rw [hchd]
    by_cases hj : j = st3.refs.length
    · rw [if_pos hj]; simp
    · rw [if_neg hj]
      have hjl : j < st3.refs.length := by
        have : d.st.refs.length = st3.refs.length + 1 := by simp [d, create, alloc]
        omega
      by_cases hj2 : j < st2.refs.length
      · by_cases hk : j ∈ kids
        · -- a kid: its page is pending
          rw [← hzl] at hk
          obtain ⟨z, hz, rfl⟩ := List.mem_map.mp hk
          obtain ⟨r, c, a1, _, _⟩ := hf.pages z hz
          rw [a1]; simp
        · -- the tree root
          have hjt : j = pages.length + 1 := by
            apply Classical.byContradiction; intro hne
            apply hk
            rw [p3]
            simp only [List.mem_map, List.mem_range, emptySt, List.length_singleton]
            exact ⟨j - 1, by omega, by omega⟩
          rw [hf.frame j hj2 (fun z hz h => hk (by rw [← hzl, ← h]; exact List.mem_map_of_mem hz)), hch2, if_pos hjt]
          simp
      · exact hf.fresh j (by omega) hjl

/-- what `build` returns, unfolded -/
theorem build_ok_iff (L : Layout) (cached : Bool) (pages : List (PageSpec A R C)) (info : Option I)
    (d' : Doc (BV A R C I)) (i : SaveInfo) (h : build L cached pages info = .ok (d', i)) :
    ∃ d, prepare cached pages info = .ok d ∧ Prepared cached pages info d ∧ save params L d = (d', .ok i) := by
  obtain ⟨d, hp, hpr⟩ := prepare_spec cached pages info
  refine ⟨d, hp, hpr, ?_⟩
  unfold build at h
  rw [hp] at h
  simp only at h
  generalize hs : save params L d = res at h
  obtain ⟨d2, o⟩ := res
  cases o <;> simp at h
  obtain ⟨rfl, rfl⟩ := h
  rfl


end Build
