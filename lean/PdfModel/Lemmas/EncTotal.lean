import PdfModel.Lemmas.EncTiff
import PdfModel.Lemmas.LzwDecode

set_option linter.unusedSimpArgs false
set_option linter.unusedVariables false

/-! Error clause: every decoder of the model returns a value or an error on every input. -/

namespace Enc
open Codecs

theorem hexPair_returns (h l : UInt8) : hexPair h l ≠ .panic ∧ hexPair h l ≠ .oof := by
  unfold hexPair; split <;> simp

theorem decodeHexDigits_returns (l : Bytes) : decodeHexDigits l ≠ .panic ∧ decodeHexDigits l ≠ .oof := by
  fun_induction decodeHexDigits l <;> grind [hexPair_returns]

theorem tail85_returns (a b c d e : UInt8) (k : Nat) : tail85 a b c d e k ≠ .panic ∧ tail85 a b c d e k ≠ .oof := by
  unfold tail85; split <;> simp

theorem decode85Groups_returns (l : Bytes) : decode85Groups l ≠ .panic ∧ decode85Groups l ≠ .oof := by
  fun_induction decode85Groups l <;> grind [tail85_returns]

theorem decode85_returns (d : Bytes) : decode85 d ≠ .panic ∧ decode85 d ≠ .oof := by
  unfold decode85
  dsimp only
  have := decode85Groups_returns ((d.filter fun b => !ws85 b).takeWhile (· != 126))
  cases h : decode85Groups ((d.filter fun b => !ws85 b).takeWhile (· != 126)) with
  | ok out => simp only []; split <;> simp
  | err => simp
  | panic => simp [h] at this
  | oof => simp [h] at this

theorem forFrom_length (body : Nat → Bytes → Bytes) (hbody : ∀ i o, (body i o).length = o.length) :
    ∀ (n lo : Nat) (out : Bytes), (forFrom body lo n out).length = out.length := by
  intro n
  induction n with
  | zero => intro lo out; rfl
  | succ n ih => intro lo out; simp [forFrom, ih, hbody]

/-- with the three lengths equal `unfilter` returns a row of that length; it never reports an error -/
theorem unfilter_ok (t : PredictorType) (bpp : Nat) (prev inp out : Bytes)
    (h1 : inp.length = out.length) (h2 : inp.length = prev.length) :
    ∃ o, unfilter t bpp prev inp out = .ok o ∧ o.length = out.length := by
  unfold unfilter
  simp only [h1.symm ▸ h1, ne_eq]
  rw [if_neg (by simp [h1]), if_neg (by simp [h2])]
  split
  · exact ⟨out, rfl, rfl⟩
  · rename_i hb
    cases t with
    | noFilter => exact ⟨inp, rfl, h1⟩
    | sub =>
      refine ⟨_, rfl, ?_⟩
      rw [forFrom_length _ (by intro i o; simp)]
      simp; omega
    | up => refine ⟨_, rfl, ?_⟩; rw [forFrom_length _ (by intro i o; simp)]
    | avg =>
      refine ⟨_, rfl, ?_⟩
      rw [forFrom_length _ (by intro i o; simp), forFrom_length _ (by intro i o; simp)]
    | paeth =>
      refine ⟨_, rfl, ?_⟩
      rw [forFrom_length _ (by intro i o; simp), forFrom_length _ (by intro i o; simp)]

theorem unfilter_no_err (t : PredictorType) (bpp : Nat) (prev inp out : Bytes) :
    unfilter t bpp prev inp out ≠ .err ∧ unfilter t bpp prev inp out ≠ .oof := by
  cases t <;> simp only [unfilter] <;> (repeat' split) <;> simp

/-- the row loop never panics and never runs out of fuel, whatever bytes it is given -/
theorem pngLoop_returns (bpp S : Nat) (inp nullVec : Bytes) (hnull : nullVec.length = S) :
    ∀ (fuel k inOff outOff lastOff : Nat) (out : Bytes),
      inOff = k * (S + 1) → outOff = k * S → inOff ≤ inp.length → inp.length < fuel + inOff →
      out.length = inp.length / (S + 1) * S → (outOff = 0 ∨ lastOff + S = outOff) →
      pngLoop bpp S inp nullVec fuel inOff outOff lastOff out ≠ .panic ∧
      pngLoop bpp S inp nullVec fuel inOff outOff lastOff out ≠ .oof := by
  intro fuel
  induction fuel with
  | zero => intro k inOff outOff lastOff out _ _ hle hf; omega
  | succ f ih =>
    intro k inOff outOff lastOff out hI hO hle hf hlen hlast
    rw [pngLoop]
    split
    · simp
    · rename_i hcond
      have hcond : inOff + S < inp.length := by omega
      have hk1 : (k + 1) * (S + 1) ≤ inp.length := by rw [Nat.succ_mul, ← hI]; omega
      have hR : k + 1 ≤ inp.length / (S + 1) := (Nat.le_div_iff_mul_le (by omega)).mpr hk1
      have hRS : (k + 1) * S ≤ inp.length / (S + 1) * S := Nat.mul_le_mul_right S hR
      have hO1 : (k + 1) * S = outOff + S := by rw [Nat.succ_mul, ← hO]
      have hI1 : (k + 1) * (S + 1) = inOff + 1 + S := by rw [Nat.succ_mul, ← hI]; omega
      have hget : inp[inOff]? = some (inp[inOff]'(by omega)) := List.getElem?_eq_getElem (by omega)
      rw [hget]
      simp only
      split
      · simp
      · rename_i t _
        rw [if_neg (by omega)]
        have hrowIn : ((inp.drop (inOff + 1)).take S).length = S := by simp; omega
        by_cases h0 : outOff = 0
        · simp only [h0, if_true, Nat.zero_add]
          rw [if_neg (by omega)]
          simp only
          obtain ⟨row, hrow, hrl⟩ := unfilter_ok t bpp nullVec ((inp.drop (inOff + 1)).take S) ((out.drop 0).take S)
            (by rw [hrowIn]; simp; omega) (by rw [hrowIn, hnull])
          rw [hrow]
          have hrl' : row.length = S := by rw [hrl]; simp; omega
          have := ih (k + 1) (inOff + 1 + S) (0 + S) 0 (out.take 0 ++ row ++ out.drop (0 + S)) hI1.symm (by omega) (by omega) (by omega)
            (by simp only [List.length_append, List.length_take, List.length_drop, hrl']; omega) (Or.inr (by omega))
          simpa [Nat.zero_add] using this
        · simp only [h0, if_false]
          have hl : lastOff + S = outOff := by rcases hlast with h | h; exact absurd h h0; exact h
          rw [if_neg (by omega), if_neg (by omega), if_neg (by omega)]
          simp only
          obtain ⟨row, hrow, hrl⟩ := unfilter_ok t bpp ((out.take outOff).drop lastOff) ((inp.drop (inOff + 1)).take S)
            ((out.drop outOff).take S)
            (by rw [hrowIn]; simp; omega) (by rw [hrowIn]; simp; omega)
          rw [hrow]
          have hrl' : row.length = S := by rw [hrl]; simp; omega
          have := ih (k + 1) (inOff + 1 + S) (outOff + S) outOff (out.take outOff ++ row ++ out.drop (outOff + S)) hI1.symm hO1.symm (by omega) (by omega)
            (by simp only [List.length_append, List.length_take, List.length_drop, hrl']; omega) (Or.inr rfl)
          simpa using this

theorem predictorGeometry_returns (p : Params) : predictorGeometry p ≠ .panic ∧ predictorGeometry p ≠ .oof := by
  unfold predictorGeometry
  split
  · simp
  · dsimp only; split <;> simp

/-- `unpredict` returns a value or an error for every byte string and every parameter set -/
theorem unpredict_returns (decoded : Bytes) (p : Params) : unpredict decoded p ≠ .panic ∧ unpredict decoded p ≠ .oof := by
  unfold unpredict
  have hg := predictorGeometry_returns p
  split
  · cases hgeo : predictorGeometry p with
    | ok g =>
      obtain ⟨bpp, S⟩ := g
      simp only
      split
      · simp
      · exact pngLoop_returns bpp S decoded (List.replicate S 0) (by simp) (decoded.length + 1) 0 0 0 0 _
          (by simp) (by simp) (by omega) (by omega) (by simp) (Or.inl rfl)
    | err => simp
    | panic => simp [hgeo] at hg
    | oof => simp [hgeo] at hg
  · split
    · cases hgeo : predictorGeometry p with
      | ok g =>
        obtain ⟨bpp, S⟩ := g
        simp only
        obtain ⟨hb1, hbs⟩ := geometry_bounds hgeo
        unfold tiffUnpredict
        rw [if_neg (by omega)]
        exact chunksLoop_returns _ S (by omega) _ _ (by omega)
      | err => simp
      | panic => simp [hgeo] at hg
      | oof => simp [hgeo] at hg
    · simp

theorem decodeHex_returns (d : Bytes) : decodeHex d ≠ .panic ∧ decodeHex d ≠ .oof := decodeHexDigits_returns _

theorem runLengthDecode_returns (d : Bytes) : runLengthDecode d ≠ .panic ∧ runLengthDecode d ≠ .oof :=
  runLengthLoop_returns _ d (by omega)

/-- **error clause, one filter**: whatever the third-party decoders return -/
theorem decode_returns (X : Ext) (d : Bytes) (f : Filter) : decode X d f ≠ .panic ∧ decode X d f ≠ .oof := by
  cases f with
  | asciiHex => exact decodeHex_returns d
  | ascii85 => exact decode85_returns d
  | runLength => exact runLengthDecode_returns d
  | lzw p =>
    simp only [decode, lzwDecode]
    have hl := Lzw.decode_returns (decide (p.earlyChange ≠ 0)) d
    cases h : Lzw.decode (decide (p.earlyChange ≠ 0)) d with
    | ok x => exact unpredict_returns _ p
    | err => simp
    | panic => exact absurd h hl.1
    | oof => exact absurd h hl.2
  | flate p =>
    simp only [decode, flateDecode]
    split
    · exact unpredict_returns _ p
    · split
      · exact unpredict_returns _ p
      · simp
  | dct => simp only [decode]; split <;> simp
  | jpx => simp [decode]
  | ccittFax => simp [decode]
  | jbig2 => simp [decode]
  | crypt => simp [decode]

/-- **error clause, chains** -/
theorem decodeChain_returns (X : Ext) : ∀ (fs : List Filter) (d : Bytes),
    decodeChain X d fs ≠ .panic ∧ decodeChain X d fs ≠ .oof := by
  intro fs
  induction fs with
  | nil => intro d; simp [decodeChain]
  | cons f fs ih =>
    intro d
    have := decode_returns X d f
    simp only [decodeChain]
    cases h : decode X d f with
    | ok d' => exact ih d'
    | err => simp
    | panic => simp [h] at this
    | oof => simp [h] at this
end Enc
