import PdfModel.Model.CMap

/-! Progress and totality of the CMap reader model: every step consumes input, so fuel `len + 1` never runs out. -/

namespace CMap

theorem dropWhile_length_le (p : UInt8 → Bool) : ∀ (l : Bytes), (l.dropWhile p).length ≤ l.length
  | [] => by simp
  | a :: r => by
    simp only [List.dropWhile_cons]
    split
    · have := dropWhile_length_le p r
      simp only [List.length_cons]
      omega
    · simp

theorem scan_len : ∀ (c : Bool) (bs r : Bytes), scan c bs = some r →
    r.length ≤ bs.length ∧ ∃ b r', r = b :: r' ∧ isWs b = false ∧ (b == 37) = false := by
  intro c bs
  fun_induction scan c bs with
  | case1 => intro r h; simp at h
  | case2 b r hb ih =>
    intro r' h
    have := ih r' h
    simp only [List.length_cons]
    exact ⟨by omega, this.2⟩
  | case3 b r hb ih =>
    intro r' h
    have := ih r' h
    simp only [List.length_cons]
    exact ⟨by omega, this.2⟩
  | case4 b r hb ih =>
    intro r' h
    have := ih r' h
    simp only [List.length_cons]
    exact ⟨by omega, this.2⟩
  | case5 b r hws hb hc ih =>
    intro r' h
    have := ih r' h
    simp only [List.length_cons]
    exact ⟨by omega, this.2⟩
  | case6 b r hws hb hc ih =>
    intro r' h
    have := ih r' h
    simp only [List.length_cons]
    exact ⟨by omega, this.2⟩
  | case7 b r hws hb =>
    intro r' h
    simp at h
    subst h
    exact ⟨by simp, b, r, rfl, by simpa using hws, by simpa using hb⟩

theorem nextWord_len (bs w rest : Bytes) (h : nextWord bs = some (w, rest)) : rest.length < bs.length := by
  unfold nextWord at h
  cases hs : scan false bs with
  | none => simp [hs] at h
  | some r =>
    obtain ⟨hl, b, r', rfl, hws, h37⟩ := scan_len false bs r hs
    simp only [hs] at h
    simp only [List.length_cons] at hl
    split at h
    · split at h
      · simp only [Option.some.injEq, Prod.mk.injEq] at h
        rw [← h.2]
        have := dropWhile_length_le isRegular r'
        omega
      · split at h
        · rename_i b2 r2
          split at h <;> simp only [Option.some.injEq, Prod.mk.injEq] at h <;> rw [← h.2] <;> simp only [List.length_cons] at hl ⊢ <;> omega
        · simp only [Option.some.injEq, Prod.mk.injEq] at h
          rw [← h.2]
          simp at hl ⊢
          omega
    · rename_i hd
      simp only [Option.some.injEq, Prod.mk.injEq] at h
      rw [← h.2]
      have hreg : isRegular b = true := by
        simp only [isRegular, Bool.and_eq_true, Bool.not_eq_true']
        exact ⟨hws, by simpa using hd⟩
      simp only [List.dropWhile_cons, hreg, if_true]
      have := dropWhile_length_le isRegular r'
      omega

theorem hexStr_len : ∀ (bs : Bytes) (hi : Option Nat) (acc : List UInt8) (s r : Bytes),
    hexStr hi acc bs = some (s, r) → r.length < bs.length
  | [], hi, acc, s, r, h => by simp [hexStr] at h
  | b :: rest, hi, acc, s, r, h => by
    unfold hexStr at h
    simp only [List.length_cons]
    split at h
    · have := hexStr_len rest _ _ _ _ h
      omega
    · cases hi with
      | none =>
        simp only at h
        split at h
        · simp only [Option.some.injEq, Prod.mk.injEq] at h
          rw [← h.2]
          omega
        · split at h
          · have := hexStr_len rest _ _ _ _ h
            omega
          · simp at h
      | some x =>
        simp only at h
        split at h
        · simp only [Option.some.injEq, Prod.mk.injEq] at h
          rw [← h.2]
          omega
        · split at h
          · have := hexStr_len rest _ _ _ _ h
            omega
          · simp at h

theorem parseStr_len (bs s r : Bytes) (h : parseStr bs = .ok (s, r)) : r.length < bs.length := by
  unfold parseStr at h
  cases hn : nextWord bs with
  | none => simp [hn] at h
  | some p =>
    obtain ⟨w, rest⟩ := p
    have hl := nextWord_len bs w rest hn
    simp only [hn] at h
    split at h
    · cases hh : hexStr none [] rest with
      | none => simp [hh] at h
      | some q =>
        simp only [hh, R.ok.injEq] at h
        subst h
        have := hexStr_len rest none [] _ _ hh
        omega
    · split at h <;> simp at h

theorem parseArr_prog : ∀ (f : Nat) (bs : Bytes) (acc : List Bytes), bs.length < f →
    parseArr f bs acc ≠ .oof ∧ ∀ xs r, parseArr f bs acc = .ok (xs, r) → r.length < bs.length
  | 0, bs, acc, h => by omega
  | f + 1, bs, acc, h => by
    unfold parseArr
    cases hn : nextWord bs with
    | none => simp
    | some p =>
      obtain ⟨w, rest⟩ := p
      have hl := nextWord_len bs w rest hn
      simp only []
      split
      · refine ⟨by simp, ?_⟩
        intro xs r hr
        simp only [R.ok.injEq, Prod.mk.injEq] at hr
        rw [← hr.2]
        exact hl
      · split
        · cases hh : hexStr none [] rest with
          | none => simp
          | some q =>
            obtain ⟨s, r1⟩ := q
            have h1 := hexStr_len rest none [] s r1 hh
            have ih := parseArr_prog f r1 (s :: acc) (by omega)
            simp only []
            refine ⟨ih.1, fun xs r hr => ?_⟩
            have := ih.2 xs r hr
            omega
        · split <;> simp

theorem parseStrOrArr_prog (bs : Bytes) :
    parseStrOrArr bs ≠ .oof ∧ ∀ v r, parseStrOrArr bs = .ok (v, r) → r.length < bs.length := by
  unfold parseStrOrArr
  cases hn : nextWord bs with
  | none => simp
  | some p =>
    obtain ⟨w, rest⟩ := p
    have hl := nextWord_len bs w rest hn
    simp only []
    split
    · cases hh : hexStr none [] rest with
      | none => simp
      | some q =>
        obtain ⟨s, r1⟩ := q
        have h1 := hexStr_len rest none [] s r1 hh
        refine ⟨by simp, fun v r hr => ?_⟩
        simp only [R.ok.injEq, Prod.mk.injEq] at hr
        rw [← hr.2]
        omega
    · split
      · simp
      · split
        · have pa := parseArr_prog (rest.length + 1) rest [] (by omega)
          cases hp : parseArr (rest.length + 1) rest [] with
          | ok q =>
            obtain ⟨xs, r1⟩ := q
            have := pa.2 xs r1 hp
            refine ⟨by simp, fun v r hr => ?_⟩
            simp only [R.ok.injEq, Prod.mk.injEq] at hr
            rw [← hr.2]
            omega
          | err => simp
          | unmodelled => simp
          | oof => exact absurd hp pa.1
        · simp


theorem parseStr_ne_oof (bs : Bytes) : parseStr bs ≠ .oof := by
  unfold parseStr
  cases nextWord bs with
  | none => simp
  | some p =>
    obtain ⟨w, rest⟩ := p
    simp only []
    split
    · cases hexStr none [] rest <;> simp
    · split <;> simp

theorem bfchar_prog : ∀ (f : Nat) (bs : Bytes) (m : Map), bs.length < f →
    bfchar f bs m ≠ .oof ∧ ∀ r m', bfchar f bs m = .ok (r, m') → r.length ≤ bs.length
  | 0, bs, m, h => by omega
  | f + 1, bs, m, h => by
    unfold bfchar
    cases h1 : parseStr bs with
    | err => simp
    | unmodelled => simp
    | oof => exact absurd h1 (parseStr_ne_oof bs)
    | ok p =>
      obtain ⟨a, r1⟩ := p
      have l1 := parseStr_len bs a r1 h1
      simp only []
      cases h2 : parseStr r1 with
      | err =>
        refine ⟨by simp, fun r m' hr => ?_⟩
        simp only [R.ok.injEq, Prod.mk.injEq] at hr
        rw [← hr.1]
        omega
      | unmodelled => simp
      | oof => exact absurd h2 (parseStr_ne_oof r1)
      | ok q =>
        obtain ⟨b, r2⟩ := q
        have l2 := parseStr_len r1 b r2 h2
        simp only []
        cases parseCid a with
        | none => simp
        | some cid =>
          have ih := bfchar_prog f r2 (insertDecoded m cid b) (by omega)
          refine ⟨ih.1, fun r m' hr => ?_⟩
          have := ih.2 r m' hr
          omega

theorem bfrange_prog : ∀ (f : Nat) (bs : Bytes) (m : Map), bs.length < f →
    bfrange f bs m ≠ .oof ∧ ∀ r m', bfrange f bs m = .ok (r, m') → r.length ≤ bs.length
  | 0, bs, m, h => by omega
  | f + 1, bs, m, h => by
    unfold bfrange
    cases h1 : parseStr bs with
    | err => simp
    | unmodelled => simp
    | oof => exact absurd h1 (parseStr_ne_oof bs)
    | ok p =>
      obtain ⟨a, r1⟩ := p
      have l1 := parseStr_len bs a r1 h1
      simp only []
      cases h2 : parseStr r1 with
      | unmodelled => simp
      | oof => exact absurd h2 (parseStr_ne_oof r1)
      | err =>
        have pc := parseStrOrArr_prog r1
        simp only []
        cases h3 : parseStrOrArr r1 with
        | ok q =>
          obtain ⟨v, r3⟩ := q
          have := pc.2 v r3 h3
          refine ⟨by simp, fun r m' hr => ?_⟩
          simp only [R.ok.injEq, Prod.mk.injEq] at hr
          rw [← hr.1]
          omega
        | err =>
          refine ⟨by simp, fun r m' hr => ?_⟩
          simp only [R.ok.injEq, Prod.mk.injEq] at hr
          rw [← hr.1]
          omega
        | unmodelled => simp
        | oof => exact absurd h3 pc.1
      | ok q =>
        obtain ⟨b, r2⟩ := q
        have l2 := parseStr_len r1 b r2 h2
        have pc := parseStrOrArr_prog r2
        simp only []
        cases h3 : parseStrOrArr r2 with
        | err =>
          refine ⟨by simp, fun r m' hr => ?_⟩
          simp only [R.ok.injEq, Prod.mk.injEq] at hr
          rw [← hr.1]
          omega
        | unmodelled => simp
        | oof => exact absurd h3 pc.1
        | ok w =>
          obtain ⟨v, r3⟩ := w
          have l3 := pc.2 v r3 h3
          cases v with
          | str s =>
            simp only []
            split
            · cases parseCid a with
              | none => simp
              | some lo =>
                cases parseCid b with
                | none => simp
                | some hi =>
                  have ih := bfrange_prog f r3 (rangeStr (hi + 1 - lo) lo s m) (by omega)
                  refine ⟨ih.1, fun r m' hr => ?_⟩
                  have := ih.2 r m' hr
                  omega
            · refine ⟨by simp, fun r m' hr => ?_⟩
              simp only [R.ok.injEq, Prod.mk.injEq] at hr
              rw [← hr.1]
              omega
          | arr xs =>
            simp only []
            cases parseCid a with
            | none => simp
            | some lo =>
              cases parseCid b with
              | none => simp
              | some hi =>
                have ih := bfrange_prog f r3 (rangeArr (hi + 1 - lo) lo xs m) (by omega)
                refine ⟨ih.1, fun r m' hr => ?_⟩
                have := ih.2 r m' hr
                omega

theorem outer_ne_oof : ∀ (f : Nat) (bs : Bytes) (m : Map), bs.length < f → outer f bs m ≠ .oof
  | 0, bs, m, h => by omega
  | f + 1, bs, m, h => by
    unfold outer
    cases hn : nextWord bs with
    | none => simp
    | some p =>
      obtain ⟨w, rest⟩ := p
      have hl := nextWord_len bs w rest hn
      simp only []
      split
      · have pc := bfchar_prog f rest m (by omega)
        cases hb : bfchar f rest m with
        | ok q =>
          obtain ⟨r, m'⟩ := q
          have := pc.2 r m' hb
          exact outer_ne_oof f r m' (by omega)
        | err => simp
        | unmodelled => simp
        | oof => exact absurd hb pc.1
      · split
        · have pc := bfrange_prog f rest m (by omega)
          cases hb : bfrange f rest m with
          | ok q =>
            obtain ⟨r, m'⟩ := q
            have := pc.2 r m' hb
            exact outer_ne_oof f r m' (by omega)
          | err => simp
          | unmodelled => simp
          | oof => exact absurd hb pc.1
        · split
          · simp
          · exact outer_ne_oof f rest m (by omega)

/-- the reader model never runs out of fuel, on any byte string -/
theorem parseCMap_ne_oof (bs : Bytes) : parseCMap bs ≠ .oof :=
  outer_ne_oof (bs.length + 1) bs [] (by omega)

end CMap
