import PdfModel.Lemmas.Crypt

/-! `from_password` of revisions 2–4 returns for every key length (used by `Props/C14.lean`): the model of
    the C06 package, their lemmas, no restriction on `keyBits`. -/

namespace Crypt
open StdSec

theorem keyDerivUser_ok {P : Prims} {H : Hashes} (hp : PrimsAgree P H) (hw : H.WF) (r n : Nat) (d : CryptDict) (id pw : Bytes) :
    ∃ key, keyDerivUser P r n d id pw = .ok key ∧ key.length = max n 16 := by
  unfold keyDerivUser
  simp only [hp.md5, Out.bind_ok]
  by_cases h3 : r ≥ 3
  · simp only [if_pos h3, md5Iter_eq hp, Out.bind_ok]
    refine ⟨_, rfl, ?_⟩
    rw [List.length_append, List.length_replicate,
      iter_length (f := fun h => H.md5 (h.take (min n 16))) (m := 16) (fun x => hw.md5_len _) 50 _ (hw.md5_len _)]
    omega
  · simp only [if_neg h3, Out.bind_ok]
    refine ⟨_, rfl, ?_⟩
    rw [List.length_append, List.length_replicate, hw.md5_len]
    omega

theorem alg3Key_length {H : Hashes} (hw : H.WF) (r n : Nat) (hn : n ≤ 16) (pw : Bytes) : (alg3Key H r n pw).length = n := by
  unfold alg3Key
  have : ((if r ≥ 3 then iter H.md5 50 (H.md5 (pad32 pw)) else H.md5 (pad32 pw))).length = 16 := by
    by_cases h3 : r ≥ 3
    · rw [if_pos h3]; exact iter_length hw.md5_len _ _ (hw.md5_len _)
    · rw [if_neg h3]; exact hw.md5_len _
  simp only []
  rw [List.length_take, this]
  omega

theorem fromPasswordRc4_returns {P : Prims} {H : Hashes} (hp : PrimsAgree P H) (hw : H.WF)
    (d : CryptDict) (id pass : Bytes) (level keyBits : Nat) (m : Method) :
    fromPasswordRc4 P d id pass level keyBits m ≠ .panic ∧ fromPasswordRc4 P d id pass level keyBits m ≠ .oof := by
  unfold fromPasswordRc4
  simp only []
  by_cases h0 : keyBits / 8 = 0
  · rw [if_pos h0]; simp
  · rw [if_neg h0]
    by_cases h32 : keyBits / 8 > 32
    · rw [if_pos h32]; simp
    rw [if_neg h32]
    have hks : 1 ≤ keyBits / 8 := Nat.pos_of_ne_zero h0
    obtain ⟨key, hkey, hlen⟩ := keyDerivUser_ok hp hw level (keyBits / 8) d id pass
    have hv1 : validKey (key.take (min (keyBits / 8) 16)) := by
      unfold validKey; rw [List.length_take, hlen]; omega
    rw [hkey, Out.bind_ok, checkPasswordRc4_eq hp hw level d.u id _ hv1, Out.bind_ok]
    generalize decide (if level = 2 then makeU H 2 (key.take (min (keyBits / 8) 16)) id [] = d.u
      else makeU H level (key.take (min (keyBits / 8) 16)) id [] = d.u.take 16) = b1
    cases b1
    · simp only [Bool.false_eq_true, if_false]
      by_cases hbig : keyBits / 8 > 16
      · have : keyDerivOwner P level (keyBits / 8) pass = .err := by unfold keyDerivOwner; rw [if_pos hbig]
        rw [this]; simp
      · have hle : keyBits / 8 ≤ 16 := by omega
        have hwk : validKey (alg3Key H level (keyBits / 8) pass) := by
          unfold validKey; rw [alg3Key_length hw _ _ hle]; omega
        rw [keyDerivOwner_eq hp hw level (keyBits / 8) hle pass, Out.bind_ok, roundList_eq, rc4Rounds_eq hwk, Out.bind_ok]
        obtain ⟨key2, hkey2, hlen2⟩ := keyDerivUser_ok hp hw level (keyBits / 8) d id
          (rc4Chain (alg3Key H level (keyBits / 8) pass) ((List.range ((if level = 2 then 1 else 20) - 0)).map (0 + ·)) d.o)
        have hv2 : validKey (key2.take (keyBits / 8)) := by
          unfold validKey; rw [List.length_take, hlen2]; omega
        rw [hkey2, Out.bind_ok, checkPasswordRc4_eq hp hw level d.u id _ hv2, Out.bind_ok]
        generalize decide (if level = 2 then makeU H 2 (key2.take (keyBits / 8)) id [] = d.u
          else makeU H level (key2.take (keyBits / 8)) id [] = d.u.take 16) = b2
        cases b2 <;> simp
    · simp

end Crypt
