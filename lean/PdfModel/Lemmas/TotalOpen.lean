import PdfModel.Lemmas.OffsetsFuel
import PdfModel.Lemmas.Xref
import PdfModel.Lemmas.ObjStm
import PdfModel.Lemmas.TypedLoad

/-!
  Totality of the open path of `Model/Offsets` (C01): header search, `startxref`, the chain of sections and
  their merge, resolving an object by number through direct or compressed storage, raw stream data, `scan`.

  The token-level parsers are parameters of that model (`Offsets.Parsers`); `Total P` says of them what
  `Props/C01` proves of the concrete ones (`Model/Parser`, `Model/XrefTable`, `Model/ObjStm`, `Model/Enc`):
  they return `Ok` or `Err`, a section reader only produces `Free` / `Raw` / `Stream` entries, and an object
  read with `ParseFlags::INTEGER` (the indirect `/Length`) is never a stream (`check(flags, DICT)` fails first).

  * `loadTable_returns`, `openFile_returns`: for every buffer, with fuel `len + 2` for the `/Prev` loop.
  * `resolveRef_returns`: fuel `2 · table length + 3` always suffices.  The guard `chain` holds distinct object
    numbers; only numbers inside the table can lead any further, so (pigeonhole) at most `table length`
    containers nest, and between two containers there is at most one `/Length` indirection.
-/

namespace Offsets
open OffLex

variable {V T : Type}

/-- the parsers are total on the suffixes of a buffer of `n` bytes (the only ones the open path hands them) and on
    the members of what `decode` delivers -/
structure TotalOn (P : Parsers V T) (n : Nat) : Prop where
  xrefAt : ∀ sfx, sfx.length ≤ n → (P.xrefAt sfx).Returns
  xrefSubs : ∀ sfx subs tr, sfx.length ≤ n → P.xrefAt sfx = .ok (subs, tr) → Xref.pairsOK (Xref.secPairs subs)
  sizeOf : ∀ tr, (P.sizeOf tr).Returns
  prevOf : ∀ tr r, P.prevOf tr = some r → r.Returns
  objAt : ∀ fl sfx, sfx.length ≤ n → (P.objAt fl sfx).Returns
  objAtInt : ∀ sfx info rel len, P.objAt .integer sfx ≠ .ok (.stream info rel len)
  streamEnd : ∀ sfx, sfx.length ≤ n → (P.streamEnd sfx).Returns
  asLen : ∀ v, (P.asLen v).Returns
  stmHead : ∀ v, (P.stmHead v).Returns
  decode : ∀ v raw, (P.decode v raw).Returns
  parseMember : ∀ fl s v raw data, P.decode v raw = .ok data → s.length ≤ data.length → (P.parseMember fl s).Returns
  scanItems : ∀ s, ∀ it ∈ P.scanItems s, it.Returns

/-- total on every suffix -/
structure Total (P : Parsers V T) : Prop where
  xrefAt : ∀ sfx, (P.xrefAt sfx).Returns
  xrefSubs : ∀ sfx subs tr, P.xrefAt sfx = .ok (subs, tr) → Xref.pairsOK (Xref.secPairs subs)
  sizeOf : ∀ tr, (P.sizeOf tr).Returns
  prevOf : ∀ tr r, P.prevOf tr = some r → r.Returns
  objAt : ∀ fl sfx, (P.objAt fl sfx).Returns
  objAtInt : ∀ sfx info rel len, P.objAt .integer sfx ≠ .ok (.stream info rel len)
  streamEnd : ∀ sfx, (P.streamEnd sfx).Returns
  asLen : ∀ v, (P.asLen v).Returns
  stmHead : ∀ v, (P.stmHead v).Returns
  decode : ∀ v raw, (P.decode v raw).Returns
  parseMember : ∀ fl s, (P.parseMember fl s).Returns
  scanItems : ∀ s, ∀ it ∈ P.scanItems s, it.Returns

theorem Total.on {P : Parsers V T} (h : Total P) (n : Nat) : TotalOn P n :=
  ⟨fun sfx _ => h.xrefAt sfx, fun sfx subs tr _ hx => h.xrefSubs sfx subs tr hx, h.sizeOf, h.prevOf,
   fun fl sfx _ => h.objAt fl sfx, h.objAtInt, fun sfx _ => h.streamEnd sfx, h.asLen, h.stmHead, h.decode,
   fun fl s _ _ _ _ _ => h.parseMember fl s, h.scanItems⟩

/-- `P` with its section reader cut off beyond `n` bytes: on a buffer of `n` bytes the open path cannot tell
    the difference (`loadTable_clamp`), and the clamped reader answers on every suffix -/
def clampX (P : Parsers V T) (n : Nat) : Parsers V T :=
  { P with xrefAt := fun sfx => if sfx.length ≤ n then P.xrefAt sfx else .err }

theorem suffixAt_len (buf : Bytes) (start off pos : Nat) (sfx : Bytes)
    (h : suffixAt buf start off = .ok (pos, sfx)) : sfx.length ≤ buf.length := by
  unfold suffixAt checkedAdd readFrom at h
  by_cases h1 : start + off > usizeMax
  · simp [h1] at h
  · by_cases h2 : start + off ≤ buf.length
    · simp [h1, h2] at h; rw [← h.2]; simp
    · simp [h1, h2] at h

theorem returns_ok {α : Type} (a : α) : (Out.ok a).Returns := ⟨by simp, by simp⟩
theorem returns_err {α : Type} : (Out.err : Out α).Returns := ⟨by simp, by simp⟩

theorem suffixAt_ne_panic (buf : Bytes) (start off : Nat) : suffixAt buf start off ≠ .panic := by
  unfold suffixAt checkedAdd readFrom
  by_cases h1 : start + off > usizeMax
  · simp [h1]
  · by_cases h2 : start + off ≤ buf.length <;> simp [h1, h2]

theorem readRange_returns (buf : Bytes) (a b : Nat) : (readRange buf a b).Returns := by
  unfold readRange; split
  · exact returns_ok _
  · exact returns_err

theorem locateXref_ne_panic (buf : Bytes) : locateXref buf ≠ .panic := by
  unfold locateXref
  split
  · simp
  · rename_i s _
    have h1 := nextWord_returns (buf.drop (s + startxrefKw.length))
    cases hw : nextWord (buf.drop (s + startxrefKw.length)) with
    | ok r => exact (parseUsize_returns r.1).2
    | err => simp
    | panic => exact absurd hw h1.2
    | oof => simp

/-- the merge step on what a total section reader delivers: `Ok`, and no `Promised` entry appears -/
theorem addSubs_total {P : Parsers V T} {n : Nat} (hP : TotalOn P n) (sfx : Bytes) (hlen : sfx.length ≤ n) (subs : List Xref.Sub) (tr : T)
    (hx : P.xrefAt sfx = .ok (subs, tr)) (t : Xref.Table) (ht : Xref.noProm t) :
    ∃ t', Xref.addSubs t subs = .ok t' ∧ Xref.noProm t' :=
  ⟨_, Xref.addSubs_eq t subs ht (hP.xrefSubs sfx subs tr hlen hx), Xref.pureAdd_noProm t _ ht (hP.xrefSubs sfx subs tr hlen hx)⟩

theorem prevLoop_ne_panic (P : Parsers V T) (buf : Bytes) (hP : TotalOn P buf.length) (start : Nat) :
    ∀ (fuel : Nat) (seen : List Nat) (pv : Option Nat) (t : Xref.Table), Xref.noProm t →
      prevLoop P buf start fuel seen pv t ≠ .panic := by
  intro fuel
  induction fuel with
  | zero => intro seen pv t _; cases pv <;> simp [prevLoop]
  | succ fuel ih =>
    intro seen pv t ht
    cases pv with
    | none => simp [prevLoop]
    | some v =>
      simp only [prevLoop]
      split
      · simp
      · cases hs : suffixAt buf start v with
        | ok qs =>
          obtain ⟨q, sfx⟩ := qs
          simp only
          cases hxr : P.xrefAt sfx with
          | ok r =>
            obtain ⟨subs, tr⟩ := r
            simp only
            have hlen := suffixAt_len buf start v q sfx hs
            obtain ⟨t', had, ht'⟩ := addSubs_total hP sfx hlen subs tr hxr t ht
            rw [had]; simp only
            cases hpv : P.prevOf tr with
            | none => simp
            | some o =>
              have hp := hP.prevOf tr o hpv
              cases o with
              | ok v' => simp only; exact ih _ _ _ ht'
              | err => simp
              | panic => exact absurd rfl hp.1
              | oof => simp
          | err => simp
          | panic => exact absurd hxr (hP.xrefAt sfx (suffixAt_len buf start v q sfx hs)).1
          | oof => simp
        | err => simp
        | panic => exact absurd hs (suffixAt_ne_panic buf start v)
        | oof => simp

theorem newTable_noProm (size : Nat) : Xref.noProm (Xref.newTable size) := by
  intro e he; simp [Xref.newTable] at he; rcases he with ⟨_, rfl⟩ | rfl <;> simp

theorem loadTable_ne_panic (P : Parsers V T) (buf : Bytes) (hP : TotalOn P buf.length) (start fuel : Nat) :
    loadTable P fuel buf start ≠ .panic := by
  unfold loadTable
  cases hx : locateXref buf with
  | ok x =>
    simp only
    unfold suffixAtStrict checkedAdd
    by_cases h1 : start + x > usizeMax
    · simp [h1]
    · simp only [h1, if_false]
      by_cases h2 : start + x ≥ buf.length
      · simp [h2]
      · simp only [h2, if_false]
        cases hxr : P.xrefAt (buf.drop (start + x)) with
        | ok r =>
          obtain ⟨subs, tr⟩ := r
          simp only
          cases hsz : P.sizeOf tr with
          | ok size =>
            simp only
            split
            · simp
            · obtain ⟨t, had, ht⟩ := addSubs_total hP _ (by simp) subs tr hxr (Xref.newTable size) (newTable_noProm size)
              rw [had]; simp only
              cases hpv : P.prevOf tr with
              | none => simp
              | some o =>
                have hp := hP.prevOf tr o hpv
                cases o with
                | ok pv =>
                  simp only
                  have := prevLoop_ne_panic P buf hP start fuel [] (some pv) t ht
                  cases hl : prevLoop P buf start fuel [] (some pv) t with
                  | ok t' => simp
                  | err => simp
                  | panic => exact absurd hl this
                  | oof => simp
                | err => simp
                | panic => exact absurd rfl hp.1
                | oof => simp
          | err => simp
          | panic => exact absurd hsz (hP.sizeOf tr).1
          | oof => simp
        | err => simp
        | panic => exact absurd hxr (hP.xrefAt _ (by simp)).1
        | oof => simp
  | err => simp
  | panic => exact absurd hx (locateXref_ne_panic buf)
  | oof => simp

/-- `Backend::read_xref_table_and_trailer`: `Ok` or `Err` for every buffer, with `len + 2` rounds of the `/Prev` loop -/
theorem clampX_xrefAt (P : Parsers V T) (n : Nat) (sfx : Bytes) (h : sfx.length ≤ n) :
    (clampX P n).xrefAt sfx = P.xrefAt sfx := by simp [clampX, h]

theorem clampX_prevOf (P : Parsers V T) (n : Nat) : (clampX P n).prevOf = P.prevOf := rfl
theorem clampX_sizeOf (P : Parsers V T) (n : Nat) : (clampX P n).sizeOf = P.sizeOf := rfl

theorem prevLoop_clamp (P : Parsers V T) (buf : Bytes) (start : Nat) :
    ∀ (fuel : Nat) (seen : List Nat) (pv : Option Nat) (t : Xref.Table),
      prevLoop (clampX P buf.length) buf start fuel seen pv t = prevLoop P buf start fuel seen pv t := by
  intro fuel
  induction fuel with
  | zero => intro seen pv t; cases pv <;> rfl
  | succ fuel ih =>
    intro seen pv t
    cases pv with
    | none => rfl
    | some v =>
      simp only [prevLoop]
      split
      · rfl
      · cases hs : suffixAt buf start v with
        | ok qs =>
          obtain ⟨q, sfx⟩ := qs
          simp only
          rw [clampX_xrefAt P buf.length sfx (suffixAt_len buf start v q sfx hs)]
          cases P.xrefAt sfx with
          | ok r =>
            obtain ⟨subs, tr⟩ := r
            simp only
            cases Xref.addSubs t subs with
            | ok t' =>
              simp only [clampX_prevOf]
              cases P.prevOf tr with
              | none => rfl
              | some o => cases o <;> simp only [ih]
            | err => rfl
            | panic => rfl
            | oof => rfl
          | err => rfl
          | panic => rfl
          | oof => rfl
        | err => rfl
        | panic => rfl
        | oof => rfl

theorem loadTable_clamp (P : Parsers V T) (buf : Bytes) (start fuel : Nat) :
    loadTable (clampX P buf.length) fuel buf start = loadTable P fuel buf start := by
  unfold loadTable
  cases locateXref buf with
  | ok x =>
    simp only
    unfold suffixAtStrict checkedAdd
    by_cases h1 : start + x > usizeMax
    · simp [h1]
    · simp only [h1, if_false]
      by_cases h2 : start + x ≥ buf.length
      · simp [h2]
      · simp only [h2, if_false]
        rw [clampX_xrefAt P buf.length _ (by simp)]
        cases P.xrefAt (buf.drop (start + x)) with
        | ok r =>
          obtain ⟨subs, tr⟩ := r
          simp only [clampX_sizeOf, clampX_prevOf, prevLoop_clamp]
        | err => rfl
        | panic => rfl
        | oof => rfl
  | err => rfl
  | panic => rfl
  | oof => rfl

theorem clampX_noOof (P : Parsers V T) (n : Nat) (hP : TotalOn P n) : NoOof (clampX P n) := by
  refine ⟨fun sfx => ?_, fun tr => (hP.sizeOf tr).2, fun tr hh => (hP.prevOf tr _ hh).2 rfl⟩
  show (if sfx.length ≤ n then P.xrefAt sfx else Out.err) ≠ .oof
  split
  · rename_i h; exact (hP.xrefAt sfx h).2
  · simp

theorem loadTable_returns (P : Parsers V T) (buf : Bytes) (hP : TotalOn P buf.length) (start fuel : Nat)
    (hf : buf.length + 2 ≤ fuel) : (loadTable P fuel buf start).Returns := by
  refine ⟨loadTable_ne_panic P buf hP start fuel, ?_⟩
  rw [← loadTable_clamp P buf start fuel]
  exact loadTable_ne_oof (clampX P buf.length) (clampX_noOof P buf.length hP) buf start fuel hf

theorem locateStart_returns (buf : Bytes) : (locateStart buf).Returns := by
  unfold locateStart; split
  · exact returns_ok _
  · exact returns_err

/-- header search, `startxref`, sections, merge -/
theorem openFile_returns (P : Parsers V T) (buf : Bytes) (hP : TotalOn P buf.length) (fuel : Nat) (hf : buf.length + 2 ≤ fuel) :
    (openFile P fuel buf).Returns := by
  unfold openFile
  cases hs : locateStart buf with
  | ok start =>
    simp only
    have := loadTable_returns P buf hP start fuel hf
    cases hl : loadTable P fuel buf start with
    | ok r => obtain ⟨t, tr⟩ := r; exact returns_ok _
    | err => exact returns_err
    | panic => exact absurd hl this.1
    | oof => exact absurd hl this.2
  | err => exact returns_err
  | panic => exact absurd hs (locateStart_returns buf).1
  | oof => exact absurd hs (locateStart_returns buf).2

/-! ### resolving an object -/

theorem finishStream_returns (P : Parsers V T) {N : Nat} (hP : TotalOn P N) (suffix : Bytes) (hlen : suffix.length ≤ N)
    (q : Nat) (info : V) (rel n : Nat) :
    (finishStream P suffix q info rel n).Returns := by
  unfold finishStream
  split
  · exact returns_err
  · have := hP.streamEnd (suffix.drop (rel + n)) (by simp; omega)
    cases hs : P.streamEnd (suffix.drop (rel + n)) with
    | ok _ => exact returns_ok _
    | err => exact returns_err
    | panic => exact absurd hs this.1
    | oof => exact absurd hs this.2

theorem streamWithLen_returns (P : Parsers V T) {N : Nat} (hP : TotalOn P N) (resolveLen : Nat → Out (Obj V))
    (hr : ∀ lid, (resolveLen lid).Returns) (suffix : Bytes) (hlen : suffix.length ≤ N) (q : Nat) (info : V) (rel : Nat) (ls : LenSpec) :
    (streamWithLen P resolveLen suffix q info rel ls).Returns := by
  unfold streamWithLen
  cases ls with
  | direct n => exact finishStream_returns P hP suffix hlen q info rel n
  | indirect lid =>
    simp only
    have := hr lid
    cases hl : resolveLen lid with
    | ok o =>
      cases o with
      | plain v =>
        simp only
        have ha := hP.asLen v
        cases hv : P.asLen v with
        | ok n => exact finishStream_returns P hP suffix hlen q info rel n
        | err => exact returns_err
        | panic => exact absurd hv ha.1
        | oof => exact absurd hv ha.2
      | stream _ _ _ => exact returns_err
    | err => exact returns_err
    | panic => exact absurd hl this.1
    | oof => exact absurd hl this.2
  | bad => exact returns_err

/-- the `XRef::Raw` branch; with `ParseFlags::INTEGER` the length resolver is never asked -/
theorem directBody_returns (P : Parsers V T) (buf : Bytes) (hP : TotalOn P buf.length) (resolveLen : Nat → Out (Obj V))
    (start : Nat) (flags : Flags) (pos : Nat) (hr : flags = .any → ∀ lid, (resolveLen lid).Returns) :
    (directBody P resolveLen buf start flags pos).Returns := by
  unfold directBody
  cases hs : suffixAt buf start pos with
  | ok qs =>
    obtain ⟨q, suffix⟩ := qs
    simp only
    have hlen := suffixAt_len buf start pos q suffix hs
    have ho := hP.objAt flags suffix hlen
    cases hobj : P.objAt flags suffix with
    | ok op =>
      cases op with
      | plain v => exact returns_ok _
      | stream info rel ls =>
        simp only
        cases flags with
        | any => exact streamWithLen_returns P hP resolveLen (hr rfl) suffix hlen q info rel ls
        | integer => exact absurd hobj (hP.objAtInt suffix info rel ls)
    | err => exact returns_err
    | panic => exact absurd hobj ho.1
    | oof => exact absurd hobj ho.2
  | err => exact returns_err
  | panic => exact absurd hs (suffixAt_ne_panic buf start pos)
  | oof => exact absurd hs (suffixAt_ne_oof buf start pos)

theorem memberSlice_len (d : Bytes) (a b : Nat) (slice : Bytes) (h : ObjStm.memberSlice d a b = .ok slice) :
    slice.length ≤ d.length := by
  unfold ObjStm.memberSlice at h
  split at h
  · cases h; simp; omega
  · cases h

theorem getObjectSlice_data (offsets : List Nat) (first : Nat) (data : Bytes) (idx : Nat) (d : Bytes) (s e : Nat)
    (h : ObjStm.getObjectSlice offsets first (.ok data) idx = .ok (d, s, e)) : d = data := by
  unfold ObjStm.getObjectSlice at h
  by_cases h1 : idx ≥ offsets.length
  · simp [h1] at h
  · simp only [h1, if_false] at h
    cases ho : offsets[idx]? with
    | none => simp [ho] at h
    | some o =>
      simp only [ho] at h
      by_cases h2 : first + o > usizeMax
      · simp [h2] at h
      · simp only [h2, if_false] at h
        by_cases h3 : idx = offsets.length - 1
        · simp only [h3, if_true] at h
          cases h; rfl
        · simp only [h3, if_false] at h
          cases ho2 : offsets[idx + 1]? with
          | none => simp [ho2] at h
          | some o2 =>
            simp only [ho2] at h
            by_cases h4 : first + o2 > usizeMax
            · simp [h4] at h
            · simp only [h4, if_false] at h
              cases h; rfl

theorem memberSlice_returns (d : Bytes) (a b : Nat) : (ObjStm.memberSlice d a b).Returns := by
  unfold ObjStm.memberSlice; split
  · exact returns_ok _
  · exact returns_err

/-- the `XRef::Stream` branch behind the guard -/
theorem compressedBody_returns (P : Parsers V T) {n : Nat} (hP : TotalOn P n) (container : Out (Obj V)) (hc : container.Returns)
    (buf : Bytes) (flags : Flags) (idx : Nat) : (compressedBody P container buf flags idx).Returns := by
  unfold compressedBody
  cases container with
  | ok o =>
    cases o with
    | plain _ => exact returns_err
    | stream info a b =>
      simp only
      have h1 := hP.stmHead info
      cases hh : P.stmHead info with
      | ok nf =>
        obtain ⟨n, first⟩ := nf
        simp only
        have h2 := readRange_returns buf a b
        cases hr : readRange buf a b with
        | ok raw =>
          simp only
          have h3 := hP.decode info raw
          cases hd : P.decode info raw with
          | ok data =>
            simp only
            have h4 := ObjStmSpec.parseHeader_returns n data
            cases hp : ObjStm.parseHeader n data with
            | ok offsets =>
              simp only
              have h5 := ObjStmSpec.getObjectSlice_returns offsets first data idx
              cases hg : ObjStm.getObjectSlice offsets first (.ok data) idx with
              | ok r =>
                obtain ⟨d, s, e⟩ := r
                simp only
                have h6 := memberSlice_returns d s e
                cases hm : ObjStm.memberSlice d s e with
                | ok slice =>
                  simp only
                  have hd' : d = data := getObjectSlice_data offsets first data idx d s e hg
                  have h7 := hP.parseMember flags slice info raw data hd (by
                    rw [← hd']; exact memberSlice_len d s e slice hm)
                  cases hv : P.parseMember flags slice with
                  | ok v => exact returns_ok _
                  | err => exact returns_err
                  | panic => exact absurd hv h7.1
                  | oof => exact absurd hv h7.2
                | err => exact returns_err
                | panic => exact absurd hm h6.1
                | oof => exact absurd hm h6.2
              | err => exact returns_err
              | panic => exact absurd hg h5.1
              | oof => exact absurd hg h5.2
            | err => exact returns_err
            | panic => exact absurd hp h4.1
            | oof => exact absurd hp h4.2
          | err => exact returns_err
          | panic => exact absurd hd h3.1
          | oof => exact absurd hd h3.2
        | err => exact returns_err
        | panic => exact absurd hr h2.1
        | oof => exact absurd hr h2.2
      | err => exact returns_err
      | panic => exact absurd hh h1.1
      | oof => exact absurd hh h1.2
  | err => exact returns_err
  | panic => exact absurd rfl hc.1
  | oof => exact absurd rfl hc.2

/-- room left in the guard: table slots not yet on the chain -/
def room (t : Xref.Table) (chain : List Nat) : Nat := t.length - (chain.filter (· < t.length)).length

theorem room_cons_inside (t : Xref.Table) (chain : List Nat) (sid : Nat) (hn : chain.Nodup) (hs : sid ∉ chain)
    (hlt : sid < t.length) : room t (sid :: chain) + 1 = room t chain ∧ 1 ≤ room t chain := by
  unfold room
  have hf : (sid :: chain).filter (· < t.length) = sid :: chain.filter (· < t.length) := by
    simp [hlt]
  have hnd : (sid :: chain.filter (· < t.length)).Nodup := by
    refine List.nodup_cons.2 ⟨?_, hn.sublist List.filter_sublist⟩
    intro hm; exact hs (List.mem_filter.1 hm).1
  have hb : ∀ x ∈ sid :: chain.filter (· < t.length), x < t.length := by
    intro x hx
    rcases List.mem_cons.1 hx with rfl | hx
    · exact hlt
    · simpa using (List.mem_filter.1 hx).2
  have := TypedLoad.nodup_bounded_length t.length _ hnd hb
  rw [hf]
  simp only [List.length_cons] at this ⊢
  omega

theorem room_cons_outside (t : Xref.Table) (chain : List Nat) (sid : Nat) (hge : ¬ sid < t.length) :
    room t (sid :: chain) = room t chain := by
  unfold room
  simp [hge]

theorem lookup_outside (t : Xref.Table) (id : Nat) (h : ¬ id < t.length) : Xref.lookup t id = .unspecified := by
  unfold Xref.lookup
  have : t[id]? = none := by simp; omega
  simp [this]

/-- **`Storage::resolve_ref` is total.**  For every table, every guard without duplicates, every request:
    `Ok` or `Err`, never out of fuel once the fuel is `2 · room + 3` (`+ 2` for an `INTEGER` request). -/
theorem resolveRef_returns (P : Parsers V T) (buf : Bytes) (hP : TotalOn P buf.length) (start : Nat) (t : Xref.Table) :
    ∀ (fuel : Nat) (chain : List Nat) (flags : Flags) (id : Nat), chain.Nodup →
      2 * room t chain + (if flags = .any then 3 else 2) ≤ fuel →
      (resolveRef P buf start t fuel chain flags id).Returns := by
  intro fuel
  induction fuel with
  | zero => intro chain flags id _ hf; cases flags <;> simp at hf
  | succ fuel ih =>
    intro chain flags id hn hf
    unfold resolveRef
    cases hl : Xref.lookup t id with
    | direct pos =>
      simp only
      apply directBody_returns P buf hP
      intro hfl lid
      subst hfl
      exact ih chain .integer lid hn (by simp at hf ⊢; omega)
    | compressed sid idx =>
      simp only
      by_cases hc : chain.contains sid = true
      · simp only [hc, if_true]; exact returns_err
      · simp only [hc, Bool.false_eq_true, if_false]
        have hnot : sid ∉ chain := by simpa using hc
        apply compressedBody_returns P hP
        by_cases hlt : sid < t.length
        · obtain ⟨h1, h2⟩ := room_cons_inside t chain sid hn hnot hlt
          apply ih (sid :: chain) .any sid (List.nodup_cons.2 ⟨hnot, hn⟩)
          cases flags <;> simp at hf ⊢ <;> omega
        · -- an object number beyond the table: the next call ends at the lookup
          have hf1 : 1 ≤ fuel := by cases flags <;> simp at hf <;> omega
          obtain ⟨k, hk⟩ : ∃ k, fuel = k + 1 := ⟨fuel - 1, by omega⟩
          rw [hk]; unfold resolveRef
          rw [lookup_outside t sid hlt]
          exact returns_err
    | freeObject => exact returns_err
    | nullRef => exact returns_err
    | unspecified => exact returns_err
    | unimplemented => exact returns_err

/-- from the empty guard: `2 · table length + 3` -/
theorem resolveRef_returns_top (P : Parsers V T) (buf : Bytes) (hP : TotalOn P buf.length) (start : Nat) (t : Xref.Table)
    (fuel : Nat) (flags : Flags) (id : Nat) (hf : 2 * t.length + 3 ≤ fuel) :
    (resolveRef P buf start t fuel [] flags id).Returns := by
  apply resolveRef_returns P buf hP start t fuel [] flags id List.nodup_nil
  have : room t [] = t.length := by simp [room]
  rw [this]; cases flags <;> simp <;> omega

theorem rawData_returns (buf : Bytes) (o : Obj V) : (rawData buf o).Returns := by
  unfold rawData
  cases o with
  | plain _ => exact returns_err
  | stream _ a b => exact readRange_returns buf a b

theorem version_returns (buf : Bytes) (start : Nat) : (version buf start).Returns := readRange_returns buf _ _

/-- `Storage::scan`: the call returns, and so does every item of the iterator -/
theorem scan_returns (P : Parsers V T) (buf : Bytes) (hP : TotalOn P buf.length) (start : Nat) :
    (scan P buf start).Returns ∧ ∀ items, scan P buf start = .ok items → ∀ it ∈ items, it.Returns := by
  unfold scan
  cases hx : locateXref buf with
  | ok x =>
    simp only
    unfold checkedAdd
    by_cases h1 : start + x > usizeMax
    · simp only [h1, if_true]
      exact ⟨returns_err, fun items hh => by cases hh⟩
    · simp only [h1, if_false]
      have h2 := readRange_returns buf start (start + x)
      cases hr : readRange buf start (start + x) with
      | ok slice =>
        simp only
        refine ⟨returns_ok _, fun items hh it hit => ?_⟩
        cases hh
        obtain ⟨it0, hit0, rfl⟩ := List.mem_map.1 hit
        have := hP.scanItems slice it0 hit0
        cases it0 with
        | ok o => exact returns_ok _
        | err => exact returns_err
        | panic => exact absurd rfl this.1
        | oof => exact absurd rfl this.2
      | err => exact ⟨returns_err, fun items hh => by cases hh⟩
      | panic => exact absurd hr h2.1
      | oof => exact absurd hr h2.2
  | err => exact ⟨returns_err, fun items hh => by cases hh⟩
  | panic => exact absurd hx (locateXref_ne_panic buf)
  | oof => exact absurd hx (locateXref_ne_oof buf)

end Offsets
