import PdfModel.Lemmas.EncTotal

set_option linter.unusedSimpArgs false

/-! The encoders of the model emit conforming text (C16). -/

namespace Enc
open Codecs

theorem encodeNibble_lt16 : ∀ n : UInt8, n < 16 → encodeNibble n = .ok (if n < 10 then 48 + n else 87 + n) := by decide +kernel

theorem isHexDigit_encoded : ∀ n : UInt8, n < 16 → IsHexDigit (if n < 10 then 48 + n else 87 + n) n := by
  intro n hn
  by_cases h : n < 10
  · simp [h, IsHexDigit]
  · simp only [h, if_false]
    right
    refine ⟨?_, hn, Or.inl rfl⟩
    rw [UInt8.le_iff_toNat_le]; rw [UInt8.lt_iff_toNat_lt] at h
    simp at h ⊢; omega

theorem encodeHexGo_spec (bs : Bytes) : ∃ body, encodeHexGo bs = .ok (body ++ [62]) ∧ HexBody bs body := by
  induction bs with
  | nil => exact ⟨[], rfl, .nil⟩
  | cons b bs ih =>
    obtain ⟨body, h1, h2⟩ := ih
    refine ⟨_ :: _ :: body, ?_, .byte (isHexDigit_encoded _ (hi_lt b)) (isHexDigit_encoded _ (lo_lt b)) h2⟩
    simp [encodeHexGo, encodeNibble_lt16 _ (hi_lt b), encodeNibble_lt16 _ (lo_lt b), h1]

theorem base85Chunk_eq (n : Nat) (h : n < 4294967296) : base85Chunk n = .ok (group85 n) := by
  obtain ⟨p4, p3, p2, p1, p0⟩ := div_pow85 n
  unfold base85Chunk group85 digit85
  rw [p4, p3, p2, p1, p0, top_digit_mod n h]
  dsimp only
  rw [if_neg (by omega)]

theorem be32_eq (b0 b1 b2 b3 : UInt8) : Enc.be32 b0 b1 b2 b3 = Codecs.be32 b0 b1 b2 b3 := rfl

theorem encode85Go_spec : ∀ (bs : Bytes), ∃ body, encode85Go bs = .ok (body ++ [126, 62]) ∧ A85Body bs body
  | [] => ⟨[], rfl, .nil⟩
  | [b0] => ⟨_, by simp [encode85Go, be32_eq, base85Chunk_eq _ (be32_lt b0 0 0 0)], .tail1⟩
  | [b0, b1] => ⟨_, by simp [encode85Go, be32_eq, base85Chunk_eq _ (be32_lt b0 b1 0 0)], .tail2⟩
  | [b0, b1, b2] => ⟨_, by simp [encode85Go, be32_eq, base85Chunk_eq _ (be32_lt b0 b1 b2 0)], .tail3⟩
  | b0 :: b1 :: b2 :: b3 :: rest => by
    obtain ⟨body, h1, h2⟩ := encode85Go_spec rest
    by_cases hz : b0 = 0 ∧ b1 = 0 ∧ b2 = 0 ∧ b3 = 0
    · obtain ⟨rfl, rfl, rfl, rfl⟩ := hz
      exact ⟨122 :: body, by simp [encode85Go, h1], .z h2⟩
    · exact ⟨group85 (Codecs.be32 b0 b1 b2 b3) ++ body,
        by simp [encode85Go, hz, be32_eq, base85Chunk_eq _ (be32_lt b0 b1 b2 b3), h1], .group h2⟩

end Enc
