import PdfModel.Model.TypedLoad

/-! Helper lemmas for `Props/C14.lean`: the pigeonhole bound on duplicate-free lists of small numbers and
    the fold lemmas for the guarded typed load. -/

namespace TypedLoad

/-- pigeonhole: a duplicate-free list of numbers below `n` has at most `n` elements -/
theorem nodup_bounded_length : ∀ (n : Nat) (l : List Nat), l.Nodup → (∀ x ∈ l, x < n) → l.length ≤ n := by
  intro n
  induction n with
  | zero =>
    intro l _ hb
    cases l with
    | nil => simp
    | cons a t => exact absurd (hb a (by simp)) (by omega)
  | succ n ih =>
    intro l hn hb
    by_cases h : n ∈ l
    · have hn' : (l.erase n).Nodup := hn.erase n
      have hb' : ∀ x ∈ l.erase n, x < n := by
        intro x hx
        have hx' := (List.Nodup.mem_erase_iff hn).1 hx
        have := hb x hx'.2
        omega
      have := ih (l.erase n) hn' hb'
      rw [List.length_erase_of_mem h] at this
      omega
    · have hb' : ∀ x ∈ l, x < n := by
        intro x hx
        have := hb x hx
        have : x ≠ n := fun e => h (e ▸ hx)
        omega
      have := ih l hn hb'
      omega

theorem getElem?_some_lt {α : Type} (l : List α) (k : Nat) (a : α) (h : l[k]? = some a) : k < l.length := by
  have := List.getElem?_eq_some_iff.1 h
  exact this.1

-- ---------------------------------------------------------------------------------------------------
-- the field fold of `load`

theorem seqOut_oof (next : Unit → Out Unit) : seqOut .oof next = .oof := rfl
theorem seqOut_err (next : Unit → Out Unit) : seqOut .err next = .err := rfl
theorem seqOut_panic (next : Unit → Out Unit) : seqOut .panic next = .panic := rfl

/-- once the accumulator is not `ok`, the fold keeps it -/
theorem fold_fixed (g : Graph) (tol : Bool) (ld : Nat → Out Unit) (fs : List Field) (acc : Out Unit)
    (h : ∀ u, acc ≠ .ok u) :
    fs.foldl (fun acc f => seqOut acc (fun _ => fieldOutcome g tol f (ld f.target))) acc = acc := by
  induction fs generalizing acc with
  | nil => rfl
  | cons f fs ih =>
    simp only [List.foldl_cons]
    have : seqOut acc (fun _ => fieldOutcome g tol f (ld f.target)) = acc := by
      cases acc with
      | ok u => exact absurd rfl (h u)
      | err => rfl
      | panic => rfl
      | oof => rfl
    rw [this]
    exact ih acc h

theorem fieldOutcome_ne_oof (g : Graph) (tol : Bool) (f : Field) (r : Out Unit) (h : r ≠ .oof) :
    fieldOutcome g tol f r ≠ .oof := by
  unfold fieldOutcome
  cases r with
  | ok u => cases f.want <;> simp <;> split <;> (try split) <;> simp
  | err => simp only; split <;> simp
  | panic => simp
  | oof => exact absurd rfl h

theorem fieldOutcome_ne_panic (g : Graph) (tol : Bool) (f : Field) (r : Out Unit) (h : r ≠ .panic) :
    fieldOutcome g tol f r ≠ .panic := by
  unfold fieldOutcome
  cases r with
  | ok u => cases f.want <;> simp <;> split <;> (try split) <;> simp
  | err => simp only; split <;> simp
  | panic => exact absurd rfl h
  | oof => simp

/-- if no field's load has the outcome `bad` (oof or panic), neither has the fold -/
theorem fold_ne (g : Graph) (tol : Bool) (ld : Nat → Out Unit) (bad : Out Unit)
    (hf : ∀ (f : Field) (r : Out Unit), r ≠ bad → fieldOutcome g tol f r ≠ bad)
    (fs : List Field) (acc : Out Unit) (hacc : acc ≠ bad)
    (h : ∀ f ∈ fs, ld f.target ≠ bad) :
    fs.foldl (fun acc f => seqOut acc (fun _ => fieldOutcome g tol f (ld f.target))) acc ≠ bad := by
  induction fs generalizing acc with
  | nil => exact hacc
  | cons f fs ih =>
    simp only [List.foldl_cons]
    apply ih
    · cases acc with
      | ok u => exact hf f _ (h f (by simp))
      | err => exact hacc
      | panic => exact hacc
      | oof => exact hacc
    · intro f' hf'; exact h f' (by simp [hf'])

/-- two loaders that agree wherever the first does not run out of fuel give the same fold, provided the
    fold with the first does not run out of fuel -/
theorem fold_congr (g : Graph) (tol : Bool) (ld ld' : Nat → Out Unit)
    (hag : ∀ t, ld t ≠ .oof → ld' t = ld t)
    (fs : List Field) (acc : Out Unit)
    (h : fs.foldl (fun acc f => seqOut acc (fun _ => fieldOutcome g tol f (ld f.target))) acc ≠ .oof) :
    fs.foldl (fun acc f => seqOut acc (fun _ => fieldOutcome g tol f (ld' f.target))) acc =
    fs.foldl (fun acc f => seqOut acc (fun _ => fieldOutcome g tol f (ld f.target))) acc := by
  induction fs generalizing acc with
  | nil => rfl
  | cons f fs ih =>
    simp only [List.foldl_cons] at h ⊢
    cases acc with
    | ok u =>
      simp only [seqOut] at h ⊢
      by_cases hl : ld f.target = .oof
      · -- then the fold is stuck at oof: contradiction
        exfalso
        apply h
        have : fieldOutcome g tol f (ld f.target) = .oof := by rw [hl]; rfl
        rw [this]
        exact fold_fixed g tol ld fs .oof (by intro u; simp)
      · rw [hag _ hl]
        exact ih _ h
    | err => exact ih _ h
    | panic => exact ih _ h
    | oof => exact ih _ h

/-- invariant of the guard along nested loads -/
theorem load_ne_oof_aux (g : Graph) (tol : Bool) :
    ∀ (fuel : Nat) (chain : List Nat) (k : Nat), chain.Nodup → (∀ c ∈ chain, c < g.length) →
      g.length + 1 ≤ fuel + chain.length → load g tol fuel chain k ≠ .oof := by
  intro fuel
  induction fuel with
  | zero =>
    intro chain k hn hb hl
    have := nodup_bounded_length g.length chain hn hb
    omega
  | succ fuel ih =>
    intro chain k hn hb hl
    unfold load
    split
    · simp
    · rename_i hk
      split
      · simp
      split
      · simp
      · simp
      · simp
      · rename_i tag fields hg
        have hlt : k < g.length := getElem?_some_lt g k _ hg
        apply fold_ne g tol (load g tol fuel (k :: chain)) .oof (fieldOutcome_ne_oof g tol) fields (.ok ()) (by simp)
        intro f _
        apply ih
        · exact List.nodup_cons.2 ⟨hk, hn⟩
        · intro c hc
          rcases List.mem_cons.1 hc with rfl | hc
          · exact hlt
          · exact hb c hc
        · simp only [List.length_cons]; omega


end TypedLoad

namespace TypedLoad

-- ---------------------------------------------------------------------------------------------------
-- /Prev loop

theorem prevLoop_ne_oof_aux (secs : Sections) (start : Nat) :
    ∀ (fuel : Nat) (p : Option Nat) (seen : List Nat) (n : Nat), seen.Nodup → (∀ c ∈ seen, c < secs.length) →
      secs.length + 1 ≤ fuel + seen.length → prevLoop secs start fuel p seen n ≠ .oof := by
  intro fuel
  induction fuel with
  | zero =>
    intro p seen n hn hb hl
    have := nodup_bounded_length secs.length seen hn hb
    omega
  | succ fuel ih =>
    intro p seen n hn hb hl
    cases p with
    | none => simp [prevLoop]
    | some p =>
      unfold prevLoop
      split
      · simp
      · rename_i hp
        split
        · simp
        split
        · simp
        · simp
        · rename_i prev hs
          -- the number recorded is header-relative; the position read is `start + p`, inside the buffer
          have hlt : start + p < secs.length := getElem?_some_lt secs (start + p) _ hs
          apply ih
          · exact List.nodup_cons.2 ⟨hp, hn⟩
          · intro c hc
            rcases List.mem_cons.1 hc with rfl | hc
            · omega
            · exact hb c hc
          · simp only [List.length_cons]; omega

theorem prevLoop_ne_panic (secs : Sections) (start : Nat) :
    ∀ (fuel : Nat) (p : Option Nat) (seen : List Nat) (n : Nat), prevLoop secs start fuel p seen n ≠ .panic := by
  intro fuel
  induction fuel with
  | zero => intro p seen n; simp [prevLoop]
  | succ fuel ih =>
    intro p seen n
    cases p with
    | none => simp [prevLoop]
    | some p =>
      unfold prevLoop
      split
      · simp
      · split
        · simp
        split
        · simp
        · simp
        · exact ih _ _ _

-- ---------------------------------------------------------------------------------------------------
-- objects whose value is a reference

theorem resolveFlags_ne_bad (g : List Stored) : ∀ (d k : Nat), resolveFlags g d k ≠ .panic ∧ resolveFlags g d k ≠ .oof := by
  intro d
  induction d with
  | zero =>
    intro k
    unfold resolveFlags
    split <;> simp
  | succ d ih =>
    intro k
    unfold resolveFlags
    split
    · simp
    · simp
    · exact ih _

-- ---------------------------------------------------------------------------------------------------
-- colour spaces

theorem csLoad_ne_bad (g : List CObj) : ∀ (d k : Nat), csLoad g d k ≠ .panic ∧ csLoad g d k ≠ .oof := by
  intro d
  induction d with
  | zero =>
    intro k
    unfold csLoad
    split <;> simp
  | succ d ih =>
    intro k
    unfold csLoad
    split <;> (try simp) <;> (try exact ih _)

end TypedLoad

namespace TypedLoad

-- ---------------------------------------------------------------------------------------------------
-- tree walks

/-- invariant of the walk state: nothing entered twice, only numbers below `B`, one `get` per entry -/
def WalkInv (B : Nat) (st : WalkSt) : Prop :=
  st.visited.Nodup ∧ (∀ x ∈ st.visited, x < B) ∧ st.gets = st.visited.length

theorem walkKid_inv (g : List TNode) (B : Nat) (descend : TNode → WalkSt → WalkRes) (dz : Bool)
    (hd : ∀ node ∈ g, ∀ st, WalkInv B st → WalkInv B (descend node st).st)
    (acc : WalkRes) (kid : Nat) (hk : kid < B) (ha : WalkInv B acc.st) :
    WalkInv B (walkKid g descend dz acc kid).st := by
  unfold walkKid
  split
  · split
    · exact ha
    · split
      · exact ha
      · rename_i hv
        have hst : WalkInv B { acc.st with visited := kid :: acc.st.visited, gets := acc.st.gets + 1 } := by
          refine ⟨List.nodup_cons.2 ⟨hv, ha.1⟩, ?_, ?_⟩
          · intro x hx
            rcases List.mem_cons.1 hx with rfl | hx
            · exact hk
            · exact ha.2.1 x hx
          · simp [ha.2.2]
        split
        · exact hst
        · exact hst
        · rename_i node _ hg
          exact hd node (List.mem_of_getElem? hg) _ hst
  · exact ha

theorem walkFold_inv (g : List TNode) (B : Nat) (descend : TNode → WalkSt → WalkRes) (dz : Bool)
    (hd : ∀ node ∈ g, ∀ st, WalkInv B st → WalkInv B (descend node st).st)
    (kids : List Nat) (hk : ∀ kid ∈ kids, kid < B) (acc : WalkRes) (ha : WalkInv B acc.st) :
    WalkInv B (kids.foldl (walkKid g descend dz) acc).st := by
  induction kids generalizing acc with
  | nil => exact ha
  | cons kid kids ih =>
    simp only [List.foldl_cons]
    apply ih
    · intro k hk'; exact hk k (by simp [hk'])
    · exact walkKid_inv g B descend dz hd acc kid (hk kid (by simp)) ha

theorem walk_inv (g : List TNode) (B : Nat) (hg : ∀ node ∈ g, ∀ kid ∈ kidsOf node, kid < B) :
    ∀ (d : Nat) (node : TNode), (∀ kid ∈ kidsOf node, kid < B) → ∀ st, WalkInv B st → WalkInv B (walk g d node st).st := by
  intro d
  induction d with
  | zero =>
    intro node hn st hs
    cases node with
    | leaf n => exact hs
    | bad => exact hs
    | inter kids =>
      simp only [walk]
      exact walkFold_inv g B _ true (fun _ _ st h => h) kids hn ⟨.ok (), st⟩ hs
  | succ d ih =>
    intro node hn st hs
    cases node with
    | leaf n => exact hs
    | bad => exact hs
    | inter kids =>
      simp only [walk]
      exact walkFold_inv g B _ false (fun node hm st h => ih node (hg node hm) st h) kids hn ⟨.ok (), st⟩ hs

theorem walkKid_out (g : List TNode) (descend : TNode → WalkSt → WalkRes) (dz : Bool) (bad : Out Unit)
    (hb1 : bad ≠ .err) (hd : ∀ node st, (descend node st).out ≠ bad) (acc : WalkRes) (kid : Nat) (ha : acc.out ≠ bad) :
    (walkKid g descend dz acc kid).out ≠ bad := by
  unfold walkKid
  split
  · split
    · exact fun h => hb1 h.symm
    · split
      · exact fun h => hb1 h.symm
      · split
        · exact fun h => hb1 h.symm
        · exact fun h => hb1 h.symm
        · exact hd _ _
  · exact ha

theorem walkFold_out (g : List TNode) (descend : TNode → WalkSt → WalkRes) (dz : Bool) (bad : Out Unit)
    (hb1 : bad ≠ .err) (hd : ∀ node st, (descend node st).out ≠ bad) (kids : List Nat) (acc : WalkRes) (ha : acc.out ≠ bad) :
    (kids.foldl (walkKid g descend dz) acc).out ≠ bad := by
  induction kids generalizing acc with
  | nil => exact ha
  | cons kid kids ih =>
    simp only [List.foldl_cons]
    exact ih _ (walkKid_out g descend dz bad hb1 hd acc kid ha)

theorem walk_out (g : List TNode) (bad : Out Unit) (hb1 : bad ≠ .err) (hb2 : bad ≠ .ok ()) :
    ∀ (d : Nat) (node : TNode) (st : WalkSt), (walk g d node st).out ≠ bad := by
  intro d
  induction d with
  | zero =>
    intro node st
    cases node with
    | leaf n => exact fun h => hb2 h.symm
    | bad => exact fun h => hb1 h.symm
    | inter kids =>
      simp only [walk]
      exact walkFold_out g _ true bad hb1 (fun _ _ h => hb1 h.symm) kids _ (fun h => hb2 h.symm)
  | succ d ih =>
    intro node st
    cases node with
    | leaf n => exact fun h => hb2 h.symm
    | bad => exact fun h => hb1 h.symm
    | inter kids =>
      simp only [walk]
      exact walkFold_out g _ false bad hb1 (fun node st => ih node st) kids _ (fun h => hb2 h.symm)

-- ---------------------------------------------------------------------------------------------------
-- page lookup

theorem pageLoop_out (g : List PNode) (descend : List Nat → Nat → PageRes) (bad : Out Nat) (checked : Bool)
    (hb1 : bad ≠ .err) (hb2 : ∀ k, bad ≠ .ok k) (hb3 : checked = false → bad ≠ .panic)
    (hd : ∀ kids n, (descend kids n).out ≠ bad) :
    ∀ (rest : List Nat) (pos n gets : Nat), (pageLoop g checked descend rest pos n gets).out ≠ bad := by
  intro rest
  induction rest with
  | nil => intro pos n gets; simp only [pageLoop]; exact fun h => hb1 h.symm
  | cons kid rest ih =>
    intro pos n gets
    unfold pageLoop
    split
    · exact fun h => hb1 h.symm
    · exact fun h => hb1 h.symm
    · simp only
      split
      · cases checked with
        | true => exact fun h => hb1 h.symm
        | false => exact fun h => hb3 rfl h.symm
      · split
        · exact hd _ _
        · exact ih _ _ _
    · split
      · exact fun h => hb2 _ h.symm
      · split
        · cases checked with
          | true => exact fun h => hb1 h.symm
          | false => exact fun h => hb3 rfl h.symm
        · exact ih _ _ _

theorem pageLoop_gets (g : List PNode) (checked : Bool) (descend : List Nat → Nat → PageRes) (D : Nat)
    (hd : ∀ kids count, PNode.tree kids count ∈ g → ∀ n, (descend kids n).gets ≤ D) :
    ∀ (rest : List Nat) (pos n gets : Nat), (pageLoop g checked descend rest pos n gets).gets ≤ gets + rest.length + D := by
  intro rest
  induction rest with
  | nil => intro pos n gets; simp [pageLoop]
  | cons kid rest ih =>
    intro pos n gets
    unfold pageLoop
    split
    · simp only [List.length_cons]; omega
    · simp only [List.length_cons]; omega
    · rename_i kids count hg
      simp only
      split
      · simp only [List.length_cons]; omega
      · split
        · have := hd kids count (List.mem_of_getElem? hg) (n - pos)
          simp only [List.length_cons]; omega
        · have := ih (pos + count) n (gets + 1)
          simp only [List.length_cons]; omega
    · split
      · simp only [List.length_cons]; omega
      · split
        · simp only [List.length_cons]; omega
        · have := ih (pos + 1) n (gets + 1)
          simp only [List.length_cons]; omega

end TypedLoad

namespace TypedLoad

/-- with the depth limit the fuel needed is a constant of the code, not a function of the file -/
theorem load_ne_oof_depth (g : Graph) (tol : Bool) :
    ∀ (fuel : Nat) (chain : List Nat) (k : Nat), chain.length ≤ maxNest →
      maxNest + 1 ≤ fuel + chain.length → load g tol fuel chain k ≠ .oof := by
  intro fuel
  induction fuel with
  | zero => intro chain k h1 h2; omega
  | succ fuel ih =>
    intro chain k h1 h2
    unfold load
    split
    · simp
    · split
      · simp
      rename_i hlen
      split
      · simp
      · simp
      · simp
      · rename_i tag fields hg
        apply fold_ne g tol (load g tol fuel (k :: chain)) .oof (fieldOutcome_ne_oof g tol) fields (.ok ()) (by simp)
        intro f _
        apply ih
        · simp only [List.length_cons]; omega
        · simp only [List.length_cons]; omega

theorem apFold_ne (ld : Nat → Out Unit) (bad : Out Unit) (vals : List Nat) (acc : Out Unit)
    (hacc : acc ≠ bad) (h : ∀ v, ld v ≠ bad) :
    vals.foldl (fun acc v => match acc with | .ok _ => ld v | o => o) acc ≠ bad := by
  induction vals generalizing acc with
  | nil => exact hacc
  | cons v vals ih =>
    simp only [List.foldl_cons]
    apply ih
    cases acc with
    | ok u => exact h v
    | err => exact hacc
    | panic => exact hacc
    | oof => exact hacc

theorem apLoad_ne_bad (g : List AObj) : ∀ (d k : Nat), apLoad g d k ≠ .panic ∧ apLoad g d k ≠ .oof := by
  intro d
  induction d with
  | zero =>
    intro k
    unfold apLoad
    split <;> simp
  | succ d ih =>
    intro k
    unfold apLoad
    split
    · simp
    · simp
    · simp
    · exact ⟨apFold_ne _ .panic _ _ (by simp) (fun v => (ih v).1), apFold_ne _ .oof _ _ (by simp) (fun v => (ih v).2)⟩

end TypedLoad

/-! instrumented load: same answer; the ladder -/
namespace TypedLoad

theorem loadN_fold_fst (g : Graph) (tol : Bool) (fuel : Nat) (ch : List Nat)
    (ih : ∀ k, (loadN g tol fuel ch k).1 = load g tol fuel ch k) :
    ∀ (fs : List Field) (a : Out Unit) (c : Nat),
      (fs.foldl (fun (acc : Out Unit × Nat) f =>
        match acc.1 with
        | .ok _ =>
          let r := loadN g tol fuel ch f.target
          (fieldOutcome g tol f r.1, acc.2 + r.2)
        | _ => acc) (a, c)).1
      = fs.foldl (fun acc f => seqOut acc (fun _ => fieldOutcome g tol f (load g tol fuel ch f.target))) a := by
  intro fs
  induction fs with
  | nil => intro a c; rfl
  | cons f fs ihf =>
    intro a c
    simp only [List.foldl_cons]
    cases a with
    | ok u => dsimp only; rw [ihf, ih]; rfl
    | err => dsimp only; rw [ihf]; rfl
    | panic => dsimp only; rw [ihf]; rfl
    | oof => dsimp only; rw [ihf]; rfl

theorem loadN_fst (g : Graph) (tol : Bool) :
    ∀ fuel chain k, (loadN g tol fuel chain k).1 = load g tol fuel chain k := by
  intro fuel
  induction fuel with
  | zero => intro chain k; simp [loadN, load]
  | succ fuel ih =>
    intro chain k
    unfold loadN load
    by_cases h1 : k ∈ chain
    · simp [h1]
    · by_cases h2 : chain.length ≥ maxNest
      · simp [h1, h2]
      · simp only [h1, h2, if_false]
        cases hg : g[k]? with
        | none => rfl
        | some o =>
          cases o with
          | bad => rfl
          | missing => rfl
          | node tag fields => exact loadN_fold_fst g tol fuel (k :: chain) (fun k' => ih (k :: chain) k') fields (.ok ()) 1

theorem ladder_inner (n i : Nat) (h : i < n) :
    (ladder n)[i]? = some (Obj.node 0 [⟨i + 1, false, none, false⟩, ⟨i + 1, false, none, false⟩]) := by
  simp [ladder, List.getElem?_append, h]

theorem ladder_leaf (n : Nat) : (ladder n)[n]? = some (Obj.node 0 []) := by
  simp [ladder]

theorem loadN_ladder_aux (n : Nat) (hn : n < maxNest) (tol : Bool) :
    ∀ (d k fuel : Nat) (chain : List Nat), k + d = n → chain.length = k → (∀ x ∈ chain, x < k) → d < fuel →
      loadN (ladder n) tol fuel chain k = (.ok (), 2 ^ (d + 1) - 1) := by
  intro d
  induction d with
  | zero =>
    intro k fuel chain hk hl hc hf
    obtain ⟨fuel, rfl⟩ : ∃ f, fuel = f + 1 := ⟨fuel - 1, by omega⟩
    have hk' : k = n := by omega
    subst hk'
    have h1 : k ∉ chain := fun hm => Nat.lt_irrefl _ (hc k hm)
    have h2 : ¬ chain.length ≥ maxNest := by omega
    unfold loadN
    simp only [h1, h2, if_false, ladder_leaf]
    rfl
  | succ d ih =>
    intro k fuel chain hk hl hc hf
    obtain ⟨fuel, rfl⟩ : ∃ f, fuel = f + 1 := ⟨fuel - 1, by omega⟩
    have h1 : k ∉ chain := fun hm => Nat.lt_irrefl _ (hc k hm)
    have h2 : ¬ chain.length ≥ maxNest := by omega
    have hr := ih (k + 1) fuel (k :: chain) (by omega) (by simp [hl])
      (by intro x hx; rcases List.mem_cons.mp hx with rfl | hx; omega; have := hc x hx; omega) (by omega)
    unfold loadN
    simp only [h1, h2, if_false, ladder_inner n k (by omega), List.foldl_cons, List.foldl_nil, hr, fieldOutcome]
    have hp : 2 ^ (d + 1 + 1) = 2 * 2 ^ (d + 1) := by rw [Nat.pow_succ]; omega
    have hpos : 0 < 2 ^ (d + 1) := Nat.pow_pos (by decide)
    simp only [Prod.mk.injEq, true_and]
    omega

end TypedLoad
