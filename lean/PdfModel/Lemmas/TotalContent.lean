import PdfModel.Model.ContentLoop
import PdfModel.Lemmas.TotalParser

/-!
  Totality and progress of the content-stream loop and of the position arithmetic of inline images
  (`Model/ContentLoop`), for every buffer, every cursor inside it and EVERY oracle (error kinds, operand
  conversions): every round of `OpBuilder::parse` moves the cursor forward, the cursor never lies beyond the
  data (`ContentReadPastBoundary` is dead code), `data_start .. data_end` is always a range `new_substr` accepts.
-/

namespace PdfLex

variable {R : Type}

theorem noResolveEnv_ok (env : Env R) (henv : EnvOk env) : EnvOk (noResolveEnv env) :=
  ⟨fun _ _ => Or.inl rfl, henv.2⟩

/-- the key / value loop of `inline_image` always comes back, with the lexer at or behind where it started -/
theorem inlineDictLoop_spec (env : Env R) (henv : EnvOk env) (buf : Buf) (hs : RealSize buf) (o : Oracle)
    (fuel pos : Nat) (h : pos ≤ buf.size) (hf : buf.size - pos < fuel) :
    ∃ b p, inlineDictLoop env buf o fuel pos = .ok (b, p) ∧ pos ≤ p ∧ p ≤ buf.size := by
  induction fuel generalizing pos with
  | zero => omega
  | succ fuel ih =>
    unfold inlineDictLoop
    rcases parseWithLexer_good (noResolveEnv env) (noResolveEnv_ok env henv) buf hs (defaultFuel buf) pos Flags.any h
      (by have := defaultFuel_enough buf pos; omega) with he | ⟨v, p, hp, h1, h2⟩
    · rw [he]; simp only []
      split
      · exact ⟨false, pos, rfl, Nat.le_refl _, h⟩
      · rw [setPos_spec buf pos pos h]; simp only [Out.bind_ok]
        exact ⟨true, _, rfl, by omega, by omega⟩
    · rw [hp]
      cases v with
      | name s =>
        simp only []
        rcases parseWithLexer_good (noResolveEnv env) (noResolveEnv_ok env henv) buf hs (defaultFuel buf) p Flags.any h2
          (by have := defaultFuel_enough buf p; omega) with he | ⟨v2, p2, hp2, h3, h4⟩
        · rw [he]; exact ⟨false, p, rfl, by omega, h2⟩
        · rw [hp2]; simp only []
          obtain ⟨b, q, hq, q1, q2⟩ := ih p2 h4 (by omega)
          exact ⟨b, q, hq, by omega, q2⟩
      | _ => exact ⟨false, p, rfl, by omega, h2⟩

/-- `inline_image`: always comes back (its `Err` is the `false` flag); the lexer only moves forward and stays
    inside the data; `data_start = pos + 1` and `data_end = pos' - 3` never over- or underflow and are a range that
    `new_substr` accepts (an empty image gives the backward range `data_end + 1 .. data_start + 1`) -/
theorem inlineImage_spec (env : Env R) (henv : EnvOk env) (buf : Buf) (hs : RealSize buf) (o : Oracle)
    (pos : Nat) (h : pos ≤ buf.size) :
    ∃ b p d, inlineImage env buf o pos = .ok ((b, p), d) ∧ pos ≤ p ∧ p ≤ buf.size ∧
      (∀ s, d = some s → s.1 ≤ s.2 ∧ s.2 ≤ buf.size) := by
  unfold inlineImage
  obtain ⟨c, p, hp, h1, h2⟩ := inlineDictLoop_spec env henv buf hs o (buf.size + 1) pos h (by omega)
  rw [hp]; simp only [Out.bind_ok]
  cases c with
  | false => exact ⟨false, p, none, rfl, h1, h2, fun s hh => by cases hh⟩
  | true =>
    simp only [Bool.not_true, Bool.false_eq_true, if_false]
    rcases next_spec buf p h2 with he | ⟨w, hw, a1, a2, a3⟩
    · rw [he]; exact ⟨false, p, none, rfl, h1, h2, fun s hh => by cases hh⟩
    · rw [hw]; simp only []
      split
      · exact ⟨false, w.2, none, rfl, by omega, a3, fun s hh => by cases hh⟩
      · have hu : ¬ (w.2 + 1 > usizeMax) := by unfold RealSize at hs; unfold usizeMax; omega
        simp only [hu, if_false]
        obtain ⟨r, q, hq, q1, q2, q3, q4⟩ := seekSubstr_spec buf w.2 kwLfEI a3 (by decide)
        rw [hq]; simp only [Out.bind_ok]
        cases r with
        | none => exact ⟨false, q, none, rfl, by omega, q2, fun s hh => by cases hh⟩
        | some sx =>
          simp only []
          have h3 := (q4 sx rfl).2
          have hl : kwLfEI.length = 3 := rfl
          have hq3 : ¬ q < 3 := by omega
          simp only [hq3, if_false]
          split
          · exact ⟨false, q, none, rfl, by omega, q2, fun s hh => by cases hh⟩
          · by_cases hd : w.2 + 1 ≤ q - 3
            · rw [newSubstr_fwd hd (by omega)]; simp only [Out.bind_ok]
              refine ⟨true, q, some (w.2 + 1, q - 3), rfl, by omega, q2, fun s hh => ?_⟩
              cases hh; exact ⟨hd, by simp; omega⟩
            · rw [newSubstr_bwd (by omega) (by omega)]; simp only [Out.bind_ok]
              refine ⟨true, q, some (q - 3 + 1, w.2 + 1 + 1), rfl, by omega, q2, fun s hh => ?_⟩
              cases hh; exact ⟨by simp; omega, by simp; omega⟩

theorem addOp_spec (env : Env R) (henv : EnvOk env) (buf : Buf) (hs : RealSize buf) (o : Oracle) (w : Nat × Nat)
    (h : w.2 ≤ buf.size) :
    ∃ b p, addOp env buf o w = .ok (b, p) ∧ w.2 ≤ p ∧ p ≤ buf.size := by
  unfold addOp
  split
  · obtain ⟨b, p, d, hp, h1, h2, _⟩ := inlineImage_spec env henv buf hs o w.2 h
    rw [hp]; exact ⟨b, p, rfl, h1, h2⟩
  · exact ⟨_, _, rfl, Nat.le_refl _, h⟩

/-- one round of `OpBuilder::parse`: `Err`, `break`, or a cursor strictly further and inside the data -/
theorem contentStep_spec (env : Env R) (henv : EnvOk env) (buf : Buf) (hs : RealSize buf) (o : Oracle)
    (allow : Bool) (pos : Nat) (h : pos ≤ buf.size) :
    contentStep env buf o allow pos = .err ∨ contentStep env buf o allow pos = .ok none ∨
    ∃ p, contentStep env buf o allow pos = .ok (some p) ∧ pos < p ∧ p ≤ buf.size := by
  unfold contentStep
  rcases parseWithLexer_good env henv buf hs (defaultFuel buf) pos Flags.any h
      (by have := defaultFuel_enough buf pos; omega) with he | ⟨v, p, hp, h1, h2⟩
  · rw [he]; simp only []
    split
    · right; left; rfl
    · rw [setPos_spec buf pos pos h]; simp only [Out.bind_ok]
      have hmin : min pos buf.size = pos := by omega
      rw [hmin]
      rcases next_spec buf pos h with he | ⟨w, hw, a1, a2, a3⟩
      · left; simp [he]
      · rw [hw]; simp only [Out.bind_ok]
        split
        · left; rfl
        · obtain ⟨b, q, hq, q1, q2⟩ := addOp_spec env henv buf hs o w a3
          rw [hq]; simp only [Out.bind_ok]
          split
          · right; right; exact ⟨q, rfl, by omega, q2⟩
          · left; rfl
  · rw [hp]; right; right; exact ⟨p, rfl, h1, h2⟩

/-- `OpBuilder::parse`: `Ok` or `Err` within `buf.size - pos + 1` rounds -/
theorem contentLoop_spec (env : Env R) (henv : EnvOk env) (buf : Buf) (hs : RealSize buf) (o : Oracle)
    (allow : Bool) (fuel pos : Nat) (h : pos ≤ buf.size) (hf : buf.size - pos < fuel) :
    contentLoop env buf o allow fuel pos = .err ∨
    ∃ p, contentLoop env buf o allow fuel pos = .ok p ∧ pos ≤ p ∧ p ≤ buf.size := by
  induction fuel generalizing pos with
  | zero => omega
  | succ fuel ih =>
    unfold contentLoop
    rcases contentStep_spec env henv buf hs o allow pos h with he | he | ⟨p, hp, h1, h2⟩
    · left; simp [he]
    · right; rw [he]; exact ⟨pos, rfl, Nat.le_refl _, h⟩
    · rw [hp]; simp only [Out.bind_ok]
      have hn : ¬ p > buf.size := by omega
      simp only [hn, if_false]
      by_cases hlt : p < buf.size
      · simp only [hlt, if_true]
        rcases ih p h2 (by omega) with he | ⟨q, hq, q1, q2⟩
        · left; exact he
        · right; exact ⟨q, hq, by omega, q2⟩
      · simp only [hlt, if_false]
        right; exact ⟨p, rfl, by omega, h2⟩

theorem parseOps_ret (env : Env R) (henv : EnvOk env) (buf : Buf) (hs : RealSize buf) (o : Oracle) (allow : Bool) :
    Ret (parseOps env buf o allow) := by
  unfold parseOps
  rcases contentLoop_spec env henv buf hs o allow (buf.size + 1) 0 (Nat.zero_le _) (by omega) with he | ⟨p, hp, _, _⟩
  · exact Or.inl he
  · exact Or.inr ⟨p, hp⟩

end PdfLex
