import PdfModel.Lemmas.PageTreeDerivedBoxes

/-! The agreement of the generated readers with `nodeOf`, extended from attribute-free trees to trees whose nodes carry
    media and crop boxes (markers below 2²⁴, so that the `i32 → f32` conversion of `Rectangle` is exact); /Resources is
    still excluded. -/

namespace PageTreeB
open PageTree PdfLex OpenBytes Derive

variable {R : Type}

/-- boxes only, markers exactly representable as `f32` -/
def boxAttrs (a : Attrs) : Bool :=
  a.resources == none && decide (a.mediaBox.getD 0 < 16777216) && decide (a.cropBox.getD 0 < 16777216)

mutual
def boxOnly : PTree → Bool
  | .leaf _ a => boxAttrs a
  | .node _ a ks => boxAttrs a && boxOnlyL ks
def boxOnlyL : List PTree → Bool
  | [] => true
  | k :: ks => boxOnly k && boxOnlyL ks
end

theorem boxAttrs_spec (a : Attrs) (h : boxAttrs a = true) :
    a = ⟨a.mediaBox, a.cropBox, none⟩ ∧ a.mediaBox.getD 0 < 16777216 ∧ a.cropBox.getD 0 < 16777216 := by
  obtain ⟨mb, cb, rs⟩ := a
  simp only [boxAttrs, Bool.and_eq_true, beq_iff_eq, decide_eq_true_eq] at h
  obtain ⟨⟨h1, h2⟩, h3⟩ := h
  subst h1
  exact ⟨rfl, h2, h3⟩

theorem attrsOK_of_boxAttrs (a : Attrs) (h : boxAttrs a = true) : attrsOK a = true := by
  obtain ⟨he, h1, h2⟩ := boxAttrs_spec a h
  rw [he]
  simp only [attrsOK, Option.getD_none, Bool.and_eq_true, decide_eq_true_eq]
  omega

mutual
theorem markersOK_of_boxOnly : ∀ (t : PTree), boxOnly t = true → markersOK t = true
  | .leaf _ a, h => by
    simp only [boxOnly] at h
    simp only [markersOK]
    exact attrsOK_of_boxAttrs a h
  | .node _ a ks, h => by
    simp only [boxOnly, Bool.and_eq_true] at h
    simp only [markersOK, Bool.and_eq_true]
    exact ⟨attrsOK_of_boxAttrs a h.1, markersOKL_of_boxOnly ks h.2⟩
theorem markersOKL_of_boxOnly : ∀ (ks : List PTree), boxOnlyL ks = true → markersOKL ks = true
  | [], _ => rfl
  | k :: ks, h => by
    simp only [boxOnlyL, Bool.and_eq_true] at h
    simp only [markersOKL, Bool.and_eq_true]
    exact ⟨markersOK_of_boxOnly k h.1, markersOKL_of_boxOnly ks h.2⟩
end

mutual
theorem tree_reads_boxes (bitsOf : R → Nat) (env : Derive.Env) (hdf : DefaultZeroEvaluates) :
    ∀ (t : PTree) (parent : Option Nat) (k0 : Nat), boxOnly t = true → (parent = none → isNode t = true) →
    (∀ q ∈ (objsOf parent t : List (Nat × PdfLex.Prim R)), env.resolve q.1 = .ok (toD bitsOf q.2)) →
    (∀ p, parent = some p → ∀ k, k0 ≤ k → ∃ pv,
      readPagesRc cfgD Generated.generatedSchemas (semN cfgD Generated.generatedSchemas k) env "Pages" (.ref p 0) = .ok (.indirect (.ref p 0) pv)) →
    ∀ q ∈ (objsOf parent t : List (Nat × PdfLex.Prim R)), ∀ k, k0 + height t ≤ k →
      ∃ val, readPagesNode cfgD Generated.generatedSchemas (semN cfgD Generated.generatedSchemas (k + 1)) env (toD bitsOf q.2) = .ok val ∧
        projectNode val = nodeOf q.2
  | .leaf id a, parent, k0, hf, hroot, _, hpar, q, hq, k, hk => by
    simp only [boxOnly] at hf
    have haok := attrsOK_of_boxAttrs a hf
    obtain ⟨he, hb1, hb2⟩ := boxAttrs_spec a hf
    cases parent with
    | none => simp [isNode] at hroot
    | some p =>
      simp only [objsOf, List.mem_singleton, Option.getD_some] at hq
      subst hq
      simp only [height] at hk
      obtain ⟨val, h1, h2⟩ := read_leaf_node_boxes bitsOf env p a.mediaBox a.cropBox hb1 hb2 k (hdf k) (hpar p rfl k (by omega))
      rw [← he] at h1 h2
      exact ⟨_, h1, by rw [h2, nodeOf_leafVal p a haok]⟩
  | .node id a ks, parent, k0, hf, _, hres, hpar, q, hq, k, hk => by
    simp only [boxOnly, Bool.and_eq_true] at hf
    obtain ⟨ha, hfk⟩ := hf
    have haok := attrsOK_of_boxAttrs a ha
    obtain ⟨he, hb1, hb2⟩ := boxAttrs_spec a ha
    simp only [height] at hk
    have hhead : ∀ k, k0 ≤ k → ∃ val, readPagesNode cfgD Generated.generatedSchemas (semN cfgD Generated.generatedSchemas (k + 1)) env
          (toD bitsOf (nodeVal parent (ks.map PTree.id) (nLeavesL ks) a : PdfLex.Prim R)) = .ok (.pair (.leaf (.name "Pages")) val) ∧
        projectNode (.pair (.leaf (.name "Pages")) val) = .pages parent (ks.map PTree.id) (nLeavesL ks) a := by
      intro k hk'
      have := read_tree_node_boxes bitsOf env parent (ks.map PTree.id) (nLeavesL ks) a.mediaBox a.cropBox hb1 hb2 k (fun p hp => hpar p hp k hk')
      rw [← he] at this
      exact this
    simp only [objsOf, List.mem_cons] at hq
    rcases hq with rfl | hq
    · obtain ⟨val, h1, h2⟩ := hhead k (by omega)
      exact ⟨_, h1, by rw [h2, nodeOf_nodeVal _ _ _ a haok]⟩
    · have hidres := hres (id, nodeVal parent (ks.map PTree.id) (nLeavesL ks) a) (by simp [objsOf])
      have hidrc : ∀ p, some id = some p → ∀ k, k0 + 1 ≤ k → ∃ pv,
          readPagesRc cfgD Generated.generatedSchemas (semN cfgD Generated.generatedSchemas k) env "Pages" (.ref p 0) = .ok (.indirect (.ref p 0) pv) := by
        intro p hp k hk'
        cases hp
        obtain ⟨k', rfl⟩ : ∃ k', k = k' + 1 := ⟨k - 1, by omega⟩
        obtain ⟨val, h1, _⟩ := hhead k' (by omega)
        exact ⟨_, readPagesRc_ok _ _ _ env id _ val hidres h1⟩
      exact treeL_reads_boxes bitsOf env hdf ks id (k0 + 1) hfk (fun q hq => hres q (by simp [objsOf, hq])) hidrc q hq k (by omega)
theorem treeL_reads_boxes (bitsOf : R → Nat) (env : Derive.Env) (hdf : DefaultZeroEvaluates) :
    ∀ (ks : List PTree) (pid : Nat) (k0 : Nat), boxOnlyL ks = true →
    (∀ q ∈ (objsOfL pid ks : List (Nat × PdfLex.Prim R)), env.resolve q.1 = .ok (toD bitsOf q.2)) →
    (∀ p, some pid = some p → ∀ k, k0 ≤ k → ∃ pv,
      readPagesRc cfgD Generated.generatedSchemas (semN cfgD Generated.generatedSchemas k) env "Pages" (.ref p 0) = .ok (.indirect (.ref p 0) pv)) →
    ∀ q ∈ (objsOfL pid ks : List (Nat × PdfLex.Prim R)), ∀ k, k0 + heightL ks ≤ k →
      ∃ val, readPagesNode cfgD Generated.generatedSchemas (semN cfgD Generated.generatedSchemas (k + 1)) env (toD bitsOf q.2) = .ok val ∧
        projectNode val = nodeOf q.2
  | [], _, _, _, _, _, q, hq, _, _ => by simp [objsOfL] at hq
  | c :: ks, pid, k0, hf, hres, hpar, q, hq, k, hk => by
    simp only [boxOnlyL, Bool.and_eq_true] at hf
    simp only [heightL] at hk
    simp only [objsOfL, List.mem_append] at hq
    rcases hq with hq | hq
    · exact tree_reads_boxes bitsOf env hdf c (some pid) k0 hf.1 (by intro h; cases h) (fun q hq => hres q (by simp [objsOfL, hq])) hpar q hq k (by omega)
    · exact treeL_reads_boxes bitsOf env hdf ks pid k0 hf.2 (fun q hq => hres q (by simp [objsOfL, hq])) hpar q hq k (by omega)
end

/-- **the generated readers of `PageTree` and `Page` agree with `nodeOf` on every object of a written tree whose nodes
    carry media and crop boxes** (no /Resources; markers below 2²⁴) -/
theorem derived_agrees_boxes (bitsOf : R → Nat) (resolve : Nat → Out (Offsets.Obj (PdfLex.Prim R))) (hdf : DefaultZeroEvaluates)
    (t : PTree) (hn : isNode t = true) (hf : boxOnly t = true) (hh : height t ≤ 23)
    (hres : ∀ q ∈ (objsOf none t : List (Nat × PdfLex.Prim R)), resolve q.1 = .ok (.plain q.2)) :
    ∀ q ∈ (objsOf none t : List (Nat × PdfLex.Prim R)), derivedNode bitsOf resolve q.2 = nodeOf q.2 := by
  intro q hq
  obtain ⟨val, h1, h2⟩ := tree_reads_boxes bitsOf (envD bitsOf resolve) hdf t none 0 hf (fun _ => hn)
    (fun q hq => by simp [envD, hres q hq]) (fun p hp => by cases hp) q hq 23 (by omega)
  simp only [derivedNode, lvl, cfgD] at h1 ⊢
  rw [h1]
  exact h2

end PageTreeB
