import PdfModel.Model.Crypt
import PdfModel.Spec.StdSecurity

/-!
  `Decoder::decrypt` on ARBITRARY ciphertext never panics (C01; the model is C06's `Model/Crypt.lean`).

  The data of an encrypted string or stream is attacker-controlled; so are the object number and generation. Given
  hash and block primitives that are functions with the digest lengths of MD5 / AES (`StdSec.PrimsAgree`, `WF`), a
  decoder whose method is one of the three ciphers (`Decoder::new` never builds one with `None`: the `unreachable!()`)
  and whose key is at least as long as `min(key_size, 16)` (what `from_password` hands over: `C14.key_schedule_total`,
  `object_key_total`), every outcome is a plaintext or `DecryptionFailure`.
-/

namespace Crypt
open StdSec

theorem rc4Encrypt_returns (key data : Bytes) (h : 0 < key.length ∧ key.length ≤ 256) : (rc4Encrypt key data).Returns := by
  unfold rc4Encrypt Rc4.new
  simp [h, Out.Returns]

theorem cbcDecryptBlocks_returns {P : Prims} {H : Hashes} (hp : PrimsAgree P H) (key : Bytes) :
    ∀ (n : Nat) (prev data : Bytes), ∃ r, cbcDecryptBlocks P key n prev data = .ok r := by
  intro n
  induction n with
  | zero => intro prev data; exact ⟨[], rfl⟩
  | succ n ih =>
    intro prev data
    obtain ⟨rest, hr⟩ := ih (data.take 16) (data.drop 16)
    exact ⟨xorBytes (H.aesD key (data.take 16)) prev ++ rest, by simp [cbcDecryptBlocks, hp.aesDec, hr]⟩

theorem pkcs7Unpad_returns (plain : Bytes) : (pkcs7Unpad plain).Returns := by
  unfold pkcs7Unpad
  split
  · simp [Out.Returns]
  · split
    · simp [Out.Returns]
    · simp only []
      split <;> simp [Out.Returns]

theorem cbcDecryptPkcs7_returns {P : Prims} {H : Hashes} (hp : PrimsAgree P H) (klen : Nat) (key iv ct : Bytes) :
    (cbcDecryptPkcs7 P klen key iv ct).Returns := by
  unfold cbcDecryptPkcs7
  split
  · simp [Out.Returns]
  · split
    · simp [Out.Returns]
    · obtain ⟨r, hr⟩ := cbcDecryptBlocks_returns hp key (ct.length / 16) iv ct
      rw [hr]; exact pkcs7Unpad_returns r

/-- **`Decoder::decrypt` answers on every input.** -/
theorem decrypt_total {P : Prims} {H : Hashes} (hp : PrimsAgree P H) (hw : H.WF) (d : Decoder)
    (hm : d.method ≠ .none) (hk : min d.keySize 16 ≤ d.key.length) (id gen : Nat) (data : Bytes) :
    (decrypt P d id gen data).Returns := by
  unfold decrypt
  split
  · simp [Out.Returns]
  · split
    · simp [Out.Returns]
    · split
      · simp [Out.Returns]
      · have hkey : d.keyOf = .ok (d.key.take (min d.keySize 16)) := by simp [Decoder.keyOf, hk]
        cases hmm : d.method with
        | none => exact absurd hmm hm
        | v2 =>
          simp only [hkey, Out.bind_ok, hp.md5]
          apply rc4Encrypt_returns
          have := hw.md5_len (List.take (min d.keySize 16) d.key ++ idBytes id ++ genBytes gen)
          simp only [List.length_take, this]
          omega
        | aesv2 =>
          simp only [hkey, Out.bind_ok, hp.md5]
          split
          · simp [Out.Returns]
          · exact cbcDecryptPkcs7_returns hp _ _ _ _
        | aesv3 =>
          simp only []
          split
          · simp [Out.Returns]
          · exact cbcDecryptPkcs7_returns hp _ _ _ _

/-- `parser::Context::decrypt` -/
theorem ctxDecrypt_total {P : Prims} {H : Hashes} (hp : PrimsAgree P H) (hw : H.WF) (dec : Option Decoder)
    (hd : ∀ d, dec = some d → d.method ≠ .none ∧ min d.keySize 16 ≤ d.key.length) (id gen : Nat) (data : Bytes) :
    (ctxDecrypt P dec id gen data).Returns := by
  unfold ctxDecrypt
  cases dec with
  | none => simp [Out.Returns]
  | some d => exact decrypt_total hp hw d (hd d rfl).1 (hd d rfl).2 id gen data

end Crypt
