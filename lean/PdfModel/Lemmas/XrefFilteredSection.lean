import PdfModel.Lemmas.XrefFiltered
import PdfModel.Lemmas.OpenBytes
import PdfModel.Lemmas.RepBytes
import PdfModel.Lemmas.XrefFile

/-! A cross-reference *stream* section at the head of a buffer, through the section-head model of the C17
    package (`XrefSec.parseXrefStreamAndTrailer`, Model/XrefStreamSection) with the data decoded by the
    filter model (`XrefFilters.decOf`): the contract `Offsets.ReadsAt` of the `/Prev` walk holds for it. -/

namespace XrefFiltered
open PdfLex Xref XrefTable
open PdfSyntax (Gap Bnd NatTok SpellsStream WFE keysOf vdepthE needE)

variable {R V : Type}

/-- the text of a cross-reference stream section: `id gen obj <stream object> endobj` (any gaps) and the
    keyword that follows it (`startxref`, in any case not `trailer`) -/
def StreamSectionText (pr : List UInt8 → Option R) (info : Dict R) (y txt : List UInt8) : Prop :=
  ∃ a g1 b g2 g3 stxt g4 g5 tailw id gen,
    txt = a ++ g1 ++ b ++ g2 ++ kwObj ++ g3 ++ stxt ++ g4 ++ kwEndobj ++ g5 ++ tailw ∧
    NatTok a id ∧ NatTok b gen ∧ id ≤ 18446744073709551615 ∧ gen ≤ 18446744073709551615 ∧
    Gap g1 ∧ g1 ≠ [] ∧ Gap g2 ∧ g2 ≠ [] ∧ Gap g3 ∧ SpellsStream pr info y stxt ∧ Gap g4 ∧ g4 ≠ [] ∧ Gap g5 ∧ g5 ≠ [] ∧
    tailw ≠ [] ∧ (∀ c ∈ tailw, isRegular c = true) ∧ tailw ≠ kwTrailer

theorem reg_not_ws : ∀ d : UInt8, isRegular d = true → isWhitespace d = false := by decide +kernel

theorem natTok_ne_xref (t : List UInt8) (n : Nat) (h : NatTok t n) : (t == XrefTable.kwXref) = false := by
  obtain ⟨_, hd, _⟩ := h
  cases hb : t == XrefTable.kwXref with
  | false => rfl
  | true =>
    have : t = XrefTable.kwXref := by simpa using hb
    subst this
    exact absurd (hd 120 (by decide)) (by decide)

/-- **the section head**: `parse_xref_stream_and_trailer` on such a text returns whatever the row reader makes of
    the decoded data, and the stream dictionary as trailer -/
theorem parseXrefStreamAndTrailer_spec (env : Env R) (hd : env.decrypt = none)
    (dec : Dict R → List UInt8 → Out (List UInt8)) (allowErr : Bool) (info : Dict R) (y txt rest : List UInt8)
    (hst : StreamSectionText env.parseReal info y txt) (hwf : WFE info) (hnd : (keysOf info).Nodup)
    (hlen : dictGet info kwLength = some (.int (y.length : Int))) (hdepth : vdepthE info ≤ maxDepth)
    {buf : Buf} (hsz : buf.size ≤ 2147483647) (pfuel pos : Nat) (hfuel : needE info ≤ pfuel)
    (h : Suffix buf pos (txt ++ rest)) (hbr : Bnd rest)
    (xi : XrefSec.Info) (hxi : XrefSec.xrefInfo info = .ok xi) (data : List UInt8) (hdec : dec info y = .ok data)
    (pairs : List (Nat × Nat)) (hp : XrefSec.pairsOf xi.index = .ok pairs) (subs : List Sub)
    (hps : parseSections xi.w allowErr pairs data [] = .ok subs) :
    XrefSec.parseXrefStreamAndTrailer env dec allowErr buf pfuel pos = .ok (subs, info) := by
  obtain ⟨a, g1, b, g2, g3, stxt, g4, g5, tailw, id, gen, rfl, ha, hb, hid, hgen, hg1, hg1ne, hg2, hg2ne, hg3, hsp,
    hg4, hg4ne, hg5, hg5ne, htw, htr, hnt⟩ := hst
  have hd' : ({ env with fileOffset := 0 } : Env R).decrypt = none := hd
  -- header
  have hs1 : Suffix buf pos ([] ++ a ++ g1 ++ b ++ g2 ++ kwObj ++
      (g3 ++ stxt ++ (g4 ++ kwEndobj ++ (g5 ++ tailw ++ rest)))) := by simpa using h
  have hb3 : Bnd (g3 ++ stxt ++ (g4 ++ kwEndobj ++ (g5 ++ tailw ++ rest))) := by
    obtain ⟨x, hx⟩ : ∃ x, stxt = 60 :: x := by
      obtain ⟨q1, ents, q2, eol, q3, rfl, _⟩ := hsp
      exact ⟨_, rfl⟩
    by_cases hne3 : g3 = []
    · subst hne3; subst hx; simp [Bnd]; decide
    · have := gap_bnd hg3 hne3 (stxt ++ (g4 ++ kwEndobj ++ (g5 ++ tailw ++ rest)))
      simpa using this
  have hhead := parseObjHeader_spec [] a g1 b g2 _ id gen pos Gap.nil ha hb hg1 hg1ne hg2 hg2ne hid hgen hs1 hb3
  -- stream object
  have hs2 : Suffix buf (pos + ([] ++ a ++ g1 ++ b ++ g2 ++ kwObj).length)
      (g3 ++ stxt ++ (g4 ++ kwEndobj ++ (g5 ++ tailw ++ rest))) := by
    have := Suffix.drop (a := [] ++ a ++ g1 ++ b ++ g2 ++ kwObj) hs1
    simpa using this
  obtain ⟨dataPos, hps2, hdata⟩ := OpenBytes.parseStream_spec { env with fileOffset := 0 } hd' info y stxt hsp hwf hnd (Or.inl hlen) hsz g3 _ _ pfuel
    (id, gen) hg3 hs2 (by simpa using gap_bnd hg4 hg4ne (kwEndobj ++ (g5 ++ tailw ++ rest))) hfuel hdepth
  -- endobj
  have hs3 : Suffix buf (pos + ([] ++ a ++ g1 ++ b ++ g2 ++ kwObj).length + g3.length + stxt.length)
      (g4 ++ kwEndobj ++ (g5 ++ tailw ++ rest)) := by
    have := Suffix.drop (a := g3 ++ stxt) hs2
    have e : ∀ P : Nat, P + (g3 ++ stxt).length = P + g3.length + stxt.length := by intro P; simp; omega
    rw [e] at this; exact this
  have hend := nextExpect_regular g4 kwEndobj _ _ hg4 hs3 (by decide) kw_endobj_regular (by simpa using gap_bnd hg5 hg5ne (tailw ++ rest))
  -- the lexeme behind it is not `trailer`
  have hs4 : Suffix buf (pos + ([] ++ a ++ g1 ++ b ++ g2 ++ kwObj).length + g3.length + stxt.length + g4.length + kwEndobj.length)
      (g5 ++ tailw ++ rest) := by
    have := Suffix.drop (a := g4 ++ kwEndobj) hs3
    have e : ∀ P : Nat, P + (g4 ++ kwEndobj).length = P + g4.length + kwEndobj.length := by intro P; simp; omega
    rw [e] at this; exact this
  obtain ⟨hn, hsl⟩ := next_regular g5 tailw rest _ hg5 hs4 htw htr hbr
  have hne : (tailw == XrefTable.kwTrailer) = false := by
    have : XrefTable.kwTrailer = kwTrailer := rfl
    simpa [this] using hnt
  have hslice : slice buf (0 + dataPos) (0 + dataPos + y.length) = y := by simpa using hdata
  simp only [XrefSec.parseXrefStreamAndTrailer, parseIndirectStream, hhead, Out.bind_ok, hps2, hend, streamAt,
    XrefSec.trailerOf, hn, hsl, hne, Bool.false_eq_true, if_false, hxi, hslice, hdec, hp, hps]


theorem pairsOf_flat (subs : List Sub) :
    XrefSec.pairsOf (subs.flatMap fun s => [s.first, s.entries.length]) = .ok (subs.map fun s => (s.first, s.entries.length)) := by
  induction subs with
  | nil => rfl
  | cons s ss ih => simp [XrefSec.pairsOf, ih]

theorem streamSectionText_need (pr : List UInt8 → Option R) (info : Dict R) (y txt : List UInt8)
    (h : StreamSectionText pr info y txt) : needE info ≤ 3 * txt.length := by
  obtain ⟨a, g1, b, g2, g3, stxt, g4, g5, tailw, id, gen, rfl, _, _, _, _, _, _, _, _, _, hsp, _⟩ := h
  obtain ⟨q1, ents, q2, eol, q3, rfl, _, hents, _⟩ := hsp
  have := PdfLex.needE_bound pr info ents hents
  simp only [List.length_append, List.length_cons]
  omega

/-- a cross-reference stream section at offset `off` of a file (relative to the header at `start`): the bytes
    there are an indirect stream object whose dictionary is the section's trailer and carries `/Type /XRef`,
    `/Size`, `/W [w0 w1 w2]`, the `/Index` of the subsections, `/Length`, and `/Filter` / `/DecodeParms` naming the
    filter list `fs`; the stream data `y` is a conforming encoding of the rows under `fs` -/
def StreamAt (env : Env R) (X : Enc.Ext) (tolerant : Bool) (buf : List UInt8) (start : Nat)
    (r : Offsets.Rev (Dict R)) : Prop :=
  ∃ (y txt rest : List UInt8) (w0 w1 w2 size : Nat) (fs : List Enc.Filter),
    buf.drop (start + r.off) = txt ++ rest ∧ start + r.off ≤ buf.length ∧
    StreamSectionText env.parseReal r.trailer y txt ∧ Bnd rest ∧
    WFE r.trailer ∧ (keysOf r.trailer).Nodup ∧ dictGet r.trailer kwLength = some (.int (y.length : Int)) ∧
    vdepthE r.trailer ≤ maxDepth ∧
    XrefSec.xrefInfo r.trailer = .ok ⟨size, r.subs.flatMap fun s => [s.first, s.entries.length], [w0, w1, w2]⟩ ∧
    XrefFilters.filtersOfDict tolerant r.trailer = .ok fs ∧
    w0 ≤ 8 ∧ w1 ≤ 8 ∧ w2 ≤ 8 ∧ (∀ s ∈ r.subs, ∀ e ∈ s.entries, Fits w0 w1 w2 e) ∧ 0 < w0 + w1 + w2 ∧
    FilteredData X fs w0 w1 w2 r.subs y

end XrefFiltered
