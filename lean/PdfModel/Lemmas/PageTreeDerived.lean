import PdfModel.Spec.PageTreeBytes
import PdfModel.Model.PageTreeDerived
import PdfModel.Lemmas.PageTreeBytes

/-! First step of the agreement of the generated readers with `nodeOf`: a /Pages node without /Parent and without
    attributes (kids and count symbolic). -/

namespace PageTreeB
open PageTree PdfLex OpenBytes Derive

variable {R : Type}

theorem strOf_kType : strOf SaveBytes.kType = "Type" := by decide
theorem strOf_kPages : strOf BuildBytes.kPagesT = "Pages" := by decide
theorem strOf_kKids : strOf BuildBytes.kKids = "Kids" := by decide
theorem strOf_kCount : strOf BuildBytes.kCount = "Count" := by decide
theorem find_PageTree : findSchema "PageTree" Generated.generatedSchemas = some Generated.s_PageTree := by rfl

/-- a leaf that is not one of the three page-tree leaves is read by the base readers at every level of the tower -/
theorem semN_leaf (cfg : Cfg) (schemas : List Schema) (env : Derive.Env) (name : String) (p : Derive.Prim)
    (h1 : name ≠ "PagesNode") (h2 : name ≠ "PagesRc") (h3 : name ≠ "PageRc") :
    ∀ k, (semN cfg schemas k).rd env (.leaf name) p = baseSem.rd env (.leaf name) p
  | 0 => rfl
  | k + 1 => by
    simp only [semN, structSem]
    split <;> simp_all [semN_leaf cfg schemas env name p h1 h2 h3 k]

theorem kids_read (bitsOf : R → Nat) (g : Derive.Prim → Derive.R Val)
    (hg : ∀ k, g (Derive.Prim.ref k 0) = .ok (Val.leaf (.ref k 0))) : ∀ (ks : List Nat),
    mapR g (toDL bitsOf (ks.map fun k => (PdfLex.Prim.ref k 0 : PdfLex.Prim R))) = .ok (ks.map fun k => Val.leaf (.ref k 0))
  | [] => by simp [toDL, mapR]
  | k :: ks => by simp [toDL, toD, mapR, hg, kids_read bitsOf g hg ks]

theorem kidsD_refs : ∀ (ks : List Nat), kidsD (ks.map fun k => Val.leaf (.ref k 0)) = some ks
  | [] => rfl
  | k :: ks => by simp [kidsD, kidsD_refs ks]

/-- the generated reader of `PageTree` behind the /Type dispatch, on a written /Pages node without /Parent and without
    attributes, yields the node `nodeOf` yields: /Kids in order, /Count -/
theorem derived_bare_root (bitsOf : R → Nat) (resolve : Nat → Out (Offsets.Obj (PdfLex.Prim R))) (kids : List Nat)
    (count : Nat) (hc : count ≤ 2147483647) :
    derivedNode bitsOf resolve (nodeVal none kids count ⟨none, none, none⟩ : PdfLex.Prim R) =
      .pages none kids count ⟨none, none, none⟩ := by
  have hu := semN_leaf ⟨true⟩ Generated.generatedSchemas (envD bitsOf resolve) "u32" (.int count) (by decide) (by decide) (by decide) lvl
  have hcnt : baseSem.rd (envD bitsOf resolve) (.leaf "u32") (.int count) = .ok (.leaf (.int count)) := by
    simp [baseSem, baseRdPrim, asU32, viaResolve, resolve1, resolveP]
  simp only [derivedNode, nodeVal, attrEntries, toD, toDE, List.append_nil, List.cons_append, List.nil_append, strOf_kType,
    strOf_kPages, strOf_kKids, strOf_kCount, readPagesNode, resolve1, resolveP, dget]
  simp [derase, find_PageTree, readStructD, Generated.s_PageTree, expect, expectAll, dget, readFields, readField, readPlain,
    readAbsent, readShape, Derive.Prim.isRef, hu, hcnt]
  rw [kids_read bitsOf _ (by intro k; simp)]
  simp [projectNode, kidsD_refs, boxMarkerD, resMarkerD]

theorem strOf_kParent : strOf BuildBytes.kParent = "Parent" := by decide

theorem readPagesRc_ok (cfg : Cfg) (schemas : List Schema) (inner : Sem) (env : Derive.Env) (p : Nat) (dp : Derive.Prim) (v : Val)
    (hr : env.resolve p = .ok dp)
    (hn : readPagesNode cfg schemas inner env dp = .ok (.pair (.leaf (.name "Pages")) v)) :
    readPagesRc cfg schemas inner env "Pages" (.ref p 0) = .ok (.indirect (.ref p 0) (.pair (.leaf (.name "Pages")) v)) := by
  simp [readPagesRc, getTyped, resolveP, Derive.Prim.isRef, hr, hn]

/-- a /Pages node without attributes, read at level `k + 1` when its parent (if any) is readable at level `k` -/
theorem read_tree_node (bitsOf : R → Nat) (env : Derive.Env) (parent : Option Nat) (kids : List Nat) (count : Nat) (k : Nat)
    (hp : ∀ p, parent = some p → ∃ pv, readPagesRc ⟨true⟩ Generated.generatedSchemas (semN ⟨true⟩ Generated.generatedSchemas k) env "Pages" (.ref p 0)
        = .ok (.indirect (.ref p 0) pv)) :
    ∃ val, readPagesNode ⟨true⟩ Generated.generatedSchemas (semN ⟨true⟩ Generated.generatedSchemas (k + 1)) env
        (toD bitsOf (nodeVal parent kids count ⟨none, none, none⟩ : PdfLex.Prim R)) = .ok (.pair (.leaf (.name "Pages")) val) ∧
      projectNode (.pair (.leaf (.name "Pages")) val) = .pages parent kids count ⟨none, none, none⟩ := by
  have hu := semN_leaf ⟨true⟩ Generated.generatedSchemas env "u32" (.int count) (by decide) (by decide) (by decide) (k + 1)
  have hcnt : baseSem.rd env (.leaf "u32") (.int count) = .ok (.leaf (.int count)) := by
    simp [baseSem, baseRdPrim, asU32, viaResolve, resolve1, resolveP]
  cases parent with
  | none =>
    simp only [nodeVal, attrEntries, toD, toDE, List.append_nil, List.cons_append, List.nil_append, strOf_kType,
      strOf_kPages, strOf_kKids, strOf_kCount, readPagesNode, resolve1, resolveP, dget]
    simp [derase, find_PageTree, readStructD, Generated.s_PageTree, expect, expectAll, dget, readFields, readField, readPlain,
      readAbsent, readShape, Derive.Prim.isRef, hu, hcnt]
    rw [kids_read bitsOf _ (by intro k; simp)]
    simp [projectNode, kidsD_refs, boxMarkerD, resMarkerD]
  | some p =>
    obtain ⟨pv, hpv⟩ := hp p rfl
    have hrd : (semN ⟨true⟩ Generated.generatedSchemas (k + 1)).rd env (.leaf "PagesRc") (.ref p 0) = .ok (.indirect (.ref p 0) pv) := by
      simp only [semN, structSem]
      exact hpv
    simp only [nodeVal, attrEntries, toD, toDE, List.append_nil, List.cons_append, List.nil_append, strOf_kType, strOf_kParent,
      strOf_kPages, strOf_kKids, strOf_kCount, readPagesNode, resolve1, resolveP, dget]
    simp [derase, find_PageTree, readStructD, Generated.s_PageTree, expect, expectAll, dget, readFields, readField, readPlain,
      readAbsent, readShape, Derive.Prim.isRef, hu, hcnt, hrd]
    rw [kids_read bitsOf _ (by intro k; simp)]
    simp [projectNode, kidsD_refs, boxMarkerD, resMarkerD]

theorem strOf_kPage : strOf BuildBytes.kPage = "Page" := by decide
theorem find_Page : findSchema "Page" Generated.generatedSchemas = some Generated.s_Page := by rfl

/-- a /Page leaf without attributes, read at level `k + 1` when its parent is readable at level `k`; `hdf`: the literal
    default `"0"` of `/Rotate` evaluates (string functions of the model of defaults do not reduce in the kernel) -/
theorem read_leaf_node (bitsOf : R → Nat) (env : Derive.Env) (p : Nat) (k : Nat)
    (hdf : ∀ acc, ∃ v, (semN ⟨true⟩ Generated.generatedSchemas (k + 1)).dflt "0" acc = .ok v)
    (hp : ∃ pv, readPagesRc ⟨true⟩ Generated.generatedSchemas (semN ⟨true⟩ Generated.generatedSchemas k) env "Pages" (.ref p 0)
        = .ok (.indirect (.ref p 0) pv)) :
    ∃ val, readPagesNode ⟨true⟩ Generated.generatedSchemas (semN ⟨true⟩ Generated.generatedSchemas (k + 1)) env
        (toD bitsOf (leafVal p ⟨none, none, none⟩ : PdfLex.Prim R)) = .ok (.pair (.leaf (.name "Page")) val) ∧
      projectNode (.pair (.leaf (.name "Page")) val) = .page p ⟨none, none, none⟩ := by
  obtain ⟨pv, hpv⟩ := hp
  have hrd : (semN ⟨true⟩ Generated.generatedSchemas (k + 1)).rd env (.leaf "PagesRc") (.ref p 0) = .ok (.indirect (.ref p 0) pv) := by
    simp only [semN, structSem]
    exact hpv
  obtain ⟨dv, hdv⟩ := hdf [.indirect (.ref p 0) pv, .none, .none, .none, .none, .none]
  simp only [leafVal, attrEntries, toD, toDE, List.append_nil, List.cons_append, List.nil_append, strOf_kType, strOf_kParent,
    strOf_kPage, readPagesNode, resolve1, resolveP, dget]
  simp [derase, find_Page, readStructD, Generated.s_Page, expect, expectAll, dget, readFields, readField, readPlain, readDefaulted,
    readAbsent, readShape, Derive.Prim.isRef, hrd, hdv]
  simp [projectNode, boxMarkerD, resMarkerD]

/-! ### every node of an attribute-free tree, through its /Parent chain -/

def noAttrs : Attrs := ⟨none, none, none⟩

mutual
def attrFree : PTree → Bool
  | .leaf _ a => a == noAttrs
  | .node _ a ks => a == noAttrs && attrFreeL ks
def attrFreeL : List PTree → Bool
  | [] => true
  | k :: ks => attrFree k && attrFreeL ks
end

mutual
theorem markersOK_of_attrFree : ∀ (t : PTree), attrFree t = true → markersOK t = true
  | .leaf _ a, h => by
    simp only [attrFree, beq_iff_eq] at h
    subst h
    rfl
  | .node _ a ks, h => by
    simp only [attrFree, Bool.and_eq_true, beq_iff_eq] at h
    obtain ⟨rfl, h2⟩ := h
    simp only [markersOK, Bool.and_eq_true]
    exact ⟨rfl, markersOKL_of_attrFree ks h2⟩
theorem markersOKL_of_attrFree : ∀ (ks : List PTree), attrFreeL ks = true → markersOKL ks = true
  | [], _ => rfl
  | k :: ks, h => by
    simp only [attrFreeL, Bool.and_eq_true] at h
    simp only [markersOKL, Bool.and_eq_true]
    exact ⟨markersOK_of_attrFree k h.1, markersOKL_of_attrFree ks h.2⟩
end

abbrev cfgD : Cfg := ⟨true⟩

/-- the literal default `"0"` (the field `rotate` of `Page`) evaluates at every level of the tower. True of the model
    (`literalDefault "0" = .ok (.leaf (.int 0))`, checked by evaluation), but `String.toInt?` / `String.splitOn`, through which
    the model of defaults goes, do not reduce in the kernel — hence a hypothesis. -/
def DefaultZeroEvaluates : Prop :=
  ∀ k acc, ∃ v, (semN cfgD Generated.generatedSchemas (k + 1)).dflt "0" acc = .ok v

mutual
theorem tree_reads (bitsOf : R → Nat) (env : Derive.Env) (hdf : DefaultZeroEvaluates) :
    ∀ (t : PTree) (parent : Option Nat) (k0 : Nat), attrFree t = true → (parent = none → isNode t = true) →
    (∀ q ∈ (objsOf parent t : List (Nat × PdfLex.Prim R)), env.resolve q.1 = .ok (toD bitsOf q.2)) →
    (∀ p, parent = some p → ∀ k, k0 ≤ k → ∃ pv,
      readPagesRc cfgD Generated.generatedSchemas (semN cfgD Generated.generatedSchemas k) env "Pages" (.ref p 0) = .ok (.indirect (.ref p 0) pv)) →
    ∀ q ∈ (objsOf parent t : List (Nat × PdfLex.Prim R)), ∀ k, k0 + height t ≤ k →
      ∃ val, readPagesNode cfgD Generated.generatedSchemas (semN cfgD Generated.generatedSchemas (k + 1)) env (toD bitsOf q.2) = .ok val ∧
        projectNode val = nodeOf q.2
  | .leaf id a, parent, k0, hf, hroot, _, hpar, q, hq, k, hk => by
    simp only [attrFree, beq_iff_eq] at hf
    subst hf
    cases parent with
    | none => simp [isNode] at hroot
    | some p =>
      simp only [objsOf, List.mem_singleton, Option.getD_some] at hq
      subst hq
      simp only [height] at hk
      obtain ⟨val, h1, h2⟩ := read_leaf_node bitsOf env p k (hdf k) (hpar p rfl k (by omega))
      exact ⟨_, h1, by rw [h2, nodeOf_leafVal p noAttrs (by decide)]; rfl⟩
  | .node id a ks, parent, k0, hf, _, hres, hpar, q, hq, k, hk => by
    simp only [attrFree, Bool.and_eq_true, beq_iff_eq] at hf
    obtain ⟨ha, hfk⟩ := hf
    subst ha
    simp only [height] at hk
    have hhead : ∀ k, k0 ≤ k → ∃ val, readPagesNode cfgD Generated.generatedSchemas (semN cfgD Generated.generatedSchemas (k + 1)) env
          (toD bitsOf (nodeVal parent (ks.map PTree.id) (nLeavesL ks) noAttrs : PdfLex.Prim R)) = .ok (.pair (.leaf (.name "Pages")) val) ∧
        projectNode (.pair (.leaf (.name "Pages")) val) = .pages parent (ks.map PTree.id) (nLeavesL ks) noAttrs := by
      intro k hk'
      exact read_tree_node bitsOf env parent _ _ k (fun p hp => hpar p hp k hk')
    simp only [objsOf, List.mem_cons] at hq
    rcases hq with rfl | hq
    · obtain ⟨val, h1, h2⟩ := hhead k (by omega)
      exact ⟨_, h1, by rw [h2, nodeOf_nodeVal _ _ _ noAttrs (by decide)]⟩
    · have hidres := hres (id, nodeVal parent (ks.map PTree.id) (nLeavesL ks) noAttrs) (by simp [objsOf])
      have hidrc : ∀ p, some id = some p → ∀ k, k0 + 1 ≤ k → ∃ pv,
          readPagesRc cfgD Generated.generatedSchemas (semN cfgD Generated.generatedSchemas k) env "Pages" (.ref p 0) = .ok (.indirect (.ref p 0) pv) := by
        intro p hp k hk'
        cases hp
        obtain ⟨k', rfl⟩ : ∃ k', k = k' + 1 := ⟨k - 1, by omega⟩
        obtain ⟨val, h1, _⟩ := hhead k' (by omega)
        exact ⟨_, readPagesRc_ok _ _ _ env id _ val hidres h1⟩
      exact treeL_reads bitsOf env hdf ks id (k0 + 1) hfk (fun q hq => hres q (by simp [objsOf, hq])) hidrc q hq k (by omega)
theorem treeL_reads (bitsOf : R → Nat) (env : Derive.Env) (hdf : DefaultZeroEvaluates) :
    ∀ (ks : List PTree) (pid : Nat) (k0 : Nat), attrFreeL ks = true →
    (∀ q ∈ (objsOfL pid ks : List (Nat × PdfLex.Prim R)), env.resolve q.1 = .ok (toD bitsOf q.2)) →
    (∀ p, some pid = some p → ∀ k, k0 ≤ k → ∃ pv,
      readPagesRc cfgD Generated.generatedSchemas (semN cfgD Generated.generatedSchemas k) env "Pages" (.ref p 0) = .ok (.indirect (.ref p 0) pv)) →
    ∀ q ∈ (objsOfL pid ks : List (Nat × PdfLex.Prim R)), ∀ k, k0 + heightL ks ≤ k →
      ∃ val, readPagesNode cfgD Generated.generatedSchemas (semN cfgD Generated.generatedSchemas (k + 1)) env (toD bitsOf q.2) = .ok val ∧
        projectNode val = nodeOf q.2
  | [], _, _, _, _, _, q, hq, _, _ => by simp [objsOfL] at hq
  | c :: ks, pid, k0, hf, hres, hpar, q, hq, k, hk => by
    simp only [attrFreeL, Bool.and_eq_true] at hf
    simp only [heightL] at hk
    simp only [objsOfL, List.mem_append] at hq
    rcases hq with hq | hq
    · exact tree_reads bitsOf env hdf c (some pid) k0 hf.1 (by intro h; cases h) (fun q hq => hres q (by simp [objsOfL, hq])) hpar q hq k (by omega)
    · exact treeL_reads bitsOf env hdf ks pid k0 hf.2 (fun q hq => hres q (by simp [objsOfL, hq])) hpar q hq k (by omega)
end

/-- **the generated readers of `PageTree` and `Page` agree with `nodeOf` on every object of an attribute-free written
    tree** (any depth up to the tower level, every parent chain loaded through the resolver) -/
theorem derived_agrees_attr_free (bitsOf : R → Nat) (resolve : Nat → Out (Offsets.Obj (PdfLex.Prim R))) (hdf : DefaultZeroEvaluates)
    (t : PTree) (hn : isNode t = true) (hf : attrFree t = true) (hh : height t ≤ 23)
    (hres : ∀ q ∈ (objsOf none t : List (Nat × PdfLex.Prim R)), resolve q.1 = .ok (.plain q.2)) :
    ∀ q ∈ (objsOf none t : List (Nat × PdfLex.Prim R)), derivedNode bitsOf resolve q.2 = nodeOf q.2 := by
  intro q hq
  obtain ⟨val, h1, h2⟩ := tree_reads bitsOf (envD bitsOf resolve) hdf t none 0 hf (fun _ => hn)
    (fun q hq => by simp [envD, hres q hq]) (fun p hp => by cases hp) q hq 23 (by omega)
  simp only [derivedNode, lvl, cfgD] at h1 ⊢
  rw [h1]
  exact h2

/-! ### stepping stones for attribute-carrying nodes (not yet used by the induction) -/

/-- an integer below 2²⁴ survives `i32 as f32` (`Derive.f32OfNat`) and the decoding `natOfF32Bits` of `projectNode` -/
theorem f32_roundtrip (m : Nat) (hm : m < 16777216) : natOfF32Bits (f32OfNat m) = some m := by
  by_cases h0 : m = 0
  · subst h0; simp [f32OfNat, natOfF32Bits]
  have hlo : 2 ^ m.log2 ≤ m := Nat.log2_self_le h0
  have hhi : m < 2 ^ (m.log2 + 1) := Nat.lt_log2_self
  have he : m.log2 ≤ 23 := by
    rcases Nat.lt_or_ge 23 m.log2 with hc | hc
    · have : 2 ^ 24 ≤ 2 ^ m.log2 := Nat.pow_le_pow_right (by omega) (by omega)
      omega
    · exact hc
  have hb : f32OfNat m = (m.log2 + 127) * 2 ^ 23 + (m * 2 ^ (23 - m.log2) - 2 ^ 23) := by
    simp only [f32OfNat, h0, if_false, he, if_true]
  generalize m.log2 = e at *
  have hs : 2 ^ e * 2 ^ (23 - e) = 8388608 := by
    rw [← Nat.pow_add]; have : e + (23 - e) = 23 := by omega
    rw [this]
  have hspos : 0 < 2 ^ (23 - e) := Nat.two_pow_pos _
  have h1 : 8388608 ≤ m * 2 ^ (23 - e) := by
    rw [← hs]; exact Nat.mul_le_mul_right _ hlo
  have h2 : m * 2 ^ (23 - e) < 16777216 := by
    have : 2 ^ (e + 1) * 2 ^ (23 - e) = 16777216 := by
      rw [← Nat.pow_add]; have : e + 1 + (23 - e) = 24 := by omega
      rw [this]
    rw [← this]; exact Nat.mul_lt_mul_of_pos_right hhi hspos
  rw [hb]
  have hdiv : m * 2 ^ (23 - e) % 2 ^ (23 - e) = 0 := Nat.mul_mod_left _ _
  have hquo : m * 2 ^ (23 - e) / 2 ^ (23 - e) = m := Nat.mul_div_cancel _ hspos
  generalize hq : m * 2 ^ (23 - e) = q at *
  have e23 : (2:Nat) ^ 23 = 8388608 := by decide
  rw [e23]
  have hbits : (e + 127) * 8388608 + (q - 8388608) ≠ 0 := by omega
  have hlt : ¬ ((e + 127) * 8388608 + (q - 8388608) ≥ 2147483648) := by omega
  have hE : ((e + 127) * 8388608 + (q - 8388608)) / 8388608 = e + 127 := by omega
  have hM : ((e + 127) * 8388608 + (q - 8388608)) % 8388608 = q - 8388608 := by omega
  simp only [natOfF32Bits, hbits, if_false, hlt, hE, hM]
  have h127 : ¬ (e + 127 < 127) := by omega
  have hle : e + 127 - 127 ≤ 23 := by omega
  have hqq : 8388608 + (q - 8388608) = q := by omega
  have hee : e + 127 - 127 = e := by omega
  simp only [h127, if_false, if_true, hqq, hee, hdiv, hquo, he]

/-- a written box `[0 0 m 7]` read as a `Rectangle` at any tower level: four `f32` bit patterns -/
theorem rect_read (env : Derive.Env) (m : Nat) (k : Nat) :
    (semN ⟨true⟩ Generated.generatedSchemas k).rd env (.leaf "Rectangle") (.arr [.int 0, .int 0, .int m, .int 7]) =
      .ok (.leaf (.arr [.real 0, .real 0, .real (f32OfNat m), .real (f32OfNat 7)])) := by
  rw [semN_leaf ⟨true⟩ Generated.generatedSchemas env "Rectangle" _ (by decide) (by decide) (by decide) k]
  have hnn : ¬ ((m : Int) < 0) := by omega
  simp [baseSem, baseRdPrim, resolve1, resolveP, numbers, asNumber, f32OfInt, hnn]
  simp [f32OfNat]

end PageTreeB
