import PdfModel.Spec.PageTreeBytes
import PdfModel.Model.PageTreeDerived

/-! First step of the agreement of the generated readers with `nodeOf`: a /Pages node without /Parent and without
    attributes (kids and count symbolic). -/

namespace PageTreeB
open PageTree PdfLex OpenBytes Derive

variable {R : Type}

theorem strOf_kType : strOf SaveBytes.kType = "Type" := by decide
theorem strOf_kPages : strOf BuildBytes.kPagesT = "Pages" := by decide
theorem strOf_kKids : strOf BuildBytes.kKids = "Kids" := by decide
theorem strOf_kCount : strOf BuildBytes.kCount = "Count" := by decide
theorem find_PageTree : findSchema "PageTree" Generated.generatedSchemas = some Generated.s_PageTree := by rfl

/-- a leaf that is not one of the three page-tree leaves is read by the base readers at every level of the tower -/
theorem semN_leaf (cfg : Cfg) (schemas : List Schema) (env : Derive.Env) (name : String) (p : Derive.Prim)
    (h1 : name ≠ "PagesNode") (h2 : name ≠ "PagesRc") (h3 : name ≠ "PageRc") :
    ∀ k, (semN cfg schemas k).rd env (.leaf name) p = baseSem.rd env (.leaf name) p
  | 0 => rfl
  | k + 1 => by
    simp only [semN, structSem]
    split <;> simp_all [semN_leaf cfg schemas env name p h1 h2 h3 k]

theorem kids_read (bitsOf : R → Nat) (g : Derive.Prim → Derive.R Val)
    (hg : ∀ k, g (Derive.Prim.ref k 0) = .ok (Val.leaf (.ref k 0))) : ∀ (ks : List Nat),
    mapR g (toDL bitsOf (ks.map fun k => (PdfLex.Prim.ref k 0 : PdfLex.Prim R))) = .ok (ks.map fun k => Val.leaf (.ref k 0))
  | [] => by simp [toDL, mapR]
  | k :: ks => by simp [toDL, toD, mapR, hg, kids_read bitsOf g hg ks]

theorem kidsD_refs : ∀ (ks : List Nat), kidsD (ks.map fun k => Val.leaf (.ref k 0)) = some ks
  | [] => rfl
  | k :: ks => by simp [kidsD, kidsD_refs ks]

/-- the generated reader of `PageTree` behind the /Type dispatch, on a written /Pages node without /Parent and without
    attributes, yields the node `nodeOf` yields: /Kids in order, /Count -/
theorem derived_bare_root (bitsOf : R → Nat) (resolve : Nat → Out (Offsets.Obj (PdfLex.Prim R))) (kids : List Nat)
    (count : Nat) (hc : count ≤ 2147483647) :
    derivedNode bitsOf resolve (nodeVal none kids count ⟨none, none, none⟩ : PdfLex.Prim R) =
      .pages none kids count ⟨none, none, none⟩ := by
  have hu := semN_leaf ⟨true⟩ Generated.generatedSchemas (envD bitsOf resolve) "u32" (.int count) (by decide) (by decide) (by decide) lvl
  have hcnt : baseSem.rd (envD bitsOf resolve) (.leaf "u32") (.int count) = .ok (.leaf (.int count)) := by
    simp [baseSem, baseRdPrim, asU32, viaResolve, resolve1, resolveP]
  simp only [derivedNode, nodeVal, attrEntries, toD, toDE, List.append_nil, List.cons_append, List.nil_append, strOf_kType,
    strOf_kPages, strOf_kKids, strOf_kCount, readPagesNode, resolve1, resolveP, dget]
  simp [derase, find_PageTree, readStructD, Generated.s_PageTree, expect, expectAll, dget, readFields, readField, readPlain,
    readAbsent, readShape, Derive.Prim.isRef, hu, hcnt]
  rw [kids_read bitsOf _ (by intro k; simp)]
  simp [projectNode, kidsD_refs, boxMarkerD, resMarkerD]

end PageTreeB
