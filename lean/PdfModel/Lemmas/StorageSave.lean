import PdfModel.Lemmas.StorageInv

/-! `save`: what `prep` leaves, the shape of a successful save, preservation of the invariant by
    successful and failed saves. -/

namespace Storage
open Xref

variable {V : Type}

/-- layouts the theorems quantify over: every record takes at least one byte -/
def Layout.Pos (L : Layout) : Prop := (∀ id, 0 < L.recLen id) ∧ ∀ i, 0 < L.xrefLen i

structure PrepFacts (d0 d : Doc V) (pr : Prep V) : Prop where
  inv : Inv d0 ⟨pr.st2, d.tr⟩
  len_eq : pr.st2.refs.length = pr.xid + 1
  xid_ge : d.st.refs.length ≤ pr.xid
  xid_le : pr.xid ≤ d.st.refs.length + 1
  xid_prom : pr.st2.refs[pr.xid]? = some .promised
  xid_free : chLookup pr.st2.changes pr.xid = none
  size_eq : pr.size = d.st.refs.length + 2
  size_ge : pr.xid + 1 ≤ pr.size
  objs_eq : pr.st2.objs = d.st.objs
  secs_eq : pr.st2.secs = d.st.secs
  len_same : pr.st2.len = d.st.len
  start_same : pr.st2.start = d.st.start
  sx_same : pr.st2.startxref = d.st.startxref
  cached_same : pr.st2.cached = d.st.cached
  info_some : ∀ i, pr.infoRef = some i → ∃ v, d.tr.info = some v ∧ chLookup pr.st2.changes i = some (v, 0) ∧
      i = d.st.refs.length ∧ pr.st2.changes = chInsert d.st.changes i (v, 0) ∧ pr.st2.cache = []
  info_none : pr.infoRef = none → d.tr.info = none ∧ pr.st2.changes = d.st.changes ∧ pr.st2.cache = d.st.cache ∧
      pr.st2.refs = d.st.refs ++ [.promised]
  info_iff : (pr.infoRef = none ↔ d.tr.info = none)
  refs_sub : ∀ j : Nat, j < d.st.refs.length → pr.st2.refs[j]? = d.st.refs[j]?
  ch_sub : ∀ j : Nat, j < d.st.refs.length → chLookup pr.st2.changes j = chLookup d.st.changes j
  ch_mid : ∀ j : Nat, d.st.refs.length ≤ j → j < pr.xid → chLookup pr.st2.changes j ≠ none
  ch_sup : ∀ (j : Nat) (x : V × Nat), chLookup d.st.changes j = some x → chLookup pr.st2.changes j = some x

theorem prep_facts (d0 d : Doc V) (chain0) (hb : BaseOK d0 chain0) (hi : Inv d0 d) : PrepFacts d0 d (prep d) := by
  cases hinfo : d.tr.info with
  | none =>
    have hp : prep d = ⟨{ d.st with refs := d.st.refs ++ [.promised] }, none, d.st.refs.length, d.st.refs.length + 2⟩ := by
      simp [prep, prepInfo, hinfo, promise, alloc]
    rw [hp]
    have h1 := inv_alloc d0 d hi
    refine
      { inv := h1, len_eq := by simp, xid_ge := Nat.le_refl _, xid_le := by simp, xid_prom := by simp, xid_free := ?_, size_eq := rfl,
        size_ge := by simp, objs_eq := rfl, secs_eq := rfl, len_same := rfl, start_same := rfl, sx_same := rfl,
        cached_same := rfl, info_some := by intro i h; simp at h, info_none := fun _ => ⟨hinfo, rfl, rfl, rfl⟩,
        info_iff := by simp [hinfo], refs_sub := fun j hj => by simp [List.getElem?_append_left hj],
        ch_sub := fun _ _ => rfl, ch_mid := fun j h1 h2 => by simp only at h2; omega, ch_sup := fun _ _ h => h }
    simp only
    cases hc : chLookup d.st.changes d.st.refs.length with
    | none => rfl
    | some x => have := hi.ch_lt _ x hc; omega
  | some v =>
    have hp : prep d = ⟨{ d.st with refs := (d.st.refs ++ [.promised]) ++ [.promised],
                                    changes := chInsert d.st.changes d.st.refs.length (v, 0), cache := [] },
                        some d.st.refs.length, d.st.refs.length + 1, d.st.refs.length + 2⟩ := by
      simp [prep, prepInfo, hinfo, promise, alloc, create]
    rw [hp]
    have h1 := inv_create d0 d chain0 hb hi v
    have h2 := inv_alloc d0 _ h1
    have h2' : Inv d0 ⟨{ d.st with refs := (d.st.refs ++ [.promised]) ++ [.promised],
                                   changes := chInsert d.st.changes d.st.refs.length (v, 0), cache := [] }, d.tr⟩ := by
      simpa [create, alloc] using h2
    refine
      { inv := h2', len_eq := by simp, xid_ge := by simp, xid_le := by simp, xid_prom := by simp, xid_free := ?_, size_eq := rfl,
        size_ge := by simp, objs_eq := rfl, secs_eq := rfl, len_same := rfl, start_same := rfl, sx_same := rfl,
        cached_same := rfl, info_some := ?_, info_none := by intro h; simp at h,
        info_iff := by simp [hinfo], refs_sub := ?_, ch_sub := ?_, ch_mid := ?_, ch_sup := ?_ }
    · simp only [chLookup_chInsert]
      rw [if_neg (by omega)]
      cases hc : chLookup d.st.changes (d.st.refs.length + 1) with
      | none => rfl
      | some x => have := hi.ch_lt _ x hc; omega
    · intro i h
      simp only [Option.some.injEq] at h
      subst h
      exact ⟨v, hinfo, by simp [chLookup_chInsert], rfl, rfl, rfl⟩
    · intro j hj
      simp only
      rw [List.getElem?_append_left (by simp; omega), List.getElem?_append_left hj]
    · intro j hj
      simp only [chLookup_chInsert]
      rw [if_neg (by omega)]
    · intro j h1 h2
      simp only at h2
      have : j = d.st.refs.length := by omega
      subst this
      simp [chLookup_chInsert]
    · intro j x h
      simp only [chLookup_chInsert]
      have := hi.ch_lt j x h
      rw [if_neg (by omega)]; exact h

/-- the shape of a successful save -/
theorem save_ok_spec (P : Params V) (L : Layout) (d d' : Doc V) (i : SaveInfo) (h : save P L d = (d', .ok i)) :
    ∃ (w : Written V) (rows : List XRef),
      writeChanges P L (prep d).st2.start (prep d).st2.changes ⟨(prep d).st2.refs, (prep d).st2.objs, (prep d).st2.len⟩
        = (w, .ok ()) ∧
      rowsOf ((w.refs.set (prep d).xid (.raw (w.len - (prep d).st2.start) 0)).take ((prep d).xid + 1)) = some rows ∧
      d'.st = commit P L d (prep d) w (w.refs.set (prep d).xid (.raw (w.len - (prep d).st2.start) 0)) rows ∧
      loadTrailer d'.st d.tr.root (prep d).infoRef d.tr.prev = .ok d'.tr ∧
      i.xid = (prep d).xid ∧ i.xpos = w.len - (prep d).st2.start ∧ i.size = (prep d).size ∧ i.rows = rows ∧
      d.st.refs.length + 2 ≤ MAX_ID := by
  unfold save at h
  by_cases hbig : d.st.refs.length + 2 > MAX_ID
  · simp [hbig] at h
  simp only [hbig, if_false] at h
  generalize hw : writeChanges P L (prep d).st2.start (prep d).st2.changes
      ⟨(prep d).st2.refs, (prep d).st2.objs, (prep d).st2.len⟩ = res at h
  obtain ⟨w, o⟩ := res
  cases o with
  | ok u =>
    cases u
    simp only at h
    generalize hr : rowsOf ((w.refs.set (prep d).xid (.raw (w.len - (prep d).st2.start) 0)).take ((prep d).xid + 1)) = rr at h
    cases rr with
    | none => simp at h
    | some rows =>
      simp only at h
      generalize hl : loadTrailer (commit P L d (prep d) w (w.refs.set (prep d).xid (.raw (w.len - (prep d).st2.start) 0)) rows)
        d.tr.root (prep d).infoRef d.tr.prev = lt at h
      cases lt with
      | ok tr =>
        by_cases ht : L.typed = true
        · simp only [ht, if_true, Prod.mk.injEq, Out.ok.injEq] at h
          obtain ⟨rfl, rfl⟩ := h
          exact ⟨w, rows, rfl, hr, rfl, hl, rfl, rfl, rfl, rfl, by omega⟩
        · simp [ht] at h
      | err => simp at h
      | panic => simp at h
      | oof => simp at h
  | err => simp at h
  | panic => simp at h
  | oof => simp at h

theorem loadTrailer_ok (st : St V) (root : Nat × Nat) (info : Option Nat) (prev : Option Nat) (tr : Trailer V)
    (h : loadTrailer st root info prev = .ok tr) :
    tr.root = root ∧ tr.prev = prev ∧ (∃ v, resolve st root.1 = .val v) ∧ (info = none → tr.info = none) ∧
    (∀ i v, info = some i → resolve st i = .val v → tr.info = some v) := by
  unfold loadTrailer at h
  split at h
  · rename_i v hv
    cases info with
    | none =>
      simp only [Out.ok.injEq] at h; subst h
      exact ⟨rfl, rfl, ⟨v, hv⟩, fun _ => rfl, fun i v h => by simp at h⟩
    | some ii =>
      simp only at h
      cases hr : resolve st ii with
      | val v' =>
        rw [hr] at h; simp only [Out.ok.injEq] at h; subst h
        refine ⟨rfl, rfl, ⟨v, hv⟩, fun h => by simp at h, ?_⟩
        intro i v2 hi hv2
        simp only [Option.some.injEq] at hi; subst hi
        rw [hr] at hv2; simp only [Rd.val.injEq] at hv2; subst hv2; rfl
      | free =>
        rw [hr] at h; simp only [Out.ok.injEq] at h; subst h
        refine ⟨rfl, rfl, ⟨v, hv⟩, fun h => by simp at h, ?_⟩
        intro i v2 hi hv2
        simp only [Option.some.injEq] at hi; subst hi
        rw [hr] at hv2; simp at hv2
      | null =>
        rw [hr] at h; simp only [Out.ok.injEq] at h; subst h
        refine ⟨rfl, rfl, ⟨v, hv⟩, fun h => by simp at h, ?_⟩
        intro i v2 hi hv2
        simp only [Option.some.injEq] at hi; subst hi
        rw [hr] at hv2; simp at hv2
      | unspec => rw [hr] at h; simp at h
      | other => rw [hr] at h; simp at h
  · simp at h

theorem set_get_ne (l : List XRef) (i j : Nat) (x : XRef) (h : i ≠ j) : (l.set i x)[j]? = l[j]? := by
  simp [h]

theorem set_get_self (l : List XRef) (i : Nat) (x : XRef) (h : i < l.length) : (l.set i x)[i]? = some x := by
  simp [h]

/-- the committed revision keeps the invariant -/
theorem inv_of_commit (P : Params V) (L : Layout) (hL : L.Pos) (d0 d d' : Doc V) (chain0)
    (hb : BaseOK d0 chain0) (hi : Inv d0 d) (w : Written V) (rows : List XRef)
    (hw : writeChanges P L (prep d).st2.start (prep d).st2.changes ⟨(prep d).st2.refs, (prep d).st2.objs, (prep d).st2.len⟩
        = (w, .ok ()))
    (hst : d'.st = commit P L d (prep d) w (w.refs.set (prep d).xid (.raw (w.len - (prep d).st2.start) 0)) rows)
    (htr : d'.tr = d.tr) : Inv d0 d' := by
  have pf := prep_facts d0 d chain0 hb hi
  have hs := pf.inv.sorted
  obtain ⟨f1, f2, f3, _⟩ := writeChanges_frame P L _ _ _ _ _ hw hs
  obtain ⟨k1, ⟨ext, k2, k3⟩, k4, k5⟩ := writeChanges_ok P L _ hL.1 _ _ _ hw hs pf.inv.objs_lt
  simp only at f1 f2 f3 k1 k2 k3 k4 k5
  have hxlt : (prep d).xid < w.refs.length := by rw [f1, pf.len_eq]; omega
  have hn0 : d0.st.refs.length ≤ (prep d).xid := Nat.le_trans hi.refs_len pf.xid_ge
  -- lookups in the new `changes`
  have hlook : ∀ j, chLookup d'.st.changes j =
      if j = (prep d).xid then some (P.xrefVal (saveInfoOf (prep d) w (w.refs.set (prep d).xid (.raw (w.len - (prep d).st2.start) 0)) rows), 0) else chLookup (prep d).st2.changes j := by
    intro j; rw [hst]; simp [commit, chLookup_chInsert]
  have hrefs : d'.st.refs = w.refs.set (prep d).xid (.raw (w.len - (prep d).st2.start) 0) := by rw [hst]; rfl
  refine
    { tr_eq := ?_, start_eq := ?_, len_ge := ?_, objs_ext := ?_, secs_ext := ?_, objs_lt := ?_, secs_lt := ?_,
      refs_len := ?_, sorted := ?_, refs_old := ?_, refs_new := ?_, ch_lt := ?_, ch_old := ?_, ch_new := ?_,
      cache_ok := ?_ }
  · rw [htr]; exact hi.tr_eq
  · rw [hst]; simp only [commit]; rw [pf.start_same]; exact hi.start_eq
  · rw [hst]; simp only [commit]; have := hi.len_ge; have := pf.len_same; omega
  · obtain ⟨e0, a, b⟩ := hi.objs_ext
    refine ⟨e0 ++ ext ++ [⟨w.len, (prep d).xid, 0, P.xrefRec d.tr (prep d).infoRef (saveInfoOf (prep d) w (w.refs.set (prep d).xid (.raw (w.len - (prep d).st2.start) 0)) rows), []⟩], ?_, ?_⟩
    · rw [hst]; simp only [commit]; rw [k2, pf.objs_eq, a]; simp
    · intro o ho
      simp only [List.mem_append, List.mem_singleton] at ho
      rcases ho with (ho | ho) | ho
      · exact b o ho
      · have := k3 o ho; have := hi.len_ge; have := pf.len_same; omega
      · subst ho; simp only; have := hi.len_ge; have := pf.len_same; omega
  · obtain ⟨e0, a, b⟩ := hi.secs_ext
    refine ⟨e0 ++ [⟨w.len, [⟨0, rows⟩], (prep d).size, d.tr.prev, d.tr.root, (prep d).infoRef⟩], ?_, ?_⟩
    · rw [hst]; simp only [commit]; rw [pf.secs_eq, a]; simp
    · intro o ho
      simp only [List.mem_append, List.mem_singleton] at ho
      rcases ho with ho | ho
      · exact b o ho
      · subst ho; simp only; have := hi.len_ge; have := pf.len_same; omega
  · intro o ho
    rw [hst] at ho ⊢; simp only [commit, List.mem_append, List.mem_singleton] at ho ⊢
    rcases ho with ho | ho
    · have := k4 o ho; omega
    · subst ho; simp only; have := hL.2 (saveInfoOf (prep d) w (w.refs.set (prep d).xid (.raw (w.len - (prep d).st2.start) 0)) rows); omega
  · intro o ho
    rw [hst] at ho ⊢; simp only [commit, List.mem_append, List.mem_singleton] at ho ⊢
    rcases ho with ho | ho
    · have := pf.inv.secs_lt o ho; simp only at this; have := hL.2 (saveInfoOf (prep d) w (w.refs.set (prep d).xid (.raw (w.len - (prep d).st2.start) 0)) rows); omega
    · subst ho; simp only; have := hL.2 (saveInfoOf (prep d) w (w.refs.set (prep d).xid (.raw (w.len - (prep d).st2.start) 0)) rows); omega
  · rw [hrefs, List.length_set, f1]; exact pf.inv.refs_len
  · rw [hst]; exact sorted_chInsert _ _ _ hs
  · intro j hj hc
    rw [hlook] at hc
    split at hc
    · simp at hc
    · rename_i hne
      rw [hrefs, set_get_ne _ _ _ _ (Ne.symm hne), f2 j hc]
      exact pf.inv.refs_old j hj hc
  · intro j hj hlt hc
    rw [hlook] at hc
    split at hc
    · simp at hc
    · rename_i hne
      rw [hrefs, List.length_set, f1] at hlt
      rw [hrefs, set_get_ne _ _ _ _ (Ne.symm hne), f2 j hc]
      exact pf.inv.refs_new j hj hlt hc
  · intro j x hc
    rw [hlook] at hc
    rw [hrefs, List.length_set]
    split at hc
    · subst_vars; exact hxlt
    · rw [f1]; exact pf.inv.ch_lt j x hc
  · intro j v g hc hj
    rw [hlook] at hc
    split at hc
    · omega
    · rename_i hne
      obtain ⟨e, a, b, c, dd⟩ := pf.inv.ch_old j v g hc hj
      refine ⟨e, a, b, c, ?_⟩
      rw [hrefs, set_get_ne _ _ _ _ (Ne.symm hne)]
      rcases f3 j v g hc with f | ⟨pos, f⟩
      · rw [f]; exact dd
      · exact Or.inr ⟨pos, f⟩
  · intro j v g hc hj
    rw [hlook] at hc
    split at hc
    · rename_i heq
      simp only [Option.some.injEq, Prod.mk.injEq] at hc
      obtain ⟨_, rfl⟩ := hc
      refine ⟨rfl, Or.inr ⟨w.len - (prep d).st2.start, ?_⟩⟩
      rw [hrefs, heq, set_get_self _ _ _ hxlt]
    · rename_i hne
      obtain ⟨a, b⟩ := pf.inv.ch_new j v g hc hj
      refine ⟨a, ?_⟩
      rw [hrefs, set_get_ne _ _ _ _ (Ne.symm hne)]
      rcases f3 j v g hc with f | ⟨pos, f⟩
      · rw [f]; exact b
      · subst a; exact Or.inr ⟨pos, f⟩
  · intro id r hc; rw [hst] at hc; simp [commit, cacheLookup] at hc

theorem save_tr_eq (P : Params V) (L : Layout) (d0 d d' : Doc V) (chain0) (i : SaveInfo)
    (hb : BaseOK d0 chain0) (hi : Inv d0 d) (h : save P L d = (d', .ok i)) : d'.tr = d.tr := by
  have pf := prep_facts d0 d chain0 hb hi
  obtain ⟨w, rows, hw, hr, hst, hl, _, _, _, _, _⟩ := save_ok_spec P L d d' i h
  obtain ⟨t1, t2, _, t4, t5⟩ := loadTrailer_ok _ _ _ _ _ hl
  have hlook : ∀ j, chLookup d'.st.changes j =
      if j = (prep d).xid then some (P.xrefVal (saveInfoOf (prep d) w (w.refs.set (prep d).xid (.raw (w.len - (prep d).st2.start) 0)) rows), 0) else chLookup (prep d).st2.changes j := by
    intro j; rw [hst]; simp [commit, chLookup_chInsert]
  have hinfo : d'.tr.info = d.tr.info := by
    cases hir : (prep d).infoRef with
    | none => rw [t4 hir, (pf.info_none hir).1]
    | some ii =>
      obtain ⟨v, a, b, _, _, _⟩ := pf.info_some ii hir
      have hne : ii ≠ (prep d).xid := by
        intro heq; rw [heq, pf.xid_free] at b; simp at b
      have : resolve d'.st ii = .val v := by
        apply resolve_changed _ _ v 0
        rw [hlook, if_neg hne]; exact b
      rw [t5 ii v hir this, a]
  cases hd' : d'.tr; cases hd : d.tr
  simp_all

/-- a successful save keeps the invariant -/
theorem inv_save_ok (P : Params V) (L : Layout) (hL : L.Pos) (d0 d d' : Doc V) (chain0) (i : SaveInfo)
    (hb : BaseOK d0 chain0) (hi : Inv d0 d) (h : save P L d = (d', .ok i)) : Inv d0 d' := by
  obtain ⟨w, rows, hw, hr, hst, hl, _, _, _, _, _⟩ := save_ok_spec P L d d' i h
  exact inv_of_commit P L hL d0 d d' chain0 hb hi w rows hw hst (save_tr_eq P L d0 d d' chain0 i hb hi h)

theorem dropLast_get (l : List XRef) (j : Nat) (hj : j + 1 < l.length) : (l.dropLast)[j]? = l[j]? := by
  rw [List.dropLast_eq_take, List.getElem?_take]
  simp; omega

theorem dropLast_get_none (l : List XRef) (j : Nat) (hj : l.length ≤ j + 1) : (l.dropLast)[j]? = none := by
  simp; omega

/-- the state a failed save leaves: the promise for the cross-reference stream withdrawn, entries of
    pending objects possibly moved to (dangling) direct positions -/
theorem inv_rollback (d0 d : Doc V) (chain0) (hb : BaseOK d0 chain0) (hi : Inv d0 d) (R : List XRef)
    (hlen : R.length = (prep d).st2.refs.length)
    (hnone : ∀ j : Nat, j ≠ (prep d).xid → chLookup (prep d).st2.changes j = none → R[j]? = (prep d).st2.refs[j]?)
    (hsome : ∀ (j : Nat) (v : V) (g : Nat), chLookup (prep d).st2.changes j = some (v, g) →
        R[j]? = (prep d).st2.refs[j]? ∨ ∃ pos, R[j]? = some (.raw pos g)) :
    Inv d0 ⟨{ (prep d).st2 with refs := R.dropLast }, d.tr⟩ := by
  have pf := prep_facts d0 d chain0 hb hi
  have hn0 : d0.st.refs.length ≤ (prep d).xid := Nat.le_trans hi.refs_len pf.xid_ge
  have hRlen : R.length = (prep d).xid + 1 := by rw [hlen, pf.len_eq]
  have hne : ∀ (j : Nat) (x : V × Nat), chLookup (prep d).st2.changes j = some x → j < (prep d).xid := by
    intro j x hc
    have h1 := pf.inv.ch_lt j x hc
    simp only at h1; rw [pf.len_eq] at h1
    have : j ≠ (prep d).xid := by intro heq; rw [heq, pf.xid_free] at hc; simp at hc
    omega
  refine
    { tr_eq := pf.inv.tr_eq, start_eq := pf.inv.start_eq, len_ge := pf.inv.len_ge, objs_ext := pf.inv.objs_ext,
      secs_ext := pf.inv.secs_ext, objs_lt := pf.inv.objs_lt, secs_lt := pf.inv.secs_lt, refs_len := ?_,
      sorted := pf.inv.sorted, refs_old := ?_, refs_new := ?_, ch_lt := ?_, ch_old := ?_, ch_new := ?_, cache_ok := ?_ }
  · simp only [List.length_dropLast]; omega
  · intro j hj hc
    simp only at hc ⊢
    rw [dropLast_get _ _ (by omega), hnone j (by omega) hc]
    exact pf.inv.refs_old j hj hc
  · intro j hj hlt hc
    simp only [List.length_dropLast] at hlt hc ⊢
    rw [dropLast_get _ _ (by omega), hnone j (by omega) hc]
    exact pf.inv.refs_new j hj (by simp only; rw [pf.len_eq]; omega) hc
  · intro j x hc
    simp only [List.length_dropLast] at hc ⊢
    have := hne j x hc; omega
  · intro j v g hc hj
    simp only at hc ⊢
    obtain ⟨e, a, b, c, dd⟩ := pf.inv.ch_old j v g hc hj
    refine ⟨e, a, b, c, ?_⟩
    rw [dropLast_get _ _ (by have := hne j _ hc; omega)]
    rcases hsome j v g hc with f | ⟨pos, f⟩
    · rw [f]; exact dd
    · exact Or.inr ⟨pos, f⟩
  · intro j v g hc hj
    simp only at hc ⊢
    obtain ⟨a, b⟩ := pf.inv.ch_new j v g hc hj
    refine ⟨a, ?_⟩
    rw [dropLast_get _ _ (by have := hne j _ hc; omega)]
    rcases hsome j v g hc with f | ⟨pos, f⟩
    · rw [f]; exact b
    · subst a; exact Or.inr ⟨pos, f⟩
  · intro id r hc v
    simp only at hc
    rw [pf.inv.cache_ok id r hc v]
    -- reads that return a value are the same with and without the withdrawn slot
    have h1 := resolve_alloc ({ (prep d).st2 with refs := R.dropLast } : St V) id v
    rw [← h1]
    have h2 : resolve ({ ({ (prep d).st2 with refs := R.dropLast } : St V) with refs := R.dropLast ++ [.promised] }) id
        = resolve (prep d).st2 id := by
      show resolve ({ (prep d).st2 with refs := R.dropLast ++ [.promised] } : St V) id = resolve (prep d).st2 id
      refine resolve_congr (prep d).st2 ({ (prep d).st2 with refs := R.dropLast ++ [.promised] } : St V) rfl rfl rfl ?_ id
      intro j hcj
      simp only
      by_cases hj : j < (prep d).xid
      · rw [List.getElem?_append_left (by simp only [List.length_dropLast]; omega), dropLast_get _ _ (by omega)]
        exact hnone j (by omega) hcj
      · by_cases hj2 : j = (prep d).xid
        · subst hj2
          rw [pf.xid_prom]
          have : (R.dropLast).length = (prep d).xid := by simp only [List.length_dropLast]; omega
          rw [List.getElem?_append_right (by omega), this]; simp
        · have h3 : (prep d).st2.refs[j]? = none := by
            rw [List.getElem?_eq_none_iff, pf.len_eq]; omega
          rw [h3, List.getElem?_eq_none_iff]
          simp only [List.length_append, List.length_dropLast, List.length_singleton]; omega
    rw [h2]

/-! ### any outcome of `save` -/

theorem loadTrailer_total (st : St V) (root : Nat × Nat) (info : Option Nat) (prev : Option Nat) :
    loadTrailer st root info prev ≠ .panic ∧ loadTrailer st root info prev ≠ .oof := by
  unfold loadTrailer
  cases resolve st root.1 <;> cases info <;> simp
  all_goals (rename_i i; cases resolve st i <;> simp)


theorem keys_lt (d0 d : Doc V) (hi : Inv d0 d) : ∀ id ∈ keys d.st.changes, id < d.st.refs.length := by
  intro id hid
  cases hc : chLookup d.st.changes id with
  | none => rw [chLookup_none_iff] at hc; exact absurd hid hc
  | some x => exact hi.ch_lt id x hc

/-- the three ways `save` ends for a reachable document -/
theorem save_too_big (P : Params V) (L : Layout) (d : Doc V) (h : MAX_ID < d.st.refs.length + 2) :
    save P L d = (d, .err) := by
  unfold save; simp [h]

theorem save_cases (P : Params V) (L : Layout) (d0 d : Doc V) (chain0) (hb : BaseOK d0 chain0) (hi : Inv d0 d)
    (hsz : d.st.refs.length + 2 ≤ MAX_ID) :
    (∃ w, writeChanges P L (prep d).st2.start (prep d).st2.changes ⟨(prep d).st2.refs, (prep d).st2.objs, (prep d).st2.len⟩
            = (w, .err) ∧
          save P L d = (⟨{ (prep d).st2 with refs := w.refs.dropLast }, d.tr⟩, .err)) ∨
    (∃ w, writeChanges P L (prep d).st2.start (prep d).st2.changes ⟨(prep d).st2.refs, (prep d).st2.objs, (prep d).st2.len⟩
            = (w, .ok ()) ∧
          rowsOf ((w.refs.set (prep d).xid (.raw (w.len - (prep d).st2.start) 0)).take ((prep d).xid + 1)) = none ∧
          save P L d = (⟨{ (prep d).st2 with
              refs := (w.refs.set (prep d).xid (.raw (w.len - (prep d).st2.start) 0)).dropLast }, d.tr⟩, .err)) ∨
    (∃ w rows, writeChanges P L (prep d).st2.start (prep d).st2.changes ⟨(prep d).st2.refs, (prep d).st2.objs, (prep d).st2.len⟩
            = (w, .ok ()) ∧
          rowsOf ((w.refs.set (prep d).xid (.raw (w.len - (prep d).st2.start) 0)).take ((prep d).xid + 1)) = some rows ∧
          ((∃ i tr, save P L d =
              (⟨commit P L d (prep d) w (w.refs.set (prep d).xid (.raw (w.len - (prep d).st2.start) 0)) rows, tr⟩, .ok i)) ∨
            ((loadTrailer (commit P L d (prep d) w (w.refs.set (prep d).xid (.raw (w.len - (prep d).st2.start) 0)) rows)
                d.tr.root (prep d).infoRef d.tr.prev = .err ∨ L.typed = false) ∧
             save P L d =
              (⟨commit P L d (prep d) w (w.refs.set (prep d).xid (.raw (w.len - (prep d).st2.start) 0)) rows, d.tr⟩, .err)))) := by
  have pf := prep_facts d0 d chain0 hb hi
  have hnb : ¬ (d.st.refs.length + 2 > MAX_ID) := by omega
  have hout := writeChanges_outcome P L (prep d).st2.start (prep d).st2.changes
    ⟨(prep d).st2.refs, (prep d).st2.objs, (prep d).st2.len⟩ (keys_lt d0 _ pf.inv)
  generalize hw : writeChanges P L (prep d).st2.start (prep d).st2.changes
      ⟨(prep d).st2.refs, (prep d).st2.objs, (prep d).st2.len⟩ = res at hout
  obtain ⟨w, o⟩ := res
  simp only at hout
  by_cases hall : allOk P (prep d).st2.changes = true
  · rw [if_pos hall] at hout; subst hout
    right
    generalize hr : rowsOf ((w.refs.set (prep d).xid (.raw (w.len - (prep d).st2.start) 0)).take ((prep d).xid + 1)) = rr
    cases rr with
    | none =>
      left
      refine ⟨w, rfl, hr, ?_⟩
      unfold save; simp only [hnb, if_false, hw, hr]
    | some rows =>
      right
      refine ⟨w, rows, rfl, hr, ?_⟩
      generalize hl : loadTrailer (commit P L d (prep d) w (w.refs.set (prep d).xid (.raw (w.len - (prep d).st2.start) 0)) rows)
        d.tr.root (prep d).infoRef d.tr.prev = lt
      cases lt with
      | ok tr =>
        by_cases ht : L.typed = true
        · left
          refine ⟨saveInfoOf (prep d) w (w.refs.set (prep d).xid (.raw (w.len - (prep d).st2.start) 0)) rows, tr, ?_⟩
          unfold save; simp only [hnb, if_false, hw, hr, hl, ht, if_true]
        · right
          have ht' : L.typed = false := by simpa using ht
          refine ⟨Or.inr ht', ?_⟩
          unfold save; simp only [hnb, if_false, hw, hr, hl, ht', Bool.false_eq_true]
      | err => right; refine ⟨Or.inl rfl, ?_⟩; unfold save; simp only [hnb, if_false, hw, hr, hl]
      | panic =>
        exact absurd hl (loadTrailer_total _ _ _ _).1
      | oof => exact absurd hl (loadTrailer_total _ _ _ _).2
  · rw [if_neg hall] at hout; subst hout
    left
    refine ⟨w, rfl, ?_⟩
    unfold save; simp only [hnb, if_false, hw]

/-- `save` keeps the invariant whatever its outcome, and its outcome is a value or an error -/
theorem inv_save (P : Params V) (L : Layout) (hL : L.Pos) (d0 d : Doc V) (chain0) (hb : BaseOK d0 chain0)
    (hi : Inv d0 d) : Inv d0 (save P L d).1 ∧ ((∃ i, (save P L d).2 = .ok i) ∨ (save P L d).2 = .err) := by
  have pf := prep_facts d0 d chain0 hb hi
  by_cases hsz : d.st.refs.length + 2 ≤ MAX_ID
  case neg => rw [save_too_big P L d (by omega)]; exact ⟨hi, Or.inr rfl⟩
  rcases save_cases P L d0 d chain0 hb hi hsz with ⟨w, hw, hs⟩ | ⟨w, hw, hr, hs⟩ | ⟨w, rows, hw, hr, hs⟩
  · obtain ⟨f1, f2, f3, _⟩ := writeChanges_frame P L _ _ _ _ _ hw pf.inv.sorted
    rw [hs]
    exact ⟨inv_rollback d0 d chain0 hb hi w.refs f1 (fun j _ hc => f2 j hc) f3, Or.inr rfl⟩
  · obtain ⟨f1, f2, f3, _⟩ := writeChanges_frame P L _ _ _ _ _ hw pf.inv.sorted
    rw [hs]
    refine ⟨inv_rollback d0 d chain0 hb hi _ (by rw [List.length_set]; exact f1) ?_ ?_, Or.inr rfl⟩
    · intro j hne hc
      rw [set_get_ne _ _ _ _ (Ne.symm hne)]; exact f2 j hc
    · intro j v g hc
      have hne : j ≠ (prep d).xid := by intro heq; rw [heq, pf.xid_free] at hc; simp at hc
      rw [set_get_ne _ _ _ _ (Ne.symm hne)]; exact f3 j v g hc
  · rcases hs with ⟨i, tr, hs⟩ | ⟨_, hs⟩
    · have htr := save_tr_eq P L d0 d _ chain0 i hb hi hs
      rw [hs]
      exact ⟨inv_of_commit P L hL d0 d _ chain0 hb hi w rows hw rfl htr, Or.inl ⟨i, rfl⟩⟩
    · rw [hs]
      exact ⟨inv_of_commit P L hL d0 d _ chain0 hb hi w rows hw rfl rfl, Or.inr rfl⟩

/-- a save succeeds only if the typed reload of the trailer does -/
theorem save_ok_typed (P : Params V) (L : Layout) (d d' : Doc V) (i : SaveInfo) (h : save P L d = (d', .ok i)) :
    L.typed = true := by
  unfold save at h
  by_cases hbig : d.st.refs.length + 2 > MAX_ID
  · simp [hbig] at h
  simp only [hbig, if_false] at h
  by_cases ht : L.typed = true
  · exact ht
  · exfalso
    have ht' : L.typed = false := by simpa using ht
    simp only [ht', Bool.false_eq_true, if_false] at h
    repeat' split at h
    all_goals simp at h

/-- the `SaveInfo` a successful save returns is the one its cross-reference stream value was made from -/
theorem save_ok_info (P : Params V) (L : Layout) (d d' : Doc V) (i : SaveInfo) (h : save P L d = (d', .ok i))
    (w : Written V) (rows : List XRef)
    (hw : writeChanges P L (prep d).st2.start (prep d).st2.changes ⟨(prep d).st2.refs, (prep d).st2.objs, (prep d).st2.len⟩
        = (w, .ok ()))
    (hr : rowsOf ((w.refs.set (prep d).xid (.raw (w.len - (prep d).st2.start) 0)).take ((prep d).xid + 1)) = some rows) :
    i = saveInfoOf (prep d) w (w.refs.set (prep d).xid (.raw (w.len - (prep d).st2.start) 0)) rows := by
  unfold save at h
  by_cases hbig : d.st.refs.length + 2 > MAX_ID
  · simp [hbig] at h
  simp only [hbig, if_false, hw, hr] at h
  split at h
  · split at h <;> simp only [Prod.mk.injEq, Out.ok.injEq, reduceCtorEq, and_false] at h
    exact h.2.symm
  all_goals simp only [Prod.mk.injEq, Out.ok.injEq, reduceCtorEq, and_false] at h

/-! ### the revision is in the backend: what holds as soon as `write_revision` succeeded, whatever follows -/

/-- `write_revision` succeeded: the revision described by `i` was appended, `st'` is the storage after it (new table,
    cross-reference stream pending, backend grown). This is the state of a successful save and equally of a save that
    fails afterwards (`Trailer::from_dict`). -/
def Committed (P : Params V) (L : Layout) (d : Doc V) (st' : St V) (i : SaveInfo) : Prop :=
  ∃ (w : Written V) (rows : List XRef),
    writeChanges P L (prep d).st2.start (prep d).st2.changes ⟨(prep d).st2.refs, (prep d).st2.objs, (prep d).st2.len⟩
      = (w, .ok ()) ∧
    rowsOf ((w.refs.set (prep d).xid (.raw (w.len - (prep d).st2.start) 0)).take ((prep d).xid + 1)) = some rows ∧
    st' = commit P L d (prep d) w (w.refs.set (prep d).xid (.raw (w.len - (prep d).st2.start) 0)) rows ∧
    i = saveInfoOf (prep d) w (w.refs.set (prep d).xid (.raw (w.len - (prep d).st2.start) 0)) rows ∧
    d.st.refs.length + 2 ≤ MAX_ID

theorem committed_of_ok (P : Params V) (L : Layout) (d d' : Doc V) (i : SaveInfo) (h : save P L d = (d', .ok i)) :
    Committed P L d d'.st i := by
  obtain ⟨w, rows, hw, hr, hst, _, _, _, _, _, hmax⟩ := save_ok_spec P L d d' i h
  exact ⟨w, rows, hw, hr, hst, save_ok_info P L d d' i h w rows hw hr, hmax⟩

/-- the facts of `save_ok_spec` that do not depend on what happens after the write (same shape: the place of the
    trailer load is taken by `True`) -/
theorem Committed.spec' {P : Params V} {L : Layout} {d : Doc V} {st' : St V} {i : SaveInfo} (h : Committed P L d st' i) :
    ∃ (w : Written V) (rows : List XRef),
      writeChanges P L (prep d).st2.start (prep d).st2.changes ⟨(prep d).st2.refs, (prep d).st2.objs, (prep d).st2.len⟩
        = (w, .ok ()) ∧
      rowsOf ((w.refs.set (prep d).xid (.raw (w.len - (prep d).st2.start) 0)).take ((prep d).xid + 1)) = some rows ∧
      st' = commit P L d (prep d) w (w.refs.set (prep d).xid (.raw (w.len - (prep d).st2.start) 0)) rows ∧
      True ∧
      i.xid = (prep d).xid ∧ i.xpos = w.len - (prep d).st2.start ∧ i.size = (prep d).size ∧ i.rows = rows ∧
      d.st.refs.length + 2 ≤ MAX_ID := by
  obtain ⟨w, rows, hw, hr, hst, hi, hmax⟩ := h
  subst hi
  exact ⟨w, rows, hw, hr, hst, trivial, rfl, rfl, rfl, rfl, hmax⟩

theorem Committed.info {P : Params V} {L : Layout} {d : Doc V} {st' : St V} {i : SaveInfo} (h : Committed P L d st' i)
    (w : Written V) (rows : List XRef)
    (hw : writeChanges P L (prep d).st2.start (prep d).st2.changes ⟨(prep d).st2.refs, (prep d).st2.objs, (prep d).st2.len⟩
        = (w, .ok ()))
    (hr : rowsOf ((w.refs.set (prep d).xid (.raw (w.len - (prep d).st2.start) 0)).take ((prep d).xid + 1)) = some rows) :
    i = saveInfoOf (prep d) w (w.refs.set (prep d).xid (.raw (w.len - (prep d).st2.start) 0)) rows := by
  obtain ⟨w', rows', hw', hr', _, hi, _⟩ := h
  rw [hw] at hw'
  simp only [Prod.mk.injEq, and_true] at hw'
  subst hw'
  rw [hr] at hr'
  simp only [Option.some.injEq] at hr'
  subst hr'
  exact hi

/-- the state after the write is a state of the invariant (with the caller's trailer, replaced or not) -/
theorem inv_committed (P : Params V) (L : Layout) (hL : L.Pos) (d0 d d' : Doc V) (chain0) (i : SaveInfo)
    (hb : BaseOK d0 chain0) (hi : Inv d0 d) (h : Committed P L d d'.st i) (htr : d'.tr = d.tr) : Inv d0 d' := by
  obtain ⟨w, rows, hw, hr, hst, _, _⟩ := h
  exact inv_of_commit P L hL d0 d d' chain0 hb hi w rows hw hst htr

/-- `commitInfo` says whether, and with which `SaveInfo`, `save` appended its revision -/
theorem commitInfo_some (P : Params V) (L : Layout) (d0 d : Doc V) (chain0) (hb : BaseOK d0 chain0) (hi : Inv d0 d)
    (i : SaveInfo) (h : commitInfo P L d = some i) :
    Committed P L d (save P L d).1.st i ∧ ((save P L d).1.tr = d.tr ∨ ∃ i', (save P L d).2 = .ok i') := by
  unfold commitInfo at h
  by_cases hbig : d.st.refs.length + 2 > MAX_ID
  · simp [hbig] at h
  simp only [hbig, if_false] at h
  generalize hw : writeChanges P L (prep d).st2.start (prep d).st2.changes
      ⟨(prep d).st2.refs, (prep d).st2.objs, (prep d).st2.len⟩ = res at h
  obtain ⟨w, o⟩ := res
  cases o with
  | ok u =>
    cases u
    simp only at h
    generalize hr : rowsOf ((w.refs.set (prep d).xid (.raw (w.len - (prep d).st2.start) 0)).take ((prep d).xid + 1)) = rr at h
    cases rr with
    | none => simp at h
    | some rows =>
      simp only [Option.some.injEq] at h
      rcases save_cases P L d0 d chain0 hb hi (by omega) with ⟨w', hw', _⟩ | ⟨w', hw', hr', _⟩ | ⟨w', rows', hw', hr', hs⟩
      · rw [hw] at hw'; simp at hw'
      · rw [hw] at hw'; simp only [Prod.mk.injEq, and_true] at hw'; subst hw'; rw [hr] at hr'; cases hr'
      · rw [hw] at hw'; simp only [Prod.mk.injEq, and_true] at hw'; subst hw'
        rw [hr] at hr'; simp only [Option.some.injEq] at hr'; subst hr'
        rcases hs with ⟨i', tr, hs⟩ | ⟨_, hs⟩
        · rw [hs]; exact ⟨⟨w, rows, hw, hr, rfl, h.symm, by omega⟩, Or.inr ⟨i', rfl⟩⟩
        · rw [hs]; exact ⟨⟨w, rows, hw, hr, rfl, h.symm, by omega⟩, Or.inl rfl⟩
  | err => simp at h
  | panic => simp at h
  | oof => simp at h

theorem commitInfo_none (P : Params V) (L : Layout) (d0 d : Doc V) (chain0) (hb : BaseOK d0 chain0) (hi : Inv d0 d)
    (h : commitInfo P L d = none) :
    (save P L d).1.st.objs = d.st.objs ∧ (save P L d).1.st.secs = d.st.secs ∧ (save P L d).1.st.len = d.st.len ∧
    (save P L d).1.st.start = d.st.start ∧ (save P L d).1.st.startxref = d.st.startxref ∧
    (save P L d).1.st.changes = (prep d).st2.changes ∨ (save P L d).1 = d := by
  have pf := prep_facts d0 d chain0 hb hi
  by_cases hsz : d.st.refs.length + 2 ≤ MAX_ID
  case neg => right; rw [save_too_big P L d (by omega)]
  left
  have hnb : ¬ (d.st.refs.length + 2 > MAX_ID) := by omega
  rcases save_cases P L d0 d chain0 hb hi hsz with ⟨w, hw, hs⟩ | ⟨w, hw, hr, hs⟩ | ⟨w, rows, hw, hr, _⟩
  · rw [hs]; exact ⟨pf.objs_eq, pf.secs_eq, pf.len_same, pf.start_same, pf.sx_same, rfl⟩
  · rw [hs]; exact ⟨pf.objs_eq, pf.secs_eq, pf.len_same, pf.start_same, pf.sx_same, rfl⟩
  · exfalso
    unfold commitInfo at h
    simp [hnb, hw, hr] at h

end Storage
