import PdfModel.Lemmas.TotalOpen
import PdfModel.Lemmas.XrefWalk

/-! Size bounds that make the fuel of the resolver a linear function of the file (C01, `read_core_linear`): the
    table `read_xref_table_and_trailer` hands on has `/Size + 1 ≤ MAX_ID + 1` slots, whatever the sections say. -/

namespace Offsets
open OffLex Xref

variable {V T : Type}

theorem prevLoop_length (P : Parsers V T) (buf : Bytes) (start : Nat) :
    ∀ (fuel : Nat) (seen : List Nat) (pv : Option Nat) (t t' : Table),
      prevLoop P buf start fuel seen pv t = .ok t' → t'.length = t.length := by
  intro fuel
  induction fuel with
  | zero => intro seen pv t t' h; cases pv <;> simp [prevLoop] at h; subst h; rfl
  | succ fuel ih =>
    intro seen pv t t' h
    cases pv with
    | none => simp [prevLoop] at h; subst h; rfl
    | some v =>
      simp only [prevLoop] at h
      split at h
      · cases h
      · cases hs : suffixAt buf start v with
        | ok qs =>
          obtain ⟨q, sfx⟩ := qs
          rw [hs] at h
          simp only at h
          cases hx : P.xrefAt sfx with
          | ok r =>
            obtain ⟨subs, tr⟩ := r
            rw [hx] at h
            simp only at h
            cases ha : addSubs t subs with
            | ok t1 =>
              rw [ha] at h
              simp only at h
              have hl := addSubs_length subs ha
              cases hp : P.prevOf tr with
              | none => rw [hp] at h; simp at h; subst h; exact hl
              | some o =>
                rw [hp] at h
                cases o with
                | ok pv' => simp only at h; rw [ih _ _ _ _ h, hl]
                | err => cases h
                | panic => cases h
                | oof => cases h
            | err => rw [ha] at h; cases h
            | panic => rw [ha] at h; cases h
            | oof => rw [ha] at h; cases h
          | err => rw [hx] at h; cases h
          | panic => rw [hx] at h; cases h
          | oof => rw [hx] at h; cases h
        | err => rw [hs] at h; cases h
        | panic => rw [hs] at h; cases h
        | oof => rw [hs] at h; cases h

/-- the merged table has `/Size + 1` slots, and `/Size ≤ MAX_ID` -/
theorem loadTable_length (P : Parsers V T) (fuel : Nat) (buf : Bytes) (start : Nat) (t : Table) (tr : T)
    (h : loadTable P fuel buf start = .ok (t, tr)) : t.length ≤ maxId + 1 := by
  unfold loadTable at h
  cases hx : locateXref buf with
  | ok x =>
    rw [hx] at h
    simp only at h
    cases hs : suffixAtStrict buf start x with
    | ok qs =>
      obtain ⟨q, sfx⟩ := qs
      rw [hs] at h
      simp only at h
      cases hxr : P.xrefAt sfx with
      | ok r =>
        obtain ⟨subs, trailer⟩ := r
        rw [hxr] at h
        simp only at h
        cases hsz : P.sizeOf trailer with
        | ok size =>
          rw [hsz] at h
          simp only at h
          split at h
          · cases h
          · rename_i hmax
            cases ha : addSubs (newTable size) subs with
            | ok t1 =>
              rw [ha] at h
              simp only at h
              have hl : t1.length = size + 1 := by rw [addSubs_length subs ha, newTable_length]
              cases hp : P.prevOf trailer with
              | none => rw [hp] at h; simp at h; obtain ⟨rfl, _⟩ := h; omega
              | some o =>
                rw [hp] at h
                cases o with
                | ok pv =>
                  simp only at h
                  cases hl2 : prevLoop P buf start fuel [] (some pv) t1 with
                  | ok t2 =>
                    rw [hl2] at h
                    simp at h
                    obtain ⟨rfl, _⟩ := h
                    rw [prevLoop_length P buf start _ _ _ _ _ hl2]; omega
                  | err => rw [hl2] at h; cases h
                  | panic => rw [hl2] at h; cases h
                  | oof => rw [hl2] at h; cases h
                | err => cases h
                | panic => cases h
                | oof => cases h
            | err => rw [ha] at h; cases h
            | panic => rw [ha] at h; cases h
            | oof => rw [ha] at h; cases h
        | err => rw [hsz] at h; cases h
        | panic => rw [hsz] at h; cases h
        | oof => rw [hsz] at h; cases h
      | err => rw [hxr] at h; cases h
      | panic => rw [hxr] at h; cases h
      | oof => rw [hxr] at h; cases h
    | err => rw [hs] at h; cases h
    | panic => rw [hs] at h; cases h
    | oof => rw [hs] at h; cases h
  | err => rw [hx] at h; cases h
  | panic => rw [hx] at h; cases h
  | oof => rw [hx] at h; cases h

end Offsets
