import PdfModel.Lemmas.LzwDecode

set_option linter.unusedSimpArgs false
set_option linter.unusedVariables false

/-! Soundness of the membership test `checkLzw`, and the greedy encoder as an instance of the relation. -/

namespace LzwSpec
open Lzw (bitsOfNat_eq_spec bitsOfBytes_eq_spec)

theorem bitsOfNat_length (w n : Nat) : (bitsOfNat w n).length = w := by
  rw [← bitsOfNat_eq_spec]; exact Lzw.bitsOfNat_length w n

theorem bitsOfNat_natOfBits (bs : List Bool) : bitsOfNat bs.length (natOfBits bs) = bs := by
  rw [← bitsOfNat_eq_spec]; exact Lzw.bitsOfNat_natOfBits bs

theorem natOfBits_lt (bs : List Bool) : natOfBits bs < 2 ^ bs.length := Lzw.natOfBits_lt bs

theorem bitsOfCodes_cons (w c : Nat) (cs : List (Nat × Nat)) :
    bitsOfCodes ((w, c) :: cs) = bitsOfNat w c ++ bitsOfCodes cs := by
  simp [bitsOfCodes]

theorem isCodeOf_of_entryOf {table : List Bytes} {c : Nat} {s : Bytes} (h : entryOf table c = some s) :
    IsCodeOf table s c := by
  unfold entryOf at h
  split at h
  · rename_i hc
    cases h
    refine Or.inl ⟨UInt8.ofNat c, rfl, ?_⟩
    simp; omega
  · split at h
    · cases h
    · exact Or.inr ⟨c - 258, h, by omega⟩

theorem checkCodes_sound (early : Bool) : ∀ (fuel : Nat) (st : EncSt) (bs : Bytes) (bits : List Bool),
    checkCodes early fuel st bs bits = true → ∃ cs tail, Codes early st bs cs ∧ bits = bitsOfCodes cs ++ tail := by
  intro fuel
  induction fuel with
  | zero => intro st bs bits h; simp [checkCodes] at h
  | succ f ih =>
    intro st bs bits h
    rw [checkCodes] at h
    dsimp only at h
    split at h
    · cases h
    · rename_i hlen
      have hl : (bits.take (codeWidth early st)).length = codeWidth early st := by
        have := List.length_take_le (codeWidth early st) bits; omega
      have hbits : bits = bitsOfNat (codeWidth early st) (natOfBits (bits.take (codeWidth early st))) ++ bits.drop (codeWidth early st) := by
        have := bitsOfNat_natOfBits (bits.take (codeWidth early st))
        rw [hl] at this
        rw [this, List.take_append_drop]
      split at h
      · rename_i h257
        have hbs : bs = [] := by simpa using h
        subst hbs
        refine ⟨[(codeWidth early st, 257)], bits.drop (codeWidth early st), .eod, ?_⟩
        rw [bitsOfCodes_cons, ← h257]
        simpa [bitsOfCodes] using hbits
      · split at h
        · rename_i _ h256
          obtain ⟨cs, tail, hc, ht⟩ := ih _ _ _ h
          refine ⟨(codeWidth early st, 256) :: cs, tail, .clear hc, ?_⟩
          rw [bitsOfCodes_cons, ← h256, List.append_assoc, ← ht]
          exact hbits
        · split at h
          · cases h
          · rename_i _ _ s hs
            simp only [Bool.and_eq_true, Bool.not_eq_true', List.isEmpty_eq_false_iff] at h
            obtain ⟨⟨hne, hpre⟩, hrec⟩ := h
            obtain ⟨cs, tail, hc, ht⟩ := ih _ _ _ hrec
            have hsplit : s ++ bs.drop s.length = bs :=
              List.prefix_iff_eq_append.mp (List.isPrefixOf_iff_prefix.mp hpre)
            refine ⟨(codeWidth early st, natOfBits (bits.take (codeWidth early st))) :: cs, tail, ?_, ?_⟩
            · have := Codes.phrase (early := early) (st := st) (s := s) (rest := bs.drop s.length) hne (isCodeOf_of_entryOf hs) hc
              rwa [hsplit] at this
            · rw [bitsOfCodes_cons, List.append_assoc, ← ht]
              exact hbits

theorem checkLzw_sound {early : Bool} {bs text : Bytes} (h : checkLzw early bs text = true) : EncodesToLzw early bs text := by
  obtain ⟨cs, tail, hc, hb⟩ := checkCodes_sound early _ _ _ _ h
  exact ⟨cs, tail, hc, hb⟩

/-! ### the greedy encoder is an instance -/

theorem longestMatch_spec : ∀ (t : List Bytes) (i : Nat) (bs : Bytes) (j : Nat) (s : Bytes),
    longestMatch t i bs = some (j, s) → ∃ k, j = i + k ∧ t[k]? = some s ∧ s.isPrefixOf bs = true ∧ 2 ≤ s.length := by
  intro t
  induction t with
  | nil => intro i bs j s h; simp [longestMatch] at h
  | cons e t ih =>
    intro i bs j s h
    simp only [longestMatch] at h
    have shift : ∀ j s, longestMatch t (i + 1) bs = some (j, s) →
        ∃ k, j = i + k ∧ (e :: t)[k]? = some s ∧ s.isPrefixOf bs = true ∧ 2 ≤ s.length := by
      intro j s hr
      obtain ⟨k, hk, h1, h2, h3⟩ := ih (i + 1) bs j s hr
      exact ⟨k + 1, by omega, by simpa using h1, h2, h3⟩
    split at h
    · rename_i hcond
      simp only [Bool.and_eq_true, decide_eq_true_eq] at hcond
      split at h
      · rename_i j' s' hr
        split at h
        · cases h; exact shift _ _ hr
        · cases h; exact ⟨0, rfl, rfl, hcond.2, hcond.1⟩
      · cases h; exact ⟨0, rfl, rfl, hcond.2, hcond.1⟩
    · exact shift _ _ h

theorem greedyCodes_codes (early : Bool) : ∀ (fuel : Nat) (st : EncSt) (bs : Bytes),
    2 * bs.length + (if 258 + st.table.length ≥ 4096 then 1 else 0) + 1 ≤ fuel →
    Codes early st bs (greedyCodes early fuel st bs) := by
  intro fuel
  induction fuel with
  | zero => intro st bs h; omega
  | succ f ih =>
    intro st bs hf
    cases bs with
    | nil => exact .eod
    | cons b bs' =>
      rw [greedyCodes]
      split
      · rename_i hfull
        refine .clear (ih encInit (b :: bs') ?_)
        simp only [hfull, if_true] at hf
        simp [encInit] at hf ⊢; omega
      · rename_i hroom
        simp only [hroom, if_false] at hf
        split
        · rename_i i s hm
          obtain ⟨k, hk, hget, hpre, hlen⟩ := longestMatch_spec _ _ _ _ _ hm
          have hsplit : s ++ (b :: bs').drop s.length = b :: bs' :=
            List.prefix_iff_eq_append.mp (List.isPrefixOf_iff_prefix.mp hpre)
          have hne : s ≠ [] := by intro h; subst h; simp at hlen
          have hrest : ((b :: bs').drop s.length).length + 2 ≤ (b :: bs').length := by
            have hle : s.length ≤ (b :: bs').length := by
              have := congrArg List.length hsplit; simp at this; simp; omega
            simp only [List.length_drop]; omega
          have hrec := ih (advance st s ((b :: bs').drop s.length)) ((b :: bs').drop s.length) (by
            simp only [List.length_cons] at hf hrest
            split <;> omega)
          have := Codes.phrase (early := early) (st := st) (s := s) (rest := (b :: bs').drop s.length) (c := 258 + i) hne
            (Or.inr ⟨k, hget, by omega⟩) hrec
          rwa [hsplit] at this
        · have hrec := ih (advance st [b] bs') bs' (by
            simp only [List.length_cons] at hf
            split <;> omega)
          exact Codes.phrase (early := early) (st := st) (s := [b]) (rest := bs') (c := b.toNat) (by simp)
            (Or.inl ⟨b, rfl, rfl⟩) hrec

theorem bitsOfBytes_cons (b : UInt8) (t : Bytes) : bitsOfBytes (b :: t) = bitsOfNat 8 b.toNat ++ bitsOfBytes t := by
  simp [bitsOfBytes]

/-- packing pads the last byte with zero bits and loses nothing -/
theorem bitsOfBytes_packBits : ∀ (fuel : Nat) (bits : List Bool), bits.length < fuel →
    ∃ k, bitsOfBytes (packBits fuel bits) = bits ++ List.replicate k false := by
  intro fuel
  induction fuel with
  | zero => intro bits h; omega
  | succ f ih =>
    intro bits hf
    cases bits with
    | nil => exact ⟨0, rfl⟩
    | cons b bits' =>
      rw [packBits]
      rw [bitsOfBytes_cons]
      generalize hbyte : (b :: bits').take 8 = byte
      have hbl : byte.length ≤ 8 := by rw [← hbyte]; exact List.length_take_le _ _
      have hpl : (byte ++ List.replicate (8 - byte.length) false).length = 8 := by simp; omega
      have hlt : natOfBits (byte ++ List.replicate (8 - byte.length) false) < 256 := by
        have := natOfBits_lt (byte ++ List.replicate (8 - byte.length) false)
        rw [hpl] at this; simpa using this
      have hbyte8 : bitsOfNat 8 (UInt8.ofNat (natOfBits (byte ++ List.replicate (8 - byte.length) false))).toNat
          = byte ++ List.replicate (8 - byte.length) false := by
        have e : (UInt8.ofNat (natOfBits (byte ++ List.replicate (8 - byte.length) false))).toNat
            = natOfBits (byte ++ List.replicate (8 - byte.length) false) := by simp; omega
        rw [e]
        have := bitsOfNat_natOfBits (byte ++ List.replicate (8 - byte.length) false)
        rwa [hpl] at this
      rw [hbyte8]
      by_cases hlong : 8 ≤ (b :: bits').length
      · obtain ⟨k, hk⟩ := ih ((b :: bits').drop 8) (by simp at hf ⊢; omega)
        have hb8 : byte.length = 8 := by rw [← hbyte, List.length_take]; omega
        refine ⟨k, ?_⟩
        rw [hk, hb8]
        simp only [Nat.sub_self, List.replicate_zero, List.append_nil]
        rw [← List.append_assoc, ← hbyte, List.take_append_drop]
      · have hdrop : (b :: bits').drop 8 = [] := List.drop_eq_nil_of_le (by omega)
        have htake : byte = b :: bits' := by rw [← hbyte]; exact List.take_of_length_le (by omega)
        rw [hdrop]
        cases f with
        | zero => simp at hf
        | succ f' =>
          refine ⟨8 - byte.length, ?_⟩
          simp [packBits, bitsOfBytes, htake]

/-- **the greedy encoder conforms** -/
theorem encodeGreedy_conforms (early : Bool) (bs : Bytes) : EncodesToLzw early bs (encodeGreedy early bs) := by
  unfold encodeGreedy
  dsimp only
  obtain ⟨k, hk⟩ := bitsOfBytes_packBits
    ((bitsOfCodes ((codeWidth early encInit, 256) :: greedyCodes early (2 * bs.length + 2) encInit bs)).length + 1)
    (bitsOfCodes ((codeWidth early encInit, 256) :: greedyCodes early (2 * bs.length + 2) encInit bs)) (by omega)
  refine ⟨_, _, .clear (greedyCodes_codes early _ encInit bs (by simp [encInit])), hk⟩

end LzwSpec
