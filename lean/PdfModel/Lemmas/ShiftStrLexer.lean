import PdfModel.Lemmas.ShiftLexer

/-! Shift lemmas for the string lexers (`Model/StrLexer.lean`), see `Lemmas/ShiftLexer.lean`. -/

namespace PdfShift
open PdfLex

def shB (k : Nat) (r : UInt8 × Nat) : UInt8 × Nat := (r.1, k + r.2)
def shN (k : Nat) (r : Nat × Nat) : Nat × Nat := (r.1, k + r.2)
def shL (k : Nat) (r : List UInt8 × Nat) : List UInt8 × Nat := (r.1, k + r.2)
def shO (k : Nat) (r : Option UInt8 × Nat) : Option UInt8 × Nat := (r.1, k + r.2)

theorem nextByte_shift (p b : Buf) (pos : Nat) :
    nextByte (p ++ b) (p.size + pos) = omap (shB p.size) (nextByte b pos) := by
  unfold nextByte
  rw [get_shift]
  cases b[pos]? <;> simp [shB, Nat.add_assoc]

theorem peekByte_shift (p b : Buf) (pos : Nat) : peekByte (p ++ b) (p.size + pos) = peekByte b pos := by
  unfold peekByte
  rw [get_shift]

theorem octalMore_shift (p b : Buf) : ∀ (n code pos : Nat),
    octalMore (p ++ b) n code (p.size + pos) = omap (shN p.size) (octalMore b n code pos) := by
  intro n
  induction n with
  | zero => intro code pos; rfl
  | succ n ih =>
    intro code pos
    simp only [octalMore, peekByte_shift]
    cases peekByte b pos with
    | ok c =>
      simp only [Out.bind]
      split
      · rw [Nat.add_assoc]; exact ih _ _
      · rfl
    | err => rfl
    | panic => rfl
    | oof => rfl

theorem skipIf_shift (p b : Buf) (pos : Nat) (c : UInt8) :
    skipIf (p ++ b) (p.size + pos) c = p.size + skipIf b pos c := by
  unfold skipIf
  rw [get_shift]
  split <;> simp [Nat.add_assoc]

def sh3 (k : Nat) (r : Option UInt8 × Nat × Int) : Option UInt8 × Nat × Int := (r.1, k + r.2.1, r.2.2)

theorem nextLexeme_shift (p b : Buf) : ∀ (fuel pos : Nat) (nested : Int),
    nextLexeme (p ++ b) fuel (p.size + pos) nested = omap (sh3 p.size) (nextLexeme b fuel pos nested) := by
  intro fuel
  induction fuel with
  | zero => intro pos nested; rfl
  | succ fuel ih =>
    intro pos nested
    simp only [nextLexeme]
    apply bind_shift _ _ (shB p.size) (sh3 p.size) _ _ (nextByte_shift p b pos)
    rintro ⟨c, q⟩
    simp only [shB]
    by_cases h92 : (c == 92) = true
    · simp only [h92, if_true]
      apply bind_shift _ _ (shB p.size) (sh3 p.size) _ _ (nextByte_shift p b q)
      rintro ⟨c2, q2⟩
      simp only [shB]
      cases namedEsc c2 with
      | some v => rfl
      | none =>
        simp only
        by_cases h10 : (c2 == 10) = true
        · simp only [h10, if_true]; exact ih _ _
        · simp only [Bool.not_eq_true] at h10; simp only [h10, Bool.false_eq_true, if_false]
          by_cases h13 : (c2 == 13) = true
          · simp only [h13, if_true, skipIf_shift]; exact ih _ _
          · simp only [Bool.not_eq_true] at h13; simp only [h13, Bool.false_eq_true, if_false]
            by_cases ho : isOctal c2 = true
            · simp only [ho, if_true]
              apply bind_shift _ _ (shN p.size) (sh3 p.size) _ _ (octalMore_shift p b 2 _ q2)
              rintro ⟨code, q3⟩
              rfl
            · simp only [Bool.not_eq_true] at ho; simp only [ho, Bool.false_eq_true, if_false]; rfl
    · simp only [Bool.not_eq_true] at h92; simp only [h92, Bool.false_eq_true, if_false]
      by_cases h40 : (c == 40) = true
      · simp only [h40, if_true]
        by_cases hn : nested + 1 > 9223372036854775807
        · simp only [hn, if_true]; rfl
        · simp only [hn, if_false]; rfl
      · simp only [Bool.not_eq_true] at h40; simp only [h40, Bool.false_eq_true, if_false]
        by_cases h41 : (c == 41) = true
        · simp only [h41, if_true]
          by_cases hn : nested - 1 < 0
          · simp only [hn, if_true]; rfl
          · simp only [hn, if_false]; rfl
        · simp only [Bool.not_eq_true] at h41; simp only [h41, Bool.false_eq_true, if_false]
          by_cases h13 : (c == 13) = true
          · simp only [h13, if_true, skipIf_shift]; rfl
          · simp only [Bool.not_eq_true] at h13; simp only [h13, Bool.false_eq_true, if_false]; rfl

theorem collectString_shift (p b : Buf) : ∀ (fuel pos : Nat) (nested : Int) (acc : List UInt8),
    collectString (p ++ b) fuel (p.size + pos) nested acc
      = omap (shL p.size) (collectString b fuel pos nested acc) := by
  intro fuel
  induction fuel with
  | zero => intro pos nested acc; rfl
  | succ fuel ih =>
    intro pos nested acc
    simp only [collectString]
    apply bind_shift _ _ (sh3 p.size) (shL p.size) _ _ (nextLexeme_shift p b (fuel + 1) pos nested)
    rintro ⟨r, q, n⟩
    simp only [sh3]
    cases r with
    | none => rfl
    | some c => simp only; exact ih _ _ _

theorem hexBack_shift (k base pos : Nat) : hexBack (k + base) (k + pos) = omap (k + ·) (hexBack base pos) := by
  unfold hexBack
  by_cases h : pos > base
  · have : k + pos > k + base := by omega
    have e : k + pos - 1 = k + (pos - 1) := by omega
    simp [h, this, e]
  · have : ¬ k + pos > k + base := by omega
    simp [h, this]

theorem nextNonWs_shift (p b : Buf) : ∀ (fuel pos : Nat),
    nextNonWs (p ++ b) fuel (p.size + pos) = omap (shB p.size) (nextNonWs b fuel pos) := by
  intro fuel
  induction fuel with
  | zero => intro pos; rfl
  | succ fuel ih =>
    intro pos
    simp only [nextNonWs, get_shift]
    cases b[pos]? with
    | none => rfl
    | some c =>
      simp only
      split
      · rw [Nat.add_assoc]; exact ih _
      · simp [shB, Nat.add_assoc]

theorem nextHexByte_shift (p b : Buf) (base pos : Nat) :
    nextHexByte (p ++ b) (p.size + base) (p.size + pos)
      = omap (shO p.size) (nextHexByte b base pos) := by
  unfold nextHexByte
  have e : ∀ q, (p ++ b).size - (p.size + q) + 1 = b.size - q + 1 := by intro q; rw [size_shift]; omega
  rw [e]
  apply bind_shift _ _ (shB p.size) (shO p.size) _ _ (nextNonWs_shift p b _ pos)
  rintro ⟨c1, q⟩
  simp only [shB]
  by_cases h62 : (c1 == 62) = true
  · simp only [h62, if_true]; rfl
  · simp only [Bool.not_eq_true] at h62
    simp only [h62, Bool.false_eq_true, if_false]
    cases hexDigitVal c1 with
    | none => rfl
    | some hi =>
      simp only
      rw [e]
      apply bind_shift _ _ (shB p.size) (shO p.size) _ _ (nextNonWs_shift p b _ q)
      rintro ⟨c2, q2⟩
      simp only [shB]
      by_cases h62' : (c2 == 62) = true
      · simp only [h62', if_true]
        apply bind_shift _ _ (p.size + ·) (shO p.size) _ _ (hexBack_shift p.size base q2)
        intro a; rfl
      · simp only [Bool.not_eq_true] at h62'
        simp only [h62', Bool.false_eq_true, if_false]
        cases hexDigitVal c2 <;> rfl

theorem collectHex_shift (p b : Buf) (base : Nat) : ∀ (fuel pos : Nat) (acc : List UInt8),
    collectHex (p ++ b) (p.size + base) fuel (p.size + pos) acc
      = omap (shL p.size) (collectHex b base fuel pos acc) := by
  intro fuel
  induction fuel with
  | zero => intro pos acc; rfl
  | succ fuel ih =>
    intro pos acc
    simp only [collectHex]
    apply bind_shift _ _ (shO p.size) (shL p.size) _ _ (nextHexByte_shift p b base pos)
    rintro ⟨r, q⟩
    simp only [shO]
    cases r with
    | none => rfl
    | some c => simp only; exact ih _ _

end PdfShift
