import PdfModel.Lemmas.CMapParse

/-! The CMap writer: maximal runs never overflow `u16` on a sorted map; the text is a conformant program. -/

namespace CMap

/-- keys strictly increasing, from `lo` on, below 65536 (what the sorted entry list of a `HashMap<u16, _>` is) -/
def strictFrom (lo : Nat) : List Entry → Prop
  | [] => True
  | e :: r => lo ≤ e.1 ∧ e.1 < 65536 ∧ strictFrom (e.1 + 1) r

/-- consecutive codes starting at `f` -/
def isRun (f : Nat) : List Entry → Prop
  | [] => True
  | e :: r => e.1 = f ∧ isRun (f + 1) r

theorem isRun_append : ∀ (b : List Entry) (f : Nat) (e : Entry), isRun f b → e.1 = f + b.length → isRun f (b ++ [e])
  | [], f, e, _, he => by simp [isRun] at *; exact he
  | x :: r, f, e, h, he => by
    simp only [isRun, List.cons_append, List.length_cons] at *
    exact ⟨h.1, isRun_append r (f + 1) e h.2 (by omega)⟩

def GoodBlock (b : List Entry) : Prop := ∃ f, b ≠ [] ∧ isRun f b ∧ f + b.length ≤ 65536

theorem blocksAux_spec : ∀ (rest cur : List Entry) (first : Nat), cur ≠ [] → isRun first cur.reverse →
    first + cur.length ≤ 65536 → strictFrom (first + cur.length) rest →
    ∃ bs, blocksAux cur first rest = .ok bs ∧ bs.flatten = cur.reverse ++ rest ∧ ∀ b ∈ bs, GoodBlock b
  | [], cur, first, hne, hrun, hb, _ => by
    refine ⟨[cur.reverse], rfl, by simp, ?_⟩
    intro b hb'
    simp at hb'
    subst hb'
    exact ⟨first, by simpa using hne, hrun, by simpa using hb⟩
  | e :: rest, cur, first, hne, hrun, hb, hs => by
    simp only [strictFrom] at hs
    have hlen : cur.length % 65536 = cur.length := Nat.mod_eq_of_lt (by omega)
    have hnp : ¬ (first + cur.length ≥ 65536) := by omega
    by_cases he : e.1 = first + cur.length
    · obtain ⟨bs, h1, h2, h3⟩ := blocksAux_spec rest (e :: cur) first (by simp)
        (by simpa using isRun_append cur.reverse first e hrun (by simpa using he))
        (by simp only [List.length_cons]; omega)
        (by simp only [List.length_cons]; rw [← Nat.add_assoc, ← he]; exact hs.2.2)
      refine ⟨bs, ?_, by simp [h2], h3⟩
      simp only [blocksAux, hlen, hnp, if_false, he, if_true]
      exact h1
    · obtain ⟨bs, h1, h2, h3⟩ := blocksAux_spec rest [e] e.1 (by simp) (by simp [isRun]) (by simp; omega)
        (by simpa using hs.2.2)
      refine ⟨cur.reverse :: bs, ?_, by simp [h2], ?_⟩
      · simp only [blocksAux, hlen, hnp, if_false, he, h1]
      · intro b hb'
        rcases List.mem_cons.mp hb' with rfl | hb'
        · exact ⟨first, by simpa using hne, hrun, by simpa using hb⟩
        · exact h3 b hb'

theorem blocks_spec (list : List Entry) (hs : strictFrom 0 list) :
    ∃ bs, blocks list = .ok bs ∧ bs.flatten = list ∧ ∀ b ∈ bs, GoodBlock b := by
  cases list with
  | nil => exact ⟨[], rfl, rfl, by simp⟩
  | cons e rest =>
    simp only [strictFrom] at hs
    obtain ⟨bs, h1, h2, h3⟩ := blocksAux_spec rest [e] e.1 (by simp) (by simp [isRun]) (by simp; omega) (by simpa using hs.2.2)
    exact ⟨bs, h1, by simpa using h2, h3⟩

/-- the program entry a block is written as -/
def entOf : List Entry → Ent
  | [e] => .char e.1 e.2
  | b => .rarr ((b.head?.map (·.1)).getD 0) (b.map (·.2))

theorem isRun_getLast : ∀ (b : List Entry) (f : Nat), isRun f b → ∀ l, b.getLast? = some l → l.1 = f + b.length - 1
  | [], _, _, l, h => by simp at h
  | [x], f, hr, l, h => by
    simp at h
    subst h
    simp [isRun] at hr
    simp [hr]
  | x :: y :: r, f, hr, l, h => by
    simp only [isRun] at hr
    have := isRun_getLast (y :: r) (f + 1) hr.2 l (by simpa using h)
    simp only [List.length_cons] at this ⊢
    omega

theorem enumFrom_run : ∀ (b : List Entry) (f : Nat), isRun f b → enumFrom f (b.map (·.2)) = b
  | [], _, _ => rfl
  | x :: r, f, h => by
    simp only [isRun] at h
    obtain ⟨h1, h2⟩ := h
    subst h1
    simp only [List.map_cons, enumFrom]
    rw [enumFrom_run r (x.1 + 1) h2]

theorem entOf_facts (b : List Entry) (hg : GoodBlock b) (hsc : ∀ e ∈ b, e.2.all isScalar = true) :
    (entOf b).isChar = (b.length == 1) ∧ (entOf b).line = blockLines (b.length == 1) b ∧ (entOf b).pairs = b ∧
    (entOf b).wf = true := by
  obtain ⟨f, hne, hrun, hbd⟩ := hg
  match b, hne, hrun, hbd, hsc with
  | [e], _, hrun, hbd, hsc =>
    simp only [isRun] at hrun
    have h1 := hsc e (List.mem_cons_self ..)
    refine ⟨rfl, by simp [entOf, Ent.line, blockLines], by simp [entOf, Ent.pairs], ?_⟩
    simp only [List.length_cons, List.length_nil] at hbd
    simp [entOf, Ent.wf, h1]
    omega
  | x :: y :: r, _, hrun, hbd, hsc =>
    have hl := isRun_getLast (x :: y :: r) f hrun
    have hx : x.1 = f := by simp only [isRun] at hrun; exact hrun.1
    have hne1 : ((x :: y :: r).length == 1) = false := by simp
    obtain ⟨l, hlast⟩ : ∃ l, (x :: y :: r).getLast? = some l := by
      cases h : (x :: y :: r).getLast? with
      | none => simp at h
      | some l => exact ⟨l, rfl⟩
    have hl' := hl l hlast
    refine ⟨by simp [entOf, Ent.isChar], ?_, ?_, ?_⟩
    · rw [hne1]
      simp only [entOf, Ent.line, blockLines, hlast, List.head?_cons, Option.map_some, Option.getD_some, hl', hx,
        List.length_map, List.map_map, Bool.false_eq_true, if_false]
      rfl
    · simp only [entOf, Ent.pairs, List.head?_cons, Option.map_some, Option.getD_some, hx]
      exact enumFrom_run _ f hrun
    · simp only [entOf, Ent.wf, List.head?_cons, Option.map_some, Option.getD_some, hx, List.length_map,
        Bool.and_eq_true, Bool.not_eq_true', decide_eq_true_eq, List.all_eq_true, List.mem_map]
      refine ⟨⟨by simp, hbd⟩, ?_⟩
      rintro s ⟨e, he, rfl⟩
      exact List.all_eq_true.mp (hsc e he)

theorem emit_render : ∀ (bs : List (List Entry)) (st : Option Bool),
    (∀ b ∈ bs, (entOf b).isChar = (b.length == 1) ∧ (entOf b).line = blockLines (b.length == 1) b) →
    emit st bs = render st (bs.map entOf)
  | [], none, _ => rfl
  | [], some _, _ => rfl
  | b :: bs, st, h => by
    obtain ⟨h1, h2⟩ := h b (List.mem_cons_self ..)
    have ih := emit_render bs (some (b.length == 1)) (fun x hx => h x (List.mem_cons_of_mem _ hx))
    cases st <;> simp only [emit, List.map_cons, render, h1, h2, ih]

/-- `write_cmap` of a sorted map: no `u16` overflow, and the text is the conformant rendering of a program
    whose pairs are exactly the map's entries -/
theorem writeCMap_render (list : List Entry) (hs : strictFrom 0 list) (hsc : ∀ e ∈ list, e.2.all isScalar = true) :
    ∃ es, writeCMap list = .ok (render none es) ∧ (∀ e ∈ es, e.wf = true) ∧ pairs es = list := by
  obtain ⟨bs, h1, h2, h3⟩ := blocks_spec list hs
  have hmem : ∀ b ∈ bs, ∀ e ∈ b, e ∈ list := by
    intro b hb e he
    rw [← h2]
    exact List.mem_flatten.mpr ⟨b, hb, he⟩
  have hf : ∀ b ∈ bs, _ := fun b hb => entOf_facts b (h3 b hb) (fun e he => hsc e (hmem b hb e he))
  refine ⟨bs.map entOf, ?_, ?_, ?_⟩
  · simp only [writeCMap, h1]
    rw [emit_render bs none (fun b hb => ⟨(hf b hb).1, (hf b hb).2.1⟩)]
  · intro e he
    obtain ⟨b, hb, rfl⟩ := List.mem_map.mp he
    exact (hf b hb).2.2.2
  · rw [← h2]
    simp only [pairs]
    clear h1 h2 h3 hmem
    induction bs with
    | nil => rfl
    | cons b bs ih =>
      simp only [List.map_cons, List.flatMap_cons, List.flatten_cons]
      rw [(hf b (List.mem_cons_self ..)).2.2.1, ih (fun x hx => hf x (List.mem_cons_of_mem _ hx))]

theorem find_none_of_lt (cid : Nat) : ∀ (l : List Entry) (lo : Nat), strictFrom lo l → cid < lo →
    l.find? (·.1 == cid) = none
  | [], _, _, _ => rfl
  | e :: r, lo, h, hc => by
    simp only [strictFrom] at h
    have hne : (e.1 == cid) = false := by
      simp only [beq_eq_false_iff_ne, ne_eq]
      omega
    simp only [List.find?_cons, hne]
    exact find_none_of_lt cid r (e.1 + 1) h.2.2 (by omega)

theorem find_reverse_sorted (cid : Nat) : ∀ (l : List Entry) (lo : Nat), strictFrom lo l →
    l.reverse.find? (·.1 == cid) = l.find? (·.1 == cid)
  | [], _, _ => rfl
  | e :: r, lo, h => by
    simp only [strictFrom] at h
    have ih := find_reverse_sorted cid r (e.1 + 1) h.2.2
    simp only [List.reverse_cons, List.find?_append, ih, List.find?_cons, List.find?_nil]
    cases he : e.1 == cid with
    | true =>
      have : cid = e.1 := by simpa using (beq_iff_eq.mp he).symm
      rw [find_none_of_lt cid r (e.1 + 1) h.2.2 (by omega)]
      rfl
    | false => cases r.find? (·.1 == cid) <;> rfl

end CMap
