import PdfModel.Lemmas.ParserBasics

/-! The parser reads every conformant spelling (`Spec/Syntax`) as the value it denotes and stops right after it. -/

namespace PdfLex
open PdfSyntax (Gap Bnd NatTok IntTok RealTok NameBody LitBody HexBody Spells SpellsElems SpellsEntries needsBnd)

variable {R : Type}

/-- where a lexeme `t` sits: after the gap `g` at `pos`, followed by `rest` -/
theorem next_regular {buf : Buf} (g t rest : List UInt8) (pos : Nat) (hg : Gap g)
    (h : Suffix buf pos (g ++ t ++ rest)) (hne : t ≠ []) (ht : ∀ b ∈ t, isRegular b = true) (hb : Bnd rest) :
    next buf pos = .ok (pos + g.length, pos + g.length + t.length) ∧
      slice buf (pos + g.length) (pos + g.length + t.length) = t := by
  have h' : Suffix buf pos (g ++ (t ++ rest)) := by simpa using h
  have hst : StartsTok (t ++ rest) := by
    cases t with
    | nil => exact absurd rfl hne
    | cons b t' => exact startsTok_of_regular b _ (ht b (by simp))
  have h2 : Suffix buf (pos + g.length) (t ++ rest) := h'.drop
  rw [next_gap g _ hg hst pos h', lexemeAt_regular t rest _ h2 hne ht hb]
  exact ⟨rfl, h2.slice⟩

theorem suffix_le_of {buf : Buf} {pos : Nat} {s : List UInt8} (h : Suffix buf pos s) : pos ≤ buf.size := h.le

theorem check_ok {flags x : Nat} (h : flags &&& x ≠ 0) : check flags x = .ok () := by
  simp [check, h]

theorem check_or_left {flags x y : Nat} (h : flags &&& x ≠ 0) : check flags (x ||| y) = .ok () := by
  apply check_ok
  rw [Nat.and_or_distrib_left]
  intro e
  exact h (Nat.or_eq_zero_iff.mp e).1

theorem check_or_right {flags x y : Nat} (h : flags &&& y ≠ 0) : check flags (x ||| y) = .ok () := by
  apply check_ok
  rw [Nat.and_or_distrib_left]
  intro e
  exact h (Nat.or_eq_zero_iff.mp e).2

/-! ### atoms -/

theorem parseInner_null (env : Env R) {buf : Buf} (g rest : List UInt8) (pos f : Nat) (ctx : Option (Nat × Nat))
    (flags depth : Nat) (hfl : flags &&& Flags.null ≠ 0) (hg : Gap g) (h : Suffix buf pos (g ++ kwNull ++ rest)) (hb : Bnd rest) :
    parseInner env buf (f + 1) pos ctx flags depth = .ok (.null, pos + g.length + kwNull.length) := by
  obtain ⟨hn, hsl⟩ := next_regular g kwNull rest pos hg h (by decide) kw_null_spec.2.2 hb
  simp only [parseInner, remainingStart_ok h.le, hn, Out.bind_ok, hsl]
  have e := kw_null_spec; simp only [kwNull] at e
  simp [e.1, e.2.1, kwNull, kwTrue, kwFalse, check_ok hfl]

theorem parseInner_bool (env : Env R) {buf : Buf} (b : Bool) (g rest : List UInt8) (pos f : Nat) (ctx : Option (Nat × Nat))
    (flags depth : Nat) (hfl : flags &&& Flags.bool ≠ 0) (hg : Gap g) (h : Suffix buf pos (g ++ (if b then kwTrue else kwFalse) ++ rest)) (hb : Bnd rest) :
    parseInner env buf (f + 1) pos ctx flags depth =
      .ok (.bool b, pos + g.length + (if b then kwTrue else kwFalse).length) := by
  cases b with
  | true =>
    simp only [if_true] at h ⊢
    obtain ⟨hn, hsl⟩ := next_regular g kwTrue rest pos hg h (by decide) kw_true_spec.2.2 hb
    simp only [parseInner, remainingStart_ok h.le, hn, Out.bind_ok, hsl]
    have e := kw_true_spec; simp only [kwTrue] at e
    simp [e.1, e.2.1, kwTrue, check_ok hfl]
  | false =>
    simp only [Bool.false_eq_true, if_false] at h ⊢
    obtain ⟨hn, hsl⟩ := next_regular g kwFalse rest pos hg h (by decide) kw_false_spec.2.2 hb
    simp only [parseInner, remainingStart_ok h.le, hn, Out.bind_ok, hsl]
    have e := kw_false_spec; simp only [kwFalse] at e
    simp [e.1, e.2.1, kwFalse, kwTrue, check_ok hfl]

theorem parseInner_real (env : Env R) {buf : Buf} (t : List UInt8) (r : R) (g rest : List UInt8) (pos f : Nat)
    (ctx : Option (Nat × Nat)) (flags depth : Nat) (hfl : flags &&& Flags.number ≠ 0) (hg : Gap g) (ht : RealTok t)
    (hr : env.parseReal t = some r) (h : Suffix buf pos (g ++ t ++ rest)) (hb : Bnd rest) :
    parseInner env buf (f + 1) pos ctx flags depth = .ok (.real r, pos + g.length + t.length) := by
  obtain ⟨h1, h2, h3, h4⟩ := realTok_spec t ht
  obtain ⟨hn, hsl⟩ := next_regular g t rest pos hg h h3 h4 hb
  have hne2 : (t == [60, 60]) = false := by
    apply beq_false_of_ne; intro e; subst e; have := h4 60 (by simp); revert this; decide
  simp only [parseInner, remainingStart_ok h.le, hn, Out.bind_ok, hsl]
  simp [hne2, h1, h2, hr, check_ok hfl]


theorem realNumber_none_of_head (b : UInt8) (t : List UInt8) (hd : isDigit b = false) (h45 : b ≠ 45) (h43 : b ≠ 43)
    (h46 : b ≠ 46) : realNumber (b :: t) = none := by
  have hs : (b == 45 || b == 43) = false := by simp [h45, h43]
  simp only [realNumber, hs, Bool.false_and, Bool.false_eq_true, if_false]
  simp only [splitDot, show (b == 46) = false by simp [h46], Bool.false_eq_true, if_false]
  cases hsd : splitDot t with
  | some ac => simp [allDigits, hd]
  | none => simp [nonDigitPos, hd]

theorem parseInner_name (env : Env R) {buf : Buf} (body s : List UInt8) (g rest : List UInt8) (pos f : Nat)
    (ctx : Option (Nat × Nat)) (flags depth : Nat) (hfl : flags &&& Flags.name ≠ 0) (hg : Gap g) (hnb : NameBody body s)
    (hu : utf8Valid s = true) (h : Suffix buf pos (g ++ (47 :: body) ++ rest)) (hb : Bnd rest) :
    parseInner env buf (f + 1) pos ctx flags depth = .ok (.name s, pos + g.length + (47 :: body).length) := by
  obtain ⟨hun, hreg⟩ := nameBody_spec body s hnb
  have h' : Suffix buf pos (g ++ (47 :: body ++ rest)) := by simpa using h
  have h2 : Suffix buf (pos + g.length) (47 :: body ++ rest) := h'.drop
  have hn : next buf pos = .ok (pos + g.length, pos + g.length + 1 + body.length) := by
    rw [next_gap g _ hg ⟨47, _, rfl, by decide, by decide⟩ pos h', lexemeAt_name body rest _ h2 hreg hb]
  have hsl : slice buf (pos + g.length) (pos + g.length + 1 + body.length) = 47 :: body := by
    have := Suffix.slice (a := 47 :: body) (s := rest) (by simpa using h2)
    simpa [Nat.add_assoc, Nat.add_comm 1] using this
  simp only [parseInner, remainingStart_ok h.le, hn, Out.bind_ok, hsl]
  have hint : isInteger (47 :: body) = false := by simp [isInteger, allDigits, isDigit]
  have hreal : realNumber (47 :: body) = none := realNumber_none_of_head 47 body (by decide) (by decide) (by decide) (by decide)
  simp [hint, hreal, check_ok hfl, decodeName, hun, hu]
  omega

/-- the integer look-ahead at `p` finds no `<int> R` (and the lexer stays inside the buffer) -/
def IntFollowOK (buf : Buf) (p : Nat) : Prop :=
  ∃ la cur, refLookahead buf p = .ok (la, cur) ∧ cur ≤ buf.size ∧
    ∀ w2 w3, la = some (w2, w3) → slice buf w3.1 w3.2 ≠ [82]

theorem parseIntOrRef_int {buf : Buf} (t : List UInt8) (i : Int) (p flags : Nat) (hfl : flags &&& Flags.integer ≠ 0)
    (hp : p ≤ buf.size) (hi : parseI32 t = some i)
    (hf : IntFollowOK buf p) : parseIntOrRef (R := R) buf p t flags = .ok (.int i, p) := by
  obtain ⟨la, cur, h1, h2, h3⟩ := hf
  unfold parseIntOrRef
  have c1 : check flags (Flags.integer ||| Flags.ref) = .ok () := check_or_left hfl
  have c2 : check flags Flags.integer = .ok () := check_ok hfl
  simp only [c1, Out.bind_ok, h1, c2, setPos_ok h2 hp, hi]
  cases la with
  | none => rfl
  | some ws =>
    obtain ⟨w2, w3⟩ := ws
    have := h3 w2 w3 rfl
    simp [this]

theorem parseInner_int (env : Env R) {buf : Buf} (t : List UInt8) (i : Int) (g rest : List UInt8) (pos f : Nat)
    (ctx : Option (Nat × Nat)) (flags depth : Nat) (hfl : flags &&& Flags.integer ≠ 0) (hg : Gap g) (ht : IntTok t i)
    (lo : -2147483648 ≤ i) (hi : i ≤ 2147483647)
    (h : Suffix buf pos (g ++ t ++ rest)) (hb : Bnd rest) (hf : IntFollowOK buf (pos + g.length + t.length)) :
    parseInner env buf (f + 1) pos ctx flags depth = .ok (.int i, pos + g.length + t.length) := by
  obtain ⟨h1, h2, h3, h4⟩ := intTok_spec t i ht lo hi
  obtain ⟨hn, hsl⟩ := next_regular g t rest pos hg h h3 h4 hb
  have hne2 : (t == [60, 60]) = false := by
    apply beq_false_of_ne; intro e; subst e; have := h4 60 (by simp); revert this; decide
  have hle : pos + g.length + t.length ≤ buf.size := by
    have := h.size_eq; simp at this; omega
  simp only [parseInner, remainingStart_ok h.le, hn, Out.bind_ok, hsl]
  simp [hne2, h1, parseIntOrRef_int t i _ flags hfl hle h2 hf]


theorem parseInner_ref (env : Env R) {buf : Buf} (a g1 b g2 : List UInt8) (id gen : Nat) (g rest : List UInt8) (pos f : Nat)
    (ctx : Option (Nat × Nat)) (flags depth : Nat) (hfl : flags &&& Flags.ref ≠ 0) (hg : Gap g) (ha : NatTok a id)
    (hb : NatTok b gen) (hg1 : Gap g1)
    (hg1ne : g1 ≠ []) (hg2 : Gap g2) (hg2ne : g2 ≠ []) (hid : id ≤ 18446744073709551615)
    (hgen : gen ≤ 18446744073709551615)
    (h : Suffix buf pos (g ++ (a ++ g1 ++ b ++ g2 ++ [82]) ++ rest)) (hbnd : Bnd rest) :
    parseInner env buf (f + 1) pos ctx flags depth =
      .ok (.ref id gen, pos + g.length + (a ++ g1 ++ b ++ g2 ++ [82]).length) := by
  obtain ⟨a1, a2, a3, a4⟩ := natTok_spec a id ha hid
  obtain ⟨b1, b2, b3, b4⟩ := natTok_spec b gen hb hgen
  have h1 : Suffix buf pos (g ++ a ++ (g1 ++ b ++ g2 ++ [82] ++ rest)) := by simpa using h
  obtain ⟨hn, hsl⟩ := next_regular g a _ pos hg h1 a3 a4 (by simpa using gap_bnd hg1 hg1ne _)
  have h2 : Suffix buf (pos + g.length + a.length) (g1 ++ b ++ (g2 ++ [82] ++ rest)) := by
    have := Suffix.drop (a := g ++ a) (by simpa using h1)
    simpa [Nat.add_assoc] using this
  obtain ⟨hn2, hsl2⟩ := next_regular g1 b _ _ hg1 h2 b3 b4 (by simpa using gap_bnd hg2 hg2ne _)
  have h3 : Suffix buf (pos + g.length + a.length + g1.length + b.length) (g2 ++ [82] ++ rest) := by
    have := Suffix.drop (a := g1 ++ b) (by simpa using h2)
    simpa [Nat.add_assoc] using this
  obtain ⟨hn3, hsl3⟩ := next_regular g2 [82] rest _ hg2 h3 (by simp) (by intro b hb; simp at hb; subst hb; decide) hbnd
  have hne2 : (a == [60, 60]) = false := by
    apply beq_false_of_ne; intro e; subst e; have := a4 60 (by simp); revert this; decide
  have c1 : check flags (Flags.integer ||| Flags.ref) = .ok () := check_or_right hfl
  have c2 : check flags Flags.ref = .ok () := check_ok hfl
  simp only [parseInner, remainingStart_ok h.le, hn, Out.bind_ok, hsl]
  simp only [hne2, a1, Bool.false_eq_true, if_false, if_true, parseIntOrRef, c1, Out.bind_ok, refLookahead, hn2, hsl2, b1,
    hn3, hsl3, c2, a2, b2, beq_self_eq_true]
  simp; omega

theorem hexVal_ne60 : ∀ c v : UInt8, PdfSyntax.hexVal c = some v → c ≠ 60 := by
  intro c
  revert c
  decide +kernel

theorem hexBody_ne_nil {t s : List UInt8} (h : HexBody t s) : t ≠ [] := by
  induction h <;> simp

theorem hexBody_head {t s : List UInt8} (h : HexBody t s) : t.head? ≠ some 60 := by
  have key : ∀ (w : List UInt8) (c : UInt8) (r : List UInt8), PdfSyntax.HexWs w → c ≠ 60 → (w ++ c :: r).head? ≠ some 60 := by
    intro w c r hw hc
    cases w with
    | nil => simpa using hc
    | cons b w' =>
      have := hw b (by simp)
      simp; intro e; subst e; revert this; decide
  cases h with
  | close w hw => exact key w 62 [] hw (by decide)
  | byte w1 w2 h1 h2 v1 v2 r s hw1 hw2 hv1 hv2 hr =>
    exact key w1 h1 _ hw1 (hexVal_ne60 h1 v1 hv1)
  | odd w1 w2 h1 v1 hw1 hw2 hv1 =>
    exact key w1 h1 _ hw1 (hexVal_ne60 h1 v1 hv1)

theorem decryptStr_none (env : Env R) (hd : env.decrypt = none) (ctx : Option (Nat × Nat)) (s : List UInt8) :
    decryptStr env ctx s = .ok s := by
  unfold decryptStr; rw [hd]; cases ctx <;> rfl

theorem parseInner_lit (env : Env R) (hd : env.decrypt = none) {buf : Buf} (body s : List UInt8) (g rest : List UInt8)
    (pos f : Nat) (ctx : Option (Nat × Nat)) (flags depth : Nat) (hfl : flags &&& Flags.string ≠ 0) (hg : Gap g)
    (hl : LitBody body 0 s)
    (hsz : buf.size ≤ 2147483647) (h : Suffix buf pos (g ++ (40 :: body) ++ rest)) :
    parseInner env buf (f + 1) pos ctx flags depth = .ok (.str s, pos + g.length + (40 :: body).length) := by
  have h' : Suffix buf pos (g ++ (40 :: (body ++ rest))) := by simpa using h
  have h2 : Suffix buf (pos + g.length) (40 :: (body ++ rest)) := h'.drop
  have hn : next buf pos = .ok (pos + g.length, pos + g.length + 1) := by
    rw [next_gap g _ hg ⟨40, _, rfl, by decide, by decide⟩ pos h']
    exact lexemeAt_delim 40 _ _ h2 (by decide) (by decide) (by simp)
  have hsl : slice buf (pos + g.length) (pos + g.length + 1) = [40] := by
    have := Suffix.slice (a := [40]) (s := body ++ rest) (by simpa using h2)
    simpa using this
  have h3 : Suffix buf (pos + g.length + 1) (body ++ rest) := h2.tail
  have hsize := h3.size_eq
  simp at hsize
  have hcs := collectString_lit s body 0 hl buf (pos + g.length + 1) rest [] (buf.size - (pos + g.length + 1) + 2) h3
    (by omega) (by omega)
  rw [show ((0 : Nat) : Int) = 0 from rfl] at hcs
  have hoff : offsetPos buf (pos + g.length + 1) (pos + g.length + 1 + body.length - (pos + g.length + 1)) =
      .ok (pos + g.length + 1 + body.length) := by
    have : pos + g.length + 1 + body.length - (pos + g.length + 1) = body.length := by omega
    rw [this]; exact offsetPos_ok (by omega) hsz
  have c1 : check flags Flags.string = .ok () := check_ok hfl
  simp only [parseInner, remainingStart_ok h.le, hn, Out.bind_ok, hsl]
  have hint : isInteger [40] = false := by decide
  have hreal : realNumber [40] = none := by decide
  have e1 : (([40] : List UInt8) == [60, 60]) = false := by decide
  have e2 : ((([40] : List UInt8).head?) == some 47) = false := by decide
  have e3 : (([40] : List UInt8) == [91]) = false := by decide
  have e4 : (([40] : List UInt8) == [40]) = true := by decide
  simp only [e1, e2, e3, e4, hint, hreal, Bool.false_eq_true, if_false, if_true, c1, Out.bind_ok,
    remainingStart_ok h3.le, hcs, hoff, decryptStr_none env hd, List.reverse_nil, List.nil_append]
  simp; omega

theorem parseInner_hex (env : Env R) (hd : env.decrypt = none) {buf : Buf} (body s : List UInt8) (g rest : List UInt8)
    (pos f : Nat) (ctx : Option (Nat × Nat)) (flags depth : Nat) (hfl : flags &&& Flags.string ≠ 0) (hg : Gap g)
    (hl : HexBody body s)
    (hsz : buf.size ≤ 2147483647) (h : Suffix buf pos (g ++ (60 :: body) ++ rest)) :
    parseInner env buf (f + 1) pos ctx flags depth = .ok (.str s, pos + g.length + (60 :: body).length) := by
  have h' : Suffix buf pos (g ++ (60 :: (body ++ rest))) := by simpa using h
  have h2 : Suffix buf (pos + g.length) (60 :: (body ++ rest)) := h'.drop
  have hhead : (body ++ rest).head? ≠ some 60 := by
    have := hexBody_head hl
    cases body with
    | nil => exact absurd rfl (hexBody_ne_nil hl)
    | cons c b => simpa using this
  have hn : next buf pos = .ok (pos + g.length, pos + g.length + 1) := by
    rw [next_gap g _ hg ⟨60, _, rfl, by decide, by decide⟩ pos h']
    exact lexemeAt_delim 60 _ _ h2 (by decide) (by decide) (by simpa using hhead)
  have hsl : slice buf (pos + g.length) (pos + g.length + 1) = [60] := by
    have := Suffix.slice (a := [60]) (s := body ++ rest) (by simpa using h2)
    simpa using this
  have h3 : Suffix buf (pos + g.length + 1) (body ++ rest) := h2.tail
  have hsize := h3.size_eq
  simp at hsize
  have hcs := collectHex_hex body s hl buf (pos + g.length + 1) (pos + g.length + 1) rest []
    (buf.size - (pos + g.length + 1) + 2) h3 (by omega) (by omega)
  have hoff : offsetPos buf (pos + g.length + 1) (pos + g.length + 1 + body.length - (pos + g.length + 1)) =
      .ok (pos + g.length + 1 + body.length) := by
    have : pos + g.length + 1 + body.length - (pos + g.length + 1) = body.length := by omega
    rw [this]; exact offsetPos_ok (by omega) hsz
  have c1 : check flags Flags.string = .ok () := check_ok hfl
  simp only [parseInner, remainingStart_ok h.le, hn, Out.bind_ok, hsl]
  have hint : isInteger [60] = false := by decide
  have hreal : realNumber [60] = none := by decide
  have e1 : (([60] : List UInt8) == [60, 60]) = false := by decide
  have e2 : ((([60] : List UInt8).head?) == some 47) = false := by decide
  have e3 : (([60] : List UInt8) == [91]) = false := by decide
  have e4 : (([60] : List UInt8) == [40]) = false := by decide
  have e5 : (([60] : List UInt8) == [60]) = true := by decide
  simp only [e1, e2, e3, e4, e5, hint, hreal, Bool.false_eq_true, if_false, if_true, c1, Out.bind_ok,
    remainingStart_ok h3.le, hcs, hoff, decryptStr_none env hd, List.reverse_nil, List.nil_append]
  simp; omega


/-! ### what follows a value -/

/-- at `q` the input ends or the next lexeme is not `R` -/
def NotR (buf : Buf) (q : Nat) : Prop :=
  nextWord buf q = .err ∨ ∃ w, nextWord buf q = .ok w ∧ slice buf w.1 w.2 ≠ [82]

/-- at `q` the input ends, or the next lexeme is neither `R` nor `stream` and, when it is an integer, the
    lexeme after it is not `R`: what follows a value must not merge with it into another object -/
def Ahead (buf : Buf) (q : Nat) : Prop :=
  nextWord buf q = .err ∨ ∃ w, nextWord buf q = .ok w ∧ slice buf w.1 w.2 ≠ [82] ∧ slice buf w.1 w.2 ≠ kwStream ∧
    (isInteger (slice buf w.1 w.2) = true → NotR buf w.2)

theorem Ahead.notR {buf : Buf} {q : Nat} (h : Ahead buf q) : NotR buf q := by
  rcases h with h | ⟨w, h1, h2, _⟩
  · exact Or.inl h
  · exact Or.inr ⟨w, h1, h2⟩

theorem intFollowOK_of_ahead {buf : Buf} {q : Nat} (hq : q ≤ buf.size) (h : Ahead buf q) : IntFollowOK buf q := by
  rcases h with h | ⟨w, h1, _, _, h4⟩
  · exact ⟨none, q, by simp [refLookahead, next, h], hq, by simp⟩
  · have hb := nextWord_bounds h1
    by_cases hi : isInteger (slice buf w.1 w.2) = true
    · rcases h4 hi with h5 | ⟨w3, h5, h6⟩
      · exact ⟨none, w.2, by simp [refLookahead, next, h1, hi, h5], hb.2, by simp⟩
      · refine ⟨some (w, w3), w3.2, by simp [refLookahead, next, h1, hi, h5], (nextWord_bounds h5).2, ?_⟩
        intro w2 w3' e; simp at e; obtain ⟨_, rfl⟩ := e; exact h6
    · exact ⟨none, w.2, by simp [refLookahead, next, h1, hi], hb.2, by simp⟩

/-- after a dictionary: the next lexeme is not `stream` -/
def DictFollowOK (buf : Buf) (q : Nat) : Prop :=
  ∃ w, peek buf q = .ok w ∧ slice buf w.1 w.2 ≠ kwStream

theorem slice_empty (buf : Buf) (q : Nat) : slice buf q q = [] := by
  simp [slice]

theorem dictFollowOK_of_ahead {buf : Buf} {q : Nat} (hq : q ≤ buf.size) (h : Ahead buf q) : DictFollowOK buf q := by
  rcases h with h | ⟨w, h1, _, h3, _⟩
  · refine ⟨(q, q), by simp [peek, h, newSubstr_ok (Nat.le_refl q) hq], ?_⟩
    simp [slice_empty, kwStream]
  · exact ⟨w, peek_ok h1, h3⟩

/-- a lexeme of regular characters after a gap: `Ahead` when it is not an integer, `R` or `stream` -/
theorem ahead_of_lexeme {buf : Buf} {q : Nat} (w : Nat × Nat) (t : List UInt8) (h1 : nextWord buf q = .ok w)
    (h2 : slice buf w.1 w.2 = t) (hR : t ≠ [82]) (hS : t ≠ kwStream) (hI : isInteger t = true → NotR buf w.2) :
    Ahead buf q :=
  Or.inr ⟨w, h1, by rw [h2]; exact hR, by rw [h2]; exact hS, by rw [h2]; exact hI⟩

theorem bnd_append {s t : List UInt8} (h : Bnd s) (hne : s ≠ []) : Bnd (s ++ t) := by
  cases s with
  | nil => exact absurd rfl hne
  | cons b s' => simpa [Bnd] using h

theorem next_name {buf : Buf} (g body rest : List UInt8) (pos : Nat) (hg : Gap g)
    (h : Suffix buf pos (g ++ (47 :: body) ++ rest)) (hreg : ∀ b ∈ body, isRegular b = true) (hb : Bnd rest) :
    next buf pos = .ok (pos + g.length, pos + g.length + (47 :: body).length) ∧
      slice buf (pos + g.length) (pos + g.length + (47 :: body).length) = 47 :: body := by
  have h' : Suffix buf pos (g ++ (47 :: body ++ rest)) := by simpa using h
  have h2 : Suffix buf (pos + g.length) (47 :: body ++ rest) := h'.drop
  refine ⟨?_, ?_⟩
  · rw [next_gap g _ hg ⟨47, _, rfl, by decide, by decide⟩ pos h', lexemeAt_name body rest _ h2 hreg hb]
    simp [Nat.add_assoc, Nat.add_comm 1]
  · exact Suffix.slice (a := 47 :: body) (s := rest) (by simpa using h2)

theorem delim_not_ws : ∀ d, isDelimiter d = true → isWhitespace d = false := by decide +kernel

/-- a one-character delimiter lexeme (`[`, `]`, `(`, `<` not doubled) after a gap -/
theorem next_delim {buf : Buf} (g : List UInt8) (d : UInt8) (rest : List UInt8) (pos : Nat) (hg : Gap g)
    (h : Suffix buf pos (g ++ d :: rest)) (hd : isDelimiter d = true) (h47 : d ≠ 47) (h37 : d ≠ 37)
    (hdbl : ¬ ((d = 60 ∨ d = 62) ∧ rest.head? = some d)) :
    next buf pos = .ok (pos + g.length, pos + g.length + 1) ∧ slice buf (pos + g.length) (pos + g.length + 1) = [d] := by
  have h2 : Suffix buf (pos + g.length) (d :: rest) := h.drop
  have hws : isWhitespace d = false := delim_not_ws d hd
  refine ⟨?_, ?_⟩
  · rw [next_gap g _ hg ⟨d, _, rfl, hws, h37⟩ pos h]
    exact lexemeAt_delim d _ _ h2 hd h47 hdbl
  · have := Suffix.slice (a := [d]) (s := rest) (by simpa using h2)
    simpa using this

theorem next_double {buf : Buf} (g : List UInt8) (d : UInt8) (rest : List UInt8) (pos : Nat) (hg : Gap g)
    (h : Suffix buf pos (g ++ d :: d :: rest)) (hd : d = 60 ∨ d = 62) :
    next buf pos = .ok (pos + g.length, pos + g.length + 2) ∧ slice buf (pos + g.length) (pos + g.length + 2) = [d, d] := by
  have h2 : Suffix buf (pos + g.length) (d :: d :: rest) := h.drop
  have hws : isWhitespace d = false ∧ d ≠ 37 := by rcases hd with rfl | rfl <;> decide
  refine ⟨?_, ?_⟩
  · rw [next_gap g _ hg ⟨d, _, rfl, hws.1, hws.2⟩ pos h]
    exact lexemeAt_double d _ _ h2 hd
  · have := Suffix.slice (a := [d, d]) (s := rest) (by simpa using h2)
    simpa using this


/-- facts about a lexeme that the loops of the parser test -/
structure LexFacts (t : List UInt8) : Prop where
  neR : t ≠ [82]
  neClose : t ≠ [93]
  neStream : t ≠ kwStream

theorem lexFacts_of_int {t : List UInt8} (h : isInteger t = true) : LexFacts t :=
  ⟨by intro e; rw [e] at h; revert h; decide, by intro e; rw [e] at h; revert h; decide,
   by intro e; rw [e] at h; revert h; decide⟩

theorem lexFacts_of_real {t : List UInt8} (h : realNumber t = some t) : LexFacts t :=
  ⟨by intro e; rw [e] at h; revert h; decide, by intro e; rw [e] at h; revert h; decide,
   by intro e; rw [e] at h; revert h; decide⟩

/-- the first lexeme of a spelling -/
theorem spells_first (pr : List UInt8 → Option R) (x : Prim R) (tx : List UInt8) (hx : Spells pr x tx) {buf : Buf}
    (g more : List UInt8) (q : Nat) (hg : Gap g) (h : Suffix buf q (g ++ tx ++ more))
    (hb : needsBnd x = true → Bnd more) :
    ∃ k t, 0 < k ∧ next buf q = .ok (q + g.length, q + g.length + k) ∧
      slice buf (q + g.length) (q + g.length + k) = t ∧ LexFacts t ∧
      (isInteger t = true → (k = tx.length ∧ ∃ i, x = .int i) ∨ NotR buf (q + g.length + k)) := by
  cases x with
  | null =>
    simp only [Spells] at hx; subst hx
    obtain ⟨hn, hsl⟩ := next_regular g PdfSyntax.kwNull more q hg h (by decide) kw_null_spec.2.2 (hb rfl)
    exact ⟨_, _, by decide, hn, hsl, ⟨by decide, by decide, by decide⟩, fun hi => absurd hi (by decide)⟩
  | bool b =>
    simp only [Spells] at hx; subst hx
    cases b with
    | true =>
      obtain ⟨hn, hsl⟩ := next_regular g PdfSyntax.kwTrue more q hg h (by decide) kw_true_spec.2.2 (hb rfl)
      exact ⟨_, _, by decide, hn, hsl, ⟨by decide, by decide, by decide⟩, fun hi => absurd hi (by decide)⟩
    | false =>
      obtain ⟨hn, hsl⟩ := next_regular g PdfSyntax.kwFalse more q hg h (by decide) kw_false_spec.2.2 (hb rfl)
      exact ⟨_, _, by decide, hn, hsl, ⟨by decide, by decide, by decide⟩, fun hi => absurd hi (by decide)⟩
  | int i =>
    simp only [Spells] at hx
    obtain ⟨h1, h2, h3, h4⟩ := intTok_spec tx i hx.1 hx.2.1 hx.2.2
    obtain ⟨hn, hsl⟩ := next_regular g tx more q hg h h3 h4 (hb rfl)
    refine ⟨tx.length, tx, ?_, hn, hsl, lexFacts_of_int h1, fun _ => Or.inl ⟨rfl, i, rfl⟩⟩
    cases tx with
    | nil => exact absurd rfl h3
    | cons => simp
  | real r =>
    simp only [Spells] at hx
    obtain ⟨h1, h2, h3, h4⟩ := realTok_spec tx hx.1
    obtain ⟨hn, hsl⟩ := next_regular g tx more q hg h h3 h4 (hb rfl)
    refine ⟨tx.length, tx, ?_, hn, hsl, lexFacts_of_real h2, fun hi => by rw [h1] at hi; simp at hi⟩
    cases tx with
    | nil => exact absurd rfl h3
    | cons => simp
  | str s =>
    simp only [Spells] at hx
    rcases hx with ⟨body, rfl, hl⟩ | ⟨body, rfl, hl⟩
    · obtain ⟨hn, hsl⟩ := next_delim g 40 (body ++ more) q hg (by simpa using h) (by decide) (by decide) (by decide) (by simp)
      exact ⟨1, [40], by decide, hn, hsl, ⟨by decide, by decide, by decide⟩, fun hi => absurd hi (by decide)⟩
    · have hhead : (body ++ more).head? ≠ some 60 := by
        have := hexBody_head hl
        cases body with
        | nil => exact absurd rfl (hexBody_ne_nil hl)
        | cons c b => simpa using this
      obtain ⟨hn, hsl⟩ := next_delim g 60 (body ++ more) q hg (by simpa using h) (by decide) (by decide) (by decide)
        (by simpa using hhead)
      exact ⟨1, [60], by decide, hn, hsl, ⟨by decide, by decide, by decide⟩, fun hi => absurd hi (by decide)⟩
  | name s =>
    simp only [Spells] at hx
    obtain ⟨body, rfl, hnb⟩ := hx
    obtain ⟨_, hreg⟩ := nameBody_spec body s hnb
    obtain ⟨hn, hsl⟩ := next_name g body more q hg h hreg (hb rfl)
    refine ⟨_, _, by simp, hn, hsl, ⟨by simp, by simp, by simp [kwStream]⟩, ?_⟩
    intro hi; simp [isInteger, allDigits, isDigit] at hi
  | ref id gen =>
    simp only [Spells] at hx
    obtain ⟨a, g1, b, g2, rfl, ha, hbt, hg1, hg1ne, hg2, hg2ne, hid, hgen⟩ := hx
    obtain ⟨a1, a2, a3, a4⟩ := natTok_spec a id ha hid
    obtain ⟨b1, b2, b3, b4⟩ := natTok_spec b gen hbt hgen
    have h1 : Suffix buf q (g ++ a ++ (g1 ++ b ++ g2 ++ [82] ++ more)) := by simpa using h
    obtain ⟨hn, hsl⟩ := next_regular g a _ q hg h1 a3 a4 (by simpa using gap_bnd hg1 hg1ne _)
    have h2 : Suffix buf (q + g.length + a.length) (g1 ++ b ++ (g2 ++ [82] ++ more)) := by
      have := Suffix.drop (a := g ++ a) (by simpa using h1)
      simpa [Nat.add_assoc] using this
    obtain ⟨hn2, hsl2⟩ := next_regular g1 b _ _ hg1 h2 b3 b4 (by simpa using gap_bnd hg2 hg2ne _)
    refine ⟨a.length, a, ?_, hn, hsl, lexFacts_of_int a1, fun _ => Or.inr (Or.inr ⟨_, hn2, ?_⟩)⟩
    · cases a with
      | nil => exact absurd rfl a3
      | cons => simp
    · rw [hsl2]; exact (lexFacts_of_int b1).neR
  | arr xs =>
    simp only [Spells] at hx
    obtain ⟨g0, r, rfl, _, _⟩ := hx
    obtain ⟨hn, hsl⟩ := next_delim g 91 (g0 ++ r ++ more) q hg (by simpa using h) (by decide) (by decide) (by decide) (by simp)
    exact ⟨1, [91], by decide, hn, hsl, ⟨by decide, by decide, by decide⟩, fun hi => absurd hi (by decide)⟩
  | dict kvs =>
    simp only [Spells] at hx
    obtain ⟨g0, r, rfl, _, _⟩ := hx
    obtain ⟨hn, hsl⟩ := next_double g 60 (g0 ++ r ++ more) q hg (by simpa using h) (Or.inl rfl)
    exact ⟨2, [60, 60], by decide, hn, hsl, ⟨by decide, by decide, by decide⟩, fun hi => absurd hi (by decide)⟩
  | stream info inner => simp [Spells] at hx


theorem spells_ne_nil (pr : List UInt8 → Option R) (v : Prim R) (t : List UInt8) (h : Spells pr v t) : t ≠ [] := by
  cases v with
  | null => simp only [Spells] at h; subst h; decide
  | bool b => simp only [Spells] at h; subst h; cases b <;> decide
  | int i => simp only [Spells] at h; exact (intTok_spec t i h.1 h.2.1 h.2.2).2.2.1
  | real r => simp only [Spells] at h; exact (realTok_spec t h.1).2.2.1
  | str s => simp only [Spells] at h; rcases h with ⟨b, rfl, _⟩ | ⟨b, rfl, _⟩ <;> simp
  | name s => simp only [Spells] at h; obtain ⟨b, rfl, _⟩ := h; simp
  | ref id gen => simp only [Spells] at h; obtain ⟨a, g1, b, g2, rfl, _⟩ := h; simp
  | arr xs => simp only [Spells] at h; obtain ⟨g, r, rfl, _⟩ := h; simp
  | dict kvs => simp only [Spells] at h; obtain ⟨g, r, rfl, _⟩ := h; simp
  | stream info inner => simp [Spells] at h

theorem spellsElems_ne_nil (pr : List UInt8 → Option R) (xs : List (Prim R)) :
    ∀ r, SpellsElems pr xs r → r ≠ [] := by
  induction xs with
  | nil => intro r h; simp only [SpellsElems] at h; subst h; simp
  | cons x xs ih =>
    intro r h
    simp only [SpellsElems] at h
    obtain ⟨tx, g, r', rfl, _, _, hr, _⟩ := h
    have := ih r' hr
    simp [this]

theorem spellsEntries_ne_nil (pr : List UInt8 → Option R) (kvs : List (List UInt8 × Prim R)) :
    ∀ r, SpellsEntries pr kvs r → r ≠ [] := by
  cases kvs with
  | nil => intro r h; simp only [SpellsEntries] at h; subst h; simp
  | cons kv kvs =>
    obtain ⟨k, v⟩ := kv
    intro r h
    simp only [SpellsEntries] at h
    obtain ⟨kb, g1, tv, g2, r', rfl, _⟩ := h
    simp

/-- after an array element: the rest of the array never merges with it -/
theorem ahead_elems (pr : List UInt8 → Option R) (xs : List (Prim R)) :
    ∀ (r : List UInt8), SpellsElems pr xs r → ∀ {buf : Buf} (g rest : List UInt8) (q : Nat), Gap g →
      Suffix buf q (g ++ r ++ rest) → Ahead buf q := by
  induction xs with
  | nil =>
    intro r h buf g rest q hg hs
    simp only [SpellsElems] at h; subst h
    obtain ⟨hn, hsl⟩ := next_delim g 93 rest q hg (by simpa using hs) (by decide) (by decide) (by decide) (by simp)
    exact ahead_of_lexeme _ [93] hn hsl (by decide) (by decide) (fun hi => absurd hi (by decide))
  | cons x xs ih =>
    intro r h buf g rest q hg hs
    simp only [SpellsElems] at h
    obtain ⟨tx, g', r', rfl, hx, hg', hr, hbnd⟩ := h
    have hne : g' ++ r' ≠ [] := by simp [spellsElems_ne_nil pr xs r' hr]
    have hs1 : Suffix buf q (g ++ tx ++ (g' ++ r' ++ rest)) := by simpa using hs
    obtain ⟨k, t, hk, hn, hsl, hf, hint⟩ := spells_first pr x tx hx g (g' ++ r' ++ rest) q hg hs1
      (fun hb => by simpa using bnd_append (t := rest) (hbnd hb) hne)
    refine ahead_of_lexeme _ t hn hsl hf.neR hf.neStream ?_
    intro hi
    rcases hint hi with ⟨hk', _⟩ | hnr
    · subst hk'
      have hs2 : Suffix buf (q + g.length + tx.length) (g' ++ r' ++ rest) := by
        have := Suffix.drop (a := g ++ tx) (by simpa using hs1)
        simpa [Nat.add_assoc] using this
      exact (ih r' hr g' rest _ hg' hs2).notR
    · exact hnr

/-- after a dictionary value: the next key or `>>` never merges with it -/
theorem ahead_entries (pr : List UInt8 → Option R) (kvs : List (List UInt8 × Prim R)) (r : List UInt8)
    (h : SpellsEntries pr kvs r) {buf : Buf} (g rest : List UInt8) (q : Nat) (hg : Gap g)
    (hs : Suffix buf q (g ++ r ++ rest)) : Ahead buf q := by
  cases kvs with
  | nil =>
    simp only [SpellsEntries] at h; subst h
    obtain ⟨hn, hsl⟩ := next_double g 62 rest q hg (by simpa using hs) (Or.inr rfl)
    exact ahead_of_lexeme _ [62, 62] hn hsl (by decide) (by decide) (fun hi => absurd hi (by decide))
  | cons kv kvs =>
    obtain ⟨k, v⟩ := kv
    simp only [SpellsEntries] at h
    obtain ⟨kb, g1, tv, g2, r', rfl, hnb, hg1, hb1, hv, hg2, hr, _⟩ := h
    obtain ⟨_, hreg⟩ := nameBody_spec kb k hnb
    have hne : g1 ++ tv ≠ [] := by
      simp [spells_ne_nil pr v tv hv]
    have hs1 : Suffix buf q (g ++ (47 :: kb) ++ (g1 ++ tv ++ g2 ++ r' ++ rest)) := by simpa using hs
    obtain ⟨hn, hsl⟩ := next_name g kb _ q hg hs1 hreg (by simpa using bnd_append (t := g2 ++ r' ++ rest) hb1 hne)
    refine ahead_of_lexeme _ (47 :: kb) hn hsl (by simp) (by simp [kwStream]) ?_
    intro hi; simp [isInteger, allDigits, isDigit] at hi


/-! ### containers: the main induction -/

open PdfSyntax (WF WFL WFE vdepth vdepthL vdepthE need needL needE keysOf)

theorem dictInsert_append (acc : Dict R) (k : List UInt8) (v : Prim R) (h : k ∉ keysOf acc) :
    dictInsert acc k v = acc ++ [(k, v)] := by
  induction acc with
  | nil => rfl
  | cons kv acc ih =>
    obtain ⟨k', v'⟩ := kv
    simp [keysOf] at h
    have hne : ¬ k' = k := fun e => h.1 e.symm
    simp only [dictInsert, hne, if_false, List.cons_append]
    rw [ih (by simpa [keysOf] using h.2)]

/-- the `ParseFlags` bit that admits a value of this kind (a stream needs `DICT`: the dictionary comes first) -/
def flagOf : Prim R → Nat
  | .null => Flags.null
  | .int _ => Flags.integer
  | .real _ => Flags.number
  | .bool _ => Flags.bool
  | .str _ => Flags.string
  | .stream _ _ => Flags.dict
  | .dict _ => Flags.dict
  | .arr _ => Flags.array
  | .ref _ _ => Flags.ref
  | .name _ => Flags.name

theorem any_allows (v : Prim R) : Flags.any &&& flagOf v ≠ 0 := by
  cases v <;> simp only [flagOf] <;> decide

mutual

theorem parseCtx_spells (env : Env R) (hd : env.decrypt = none) (v : Prim R) :
    ∀ (txt : List UInt8), Spells env.parseReal v txt → WF v → ∀ {buf : Buf}, buf.size ≤ 2147483647 →
      ∀ (g rest : List UInt8) (pos fuel : Nat) (ctx : Option (Nat × Nat)) (depth flags : Nat), Gap g →
      flags &&& flagOf v ≠ 0 →
      Suffix buf pos (g ++ txt ++ rest) → (needsBnd v = true → Bnd rest) → Ahead buf (pos + g.length + txt.length) →
      need v ≤ fuel → vdepth v ≤ depth →
      parseCtx env buf fuel pos ctx flags depth = .ok (v, pos + g.length + txt.length) := by
  intro txt hsp hwf buf hsz g rest pos fuel ctx depth flags hg hfl hs hb hah hfuel hdepth
  simp only [flagOf] at hfl
  have hend : pos + g.length + txt.length ≤ buf.size := by
    have := hs.size_eq; simp at this; omega
  cases v with
  | null =>
    obtain ⟨f, rfl⟩ : ∃ f, fuel = f + 2 := ⟨fuel - 2, by simp [need] at hfuel; omega⟩
    simp only [Spells] at hsp; subst hsp
    simp only [parseCtx, parseInner_null env g rest pos f ctx flags depth hfl hg hs (hb rfl)]
    rfl
  | bool b =>
    obtain ⟨f, rfl⟩ : ∃ f, fuel = f + 2 := ⟨fuel - 2, by simp [need] at hfuel; omega⟩
    simp only [Spells] at hsp; subst hsp
    simp only [parseCtx, parseInner_bool env b g rest pos f ctx flags depth hfl hg hs (hb rfl)]
    rfl
  | int i =>
    obtain ⟨f, rfl⟩ : ∃ f, fuel = f + 2 := ⟨fuel - 2, by simp [need] at hfuel; omega⟩
    simp only [Spells] at hsp
    simp only [parseCtx, parseInner_int env txt i g rest pos f ctx flags depth hfl hg hsp.1 hsp.2.1 hsp.2.2 hs (hb rfl)
      (intFollowOK_of_ahead hend hah)]
  | real r =>
    obtain ⟨f, rfl⟩ : ∃ f, fuel = f + 2 := ⟨fuel - 2, by simp [need] at hfuel; omega⟩
    simp only [Spells] at hsp
    simp only [parseCtx, parseInner_real env txt r g rest pos f ctx flags depth hfl hg hsp.1 hsp.2 hs (hb rfl)]
  | str s =>
    obtain ⟨f, rfl⟩ : ∃ f, fuel = f + 2 := ⟨fuel - 2, by simp [need] at hfuel; omega⟩
    simp only [Spells] at hsp
    rcases hsp with ⟨body, rfl, hl⟩ | ⟨body, rfl, hl⟩
    · simp only [parseCtx, parseInner_lit env hd body s g rest pos f ctx flags depth hfl hg hl hsz hs]
    · simp only [parseCtx, parseInner_hex env hd body s g rest pos f ctx flags depth hfl hg hl hsz hs]
  | name s =>
    obtain ⟨f, rfl⟩ : ∃ f, fuel = f + 2 := ⟨fuel - 2, by simp [need] at hfuel; omega⟩
    simp only [Spells] at hsp
    obtain ⟨body, rfl, hnb⟩ := hsp
    simp only [WF] at hwf
    simp only [parseCtx, parseInner_name env body s g rest pos f ctx flags depth hfl hg hnb hwf hs (hb rfl)]
  | ref id gen =>
    obtain ⟨f, rfl⟩ : ∃ f, fuel = f + 2 := ⟨fuel - 2, by simp [need] at hfuel; omega⟩
    simp only [Spells] at hsp
    obtain ⟨a, g1, b, g2, rfl, ha, hbt, hg1, hg1ne, hg2, hg2ne, hid, hgen⟩ := hsp
    simp only [parseCtx, parseInner_ref env a g1 b g2 id gen g rest pos f ctx flags depth hfl hg ha hbt hg1 hg1ne hg2 hg2ne hid hgen
      hs (hb rfl)]
  | stream info inner => simp [Spells] at hsp
  | arr xs =>
    obtain ⟨f, rfl⟩ : ∃ f, fuel = f + 2 := ⟨fuel - 2, by simp [need] at hfuel; omega⟩
    simp only [Spells] at hsp
    obtain ⟨g0, r, rfl, hg0, hr⟩ := hsp
    simp only [WF] at hwf
    simp only [need] at hfuel
    simp only [vdepth] at hdepth
    obtain ⟨hn, hsl⟩ := next_delim g 91 (g0 ++ r ++ rest) pos hg (by simpa using hs) (by decide) (by decide) (by decide) (by simp)
    have hs2 : Suffix buf (pos + g.length + 1) (g0 ++ r ++ rest) := by
      have := Suffix.drop (a := g ++ [91]) (s := g0 ++ r ++ rest) (by simpa using hs)
      simpa [Nat.add_assoc] using this
    have harr := parseArray_spells env hd xs r hr hwf hsz g0 rest (pos + g.length + 1) f ctx (depth - 1) [] hg0 hs2
      (by
        have hs3 : Suffix buf (pos + g.length + 1 + g0.length + r.length) rest := by
          have := Suffix.drop (a := g0 ++ r) (by simpa using hs2)
          simpa [Nat.add_assoc] using this
        have : pos + g.length + (91 :: g0 ++ r).length = pos + g.length + 1 + g0.length + r.length := by simp; omega
        rw [this] at hah; exact hah)
      (by omega) (by omega)
    have hint : isInteger [91] = false := by decide
    have hreal : realNumber [91] = none := by decide
    have e1 : (([91] : List UInt8) == [60, 60]) = false := by decide
    have e2 : ((([91] : List UInt8).head?) == some 47) = false := by decide
    have e3 : (([91] : List UInt8) == [91]) = true := by decide
    have c1 : check flags Flags.array = .ok () := check_ok hfl
    have hd0 : (depth == 0) = false := by simp; omega
    simp only [parseCtx, parseInner, remainingStart_ok hs.le, hn, Out.bind_ok, hsl, e1, e2, e3, hint, hreal,
      Bool.false_eq_true, if_false, if_true, c1, hd0, harr]
    simp; omega
  | dict kvs =>
    obtain ⟨f, rfl⟩ : ∃ f, fuel = f + 2 := ⟨fuel - 2, by simp [need] at hfuel; omega⟩
    simp only [Spells] at hsp
    obtain ⟨g0, r, rfl, hg0, hr⟩ := hsp
    simp only [WF] at hwf
    simp only [need] at hfuel
    simp only [vdepth] at hdepth
    obtain ⟨hn, hsl⟩ := next_double g 60 (g0 ++ r ++ rest) pos hg (by simpa using hs) (Or.inl rfl)
    have hs2 : Suffix buf (pos + g.length + 2) (g0 ++ r ++ rest) := by
      have := Suffix.drop (a := g ++ [60, 60]) (s := g0 ++ r ++ rest) (by simpa using hs)
      simpa [Nat.add_assoc] using this
    have hpos : pos + g.length + (60 :: 60 :: g0 ++ r).length = pos + g.length + 2 + g0.length + r.length := by simp; omega
    rw [hpos] at hah hend
    have hdict := parseDict_spells env hd kvs r hr hwf.1 hsz g0 rest (pos + g.length + 2) f ctx (depth - 1) [] hg0 hs2
      (by simpa [keysOf] using hwf.2) (by simp [keysOf]) (by omega) (by omega)
    obtain ⟨pk, hpk, hpks⟩ := dictFollowOK_of_ahead hend hah
    have hpks' : (slice buf pk.1 pk.2 == kwStream) = false := by simpa using hpks
    have e1 : (([60, 60] : List UInt8) == [60, 60]) = true := by decide
    have c1 : check flags Flags.dict = .ok () := check_ok hfl
    have hd0 : (depth == 0) = false := by simp; omega
    simp only [parseCtx, parseInner, remainingStart_ok hs.le, hn, Out.bind_ok, hsl, e1, if_true, c1, hd0,
      Bool.false_eq_true, if_false, hdict, hpk, hpks', List.nil_append, hpos]

theorem parseArray_spells (env : Env R) (hd : env.decrypt = none) (xs : List (Prim R)) :
    ∀ (r : List UInt8), SpellsElems env.parseReal xs r → WFL xs → ∀ {buf : Buf}, buf.size ≤ 2147483647 →
      ∀ (g rest : List UInt8) (pos fuel : Nat) (ctx : Option (Nat × Nat)) (depth : Nat) (acc : List (Prim R)), Gap g →
      Suffix buf pos (g ++ r ++ rest) → Ahead buf (pos + g.length + r.length) →
      needL xs ≤ fuel → vdepthL xs ≤ depth →
      parseArray env buf fuel pos ctx depth acc = .ok (.arr (acc.reverse ++ xs), pos + g.length + r.length) := by
  intro r hr hwf buf hsz g rest pos fuel ctx depth acc hg hs hah hfuel hdepth
  cases xs with
  | nil =>
    obtain ⟨f, rfl⟩ : ∃ f, fuel = f + 1 := ⟨fuel - 1, by simp [needL] at hfuel; omega⟩
    simp only [SpellsElems] at hr; subst hr
    obtain ⟨hn, hsl⟩ := next_delim g 93 rest pos hg (by simpa using hs) (by decide) (by decide) (by decide) (by simp)
    simp only [parseArray, peek_ok hn, Out.bind_ok, hsl, beq_self_eq_true, if_true, hn]
    simp
  | cons x xs =>
    obtain ⟨f, rfl⟩ : ∃ f, fuel = f + 1 := ⟨fuel - 1, by simp [needL] at hfuel; omega⟩
    simp only [SpellsElems] at hr
    obtain ⟨tx, g', r', rfl, hx, hg', hr', hbnd⟩ := hr
    simp only [WFL] at hwf
    simp only [needL] at hfuel
    simp only [vdepthL] at hdepth
    have hne : g' ++ r' ≠ [] := by simp [spellsElems_ne_nil env.parseReal xs r' hr']
    have hs1 : Suffix buf pos (g ++ tx ++ (g' ++ r' ++ rest)) := by simpa using hs
    obtain ⟨k, t, hk, hn, hsl, hf, _⟩ := spells_first env.parseReal x tx hx g (g' ++ r' ++ rest) pos hg hs1
      (fun hb => by simpa using bnd_append (t := rest) (hbnd hb) hne)
    have hs2 : Suffix buf (pos + g.length + tx.length) (g' ++ r' ++ rest) := by
      have := Suffix.drop (a := g ++ tx) (by simpa using hs1)
      simpa [Nat.add_assoc] using this
    have hx' := parseCtx_spells env hd x tx hx hwf.1 hsz g (g' ++ r' ++ rest) pos f ctx depth Flags.any hg (any_allows x) hs1
      (fun hb => by simpa using bnd_append (t := rest) (hbnd hb) hne)
      (ahead_elems env.parseReal xs r' hr' g' rest _ hg' hs2) (by omega) (by omega)
    have hpos : pos + g.length + (tx ++ g' ++ r').length = pos + g.length + tx.length + g'.length + r'.length := by
      simp; omega
    rw [hpos] at hah
    have hxs := parseArray_spells env hd xs r' hr' hwf.2 hsz g' rest (pos + g.length + tx.length) f ctx depth (x :: acc)
      hg' hs2 hah (by omega) (by omega)
    have hne93 : (t == [93]) = false := by simpa using hf.neClose
    simp only [parseArray, peek_ok hn, Out.bind_ok, hsl, hne93, Bool.false_eq_true, if_false, hx', hxs, hpos]
    simp

theorem parseDict_spells (env : Env R) (hd : env.decrypt = none) (kvs : List (List UInt8 × Prim R)) :
    ∀ (r : List UInt8), SpellsEntries env.parseReal kvs r → WFE kvs → ∀ {buf : Buf}, buf.size ≤ 2147483647 →
      ∀ (g rest : List UInt8) (pos fuel : Nat) (ctx : Option (Nat × Nat)) (depth : Nat) (acc : Dict R), Gap g →
      Suffix buf pos (g ++ r ++ rest) →
      (keysOf kvs).Nodup → (∀ k ∈ keysOf kvs, k ∉ keysOf acc) →
      needE kvs ≤ fuel → vdepthE kvs ≤ depth →
      parseDict env buf fuel pos ctx depth acc = .ok (acc ++ kvs, pos + g.length + r.length) := by
  intro r hr hwf buf hsz g rest pos fuel ctx depth acc hg hs hnd hdisj hfuel hdepth
  cases kvs with
  | nil =>
    obtain ⟨f, rfl⟩ : ∃ f, fuel = f + 1 := ⟨fuel - 1, by simp [needE] at hfuel; omega⟩
    simp only [SpellsEntries] at hr; subst hr
    obtain ⟨hn, hsl⟩ := next_double g 62 rest pos hg (by simpa using hs) (Or.inr rfl)
    have e1 : ((([62, 62] : List UInt8).head?) == some 47) = false := by decide
    simp only [parseDict, hn, Out.bind_ok, hsl, e1, Bool.false_eq_true, if_false, beq_self_eq_true, if_true]
    simp
  | cons kv kvs =>
    obtain ⟨k, v⟩ := kv
    obtain ⟨f, rfl⟩ : ∃ f, fuel = f + 1 := ⟨fuel - 1, by simp [needE] at hfuel; omega⟩
    simp only [SpellsEntries] at hr
    obtain ⟨kb, g1, tv, g2, r', rfl, hnb, hg1, hb1, hv, hg2, hr', hbnd⟩ := hr
    simp only [WFE] at hwf
    simp only [needE] at hfuel
    simp only [vdepthE] at hdepth
    obtain ⟨hun, hreg⟩ := nameBody_spec kb k hnb
    have hne1 : g1 ++ tv ≠ [] := by simp [spells_ne_nil env.parseReal v tv hv]
    have hne2 : g2 ++ r' ≠ [] := by simp [spellsEntries_ne_nil env.parseReal kvs r' hr']
    have hs1 : Suffix buf pos (g ++ (47 :: kb) ++ (g1 ++ tv ++ g2 ++ r' ++ rest)) := by simpa using hs
    obtain ⟨hn, hsl⟩ := next_name g kb _ pos hg hs1 hreg (by simpa using bnd_append (t := g2 ++ r' ++ rest) hb1 hne1)
    have hs2 : Suffix buf (pos + g.length + (47 :: kb).length) (g1 ++ tv ++ (g2 ++ r' ++ rest)) := by
      have := Suffix.drop (a := g ++ (47 :: kb)) (by simpa using hs1)
      simpa [Nat.add_assoc] using this
    have hs3 : Suffix buf (pos + g.length + (47 :: kb).length + g1.length + tv.length) (g2 ++ r' ++ rest) := by
      have := Suffix.drop (a := g1 ++ tv) (by simpa using hs2)
      simpa [Nat.add_assoc] using this
    have hv' := parseCtx_spells env hd v tv hv hwf.2.1 hsz g1 (g2 ++ r' ++ rest) (pos + g.length + (47 :: kb).length) f ctx
      depth Flags.any hg1 (any_allows v) hs2 (fun hb => by simpa using bnd_append (t := rest) (hbnd hb) hne2)
      (ahead_entries env.parseReal kvs r' hr' g2 rest _ hg2 hs3) (by omega) (by omega)
    have hpos : pos + g.length + (47 :: kb ++ g1 ++ tv ++ g2 ++ r').length =
        pos + g.length + (47 :: kb).length + g1.length + tv.length + g2.length + r'.length := by
      simp; omega
    simp only [keysOf, List.map_cons, List.nodup_cons] at hnd
    have hk : k ∉ keysOf acc := hdisj k (by simp [keysOf])
    have hkvs := parseDict_spells env hd kvs r' hr' hwf.2.2 hsz g2 rest
      (pos + g.length + (47 :: kb).length + g1.length + tv.length) f ctx depth (acc ++ [(k, v)]) hg2 hs3 hnd.2
      (by
        intro k' hk' hc
        simp [keysOf] at hc
        rcases hc with hc | hc
        · exact hdisj k' (by simp [keysOf] at hk' ⊢; exact Or.inr hk') (by simpa [keysOf] using hc)
        · subst hc; exact hnd.1 (by simpa [keysOf] using hk'))
      (by omega) (by omega)
    have e1 : (((47 :: kb : List UInt8).head?) == some 47) = true := by simp
    have hdn : decodeName ((47 :: kb).drop 1) = .ok k := by simp [decodeName, hun, hwf.1]
    simp only [parseDict, hn, Out.bind_ok, hsl, e1, if_true, hdn, hv', dictInsert_append acc k v hk, hkvs, hpos]
    simp

end

end PdfLex
