import PdfModel.Model.HandTower
import PdfModel.Lemmas.DeriveRegistryTotal
import PdfModel.Lemmas.TotalTyped
import PdfModel.Lemmas.TotalDate
import PdfModel.Lemmas.TotalColorSpace
import PdfModel.Lemmas.TotalFont

/-!
  The typed layer with the modelled hand-written readers plugged in is total (C01): `semM_clean`.
-/

namespace Derive

theorem resolve1_plain {env : Env} (he : EnvOk env) (p : Prim) (hp : p.plain = true) (q : Prim)
    (h : resolve1 env p = .ok q) : q.plain = true := ((resolveP_spec he p hp).2 q h).1

theorem readNums_clean_plain (rdT : Prim → R Val) (h : ∀ v, v.plain = true → Clean (rdT v)) :
    ∀ xs, plainList xs = true → Clean (readNums rdT xs) := by
  intro xs
  fun_induction readNums rdT xs <;> simp_all [Clean, Err.hasOof, plainList] <;> grind [Err.hasOof]

theorem readNames_clean_plain {env : Env} (he : EnvOk env) (rdT : Prim → R Val)
    (h : ∀ v, v.plain = true → Clean (rdT v)) : ∀ xs, plainList xs = true → Clean (readNames rdT env xs) := by
  intro xs
  have h1 := resolve1_clean he.clean
  fun_induction readNames rdT env xs <;> simp_all [Clean, Err.hasOof, plainList] <;> grind [Err.hasOof]

/-- `NumberTree<T>::from_primitive` with a reader of `T` that is clean on plain input -/
theorem readNumTree_clean_plain {env : Env} (he : EnvOk env) (rdT : Prim → R Val)
    (h : ∀ v, v.plain = true → Clean (rdT v)) (p : Prim) (hp : p.plain = true) : Clean (readNumTree rdT env p) := by
  have h1 := resolve1_clean he.clean
  have h2 := asRefs_clean
  have h3 := readNums_clean_plain rdT h
  have hplain : ∀ d xs, resolve1 env p = .ok (.dict d) → dget "Nums" d = some (.arr xs) → plainList xs = true := by
    intro d xs hd hn
    have hdp : plainKV d = true := by simpa [Prim.plain] using resolve1_plain he p hp _ hd
    simpa [Prim.plain] using dget_plain hdp _ _ hn
  unfold readNumTree
  simp only [Clean] at *
  intro e
  repeat' split
  all_goals (intro hh; first | (cases hh; first | rfl | (apply h1; assumption) | (apply h2; assumption)) | skip)
  all_goals first
    | (cases hh; exact h3 _ (hplain _ _ (by assumption) (by assumption)) _ (by assumption))
    | grind [Err.hasOof]

/-- `NameTree<T>::from_primitive` with a reader of `T` that is clean on plain input -/
theorem readNameTree_clean_plain {env : Env} (he : EnvOk env) (rdT : Prim → R Val)
    (h : ∀ v, v.plain = true → Clean (rdT v)) (p : Prim) (hp : p.plain = true) : Clean (readNameTree rdT env p) := by
  have h1 := resolve1_clean he.clean
  have h2 := asRefs_clean
  have h3 := readNames_clean_plain he rdT h
  have hplain : ∀ d names xs, resolve1 env p = .ok (.dict d) → dget "Names" d = some names →
      resolve1 env names = .ok (.arr xs) → plainList xs = true := by
    intro d names xs hd hn hr
    have hdp : plainKV d = true := by simpa [Prim.plain] using resolve1_plain he p hp _ hd
    simpa [Prim.plain] using resolve1_plain he names (dget_plain hdp _ _ hn) _ hr
  unfold readNameTree
  simp only [Clean] at *
  intro e
  repeat' split
  all_goals (intro hh; first | (cases hh; first | rfl | (apply h1; assumption) | (apply h2; assumption)) | skip)
  all_goals first
    | (cases hh; exact h3 _ (hplain _ _ _ (by assumption) (by assumption) (by assumption)) _ (by assumption))
    | grind [Err.hasOof]

theorem readDateP_clean {env : Env} (he : EnvOk env) (p : Prim) : Clean (readDateP env p) := by
  have h1 := resolve1_clean he.clean p
  unfold readDateP
  cases hr : resolve1 env p with
  | error e => exact clean_err e (h1 e hr)
  | ok q =>
    cases q with
    | str bs =>
      simp only []
      have := DateRead.readDate_total bs
      cases hd : DateRead.readDate bs with
      | ok d => exact clean_ok _
      | err => exact clean_err _ rfl
      | panic => exact absurd hd this.1
      | oof => exact absurd hd this.2
    | _ => exact clean_err _ rfl

theorem readDestP_clean {env : Env} (he : EnvOk env) (p : Prim) : Clean (readDestP env p) :=
  map_clean _ _ (readDest_clean he.clean p)

theorem readColorSpaceP_clean {env : Env} (he : EnvOk env) (p : Prim) (hp : p.plain = true) :
    Clean (readColorSpaceP env p) :=
  map_clean _ _ (CSLoad.csRead_clean (se := { env := env, streams := fun _ => none }) he 5 p hp)

theorem fontSchemas_mem {schemas : List Schema} {S : FontLoad.Schemas} (h : fontSchemas schemas = some S) :
    S.type0 ∈ schemas ∧ S.tfont ∈ schemas ∧ S.cid ∈ schemas := by
  unfold fontSchemas at h
  split at h
  · rename_i a b c d ha hb hc hd
    cases h
    exact ⟨findSchema_mem_c01 hb, findSchema_mem_c01 hc, findSchema_mem_c01 hd⟩
  · cases h

/-- the modelled hand-written readers are clean on top of clean readers one level down -/
theorem handM_clean (cfg : Cfg) (schemas : List Schema) (hreg : RegistryOk schemas)
    (hfs : (fontSchemas schemas).isSome = true) (inner : Sem) (hdf : inner.dflt = dfltH schemas) {env : Env}
    (he : EnvOk env) (hall : ∀ s p, p.plain = true → Clean (inner.rd env s p)) (s : Shape) (p : Prim)
    (hp : p.plain = true) : Clean (handM cfg schemas inner env s p) := by
  have hshape : ∀ t q, q.plain = true → Clean (readShape cfg inner env t q) := by
    intro t q hq
    refine readShape_clean cfg inner he t ?_ q hq
    induction t with
    | pair a b iha ihb => exact ⟨iha, ihb⟩
    | option a ih => exact ih
    | vec a ih => exact ih
    | hashMap a ih => exact ih
    | box a ih => exact ih
    | maybeRef a ih => exact ih
    | rcRef a ih => exact ih
    | ref a _ => trivial
    | lazy a _ => trivial
    | leaf n => exact fun p hp => hall _ p hp
    | leafApp n a _ => exact fun p hp => hall _ p hp
    | model n => exact fun p hp => hall _ p hp
    | modelApp n a _ => exact fun p hp => hall _ p hp
    | param n => exact fun p hp => hall _ p hp
  cases s with
  | leaf n =>
    simp only [handM]
    split
    · exact readDateP_clean he p
    · split
      · exact readDestP_clean he p
      · split
        · exact readAction_clean he.clean _ (fun q => readDestP_clean he q) p
        · split
          · exact readColorSpaceP_clean he p hp
          · split
            · cases hS : fontSchemas schemas with
              | none => simp [hS] at hfs
              | some S =>
                simp only []
                obtain ⟨m0, m1, m2⟩ := fontSchemas_mem hS
                refine map_clean _ _ (FontLoad.readFont_clean cfg inner S he ?_ p hp)
                exact ⟨schemaOk_of_inner schemas inner hdf env hall _ (hreg.dflt _ m0),
                       schemaOk_of_inner schemas inner hdf env hall _ (hreg.dflt _ m1),
                       schemaOk_of_inner schemas inner hdf env hall _ (hreg.dflt _ m2),
                       fun q hq => hall _ q hq⟩
            · exact clean_err _ rfl
  | leafApp n t =>
    simp only [handM]
    split
    · exact map_clean _ _ (readNumTree_clean_plain he _ (hshape t) p hp)
    · split
      · exact map_clean _ _ (readNameTree_clean_plain he _ (hshape t) p hp)
      · exact clean_err _ rfl
  | _ => exact clean_err _ rfl

theorem semM_dflt (cfg : Cfg) (schemas : List Schema) (other) (n : Nat) :
    (semM cfg schemas other n).dflt = dfltH schemas := by
  cases n <;> rfl

/-- **The typed layer is total: derived schema OR one of the modelled hand-written readers.** At every nesting budget,
    for every shape and every plain primitive, strict and tolerant: a value or an error of the implementation — given
    that the readers of the hand-written shapes that are *not* modelled on primitives (`other`: the readers of stream
    objects) are. -/
theorem semM_clean (cfg : Cfg) (schemas : List Schema) (hreg : RegistryOk schemas)
    (hfs : (fontSchemas schemas).isSome = true) (other : Env → Shape → Prim → R Val)
    (hother : ∀ env, EnvOk env → ∀ s p, p.plain = true → Clean (other env s p)) :
    ∀ (n : Nat) (env : Env), EnvOk env → ∀ s p, p.plain = true → Clean ((semM cfg schemas other n).rd env s p) := by
  intro n
  induction n with
  | zero =>
    intro env he s p hp
    refine semH_clean cfg schemas hreg _ ?_ 0 env he s p hp
    intro env he s p hp
    split
    · exact clean_err _ rfl
    · exact hother env he s p hp
  | succ n ih =>
    intro env he s p hp
    show Clean (if isHand schemas s then
        (if isModelledHand s then handM cfg schemas (semM cfg schemas other n) env s p else other env s p)
      else (structSem cfg schemas (semM cfg schemas other n)).rd env s p)
    split
    · split
      · exact handM_clean cfg schemas hreg hfs _ (semM_dflt cfg schemas other n) he (fun s p hp => ih env he s p hp) s p hp
      · exact hother env he s p hp
    · rename_i hnh
      exact structSem_clean cfg schemas hreg _ (semM_dflt cfg schemas other n) he (fun s p hp => ih env he s p hp) s hnh p hp

end Derive
