import PdfModel.Lemmas.EncPng

set_option linter.unusedSimpArgs false

/-! Whole images: the row loop of `unpredict` (offsets, slices, fuel) decodes every PNG-predicted image. -/

namespace Enc
open Codecs

theorem predictorOfU8_tag (t : PredictorType) : predictorOfU8 (UInt8.ofNat (tagOf t)) = some t := by
  cases t <;> decide

/-- rows still to be decoded: (type, original row) -/
abbrev Rows := List (PredictorType × Bytes)

def encRows (bpp : Nat) (prev : Bytes) (rs : Rows) : Bytes :=
  pngPredictRows bpp prev (rs.map fun r => (tagOf r.1, r.2))

def flat (rs : Rows) : Bytes := (rs.map (·.2)).flatten

theorem encRows_cons (bpp : Nat) (prev : Bytes) (t : PredictorType) (row : Bytes) (rs : Rows) :
    encRows bpp prev ((t, row) :: rs) = UInt8.ofNat (tagOf t) :: (pngFilterRow (tagOf t) bpp prev row ++ encRows bpp row rs) := by
  simp [encRows, pngPredictRows]

theorem pngLoop_rows (bpp S : Nat) (hb1 : 1 ≤ bpp) (hbs : bpp ≤ S) (nullVec : Bytes) (hnull : nullVec.length = S) :
    ∀ (rs : Rows) (pre done prevRow trailing : Bytes) (fuel lastOff : Nat),
      (∀ r ∈ rs, r.2.length = S) → trailing.length ≤ S → rs.length < fuel → prevRow.length = S →
      (done = [] → prevRow = nullVec) →
      (done ≠ [] → lastOff ≤ done.length ∧ done.drop lastOff = prevRow) →
      pngLoop bpp S (pre ++ encRows bpp prevRow rs ++ trailing) nullVec fuel pre.length done.length lastOff
        (done ++ List.replicate (rs.length * S) 0) = .ok (done ++ flat rs) := by
  intro rs
  induction rs with
  | nil =>
    intro pre done prevRow trailing fuel lastOff _ htr hf _ _ _
    cases fuel with
    | zero => simp at hf
    | succ f =>
      have : ¬ (pre.length + S < (pre ++ encRows bpp prevRow [] ++ trailing).length) := by
        simp [encRows, pngPredictRows]; omega
      rw [pngLoop]
      simp only [this, not_false_eq_true, if_true]
      simp [flat]
  | cons r rs ih =>
    intro pre done prevRow trailing fuel lastOff hrows htr hf hprev hnil hlast
    obtain ⟨t, row⟩ := r
    have hrow : row.length = S := hrows (t, row) (by simp)
    cases fuel with
    | zero => simp at hf
    | succ f =>
      rw [encRows_cons]
      generalize hfr : pngFilterRow (tagOf t) bpp prevRow row = frow
      have hfl : frow.length = S := by rw [← hfr, length_filterRow, hrow]
      generalize hrest : encRows bpp row rs = rest
      have hcond : pre.length + S < (pre ++ UInt8.ofNat (tagOf t) :: (frow ++ rest) ++ trailing).length := by
        simp; omega
      have hget : (pre ++ UInt8.ofNat (tagOf t) :: (frow ++ rest) ++ trailing)[pre.length]? = some (UInt8.ofNat (tagOf t)) := by
        simp [List.getElem?_append_right]
      have hinb : ¬ (pre.length + 1 + S > (pre ++ UInt8.ofNat (tagOf t) :: (frow ++ rest) ++ trailing).length) := by
        simp; omega
      have hrowIn : ((pre ++ UInt8.ofNat (tagOf t) :: (frow ++ rest) ++ trailing).drop (pre.length + 1)).take S = frow := by
        have : (pre ++ UInt8.ofNat (tagOf t) :: (frow ++ rest) ++ trailing).drop (pre.length + 1) = frow ++ (rest ++ trailing) := by
          simp [List.drop_append]
        rw [this, List.take_append_of_le_length (by omega), ← hfl, List.take_length]
      have hmul : ((t, row) :: rs).length * S = S + rs.length * S := by
        simp [Nat.add_mul, Nat.add_comm]
      have hrep : List.replicate (((t, row) :: rs).length * S) (0 : UInt8) = List.replicate S 0 ++ List.replicate (rs.length * S) 0 := by
        rw [hmul, ← List.replicate_append_replicate]
      have hrowOut : ((done ++ List.replicate (((t, row) :: rs).length * S) (0 : UInt8)).drop done.length).take S = List.replicate S 0 := by
        rw [hrep]; simp [List.drop_append, List.take_append]
      have htakeDone : (done ++ List.replicate (((t, row) :: rs).length * S) (0 : UInt8)).take done.length = done := by
        simp [List.take_append]
      have hdropNext : (done ++ List.replicate (((t, row) :: rs).length * S) (0 : UInt8)).drop (done.length + S) = List.replicate (rs.length * S) 0 := by
        rw [hrep]; simp [List.drop_append]
      have holen : (done ++ List.replicate (((t, row) :: rs).length * S) (0 : UInt8)).length = done.length + (S + rs.length * S) := by
        rw [List.length_append, List.length_replicate, hmul]
      rw [pngLoop]
      simp only [hcond, not_true_eq_false, if_false, hget, predictorOfU8_tag, hinb, hrowIn, hrowOut, htakeDone, hdropNext, holen]
      have hnext : pngLoop bpp S (pre ++ UInt8.ofNat (tagOf t) :: (frow ++ rest) ++ trailing) nullVec f
          (pre.length + 1 + S) (done.length + S) done.length (done ++ row ++ List.replicate (rs.length * S) 0)
          = .ok (done ++ flat ((t, row) :: rs)) := by
        have := ih (pre ++ UInt8.ofNat (tagOf t) :: frow) (done ++ row) row trailing f done.length
          (fun r hr => hrows r (by simp [hr])) htr (by simp at hf; omega) hrow
          (by intro h; simp at h; have := h.2; subst this; simp at hrow; omega)
          (by intro _; exact ⟨by simp, by simp⟩)
        rw [hrest] at this
        simp only [List.length_append, List.length_cons, hfl, hrow, List.append_assoc, List.cons_append] at this
        simp only [List.append_assoc, List.cons_append]
        rw [show pre.length + 1 + S = pre.length + (S + 1) by omega]
        rw [this]
        simp [flat]
      by_cases hd : done = []
      · subst hd
        have hp := hnil rfl
        subst hp
        simp only [List.length_nil, if_true, Nat.zero_add, show ¬ (S > S + rs.length * S) by omega, if_false]
        rw [← hfr, unfilter_filter t bpp prevRow row (List.replicate S 0) hb1 (by omega) (by omega) (by simp [hrow])]
        simp only [hfr]
        simpa using hnext
      · obtain ⟨hl1, hl2⟩ := hlast hd
        have hdl : done.length ≠ 0 := by
          intro h; exact hd (List.eq_nil_of_length_eq_zero h)
        simp only [hdl, if_false, show ¬ (done.length > done.length + (S + rs.length * S)) by omega,
          show ¬ (lastOff > done.length) by omega, show ¬ (S > done.length + (S + rs.length * S) - done.length) by omega, hl2]
        rw [← hfr, unfilter_filter t bpp prevRow row (List.replicate S 0) hb1 (by omega) (by omega) (by simp [hrow])]
        simp only [hfr]
        exact hnext

theorem encRows_length (bpp S : Nat) : ∀ (rs : Rows) (prev : Bytes), (∀ r ∈ rs, r.2.length = S) →
    (encRows bpp prev rs).length = rs.length * (S + 1) := by
  intro rs
  induction rs with
  | nil => intro prev _; simp [encRows, pngPredictRows]
  | cons r rs ih =>
    intro prev h
    obtain ⟨t, row⟩ := r
    rw [encRows_cons]
    have hrow : row.length = S := h (t, row) (by simp)
    simp only [List.length_cons, List.length_append, length_filterRow, hrow, ih row (fun r hr => h r (by simp [hr]))]
    rw [Nat.add_mul]; omega

theorem geometry_bounds {p : Params} {bpp S : Nat} (h : predictorGeometry p = .ok (bpp, S)) : 1 ≤ bpp ∧ bpp ≤ S := by
  unfold predictorGeometry at h
  split at h
  · simp at h
  · rename_i hv
    have hc : 1 ≤ p.colors := by omega
    have hcol : 1 ≤ p.columns := by omega
    have hb : 1 ≤ p.bpc := by omega
    dsimp only at h
    split at h
    · simp only [Out.ok.injEq, Prod.mk.injEq] at h
      obtain ⟨h1, h2⟩ := h
      have hc' : 1 ≤ p.colors.toNat := by omega
      have hcol' : 1 ≤ p.columns.toNat := by omega
      have hb' : 1 ≤ p.bpc.toNat := by omega
      have hpb : 1 ≤ p.colors.toNat * p.bpc.toNat := Nat.mul_le_mul hc' hb'
      have hmono : p.colors.toNat * p.bpc.toNat ≤ p.colors.toNat * p.bpc.toNat * p.columns.toNat :=
        Nat.le_mul_of_pos_right _ (by omega)
      generalize p.colors.toNat * p.bpc.toNat = x at *
      generalize x * p.columns.toNat = y at *
      omega
    · simp at h

/-- **whole image**: every image made of complete rows, PNG-predicted with any per-row choice of filter
    types, is restored by `unpredict` (no panic, no fuel exhaustion, the original bytes) -/
theorem unpredict_png (p : Params) (bpp S : Nat) (hp : p.predictor ≥ 10)
    (hg : predictorGeometry p = .ok (bpp, S)) (rs : Rows) (hrows : ∀ r ∈ rs, r.2.length = S) :
    unpredict (encRows bpp (List.replicate S 0) rs) p = .ok (flat rs) := by
  obtain ⟨hb1, hbs⟩ := geometry_bounds hg
  unfold unpredict
  simp only [hp, if_true, hg]
  have hlen := encRows_length bpp S rs (List.replicate S 0) hrows
  have hdiv : (encRows bpp (List.replicate S 0) rs).length / (S + 1) = rs.length := by
    rw [hlen]; exact Nat.mul_div_cancel _ (by omega)
  rw [hdiv]
  by_cases h0 : rs.length = 0
  · have : rs = [] := List.eq_nil_of_length_eq_zero h0
    subst this
    simp [flat]
  · simp only [h0, if_false]
    have := pngLoop_rows bpp S hb1 hbs (List.replicate S 0) (by simp) rs [] [] (List.replicate S 0) []
      ((encRows bpp (List.replicate S 0) rs).length + 1) 0 hrows (by simp) (by rw [hlen, Nat.mul_add]; omega) (by simp)
      (fun _ => rfl) (fun h => absurd rfl h)
    simpa using this

end Enc
